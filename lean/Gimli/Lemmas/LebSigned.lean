import Gimli.Lemmas.Leb
/-! Signed LEB128: reading what `Leb128::signed` writes gives the value back (`signed_roundtrip`).
The decoding loop is followed through the encoding loop group by group; the bit operations are
turned into arithmetic by `or_step`/`signext`, and the remaining integer arithmetic is closed by
`omega` after splitting on the (at most ten) group positions. Used by C03 for `DW_FORM_sdata`. -/
set_option linter.unusedSimpArgs false
namespace Gimli.Leb
open Gimli

/-- the sign extension and `as i64` of `leb128::read::signed` -/
def finish (res sh : Nat) (byte : UInt8) : Int :=
  toI64 (if sh < 64 ∧ (byte.toNat / 64) % 2 = 1 then res ||| ((2 ^ 64 - 1) <<< sh % 2 ^ 64) else res)

theorem signed_eq (bs : Bytes) :
    signed bs = (signedLoop bs 0 0 >>= fun x => pure (finish x.1 x.2.1 x.2.2.1, x.2.2.2)) := by
  unfold signed finish
  cases signedLoop bs 0 0 with
  | ok p => obtain ⟨a, b, c, d⟩ := p; rfl
  | err e => rfl
  | panic w => rfl
  | diverge => rfl

theorem or_add_of_lt (a b n : Nat) (hb : b < 2 ^ n) : b ||| (a <<< n) = b + a * 2 ^ n := by
  rw [Nat.or_comm, ← Nat.shiftLeft_add_eq_or_of_lt hb, Nat.shiftLeft_eq]; omega

theorem encodeSFuel_succ (fuel : Nat) (v : Int) :
    encodeSFuel (fuel + 1) v =
      if v / 64 = 0 ∨ v / 64 = -1 then [UInt8.ofNat ((v % 256).toNat % 128)]
      else UInt8.ofNat ((v % 256).toNat % 128 + 128) :: encodeSFuel fuel (v / 64 / 2) := by
  rw [encodeSFuel]

theorem signedLoop_cons (b : UInt8) (tl : Bytes) (result shift : Nat) :
    signedLoop (b :: tl) result shift =
      if shift = 63 ∧ b.toNat ≠ 0 ∧ b.toNat ≠ 0x7f then .err .rBadSignedLeb128
      else if b.toNat < 128 then .ok (result ||| (((b.toNat % 128) <<< shift) % 2 ^ 64), shift + 7, b, tl)
      else signedLoop tl (result ||| (((b.toNat % 128) <<< shift) % 2 ^ 64)) (shift + 7) := by
  rw [signedLoop]

theorem toI64_small (n : Nat) (h : n < 2 ^ 63) : toI64 n = n := by
  unfold toI64
  have : n % 2 ^ 64 = n := Nat.mod_eq_of_lt (by omega)
  rw [this, if_pos h]

theorem toI64_big (n : Nat) (h1 : 2 ^ 63 ≤ n) (h2 : n < 2 ^ 64) : toI64 n = (n : Int) - 2 ^ 64 := by
  unfold toI64
  have : n % 2 ^ 64 = n := Nat.mod_eq_of_lt h2
  rw [this, if_neg (by omega)]


/-- the sign extension `result |= !0 << shift` on a value below `2^shift` -/
theorem signext (k : Nat) (hk : k ≤ 8) (x : Nat) (hx : x < 2 ^ (7 * k + 7)) :
    x ||| ((2 ^ 64 - 1) <<< (7 * k + 7) % 2 ^ 64) = x + (2 ^ 64 - 2 ^ (7 * k + 7)) := by
  have hc : (2 ^ 64 - 1) <<< (7 * k + 7) % 2 ^ 64 = (2 ^ (64 - (7 * k + 7)) - 1) <<< (7 * k + 7) := by
    have hk' : k = 0 ∨ k = 1 ∨ k = 2 ∨ k = 3 ∨ k = 4 ∨ k = 5 ∨ k = 6 ∨ k = 7 ∨ k = 8 := by omega
    rcases hk' with rfl | rfl | rfl | rfl | rfl | rfl | rfl | rfl | rfl <;> decide
  rw [hc, or_add_of_lt _ _ _ hx]
  have hk' : k = 0 ∨ k = 1 ∨ k = 2 ∨ k = 3 ∨ k = 4 ∨ k = 5 ∨ k = 6 ∨ k = 7 ∨ k = 8 := by omega
  rcases hk' with rfl | rfl | rfl | rfl | rfl | rfl | rfl | rfl | rfl <;>
    simp only [Nat.reduceMul, Nat.reducePow, Nat.reduceSub, Nat.reduceAdd]

/-- arithmetic of the last group, `k ≤ 8` -/
theorem T8 (k : Nat) (hk : k ≤ 8) (v : Int) (result : Nat) (ht : v / 64 = 0 ∨ v / 64 = -1)
    (hlo : -(2 : Int) ^ (63 - 7 * k) ≤ v) (hhi : v < (2 : Int) ^ (63 - 7 * k)) (hr : result < 2 ^ (7 * k)) :
    (v % 256).toNat % 128 < 128 ∧
    ((v % 256).toNat % 128) * 2 ^ (7 * k) < 2 ^ 64 ∧
    (0 ≤ v → ((v % 256).toNat % 128 / 64) % 2 = 0 ∧ result + 2 ^ (7 * k) * ((v % 256).toNat % 128) < 2 ^ 63 ∧
      ((result + 2 ^ (7 * k) * ((v % 256).toNat % 128) : Nat) : Int) = (result : Int) + v * 2 ^ (7 * k)) ∧
    (v < 0 → ((v % 256).toNat % 128 / 64) % 2 = 1 ∧
      result + 2 ^ (7 * k) * ((v % 256).toNat % 128) < 2 ^ (7 * k + 7) ∧
      2 ^ 63 ≤ result + 2 ^ (7 * k) * ((v % 256).toNat % 128) + (2 ^ 64 - 2 ^ (7 * k + 7)) ∧
      result + 2 ^ (7 * k) * ((v % 256).toNat % 128) + (2 ^ 64 - 2 ^ (7 * k + 7)) < 2 ^ 64 ∧
      ((result + 2 ^ (7 * k) * ((v % 256).toNat % 128) + (2 ^ 64 - 2 ^ (7 * k + 7)) : Nat) : Int) - 2 ^ 64
        = (result : Int) + v * 2 ^ (7 * k)) := by
  have hk' : k = 0 ∨ k = 1 ∨ k = 2 ∨ k = 3 ∨ k = 4 ∨ k = 5 ∨ k = 6 ∨ k = 7 ∨ k = 8 := by omega
  rcases hk' with rfl | rfl | rfl | rfl | rfl | rfl | rfl | rfl | rfl <;>
    simp only [Nat.reduceMul, Nat.reducePow, Nat.reduceSub, Nat.reduceAdd, Int.reducePow] at hlo hhi hr ⊢ <;>
    omega

theorem A4 (k : Nat) (hk : k ≤ 8) (v : Int) (result : Nat)
    (hlo : -(2 : Int) ^ (63 - 7 * k) ≤ v) (hhi : v < (2 : Int) ^ (63 - 7 * k)) (hr : result < 2 ^ (7 * k)) :
    ((v % 256).toNat % 128) * 2 ^ (7 * k) < 2 ^ 64 ∧
    result + 2 ^ (7 * k) * ((v % 256).toNat % 128) < 2 ^ (7 * (k + 1)) ∧
    -(2 : Int) ^ (63 - 7 * (k + 1)) ≤ v / 64 / 2 ∧ v / 64 / 2 < (2 : Int) ^ (63 - 7 * (k + 1)) ∧
    ((result + 2 ^ (7 * k) * ((v % 256).toNat % 128) : Nat) : Int) + (v / 64 / 2) * 2 ^ (7 * (k + 1))
      = (result : Int) + v * 2 ^ (7 * k) := by
  have hk' : k = 0 ∨ k = 1 ∨ k = 2 ∨ k = 3 ∨ k = 4 ∨ k = 5 ∨ k = 6 ∨ k = 7 ∨ k = 8 := by omega
  rcases hk' with rfl | rfl | rfl | rfl | rfl | rfl | rfl | rfl | rfl <;>
    simp only [Nat.reduceMul, Nat.reducePow, Nat.reduceSub, Nat.reduceAdd, Int.reducePow] at hlo hhi hr ⊢ <;>
    omega

theorem ofNat_toNat_lt (n : Nat) (h : n < 256) : (UInt8.ofNat n).toNat = n := by
  simp; omega

/-- the decoding loop on the output of the encoding loop, from any intermediate state:
`k` groups done (`shift = 7k`), `result` holds the low `7k` bits, `v` is what is left to encode -/
theorem signedLoop_encodeS (rest : Bytes) : ∀ (fuel k : Nat) (v : Int) (result : Nat), k ≤ 9 → 10 ≤ fuel + k →
    -(2 : Int) ^ (63 - 7 * k) ≤ v → v < (2 : Int) ^ (63 - 7 * k) → result < 2 ^ (7 * k) →
    ∃ res sh byte, signedLoop (encodeSFuel fuel v ++ rest) result (7 * k) = .ok (res, sh, byte, rest) ∧
      finish res sh byte = (result : Int) + v * 2 ^ (7 * k) := by
  intro fuel
  induction fuel with
  | zero => intro k v result hk hf; omega
  | succ fuel ih =>
    intro k v result hk hf hlo hhi hr
    rw [encodeSFuel_succ]
    have hg : (v % 256).toNat % 128 < 128 := Nat.mod_lt _ (by decide)
    by_cases ht : v / 64 = 0 ∨ v / 64 = -1
    · simp only [ht, if_true, List.cons_append, List.nil_append]
      rw [signedLoop_cons, ofNat_toNat_lt _ (by omega)]
      by_cases h9 : k = 9
      · -- the tenth group: v is 0 or -1
        subst h9
        simp only [Nat.reduceMul, Nat.reducePow, Nat.reduceSub, Int.reducePow] at hlo hhi hr ⊢
        have hv : v = 0 ∨ v = -1 := by omega
        rcases hv with rfl | rfl
        · have h0 : ((0 : Int) % 256).toNat % 128 = 0 := by decide
          rw [h0, if_neg (by decide), if_pos (by decide)]
          refine ⟨_, _, _, rfl, ?_⟩
          simp only [finish]
          have hx : (0 % 128) <<< 63 % 2 ^ 64 = 0 := by decide
          rw [hx, Nat.or_zero, if_neg (by omega), toI64_small _ (by omega)]
          simp
        · have h127 : ((-1 : Int) % 256).toNat % 128 = 127 := by decide
          rw [h127, if_neg (by decide), if_pos (by decide)]
          refine ⟨_, _, _, rfl, ?_⟩
          simp only [finish]
          have hx : (127 % 128) <<< 63 % 2 ^ 64 = 1 <<< 63 := by decide
          rw [hx, or_add_of_lt 1 result 63 (by omega), if_neg (by omega), toI64_big _ (by omega) (by omega)]
          omega
      · have hk8 : k ≤ 8 := by omega
        obtain ⟨_, hfit, hpos, hneg⟩ := T8 k hk8 v result ht hlo hhi hr
        have hs : ¬ (7 * k = 63 ∧ (v % 256).toNat % 128 ≠ 0 ∧ (v % 256).toNat % 128 ≠ 0x7f) := by omega
        simp only [hs, if_false, hg, if_true]
        refine ⟨_, _, _, rfl, ?_⟩
        have hgm : (v % 256).toNat % 128 % 128 = (v % 256).toNat % 128 := Nat.mod_eq_of_lt hg
        rw [hgm, or_step _ _ _ hr hfit]
        unfold finish
        rw [ofNat_toNat_lt _ (by omega)]
        by_cases hv0 : 0 ≤ v
        · obtain ⟨h1, h2, h3⟩ := hpos hv0
          simp only [h1, Nat.zero_ne_one, and_false, if_false]
          rw [toI64_small _ h2, h3]
        · obtain ⟨h1, h2, h3, h4, h5⟩ := hneg (by omega)
          have hsh : 7 * k + 7 < 64 := by omega
          simp only [hsh, h1, and_self, if_true]
          rw [signext k hk8 _ h2, toI64_big _ h3 h4, h5]
    · have hk8 : k ≤ 8 := by
        by_cases h9 : k = 9
        · subst h9
          simp only [Nat.reduceMul, Nat.reducePow, Nat.reduceSub, Int.reducePow] at hlo hhi
          exact absurd (by omega) ht
        · omega
      obtain ⟨hfit, hnext, hlo', hhi', heq⟩ := A4 k hk8 v result hlo hhi hr
      simp only [ht, if_false, List.cons_append]
      rw [signedLoop_cons, ofNat_toNat_lt _ (by omega)]
      have hs : ¬ (7 * k = 63 ∧ (v % 256).toNat % 128 + 128 ≠ 0 ∧ (v % 256).toNat % 128 + 128 ≠ 0x7f) := by omega
      have hnl : ¬ ((v % 256).toNat % 128 + 128 < 128) := by omega
      simp only [hs, if_false, hnl]
      have hgm : ((v % 256).toNat % 128 + 128) % 128 = (v % 256).toNat % 128 := by omega
      rw [hgm, or_step _ _ _ hr hfit, show 7 * k + 7 = 7 * (k + 1) by omega]
      obtain ⟨res, sh, byte, h1, h2⟩ := ih (k + 1) (v / 64 / 2) _ (by omega) (by omega) hlo' hhi' hnext
      exact ⟨res, sh, byte, h1, by rw [h2, heq]⟩

/-- **`sleb_roundtrip`**: reading what `Leb128::signed` writes gives the value back and leaves
exactly what followed -/
theorem signed_roundtrip (v : Int) (hlo : -(2 : Int) ^ 63 ≤ v) (hhi : v < (2 : Int) ^ 63) (rest : Bytes) :
    signed (encodeS v ++ rest) = .ok (v, rest) := by
  obtain ⟨res, sh, byte, h1, h2⟩ := signedLoop_encodeS rest 10 0 v 0 (by omega) (by omega)
    (by simpa using hlo) (by simpa using hhi) (by decide)
  rw [signed_eq]
  simp only [Nat.mul_zero] at h1
  unfold encodeS
  rw [h1]
  simp only [Out.bind_ok, Out.pure_eq, h2]
  simp

end Gimli.Leb
