import Gimli.Lemmas.Leb
/-! Signed LEB128: `Leb128::signed` followed by `leb128::read::signed` is the identity on every
`i64` (needed by C13 for `DW_LNS_advance_line`; C09 covers the signed codec by enumeration). -/
namespace Gimli.Leb
open Gimli

def signedPost : Out (Nat × Nat × UInt8 × Bytes) → Out (Int × Bytes)
  | .ok (result, shift, byte, rest) =>
    let result :=
      if shift < 64 ∧ (byte.toNat / 64) % 2 = 1 then
        result ||| ((2 ^ 64 - 1) <<< shift % 2 ^ 64)
      else result
    .ok (toI64 result, rest)
  | .err e => .err e
  | .panic w => .panic w
  | .diverge => .diverge

theorem or_high (r s : Nat) (hr : r < 2 ^ s) (hs : s ≤ 64) :
    r ||| ((2 ^ (64 - s) - 1) <<< s) = r + (2 ^ 64 - 2 ^ s) := by
  rw [Nat.or_comm, ← Nat.shiftLeft_add_eq_or_of_lt hr, Nat.shiftLeft_eq, Nat.sub_mul, ← Nat.pow_add,
    Nat.sub_add_cancel hs, Nat.one_mul]
  omega

theorem ones_shift (t : Nat) (ht : t ≤ 64) : (2 ^ 64 - 1) <<< t % 2 ^ 64 = 2 ^ 64 - 2 ^ t := by
  rw [Nat.shiftLeft_eq]
  have h1 : 1 ≤ 2 ^ t := Nat.two_pow_pos t
  have h2 : 2 ^ t ≤ 2 ^ 64 := Nat.pow_le_pow_right (by decide) ht
  generalize 2 ^ t = P at *
  omega

theorem or_high' (r s : Nat) (hr : r < 2 ^ s) (hs : s ≤ 64) :
    r ||| (2 ^ 64 - 2 ^ s) = r + (2 ^ 64 - 2 ^ s) := by
  have := or_high r s hr hs
  have e : (2 ^ (64 - s) - 1) <<< s = 2 ^ 64 - 2 ^ s := by
    rw [Nat.shiftLeft_eq, Nat.sub_mul, ← Nat.pow_add, Nat.sub_add_cancel hs, Nat.one_mul]
  rw [e] at this
  exact this

theorem ofNat_toNat' (n : Nat) (h : n < 256) : (UInt8.ofNat n).toNat = n := by
  simp [Nat.mod_eq_of_lt h]

/-- one terminal byte at a shift below 63 -/
theorem signedPost_last (s : Nat) (hs : s ≤ 56) (result : Nat) (x : Int) (rest : Bytes)
    (hr : result < 2 ^ s) (hx : x / 64 = 0 ∨ x / 64 = -1) :
    signedPost (signedLoop (UInt8.ofNat ((x % 256).toNat % 128) :: rest) result s) =
      .ok ((result : Int) + 2 ^ s * x, rest) := by
  have hlow : (x % 256).toNat % 128 = (x % 128).toNat := by omega
  have hlt : (x % 128).toNat < 128 := by omega
  rw [hlow, signedLoop]
  simp only [ofNat_toNat' _ (by omega : (x % 128).toNat < 256)]
  rw [if_neg (by omega), Nat.mod_eq_of_lt hlt]
  have hfit : (x % 128).toNat * 2 ^ s < 2 ^ 64 := by
    have : (x % 128).toNat * 2 ^ s < 128 * 2 ^ s := Nat.mul_lt_mul_of_pos_right hlt (Nat.two_pow_pos s)
    have h2 : 128 * 2 ^ s ≤ 128 * 2 ^ 56 := Nat.mul_le_mul_left _ (Nat.pow_le_pow_right (by decide) hs)
    omega
  rw [or_step _ _ _ hr hfit]
  simp only [hlt, ↓reduceIte, signedPost]
  rw [ofNat_toNat' _ (by omega : (x % 128).toNat < 256)]
  have hp1 : (1 : Nat) ≤ 2 ^ s := Nat.two_pow_pos s
  have hp2 : 2 ^ s ≤ 2 ^ 56 := Nat.pow_le_pow_right (by decide) hs
  have hp7 : 2 ^ (s + 7) = 128 * 2 ^ s := by rw [Nat.pow_add]; omega
  have hcast : ((2 ^ s : Nat) : Int) = (2 : Int) ^ s := by simp
  by_cases hneg : x < 0
  · have hbit : (x % 128).toNat / 64 % 2 = 1 := by omega
    rw [if_pos ⟨by omega, hbit⟩, ones_shift _ (by omega)]
    have hr' : result + 2 ^ s * (x % 128).toNat < 2 ^ (s + 7) := by
      rw [hp7]
      have : 2 ^ s * (x % 128).toNat ≤ 2 ^ s * 127 := Nat.mul_le_mul_left _ (by omega)
      omega
    rw [or_high' _ _ hr' (by omega)]
    have hlo : (((x % 128).toNat : Nat) : Int) = x + 128 := by omega
    have hmul : (((2 ^ s * (x % 128).toNat : Nat)) : Int) = (2 : Int) ^ s * x + 128 * (2 : Int) ^ s := by
      rw [Int.natCast_mul, hlo, Int.mul_add, Int.natCast_pow, Int.mul_comm _ 128]; rfl
    have hb1 : 2 ^ s * 64 ≤ 2 ^ s * (x % 128).toNat := Nat.mul_le_mul_left _ (by omega)
    have hb2 : 2 ^ s * (x % 128).toNat ≤ 2 ^ s * 127 := Nat.mul_le_mul_left _ (by omega)
    have hres : toI64 (result + 2 ^ s * (x % 128).toNat + (2 ^ 64 - 2 ^ (s + 7))) = (result : Int) + 2 ^ s * x := by
      unfold toI64
      rw [hp7]
      generalize 2 ^ s * (x % 128).toNat = L at *
      generalize (2 : Int) ^ s * x = Z at *
      rw [← hcast] at hmul
      generalize 2 ^ s = P at *
      split <;> omega
    rw [hres]
  · have hbit : ¬ ((x % 128).toNat / 64 % 2 = 1) := by omega
    rw [if_neg (by intro h; exact hbit h.2)]
    have hlo : (((x % 128).toNat : Nat) : Int) = x := by omega
    have hmul : (((2 ^ s * (x % 128).toNat : Nat)) : Int) = (2 : Int) ^ s * x := by
      rw [Int.natCast_mul, hlo, Int.natCast_pow]; rfl
    have hb2 : 2 ^ s * (x % 128).toNat ≤ 2 ^ s * 63 := Nat.mul_le_mul_left _ (by omega)
    have hres : toI64 (result + 2 ^ s * (x % 128).toNat) = (result : Int) + 2 ^ s * x := by
      unfold toI64
      generalize 2 ^ s * (x % 128).toNat = L at *
      generalize (2 : Int) ^ s * x = Z at *
      generalize 2 ^ s = P at *
      split <;> omega
    rw [hres]

/-- the tenth byte (shift 63): `0x00` or `0x7f` -/
theorem signedPost_last63 (result : Nat) (x : Int) (rest : Bytes) (hr : result < 2 ^ 63)
    (hx : x = 0 ∨ x = -1) :
    signedPost (signedLoop (UInt8.ofNat ((x % 256).toNat % 128) :: rest) result 63) =
      .ok ((result : Int) + 2 ^ 63 * x, rest) := by
  rcases hx with rfl | rfl
  · have e : (UInt8.ofNat (((0 : Int) % 256).toNat % 128)) = 0 := by decide
    rw [e, signedLoop]
    simp [signedPost, toI64]
    omega
  · have e : (UInt8.ofNat (((-1 : Int) % 256).toNat % 128)) = 0x7f := by decide
    rw [e, signedLoop]
    have e2 : ((0x7f : UInt8).toNat % 128) <<< 63 % 2 ^ 64 = (1 <<< 63) % 2 ^ 64 := by decide
    have e3 : (0x7f : UInt8).toNat = 127 := by decide
    simp only [e3, Nat.reduceMod, Nat.reduceLT, ↓reduceIte]
    rw [if_neg (by decide)]
    have e4 : 127 <<< 63 % 2 ^ 64 = (1 <<< 63) % 2 ^ 64 := by decide
    rw [e4, or_step result 1 63 hr (by decide)]
    simp only [signedPost, Nat.reduceAdd, Nat.reduceLT, false_and, ↓reduceIte, toI64]
    split <;> simp <;> omega

theorem signedLoop_encodeS : ∀ (fuel k result : Nat) (x : Int) (rest : Bytes),
    k ≤ 9 → 10 ≤ fuel + k → result < 2 ^ (7 * k) →
    -(2 ^ (63 - 7 * k) : Int) ≤ x → x < 2 ^ (63 - 7 * k) →
    signedPost (signedLoop (encodeSFuel fuel x ++ rest) result (7 * k)) =
      .ok ((result : Int) + 2 ^ (7 * k) * x, rest) := by
  intro fuel
  induction fuel with
  | zero => intro k _ _ _ hk hf; omega
  | succ fuel ih =>
    intro k result x rest hk hf hr hlo hhi
    rw [encodeSFuel]
    by_cases hterm : x / 64 = 0 ∨ x / 64 = -1
    · rw [if_pos hterm]
      simp only [List.cons_append, List.nil_append]
      by_cases h9 : k = 9
      · subst h9
        simp only [Nat.reduceMul, Nat.reduceSub, Int.pow_zero] at hlo hhi hr ⊢
        exact signedPost_last63 result x rest hr (by omega)
      · exact signedPost_last (7 * k) (by omega) result x rest hr hterm
    · rw [if_neg hterm]
      have hk8 : k ≤ 8 := by
        apply Classical.byContradiction
        intro hc
        have : k = 9 := by omega
        subst this
        simp only [Nat.reduceMul, Nat.reduceSub, Int.pow_zero] at hlo hhi
        apply hterm
        omega
      have hlow : (x % 256).toNat % 128 = (x % 128).toNat := by omega
      have hlt : (x % 128).toNat < 128 := by omega
      simp only [List.cons_append]
      rw [signedLoop, hlow]
      simp only [ofNat_toNat' _ (by omega : (x % 128).toNat + 128 < 256)]
      rw [if_neg (by omega), if_neg (by omega)]
      have hm : ((x % 128).toNat + 128) % 128 = (x % 128).toNat := by omega
      rw [hm]
      have hp2 : 2 ^ (7 * k) ≤ 2 ^ 56 := Nat.pow_le_pow_right (by decide) (by omega)
      have hp1 : 1 ≤ 2 ^ (7 * k) := Nat.two_pow_pos _
      have hfit : (x % 128).toNat * 2 ^ (7 * k) < 2 ^ 64 := by
        have : (x % 128).toNat * 2 ^ (7 * k) < 128 * 2 ^ (7 * k) :=
          Nat.mul_lt_mul_of_pos_right hlt (Nat.two_pow_pos _)
        omega
      rw [or_step _ _ _ hr hfit]
      have h7 : 7 * k + 7 = 7 * (k + 1) := by omega
      rw [h7]
      have hpow : 2 ^ (7 * (k + 1)) = 128 * 2 ^ (7 * k) := by
        rw [← h7, Nat.pow_add]; omega
      have hb2 : 2 ^ (7 * k) * (x % 128).toNat ≤ 2 ^ (7 * k) * 127 := Nat.mul_le_mul_left _ (by omega)
      have hq : 2 ^ (63 - 7 * k) = 128 * 2 ^ (63 - 7 * (k + 1)) := by
        have : 63 - 7 * k = (63 - 7 * (k + 1)) + 7 := by omega
        rw [this, Nat.pow_add]; omega
      have hqi : (2 : Int) ^ (63 - 7 * k) = 128 * (2 : Int) ^ (63 - 7 * (k + 1)) := by
        have := congrArg (fun n : Nat => (n : Int)) hq
        simpa using this
      rw [ih (k + 1) _ (x / 64 / 2) rest (by omega) (by omega) (by rw [hpow]; omega)
        (by rw [hqi] at hlo; generalize (2 : Int) ^ (63 - 7 * (k + 1)) = Q at *; omega)
        (by rw [hqi] at hhi; generalize (2 : Int) ^ (63 - 7 * (k + 1)) = Q at *; omega)]
      -- value bookkeeping
      have hx : x = 128 * (x / 64 / 2) + ((x % 128).toNat : Int) := by omega
      have hpi : (2 : Int) ^ (7 * (k + 1)) = 128 * (2 : Int) ^ (7 * k) := by
        have := congrArg (fun n : Nat => (n : Int)) hpow
        simpa using this
      have e1 : (((result + 2 ^ (7 * k) * (x % 128).toNat : Nat)) : Int) =
          (result : Int) + (2 : Int) ^ (7 * k) * ((x % 128).toNat : Int) := by
        rw [Int.natCast_add, Int.natCast_mul, Int.natCast_pow]; rfl
      have e2 : (2 : Int) ^ (7 * k) * x =
          128 * ((2 : Int) ^ (7 * k) * (x / 64 / 2)) + (2 : Int) ^ (7 * k) * ((x % 128).toNat : Int) := by
        conv => lhs; rw [hx]
        rw [Int.mul_add, ← Int.mul_assoc, Int.mul_comm _ 128, Int.mul_assoc]
      rw [e1, hpi, e2, Int.mul_assoc]
      have e3 : ∀ a b c : Int, a + b + 128 * c = a + (128 * c + b) := by intros; omega
      rw [e3]

/-- **`Leb128::signed` then `leb128::read::signed` is the identity** on every `i64` -/
theorem signed_roundtrip (v : Int) (h1 : -(2 ^ 63 : Int) ≤ v) (h2 : v < 2 ^ 63) (rest : Bytes) :
    signed (encodeS v ++ rest) = .ok (v, rest) := by
  have hpost : signed (encodeS v ++ rest) = signedPost (signedLoop (encodeS v ++ rest) 0 0) := by
    unfold signed signedPost
    cases signedLoop (encodeS v ++ rest) 0 0 with
    | ok w => obtain ⟨a, b, c, d⟩ := w; rfl
    | err e => rfl
    | panic w => rfl
    | diverge => rfl
  rw [hpost]
  have := signedLoop_encodeS 10 0 0 v rest (by omega) (by omega) (by simp) (by simpa using h1) (by simpa using h2)
  simp only [Nat.mul_zero, Int.pow_zero, Int.one_mul, Int.natCast_zero, Int.zero_add] at this
  exact this
end Gimli.Leb
