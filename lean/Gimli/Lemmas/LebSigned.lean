import Gimli.Lemmas.Leb
/-! Signed LEB128: `leb128::read::signed ∘ Leb128::signed = id` on every `i64` (the unsigned
counterpart is `Leb.unsigned_roundtrip`). Proved by induction over the groups with the shift made
concrete (ten cases), so that all bit operations become additions that `omega` can check. -/
namespace Gimli.Leb
open Gimli

/-- the sign-extension and reinterpretation at the end of `leb128::read::signed` -/
def finish (R sh : Nat) (b : UInt8) : Int :=
  toI64 (if sh < 64 ∧ (b.toNat / 64) % 2 = 1 then R ||| ((2 ^ 64 - 1) <<< sh % 2 ^ 64) else R)

theorem ofNat_toNat' (n : Nat) (h : n < 256) : (UInt8.ofNat n).toNat = n := by
  simp [Nat.mod_eq_of_lt h]

theorem signed_eq_finish (bs : Bytes) (R sh : Nat) (b : UInt8) (rest : Bytes)
    (h : signedLoop bs 0 0 = .ok (R, sh, b, rest)) : signed bs = .ok (finish R sh b, rest) := by
  unfold signed finish
  rw [h]

/-- sign extension for a concrete shift, as an addition -/
theorem signext (R s m : Nat) (hR : R < 2 ^ s) (hm : ((2 ^ 64 - 1) <<< s) % 2 ^ 64 = (m <<< s) % 2 ^ 64)
    (hfit : m * 2 ^ s < 2 ^ 64) : R ||| ((2 ^ 64 - 1) <<< s % 2 ^ 64) = R + 2 ^ s * m := by
  rw [hm]; exact or_step R m s hR hfit

/-- the statement of the induction: after `k` groups (`R < 2^(7k)` accumulated), the remaining
value `v` is encoded with `fuel` groups available -/
def StepGoal (fuel k R : Nat) (v : Int) (rest : Bytes) : Prop :=
  ∃ R' sh' b, signedLoop (encodeSFuel fuel v ++ rest) R (7 * k) = .ok (R', sh', b, rest) ∧
    finish R' sh' b = R + 2 ^ (7 * k) * v

def StepHyp (fuel k R : Nat) (v : Int) : Prop :=
  k ≤ 9 ∧ R < 2 ^ (7 * k) ∧ 10 ≤ fuel + k ∧
  -(2 ^ 63 : Int) ≤ R + 2 ^ (7 * k) * v ∧ (R : Int) + 2 ^ (7 * k) * v < 2 ^ 63

set_option hygiene false in
macro "sleb_step" _k:num s:num k1:num : tactic => `(tactic| (
  obtain ⟨_, hR, hf, hlo, hhi⟩ := hyp
  unfold StepGoal
  simp only [Nat.reduceMul, Nat.reducePow, Int.reducePow, Int.reduceNeg] at hR hlo hhi ⊢
  rw [encodeSFuel]
  have hx : (v % 256).toNat % 128 < 128 := Nat.mod_lt _ (by decide)
  have hxv : (((v % 256).toNat % 128 : Nat) : Int) = v % 128 := by omega
  generalize (v % 256).toNat % 128 = x at hx hxv
  by_cases hlast : v / 64 = 0 ∨ v / 64 = -1
  · rw [if_pos hlast]
    simp only [List.cons_append, List.nil_append]
    rw [signedLoop]
    have hb : (UInt8.ofNat x).toNat = x := ofNat_toNat' x (by omega)
    simp only [hb]
    rw [if_neg (by omega), if_pos hx]
    refine ⟨_, _, _, rfl, ?_⟩
    unfold finish
    simp only [hb, Nat.mod_eq_of_lt hx]
    have hfit : x * 2 ^ $s < 2 ^ 64 := by omega
    rw [or_step R x $s (by omega) hfit]
    by_cases hneg : (x / 64) % 2 = 1
    · rw [if_pos ⟨by omega, hneg⟩]
      rw [signext (R + 2 ^ $s * x) ($s + 7) (2 ^ (64 - ($s + 7)) - 1) (by omega) (by decide) (by decide)]
      unfold toI64
      omega
    · rw [if_neg (by omega)]
      unfold toI64
      omega
  · rw [if_neg hlast]
    simp only [List.cons_append]
    rw [signedLoop]
    have hb : (UInt8.ofNat (x + 128)).toNat = x + 128 := ofNat_toNat' _ (by omega)
    have hmod : (x + 128) % 128 = x := by omega
    simp only [hb, hmod]
    rw [if_neg (by omega), if_neg (by omega)]
    have hfit : x * 2 ^ $s < 2 ^ 64 := by omega
    rw [or_step R x $s (by omega) hfit]
    have := ih $k1 (R + 2 ^ $s * x) (v / 64 / 2) ⟨by omega,
      by simp only [Nat.reduceMul, Nat.reducePow]; omega, by omega,
      by simp only [Nat.reduceMul, Nat.reducePow, Int.reducePow, Int.reduceNeg]; omega,
      by simp only [Nat.reduceMul, Nat.reducePow, Int.reducePow]; omega⟩
    obtain ⟨R', sh', b, h1, h2⟩ := this
    refine ⟨R', sh', b, h1, ?_⟩
    rw [h2]
    simp only [Nat.reduceMul, Nat.reducePow, Int.reducePow]
    omega))

theorem signedLoop_encodeS (rest : Bytes) (fuel : Nat) : ∀ (k R : Nat) (v : Int),
    StepHyp fuel k R v → StepGoal fuel k R v rest := by
  induction fuel with
  | zero => intro k R v hyp; obtain ⟨h1, _, h3, _⟩ := hyp; omega
  | succ fuel ih =>
    intro k R v hyp
    have hk : k = 0 ∨ k = 1 ∨ k = 2 ∨ k = 3 ∨ k = 4 ∨ k = 5 ∨ k = 6 ∨ k = 7 ∨ k = 8 ∨ k = 9 := by
      have := hyp.1; omega
    rcases hk with rfl | rfl | rfl | rfl | rfl | rfl | rfl | rfl | rfl | rfl
    · sleb_step 0 0 1
    · sleb_step 1 7 2
    · sleb_step 2 14 3
    · sleb_step 3 21 4
    · sleb_step 4 28 5
    · sleb_step 5 35 6
    · sleb_step 6 42 7
    · sleb_step 7 49 8
    · sleb_step 8 56 9
    · -- ten groups: only the values 0 and -1 remain, the last byte is 0x00 or 0x7f
      obtain ⟨_, hR, hf, hlo, hhi⟩ := hyp
      unfold StepGoal
      simp only [Nat.reduceMul, Nat.reducePow, Int.reducePow, Int.reduceNeg] at hR hlo hhi ⊢
      rw [encodeSFuel]
      have hv : v = 0 ∨ v = -1 := by omega
      rcases hv with rfl | rfl
      · have e0 : UInt8.ofNat (((0 : Int) % 256).toNat % 128) = 0 := by decide
        rw [if_pos (Or.inl (by decide)), e0]
        simp only [List.cons_append, List.nil_append]
        rw [signedLoop]
        simp only [show (0 : UInt8).toNat = 0 from rfl]
        rw [if_neg (by decide), if_pos (by decide)]
        refine ⟨_, _, _, rfl, ?_⟩
        unfold finish
        rw [if_neg (by decide)]
        have : (0 % 128) <<< 63 % 2 ^ 64 = 0 := by decide
        rw [this, Nat.or_zero]
        unfold toI64
        omega
      · have e1 : UInt8.ofNat (((-1 : Int) % 256).toNat % 128) = 127 := by decide
        rw [if_pos (Or.inr (by decide)), e1]
        simp only [List.cons_append, List.nil_append]
        rw [signedLoop]
        simp only [show (127 : UInt8).toNat = 127 from rfl]
        rw [if_neg (by decide), if_pos (by decide)]
        refine ⟨_, _, _, rfl, ?_⟩
        unfold finish
        rw [if_neg (by decide)]
        have : (127 % 128) <<< 63 % 2 ^ 64 = (1 <<< 63) % 2 ^ 64 := by decide
        rw [this, or_step R 1 63 (by omega) (by decide)]
        unfold toI64
        omega

/-- **Signed LEB128: write then read is the identity** for every `i64`, whatever follows. -/
theorem signed_roundtrip (v : Int) (hlo : -(2 ^ 63 : Int) ≤ v) (hhi : v < 2 ^ 63) (rest : Bytes) :
    signed (encodeS v ++ rest) = .ok (v, rest) := by
  obtain ⟨R', sh', b, h1, h2⟩ := signedLoop_encodeS rest 10 0 0 v
    ⟨by omega, by simp, by omega, by simpa using hlo, by simpa using hhi⟩
  simp only [Nat.mul_zero] at h1
  unfold encodeS
  rw [signed_eq_finish _ _ _ _ _ h1, h2]
  simp

end Gimli.Leb
