import Gimli.Lemmas.Sim
/-!
# C07 `eval_refines`, part 2: the loop, answers, whole runs from a fresh evaluator
-/
open Gimli Gimli.Op Gimli.Value Gimli.Spec.Expr
set_option linter.unusedVariables false
set_option linter.unusedSimpArgs false

namespace Gimli.Sim
open Gimli.Spec
open Gimli.Eval (Mach Config Eval Request Waiting OpResult Location Piece Answer)
open Gimli.Spec.Machine (SState SCfg SLoc SPiece Effect SAnswer unspecified)

theorem result_nil_iff (a : Nat) (m : Mach) (s : SState) (h : R a m s) : m.result = [] ↔ s.pieces = [] := by
  rw [← h.pieces]; simp

theorem pop_sim' (a : Nat) (m : Mach) (s : SState) (h : R a m s) :
    Sim (fun (p : Value × Mach) (q : SVal × SState) =>
        q.1 = absV a p.1 ∧ VOk p.1 ∧ R a p.2 q.2 ∧ p.2.result = m.result ∧ q.2.pieces = s.pieces)
      (Eval.pop m) (Machine.pop s) := by
  unfold Eval.pop Machine.pop
  have hs := h.stack
  cases hm : m.stack with
  | nil => rw [hm] at hs; simp at hs; rw [hs]; rfl
  | cons v rest =>
    rw [hm] at hs; simp at hs; rw [← hs]
    refine ⟨rfl, h.vok v (by rw [hm]; simp), ?_, rfl, rfl⟩
    exact { h with stack := rfl, vok := fun w hw => h.vok w (by rw [hm]; simp [hw]) }

theorem finish_sim (a : Nat) (c : Config) (sc : SCfg) (hc : CfgRel a c sc) (m : Mach) (s : SState) (h : R a m s) :
    Sim (R a) (Eval.finish c m) (Machine.finish s) := by
  unfold Eval.finish Machine.finish
  cases hr : m.result with
  | nil =>
    have hp : s.pieces = [] := (result_nil_iff a m s h).mp hr
    rw [hp]
    simp only []
    refine Sim.bind (pop_sim' a m s h) (fun ⟨v, m1⟩ ⟨sv, s1⟩ ⟨e1, v1, r1, hm1, hs1⟩ => ?_)
    simp only [] at e1 v1 r1 hm1 hs1 ⊢
    subst e1
    rw [hc.mask]
    refine Sim.bind (toU64_sim a hc.addr v v1.1) (fun n sn e2 => ?_)
    subst e2
    have r1' : R a { m1 with valueResult := some v } { s1 with valueResult := some (absV a v) } :=
      { r1 with value := rfl }
    obtain ⟨m3, hpp, r3⟩ := pushPiece_sim a c hc.caps ⟨none, none, .address sn⟩ _ _ r1'
    rw [hpp]
    simp only [hs1, hp, List.nil_append] at r3
    exact r3
  | cons p ps =>
    have hp : s.pieces ≠ [] := fun hh => by have := (result_nil_iff a m s h).mpr hh; rw [hr] at this; cases this
    cases hsp : s.pieces with
    | nil => exact absurd hsp hp
    | cons q qs => exact h


theorem afterComplete_sim (a : Nat) (c : Config) (sc : SCfg) (hc : CfgRel a c sc) (loc : Location)
    (m : Mach) (s : SState) (h : R a m s) :
    Sim (fun (p : Mach × Bool) (s' : SState) => R a p.1 s')
      (Eval.afterComplete c loc m) (Machine.afterLocation sc (absLoc a loc) s) := by
  unfold Eval.afterComplete Machine.afterLocation
  obtain ⟨hb, hR⟩ := endOfExpression_sim a m s h
  cases he : Eval.endOfExpression m with
  | mk b m' =>
    cases hs : Machine.atEnd s with
    | mk b' s' =>
      rw [he, hs] at hb hR
      simp only [] at hb hR
      subst hb
      cases b
      · -- more operations: the next one must be a piece
        simp only []
        refine Sim.bind (fetch_sim a c sc hc m' s' hR) (fun ⟨op, rest⟩ ⟨op', s2⟩ ⟨e1, _, r2⟩ => ?_)
        simp only [] at e1 r2 ⊢
        subst e1
        cases op' with
        | piece size off =>
          obtain ⟨m3, hpp, r3⟩ := pushPiece_sim a c hc.caps ⟨some size, off, loc⟩ _ _ r2
          simp only []
          rw [hpp]
          exact r3
        | _ => rfl
      · simp only []
        cases hr : m'.result with
        | nil =>
          have hp : s'.pieces = [] := (result_nil_iff a m' s' hR).mp hr
          rw [hp]
          obtain ⟨m3, hpp, r3⟩ := pushPiece_sim a c hc.caps ⟨none, none, loc⟩ _ _ hR
          simp only []
          rw [hpp]
          simp only [hp, List.nil_append] at r3
          exact r3
        | cons p ps =>
          have hp : s'.pieces ≠ [] := fun hh => by
            have := (result_nil_iff a m' s' hR).mpr hh; rw [hr] at this; cases this
          cases hsp : s'.pieces with
          | nil => exact absurd hsp hp
          | cons q qs => rfl


/-! ## the loop -/

/-- how the results of `evaluate_internal` and of the Spec `run` correspond -/
def ResRel (a : Nat) (c : Config) (p : Request × Eval) (q : Request × Option Waiting × SState) : Prop :=
  q.1 = p.1 ∧ R a p.2.m q.2.2 ∧ p.2.cfg = c ∧
    (match q.2.1 with
     | none => p.2.state = .complete
     | some w => p.2.state = .waiting w)

theorem run_sim (a : Nat) (c : Config) (sc : SCfg) (hc : CfgRel a c sc) (hmax : c.maxIterations = none) :
    ∀ (fuel : Nat) (s : Eval) (st : SState), s.cfg = c → R a s.m st →
      Sim (ResRel a c) (Eval.evaluateInternal fuel s) (Machine.run sc fuel st) := by
  intro fuel
  induction fuel with
  | zero => intro s st _ _; trivial
  | succ fuel ih =>
    intro s st hcfg h
    rw [Eval.evaluateInternal, Machine.run]
    unfold Eval.loopBody
    obtain ⟨hb, hR⟩ := endOfExpression_sim a s.m st h
    cases he : Eval.endOfExpression s.m with
    | mk b m' =>
      cases hs : Machine.atEnd st with
      | mk b' st' =>
        rw [he, hs] at hb hR
        simp only [] at hb hR
        subst hb
        cases b
        · -- execute one operation
          simp only []
          rw [hcfg, hmax]
          simp only [Eval.overLimit]
          unfold Eval.evaluateOneOperation
          simp only [Out.bind_assoc']
          refine Sim.bind (fetch_sim a c sc hc m' st' hR) (fun ⟨op, rest⟩ ⟨op', st2⟩ ⟨e1, hok, r2⟩ => ?_)
          simp only [] at e1 hok r2 ⊢
          subst e1
          refine Sim.bind (exec_sim a c sc hc op' hok _ st2 r2) (fun ⟨res, m3⟩ eff hE => ?_)
          cases res <;> cases eff <;> simp only [EffRel] at hE <;> try exact hE.elim
          · -- piece
            exact ih _ _ rfl hE
          · -- incomplete / continue
            simp only [Eval.afterOp]
            rename_i st3
            obtain ⟨hb2, hR2⟩ := endOfExpression_sim a m3 st3 hE
            cases he2 : Eval.endOfExpression m3 with
            | mk b2 m4 =>
              cases hs2 : Machine.atEnd st3 with
              | mk b2' st4 =>
                rw [he2, hs2] at hb2 hR2
                simp only [] at hb2 hR2
                subst hb2
                simp only []
                cases b2
                · simp only [Bool.false_and, Bool.false_eq_true, false_and, ite_false]
                  exact ih _ _ rfl hR2
                · cases hr : m4.result with
                  | nil =>
                    have hp : st4.pieces = [] := (result_nil_iff a m4 st4 hR2).mp hr
                    simp only [hp, List.isEmpty_nil, Bool.not_true, Bool.and_false, ne_eq, not_true_eq_false,
                      and_false, ite_false]
                    exact ih _ _ rfl hR2
                  | cons p ps =>
                    have hp : st4.pieces ≠ [] := fun hh => by
                      have := (result_nil_iff a m4 st4 hR2).mpr hh; rw [hr] at this; cases this
                    simp only [List.isEmpty_cons, Bool.not_false, Bool.and_true, ne_eq, hp, not_false_eq_true,
                      and_self, ite_true]
                    rfl
          · -- complete / location
            rename_i loc sloc st3
            obtain ⟨el, hR3⟩ := hE
            subst el
            simp only [Eval.afterOp]
            refine Sim.bind (afterComplete_sim a c sc hc loc m3 st3 hR3) (fun ⟨m4, extra⟩ st4 hR4 => ?_)
            exact ih _ _ rfl hR4
          · -- waiting / request
            rename_i w r w' r' st3
            obtain ⟨ew, er, hR3⟩ := hE
            subst ew er
            exact ⟨rfl, hR3, rfl, rfl⟩
        · -- end of the expression
          simp only []
          rw [hcfg]
          refine Sim.bind (finish_sim a c sc hc m' st' hR) (fun m2 st2 hR2 => ?_)
          exact ⟨rfl, hR2, rfl, rfl⟩


/-! ## answers -/

/-- the Spec reading of the argument of a `resume_with_*` call -/
def absAnswer (a : Nat) : Answer → SAnswer
  | .memory v => .memory (absV a v)
  | .register v => .register (absV a v)
  | .wasmValue v => .wasmValue (absV a v)
  | .entryValue v => .entryValue (absV a v)
  | .frameBase n => .frameBase n
  | .tls n => .tls n
  | .callFrameCfa n => .callFrameCfa n
  | .parameterRef n => .parameterRef n
  | .relocatedAddress n => .relocatedAddress n
  | .indexedAddress n => .indexedAddress n
  | .atLocation b => .atLocation b
  | .baseType t => .baseType t

/-- answers the theorem speaks about: integer values that fit their type, `u64` numbers,
expressions shorter than `2^63` bytes -/
def AnsOk : Answer → Prop
  | .memory v | .register v | .wasmValue v | .entryValue v => VOk v
  | .frameBase n | .tls n | .callFrameCfa n | .parameterRef n | .relocatedAddress n | .indexedAddress n => n < 2 ^ 64
  | .atLocation b => b.length < 2 ^ 63
  | .baseType _ => True

theorem isFloat_abs_false (a : Nat) (v : Value) (hv : VOk v) : isFloat (absV a v).ty = false := by
  have := hv.2
  obtain ⟨t, b⟩ := v
  cases t <;> simp [IsInt, ValueType.kind] at this <;> rfl

theorem push_value_sim (a : Nat) (c : Config) (sc : SCfg) (hc : CfgRel a c sc) (v : Value) (hv : VOk v)
    (m : Mach) (s : SState) (h : R a m s) :
    Sim (R a) (Eval.push c v m) (Machine.pushValue (absV a v) s) := by
  unfold Machine.pushValue
  rw [if_neg (by simp [isFloat_abs_false a v hv])]
  obtain ⟨m3, hp, r3⟩ := push_sim a c hc.caps v hv m s h
  rw [hp]; exact r3

theorem canon_pat64 (a : Nat) (ha : AddrSize a) (t : ValueType) (i : Int) :
    canon a t ((pat 64 i : Nat) : Int) = canon a t i := by
  have hw : width a t ≤ 64 := by
    cases t <;> simp [width] <;> rcases ha with h | h | h | h <;> omega
  have key : ((pat 64 i : Nat) : Int) % 2 ^ width a t = i % 2 ^ width a t := by
    rw [pat_cast]; exact Int.emod_emod_of_dvd _ (by exact_mod_cast (Nat.pow_dvd_pow 2 hw))
  unfold canon
  split
  · exact smod_congr _ _ _ key
  · exact umod_congr _ _ _ key

theorem push_gen_sim (a : Nat) (c : Config) (sc : SCfg) (hc : CfgRel a c sc) (n : Nat) (hn : n < 2 ^ 64)
    (sv : SVal) (hsv : absV a ⟨.generic, n⟩ = sv) (m : Mach) (s : SState) (h : R a m s) :
    Sim (R a) (Eval.push c (Value.generic n) m) (.ok (Machine.push sv s)) := by
  obtain ⟨m3, hp, r3⟩ := push_sim a c hc.caps ⟨.generic, n⟩ (vok_generic n hn) m s h
  rw [show Value.generic n = ⟨.generic, n⟩ from rfl, hp, ← hsv]
  exact r3

theorem abs_frame_base (a : Nat) (ha : AddrSize a) (sc : SCfg) (hsa : sc.a = a) (fb : Nat) (off : Int) :
    absV a ⟨.generic, (fb + pat 64 off) % 2 ^ 64⟩ = Machine.gen sc ((fb : Int) + off) := by
  unfold Machine.gen
  rw [hsa]
  show (⟨.generic, (((fb + pat 64 off) % 2 ^ 64 % 2 ^ (8 * a) : Nat) : Int)⟩ : SVal) = _
  rw [gen_mod a ha, cast_of_mod]
  congr 1
  apply umod_congr
  push_cast
  rw [pat_cast]
  have hd : ((2 : Int) ^ (8 * a)) ∣ 2 ^ 64 := by
    exact_mod_cast (Nat.pow_dvd_pow 2 (by rcases ha with h | h | h | h <;> omega : 8 * a ≤ 64))
  exact add_congr _ _ _ _ _ rfl (Int.emod_emod_of_dvd _ hd)



theorem toU64_abs (a : Nat) (ha : AddrSize a) (v : Value) (hv : VOk v) :
    ∃ u, v.toU64 (maskOf a) = .ok u ∧ u < 2 ^ 64 ∧ ∀ t, canon a t (u : Int) = canon a t (absV a v).val := by
  obtain ⟨tv, b⟩ := v
  obtain ⟨hw, hi⟩ := hv
  have hb : b < 2 ^ tv.width := hw
  cases tv <;> simp [IsInt, ValueType.kind] at hi <;> simp only [ValueType.width] at hb
  all_goals simp only [Value.toU64, ValueType.kind, absV, and_mask, ValueType.width]
  case generic =>
    exact ⟨_, rfl, Nat.lt_of_le_of_lt (Nat.mod_le _ _) hb, fun t => rfl⟩
  all_goals first
    | exact ⟨_, rfl, pat_lt 64 _, fun t => canon_pat64 a ha t _⟩
    | exact ⟨_, rfl, by omega, fun t => rfl⟩

theorem convert_refines (a : Nat) (ha : AddrSize a) (v : Value) (hv : VOk v) (t : ValueType) (ht : t.kind ≠ .float) :
    ∃ r, v.convert t (maskOf a) = .ok r ∧ absV a r = convertInt a (absV a v) t ∧ VOk r := by
  obtain ⟨u, hu, hlt, hcan⟩ := toU64_abs a ha v hv
  obtain ⟨r, hr, habs, hvr⟩ := fromU64_abs a ha t ht u hlt
  refine ⟨r, ?_, ?_, hvr⟩
  · have hnf : v.ty ≠ .f32 ∧ v.ty ≠ .f64 := by
      have := hv.2
      obtain ⟨tv, b⟩ := v
      cases tv <;> simp [IsInt, ValueType.kind] at this <;> simp
    unfold Value.convert
    split
    · next h => exact absurd h hnf.1
    · next h => exact absurd h hnf.2
    · rw [hu]; exact hr
  · rw [habs, hcan t]; rfl

theorem canon_congr (a : Nat) (t : ValueType) (i j : Int) (h : i % 2 ^ width a t = j % 2 ^ width a t) :
    canon a t i = canon a t j := by
  unfold canon
  split
  · exact smod_congr _ _ _ h
  · exact umod_congr _ _ _ h

theorem bitSize_width (a : Nat) (ha : AddrSize a) (t : ValueType) : Value.bitSize t (maskOf a) = width a t := by
  cases t <;> simp only [Value.bitSize, width, ValueType.width, maskBitSize_mask a ha]

def reinterpretTo (t : ValueType) (bits : Nat) : Out Value :=
  match t with
  | .generic => .ok ⟨.generic, bits⟩
  | t => .ok ⟨t, bits % 2 ^ t.width⟩

theorem reinterpretTo_eq (t : ValueType) (ht : t.kind ≠ .float) (bits : Nat) :
    reinterpretTo t bits = Value.fromU64 t bits := by
  cases t <;> simp [ValueType.kind] at ht <;> rfl

theorem reinterpret_unfold (v : Value) (t : ValueType) (mask : Nat) :
    v.reinterpret t mask =
      if Value.bitSize v.ty mask ≠ Value.bitSize t mask then .err .rTypeMismatch
      else reinterpretTo t (match v.ty.kind with
        | .sint => pat 64 (sval v.ty.width v.bits)
        | _ => v.bits) := rfl

theorem reinterpret_refines (a : Nat) (ha : AddrSize a) (v : Value) (hv : VOk v) (t : ValueType) (ht : t.kind ≠ .float) :
    Sim (fun r sr => sr = absV a r ∧ VOk r) (v.reinterpret t (maskOf a)) (reinterpretInt a (absV a v) t) := by
  rw [reinterpret_unfold]
  unfold reinterpretInt
  rw [bitSize_width a ha, bitSize_width a ha]
  have hty : (absV a v).ty = v.ty := rfl
  rw [hty]
  by_cases hw : width a v.ty ≠ width a t
  · rw [if_pos hw, if_pos hw]; rfl
  · rw [if_neg hw, if_neg hw]
    have hweq : width a v.ty = width a t := by omega
    have key : ∀ (bits : Nat), bits < 2 ^ 64 →
        (bits : Int) % 2 ^ width a t = (absV a v).val % 2 ^ width a t →
        Sim (fun r sr => sr = absV a r ∧ VOk r) (reinterpretTo t bits)
          (.ok ⟨t, canon a t (absV a v).val⟩) := by
      intro bits hlt hmod
      obtain ⟨r, hr, habs, hvr⟩ := fromU64_abs a ha t ht bits hlt
      rw [reinterpretTo_eq t ht, hr]
      exact ⟨by rw [habs, canon_congr a t _ _ hmod], hvr⟩
    obtain ⟨tv, b⟩ := v
    obtain ⟨hwf, hi⟩ := hv
    have hb : b < 2 ^ tv.width := hwf
    cases tv <;> simp [IsInt, ValueType.kind] at hi <;> simp only [ValueType.width] at hb <;>
      simp only [ValueType.kind]
    case generic =>
      refine key b hb ?_
      have hweq' : width a t = 8 * a := hweq.symm
      rw [hweq']
      exact (cast_mod_emod (8 * a) b).symm
    all_goals first
      | exact key _ (pat_lt 64 _) (by
          rw [pat_cast]
          exact Int.emod_emod_of_dvd _ (by
            have : width a t ≤ 64 := by rw [← hweq]; simp [width]
            exact_mod_cast (Nat.pow_dvd_pow 2 this)))
      | exact key b (by omega) rfl

theorem parse_eq (e : Endian) (t : ValueType) (htg : t ≠ .generic) (bytes : Bytes) :
    Value.parse e t bytes =
      if t.width / 8 ≤ bytes.length then .ok ⟨t, Ints.fromBytes e (bytes.take (t.width / 8))⟩
      else .err .rUnexpectedEof := by
  cases t <;> first | exact absurd rfl htg | skip
  all_goals
    simp only [Value.parse, Ints.readFixed, Ints.take]
    split <;> rfl

theorem literal_eq (e : Endian) (a : Nat) (t : ValueType) (htg : t ≠ .generic) (bytes : Bytes) :
    literalInt e a t bytes =
      if t.width / 8 ≤ bytes.length then .ok ⟨t, canon a t (Ints.fromBytes e (bytes.take (t.width / 8)))⟩
      else .err .rUnexpectedEof := by
  cases t <;> first | exact absurd rfl htg | rfl

theorem parse_refines (a : Nat) (e : Endian) (t : ValueType) (ht : t.kind ≠ .float) (bytes : Bytes) :
    Sim (fun r sr => sr = absV a r ∧ VOk r) (Value.parse e t bytes) (literalInt e a t bytes) := by
  by_cases htg : t = .generic
  · subst htg; rfl
  · rw [parse_eq e t htg, literal_eq e a t htg]
    by_cases hle : t.width / 8 ≤ bytes.length
    · rw [if_pos hle, if_pos hle]
      have hlt := Ints.fromBytes_lt e (bytes.take (t.width / 8))
      rw [List.length_take, Nat.min_eq_left hle] at hlt
      cases t <;> simp [ValueType.kind] at ht <;> first | exact absurd rfl htg | skip
      all_goals simp only [ValueType.width] at hlt
      all_goals refine ⟨?_, ⟨by show _ < _; simp only [ValueType.width]; omega, by simp [IsInt, ValueType.kind]⟩⟩
      all_goals simp only [absV, ValueType.kind, canon, kindOf, width, ValueType.width]
      all_goals first
        | (rw [sval_eq_smod])
        | (congr 1; rw [← cast_of_mod, Nat.mod_eq_of_lt (by omega)])
    · rw [if_neg hle, if_neg hle]; rfl

theorem applyAnswer_sim (a : Nat) (c : Config) (sc : SCfg) (hc : CfgRel a c sc) (w : Waiting) (ans : Answer)
    (hans : AnsOk ans) (m : Mach) (s : SState) (h : R a m s) :
    Sim (R a) (Eval.applyAnswer c w ans m) (Machine.applyAnswer sc w (absAnswer a ans) s) := by
  have hsa := sc_a a c sc hc
  cases w <;> cases ans <;> simp only [Eval.applyAnswer, Machine.applyAnswer, absAnswer] <;>
    first
    | exact Sim.unspec _
    | exact push_value_sim a c sc hc _ hans m s h
    | skip
  case typedLiteral.baseType bytes t =>
    by_cases hf : isFloat t = true
    · rw [if_pos hf]; exact Sim.unspec _
    · rw [if_neg hf]
      have ht : t.kind ≠ .float := by cases t <;> simp [isFloat] at hf <;> simp [ValueType.kind]
      rw [hc.endian, hsa]
      refine Sim.bind (parse_refines a c.endian t ht bytes) (fun r sr ⟨e3, v3⟩ => ?_)
      subst e3
      obtain ⟨m3, hp, r3⟩ := push_sim a c hc.caps r v3 m s h
      rw [hp]
      exact r3
  case convert.baseType t =>
    refine Sim.bind (pop_sim a m s h) (fun ⟨v, m1⟩ ⟨sv, s1⟩ ⟨e1, v1, r1⟩ => ?_)
    simp only [] at e1 v1 r1 ⊢
    subst e1
    by_cases hf : isFloat t = true
    · rw [if_pos (Or.inl hf)]; exact Sim.unspec _
    · rw [if_neg (by simp [hf, isFloat_abs_false a v v1])]
      have ht : t.kind ≠ .float := by cases t <;> simp [isFloat] at hf <;> simp [ValueType.kind]
      rw [hc.mask, hsa]
      obtain ⟨r, hr, habs, hvr⟩ := convert_refines a hc.addr v v1 t ht
      rw [hr]; simp only [Out.bind_ok]
      obtain ⟨m3, hp, r3⟩ := push_sim a c hc.caps r hvr m1 s1 r1
      rw [hp, ← habs]
      exact r3
  case reinterpret.baseType t =>
    refine Sim.bind (pop_sim a m s h) (fun ⟨v, m1⟩ ⟨sv, s1⟩ ⟨e1, v1, r1⟩ => ?_)
    simp only [] at e1 v1 r1 ⊢
    subst e1
    by_cases hf : isFloat t = true
    · rw [if_pos (Or.inl hf)]; exact Sim.unspec _
    · rw [if_neg (by simp [hf, isFloat_abs_false a v v1])]
      have ht : t.kind ≠ .float := by cases t <;> simp [isFloat] at hf <;> simp [ValueType.kind]
      rw [hc.mask, hsa]
      refine Sim.bind (reinterpret_refines a hc.addr v v1 t ht) (fun r sr ⟨e3, v3⟩ => ?_)
      subst e3
      obtain ⟨m3, hp, r3⟩ := push_sim a c hc.caps r v3 m1 s1 r1
      rw [hp]
      exact r3
  case register.register off v =>
    rw [if_neg (by simp [isFloat_abs_false a v hans])]
    obtain ⟨rhs, hf, habs, hvr⟩ := fromU64_abs a hc.addr v.ty hans.2 (pat 64 off) (pat_lt64 off)
    rw [hf]; simp only [Out.bind_ok]
    rw [hc.mask, hsa]
    have hty : (absV a v).ty = v.ty := rfl
    rw [hty, ← canon_pat64 a hc.addr v.ty off, ← habs]
    refine Sim.bind (binaryOf_sim a hc.addr .add v rhs hans hvr) (fun r sr ⟨e3, v3⟩ => ?_)
    subst e3
    obtain ⟨m3, hp, r3⟩ := push_sim a c hc.caps r v3 m s h
    rw [hp]
    exact r3
  case frameBase.frameBase off fb =>
    exact push_gen_sim a c sc hc _ (Nat.mod_lt _ (by omega)) _ (abs_frame_base a hc.addr sc hsa fb off) m s h
  case tls.tls n => exact push_gen_sim a c sc hc n hans _ (abs_generic_nat a sc hsa n) m s h
  case cfa.callFrameCfa n => exact push_gen_sim a c sc hc n hans _ (abs_generic_nat a sc hsa n) m s h
  case parameterRef.parameterRef n => exact push_gen_sim a c sc hc n hans _ (abs_generic_nat a sc hsa n) m s h
  case relocatedAddress.relocatedAddress n => exact push_gen_sim a c sc hc n hans _ (abs_generic_nat a sc hsa n) m s h
  case indexedAddress.indexedAddress n => exact push_gen_sim a c sc hc n hans _ (abs_generic_nat a sc hsa n) m s h
  case atLocation.atLocation bytes =>
    cases bytes with
    | nil => exact h
    | cons b tl =>
      simp only []
      rw [hc.caps]
      have hroom : Eval.hasRoom ({} : Eval.Caps).exprs m.exprStack.length = true := rfl
      rw [if_pos hroom]
      exact { h with
        code := rfl
        pc := rfl
        pcle := Nat.zero_le _
        len := hans
        frames := by
          show ((s.code.drop s.pc, s.code) :: s.frames.map _) = _
          rw [h.frames, h.code, ← h.pc]
        framesOk := fun f hf => by
          simp at hf
          rcases hf with rfl | hf
          · exact ⟨by rw [h.code]; exact h.pcle, by rw [h.code]; exact h.len⟩
          · exact h.framesOk f hf }


/-! ## resuming, whole runs -/

theorem resume_sim (a : Nat) (c : Config) (sc : SCfg) (hc : CfgRel a c sc) (hmax : c.maxIterations = none)
    (fuel : Nat) (ans : Answer) (hans : AnsOk ans) (s : Eval) (w : Waiting) (st : SState)
    (hcfg : s.cfg = c) (hst : s.state = .waiting w) (h : R a s.m st) :
    Sim (ResRel a c) (Eval.resume fuel ans s) (Machine.resume sc fuel w (absAnswer a ans) st) := by
  unfold Eval.resume Machine.resume
  rw [hst]
  simp only []
  rw [hcfg]
  refine Sim.bind (applyAnswer_sim a c sc hc w ans hans s.m st h) (fun m1 st1 r1 => ?_)
  exact run_sim a c sc hc hmax fuel _ st1 rfl r1

/-- a scripted answer the theorem speaks about -/
def TokOk (t : Eval.Tok) : Prop := VOk t.value ∧ t.bytes.length < 2 ^ 63

theorem answerFor_ok (r : Request) (t : Eval.Tok) (ht : TokOk t) : AnsOk (Eval.answerFor r t) := by
  cases r <;> simp only [Eval.answerFor, AnsOk] <;>
    first
    | exact ht.1
    | exact ht.2
    | exact Nat.mod_lt _ (by omega)
    | trivial

/-- the Spec script a Model script denotes -/
def absScript (a : Nat) (toks : List Eval.Tok) : Machine.Script :=
  toks.map (fun t r => absAnswer a (Eval.answerFor r t))

/-- how the ends of a Model run and of a Spec run correspond -/
def FinRel (a : Nat) : Eval.Final → Machine.SFinal → Prop
  | _, .unspecified => True
  | .done ps v, .done sps sv => sps = ps.map (absPiece a) ∧ sv = v.map (absV a)
  | .error e, .error e' => e = e'
  | .diverged, .diverged => True
  | .scriptEnd, .scriptEnd => True
  | _, _ => False

/-- same requests in the same order and corresponding ends — up to the point where the Spec stops
specifying -/
def RunRel (a : Nat) (p : List Request × Eval.Final × Option Eval) (q : List Request × Machine.SFinal) : Prop :=
  q.2 = .unspecified ∨ (q.1 = p.1 ∧ FinRel a p.2.1 q.2)

theorem finRel_of_sim {α β} {Rr : α → β → Prop} (a : Nat) {x : Out α} {y : Out β} (h : Sim Rr x y)
    (hx : ∀ v, x ≠ .ok v) : FinRel a (Eval.finalOf x) (Machine.finalOf y) := by
  cases x <;> cases y <;> simp only [Sim] at h <;> simp [Eval.finalOf, Machine.finalOf, FinRel] <;>
    first | exact h | exact (hx _ rfl).elim | exact h.elim | trivial

theorem runFrom_sim (a : Nat) (c : Config) (sc : SCfg) (hc : CfgRel a c sc) (hmax : c.maxIterations = none)
    (fuel : Nat) : ∀ (toks : List Eval.Tok) (r : Request) (s : Eval) (ow : Option Waiting) (st : SState),
      (∀ t ∈ toks, TokOk t) → s.cfg = c → R a s.m st →
      (match ow with | none => s.state = .complete | some w => s.state = .waiting w) →
      RunRel a (Eval.runFrom fuel toks r s) (Machine.runFrom sc fuel (absScript a toks) r ow st) := by
  intro toks
  induction toks with
  | nil =>
    intro r s ow st _ hcfg h _
    cases r <;> cases ow <;>
      first
      | (right; exact ⟨rfl, h.pieces.symm, h.value.symm⟩)
      | (right; exact ⟨rfl, trivial⟩)
  | cons t toks ih =>
    intro r s ow st htoks hcfg h hst
    by_cases hr : r = .complete
    · subst hr
      right
      cases ow <;> exact ⟨rfl, h.pieces.symm, h.value.symm⟩
    · cases ow with
      | none =>
        left
        cases r <;> first | exact (hr rfl).elim | rfl
      | some w =>
        have hsim := resume_sim a c sc hc hmax fuel (Eval.answerFor r t) (answerFor_ok r t (htoks t (by simp)))
          s w st hcfg hst h
        have hM : Eval.runFrom fuel (t :: toks) r s =
            (match Eval.resume fuel (Eval.answerFor r t) s with
             | .ok (r', s') => (match Eval.runFrom fuel toks r' s' with | (tr, f, e) => (r :: tr, f, e))
             | o => ([r], Eval.finalOf o, none)) := by
          cases r <;> first | exact (hr rfl).elim | rfl
        have hS : Machine.runFrom sc fuel (absScript a (t :: toks)) r (some w) st =
            (match Machine.resume sc fuel w (absAnswer a (Eval.answerFor r t)) st with
             | .ok (r', w', s') => (match Machine.runFrom sc fuel (absScript a toks) r' w' s' with | (tr, fin) => (r :: tr, fin))
             | o => ([r], Machine.finalOf o)) := by
          cases r <;> first | exact (hr rfl).elim | rfl
        rw [hM, hS]
        cases hx : Eval.resume fuel (Eval.answerFor r t) s with
        | ok p =>
          obtain ⟨r', s'⟩ := p
          cases hy : Machine.resume sc fuel w (absAnswer a (Eval.answerFor r t)) st with
          | ok q =>
            obtain ⟨r'', w', st'⟩ := q
            rw [hx, hy] at hsim
            obtain ⟨e1, hR', hcfg', hst'⟩ := hsim
            simp only [] at e1 hR' hcfg' hst'
            subst e1
            have := ih r'' s' w' st' (fun t' ht' => htoks t' (by simp [ht'])) hcfg' hR' hst'
            simp only []
            rcases this with hu | ⟨he, hf⟩
            · left; exact hu
            · right; exact ⟨by rw [he], hf⟩
          | err e => rw [hx, hy] at hsim; exact hsim.elim
          | panic wy => left; rfl
          | diverge => rw [hx, hy] at hsim; exact hsim.elim
        | err e =>
          rw [hx] at hsim
          cases hy : Machine.resume sc fuel w (absAnswer a (Eval.answerFor r t)) st with
          | ok q => rw [hy] at hsim; exact hsim.elim
          | err e' => rw [hy] at hsim; right; exact ⟨rfl, hsim⟩
          | panic wy => left; rfl
          | diverge => rw [hy] at hsim; exact hsim.elim
        | panic wx =>
          rw [hx] at hsim
          cases hy : Machine.resume sc fuel w (absAnswer a (Eval.answerFor r t)) st with
          | panic wy => left; rfl
          | _ => rw [hy] at hsim; exact hsim.elim
        | diverge =>
          rw [hx] at hsim
          cases hy : Machine.resume sc fuel w (absAnswer a (Eval.answerFor r t)) st with
          | panic wy => left; rfl
          | diverge => right; exact ⟨rfl, trivial⟩
          | _ => rw [hy] at hsim; exact hsim.elim


/-! ## from a fresh evaluator -/

theorem start_sim (a : Nat) (c : Config) (sc : SCfg) (hc : CfgRel a c sc) (hmax : c.maxIterations = none)
    (fuel : Nat) (toks : List Eval.Tok) (htoks : ∀ t ∈ toks, TokOk t) (s0 : Eval) (st0 : SState)
    (hcfg : s0.cfg = c) (h : R a s0.m st0) :
    RunRel a
      (match Eval.evaluateInternal fuel s0 with
       | .ok (r, s') => Eval.runFrom fuel toks r s'
       | o => ([], Eval.finalOf o, none))
      (match Machine.run sc fuel st0 with
       | .ok (r, w, s) => Machine.runFrom sc fuel (absScript a toks) r w s
       | o => ([], Machine.finalOf o)) := by
  have hsim := run_sim a c sc hc hmax fuel s0 st0 hcfg h
  cases hx : Eval.evaluateInternal fuel s0 with
  | ok p =>
    obtain ⟨r, s'⟩ := p
    rw [hx] at hsim
    cases hy : Machine.run sc fuel st0 with
    | ok q =>
      obtain ⟨r'', w', st'⟩ := q
      rw [hy] at hsim
      obtain ⟨e1, hR', hcfg', hst'⟩ := hsim
      simp only [] at e1 hR' hcfg' hst'
      subst e1
      exact runFrom_sim a c sc hc hmax fuel toks r'' s' w' st' htoks hcfg' hR' hst'
    | err e => rw [hy] at hsim; exact hsim.elim
    | panic wy => left; rfl
    | diverge => rw [hy] at hsim; exact hsim.elim
  | err e =>
    rw [hx] at hsim
    cases hy : Machine.run sc fuel st0 with
    | ok q => rw [hy] at hsim; exact hsim.elim
    | err e' => rw [hy] at hsim; right; exact ⟨rfl, hsim⟩
    | panic wy => left; rfl
    | diverge => rw [hy] at hsim; exact hsim.elim
  | panic wx =>
    rw [hx] at hsim
    cases hy : Machine.run sc fuel st0 with
    | panic wy => left; rfl
    | _ => rw [hy] at hsim; exact hsim.elim
  | diverge =>
    rw [hx] at hsim
    cases hy : Machine.run sc fuel st0 with
    | panic wy => left; rfl
    | diverge => right; exact ⟨rfl, trivial⟩
    | _ => rw [hy] at hsim; exact hsim.elim

theorem run_of_ready (fuel : Nat) (toks : List Eval.Tok) (s : Eval) (hs : s.state = .ready) :
    Eval.run fuel toks s =
      (match Eval.evaluateInternal fuel s with
       | .ok (r, s') => Eval.runFrom fuel toks r s'
       | o => ([], Eval.finalOf o, none)) := by
  unfold Eval.run Eval.evaluate
  rw [hs]
  simp only []
  cases Eval.evaluateInternal fuel s with
  | ok p => rfl
  | err e => rfl
  | panic w => rfl
  | diverge => rfl

theorem new_ok (a : Nat) (ha : AddrSize a) (e : Endian) (enc : Encoding) (henc : enc.addressSize = a) (mode : Mode)
    (code : Bytes) (init obj : Option Nat) :
    Eval.new e enc {} mode code init obj none =
      .ok { cfg := { endian := e, encoding := enc, caps := {}, mode := mode, objectAddress := obj,
                     maxIterations := none, addrMask := maskOf a },
            m := { bytecode := code, pc := code }, state := .start init } := by
  unfold Eval.new Eval.addrMask
  rw [henc]
  rcases ha with h | h | h | h <;> subst h <;> rfl


def initStack : Option Nat → List Value
  | some v => [Value.generic v]
  | none => []

theorem run_of_start (fuel : Nat) (toks : List Eval.Tok) (s : Eval) (init : Option Nat) (hs : s.state = .start init)
    (hcaps : s.cfg.caps = {}) :
    Eval.run fuel toks s =
      (match Eval.evaluateInternal fuel
          { s with m := { s.m with stack := initStack init ++ s.m.stack },
                   state := .ready } with
       | .ok (r, s') => Eval.runFrom fuel toks r s'
       | o => ([], Eval.finalOf o, none)) := by
  unfold Eval.run Eval.evaluate
  rw [hs]
  cases init with
  | none =>
    simp only [initStack, List.nil_append]
    cases Eval.evaluateInternal fuel { s with state := .ready } <;> rfl
  | some v =>
    simp only [initStack, Eval.push, hcaps, Eval.hasRoom, ite_true, List.cons_append, List.nil_append]
    cases Eval.evaluateInternal fuel
      { s with m := { s.m with stack := Value.generic v :: s.m.stack }, state := .ready } <;> rfl

/-- **`eval_refines`** (see `Props/C07.lean`) -/
theorem run_refines (a : Nat) (ha : AddrSize a) (e : Endian) (enc : Encoding) (henc : enc.addressSize = a)
    (mode : Mode) (code : Bytes) (hlen : code.length < 2 ^ 63) (init obj : Option Nat)
    (hinit : ∀ v, init = some v → v < 2 ^ 64) (hobj : ∀ v, obj = some v → v < 2 ^ 64)
    (fuel : Nat) (toks : List Eval.Tok) (htoks : ∀ t ∈ toks, TokOk t)
    (s : Eval)
    (hnew : Eval.new e enc {} mode code init obj none = .ok s) :
    RunRel a (Eval.run fuel toks s) (Machine.runAll ⟨e, enc, obj⟩ fuel (absScript a toks) code init) := by
  rw [new_ok a ha e enc henc mode code init obj] at hnew
  cases hnew
  have hc : CfgRel a { endian := e, encoding := enc, caps := {}, mode := mode, objectAddress := obj,
                       maxIterations := none, addrMask := maskOf a } ⟨e, enc, obj⟩ :=
    { addr := ha, asz := henc, mask := rfl, endian := rfl, enc := rfl, obj := rfl, objlt := hobj, caps := rfl }
  have hsa := sc_a a _ _ hc
  rw [run_of_start fuel toks _ init rfl rfl]
  unfold Machine.runAll Machine.initial
  refine start_sim a _ _ hc rfl fuel toks htoks _ _ rfl ?_
  simp only [List.append_nil]
  cases init with
  | none =>
    simp only [initStack]
    exact { code := rfl, pc := rfl, pcle := Nat.zero_le _, len := hlen, stack := rfl,
            vok := (fun v hv => by cases hv), frames := rfl, framesOk := (fun f hf => by cases hf),
            pieces := rfl, value := rfl }
  | some v =>
    simp only [initStack]
    exact { code := rfl, pc := rfl, pcle := Nat.zero_le _, len := hlen,
            stack := by
              show [absV a ⟨.generic, v⟩] = [Machine.gen _ (v : Int)]
              rw [abs_generic_nat a _ hsa v],
            vok := (fun w hw => by
              simp at hw; subst hw; exact vok_generic v (hinit v rfl)),
            frames := rfl, framesOk := (fun f hf => by cases hf), pieces := rfl, value := rfl }

end Gimli.Sim
