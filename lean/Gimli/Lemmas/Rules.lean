import Gimli.Model.Unwind
/-!
# `RegisterRuleMap` as an association vector: lemmas (C06)

`Rules.get / set / clear` of `Model/Unwind.lean` against the extensional view
`fun r => Rules.get m r`, under the invariant `NodupKeys` (no register has two entries), which
every reachable map satisfies (`set` overwrites an existing entry, `clear` removes one).
-/
namespace Gimli.Unwind
open Gimli.Cfi

/-- `n` items fit in a storage of capacity `c` -/
def Cap.fits (c : Cap) (n : Nat) : Prop :=
  match c with
  | none => True
  | some k => n ≤ k

theorem Cap.hasRoom_iff (c : Cap) (n : Nat) : c.hasRoom n = true ↔ c.fits (n + 1) := by
  cases c <;> simp [Cap.hasRoom, Cap.fits]; omega

theorem Cap.fits_mono {c : Cap} {a b : Nat} (h : a ≤ b) (hb : c.fits b) : c.fits a := by
  cases c <;> simp [Cap.fits] at *; omega

namespace Rules

/-- the registers that have an entry, in index order -/
def keys (m : Rules) : List Reg := m.map Prod.fst

/-- no register has two entries -/
def NodupKeys (m : Rules) : Prop := (keys m).Nodup

@[simp] theorem keys_nil : keys [] = [] := rfl
@[simp] theorem keys_cons (k : Reg) (v : Rule) (t : Rules) : keys ((k, v) :: t) = k :: keys t := rfl
@[simp] theorem keys_append (a b : Rules) : keys (a ++ b) = keys a ++ keys b := by simp [keys]
@[simp] theorem get_nil (r : Reg) : get [] r = none := rfl
theorem get_cons (k : Reg) (v : Rule) (t : Rules) (r : Reg) :
    get ((k, v) :: t) r = if k = r then some v else get t r := rfl

theorem get_eq_none_iff (m : Rules) (r : Reg) : get m r = none ↔ r ∉ keys m := by
  induction m with
  | nil => simp
  | cons kv t ih =>
    obtain ⟨k, v⟩ := kv
    rw [get_cons]
    by_cases h : k = r
    · simp [h]
    · simp [h, ih, Ne.symm h]

theorem get_some_iff_mem {m : Rules} (h : NodupKeys m) (r : Reg) (v : Rule) :
    get m r = some v ↔ (r, v) ∈ m := by
  induction m with
  | nil => simp
  | cons kv t ih =>
    obtain ⟨k, w⟩ := kv
    have hn : k ∉ keys t ∧ NodupKeys t := by simpa [NodupKeys, List.nodup_cons] using h
    rw [get_cons]
    by_cases hk : k = r
    · subst hk
      simp only [if_true, List.mem_cons, Prod.mk.injEq, true_and, Option.some.injEq]
      constructor
      · intro e; exact Or.inl e.symm
      · rintro (e | e)
        · exact e.symm
        · exact absurd (List.mem_map_of_mem (f := Prod.fst) e) hn.1
    · simp only [hk, if_false, List.mem_cons, Prod.mk.injEq, ih hn.2]
      constructor
      · exact Or.inr
      · rintro (⟨e, _⟩ | e)
        · exact absurd e.symm hk
        · exact e


/-! ### `set` -/

theorem replaceFirst_none_iff (m : Rules) (r : Reg) (v : Rule) :
    replaceFirst m r v = none ↔ r ∉ keys m := by
  induction m with
  | nil => simp [replaceFirst]
  | cons kv t ih =>
    obtain ⟨k, w⟩ := kv
    rw [replaceFirst]
    by_cases h : k = r
    · simp [h]
    · simp only [h, if_false, keys_cons, List.mem_cons, not_or]
      cases hr : replaceFirst t r v with
      | none => simp [ih.mp hr, Ne.symm h]
      | some t' =>
        simp only [reduceCtorEq, false_iff, not_and, Classical.not_not]
        intro _
        have : ¬ (r ∉ keys t) := fun hh => by rw [ih.mpr hh] at hr; cases hr
        exact Classical.not_not.mp this

theorem replaceFirst_some {m m' : Rules} {r : Reg} {v : Rule} (h : replaceFirst m r v = some m') :
    keys m' = keys m ∧ (∀ x, get m' x = if x = r then some v else get m x) := by
  induction m generalizing m' with
  | nil => simp [replaceFirst] at h
  | cons kv t ih =>
    obtain ⟨k, w⟩ := kv
    rw [replaceFirst] at h
    by_cases hk : k = r
    · simp only [hk, if_true, Option.some.injEq] at h
      subst h; subst hk
      refine ⟨rfl, fun x => ?_⟩
      simp only [get_cons]
      by_cases hx : k = x
      · simp [hx]
      · simp [hx, Ne.symm hx]
    · simp only [hk, if_false] at h
      cases hr : replaceFirst t r v with
      | none => rw [hr] at h; cases h
      | some t' =>
        rw [hr] at h
        simp only [Option.some.injEq] at h
        subst h
        obtain ⟨hk', hg⟩ := ih hr
        refine ⟨by simp [hk'], fun x => ?_⟩
        simp only [get_cons, hg]
        by_cases hx : k = x
        · subst hx; simp [hk]
        · simp [hx]

theorem get_append_single (m : Rules) (r : Reg) (v : Rule) (h : r ∉ keys m) (x : Reg) :
    get (m ++ [(r, v)]) x = if x = r then some v else get m x := by
  induction m with
  | nil => simp [get_cons, eq_comm]
  | cons kv t ih =>
    obtain ⟨k, w⟩ := kv
    simp only [keys_cons, List.mem_cons, not_or] at h
    simp only [List.cons_append, get_cons, ih h.2]
    by_cases hx : k = x
    · subst hx; simp [Ne.symm h.1]
    · simp [hx]

/-- what a successful `set` does: the extensional map is updated at `r`, keys stay duplicate
free, and the vector grows by one exactly when `r` had no entry -/
theorem set_ok {N : Cap} {m m' : Rules} {r : Reg} {v : Rule} (h : set N m r v = .ok m') :
    (∀ x, get m' x = if x = r then some v else get m x) ∧
    (NodupKeys m → NodupKeys m') ∧
    m'.length = (if get m r = none then m.length + 1 else m.length) ∧
    (N.fits m.length → N.fits m'.length) := by
  unfold set at h
  cases hr : replaceFirst m r v with
  | some m1 =>
    rw [hr] at h
    simp only [Out.ok.injEq] at h
    subst h
    obtain ⟨hk, hg⟩ := replaceFirst_some hr
    have hmem : ¬ (r ∉ keys m) := fun hh => by rw [(replaceFirst_none_iff m r v).mpr hh] at hr; cases hr
    have hne : get m r ≠ none := fun hh => hmem ((get_eq_none_iff m r).mp hh)
    have hl : m1.length = m.length := by
      have := congrArg List.length hk
      simpa [keys] using this
    refine ⟨hg, fun hn => by simpa [NodupKeys, hk] using hn, by simp [hne, hl], by simp [hl]⟩
  | none =>
    rw [hr] at h
    have hnot := (replaceFirst_none_iff m r v).mp hr
    by_cases hroom : N.hasRoom m.length = true
    · simp only [hroom, if_true, Out.ok.injEq] at h
      subst h
      refine ⟨get_append_single m r v hnot, fun hn => ?_, ?_, fun _ => by simpa using (Cap.hasRoom_iff N m.length).mp hroom⟩
      · have : keys (m ++ [(r, v)]) = keys m ++ [r] := by simp
        rw [NodupKeys, this, List.nodup_append]
        refine ⟨hn, by simp, fun a ha b hb => ?_⟩
        simp only [List.mem_cons, List.not_mem_nil, or_false] at hb
        subst hb
        exact fun e => hnot (e ▸ ha)
      · simp [(get_eq_none_iff m r).mpr hnot]
    · simp [hroom] at h

theorem set_eq_err {N : Cap} {m : Rules} {r : Reg} {v : Rule} :
    (∃ m', set N m r v = .ok m') ∨
    (set N m r v = .err .rTooManyRegisterRules ∧ get m r = none ∧ N.hasRoom m.length = false) := by
  unfold set
  cases hr : replaceFirst m r v with
  | some m1 => exact Or.inl ⟨m1, rfl⟩
  | none =>
    have hnot := (replaceFirst_none_iff m r v).mp hr
    by_cases hroom : N.hasRoom m.length = true
    · simp [hroom]
    · right
      simp only [hroom]
      exact ⟨rfl, (get_eq_none_iff m r).mpr hnot, by simp⟩


/-! ### `clear` (`swap_remove`) -/

theorem indexOf_none_iff (m : Rules) (r : Reg) : indexOf m r = none ↔ r ∉ keys m := by
  induction m with
  | nil => simp [indexOf]
  | cons kv t ih =>
    obtain ⟨k, w⟩ := kv
    rw [indexOf]
    by_cases h : k = r
    · simp [h]
    · simp [h, ih, Ne.symm h]

theorem indexOf_some {m : Rules} {r : Reg} {i : Nat} (h : indexOf m r = some i) :
    ∃ a v b, m = a ++ (r, v) :: b ∧ a.length = i ∧ r ∉ keys a := by
  induction m generalizing i with
  | nil => simp [indexOf] at h
  | cons kv t ih =>
    obtain ⟨k, w⟩ := kv
    rw [indexOf] at h
    by_cases hk : k = r
    · simp only [hk, if_true, Option.some.injEq] at h
      subst hk
      exact ⟨[], w, t, rfl, by simpa using h, by simp⟩
    · simp only [hk, if_false, Option.map_eq_some_iff] at h
      obtain ⟨j, hj, hi⟩ := h
      obtain ⟨a, v, b, hm, hl, hn⟩ := ih hj
      refine ⟨(k, w) :: a, v, b, by simp [hm], by simp [hl, hi], ?_⟩
      simp [hn, Ne.symm hk]

theorem swapRemove_decomp (a : Rules) (kv : Reg × Rule) (b : Rules) :
    swapRemove (a ++ kv :: b) a.length =
      a ++ (match b.getLast? with | none => [] | some l => l :: b.dropLast) := by
  unfold swapRemove
  rcases List.eq_nil_or_concat b with hb | ⟨b', l, hb⟩
  · subst hb
    simp
  · subst hb
    simp only [List.concat_eq_append]
    have h1 : (a ++ kv :: (b' ++ [l])).getLast? = some l := by
      rw [show a ++ kv :: (b' ++ [l]) = (a ++ kv :: b') ++ [l] by simp]
      exact List.getLast?_concat
    rw [h1]
    simp only [List.getLast?_concat, List.dropLast_concat]
    rw [List.set_append_right _ _ (Nat.le_refl _)]
    simp only [Nat.sub_self, List.set_cons_zero]
    rw [show a ++ l :: (b' ++ [l]) = (a ++ l :: b') ++ [l] by simp, List.dropLast_concat]


theorem mem_keys_of_mem {m : Rules} {x : Reg} {w : Rule} (h : (x, w) ∈ m) : x ∈ keys m :=
  List.mem_map_of_mem (f := Prod.fst) h

/-- `clear` in terms of membership -/
theorem clear_mem {m : Rules} (hn : NodupKeys m) (r : Reg) :
    NodupKeys (clear m r) ∧ (∀ x w, (x, w) ∈ clear m r ↔ ((x, w) ∈ m ∧ x ≠ r)) ∧
    (clear m r).length ≤ m.length := by
  unfold clear
  cases hi : indexOf m r with
  | none =>
    have hnot := (indexOf_none_iff m r).mp hi
    refine ⟨hn, fun x w => ⟨fun h => ⟨h, fun e => hnot (e ▸ mem_keys_of_mem h)⟩, fun h => h.1⟩, Nat.le_refl _⟩
  | some i =>
    obtain ⟨a, v, b, hm, hl, hra⟩ := indexOf_some hi
    subst hm; subst hl
    simp only
    rw [swapRemove_decomp]
    have hn' : (keys a ++ r :: keys b).Nodup := by simpa [NodupKeys] using hn
    rw [List.nodup_append, List.nodup_cons] at hn'
    obtain ⟨hna, ⟨hrb, hnb⟩, hab⟩ := hn'
    rcases List.eq_nil_or_concat b with hb | ⟨b', l, hb⟩
    · subst hb
      simp only [List.getLast?_nil, List.append_nil]
      refine ⟨hna, fun x w => ?_, by simp⟩
      simp only [List.mem_append, List.mem_cons, List.not_mem_nil, or_false, Prod.mk.injEq]
      constructor
      · intro h; exact ⟨Or.inl h, fun e => hra (e ▸ mem_keys_of_mem h)⟩
      · rintro ⟨h | ⟨e, _⟩, hne⟩
        · exact h
        · exact absurd e hne
    · subst hb
      obtain ⟨lk, lv⟩ := l
      simp only [List.concat_eq_append, List.getLast?_concat, List.dropLast_concat]
      simp only [List.concat_eq_append, keys_append, keys_cons, keys_nil, List.mem_append,
        List.mem_cons, List.not_mem_nil, or_false, not_or, List.nodup_append, List.nodup_cons,
        List.nodup_nil, not_false_eq_true, and_true, true_and] at hrb hnb hab
      refine ⟨?_, fun x w => ?_, by simp⟩
      · simp only [NodupKeys, keys_append, keys_cons, List.nodup_append, List.nodup_cons]
        refine ⟨hna, ⟨fun hmem => hnb.2 _ hmem _ rfl rfl, hnb.1⟩, fun x hx y hy => ?_⟩
        rcases List.mem_cons.mp hy with e | hy
        · subst e; exact hab x hx _ (Or.inr (Or.inr rfl))
        · exact hab x hx y (Or.inr (Or.inl hy))
      · simp only [List.mem_append, List.mem_cons, Prod.mk.injEq, List.not_mem_nil, or_false]
        constructor
        · rintro (h | ⟨e1, e2⟩ | h)
          · exact ⟨Or.inl h, fun e => hra (e ▸ mem_keys_of_mem h)⟩
          · subst e1; subst e2
            exact ⟨Or.inr (Or.inr (Or.inr ⟨rfl, rfl⟩)), fun e => hrb.2 e.symm⟩
          · exact ⟨Or.inr (Or.inr (Or.inl h)), fun e => hrb.1 (e ▸ mem_keys_of_mem h)⟩
        · rintro ⟨h | ⟨e, _⟩ | h | ⟨e1, e2⟩, hne⟩
          · exact Or.inl h
          · exact absurd e hne
          · exact Or.inr (Or.inr h)
          · exact Or.inr (Or.inl ⟨e1, e2⟩)

/-- **`swap_remove` deletion preserves the extensional map.** -/
theorem clear_get {m : Rules} (hn : NodupKeys m) (r x : Reg) :
    get (clear m r) x = if x = r then none else get m x := by
  obtain ⟨hn', hmem, _⟩ := clear_mem hn r
  apply Option.ext
  intro w
  rw [get_some_iff_mem hn', hmem]
  by_cases hx : x = r
  · simp [hx]
  · simp [hx, get_some_iff_mem hn]

theorem clear_nodup {m : Rules} (hn : NodupKeys m) (r : Reg) : NodupKeys (clear m r) :=
  (clear_mem hn r).1

theorem clear_length_le {m : Rules} (hn : NodupKeys m) (r : Reg) : (clear m r).length ≤ m.length :=
  (clear_mem hn r).2.2

end Rules
end Gimli.Unwind
