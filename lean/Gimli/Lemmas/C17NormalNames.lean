import Gimli.Lemmas.C17Normal
import Gimli.Lemmas.NamesEntries
/-! Totality lemmas for the `.debug_names` Model (see `Lemmas/C17Normal.lean`). -/
namespace Gimli.C17
open Gimli Gimli.Ints Gimli.Names

theorem uleb_consumes (bs : Bytes) (v : Nat) (r : Bytes) (h : Leb.unsigned bs = .ok (v, r)) :
    r.length < bs.length := by
  obtain ⟨pre, hb, henc, _⟩ := Leb.unsigned_sound bs v r h
  cases pre with
  | nil => simp [Spec.IsLebEnc] at henc
  | cons a t => rw [hb]; simp; omega

theorem u16_consumes (bs : Bytes) (v : Nat) (r : Bytes) (h : Leb.u16 bs = .ok (v, r)) :
    r.length < bs.length := by
  obtain ⟨pre, hb, henc, _⟩ := Leb.u16_sound bs v r h
  cases pre with
  | nil => simp [Spec.IsLebEnc] at henc
  | cons a t => rw [hb]; simp; omega

theorem uleb_normal (bs : Bytes) : (Leb.unsigned bs).Normal := Props.C01.uleb_total bs
theorem u16_normal (bs : Bytes) : (Leb.u16 bs).Normal := Props.C01.u16leb_total bs

theorem nm_parseHeader_normal (e : Endian) (input : Bytes) : (Names.parseHeader e input).Normal := by
  unfold Names.parseHeader
  refine normal_bind (readInitialLength_normal e input) (fun p _ => ?_)
  obtain ⟨⟨len, fmt⟩, in1⟩ := p
  refine normal_bind (take_normal _ _) (fun p _ => ?_)
  obtain ⟨body, in2⟩ := p
  refine normal_bind (readFixed_normal e 2 body) (fun p _ => ?_)
  obtain ⟨ver, r1⟩ := p
  simp only
  split
  · exact normal_err _
  refine normal_bind (take_normal _ _) (fun p _ => ?_)
  refine normal_bind (readFixed_normal e 4 _) (fun p _ => ?_)
  refine normal_bind (readFixed_normal e 4 _) (fun p _ => ?_)
  refine normal_bind (readFixed_normal e 4 _) (fun p _ => ?_)
  refine normal_bind (readFixed_normal e 4 _) (fun p _ => ?_)
  refine normal_bind (readFixed_normal e 4 _) (fun p _ => ?_)
  refine normal_bind (readFixed_normal e 4 _) (fun p _ => ?_)
  refine normal_bind (readFixed_normal e 4 _) (fun p _ => ?_)
  split
  · refine normal_bind (take_normal _ _) (fun p _ => ?_)
    refine normal_bind (take_normal _ _) (fun p _ => ?_)
    exact normal_pure _
  · exact normal_pure _

theorem nm_parseHeader_consumes (e : Endian) (input : Bytes) (h : Names.Header) (rest : Bytes)
    (hp : Names.parseHeader e input = .ok (h, rest)) : rest.length < input.length := by
  unfold Names.parseHeader at hp
  obtain ⟨⟨⟨len, fmt⟩, in1⟩, h1, hp⟩ := bind_eq_ok _ _ _ hp
  obtain ⟨⟨b0, in2⟩, h2, hp⟩ := bind_eq_ok _ _ _ hp
  obtain ⟨a1, e1, l1⟩ := readInitialLength_split e input len fmt in1 h1
  obtain ⟨e2, l2⟩ := take_ok_split _ _ _ _ h2
  have hrest : rest = in2 := by
    obtain ⟨⟨ver, r1⟩, h3, hp⟩ := bind_eq_ok _ _ _ hp
    simp only at hp
    split at hp
    · simp at hp
    obtain ⟨_, _, hp⟩ := bind_eq_ok _ _ _ hp
    obtain ⟨_, _, hp⟩ := bind_eq_ok _ _ _ hp
    obtain ⟨_, _, hp⟩ := bind_eq_ok _ _ _ hp
    obtain ⟨_, _, hp⟩ := bind_eq_ok _ _ _ hp
    obtain ⟨_, _, hp⟩ := bind_eq_ok _ _ _ hp
    obtain ⟨_, _, hp⟩ := bind_eq_ok _ _ _ hp
    obtain ⟨_, _, hp⟩ := bind_eq_ok _ _ _ hp
    obtain ⟨_, _, hp⟩ := bind_eq_ok _ _ _ hp
    split at hp
    · obtain ⟨_, _, hp⟩ := bind_eq_ok _ _ _ hp
      obtain ⟨_, _, hp⟩ := bind_eq_ok _ _ _ hp
      simp only [Out.pure_eq, Out.ok.injEq, Prod.mk.injEq] at hp
      exact hp.2.symm
    · simp only [Out.pure_eq, Out.ok.injEq, Prod.mk.injEq] at hp
      exact hp.2.symm
  rw [hrest, e1, e2]
  simp only [List.length_append, l1]
  cases fmt <;> simp <;> omega

theorem parseAttrSpecs_ok (fuel : Nat) (bs : Bytes) (hf : bs.length < fuel) :
    (parseAttrSpecs fuel bs).Normal ∧
      ∀ specs r, parseAttrSpecs fuel bs = .ok (specs, r) → r.length ≤ bs.length := by
  induction fuel generalizing bs with
  | zero => omega
  | succ f ih =>
    rw [parseAttrSpecs]
    cases h1 : Leb.u16 bs with
    | ok p1 =>
      obtain ⟨name, r1⟩ := p1
      have c1 := u16_consumes bs name r1 h1
      simp only [Out.bind_ok]
      cases h2 : Leb.u16 r1 with
      | ok p2 =>
        obtain ⟨form, r2⟩ := p2
        have c2 := u16_consumes r1 form r2 h2
        simp only [Out.bind_ok]
        split
        · refine ⟨normal_pure _, fun specs r h => ?_⟩
          simp only [Out.pure_eq, Out.ok.injEq, Prod.mk.injEq] at h
          rw [← h.2]; omega
        · split
          · exact ⟨normal_err _, fun specs r h => by simp at h⟩
          · split
            · exact ⟨normal_err _, fun specs r h => by simp at h⟩
            · obtain ⟨hn, hc⟩ := ih r2 (by omega)
              refine ⟨normal_bind hn (fun p _ => normal_pure _), fun specs r h => ?_⟩
              obtain ⟨⟨sp, r3⟩, h3, h4⟩ := bind_eq_ok _ _ _ h
              simp only [Out.pure_eq, Out.ok.injEq, Prod.mk.injEq] at h4
              have := hc sp r3 h3
              rw [← h4.2]; omega
      | err x => exact ⟨by simp [Out.Normal], fun specs r h => by simp at h⟩
      | panic w => exact absurd (u16_normal r1) (by rw [h2]; simp [Out.Normal])
      | diverge => exact absurd (u16_normal r1) (by rw [h2]; simp [Out.Normal])
    | err x => exact ⟨by simp [Out.Normal], fun specs r h => by simp at h⟩
    | panic w => exact absurd (u16_normal bs) (by rw [h1]; simp [Out.Normal])
    | diverge => exact absurd (u16_normal bs) (by rw [h1]; simp [Out.Normal])

/-- `NameAbbreviations::parse` ends on every byte string (fuel above the length suffices) -/
theorem parseAbbrevs_normal (fuel : Nat) (bs : Bytes) (hf : bs.length < fuel) :
    (parseAbbrevs fuel bs).Normal := by
  induction fuel generalizing bs with
  | zero => omega
  | succ f ih =>
    rw [parseAbbrevs]
    split
    · exact normal_ok _
    · refine normal_bind (uleb_normal bs) (fun p hp => ?_)
      obtain ⟨code, r1⟩ := p
      have c1 := uleb_consumes bs code r1 hp
      simp only
      split
      · exact normal_pure _
      · refine normal_bind (u16_normal r1) (fun p hp2 => ?_)
        obtain ⟨tag, r2⟩ := p
        have c2 := u16_consumes r1 tag r2 hp2
        simp only
        split
        · exact normal_err _
        · obtain ⟨hn, hc⟩ := parseAttrSpecs_ok (r2.length + 1) r2 (by omega)
          refine normal_bind hn (fun p hp3 => ?_)
          obtain ⟨attrs, r3⟩ := p
          have c3 := hc attrs r3 hp3
          exact normal_bind (ih r3 (by omega)) (fun _ _ => normal_pure _)

/-- `NameIndex::new` (layout arithmetic + abbreviation table) -/
theorem nm_new_normal (h : Names.Header) : (Names.Index.new h).Normal := by
  unfold Names.Index.new
  simp only
  refine normal_bind (take_normal _ _) (fun p _ => ?_)
  refine normal_bind (take_normal _ _) (fun p _ => ?_)
  refine normal_bind (take_normal _ _) (fun p _ => ?_)
  refine normal_bind (take_normal _ _) (fun p _ => ?_)
  refine normal_bind (take_normal _ _) (fun p _ => ?_)
  refine normal_bind (take_normal _ _) (fun p _ => ?_)
  refine normal_bind (take_normal _ _) (fun p _ => ?_)
  refine normal_bind (take_normal _ _) (fun p _ => ?_)
  refine normal_bind (parseAbbrevs_normal _ _ (by omega)) (fun p _ => ?_)
  exact normal_pure _

theorem skipTo_normal (bs : Bytes) (off : Nat) : (skipTo bs off).Normal := by
  unfold skipTo; split <;> simp [Out.Normal]

theorem offsetAt_normal (e : Endian) (f : Format) (l : Bytes) (i : Nat) : (offsetAt e f l i).Normal := by
  unfold offsetAt
  refine normal_bind (skipTo_normal _ _) (fun r _ => ?_)
  exact normal_bind (readWord_normal e f r) (fun _ _ => normal_pure _)

theorem map_normal {α β : Type} (f : α → β) (x : Out α) (h : x.Normal) : (x.map f).Normal := by
  cases x <;> simp_all [Out.map, Out.Normal]

theorem getStr_normal (s : Bytes) (off : Nat) : (getStr s off).Normal := by
  unfold getStr
  refine normal_bind (skipTo_normal _ _) (fun r _ => ?_)
  exact normal_bind (readCStr_normal r) (fun _ _ => normal_pure _)

theorem foreignTypeUnit_normal (e : Endian) (ix : Names.Index) (i : Nat) : (ix.foreignTypeUnit e i).Normal := by
  unfold Index.foreignTypeUnit
  refine normal_bind (skipTo_normal _ _) (fun r _ => ?_)
  exact normal_bind (readFixed_normal e 8 r) (fun _ _ => normal_pure _)

theorem typeUnit_normal (e : Endian) (ix : Names.Index) (i : Nat) : (ix.typeUnit e i).Normal := by
  unfold Index.typeUnit
  split
  · exact map_normal _ _ (foreignTypeUnit_normal e ix _)
  · exact map_normal _ _ (offsetAt_normal e _ _ _)

theorem bucketNew_normal (e : Endian) (ix : Names.Index) (b : Nat) : (BucketIter.new e ix b).Normal := by
  unfold BucketIter.new
  refine normal_bind (skipTo_normal _ _) (fun r _ => ?_)
  refine normal_bind (readFixed_normal e 4 r) (fun p _ => ?_)
  obtain ⟨start, r1⟩ := p
  simp only
  split
  · exact normal_pure _
  · exact normal_bind (skipTo_normal _ _) (fun _ _ => normal_pure _)

/-- a bucket can only be opened on an index that has buckets: `new` reads 4 bytes of the bucket
array, which is `4·bucket_count` bytes long -/
theorem bucketNew_some (e : Endian) (ix : Names.Index) (b : Nat) (it : BucketIter)
    (hlen : ix.bucketData.length = ix.bucketCount * 4)
    (h : BucketIter.new e ix b = .ok (some it)) : ix.bucketCount ≠ 0 := by
  unfold BucketIter.new at h
  obtain ⟨r, h1, h⟩ := bind_eq_ok _ _ _ h
  obtain ⟨⟨start, r1⟩, h2, _⟩ := bind_eq_ok _ _ _ h
  intro h0
  rw [h0] at hlen
  have hnil : ix.bucketData = [] := List.length_eq_zero_iff.mp (by omega)
  unfold skipTo at h1
  rw [hnil] at h1
  split at h1
  · simp only [Out.ok.injEq] at h1
    rw [← h1] at h2
    simp [readFixed, take] at h2
  · simp at h1

/-- `NameBucketIter::next` (the `%` cannot divide by zero on an iterator that exists) -/
theorem bucketNext_ok (e : Endian) (ix : Names.Index) (it : BucketIter) (hbc : ix.bucketCount ≠ 0) :
    (it.next e ix).1.Normal ∧
      (∀ p, (it.next e ix).1 = .ok (some p) →
        ix.nameCount - (it.next e ix).2.index < ix.nameCount - it.index) := by
  unfold BucketIter.next
  split
  · exact ⟨normal_ok _, fun p h => by simp at h⟩
  · rename_i hlt
    have hn := readFixed_normal e 4 it.reader
    cases hr : readFixed e 4 it.reader with
    | ok p =>
      obtain ⟨hash, rd⟩ := p
      simp only
      split
      · exact ⟨normal_ok _, fun p h => by simp at h⟩
      · exact ⟨normal_ok _, fun _ _ => by simp only; omega⟩
    | err x => exact ⟨normal_err _, fun p h => by simp at h⟩
    | panic w => rw [hr] at hn; simp [Out.Normal] at hn
    | diverge => rw [hr] at hn; simp [Out.Normal] at hn

/-- the `while let` loop of `NameHashIter::next` ends: at most `name_count - index` hashes are
skipped -/
theorem hashNext_normal (e : Endian) (ix : Names.Index) (hash : Nat) (hbc : ix.bucketCount ≠ 0)
    (fuel : Nat) (it : BucketIter) (hf : ix.nameCount - it.index < fuel) :
    (hashNext e ix hash fuel it).1.Normal ∧
      (∀ i, (hashNext e ix hash fuel it).1 = .ok (some i) →
        ix.nameCount - (hashNext e ix hash fuel it).2.index < ix.nameCount - it.index) := by
  induction fuel generalizing it with
  | zero => omega
  | succ f ih =>
    rw [hashNext]
    obtain ⟨hn, hd⟩ := bucketNext_ok e ix it hbc
    cases hs : it.next e ix with
    | mk r it' =>
      rw [hs] at hn hd
      simp only at hn hd
      cases r with
      | ok o =>
        cases o with
        | some p =>
          obtain ⟨i, h⟩ := p
          have hdec := hd (i, h) rfl
          simp only
          split
          · exact ⟨normal_ok _, fun _ _ => hdec⟩
          · obtain ⟨a, b⟩ := ih it' (by omega)
            exact ⟨a, fun j hj => by have := b j hj; omega⟩
        | none => exact ⟨normal_ok _, fun i h => by simp at h⟩
      | err x => exact ⟨normal_err _, fun i h => by simp at h⟩
      | panic w => simp [Out.Normal] at hn
      | diverge => simp [Out.Normal] at hn

/-- draining a bucket: at most `name_count - index` pairs, the cap is not reached -/
theorem bucketDrain_total (e : Endian) (ix : Names.Index) (hbc : ix.bucketCount ≠ 0) (fuel : Nat)
    (it : BucketIter) (hf : ix.nameCount - it.index < fuel) :
    BucketIter.drain e ix fuel it = BucketIter.drain e ix (fuel + 1) it ∧
      (BucketIter.drain e ix fuel it).length ≤ ix.nameCount - it.index + 1 := by
  induction fuel generalizing it with
  | zero => omega
  | succ f ih =>
    rw [BucketIter.drain, BucketIter.drain]
    obtain ⟨hn, hd⟩ := bucketNext_ok e ix it hbc
    cases hs : it.next e ix with
    | mk r it' =>
      rw [hs] at hn hd
      simp only at hn hd
      cases r with
      | ok o =>
        cases o with
        | some p =>
          have hdec := hd p rfl
          obtain ⟨a, b⟩ := ih it' (by omega)
          simp only [List.length_cons]
          exact ⟨by rw [a], by omega⟩
        | none => exact ⟨rfl, by simp⟩
      | err x => exact ⟨rfl, by simp⟩
      | panic w => simp [Out.Normal] at hn
      | diverge => simp [Out.Normal] at hn

/-- draining a hash lookup: same bound -/
theorem hashDrain_total (e : Endian) (ix : Names.Index) (hash : Nat) (hbc : ix.bucketCount ≠ 0)
    (fuel : Nat) (it : BucketIter) (hf : ix.nameCount - it.index < fuel) :
    hashDrain e ix hash fuel it = hashDrain e ix hash (fuel + 1) it ∧
      (hashDrain e ix hash fuel it).length ≤ ix.nameCount - it.index + 1 := by
  induction fuel generalizing it with
  | zero => omega
  | succ f ih =>
    rw [hashDrain, hashDrain]
    obtain ⟨hn, hd⟩ := hashNext_normal e ix hash hbc (ix.nameCount + 2) it (by omega)
    cases hs : hashNext e ix hash (ix.nameCount + 2) it with
    | mk r it' =>
      rw [hs] at hn hd
      simp only at hn hd
      cases r with
      | ok o =>
        cases o with
        | some i =>
          have hdec := hd i rfl
          obtain ⟨a, b⟩ := ih it' (by omega)
          simp only [List.length_cons]
          exact ⟨by rw [a], by omega⟩
        | none => exact ⟨rfl, by simp⟩
      | err x => exact ⟨rfl, by simp⟩
      | panic w => simp [Out.Normal] at hn
      | diverge => simp [Out.Normal] at hn

theorem readFormValue_normal (e : Endian) (form : Nat) (bs : Bytes) : (readFormValue e form bs).Normal := by
  unfold readFormValue
  have rf : ∀ n, (readFixed e n bs).Normal := fun n => readFixed_normal e n bs
  have ul := uleb_normal bs
  by_cases h0 : form = 12
  · rw [if_pos h0]; exact normal_bind (rf _) (fun _ _ => normal_pure _)
  rw [if_neg h0]
  by_cases h1 : form = 25
  · rw [if_pos h1]; exact normal_pure _
  rw [if_neg h1]
  by_cases h2 : form = 11
  · rw [if_pos h2]; exact normal_bind (rf _) (fun _ _ => normal_pure _)
  rw [if_neg h2]
  by_cases h3 : form = 5
  · rw [if_pos h3]; exact normal_bind (rf _) (fun _ _ => normal_pure _)
  rw [if_neg h3]
  by_cases h4 : form = 6
  · rw [if_pos h4]; exact normal_bind (rf _) (fun _ _ => normal_pure _)
  rw [if_neg h4]
  by_cases h5 : form = 7
  · rw [if_pos h5]; exact normal_bind (rf _) (fun _ _ => normal_pure _)
  rw [if_neg h5]
  by_cases h6 : form = 15
  · rw [if_pos h6]; exact normal_bind ul (fun _ _ => normal_pure _)
  rw [if_neg h6]
  by_cases h7 : form = 17
  · rw [if_pos h7]; exact normal_bind (rf _) (fun _ _ => normal_pure _)
  rw [if_neg h7]
  by_cases h8 : form = 18
  · rw [if_pos h8]; exact normal_bind (rf _) (fun _ _ => normal_pure _)
  rw [if_neg h8]
  by_cases h9 : form = 19
  · rw [if_pos h9]; exact normal_bind (rf _) (fun _ _ => normal_pure _)
  rw [if_neg h9]
  by_cases h10 : form = 20
  · rw [if_pos h10]; exact normal_bind (rf _) (fun _ _ => normal_pure _)
  rw [if_neg h10]
  by_cases h11 : form = 21
  · rw [if_pos h11]; exact normal_bind ul (fun _ _ => normal_pure _)
  rw [if_neg h11]
  exact normal_err _

theorem readAttrs_normal (e : Endian) (specs : List (Nat × Nat)) (bs : Bytes) :
    (readAttrs e specs bs).Normal := by
  induction specs generalizing bs with
  | nil => exact normal_ok _
  | cons sp specs ih =>
    obtain ⟨name, form⟩ := sp
    rw [readAttrs]
    refine normal_bind (readFormValue_normal e form bs) (fun p _ => ?_)
    obtain ⟨v, r⟩ := p
    exact normal_bind (ih r) (fun _ _ => normal_pure _)

theorem readFormValue_len (e : Endian) (form : Nat) (bs : Bytes) (v : Value) (r : Bytes)
    (h : readFormValue e form bs = .ok (v, r)) : r.length ≤ bs.length := by
  unfold readFormValue at h
  have rf : ∀ n x r', readFixed e n bs = .ok (x, r') → r'.length ≤ bs.length := by
    intro n x r' h'
    obtain ⟨a, ea, _⟩ := readFixed_split e n bs x r' h'
    rw [ea]; simp
  have ul : ∀ x r', Leb.unsigned bs = .ok (x, r') → r'.length ≤ bs.length :=
    fun x r' h' => Nat.le_of_lt (uleb_consumes bs x r' h')
  by_cases h0 : form = 12
  · rw [if_pos h0] at h; obtain ⟨⟨x, r'⟩, h1, h2⟩ := bind_eq_ok _ _ _ h; simp only [Out.pure_eq, Out.ok.injEq, Prod.mk.injEq] at h2; rw [← h2.2]; exact rf _ _ _ h1
  rw [if_neg h0] at h
  by_cases h1 : form = 25
  · rw [if_pos h1] at h; simp only [Out.pure_eq, Out.ok.injEq, Prod.mk.injEq] at h; rw [← h.2]
  rw [if_neg h1] at h
  by_cases h2 : form = 11
  · rw [if_pos h2] at h; obtain ⟨⟨x, r'⟩, h1, h2⟩ := bind_eq_ok _ _ _ h; simp only [Out.pure_eq, Out.ok.injEq, Prod.mk.injEq] at h2; rw [← h2.2]; exact rf _ _ _ h1
  rw [if_neg h2] at h
  by_cases h3 : form = 5
  · rw [if_pos h3] at h; obtain ⟨⟨x, r'⟩, h1, h2⟩ := bind_eq_ok _ _ _ h; simp only [Out.pure_eq, Out.ok.injEq, Prod.mk.injEq] at h2; rw [← h2.2]; exact rf _ _ _ h1
  rw [if_neg h3] at h
  by_cases h4 : form = 6
  · rw [if_pos h4] at h; obtain ⟨⟨x, r'⟩, h1, h2⟩ := bind_eq_ok _ _ _ h; simp only [Out.pure_eq, Out.ok.injEq, Prod.mk.injEq] at h2; rw [← h2.2]; exact rf _ _ _ h1
  rw [if_neg h4] at h
  by_cases h5 : form = 7
  · rw [if_pos h5] at h; obtain ⟨⟨x, r'⟩, h1, h2⟩ := bind_eq_ok _ _ _ h; simp only [Out.pure_eq, Out.ok.injEq, Prod.mk.injEq] at h2; rw [← h2.2]; exact rf _ _ _ h1
  rw [if_neg h5] at h
  by_cases h6 : form = 15
  · rw [if_pos h6] at h; obtain ⟨⟨x, r'⟩, h1, h2⟩ := bind_eq_ok _ _ _ h; simp only [Out.pure_eq, Out.ok.injEq, Prod.mk.injEq] at h2; rw [← h2.2]; exact ul _ _ h1
  rw [if_neg h6] at h
  by_cases h7 : form = 17
  · rw [if_pos h7] at h; obtain ⟨⟨x, r'⟩, h1, h2⟩ := bind_eq_ok _ _ _ h; simp only [Out.pure_eq, Out.ok.injEq, Prod.mk.injEq] at h2; rw [← h2.2]; exact rf _ _ _ h1
  rw [if_neg h7] at h
  by_cases h8 : form = 18
  · rw [if_pos h8] at h; obtain ⟨⟨x, r'⟩, h1, h2⟩ := bind_eq_ok _ _ _ h; simp only [Out.pure_eq, Out.ok.injEq, Prod.mk.injEq] at h2; rw [← h2.2]; exact rf _ _ _ h1
  rw [if_neg h8] at h
  by_cases h9 : form = 19
  · rw [if_pos h9] at h; obtain ⟨⟨x, r'⟩, h1, h2⟩ := bind_eq_ok _ _ _ h; simp only [Out.pure_eq, Out.ok.injEq, Prod.mk.injEq] at h2; rw [← h2.2]; exact rf _ _ _ h1
  rw [if_neg h9] at h
  by_cases h10 : form = 20
  · rw [if_pos h10] at h; obtain ⟨⟨x, r'⟩, h1, h2⟩ := bind_eq_ok _ _ _ h; simp only [Out.pure_eq, Out.ok.injEq, Prod.mk.injEq] at h2; rw [← h2.2]; exact rf _ _ _ h1
  rw [if_neg h10] at h
  by_cases h11 : form = 21
  · rw [if_pos h11] at h; obtain ⟨⟨x, r'⟩, h1, h2⟩ := bind_eq_ok _ _ _ h; simp only [Out.pure_eq, Out.ok.injEq, Prod.mk.injEq] at h2; rw [← h2.2]; exact ul _ _ h1
  rw [if_neg h11] at h
  simp at h

theorem readAttrs_len (e : Endian) (specs : List (Nat × Nat)) (bs : Bytes) (as : List Attr) (r : Bytes)
    (h : readAttrs e specs bs = .ok (as, r)) : r.length ≤ bs.length := by
  induction specs generalizing bs as r with
  | nil => simp only [readAttrs, Out.ok.injEq, Prod.mk.injEq] at h; rw [← h.2]
  | cons sp specs ih =>
    obtain ⟨name, form⟩ := sp
    rw [readAttrs] at h
    obtain ⟨⟨v, r1⟩, h1, h⟩ := bind_eq_ok _ _ _ h
    obtain ⟨⟨as', r2⟩, h2, h⟩ := bind_eq_ok _ _ _ h
    simp only [Out.pure_eq, Out.ok.injEq, Prod.mk.injEq] at h
    have := readFormValue_len e form bs v r1 h1
    have := ih r1 as' r2 h2
    rw [← h.2]; omega

theorem nm_parseEntry_ok (e : Endian) (abbrevs : List Abbrev) (off : Nat) (bs : Bytes) :
    (Names.parseEntry e abbrevs off bs).Normal ∧
      ∀ en r, Names.parseEntry e abbrevs off bs = .ok (some en, r) → r.length < bs.length := by
  unfold Names.parseEntry
  cases h1 : Leb.unsigned bs with
  | ok p =>
    obtain ⟨code, r1⟩ := p
    have c1 := uleb_consumes bs code r1 h1
    simp only [Out.bind_ok]
    split
    · exact ⟨normal_pure _, fun en r h => by simp at h⟩
    · cases hg : getAbbrev abbrevs code with
      | none => exact ⟨normal_err _, fun en r h => by simp at h⟩
      | some a =>
        simp only
        refine ⟨normal_bind (readAttrs_normal e a.attrs r1) (fun _ _ => normal_pure _), fun en r h => ?_⟩
        obtain ⟨⟨as, r2⟩, h2, h3⟩ := bind_eq_ok _ _ _ h
        simp only [Out.pure_eq, Out.ok.injEq, Prod.mk.injEq] at h3
        have := readAttrs_len e a.attrs r1 as r2 h2
        rw [← h3.2]; omega
  | err x => exact ⟨by simp [Out.Normal], fun en r h => by simp at h⟩
  | panic w => exact absurd (uleb_normal bs) (by rw [h1]; simp [Out.Normal])
  | diverge => exact absurd (uleb_normal bs) (by rw [h1]; simp [Out.Normal])

/-- draining an entry series: every entry consumes at least its abbreviation code, so the cap is
not reached and at most `len` entries (plus one error) are produced -/
theorem entrySeries_total (e : Endian) (abbrevs : List Abbrev) (poolLen fuel : Nat) (bs : Bytes)
    (hf : bs.length < fuel) :
    entrySeries e abbrevs poolLen fuel bs = entrySeries e abbrevs poolLen (fuel + 1) bs ∧
      (entrySeries e abbrevs poolLen fuel bs).length ≤ bs.length := by
  induction fuel generalizing bs with
  | zero => omega
  | succ f ih =>
    rw [entrySeries, entrySeries]
    by_cases hem : bs.isEmpty = true
    · simp [hem]
    · simp only [hem, Bool.false_eq_true, if_false]
      have hpos : 0 < bs.length := by
        cases bs with
        | nil => simp at hem
        | cons a t => simp
      obtain ⟨hn, hc⟩ := nm_parseEntry_ok e abbrevs (poolLen - bs.length) bs
      cases hp : Names.parseEntry e abbrevs (poolLen - bs.length) bs with
      | ok p =>
        obtain ⟨o, r⟩ := p
        cases o with
        | some en =>
          have := hc en r hp
          obtain ⟨a, b⟩ := ih r (by omega)
          simp only [List.length_cons]
          exact ⟨by rw [a], by omega⟩
        | none => exact ⟨rfl, by simp⟩
      | err x => exact ⟨rfl, by simp; omega⟩
      | panic w => rw [hp] at hn; simp [Out.Normal] at hn
      | diverge => rw [hp] at hn; simp [Out.Normal] at hn

theorem nameEntries_normal (e : Endian) (ix : Names.Index) (i : Nat) : (ix.nameEntries e i).Normal := by
  unfold Index.nameEntries
  refine normal_bind (offsetAt_normal e _ _ _) (fun off _ => ?_)
  exact normal_bind (skipTo_normal _ _) (fun _ _ => normal_pure _)

theorem nameEntry_normal (e : Endian) (ix : Names.Index) (off : Nat) : (ix.nameEntry e off).Normal := by
  unfold Index.nameEntry
  refine normal_bind (skipTo_normal _ _) (fun r _ => ?_)
  refine normal_bind (nm_parseEntry_ok e ix.abbrevs off r).1 (fun p _ => ?_)
  obtain ⟨en, r'⟩ := p
  cases en <;> simp [Out.Normal]

theorem bucket_normal (e : Endian) (ix : Names.Index) (b : Nat) : (ix.bucket e b).Normal := by
  unfold Index.bucket
  refine normal_bind (bucketNew_normal e ix b) (fun it _ => ?_)
  cases it <;> exact normal_pure _

theorem findByHash_normal (e : Endian) (ix : Names.Index) (h : Nat) : (ix.findByHash e h).Normal := by
  unfold Index.findByHash
  refine normal_bind (bucketNew_normal e ix _) (fun it _ => ?_)
  cases it <;> exact normal_pure _
end Gimli.C17
