import Gimli.Spec.ConvOp
import Gimli.Lemmas.OpSuffix
/-!
# C12 expression component: helper lemmas about `Model/ConvOp.lean`
-/
set_option linter.unusedSimpArgs false
set_option linter.unusedVariables false
namespace Gimli.ConvOp
open Gimli.Op (Encoding)

theorem except_bind_ok {α β} (x : CR α) (f : α → CR β) (b : β) :
    (x >>= f) = .ok b ↔ ∃ a, x = .ok a ∧ f a = .ok b := by
  cases x <;> simp [bind, Except.bind]

theorem convertOp_image (env : Env) (enc : Encoding) (offs : Nat → Option Nat) (u addr addrx : Nat → Nat)
    (hE : EnvSpec env offs u addr addrx) (offsets : List Nat) (endOff : Nat)
    (sub : Bytes → CR (List WOp.Operation)) (r : Op.Operation) (w : WOp.Operation)
    (hnb : isBranch r = false) (h : convertOp env enc offsets endOff sub r = .ok w)
    (disp : Int) (body : Bytes) (refv : Nat) :
    WOp.image enc offs disp body refv w = some (mapOp u addr addrx refv body r) := by
  cases r <;> simp only [isBranch] at hnb <;> try (cases hnb)
  all_goals try (simp only [convertOp, pure, Except.pure, Except.ok.injEq] at h; subst h; rfl)
  case deref bt size space =>
    simp only [convertOp] at h
    split at h
    · rename_i hbt
      simp only [except_bind_ok, pure, Except.pure, Except.ok.injEq] at h
      obtain ⟨id, hid, rfl⟩ := h
      simp [WOp.image, hE.unit _ _ hid, mapOp, mapBase, hbt]
    · rename_i hbt
      have hbt : bt = 0 := by simpa using hbt
      split at h <;> simp only [pure, Except.pure, Except.ok.injEq] at h <;> subst h
      · simp [WOp.image, mapOp, mapBase, hbt]
      · rename_i hs
        have hs : size = enc.addressSize := by simpa using hs
        simp [WOp.image, mapOp, mapBase, hbt, hs]
  case registerOffset rg o bt =>
    simp only [convertOp] at h
    split at h
    · rename_i hbt
      simp only [except_bind_ok, pure, Except.pure, Except.ok.injEq] at h
      obtain ⟨id, hid, rfl⟩ := h
      simp [WOp.image, hE.unit _ _ hid, mapOp, mapBase, hbt]
    · rename_i hbt
      have hbt : bt = 0 := by simpa using hbt
      simp only [pure, Except.pure, Except.ok.injEq] at h; subst h
      simp [WOp.image, mapOp, mapBase, hbt]
  case call d =>
    cases d with
    | unitRef o =>
      simp only [convertOp, except_bind_ok, pure, Except.pure, Except.ok.injEq] at h
      obtain ⟨id, hid, rfl⟩ := h
      simp [WOp.image, hE.unit _ _ hid, mapOp]
    | debugInfoRef o =>
      simp only [convertOp, except_bind_ok, pure, Except.pure, Except.ok.injEq] at h
      obtain ⟨id, hid, rfl⟩ := h
      simp [WOp.image, mapOp]
  case variableValue o =>
    simp only [convertOp, except_bind_ok, pure, Except.pure, Except.ok.injEq] at h
    obtain ⟨id, hid, rfl⟩ := h
    simp [WOp.image, mapOp]
  case implicitPointer v bo =>
    simp only [convertOp, except_bind_ok, pure, Except.pure, Except.ok.injEq] at h
    obtain ⟨id, hid, rfl⟩ := h
    simp [WOp.image, mapOp]
  case entryValue x =>
    simp only [convertOp, except_bind_ok, pure, Except.pure, Except.ok.injEq] at h
    obtain ⟨ws, _, rfl⟩ := h
    simp [WOp.image, mapOp]
  case parameterRef o =>
    simp only [convertOp, except_bind_ok, pure, Except.pure, Except.ok.injEq] at h
    obtain ⟨id, hid, rfl⟩ := h
    simp [WOp.image, hE.unit _ _ hid, mapOp]
  case typedLiteral bt v =>
    simp only [convertOp, except_bind_ok, pure, Except.pure, Except.ok.injEq] at h
    obtain ⟨id, hid, rfl⟩ := h
    simp [WOp.image, hE.unit _ _ hid, mapOp]
  case convert bt =>
    simp only [convertOp] at h
    split at h
    · rename_i hbt
      simp only [pure, Except.pure, Except.ok.injEq] at h; subst h
      simp [WOp.image, mapOp, mapBase, hbt]
    · rename_i hbt
      simp only [except_bind_ok, pure, Except.pure, Except.ok.injEq] at h
      obtain ⟨id, hid, rfl⟩ := h
      simp [WOp.image, hE.unit _ _ hid, mapOp, mapBase, hbt]
  case reinterpret bt =>
    simp only [convertOp] at h
    split at h
    · rename_i hbt
      simp only [pure, Except.pure, Except.ok.injEq] at h; subst h
      simp [WOp.image, mapOp, mapBase, hbt]
    · rename_i hbt
      simp only [except_bind_ok, pure, Except.pure, Except.ok.injEq] at h
      obtain ⟨id, hid, rfl⟩ := h
      simp [WOp.image, hE.unit _ _ hid, mapOp, mapBase, hbt]
  case address a =>
    simp only [convertOp] at h
    split at h
    · rename_i x hx
      simp only [pure, Except.pure, Except.ok.injEq] at h; subst h
      rw [hE.address _ _ hx]; simp [WOp.image, mapOp]
    · cases h
  case addressIndex i =>
    simp only [convertOp] at h
    split at h
    · cases h
    · rename_i f hf
      simp only [except_bind_ok] at h
      obtain ⟨v, hv, h⟩ := h
      split at h
      · rename_i x hx
        simp only [pure, Except.pure, Except.ok.injEq] at h; subst h
        rw [hE.address _ _ hx, hE.index f i v hf hv]; simp [WOp.image, mapOp]
      · cases h
  case constantIndex i =>
    simp only [convertOp] at h
    split at h
    · cases h
    · rename_i f hf
      simp only [except_bind_ok, pure, Except.pure, Except.ok.injEq] at h
      obtain ⟨v, hv, rfl⟩ := h
      rw [hE.index f i v hf hv]; simp [WOp.image, mapOp]
  case piece bits bo =>
    cases bo with
    | none =>
      simp only [convertOp, pure, Except.pure, Except.ok.injEq] at h; subst h
      simp [WOp.image, mapOp]
    | some o =>
      simp only [convertOp, pure, Except.pure, Except.ok.injEq] at h; subst h
      simp [WOp.image, mapOp]

theorem wrapOff_math (endOff : Nat) (d : Int) (he : endOff < 2 ^ 63) (hd : -(2:Int) ^ 63 ≤ d ∧ d < 2 ^ 63) :
    (0 ≤ (endOff : Int) + d → (wrapOff endOff d : Int) = endOff + d) ∧
    ((endOff : Int) + d < 0 → 2 ^ 63 ≤ wrapOff endOff d) := by
  unfold wrapOff
  have h64 : (2 : Int) ^ 64 = 18446744073709551616 := by decide
  have h63 : (2 : Int) ^ 63 = 9223372036854775808 := by decide
  have h64n : (2 : Nat) ^ 64 = 18446744073709551616 := by decide
  have h63n : (2 : Nat) ^ 63 = 9223372036854775808 := by decide
  rw [h64, h64n, h63n] at *
  rw [h63] at hd
  constructor <;> intro h <;> omega

theorem findIdx_some (l : List Nat) (off k : Nat) (h : l.findIdx? (· == off) = some k) :
    l[k]? = some off ∧ ∀ j, j < k → l[j]? ≠ some off := by
  induction l generalizing k with
  | nil => simp at h
  | cons a tl ih =>
    rw [List.findIdx?_cons] at h
    by_cases ha : a = off
    · simp [ha] at h
      subst h
      exact ⟨by simp [ha], fun j hj => by omega⟩
    · simp [ha] at h
      obtain ⟨k', hk', rfl⟩ := h
      obtain ⟨h1, h2⟩ := ih k' hk'
      refine ⟨by simpa using h1, ?_⟩
      intro j hj
      cases j with
      | zero => simp [ha]
      | succ j => simpa using h2 j (by omega)

theorem findIdx_none (l : List Nat) (off : Nat) (h : l.findIdx? (· == off) = none) : off ∉ l := by
  induction l with
  | nil => simp
  | cons a tl ih =>
    rw [List.findIdx?_cons] at h
    by_cases ha : a = off
    · simp [ha] at h
    · have h' : List.findIdx? (fun x => x == off) tl = none := by
        simpa [ha] using h
      simp only [List.mem_cons, not_or]
      exact ⟨fun h'' => ha h''.symm, ih h'⟩

theorem branchIndex_ok (offsets : List Nat) (endOff : Nat) (d : Int) (k : Nat)
    (h : branchIndex offsets endOff d = .ok k) :
    offsets[k]? = some (wrapOff endOff d) ∧ ∀ j, j < k → offsets[j]? ≠ some (wrapOff endOff d) := by
  unfold branchIndex at h
  simp only at h
  split at h
  · rename_i i hi
    simp only [Except.ok.injEq] at h
    subst h
    exact findIdx_some _ _ _ hi
  · cases h

theorem branchIndex_err (offsets : List Nat) (endOff : Nat) (d : Int) (x : CErr)
    (h : branchIndex offsets endOff d = .error x) :
    x = .invalidBranchTarget ∧ wrapOff endOff d ∉ offsets := by
  unfold branchIndex at h
  simp only at h
  split at h
  · cases h
  · rename_i hn
    simp only [Except.error.injEq] at h
    exact ⟨h.symm, findIdx_none _ _ hn⟩

/-- ends reported by `OperationIter` are strictly increasing, above the start, and the last one is
the end of the input -/
theorem iterAll_ends (e : Endian) (enc : Encoding) (len : Nat) :
    ∀ (fuel : Nat) (input : Bytes) (ops : List (Op.Operation × Nat)),
      input.length ≤ len → input.length < fuel → Op.iterAll e enc len fuel input = (ops, none) →
      (ops.map (·.2)).Pairwise (· < ·) ∧ (∀ p ∈ ops, len - input.length < p.2 ∧ p.2 ≤ len) ∧
        (ops ≠ [] → (ops.map (·.2)).getLast? = some len) ∧ (ops = [] → input = [])
  | 0, input, ops, _, hf, _ => by omega
  | fuel + 1, input, ops, hl, hf, h => by
    cases input with
    | nil =>
      simp only [Op.iterAll, Prod.mk.injEq] at h
      rw [← h.1]; simp
    | cons b tl =>
      simp only [Op.iterAll] at h
      cases hp : Op.parse e enc (b :: tl) with
      | ok p =>
        obtain ⟨op, rest⟩ := p
        rw [hp] at h
        simp only [Prod.mk.injEq] at h
        obtain ⟨h1, h2⟩ := h
        have hprog : rest.length < (b :: tl).length := by
          have := iterNext_progress e enc (b :: tl) op (by simp [Op.iterNext, hp])
          simpa [Op.iterNext, hp] using this
        cases hr : Op.iterAll e enc len fuel rest with
        | mk ops' er' =>
          rw [hr] at h1 h2
          simp only at h1 h2
          subst h2
          have ih := iterAll_ends e enc len fuel rest ops' (by simp at hprog hl; omega) (by simp at hprog hf; omega) hr
          obtain ⟨i1, i2, i3, i4⟩ := ih
          rw [← h1]
          simp only [List.length_cons] at hl hf hprog
          refine ⟨?_, ?_, ?_, by simp⟩
          · simp only [List.map_cons, List.pairwise_cons]
            refine ⟨?_, i1⟩
            intro x hx
            simp only [List.mem_map] at hx
            obtain ⟨p, hp', rfl⟩ := hx
            have := (i2 p hp').1
            omega
          · intro p hp'
            simp only [List.mem_cons] at hp'
            rcases hp' with rfl | hp'
            · simp only [List.length_cons]; omega
            · have := i2 p hp'
              simp only [List.length_cons]; omega
          · intro _
            cases ops' with
            | nil =>
              have := i4 rfl
              simp [this]
            | cons q qs =>
              have := i3 (by simp)
              simpa [List.getLast?_cons_cons] using this
      | err er => rw [hp] at h; simp at h
      | panic w => rw [hp] at h; simp at h
      | diverge => rw [hp] at h; simp at h
end Gimli.ConvOp
