import Gimli.Model.WOp
import Gimli.Model.Eval
/-!
# C15: which evaluator operations touch the reader position

`execute` (C07's Model of the `match operation` in `evaluate_one_operation`) changes `pc` only for
`skip` and `bra`; every other operation leaves `pc` and `bytecode` alone. Proved with a small
"result keeps an invariant" calculus over the `Out` monad.
-/
namespace Gimli.WOp
open Gimli.Eval

/-- same reader position, bytecode and expression (call) stack -/
def Same (m m' : Mach) : Prop := m'.pc = m.pc ∧ m'.bytecode = m.bytecode ∧ m'.exprStack = m.exprStack

structure Keeps {α} (P : Mach → Prop) (x : Out (α × Mach)) : Prop where
  out : ∀ a m', x = .ok (a, m') → P m'
structure KeepsM (P : Mach → Prop) (x : Out Mach) : Prop where
  out : ∀ m', x = .ok m' → P m'

theorem keeps_err {α} (P) (er : Err) : Keeps (α := α) P (.err er) := ⟨by intro a m' h; cases h⟩
theorem keeps_ok {α} (P : Mach → Prop) (a : α) (m : Mach) (h : P m) : Keeps P (.ok (a, m)) := ⟨by
  intro a' m' h'; cases h'; exact h⟩
theorem keeps_pure {α} (P : Mach → Prop) (a : α) (m : Mach) (h : P m) : Keeps P (pure (a, m)) :=
  keeps_ok P a m h

theorem keeps_bind_pair {α β} (P : Mach → Prop) (x : Out (α × Mach)) (f : α × Mach → Out (β × Mach))
    (hx : Keeps P x) (hf : ∀ a m1, P m1 → Keeps P (f (a, m1))) : Keeps P (x >>= f) := by
  refine ⟨?_⟩
  intro b m' h
  cases x with
  | ok p => obtain ⟨a, m1⟩ := p; exact (hf a m1 (hx.out a m1 rfl)).out b m' h
  | err _ => cases h
  | panic _ => cases h
  | diverge => cases h

theorem keeps_bind_mach {β} (P : Mach → Prop) (x : Out Mach) (f : Mach → Out (β × Mach))
    (hx : KeepsM P x) (hf : ∀ m1, P m1 → Keeps P (f m1)) : Keeps P (x >>= f) := by
  refine ⟨?_⟩
  intro b m' h
  cases x with
  | ok m1 => exact (hf m1 (hx.out m1 rfl)).out b m' h
  | err _ => cases h
  | panic _ => cases h
  | diverge => cases h

theorem keeps_bind_any {α β} (P : Mach → Prop) (x : Out α) (f : α → Out (β × Mach))
    (hf : ∀ a, Keeps P (f a)) : Keeps P (x >>= f) := by
  refine ⟨?_⟩
  intro b m' h
  cases x with
  | ok a => exact (hf a).out b m' h
  | err _ => cases h
  | panic _ => cases h
  | diverge => cases h

theorem pop_keeps (m0 m1 : Mach) (h : Same m0 m1) : Keeps (Same m0) (pop m1) := by
  refine ⟨?_⟩
  intro v m' hp
  unfold pop at hp
  split at hp
  · cases hp
  · simp only [Out.ok.injEq, Prod.mk.injEq] at hp
    rw [← hp.2]; exact h

theorem push_keeps (c : Config) (v : Value) (m0 m1 : Mach) (h : Same m0 m1) : KeepsM (Same m0) (push c v m1) := by
  refine ⟨?_⟩
  intro m' hp
  unfold push at hp
  split at hp
  · simp only [Out.ok.injEq] at hp; rw [← hp]; exact h
  · cases hp

theorem pushPiece_keeps (c : Config) (p : Piece) (m0 m1 : Mach) (h : Same m0 m1) :
    KeepsM (Same m0) (pushPiece c p m1) := by
  refine ⟨?_⟩
  intro m' hp
  unfold pushPiece at hp
  split at hp
  · simp only [Out.ok.injEq] at hp; rw [← hp]; exact h
  · cases hp

theorem binop_keeps (c : Config) (f) (m0 m1 : Mach) (h : Same m0 m1) : Keeps (Same m0) (binop c f m1) := by
  unfold binop
  refine keeps_bind_pair _ _ _ (pop_keeps _ _ h) (fun _ m2 h2 => ?_)
  refine keeps_bind_pair _ _ _ (pop_keeps _ _ h2) (fun _ m3 h3 => ?_)
  refine keeps_bind_any _ _ _ (fun _ => ?_)
  exact keeps_bind_mach _ _ _ (push_keeps _ _ _ _ h3) (fun m4 h4 => keeps_pure _ _ _ h4)

theorem unop_keeps (c : Config) (f) (m0 m1 : Mach) (h : Same m0 m1) : Keeps (Same m0) (unop c f m1) := by
  unfold unop
  refine keeps_bind_pair _ _ _ (pop_keeps _ _ h) (fun _ m2 h2 => ?_)
  refine keeps_bind_any _ _ _ (fun _ => ?_)
  exact keeps_bind_mach _ _ _ (push_keeps _ _ _ _ h2) (fun m4 h4 => keeps_pure _ _ _ h4)

theorem same_refl (m : Mach) : Same m m := ⟨rfl, rfl, rfl⟩

macro "keeps_tac" : tactic => `(tactic|
  repeat (first
    | exact keeps_err _ _
    | exact keeps_ok _ _ _ (by assumption)
    | exact keeps_pure _ _ _ (by assumption)
    | exact pop_keeps _ _ (by assumption)
    | exact push_keeps _ _ _ _ (by assumption)
    | exact pushPiece_keeps _ _ _ _ (by assumption)
    | exact binop_keeps _ _ _ _ (by assumption)
    | exact unop_keeps _ _ _ _ (by assumption)
    | (refine keeps_bind_pair _ _ _ ?_ ?_)
    | (refine keeps_bind_mach _ _ _ ?_ ?_)
    | (refine keeps_bind_any _ _ _ ?_)
    | split
    | (intro _ _ _; try dsimp only)
    | (intro _ _; try dsimp only)
    | (intro _; try dsimp only)))

/-- every operation except the two branches leaves the reader position, the bytecode and the expression stack alone -/
theorem execute_keeps (c : Config) (op : Op.Operation) (m : Mach)
    (hs : ∀ t, op ≠ .skip t) (hb : ∀ t, op ≠ .bra t) : Keeps (Same m) (execute c op m) := by
  have h0 := same_refl m
  cases op <;> simp only [execute]
  case skip t => exact absurd rfl (hs t)
  case bra t => exact absurd rfl (hb t)
  all_goals keeps_tac
end Gimli.WOp
