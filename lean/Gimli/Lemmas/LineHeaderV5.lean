import Gimli.Lemmas.LineHeaderRt
/-! `parseHeader ∘ encodeHeaderV5 = id` (version 5: entry formats, all forms). -/
namespace Gimli.Line
open Gimli Gimli.Spec Gimli.Spec.Line

theorem leVal_append_zeros (a : Bytes) (k : Nat) : Ints.leVal (a ++ List.replicate k 0) = Ints.leVal a := by
  induction a with
  | nil =>
    induction k with
    | zero => rfl
    | succ k ih => simp only [List.nil_append] at ih ⊢; simp [List.replicate_succ, Ints.leVal, ih]
  | cons b tl ih => simp only [List.cons_append, Ints.leVal, ih]

theorem readUint3_toBytes (e : Endian) (v : Nat) (rest : Bytes) (hv : v < 2 ^ 24) :
    Ints.readUint e 3 (Ints.toBytes e 3 v ++ rest) = .ok (v, rest) := by
  unfold Ints.readUint
  simp only [show ¬ (3 > 8) by decide, ↓reduceIte]
  have hl : (Ints.toBytes e 3 v).length = 3 := Ints.toBytes_length e 3 v
  have ht := take_append_ok (Ints.toBytes e 3 v) rest
  rw [hl] at ht
  rw [ht]
  simp only [Out.bind_ok, Out.pure_eq, Out.ok.injEq, Prod.mk.injEq, and_true]
  have hval : Ints.leVal (Ints.leBytes 3 v) = v := by
    rw [Ints.leVal_leBytes]; exact Nat.mod_eq_of_lt (by omega)
  cases e with
  | little =>
    simp only [Ints.fromBytes, Ints.toBytes]
    rw [leVal_append_zeros, hval]
  | big =>
    simp only [Ints.fromBytes, Ints.toBytes, List.reverse_append, List.reverse_reverse, List.reverse_replicate]
    rw [leVal_append_zeros, hval]

/-- **one field**: reading the encoding with the field's form returns the field's value -/
theorem parseAttribute_encode (e : Endian) (f : Format) (x : FieldV) (hx : x.Ok f) (rest : Bytes) :
    parseAttribute e f x.form (x.encode e f ++ rest) = .ok (x.value, rest) := by
  have hw : ∀ v, (v < 2 ^ 64 ∧ (f = .dwarf32 → v < 2 ^ 32)) →
      Ints.readWord e 64 f (wordBytes e f v ++ rest) = .ok (v, rest) :=
    fun v hv => readWord_encode e f v rest hv.2 hv.1
  cases x with
  | block1 b =>
    simp only [FieldV.Ok] at hx
    simp [parseAttribute, FieldV.form, FieldV.encode, FieldV.value, rf1 e _ _ (show b.length < 256 by omega),
      take_append_ok]
  | block2 b =>
    simp only [FieldV.Ok] at hx
    simp [parseAttribute, FieldV.form, FieldV.encode, FieldV.value,
      Ints.readFixed_toBytes e 2 b.length _ (by omega), take_append_ok]
  | block4 b =>
    simp only [FieldV.Ok] at hx
    simp [parseAttribute, FieldV.form, FieldV.encode, FieldV.value,
      Ints.readFixed_toBytes e 4 b.length _ (by omega), take_append_ok]
  | block b =>
    simp only [FieldV.Ok] at hx
    simp [parseAttribute, FieldV.form, FieldV.encode, FieldV.value, Leb.unsigned_roundtrip _ hx, take_append_ok]
  | data1 v =>
    simp only [FieldV.Ok] at hx
    simp [parseAttribute, FieldV.form, FieldV.encode, FieldV.value, rf1 e v rest (by omega)]
  | data2 v =>
    simp only [FieldV.Ok] at hx
    simp [parseAttribute, FieldV.form, FieldV.encode, FieldV.value, Ints.readFixed_toBytes e 2 v rest (by omega)]
  | data4 v =>
    simp only [FieldV.Ok] at hx
    simp [parseAttribute, FieldV.form, FieldV.encode, FieldV.value, Ints.readFixed_toBytes e 4 v rest (by omega)]
  | data8 v =>
    simp only [FieldV.Ok] at hx
    simp [parseAttribute, FieldV.form, FieldV.encode, FieldV.value, Ints.readFixed_toBytes e 8 v rest (by omega)]
  | udata v =>
    simp only [FieldV.Ok] at hx
    simp [parseAttribute, FieldV.form, FieldV.encode, FieldV.value, Leb.unsigned_roundtrip _ hx]
  | sdata i =>
    simp only [FieldV.Ok] at hx
    simp [parseAttribute, FieldV.form, FieldV.encode, FieldV.value, Leb.signed_roundtrip i hx.1 hx.2]
  | flag b =>
    cases b <;>
      simp [parseAttribute, FieldV.form, FieldV.encode, FieldV.value, rf1 e _ rest (show (1:Nat) < 256 by decide),
        rf1 e _ rest (show (0:Nat) < 256 by decide)]
  | data16 b =>
    simp only [FieldV.Ok] at hx
    have := take_append_ok b rest
    rw [hx] at this
    simp [parseAttribute, FieldV.form, FieldV.encode, FieldV.value, this]
  | secOffset v =>
    simp only [FieldV.Ok] at hx
    simp [parseAttribute, FieldV.form, FieldV.encode, FieldV.value, hw v hx]
  | string s =>
    simp only [FieldV.Ok] at hx
    simp [parseAttribute, FieldV.form, FieldV.encode, FieldV.value, readCStr_encode s rest hx]
  | strp v =>
    simp only [FieldV.Ok] at hx
    simp [parseAttribute, FieldV.form, FieldV.encode, FieldV.value, hw v hx]
  | strpSup v =>
    simp only [FieldV.Ok] at hx
    simp [parseAttribute, FieldV.form, FieldV.encode, FieldV.value, hw v hx]
  | gnuStrpAlt v =>
    simp only [FieldV.Ok] at hx
    simp [parseAttribute, FieldV.form, FieldV.encode, FieldV.value, hw v hx]
  | lineStrp v =>
    simp only [FieldV.Ok] at hx
    simp [parseAttribute, FieldV.form, FieldV.encode, FieldV.value, hw v hx]
  | strx v =>
    simp only [FieldV.Ok] at hx
    simp [parseAttribute, FieldV.form, FieldV.encode, FieldV.value, Leb.unsigned_roundtrip _ hx]
  | gnuStrIndex v =>
    simp only [FieldV.Ok] at hx
    simp [parseAttribute, FieldV.form, FieldV.encode, FieldV.value, Leb.unsigned_roundtrip _ hx]
  | strx1 v =>
    simp only [FieldV.Ok] at hx
    simp [parseAttribute, FieldV.form, FieldV.encode, FieldV.value, rf1 e v rest (by omega)]
  | strx2 v =>
    simp only [FieldV.Ok] at hx
    simp [parseAttribute, FieldV.form, FieldV.encode, FieldV.value, Ints.readFixed_toBytes e 2 v rest (by omega)]
  | strx3 v =>
    simp only [FieldV.Ok] at hx
    simp [parseAttribute, FieldV.form, FieldV.encode, FieldV.value, readUint3_toBytes e v rest hx]
  | strx4 v =>
    simp only [FieldV.Ok] at hx
    simp [parseAttribute, FieldV.form, FieldV.encode, FieldV.value, Ints.readFixed_toBytes e 4 v rest (by omega)]

theorem u16_encode (form : Nat) (hf : form < 128 ∨ form = 0x1f02 ∨ form = 0x1f21) (rest : Bytes) :
    Leb.u16 (Leb.encodeU form ++ rest) = .ok (form, rest) := by
  rcases hf with h | h | h
  · have he : Leb.encodeU form = [UInt8.ofNat form] := by
      unfold Leb.encodeU
      rw [Leb.encodeUFuel]
      have : form / 128 = 0 := by omega
      simp [this, Nat.mod_eq_of_lt h]
    have hb : (UInt8.ofNat form).toNat = form := ofNat_toNat form (by omega)
    rw [he]
    simp [Leb.u16, hb, h]
  · subst h
    have he : Leb.encodeU 0x1f02 = [0x82, 0x3e] := by decide
    rw [he]; simp [Leb.u16]
  · subst h
    have he : Leb.encodeU 0x1f21 = [0xa1, 0x3e] := by decide
    rw [he]; simp [Leb.u16]


theorem parseFormatLoop_encode (fmt : List EntryFormat)
    (hok : ∀ x ∈ fmt, x.1 ≤ 0xffff ∧ (x.2 < 128 ∨ x.2 = 0x1f02 ∨ x.2 = 0x1f21)) (rest : Bytes) :
    parseFormatLoop fmt.length ((fmt.flatMap fun x => Leb.encodeU x.1 ++ Leb.encodeU x.2) ++ rest) =
      .ok ((fmt, (fmt.filter (·.1 = 1)).length), rest) := by
  induction fmt with
  | nil => simp [parseFormatLoop]
  | cons x xs ih =>
    obtain ⟨ct, form⟩ := x
    obtain ⟨hct, hform⟩ := hok (ct, form) List.mem_cons_self
    simp only at hct hform
    simp only [List.length_cons, List.flatMap_cons, List.append_assoc]
    rw [parseFormatLoop, Leb.unsigned_roundtrip ct (by omega)]
    simp only [Out.bind_ok]
    rw [if_neg (by omega), u16_encode form hform]
    simp only [Out.bind_ok]
    rw [ih (fun y hy => hok y (List.mem_cons_of_mem _ hy))]
    simp only [Out.bind_ok, Out.pure_eq, Out.ok.injEq, Prod.mk.injEq, and_true, true_and]
    by_cases h1 : ct = 1
    · simp [h1]; omega
    · simp [h1]

theorem parseEntryFormat_encode (fmt : List EntryFormat) (hok : FormatOk fmt) (rest : Bytes) :
    parseEntryFormat (encodeFormat fmt ++ rest) = .ok (fmt, rest) := by
  obtain ⟨hlen, hall, hpath⟩ := hok
  unfold parseEntryFormat encodeFormat
  rw [List.append_assoc, rf1 _ _ _ hlen]
  simp only [Out.bind_ok]
  rw [parseFormatLoop_encode fmt hall]
  simp only [Out.bind_ok, hpath]
  simp

theorem formatOk_hasPath (fmt : List EntryFormat) (hok : FormatOk fmt) : HasPath fmt := by
  obtain ⟨_, _, hpath⟩ := hok
  have : (fmt.filter (·.1 = 1)) ≠ [] := by
    intro h0; rw [h0] at hpath; simp at hpath
  obtain ⟨x, hx⟩ := List.exists_mem_of_ne_nil _ this
  have := List.mem_filter.mp hx
  exact ⟨x, this.1, by simpa using this.2⟩

theorem parseDirectoryV5_encode (e : Endian) (f : Format) (fmt : List EntryFormat) :
    ∀ (entry : List FieldV) (acc : Option AttrVal) (rest : Bytes), Conforms f fmt entry →
      parseDirectoryV5 e f fmt acc (encodeEntry e f entry ++ rest) = .ok (dirOf fmt entry acc, rest) := by
  induction fmt with
  | nil =>
    intro entry acc rest hc
    have : entry = [] := by
      have := hc.1; simpa using this
    subst this
    simp [parseDirectoryV5, encodeEntry, dirOf]
  | cons x fs ih =>
    intro entry acc rest hc
    obtain ⟨ct, form⟩ := x
    cases entry with
    | nil => have := hc.1; simp at this
    | cons y ys =>
      obtain ⟨hforms, hoks⟩ := hc
      simp only [List.map_cons, List.cons.injEq] at hforms
      rw [parseDirectoryV5]
      simp only [encodeEntry, List.flatMap_cons, List.append_assoc]
      rw [← hforms.1, parseAttribute_encode e f y (hoks y List.mem_cons_self)]
      simp only [Out.bind_ok]
      have := ih ys (if ct = 1 then some y.value else acc) rest
        ⟨hforms.2, fun z hz => hoks z (List.mem_cons_of_mem _ hz)⟩
      simp only [encodeEntry] at this
      rw [this]
      simp [dirOf]

theorem parseFileV5_encode (e : Endian) (f : Format) (fmt : List EntryFormat) :
    ∀ (entry : List FieldV) (acc : FileAcc) (rest : Bytes), Conforms f fmt entry →
      parseFileV5 e f fmt acc (encodeEntry e f entry ++ rest) = .ok (fileAccOf fmt entry acc, rest) := by
  induction fmt with
  | nil =>
    intro entry acc rest hc
    have : entry = [] := by
      have := hc.1; simpa using this
    subst this
    simp [parseFileV5, encodeEntry, fileAccOf]
  | cons x fs ih =>
    intro entry acc rest hc
    obtain ⟨ct, form⟩ := x
    cases entry with
    | nil => have := hc.1; simp at this
    | cons y ys =>
      obtain ⟨hforms, hoks⟩ := hc
      simp only [List.map_cons, List.cons.injEq] at hforms
      rw [parseFileV5]
      simp only [encodeEntry, List.flatMap_cons, List.append_assoc]
      rw [← hforms.1, parseAttribute_encode e f y (hoks y List.mem_cons_self)]
      simp only [Out.bind_ok]
      have := ih ys (acc.update ct y.value) rest
        ⟨hforms.2, fun z hz => hoks z (List.mem_cons_of_mem _ hz)⟩
      simp only [encodeEntry] at this
      rw [this]
      simp [fileAccOf]

theorem parseDirsV5_encode (e : Endian) (f : Format) (fmt : List EntryFormat) (hp : HasPath fmt)
    (entries : List (List FieldV)) (hc : ∀ d ∈ entries, Conforms f fmt d) (rest : Bytes) :
    parseDirsV5 e f fmt entries.length (entries.flatMap (encodeEntry e f) ++ rest) =
      .ok (entries.map fun d => (dirOf fmt d none).getD (.string []), rest) := by
  induction entries with
  | nil => simp [parseDirsV5]
  | cons d ds ih =>
    simp only [List.length_cons, List.flatMap_cons, List.append_assoc]
    rw [parseDirsV5]
    have hd := parseDirectoryV5_encode e f fmt d none (ds.flatMap (encodeEntry e f) ++ rest)
      (hc d List.mem_cons_self)
    have hs := parseDirectoryV5_some e f fmt none _ _ _ hd (Or.inr hp)
    rw [hd]
    simp only [Out.bind_ok]
    cases hq : dirOf fmt d none with
    | none => rw [hq] at hs; simp at hs
    | some p =>
      simp only
      rw [ih (fun x hx => hc x (List.mem_cons_of_mem _ hx))]
      simp [hq]

theorem parseFilesV5_encode (e : Endian) (f : Format) (fmt : List EntryFormat) (hp : HasPath fmt)
    (entries : List (List FieldV)) (hc : ∀ d ∈ entries, Conforms f fmt d) (rest : Bytes) :
    parseFilesV5 e f fmt entries.length (entries.flatMap (encodeEntry e f) ++ rest) =
      .ok (entries.map (fileOf5 fmt), rest) := by
  induction entries with
  | nil => simp [parseFilesV5]
  | cons d ds ih =>
    simp only [List.length_cons, List.flatMap_cons, List.append_assoc]
    rw [parseFilesV5]
    have hd := parseFileV5_encode e f fmt d {} (ds.flatMap (encodeEntry e f) ++ rest)
      (hc d List.mem_cons_self)
    have hs := parseFileV5_some e f fmt {} _ _ _ hd (Or.inr hp)
    rw [hd]
    simp only [Out.bind_ok]
    cases hq : (fileAccOf fmt d {}).path with
    | none => rw [hq] at hs; simp at hs
    | some p =>
      simp only
      rw [ih (fun x hx => hc x (List.mem_cons_of_mem _ hx))]
      simp only [Out.bind_ok, Out.pure_eq, List.map_cons, fileOf5, hq, Option.getD_some]


/-- **Header round trip, version 5.** -/
theorem parseHeader_encodeV5 (hs : HeaderV5) (hwf : hs.WF) (asz : Nat) (cd cn : Option Bytes)
    (bytes trailing : Bytes) (henc : encodeHeaderV5 hs = .ok bytes) :
    parseHeader hs.p.endian asz cd cn (bytes ++ trailing) = .ok hs.expected := by
  obtain ⟨hv, hver5, hdf, hff, hdirs, hfiles, hdl, hfl, hblen, hflen⟩ := hwf
  obtain ⟨hver2, _, hsz, hmin1, hmin2, hmax1, hmax2, hlb1, hlb2, hlr1, hlr2, hob1, hob2, hstd, hmaxv⟩ := hv
  unfold encodeHeaderV5 at henc
  simp only [bind_eq_ok] at henc
  obtain ⟨il, hil, henc⟩ := henc
  simp only [Out.pure_eq, Out.ok.injEq] at henc
  subst henc
  have hrt := (Ints.writeInitialLength_roundtrip hs.p.endian hs.p.format _ il
    (encodeBodyV5 hs ++ trailing) hblen hil).1
  unfold parseHeader
  rw [List.append_assoc, hrt]
  simp only [Out.bind_ok]
  rw [take_append_ok]
  simp only [Out.bind_ok]
  have hbody : encodeBodyV5 hs = Ints.toBytes hs.p.endian 2 hs.p.version ++
      (Ints.toBytes hs.p.endian 1 hs.p.addrSize ++ (Ints.toBytes hs.p.endian 1 0 ++
      (wordBytes hs.p.endian hs.p.format (encodeFieldsV5 hs).length ++ (encodeFieldsV5 hs ++ hs.program)))) := by
    simp [encodeBodyV5]
  rw [hbody, Ints.readFixed_toBytes _ 2 _ _ (by omega)]
  simp only [Out.bind_ok]
  rw [if_neg (by omega), if_pos (by omega)]
  -- address size and segment selector size
  have has : Ints.readAddressSize (Ints.toBytes hs.p.endian 1 hs.p.addrSize ++
      (Ints.toBytes hs.p.endian 1 0 ++ (wordBytes hs.p.endian hs.p.format (encodeFieldsV5 hs).length ++
        (encodeFieldsV5 hs ++ hs.program)))) =
      .ok (hs.p.addrSize, Ints.toBytes hs.p.endian 1 0 ++ (wordBytes hs.p.endian hs.p.format (encodeFieldsV5 hs).length ++
        (encodeFieldsV5 hs ++ hs.program))) := by
    have hb : Ints.toBytes hs.p.endian 1 hs.p.addrSize = [UInt8.ofNat hs.p.addrSize] := by
      have : hs.p.addrSize % 256 = hs.p.addrSize := Nat.mod_eq_of_lt (by omega)
      cases hs.p.endian <;> simp [Ints.toBytes, Ints.leBytes, this]
    rw [hb]
    have hn : (UInt8.ofNat hs.p.addrSize).toNat = hs.p.addrSize := ofNat_toNat _ (by omega)
    simp only [List.cons_append, List.nil_append, Ints.readAddressSize, hn]
    rw [if_pos hsz]
  rw [has]
  simp only [Out.bind_ok]
  rw [rf1 _ _ _ (by decide)]
  simp only [Out.bind_ok]
  rw [if_neg (by decide)]
  simp only [Out.pure_eq, Out.bind_ok]
  rw [readWord_encode _ _ _ _ hflen (by
    have : (encodeFieldsV5 hs).length ≤ (encodeBodyV5 hs).length := by
      rw [hbody]; simp only [List.length_append]; omega
    omega)]
  simp only [Out.bind_ok]
  rw [take_append_ok]
  simp only [Out.bind_ok]
  have hstmt : ∀ b : Bool, ((if b then 1 else 0 : Nat) != 0) = b := by intro b; cases b <;> rfl
  have hstmtlt : ∀ b : Bool, (if b then 1 else 0 : Nat) < 256 := by intro b; cases b <;> decide
  have hlb : (hs.p.lineBase % 256).toNat < 256 := by omega
  have hfinal :
      ({ endian := hs.p.endian, format := hs.p.format, version := hs.p.version,
         addrSize := hs.p.addrSize, minInstLen := hs.p.minInstLen, maxOps := hs.p.maxOps,
         defaultIsStmt := (if hs.p.defaultIsStmt then 1 else 0 : Nat) != 0,
         lineBase := toI8 (hs.p.lineBase % 256).toNat, lineRange := hs.p.lineRange,
         opcodeBase := hs.p.opcodeBase, stdLens := hs.p.stdLens } : Params) = hs.p := by
    rw [hstmt, toI8_encode _ hlb1 hlb2]
  have hstdtake : ∀ tail, Ints.take (hs.p.opcodeBase - 1) (hs.p.stdLens ++ tail) = .ok (hs.p.stdLens, tail) := by
    intro tail; rw [← hstd]; exact take_append_ok _ _
  have hv4 : hs.p.version ≥ 4 := by omega
  simp only [encodeFieldsV5, encodeTable, List.append_assoc]
  rw [rf1 _ _ _ (by omega)]
  simp only [Out.bind_ok]
  rw [if_neg (by omega), if_pos hv4]
  rw [rf1 _ _ _ (by omega)]
  simp only [Out.bind_ok]
  rw [if_neg (by omega)]
  rw [rf1 _ _ _ (hstmtlt _)]
  simp only [Out.bind_ok]
  rw [rf1 _ _ _ hlb]
  simp only [Out.bind_ok]
  rw [rf1 _ _ _ (by omega)]
  simp only [Out.bind_ok]
  rw [if_neg (by omega)]
  rw [rf1 _ _ _ (by omega)]
  simp only [Out.bind_ok]
  rw [if_neg (by omega)]
  rw [hstdtake]
  simp only [Out.bind_ok]
  rw [if_neg (by omega)]
  rw [parseEntryFormat_encode _ hdf]
  simp only [Out.bind_ok]
  rw [Leb.unsigned_roundtrip _ hdl]
  simp only [Out.bind_ok]
  rw [parseDirsV5_encode _ _ _ (formatOk_hasPath _ hdf) _ hdirs]
  simp only [Out.bind_ok]
  rw [parseEntryFormat_encode _ hff]
  simp only [Out.bind_ok]
  rw [Leb.unsigned_roundtrip _ hfl]
  simp only [Out.bind_ok]
  have := parseFilesV5_encode hs.p.endian hs.p.format _ (formatOk_hasPath _ hff) _ hfiles []
  simp only [List.append_nil] at this
  rw [this]
  simp only [Out.bind_ok, Out.pure_eq, HeaderV5.expected, hfinal, hbody, encodeFieldsV5, encodeTable,
    List.append_assoc]

end Gimli.Line
