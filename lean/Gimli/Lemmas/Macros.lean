import Gimli.Model.Macros
import Gimli.Lemmas.Leb
import Gimli.Lemmas.Ints
namespace Gimli.Macros
open Gimli

theorem ulebSt_len (bs : Bytes) : (ulebSt bs).2.length ≤ bs.length := by
  unfold ulebSt
  split
  · rename_i v r h
    obtain ⟨pre, hbs, _⟩ := Leb.unsigned_sound bs v r h
    simp [hbs]
  · simp
  · simp
  · simp
  · simp

theorem ulebSt_normal (bs : Bytes) : (ulebSt bs).1.Normal := by
  unfold ulebSt
  have ht : (Leb.unsigned bs).Normal := by
    cases bs with
    | nil => simp [Leb.unsigned, Out.Normal]
    | cons b tl =>
      rw [Leb.unsigned]; split
      · simp [Out.Normal]
      · suffices ∀ (l : Bytes) r s, (Leb.unsignedLoop l r s).Normal from this _ _ _
        intro l
        induction l with
        | nil => intro r s; simp [Leb.unsignedLoop, Out.Normal]
        | cons b tl ih =>
          intro r s; rw [Leb.unsignedLoop]; split
          · simp [Out.Normal]
          · simp only; split
            · simp [Out.Normal]
            · exact ih _ _
  split <;> simp_all [Out.Normal]

theorem nullTerm_len (bs : Bytes) : (nullTerm bs).2.length ≤ bs.length := by
  unfold nullTerm; split <;> simp

theorem nullTerm_normal (bs : Bytes) : (nullTerm bs).1.Normal := by
  unfold nullTerm; split <;> simp [Out.Normal]

theorem offsetSt_len (e : Endian) (f : Format) (bs : Bytes) : (offsetSt e f bs).2.length ≤ bs.length := by
  unfold offsetSt
  split
  · rename_i v r h
    cases f with
    | dwarf32 =>
      simp only [Ints.readWord] at h
      have := (Ints.readFixed_ok _ _ _ _ _ h).2.1
      simp [this]
    | dwarf64 =>
      simp only [Ints.readWord] at h
      cases h8 : Ints.readFixed e 8 bs with
      | ok p =>
        obtain ⟨v', r'⟩ := p
        rw [h8] at h
        simp only [Out.bind_ok] at h
        have hr := (Ints.readFixed_ok _ _ _ _ _ h8).2.1
        cases ho : Ints.offsetFromU64 64 v' with
        | ok x => rw [ho] at h; simp only [Out.bind_ok, Out.pure_eq, Out.ok.injEq, Prod.mk.injEq] at h; rw [← h.2, hr]; simp
        | err x => rw [ho] at h; simp at h
        | panic w => rw [ho] at h; simp at h
        | diverge => rw [ho] at h; simp at h
      | err x => rw [h8] at h; simp at h
      | panic w => rw [h8] at h; simp at h
      | diverge => rw [h8] at h; simp at h
  all_goals simp

theorem offsetSt_normal (e : Endian) (f : Format) (bs : Bytes) : (offsetSt e f bs).1.Normal := by
  unfold offsetSt
  have ht : (Ints.readWord e 64 f bs).Normal := by
    cases f with
    | dwarf32 => simp only [Ints.readWord]; rw [Ints.readFixed_eq]; split <;> simp [Out.Normal]
    | dwarf64 =>
      simp only [Ints.readWord]; rw [Ints.readFixed_eq]; split
      · simp only [Out.bind_ok, Ints.offsetFromU64]; split <;> simp [Out.Normal]
      · simp [Out.Normal]
  split <;> simp_all [Out.Normal]

/-- a composed read never grows the state and returns normally, if its parts do -/
theorem andThen_len {α β : Type} (x : Out α × Bytes) (f : α → Bytes → Out β × Bytes) (n : Nat)
    (hx : x.2.length ≤ n) (hf : ∀ a r, r.length ≤ n → (f a r).2.length ≤ n) :
    (andThen x f).2.length ≤ n := by
  unfold andThen; split <;> simp_all

theorem andThen_normal {α β : Type} (x : Out α × Bytes) (f : α → Bytes → Out β × Bytes)
    (hx : x.1.Normal) (hf : ∀ a r, (f a r).1.Normal) : (andThen x f).1.Normal := by
  unfold andThen; split <;> simp_all [Out.Normal]


theorem lineThenStr_len (mk) (rest : Bytes) : (lineThenStr mk rest).2.length ≤ rest.length := by
  unfold lineThenStr
  apply andThen_len _ _ _ (ulebSt_len rest)
  intro a r hr
  apply andThen_len _ _ _ (Nat.le_trans (nullTerm_len r) hr)
  intro a r hr; exact hr

theorem lineThenOff_len (e f mk) (rest : Bytes) : (lineThenOff e f mk rest).2.length ≤ rest.length := by
  unfold lineThenOff
  apply andThen_len _ _ _ (ulebSt_len rest)
  intro a r hr
  apply andThen_len _ _ _ (Nat.le_trans (offsetSt_len e f r) hr)
  intro a r hr; exact hr

theorem lineThenUleb_len (mk) (rest : Bytes) : (lineThenUleb mk rest).2.length ≤ rest.length := by
  unfold lineThenUleb
  apply andThen_len _ _ _ (ulebSt_len rest)
  intro a r hr
  apply andThen_len _ _ _ (Nat.le_trans (ulebSt_len r) hr)
  intro a r hr; exact hr

theorem lineThenStr_normal (mk) (rest : Bytes) : (lineThenStr mk rest).1.Normal := by
  unfold lineThenStr
  exact andThen_normal _ _ (ulebSt_normal _) fun a r =>
    andThen_normal _ _ (nullTerm_normal _) fun a r => by simp [Out.Normal]

theorem lineThenOff_normal (e f mk) (rest : Bytes) : (lineThenOff e f mk rest).1.Normal := by
  unfold lineThenOff
  exact andThen_normal _ _ (ulebSt_normal _) fun a r =>
    andThen_normal _ _ (offsetSt_normal _ _ _) fun a r => by simp [Out.Normal]

theorem lineThenUleb_normal (mk) (rest : Bytes) : (lineThenUleb mk rest).1.Normal := by
  unfold lineThenUleb
  exact andThen_normal _ _ (ulebSt_normal _) fun a r =>
    andThen_normal _ _ (ulebSt_normal _) fun a r => by simp [Out.Normal]

theorem run_len (e : Endian) (f : Format) (sh : Shape) (rest : Bytes) :
    (run e f sh rest).2.length ≤ rest.length := by
  cases sh with
  | done => simp [run]
  | lineStr mk => exact lineThenStr_len _ _
  | lineUleb mk => exact lineThenUleb_len _ _
  | endFile => simp [run]
  | lineOff mk => exact lineThenOff_len _ _ _ _
  | off mk =>
    simp only [run]
    apply andThen_len _ _ _ (offsetSt_len e f rest); intro a r hr; exact hr
  | bad err => simp [run]

theorem run_normal (e : Endian) (f : Format) (sh : Shape) (rest : Bytes) :
    (run e f sh rest).1.Normal := by
  cases sh with
  | done => simp [run, Out.Normal]
  | lineStr mk => exact lineThenStr_normal _ _
  | lineUleb mk => exact lineThenUleb_normal _ _
  | endFile => simp [run, Out.Normal]
  | lineOff mk => exact lineThenOff_normal _ _ _ _
  | off mk =>
    simp only [run]
    exact andThen_normal _ _ (offsetSt_normal _ _ _) fun a r => by simp [Out.Normal]
  | bad err => simp [run, Out.Normal]

/-- one `next()` call on a non-empty input leaves strictly fewer bytes: the type byte is always
consumed, sub-reads never un-read -/
theorem next_len (e : Endian) (f : Format) (m : Bool) (b : UInt8) (rest : Bytes) :
    (next e f m (b :: rest)).2.length ≤ rest.length := run_len _ _ _ _

theorem next_normal (e : Endian) (f : Format) (m : Bool) (bs : Bytes) : (next e f m bs).1.Normal := by
  cases bs with
  | nil => simp [next, Out.Normal]
  | cons b rest => exact run_normal _ _ _ _

theorem next_decreases (e : Endian) (f : Format) (m : Bool) (bs : Bytes)
    (h : Iter.isDone (next e f m bs).1 = false) : (next e f m bs).2.length < bs.length := by
  cases bs with
  | nil => simp [next, Iter.isDone] at h
  | cons b rest =>
    have := next_len e f m b rest
    simp only [List.length_cons]; omega

end Gimli.Macros
