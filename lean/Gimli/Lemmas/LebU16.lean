import Gimli.Lemmas.Leb
/-! The 16-bit ULEB128 reader (`leb128::read::u16`) accepts the canonical encoding of every 16-bit
value — needed for `DW_FORM_indirect` (C03). -/
namespace Gimli.Leb
open Gimli

theorem or_eq_add (a b n : Nat) (hb : b < 2 ^ n) : b ||| (a <<< n) = b + a * 2 ^ n := by
  rw [Nat.or_comm, ← Nat.shiftLeft_add_eq_or_of_lt hb, Nat.shiftLeft_eq]; omega

theorem encodeU_small (c : Nat) (h : c < 128) : encodeU c = [UInt8.ofNat c] := by
  unfold encodeU encodeUFuel
  have h1 : c / 128 = 0 := by omega
  have h2 : c % 128 = c := by omega
  simp [h1, h2]

theorem encodeU_two (c : Nat) (h1 : 128 ≤ c) (h2 : c < 16384) :
    encodeU c = [UInt8.ofNat (c % 128 + 128), UInt8.ofNat (c / 128)] := by
  unfold encodeU
  rw [encodeUFuel]
  have h3 : c / 128 ≠ 0 := by omega
  simp only [h3, ne_eq, not_false_eq_true, if_true]
  rw [encodeUFuel]
  have h4 : c / 128 / 128 = 0 := by omega
  have h5 : c / 128 % 128 = c / 128 := by omega
  simp [h4, h5]

theorem encodeU_three (c : Nat) (h1 : 16384 ≤ c) (h2 : c < 65536) :
    encodeU c = [UInt8.ofNat (c % 128 + 128), UInt8.ofNat (c / 128 % 128 + 128), UInt8.ofNat (c / 16384)] := by
  unfold encodeU
  rw [encodeUFuel]
  have h3 : c / 128 ≠ 0 := by omega
  simp only [h3, ne_eq, not_false_eq_true, if_true]
  rw [encodeUFuel]
  have h4 : c / 128 / 128 ≠ 0 := by omega
  simp only [h4, ne_eq, not_false_eq_true, if_true]
  rw [encodeUFuel]
  have h5 : c / 128 / 128 / 128 = 0 := by omega
  have h6 : c / 128 / 128 % 128 = c / 16384 := by omega
  simp [h5, h6]

/-- the 16-bit reader accepts the canonical encoding of every 16-bit value -/
theorem u16_roundtrip (c : Nat) (hc : c < 2 ^ 16) (rest : Bytes) : u16 (encodeU c ++ rest) = .ok (c, rest) := by
  by_cases h1 : c < 128
  · rw [encodeU_small c h1]
    have : (UInt8.ofNat c).toNat = c := by simp; omega
    simp [u16, this, h1]
  · by_cases h2 : c < 16384
    · rw [encodeU_two c (by omega) h2]
      have hb0 : (UInt8.ofNat (c % 128 + 128)).toNat = c % 128 + 128 := by simp; omega
      have hb1 : (UInt8.ofNat (c / 128)).toNat = c / 128 := by simp; omega
      simp only [List.cons_append, List.nil_append, u16, hb0, hb1]
      have hn0 : ¬ (c % 128 + 128 < 128) := by omega
      have hl1 : c / 128 < 128 := by omega
      simp only [hn0, if_false, hl1, if_true]
      have e1 : (c % 128 + 128) % 128 = c % 128 := by omega
      have e2 : c / 128 % 128 = c / 128 := by omega
      have e3 : (c / 128) <<< 7 % 2 ^ 16 = (c / 128) <<< 7 := by
        rw [Nat.shiftLeft_eq]; apply Nat.mod_eq_of_lt; omega
      rw [e1, e2, e3, or_eq_add _ _ 7 (by omega)]
      congr 2; omega
    · rw [encodeU_three c (by omega) (by omega)]
      have hb0 : (UInt8.ofNat (c % 128 + 128)).toNat = c % 128 + 128 := by simp; omega
      have hb1 : (UInt8.ofNat (c / 128 % 128 + 128)).toNat = c / 128 % 128 + 128 := by simp; omega
      have hb2 : (UInt8.ofNat (c / 16384)).toNat = c / 16384 := by simp; omega
      simp only [List.cons_append, List.nil_append, u16, hb0, hb1, hb2]
      have hn0 : ¬ (c % 128 + 128 < 128) := by omega
      have hn1 : ¬ (c / 128 % 128 + 128 < 128) := by omega
      have hn2 : ¬ (c / 16384 > 3) := by omega
      simp only [hn0, hn1, hn2, if_false]
      have e1 : (c % 128 + 128) % 128 = c % 128 := by omega
      have e2 : (c / 128 % 128 + 128) % 128 = c / 128 % 128 := by omega
      have e3 : (c / 128 % 128) <<< 7 % 2 ^ 16 = (c / 128 % 128) <<< 7 := by
        rw [Nat.shiftLeft_eq]; apply Nat.mod_eq_of_lt; omega
      have e4 : (c / 16384) <<< 14 % 2 ^ 16 = (c / 16384) * 2 ^ 14 := by
        rw [Nat.shiftLeft_eq]; apply Nat.mod_eq_of_lt; omega
      rw [e1, e2, e3, e4, or_eq_add _ _ 7 (by omega)]
      congr 2; omega

end Gimli.Leb
