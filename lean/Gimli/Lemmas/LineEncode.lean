import Gimli.Lemmas.LineHeader
import Gimli.Lemmas.LebSigned
/-! decode ∘ encode = id for line-number instructions: the Model decoder (`parseInstr`, the mirror
of `LineInstruction::parse`) inverts the Spec encoder (`Spec.Line.encodeInstr`, DWARF §6.2.5). -/
namespace Gimli.Line
open Gimli Gimli.Spec Gimli.Spec.Line

theorem ofNat_toNat (n : Nat) (h : n < 256) : (UInt8.ofNat n).toNat = n := by
  simp [UInt8.toNat_ofNat, Nat.mod_eq_of_lt h]

theorem take_append_ok (a rest : Bytes) : Ints.take a.length (a ++ rest) = .ok (a, rest) := by
  unfold Ints.take
  rw [if_pos (by simp)]
  simp

/-- decoding the extended-opcode frame `0, ULEB(len), sub, payload` -/
theorem parseInstr_ext (h : Params) (sub : Nat) (payload rest : Bytes) (i : Instr)
    (hlen : payload.length + 1 < 2 ^ 64)
    (hx : parseExtended h (UInt8.ofNat sub :: payload) = .ok i) :
    parseInstr h (encodeExt sub payload ++ rest) = .ok (i, rest) := by
  unfold encodeExt
  simp only [List.cons_append, List.append_assoc]
  rw [parseInstr]
  simp only [show (0 : UInt8).toNat = 0 from rfl, ↓reduceIte]
  rw [Leb.unsigned_roundtrip _ hlen]
  simp only
  have : Ints.take (payload.length + 1) (UInt8.ofNat sub :: (payload ++ rest)) =
      .ok (UInt8.ofNat sub :: payload, rest) := by
    have := take_append_ok (UInt8.ofNat sub :: payload) rest
    simpa using this
  rw [this]
  simp only [hx]



theorem readCStr_encode (p rest : Bytes) (hp : (0 : UInt8) ∉ p) :
    readCStr (p ++ 0 :: rest) = .ok (p, rest) := by
  induction p with
  | nil => simp [readCStr]
  | cons b tl ih =>
    have hb : b ≠ 0 := fun hb => hp (by simp [hb])
    have htl : (0 : UInt8) ∉ tl := fun hm => hp (List.mem_cons_of_mem _ hm)
    simp only [List.cons_append]
    rw [readCStr, if_neg hb, ih htl]

theorem skipUlebs_append (n : Nat) : ∀ (args rest : Bytes), skipUlebs n args = .ok [] →
    skipUlebs n (args ++ rest) = .ok rest := by
  intro args rest h
  obtain ⟨pre, hpre, hall⟩ := skipUlebs_local n args [] h
  simp only [List.append_nil] at hpre
  rw [hpre]; exact hall rest

/-- **decode ∘ encode = id, one instruction** -/
theorem parseInstr_encode (h : Params) (hv : h.Valid) (i : Instr) (hok : EncOk h i) (rest : Bytes) :
    parseInstr h (encodeInstr h i ++ rest) = .ok (i, rest) := by
  obtain ⟨_, _, hsz, _, _, _, _, _, _, _, _, hob1, hob2, hstd, _⟩ := hv
  cases i with
  | special op =>
    simp only [EncOk] at hok
    simp only [encodeInstr, List.cons_append, List.nil_append]
    rw [parseInstr]
    have : (UInt8.ofNat op).toNat = op := ofNat_toNat op (by omega)
    simp only [this]
    rw [if_neg (by omega), if_pos (by omega)]
  | copy =>
    simp only [EncOk] at hok
    simp only [encodeInstr, List.cons_append, List.nil_append]
    rw [parseInstr]
    simp only [show (1 : UInt8).toNat = 1 from rfl]
    rw [if_neg (by decide), if_neg (by omega)]
    simp [parseStandard]
  | advancePc n =>
    simp only [EncOk] at hok
    simp only [encodeInstr, List.cons_append]
    rw [parseInstr]
    simp only [show (2 : UInt8).toNat = 2 from rfl]
    rw [if_neg (by decide), if_neg (by omega)]
    simp [parseStandard, Leb.unsigned_roundtrip n hok.2, mapRead]
  | advanceLine n =>
    simp only [EncOk] at hok
    simp only [encodeInstr, List.cons_append]
    rw [parseInstr]
    simp only [show (3 : UInt8).toNat = 3 from rfl]
    rw [if_neg (by decide), if_neg (by omega)]
    simp [parseStandard, Leb.signed_roundtrip n hok.2.1 hok.2.2 rest, mapRead]
  | setFile n =>
    simp only [EncOk] at hok
    simp only [encodeInstr, List.cons_append]
    rw [parseInstr]
    simp only [show (4 : UInt8).toNat = 4 from rfl]
    rw [if_neg (by decide), if_neg (by omega)]
    simp [parseStandard, Leb.unsigned_roundtrip n hok.2, mapRead]
  | setColumn n =>
    simp only [EncOk] at hok
    simp only [encodeInstr, List.cons_append]
    rw [parseInstr]
    simp only [show (5 : UInt8).toNat = 5 from rfl]
    rw [if_neg (by decide), if_neg (by omega)]
    simp [parseStandard, Leb.unsigned_roundtrip n hok.2, mapRead]
  | negateStatement =>
    simp only [EncOk] at hok
    simp only [encodeInstr, List.cons_append, List.nil_append]
    rw [parseInstr]
    simp only [show (6 : UInt8).toNat = 6 from rfl]
    rw [if_neg (by decide), if_neg (by omega)]
    simp [parseStandard]
  | setBasicBlock =>
    simp only [EncOk] at hok
    simp only [encodeInstr, List.cons_append, List.nil_append]
    rw [parseInstr]
    simp only [show (7 : UInt8).toNat = 7 from rfl]
    rw [if_neg (by decide), if_neg (by omega)]
    simp [parseStandard]
  | constAddPc =>
    simp only [EncOk] at hok
    simp only [encodeInstr, List.cons_append, List.nil_append]
    rw [parseInstr]
    simp only [show (8 : UInt8).toNat = 8 from rfl]
    rw [if_neg (by decide), if_neg (by omega)]
    simp [parseStandard]
  | fixedAddPc n =>
    simp only [EncOk] at hok
    simp only [encodeInstr, List.cons_append]
    rw [parseInstr]
    simp only [show (9 : UInt8).toNat = 9 from rfl]
    rw [if_neg (by decide), if_neg (by omega)]
    have := Ints.readFixed_toBytes h.endian 2 n rest (by omega)
    simp [parseStandard, this, mapRead]
  | setPrologueEnd =>
    simp only [EncOk] at hok
    simp only [encodeInstr, List.cons_append, List.nil_append]
    rw [parseInstr]
    simp only [show (10 : UInt8).toNat = 10 from rfl]
    rw [if_neg (by decide), if_neg (by omega)]
    simp [parseStandard]
  | setEpilogueBegin =>
    simp only [EncOk] at hok
    simp only [encodeInstr, List.cons_append, List.nil_append]
    rw [parseInstr]
    simp only [show (11 : UInt8).toNat = 11 from rfl]
    rw [if_neg (by decide), if_neg (by omega)]
    simp [parseStandard]
  | setIsa n =>
    simp only [EncOk] at hok
    simp only [encodeInstr, List.cons_append]
    rw [parseInstr]
    simp only [show (12 : UInt8).toNat = 12 from rfl]
    rw [if_neg (by decide), if_neg (by omega)]
    simp [parseStandard, Leb.unsigned_roundtrip n hok.2, mapRead]
  | unknownStandard0 op =>
    simp only [EncOk] at hok
    obtain ⟨h13, hlt, hd⟩ := hok
    simp only [encodeInstr, List.cons_append, List.nil_append]
    rw [parseInstr]
    have : (UInt8.ofNat op).toNat = op := ofNat_toNat op (by omega)
    simp only [this]
    rw [if_neg (by omega), if_neg (by omega)]
    cases hdr : h.stdLens.drop (op - 1) with
    | nil => rw [hdr] at hd; simp at hd
    | cons n tl =>
      rw [hdr] at hd
      simp only [List.head?_cons, Option.some.injEq] at hd
      subst hd
      simp only [parseStandard, hdr]
      rw [if_neg (by omega), if_neg (by omega), if_neg (by omega), if_neg (by omega), if_neg (by omega),
        if_neg (by omega), if_neg (by omega), if_neg (by omega), if_neg (by omega), if_neg (by omega),
        if_neg (by omega), if_neg (by omega)]
      simp
  | unknownStandard1 op a =>
    simp only [EncOk] at hok
    obtain ⟨h13, hlt, hd, ha⟩ := hok
    simp only [encodeInstr, List.cons_append]
    rw [parseInstr]
    have : (UInt8.ofNat op).toNat = op := ofNat_toNat op (by omega)
    simp only [this]
    rw [if_neg (by omega), if_neg (by omega)]
    cases hdr : h.stdLens.drop (op - 1) with
    | nil => rw [hdr] at hd; simp at hd
    | cons n tl =>
      rw [hdr] at hd
      simp only [List.head?_cons, Option.some.injEq] at hd
      subst hd
      simp only [parseStandard, hdr]
      rw [if_neg (by omega), if_neg (by omega), if_neg (by omega), if_neg (by omega), if_neg (by omega),
        if_neg (by omega), if_neg (by omega), if_neg (by omega), if_neg (by omega), if_neg (by omega),
        if_neg (by omega), if_neg (by omega)]
      simp [Leb.unsigned_roundtrip a ha, mapRead]
  | unknownStandardN op args =>
    simp only [EncOk] at hok
    obtain ⟨h13, hlt, hm⟩ := hok
    obtain ⟨n, hd, hn2, hsk⟩ : ∃ n : UInt8, (h.stdLens.drop (op - 1)).head? = some n ∧ 2 ≤ n.toNat ∧
        skipUlebs n.toNat args = .ok [] := by
      cases hq : (h.stdLens.drop (op - 1)).head? with
      | none => rw [hq] at hm; exact absurd hm.1 (by simp)
      | some n =>
        rw [hq] at hm
        have := hm.2
        simp only [Option.all_some, decide_eq_true_eq] at this
        exact ⟨n, rfl, this.1, this.2⟩
    simp only [encodeInstr, List.cons_append]
    rw [parseInstr]
    have : (UInt8.ofNat op).toNat = op := ofNat_toNat op (by omega)
    simp only [this]
    rw [if_neg (by omega), if_neg (by omega)]
    cases hdr : h.stdLens.drop (op - 1) with
    | nil => rw [hdr] at hd; simp at hd
    | cons n' tl =>
      rw [hdr] at hd
      simp only [List.head?_cons, Option.some.injEq] at hd
      subst hd
      simp only [parseStandard, hdr]
      rw [if_neg (by omega), if_neg (by omega), if_neg (by omega), if_neg (by omega), if_neg (by omega),
        if_neg (by omega), if_neg (by omega), if_neg (by omega), if_neg (by omega), if_neg (by omega),
        if_neg (by omega), if_neg (by omega)]
      rw [if_neg (by omega), if_neg (by omega), skipUlebs_append _ _ _ hsk]
      simp
  | endSequence =>
    simp only [encodeInstr]
    exact parseInstr_ext h 1 [] rest _ (by decide) (by simp [parseExtended])
  | setAddress a =>
    simp only [EncOk] at hok
    simp only [encodeInstr]
    have hlen : (Ints.toBytes h.endian h.addrSize a).length = h.addrSize := Ints.toBytes_length _ _ _
    refine parseInstr_ext h 2 _ rest _ (by rw [hlen]; omega) ?_
    have hrd := Ints.readFixed_toBytes h.endian h.addrSize a [] (by rw [Ints.pow256]; exact hok)
    simp only [List.append_nil] at hrd
    simp [parseExtended, Ints.readAddress, hsz, hrd]
  | defineFile f =>
    simp only [EncOk] at hok
    obtain ⟨hver, hm, hm2, hd, ht, hsize, hmd5, hsrc⟩ := hok
    obtain ⟨p, hpath, hp0, hplen⟩ : ∃ p, f.path = .string p ∧ (0 : UInt8) ∉ p ∧ p.length < 2 ^ 63 := by
      cases hq : f.path with
      | string p =>
        rw [hq] at hm hm2
        simp only [pathBytes, Option.all_some, decide_eq_true_eq] at hm2
        exact ⟨p, rfl, hm2.1, hm2.2⟩
      | _ => rw [hq] at hm; exact absurd hm (by simp [pathBytes])
    simp only [encodeInstr, hpath]
    have l1 := (Leb.encodeU_spec f.dirIndex hd).2.2.1
    have l2 := (Leb.encodeU_spec f.timestamp ht).2.2.1
    have l3 := (Leb.encodeU_spec f.size hsize).2.2.1
    refine parseInstr_ext h 3 _ rest _ (by simp only [List.length_append, List.length_cons]; omega) ?_
    have hfe : parseFileEntryV4 p (Leb.encodeU f.dirIndex ++ Leb.encodeU f.timestamp ++ Leb.encodeU f.size) =
        .ok ({ path := .string p, dirIndex := f.dirIndex, timestamp := f.timestamp, size := f.size,
               md5 := List.replicate 16 0, source := none }, []) := by
      unfold parseFileEntryV4
      rw [List.append_assoc, Leb.unsigned_roundtrip _ hd]
      simp only [Out.bind_ok]
      rw [Leb.unsigned_roundtrip _ ht]
      simp only [Out.bind_ok]
      have := Leb.unsigned_roundtrip _ hsize []
      simp only [List.append_nil] at this
      rw [this]
      rfl
    have hf : f = FileEntry.mk (.string p) f.dirIndex f.timestamp f.size (List.replicate 16 0) none := by
      cases f; simp_all
    simp only [parseExtended, ofNat_toNat 3 (by decide)]
    simp only [show ¬ ((3 : Nat) = 1) by decide, show ¬ ((3 : Nat) = 2) by decide, ↓reduceIte, hver,
      readCStr_encode _ _ hp0, Out.bind_ok, hfe, Out.pure_eq]
    rw [← hf]
  | setDiscriminator n =>
    simp only [EncOk] at hok
    simp only [encodeInstr]
    have l1 := (Leb.encodeU_spec n hok).2.2.1
    refine parseInstr_ext h 4 _ rest _ (by omega) ?_
    have := Leb.unsigned_roundtrip _ hok []
    simp only [List.append_nil] at this
    simp only [parseExtended, ofNat_toNat 4 (by decide)]
    simp only [show ¬ ((4 : Nat) = 1) by decide, show ¬ ((4 : Nat) = 2) by decide,
      show ¬ ((4 : Nat) = 3) by decide, ↓reduceIte, this, Out.bind_ok, Out.pure_eq]
  | unknownExtended op data =>
    simp only [EncOk] at hok
    obtain ⟨h255, h1, h2, h4, h3, hlen⟩ := hok
    simp only [encodeInstr]
    refine parseInstr_ext h op _ rest _ hlen ?_
    simp only [parseExtended, ofNat_toNat op (by omega)]
    by_cases h3' : op = 3
    · subst h3'
      have : ¬ h.version ≤ 4 := by have := h3 rfl; omega
      simp only [show ¬ ((3 : Nat) = 1) by decide, show ¬ ((3 : Nat) = 2) by decide, ↓reduceIte, this]
    · simp only [h1, h2, h3', h4, ↓reduceIte]



theorem encodeInstr_length_pos (h : Params) (i : Instr) : 0 < (encodeInstr h i).length := by
  cases i <;> simp [encodeInstr, encodeExt]

theorem encodeProg_length (h : Params) (prog : List Instr) : prog.length ≤ (encodeProg h prog).length := by
  induction prog with
  | nil => simp [encodeProg]
  | cons i is ih =>
    have := encodeInstr_length_pos h i
    simp only [encodeProg, List.length_append, List.length_cons]
    omega

theorem decodeAll_encodeProg (h : Params) (hv : h.Valid) (prog : List Instr) :
    (∀ i ∈ prog, EncOk h i) →
    ∀ fuel, prog.length < fuel → decodeAll h fuel (encodeProg h prog) = .ok prog := by
  induction prog with
  | nil =>
    intro _ fuel hf
    cases fuel with
    | zero => omega
    | succ fuel => simp [decodeAll, encodeProg]
  | cons i is ih =>
    intro hok fuel hf
    cases fuel with
    | zero => omega
    | succ fuel =>
      have hpos := encodeInstr_length_pos h i
      have hne : (encodeProg h (i :: is)).isEmpty = false := by
        simp only [encodeProg]
        cases hx : encodeInstr h i with
        | nil => rw [hx] at hpos; simp at hpos
        | cons a b => rfl
      rw [decodeAll]
      simp only [hne, Bool.false_eq_true, ↓reduceIte]
      simp only [encodeProg]
      rw [parseInstr_encode h hv i (hok i List.mem_cons_self)]
      simp only
      rw [ih (fun j hj => hok j (List.mem_cons_of_mem _ hj)) fuel (by simp at hf; omega)]

end Gimli.Line
