import Gimli.Lemmas.Die
import Gimli.Lemmas.Leb
import Gimli.Spec.Forest
/-! Helper lemmas for C02, part 2: reading the encoding of a forest (`Spec.Forest.encode`) entry by
entry. `NodeOK`/`ForestOK` say when a forest is readable in a context (abbreviations + encoding);
they are the hypotheses of the theorems in `Props/C02.lean`. -/
namespace Gimli.Die
open Gimli Gimli.Attr Gimli.Abbrev Gimli.Ints Gimli.Spec Gimli.Spec.Forest

/-- what a reader reports about an entry -/
def Entry.item (e : Entry) : Item := ⟨e.offset, e.depth, e.tag, e.hasChildren⟩

/-- the entry `d` can be read in context `ctx`: its code is a proper abbreviation code that the
abbreviation table resolves to a declaration with `d`'s tag and children flag, and `d.attrBytes`
is an encoding of that declaration's attributes (reading them consumes exactly these bytes,
whatever follows — this is what C03's `form_value_roundtrip`/`fixed_size_exact` provide) -/
def NodeOK (ctx : Ctx) (d : Node) : Prop :=
  d.code ≠ 0 ∧ d.code < 2 ^ 64 ∧ d.tag ≠ 0 ∧
    ∃ a, ctx.abbrevs.get d.code = some a ∧ a.tag = d.tag ∧ a.hasChildren = d.children ∧
      ∃ vs, ∀ rest, readAttributes ctx.enc a.attrs (d.attrBytes ++ rest) = .ok (vs, rest)

/-- every entry of the forest can be read -/
def ForestOK (ctx : Ctx) : Forest → Prop
  | .nil => True
  | .node d kids sibs => NodeOK ctx d ∧ ForestOK ctx kids ∧ ForestOK ctx sibs

theorem encodeU_ne_nil (v : Nat) : Leb.encodeU v ≠ [] := by
  unfold Leb.encodeU Leb.encodeUFuel
  simp only
  split <;> simp

theorem headBytes_ne_nil (d : Node) : headBytes d ≠ [] := by
  unfold headBytes
  intro h
  exact encodeU_ne_nil d.code (List.append_eq_nil_iff.mp h).1

theorem readEntry_node {ctx : Ctx} {d : Node} (hd : NodeOK ctx d) (rest : Bytes) (endOff : Nat) (depth : Int) :
    ∃ e, (Raw.mk (headBytes d ++ rest) endOff depth).readEntry ctx
        = .ok (e, ⟨rest, endOff, if d.children then depth + 1 else depth⟩) ∧
      e.item = ⟨endOff - (headBytes d ++ rest).length, depth, d.tag, d.children⟩ := by
  obtain ⟨h0, h64, _, a, hget, htag, hch, vs, hattrs⟩ := hd
  refine ⟨⟨endOff - (headBytes d ++ rest).length, depth, a.tag, a.hasChildren, a.attrs.zip vs⟩, ?_, ?_⟩
  · unfold Raw.readEntry Raw.readAbbreviation
    simp only [headBytes, List.append_assoc]
    rw [Leb.unsigned_roundtrip d.code h64]
    simp only [Out.bind_ok, h0, if_false, hget, Out.pure_eq, hattrs, Raw.nextOffset, hch, List.length_append]
  · simp [Entry.item, htag, hch]

theorem readEntry_null (ctx : Ctx) (rest : Bytes) (endOff : Nat) (depth : Int) :
    (Raw.mk (0 :: rest) endOff depth).readEntry ctx
      = .ok (⟨endOff - (rest.length + 1), depth, 0, false, []⟩, ⟨rest, endOff, depth - 1⟩) := by
  unfold Raw.readEntry Raw.readAbbreviation
  simp [Leb.unsigned, Raw.nextOffset]


theorem rawAll_step_ok {ctx : Ctx} {r r' : Raw} {e : Entry} (k : Nat) (hne : r.input ≠ [])
    (h : r.readEntry ctx = .ok (e, r')) :
    rawAll ctx (k + 1) r = (e :: (rawAll ctx k r').1, (rawAll ctx k r').2) := by
  rw [rawAll]
  have : r.input.isEmpty = false := by
    cases hi : r.input with
    | nil => exact absurd hi hne
    | cons b t => rfl
  simp [this, h, Trace.cons]

/-- reading a well-formed forest entry by entry: exactly its depth-first listing, then whatever
the reader does on what follows -/
theorem rawAll_forest (ctx : Ctx) : ∀ (f : Forest), ForestOK ctx f → ∀ (k off : Nat) (depth : Int)
    (rest : Bytes),
    ∃ es, es.map Entry.item = listing off depth f ∧
      rawAll ctx (count f + k) ⟨encode f ++ rest, off + (encode f ++ rest).length, depth⟩ =
        (es ++ (rawAll ctx k ⟨rest, off + (encode f ++ rest).length, depth⟩).1,
          (rawAll ctx k ⟨rest, off + (encode f ++ rest).length, depth⟩).2) := by
  intro f
  induction f with
  | nil => intro _ k off depth rest; exact ⟨[], rfl, by simp [count, encode]⟩
  | node d kids sibs ihk ihs =>
    intro hok k off depth rest
    obtain ⟨hd, hk, hs⟩ := hok
    cases hc : d.children with
    | false =>
      -- entry, then siblings
      have henc : encode (.node d kids sibs) ++ rest = headBytes d ++ (encode sibs ++ rest) := by
        simp [encode, hc]
      obtain ⟨e, hre, hit⟩ := readEntry_node hd (encode sibs ++ rest)
        (off + (encode (.node d kids sibs) ++ rest).length) depth
      obtain ⟨es2, hl2, hr2⟩ := ihs hs k (off + (headBytes d).length) depth rest
      refine ⟨e :: es2, ?_, ?_⟩
      · simp only [List.map_cons, listing, hc, hl2, hit, henc, List.length_append]
        simp
      · have hcnt : count (.node d kids sibs) + k = (count sibs + k) + 1 := by
          simp [count, hc]; omega
        rw [hcnt, henc]
        rw [henc] at hre
        rw [rawAll_step_ok _ (by simp [headBytes_ne_nil]) hre]
        simp only [hc, Bool.false_eq_true, if_false]
        have hoff : off + (headBytes d ++ (encode sibs ++ rest)).length
            = off + (headBytes d).length + (encode sibs ++ rest).length := by
          simp only [List.length_append]; omega
        rw [hoff, hr2]
        simp
    | true =>
      have henc : encode (.node d kids sibs) ++ rest
          = headBytes d ++ (encode kids ++ (0 :: (encode sibs ++ rest))) := by
        simp [encode, hc]
      obtain ⟨e, hre, hit⟩ := readEntry_node hd (encode kids ++ (0 :: (encode sibs ++ rest)))
        (off + (encode (.node d kids sibs) ++ rest).length) depth
      obtain ⟨es1, hl1, hr1⟩ := ihk hk (1 + (count sibs + k)) (off + (headBytes d).length) (depth + 1)
        (0 :: (encode sibs ++ rest))
      obtain ⟨es2, hl2, hr2⟩ := ihs hs k (off + (headBytes d).length + (encode kids).length + 1) depth rest
      refine ⟨e :: (es1 ++ ⟨off + (headBytes d).length + (encode kids).length, depth + 1, 0, false, []⟩ :: es2), ?_, ?_⟩
      · simp only [List.map_cons, List.map_append, listing, hc, hl1, hl2, hit, henc, List.length_append, if_true]
        simp [Entry.item]
      · have hcnt : count (.node d kids sibs) + k = (count kids + (1 + (count sibs + k))) + 1 := by
          simp [count, hc]; omega
        rw [hcnt, henc]
        rw [henc] at hre
        rw [rawAll_step_ok _ (by simp [headBytes_ne_nil]) hre]
        simp only [hc, if_true]
        have hoff : off + (headBytes d ++ (encode kids ++ (0 :: (encode sibs ++ rest)))).length
            = off + (headBytes d).length + (encode kids ++ (0 :: (encode sibs ++ rest))).length := by
          simp only [List.length_append]; omega
        rw [hoff, hr1]
        have hstep := rawAll_step_ok (ctx := ctx) (count sibs + k) (r := ⟨0 :: (encode sibs ++ rest),
            off + (headBytes d).length + (encode kids ++ (0 :: (encode sibs ++ rest))).length, depth + 1⟩)
          (by simp) (readEntry_null ctx _ _ _)
        rw [show 1 + (count sibs + k) = (count sibs + k) + 1 by omega, hstep]
        have hoff2 : off + (headBytes d).length + (encode kids ++ (0 :: (encode sibs ++ rest))).length
            = off + (headBytes d).length + (encode kids).length + 1 + (encode sibs ++ rest).length := by
          simp only [List.length_append, List.length_cons]; omega
        rw [hoff2, show (depth + 1 - 1 : Int) = depth by omega, hr2]
        simp
        omega

/-- more fuel does not change a traversal that did not run out of it -/
theorem rawAll_mono (ctx : Ctx) : ∀ (n : Nat) (r : Raw) (m : Nat), (rawAll ctx n r).2 ≠ .diverge → n ≤ m →
    rawAll ctx m r = rawAll ctx n r := by
  intro n
  induction n with
  | zero => intro r m h; simp [rawAll] at h
  | succ n ih =>
    intro r m h hm
    obtain ⟨m, rfl⟩ : ∃ k, m = k + 1 := ⟨m - 1, by omega⟩
    rw [rawAll] at h ⊢
    rw [rawAll]
    cases he : r.input.isEmpty with
    | true => simp
    | false =>
      simp only [he, Bool.false_eq_true, if_false] at h ⊢
      cases hr : r.readEntry ctx with
      | ok p =>
        obtain ⟨e, r'⟩ := p
        rw [hr] at h
        simp only [Trace.cons] at h ⊢
        rw [ih r' m h (by omega)]
      | err x => rfl
      | panic w => rfl
      | diverge => rfl

theorem rawAll_padding (ctx : Ctx) : ∀ (pad k off : Nat) (depth : Int),
    ∃ es, es.map Entry.item = padding off depth pad ∧
      rawAll ctx (pad + (k + 1)) ⟨List.replicate pad 0, off + pad, depth⟩ = (es, .ok ()) := by
  intro pad
  induction pad with
  | zero => intro k off depth; exact ⟨[], rfl, by simp [rawAll]⟩
  | succ pad ih =>
    intro k off depth
    obtain ⟨es, hl, hr⟩ := ih k (off + 1) (depth - 1)
    refine ⟨⟨off, depth, 0, false, []⟩ :: es, by simp [padding, hl, Entry.item], ?_⟩
    have hstep := rawAll_step_ok (ctx := ctx) (pad + (k + 1))
      (r := ⟨0 :: List.replicate pad 0, off + (pad + 1), depth⟩) (by simp) (readEntry_null ctx _ _ _)
    rw [show pad + 1 + (k + 1) = pad + (k + 1) + 1 by omega, List.replicate_succ, hstep]
    rw [show off + (pad + 1) = off + 1 + pad by omega, hr]
    simp
    omega

theorem count_le_length : ∀ (f : Forest), count f ≤ (encode f).length := by
  intro f
  induction f with
  | nil => simp [count]
  | node d kids sibs ihk ihs =>
    have : 1 ≤ (headBytes d).length := by
      cases h : headBytes d with
      | nil => exact absurd h (headBytes_ne_nil d)
      | cons b t => simp
    simp only [count, encode, List.length_append]
    split <;> simp <;> omega

/-- **raw reading of a whole unit body** (forest + trailing null padding), with any fuel of at
least `length + 1` -/
theorem rawAll_unit (ctx : Ctx) (f : Forest) (hok : ForestOK ctx f) (pad off fuel : Nat)
    (hfuel : (encodeUnit f pad).length + 1 ≤ fuel) :
    ∃ es, es.map Entry.item = listingUnit off f pad ∧
      rawAll ctx fuel (Raw.new (encodeUnit f pad) off) = (es, .ok ()) := by
  obtain ⟨es1, hl1, hr1⟩ := rawAll_forest ctx f hok (pad + 1) off 0 (List.replicate pad 0)
  obtain ⟨es2, hl2, hr2⟩ := rawAll_padding ctx pad 0 (off + (encode f).length) 0
  have hlen : off + (encode f ++ List.replicate pad 0).length = off + (encode f).length + pad := by
    simp; omega
  rw [hlen, show pad + 1 = pad + (0 + 1) by omega, hr2] at hr1
  refine ⟨es1 ++ es2, by simp [listingUnit, hl1, hl2], ?_⟩
  have hc := count_le_length f
  have hne : (rawAll ctx (count f + (pad + (0 + 1))) ⟨encode f ++ List.replicate pad 0,
      off + (encode f).length + pad, 0⟩).2 ≠ .diverge := by rw [hr1]; simp
  have := rawAll_mono ctx _ _ fuel hne (by
    simp only [encodeUnit, List.length_append, List.length_replicate] at hfuel; omega)
  simp only [Raw.new, encodeUnit]
  rw [hlen, this, hr1]


/-! ### positioned reads -/

/-- what the bytes at an item's offset begin with: a null byte for a null entry, otherwise the
abbreviation code and attribute values of a readable entry with the item's tag and flag -/
def StartsAt (ctx : Ctx) (i : Item) (tl : Bytes) : Prop :=
  (i.tag = 0 ∧ i.children = false ∧ ∃ t, tl = 0 :: t) ∨
    (∃ d t, NodeOK ctx d ∧ d.tag = i.tag ∧ d.children = i.children ∧ tl = headBytes d ++ t)

theorem StartsAt.append {ctx : Ctx} {i : Item} {tl : Bytes} (h : StartsAt ctx i tl) (x : Bytes) :
    StartsAt ctx i (tl ++ x) := by
  rcases h with ⟨h1, h2, t, rfl⟩ | ⟨d, t, h1, h2, h3, rfl⟩
  · exact Or.inl ⟨h1, h2, t ++ x, rfl⟩
  · exact Or.inr ⟨d, t ++ x, h1, h2, h3, by simp⟩

theorem listing_suffix (ctx : Ctx) : ∀ (f : Forest), ForestOK ctx f → ∀ (off : Nat) (depth : Int) (i : Item),
    i ∈ listing off depth f →
    ∃ pre tl, encode f = pre ++ tl ∧ off + pre.length = i.offset ∧ StartsAt ctx i tl := by
  intro f
  induction f with
  | nil => intro _ off depth i hi; simp [listing] at hi
  | node d kids sibs ihk ihs =>
    intro hok off depth i hi
    obtain ⟨hd, hk, hs⟩ := hok
    simp only [listing, List.mem_cons, List.mem_append] at hi
    rcases hi with rfl | hi | hi
    · exact ⟨[], encode (.node d kids sibs), rfl, rfl,
        Or.inr ⟨d, (if d.children then encode kids ++ [0] else []) ++ encode sibs, hd, rfl, rfl, by simp [encode]⟩⟩
    · cases hc : d.children with
      | false => simp [hc] at hi
      | true =>
        simp only [hc, if_true, List.mem_append, List.mem_singleton] at hi
        rcases hi with hi | rfl
        · obtain ⟨pre, tl, he, ho, hst⟩ := ihk hk _ _ i hi
          refine ⟨headBytes d ++ pre, tl ++ (0 :: encode sibs), ?_, ?_, hst.append _⟩
          · simp [encode, hc, he]
          · simp only [List.length_append]; omega
        · refine ⟨headBytes d ++ encode kids, 0 :: encode sibs, ?_, ?_, Or.inl ⟨rfl, rfl, _, rfl⟩⟩
          · simp [encode, hc]
          · simp only [List.length_append]; omega
    · obtain ⟨pre, tl, he, ho, hst⟩ := ihs hs _ _ i hi
      cases hc : d.children with
      | false =>
        refine ⟨headBytes d ++ pre, tl, ?_, ?_, hst⟩
        · simp [encode, hc, he]
        · simp only [hc, Bool.false_eq_true, if_false] at ho
          simp only [List.length_append]; omega
      | true =>
        refine ⟨headBytes d ++ (encode kids ++ 0 :: pre), tl, ?_, ?_, hst⟩
        · simp [encode, hc, he]
        · simp only [hc, if_true] at ho
          simp only [List.length_append, List.length_cons]; omega

theorem padding_suffix : ∀ (pad off : Nat) (depth : Int) (i : Item), i ∈ padding off depth pad →
    ∃ pre t, List.replicate pad (0 : UInt8) = pre ++ 0 :: t ∧ off + pre.length = i.offset ∧ i.tag = 0 ∧
      i.children = false := by
  intro pad
  induction pad with
  | zero => intro off depth i hi; simp [padding] at hi
  | succ pad ih =>
    intro off depth i hi
    simp only [padding, List.mem_cons] at hi
    rcases hi with rfl | hi
    · exact ⟨[], List.replicate pad 0, by simp [List.replicate_succ], rfl, rfl, rfl⟩
    · obtain ⟨pre, t, he, ho, h1, h2⟩ := ih _ _ i hi
      refine ⟨0 :: pre, t, by simp [List.replicate_succ, he], ?_, h1, h2⟩
      simp only [List.length_cons]; omega

/-- at the offset of every listed item of a unit body, the body continues with that item -/
theorem unit_suffix (ctx : Ctx) (f : Forest) (hok : ForestOK ctx f) (pad off : Nat) (i : Item)
    (hi : i ∈ listingUnit off f pad) :
    ∃ pre tl, encodeUnit f pad = pre ++ tl ∧ off + pre.length = i.offset ∧ StartsAt ctx i tl := by
  simp only [listingUnit, List.mem_append] at hi
  rcases hi with hi | hi
  · obtain ⟨pre, tl, he, ho, hst⟩ := listing_suffix ctx f hok off 0 i hi
    exact ⟨pre, tl ++ List.replicate pad 0, by simp [encodeUnit, he], ho, hst.append _⟩
  · obtain ⟨pre, t, he, ho, h1, h2⟩ := padding_suffix pad _ 0 i hi
    refine ⟨encode f ++ pre, 0 :: t, by simp [encodeUnit, he], ?_, Or.inl ⟨h1, h2, t, rfl⟩⟩
    simp only [List.length_append]; omega

/-- reading one entry where an item starts: that item, at depth 0 from a fresh reader -/
theorem readEntry_startsAt {ctx : Ctx} {i : Item} {tl : Bytes} (h : StartsAt ctx i tl) (off : Nat) :
    ∃ e r, (Raw.new tl off).readEntry ctx = .ok (e, r) ∧ e.item = ⟨off, 0, i.tag, i.children⟩ := by
  rcases h with ⟨h1, h2, t, rfl⟩ | ⟨d, t, hd, h2, h3, rfl⟩
  · refine ⟨_, _, readEntry_null ctx t _ 0, ?_⟩
    simp [Entry.item, h1, h2]
  · obtain ⟨e, hre, hit⟩ := readEntry_node hd t (off + (headBytes d ++ t).length) 0
    refine ⟨e, _, hre, ?_⟩
    rw [hit, h2, h3]; simp


theorem StartsAt.ne_nil {ctx : Ctx} {i : Item} {tl : Bytes} (h : StartsAt ctx i tl) : tl ≠ [] := by
  rcases h with ⟨_, _, t, rfl⟩ | ⟨d, t, _, _, _, rfl⟩
  · simp
  · simp [headBytes_ne_nil]

/-- `range_from(offset..)` at the offset of a listed item: the rest of the body from that item on -/
theorem rangeFrom_item (ctx : Ctx) (h : UnitHeader) (f : Forest) (pad : Nat) (hok : ForestOK ctx f)
    (hbuf : h.entriesBuf = encodeUnit f pad) (i : Item) (hi : i ∈ listingUnit h.headerSize f pad) :
    ∃ tl, h.rangeFrom i.offset = .ok tl ∧ StartsAt ctx i tl := by
  obtain ⟨pre, tl, he, ho, hst⟩ := unit_suffix ctx f hok pad h.headerSize i hi
  refine ⟨tl, ?_, hst⟩
  have hne := hst.ne_nil
  have hlen : pre.length < h.entriesBuf.length := by
    rw [hbuf, he, List.length_append]
    cases tl with
    | nil => exact absurd rfl hne
    | cons b t => simp
  unfold UnitHeader.rangeFrom UnitHeader.isInBounds
  rw [← ho]
  simp only [show ¬ (h.headerSize + pre.length < h.headerSize) by omega, if_false,
    show h.headerSize + pre.length - h.headerSize = pre.length by omega, hlen, decide_true,
    Bool.not_true, Bool.false_eq_true]
  unfold skipN
  rw [if_pos (by omega), hbuf, he]
  simp

/-- **positioned read** (`UnitHeader::entry`) at the offset of any listed item -/
theorem entry_at_item (ctx : Ctx) (h : UnitHeader) (f : Forest) (pad : Nat) (hok : ForestOK ctx f)
    (hbuf : h.entriesBuf = encodeUnit f pad) (i : Item) (hi : i ∈ listingUnit h.headerSize f pad) :
    (i.tag = 0 → h.entry ctx i.offset = .err .rNoEntryAtGivenOffset) ∧
    (i.tag ≠ 0 → ∃ e, h.entry ctx i.offset = .ok e ∧ e.item = ⟨i.offset, 0, i.tag, i.children⟩) := by
  obtain ⟨tl, hr, hst⟩ := rangeFrom_item ctx h f pad hok hbuf i hi
  obtain ⟨e, r, hre, hit⟩ := readEntry_startsAt hst i.offset
  have hnull : e.isNull = decide (i.tag = 0) := by
    have : e.tag = i.tag := by have := congrArg Item.tag hit; simpa [Entry.item] using this
    simp [Entry.isNull, this]
  constructor
  · intro h0
    simp [UnitHeader.entry, UnitHeader.entriesRaw, hr, hre, hnull, h0]
  · intro h0
    exact ⟨e, by simp [UnitHeader.entry, UnitHeader.entriesRaw, hr, hre, hnull, h0], hit⟩

/-- the same through `entries_tree(Some(offset))?.root()` -/
theorem tree_root_at_item (ctx : Ctx) (h : UnitHeader) (f : Forest) (pad : Nat) (hok : ForestOK ctx f)
    (hbuf : h.entriesBuf = encodeUnit f pad) (i : Item) (hi : i ∈ listingUnit h.headerSize f pad) :
    (i.tag = 0 → (h.entriesTree i.offset >>= fun t => t.rootNode ctx) = .err .rNoEntryAtGivenOffset) ∧
    (i.tag ≠ 0 → ∃ t, (h.entriesTree i.offset >>= fun t => t.rootNode ctx) = .ok t ∧
      t.entry.item = ⟨i.offset, 0, i.tag, i.children⟩) := by
  obtain ⟨tl, hr, hst⟩ := rangeFrom_item ctx h f pad hok hbuf i hi
  obtain ⟨e, r, hre, hit⟩ := readEntry_startsAt hst i.offset
  have hnull : e.isNull = decide (i.tag = 0) := by
    have : e.tag = i.tag := by have := congrArg Item.tag hit; simpa [Entry.item] using this
    simp [Entry.isNull, this]
  have hre' : ({ (Raw.new tl i.offset) with input := tl, depth := 0 } : Raw).readEntry ctx = .ok (e, r) := hre
  constructor
  · intro h0
    simp [UnitHeader.entriesTree, hr, Tree.rootNode, Tree.new, hre', hnull, h0]
  · intro h0
    refine ⟨_, by simp [UnitHeader.entriesTree, hr, Tree.rootNode, Tree.new, hre', hnull, h0]; rfl, hit⟩

/-! ### `read_abbreviation` + `skip_attributes` reports the same entries (C03's `skip_eq_read`) -/

def Entry.strip (e : Entry) : Entry := { e with attrs := [] }

theorem skipEntry_of_readEntry {ctx : Ctx} {r r' : Raw} {e : Entry} (h : r.readEntry ctx = .ok (e, r')) :
    r.skipEntry ctx = .ok (e.strip, r') := by
  unfold Raw.readEntry at h
  unfold Raw.skipEntry
  obtain ⟨⟨a, r1⟩, h1, h2⟩ := bind_ok_inv h
  rw [h1]
  simp only [Out.bind_ok] at h2 ⊢
  cases a with
  | none =>
    simp only [Out.pure_eq, Out.ok.injEq, Prod.mk.injEq] at h2 ⊢
    exact ⟨by rw [← h2.1]; rfl, h2.2⟩
  | some a =>
    simp only at h2 ⊢
    obtain ⟨⟨vs, rest⟩, h3, h4⟩ := bind_ok_inv h2
    simp only [Out.pure_eq, Out.ok.injEq, Prod.mk.injEq] at h4
    have := skipLoop_of_readAttributes ctx.enc a.attrs 0 r1.input vs rest (Nat.zero_le _) (by simpa using h3)
    rw [skipAttributes, this]
    simp only [Out.bind_ok, Out.pure_eq, Out.ok.injEq, Prod.mk.injEq]
    exact ⟨by rw [← h4.1]; rfl, h4.2⟩

theorem rawSkipAll_of_rawAll (ctx : Ctx) : ∀ (n : Nat) (r : Raw) (es : List Entry),
    rawAll ctx n r = (es, .ok ()) → rawSkipAll ctx n r = (es.map Entry.strip, .ok ()) := by
  intro n
  induction n with
  | zero => intro r es h; simp [rawAll] at h
  | succ n ih =>
    intro r es h
    rw [rawAll] at h
    rw [rawSkipAll]
    cases he : r.input.isEmpty with
    | true =>
      simp only [he, if_true, Prod.mk.injEq] at h
      simp [← h.1]
    | false =>
      simp only [he, Bool.false_eq_true, if_false] at h ⊢
      cases hr : r.readEntry ctx with
      | ok p =>
        obtain ⟨e, r'⟩ := p
        rw [hr] at h
        simp only [Trace.cons, Prod.mk.injEq] at h
        rw [skipEntry_of_readEntry hr]
        have hrec : rawAll ctx n r' = ((rawAll ctx n r').1, .ok ()) := by rw [← h.2]
        simp only [Trace.cons]
        rw [ih r' _ hrec, ← h.1]
        simp
      | err x => rw [hr] at h; simp [Trace.fail] at h
      | panic w => rw [hr] at h; simp [Trace.fail] at h
      | diverge => rw [hr] at h; simp [Trace.fail] at h

end Gimli.Die
