import Gimli.Lemmas.LineSeq
/-! `LineRows::next_row`, call by call (`nextRow`, `collect`), against the fused trace. -/
namespace Gimli.Line
open Gimli Gimli.Spec Gimli.Spec.Line

/-- what one `next_row` call does, in terms of the trace -/
def NextSpec (h : Params) (f : Nat) (row : Row) (inSeq : Bool) (input : Bytes) :
    Next × Row × Bool × Bytes → Prop
  | (.none, _, _, _) => vis (traceLoop h f row inSeq input) = []
  | (.row r, row', b', input') =>
    vis (traceLoop h f row inSeq input) =
      .row r :: vis (traceLoop h (input'.length + 1) (reset h row') b' input') ∧
      input'.length < input.length
  | (.err e, row', b', input') =>
    vis (traceLoop h f row inSeq input) =
      .err e :: vis (traceLoop h (input'.length + 1) (reset h row') b' input') ∧
      input'.length < input.length
  | (.stuck, _, _, _) => False

theorem nextRowLoop_spec (h : Params) : ∀ (f : Nat) (row : Row) (inSeq : Bool) (input : Bytes),
    input.length < f → NextSpec h f row inSeq input (nextRowLoop h f row inSeq input) := by
  intro f
  induction f with
  | zero => intro row inSeq input hl; omega
  | succ f ih =>
    intro row inSeq input hl
    rw [nextRowLoop]
    by_cases hem : input.isEmpty = true
    · simp only [hem, ↓reduceIte, NextSpec]
      rw [traceLoop]; simp [hem]
    · simp only [hem, Bool.false_eq_true, ↓reduceIte]
      have hn := parseInstr_normal h input
      have hne : input ≠ [] := fun h0 => hem (by simp [h0])
      have hpos : 0 < input.length := List.length_pos_iff.mpr hne
      cases hp : parseInstr h input with
      | err e =>
        simp only [NextSpec]
        rw [traceLoop]
        simp [hem, hp, traceLoop, hpos, Ev.visible]
      | panic w => rw [hp] at hn; exact absurd hn (by simp [Out.Normal])
      | diverge => rw [hp] at hn; exact absurd hn (by simp [Out.Normal])
      | ok p =>
        obtain ⟨ins, rest⟩ := p
        have hc := parseInstr_consumes h input ins rest hp
        have hT : traceLoop h (f + 1) row inSeq input =
            (stepEv h row inSeq ins).1 ++
              traceLoop h (rest.length + 1) (stepEv h row inSeq ins).2.1 (stepEv h row inSeq ins).2.2 rest := by
          rw [traceLoop_fuel h (f + 1) (input.length + 1) row inSeq input (by omega) (by omega)]
          exact traceLoop_stepEv h row inSeq input ins rest hp
        have hfuel : ∀ row' b, traceLoop h (rest.length + 1) row' b rest = traceLoop h f row' b rest :=
          fun row' b => traceLoop_fuel h _ _ row' b rest (by omega) (by omega)
        simp only
        cases hex : execute h row ins with
        | mk row' e =>
          cases e with
          | err e =>
            rw [stepEv_err h row row' inSeq ins e hex] at hT
            simp only [NextSpec, hT]
            exact ⟨by simp [vis, List.filter, Ev.visible], hc⟩
          | noEmit =>
            rw [stepEv_noEmit h row row' inSeq ins hex] at hT
            simp only [List.nil_append, hfuel] at hT
            simp only
            have := ih row' inSeq rest (by omega)
            revert this
            cases hq : nextRowLoop h f row' inSeq rest with
            | mk nx st =>
              obtain ⟨r2, b2, i2⟩ := st
              cases nx with
              | none => simp only [NextSpec, hT]; exact id
              | row r => simp only [NextSpec, hT]; exact fun ⟨a, b⟩ => ⟨a, by omega⟩
              | err e => simp only [NextSpec, hT]; exact fun ⟨a, b⟩ => ⟨a, by omega⟩
              | stuck => simp only [NextSpec]; exact id
          | emit =>
            simp only
            by_cases ht : skipRow row' inSeq = true
            · rw [stepEv_hidden h row row' inSeq ins hex ht] at hT
              simp only [hfuel] at hT
              simp only [ht, ↓reduceIte]
              have := ih (reset h row') inSeq rest (by omega)
              revert this
              cases hq : nextRowLoop h f (reset h row') inSeq rest with
              | mk nx st =>
                obtain ⟨r2, b2, i2⟩ := st
                have hv : vis ([Ev.hidden row'] ++ traceLoop h f (reset h row') inSeq rest) =
                    vis (traceLoop h f (reset h row') inSeq rest) := by simp [vis, Ev.visible]
                cases nx with
                | none => simp only [NextSpec, hT, hv]; exact id
                | row r => simp only [NextSpec, hT, hv]; exact fun ⟨a, b⟩ => ⟨a, by omega⟩
                | err e => simp only [NextSpec, hT, hv]; exact fun ⟨a, b⟩ => ⟨a, by omega⟩
                | stuck => simp only [NextSpec]; exact id
            · rw [stepEv_row h row row' inSeq ins hex ht] at hT
              simp only [ht, Bool.false_eq_true, ↓reduceIte, NextSpec, hT]
              exact ⟨by simp [vis, List.filter, Ev.visible], hc⟩

/-- **The Model's trace is what the caller collects**: calling `next_row()` until `Ok(None)`
returns, call by call, exactly the visible events of the fused trace. -/
theorem collect_eq_run (h : Params) : ∀ (n : Nat) (row : Row) (inSeq : Bool) (input : Bytes),
    input.length < n →
    collect h n row inSeq input = vis (traceLoop h (input.length + 1) (reset h row) inSeq input) := by
  intro n
  induction n with
  | zero => intro row inSeq input hl; omega
  | succ n ih =>
    intro row inSeq input hl
    rw [collect]
    have hs := nextRowLoop_spec h (input.length + 1) (reset h row) inSeq input (by omega)
    unfold nextRow
    revert hs
    cases hq : nextRowLoop h (input.length + 1) (reset h row) inSeq input with
    | mk nx st =>
      obtain ⟨r2, b2, i2⟩ := st
      cases nx with
      | none => simp only [NextSpec]; intro hs; rw [hs]
      | row r =>
        simp only [NextSpec]
        intro ⟨a, b⟩
        rw [a, ih r2 b2 i2 (by omega)]
      | err e =>
        simp only [NextSpec]
        intro ⟨a, b⟩
        rw [a, ih r2 b2 i2 (by omega)]
      | stuck => simp only [NextSpec]; exact False.elim

end Gimli.Line
