import Gimli.Model.Ints
import Gimli.Lemmas.Ints
/-! Inversion lemmas for `do` blocks of the Model readers (used by the C17 layout theorems).
Kept in their own namespace so that they cannot clash with helpers of other properties. -/
namespace Gimli.C17
open Gimli
theorem bind_eq_ok {α β : Type} (x : Out α) (f : α → Out β) (b : β)
    (h : (x >>= f) = .ok b) : ∃ a, x = .ok a ∧ f a = .ok b := by
  cases x with
  | ok a => exact ⟨a, rfl, h⟩
  | err e => simp at h
  | panic w => simp at h
  | diverge => simp at h
open Gimli.Ints
theorem take_ok_split (n : Nat) (bs a r : Bytes) (h : take n bs = .ok (a, r)) :
    bs = a ++ r ∧ a.length = n := by
  unfold take at h
  split at h
  · rename_i hn
    simp only [Out.ok.injEq, Prod.mk.injEq] at h
    rw [← h.1, ← h.2]
    exact ⟨(List.take_append_drop n bs).symm, by simp [hn]⟩
  · simp at h

theorem readFixed_split (e : Endian) (n : Nat) (bs : Bytes) (v : Nat) (r : Bytes)
    (h : readFixed e n bs = .ok (v, r)) : ∃ a, bs = a ++ r ∧ a.length = n ∧ v = fromBytes e a := by
  obtain ⟨hn, hr, hv, _⟩ := readFixed_ok e n bs v r h
  exact ⟨bs.take n, by rw [hr]; exact (List.take_append_drop n bs).symm, by simp [hn], hv⟩

theorem readWord_split (e : Endian) (f : Format) (bs : Bytes) (v : Nat) (r : Bytes)
    (h : readWord e 64 f bs = .ok (v, r)) : ∃ a, bs = a ++ r ∧ a.length = f.wordSize := by
  cases f with
  | dwarf32 =>
    obtain ⟨a, h1, h2, _⟩ := readFixed_split e 4 bs v r h
    exact ⟨a, h1, h2⟩
  | dwarf64 =>
    simp only [readWord] at h
    obtain ⟨⟨v', r'⟩, h1, h2⟩ := bind_eq_ok _ _ _ h
    obtain ⟨v'', h3, h4⟩ := bind_eq_ok _ _ _ h2
    simp only [Out.pure_eq, Out.ok.injEq, Prod.mk.injEq] at h4
    obtain ⟨a, h5, h6, _⟩ := readFixed_split e 8 bs v' r' h1
    exact ⟨a, by rw [h5, h4.2], h6⟩

theorem readInitialLength_split (e : Endian) (bs : Bytes) (len : Nat) (f : Format) (r : Bytes)
    (h : readInitialLength e 64 bs = .ok ((len, f), r)) :
    ∃ a, bs = a ++ r ∧ a.length = (match f with | .dwarf32 => 4 | .dwarf64 => 12) := by
  unfold readInitialLength at h
  obtain ⟨⟨v, r1⟩, h1, h2⟩ := bind_eq_ok _ _ _ h
  obtain ⟨a1, e1, l1, _⟩ := readFixed_split e 4 bs v r1 h1
  simp only at h2
  split at h2
  · simp only [Out.pure_eq, Out.ok.injEq, Prod.mk.injEq] at h2
    obtain ⟨⟨_, hf⟩, hr⟩ := h2
    subst hf hr
    exact ⟨a1, e1, l1⟩
  · split at h2
    · obtain ⟨⟨v2, r2⟩, h3, h4⟩ := bind_eq_ok _ _ _ h2
      obtain ⟨v3, h5, h6⟩ := bind_eq_ok _ _ _ h4
      simp only [Out.pure_eq, Out.ok.injEq, Prod.mk.injEq] at h6
      obtain ⟨⟨_, hf⟩, hr⟩ := h6
      subst hf hr
      obtain ⟨a2, e2, l2, _⟩ := readFixed_split e 8 r1 v2 r2 h3
      exact ⟨a1 ++ a2, by rw [e1, e2, List.append_assoc], by simp [l1, l2]⟩
    · simp at h2
end Gimli.C17
