import Gimli.Lemmas.RelocPatch
import Gimli.Lemmas.ReaderKinds
import Gimli.Lemmas.ReaderViews
/-! C18, reading side: facts about `applyR`, closed forms of the shared reader, the relocated reads. -/
namespace Gimli.Rr
open Gimli Gimli.Rd Gimli.Wr

/-- `b[o .. o+n]` -/
def ext (b : Bytes) (o n : Nat) : Bytes := (b.drop o).take n

theorem getElem?_ext (b : Bytes) (o n i : Nat) : (ext b o n)[i]? = if i < n then b[o + i]? else none := by
  simp [ext, List.getElem?_take, List.getElem?_drop]

theorem ext_patch_disjoint {b x : Bytes} {p o n : Nat} (hx : p + x.length ≤ b.length)
    (hd : n = 0 ∨ p + x.length ≤ o ∨ o + n ≤ p) : ext (patch b p x) o n = ext b o n := by
  apply List.ext_getElem?
  intro i
  rw [getElem?_ext, getElem?_ext]
  by_cases hi : i < n
  · simp only [hi, if_true]
    rw [getElem?_patch hx]
    have h1 : n ≠ 0 := by omega
    rcases hd with hd | hd | hd
    · exact absurd hd h1
    · have : ¬ o + i < p := by omega
      have : ¬ o + i < p + x.length := by omega
      simp [*]
    · have : o + i < p := by omega
      simp [*]
  · simp [hi]

theorem ext_patch_self {b x : Bytes} {p : Nat} (hx : p + x.length ≤ b.length) :
    ext (patch b p x) p x.length = x := by
  apply List.ext_getElem?
  intro i
  rw [getElem?_ext]
  by_cases hi : i < x.length
  · simp only [hi, if_true]
    rw [getElem?_patch hx]
    have : ¬ p + i < p := by omega
    have : p + i < p + x.length := by omega
    simp [*]
  · simp only [hi, if_false]
    rw [List.getElem?_eq_none (by omega)]

/-- Prop versions of the Boolean predicates -/
def Disjoint (ρ : List RRel) (o n : Nat) : Prop :=
  n = 0 ∨ ∀ r ∈ ρ, r.off + r.size ≤ o ∨ o + n ≤ r.off

theorem disjoint_iff (ρ : List RRel) (o n : Nat) : disjoint ρ o n = true ↔ Disjoint ρ o n := by
  simp [disjoint, Disjoint, List.all_eq_true]

def Separated : List RRel → Prop
  | [] => True
  | r :: rs => 0 < r.size ∧ (∀ r' ∈ rs, r.off + r.size ≤ r'.off ∨ r'.off + r'.size ≤ r.off) ∧ Separated rs

theorem separated_iff (ρ : List RRel) : separated ρ = true ↔ Separated ρ := by
  induction ρ with
  | nil => simp [separated, Separated]
  | cons r rs ih => simp [separated, Separated, List.all_eq_true, ih, and_assoc]

/-- the new value of a field -/
def newVal (e : Endian) (b : Bytes) (r : RRel) : Int :=
  (Ints.fromBytes e (ext b r.off r.size) : Int) + r.addend

theorem applyOneR_ok {e : Endian} {b b1 : Bytes} {r : RRel} (h : applyOneR e b r = .ok b1) :
    r.off + r.size ≤ b.length ∧ 0 ≤ newVal e b r ∧ newVal e b r < 2 ^ (8 * r.size) ∧
      b1 = patch b r.off (Ints.toBytes e r.size (newVal e b r).toNat) := by
  unfold applyOneR at h
  split at h
  · simp only at h
    split at h
    · rename_i h1 h2
      cases h
      exact ⟨h1, h2.1, h2.2, rfl⟩
    · cases h
  · cases h

/-- what `applyR` does, field by field -/
theorem applyR_spec {e : Endian} : ∀ (ρ : List RRel) (b b' : Bytes), Separated ρ →
    applyR e ρ b = .ok b' →
      b'.length = b.length ∧
      (∀ o n, Disjoint ρ o n → ext b' o n = ext b o n) ∧
      (∀ r ∈ ρ, r.off + r.size ≤ b.length ∧ 0 ≤ newVal e b r ∧ newVal e b r < 2 ^ (8 * r.size) ∧
        ext b' r.off r.size = Ints.toBytes e r.size (newVal e b r).toNat) := by
  intro ρ
  induction ρ with
  | nil =>
    intro b b' _ h
    cases h
    exact ⟨rfl, fun _ _ _ => rfl, fun r hr => nomatch hr⟩
  | cons r rs ih =>
    intro b b' hsep h
    simp only [applyR] at h
    cases h1 : applyOneR e b r with
    | ok b1 =>
      rw [h1] at h
      simp only [Out.bind_ok] at h
      obtain ⟨hb, hn0, hn1, rfl⟩ := applyOneR_ok h1
      have hlen : (Ints.toBytes e r.size (newVal e b r).toNat).length = r.size := Ints.toBytes_length ..
      have hpl : (patch b r.off (Ints.toBytes e r.size (newVal e b r).toNat)).length = b.length :=
        patch_length (by rw [hlen]; exact hb)
      obtain ⟨ih1, ih2, ih3⟩ := ih _ b' hsep.2.2 h
      refine ⟨by rw [ih1, hpl], ?_, ?_⟩
      · intro o n hd
        have hd' : Disjoint rs o n := by
          rcases hd with hd | hd
          · exact Or.inl hd
          · exact Or.inr (fun r' hr' => hd r' (List.mem_cons_of_mem _ hr'))
        rw [ih2 o n hd']
        apply ext_patch_disjoint (by rw [hlen]; exact hb)
        rcases hd with hd | hd
        · exact Or.inl hd
        · rw [hlen]; exact Or.inr (hd r (List.mem_cons_self ..))
      · intro r' hr'
        rcases List.mem_cons.mp hr' with rfl | hr'
        · refine ⟨hb, hn0, hn1, ?_⟩
          have hd : Disjoint rs r'.off r'.size := Or.inr (fun q hq => by
            have := hsep.2.1 q hq
            omega)
          rw [ih2 _ _ hd]
          have := ext_patch_self (b := b) (p := r'.off) (x := Ints.toBytes e r'.size (newVal e b r').toNat)
            (by rw [hlen]; exact hb)
          rw [hlen] at this
          exact this
        · obtain ⟨q1, q2, q3, q4⟩ := ih3 r' hr'
          have hdis := hsep.2.1 r' hr'
          have hsame : ext (patch b r.off (Ints.toBytes e r.size (newVal e b r).toNat)) r'.off r'.size
              = ext b r'.off r'.size :=
            ext_patch_disjoint (by rw [hlen]; exact hb) (by rw [hlen]; omega)
          have hnv : newVal e (patch b r.off (Ints.toBytes e r.size (newVal e b r).toNat)) r' = newVal e b r' := by
            rw [newVal, hsame]; rfl
          rw [hnv] at q2 q3 q4
          rw [hpl] at q1
          exact ⟨q1, q2, q3, q4⟩
    | err x => rw [h1] at h; cases h
    | panic w => rw [h1] at h; cases h
    | diverge => rw [h1] at h; cases h



/-! ## closed forms of the shared-buffer reader's methods -/

/-- advance a window by `n` -/
def adv (c : Cur) (n : Nat) : Cur := { c with off := c.off + n, len := c.len - n }

/-- the same window over other section bytes -/
def resec (x : Bytes) (c : Cur) : Cur := { c with sec := x }

theorem shared_readSlice (n : Nat) (c : Cur) :
    sharedImpl.readSlice n c =
      if c.len < n then (.err .rUnexpectedEof, c) else (.ok (ext c.sec c.off n), adv c n) := by
  show Shared.readSlice n c = _
  rw [Shared.readSlice_eq]
  unfold Slice.readSlice Slice.readSliceRaw M.bind M.pure
  by_cases h : c.len < n <;> simp [h, Cur.bytes, ext, adv]

theorem shared_readFixed (e : Endian) (n : Nat) (c : Cur) :
    Dflt.readFixed sharedCore e n c =
      if c.len < n then (.err .rUnexpectedEof, c)
      else (.ok (Ints.fromBytes e (ext c.sec c.off n)), adv c n) := by
  unfold Dflt.readFixed M.bind M.pure
  have := shared_readSlice n c
  change sharedCore.readSlice n c = _ at this
  rw [this]
  by_cases h : c.len < n <;> simp [h]

/-- the common shape of `read_address`, `read_offset`, `read_sized_offset` on a plain reader:
refuse the size, or run out of input, or decode `n` bytes and advance -/
def fixedRead (e : Endian) (n : Nat) (okSize : Bool) (errSize : Err) : M Cur Nat := fun c =>
  if okSize = false then (.err errSize, c)
  else if c.len < n then (.err .rUnexpectedEof, c)
  else (.ok (Ints.fromBytes e (ext c.sec c.off n)), adv c n)

theorem fromBytes_ext_lt (e : Endian) (b : Bytes) (o n : Nat) (hn : n ≤ 8) :
    Ints.fromBytes e (ext b o n) < 2 ^ 64 := by
  have h1 := Ints.fromBytes_lt e (ext b o n)
  have h2 : (ext b o n).length ≤ 8 := by simp [ext]; omega
  have h3 : 256 ^ (ext b o n).length ≤ 256 ^ 8 := Nat.pow_le_pow_right (by omega) h2
  have h4 : (256 : Nat) ^ 8 = 2 ^ 64 := by decide
  omega

theorem shared_readAddress (m : Mode) (e : Endian) (n : Nat) :
    sharedImpl.readAddress m e n =
      fixedRead e n (decide (n = 1 ∨ n = 2 ∨ n = 4 ∨ n = 8)) .rUnsupportedAddressSize := by
  funext c
  show Dflt.readAddress sharedCore e n c = _
  unfold Dflt.readAddress fixedRead
  by_cases h : n = 1 ∨ n = 2 ∨ n = 4 ∨ n = 8
  · simp only [h, if_true, decide_true, Bool.true_eq_false, if_false]
    exact shared_readFixed e n c
  · simp [h, M.fail]

theorem shared_readSizedOffset (m : Mode) (e : Endian) (n : Nat) :
    sharedImpl.readSizedOffset m e n =
      fixedRead e n (decide (n = 1 ∨ n = 2 ∨ n = 4 ∨ n = 8)) .rUnsupportedOffsetSize := by
  funext c
  show Dflt.readSizedOffset sharedCore e n c = _
  unfold Dflt.readSizedOffset fixedRead
  by_cases h : n = 1 ∨ n = 2 ∨ n = 4 ∨ n = 8
  · simp only [h, if_true, decide_true, Bool.true_eq_false, if_false]
    unfold M.bind M.liftOut
    rw [shared_readFixed]
    by_cases hl : c.len < n
    · simp [hl]
    · have hn : n ≤ 8 := by omega
      simp [hl, Ints.offsetFromU64, fromBytes_ext_lt e c.sec c.off n hn]
  · simp [h, M.fail]

theorem shared_readOffset (m : Mode) (e : Endian) (f : Format) :
    sharedImpl.readOffset m e f = fixedRead e f.wordSize true .other := by
  funext c
  show Dflt.readWord sharedCore e f c = _
  unfold Dflt.readWord fixedRead
  cases f with
  | dwarf32 =>
    simp only [Format.wordSize, Bool.true_eq_false, if_false]
    exact shared_readFixed e 4 c
  | dwarf64 =>
    simp only [Format.wordSize, Bool.true_eq_false, if_false]
    unfold M.bind M.liftOut
    rw [shared_readFixed]
    by_cases hl : c.len < 8
    · simp [hl]
    · simp [hl, Ints.offsetFromU64, fromBytes_ext_lt e c.sec c.off 8 (by omega)]



/-! ## the relocation function of a relocation set -/

def relFun (ρ : List RRel) (o v : Nat) : Out Nat :=
  match ρ.find? (fun r => r.off = o) with
  | some r => .ok (addWrap v r.addend)
  | none => .ok v

theorem relOf_addr (ρ : List RRel) : (relOf ρ).addr = relFun ρ := rfl
theorem relOf_offs (ρ : List RRel) : (relOf ρ).offs = relFun ρ := rfl

theorem Separated.pos {ρ : List RRel} (h : Separated ρ) : ∀ r ∈ ρ, 0 < r.size := by
  induction ρ with
  | nil => intro r hr; cases hr
  | cons q qs ih =>
    intro r hr
    rcases List.mem_cons.mp hr with rfl | hr
    · exact h.1
    · exact ih h.2.2 r hr

theorem Separated.unique {ρ : List RRel} (h : Separated ρ) : ∀ r1 ∈ ρ, ∀ r2 ∈ ρ,
    r1.off = r2.off → r1 = r2 := by
  induction ρ with
  | nil => intro r1 h1; cases h1
  | cons q qs ih =>
    intro r1 h1 r2 h2 ho
    rcases List.mem_cons.mp h1 with e1 | h1 <;> rcases List.mem_cons.mp h2 with e2 | h2
    · rw [e1, e2]
    · have := h.2.1 r2 h2
      have p1 := h.1
      have p2 := h.2.2.pos r2 h2
      rw [e1] at ho
      omega
    · have := h.2.1 r1 h1
      have p1 := h.1
      have p2 := h.2.2.pos r1 h1
      rw [e2] at ho
      omega
    · exact ih h.2.2 r1 h1 r2 h2 ho

theorem relFun_hit {ρ : List RRel} (h : Separated ρ) {r : RRel} (hr : r ∈ ρ) (v : Nat) :
    relFun ρ r.off v = .ok (addWrap v r.addend) := by
  unfold relFun
  cases hf : ρ.find? (fun q => q.off = r.off) with
  | none =>
    have := List.find?_eq_none.mp hf r hr
    simp at this
  | some q =>
    have hq := List.mem_of_find?_eq_some hf
    have hqo : q.off = r.off := by simpa using List.find?_some hf
    rw [h.unique q hq r hr hqo]

theorem relFun_miss {ρ : List RRel} (h : Separated ρ) {o n : Nat} (hn : 0 < n)
    (hd : Disjoint ρ o n) (v : Nat) : relFun ρ o v = .ok v := by
  unfold relFun
  cases hf : ρ.find? (fun q => q.off = o) with
  | none => rfl
  | some q =>
    have hq := List.mem_of_find?_eq_some hf
    have hqo : q.off = o := by simpa using List.find?_some hf
    have hp := h.pos q hq
    rcases hd with hd | hd
    · omega
    · have := hd q hq; omega

/-! ## the relation between the two runs -/

/-- the global facts about the section `b`, the relocation set `ρ` and the applied section `b'` -/
structure Facts (e : Endian) (ρ : List RRel) (b b' : Bytes) : Prop where
  sep : Separated ρ
  len : b'.length = b.length
  same : ∀ o n, Disjoint ρ o n → ext b' o n = ext b o n
  hit : ∀ r ∈ ρ, r.off + r.size ≤ b.length ∧ 0 ≤ newVal e b r ∧ newVal e b r < 2 ^ (8 * r.size) ∧
    ext b' r.off r.size = Ints.toBytes e r.size (newVal e b r).toNat

theorem Facts.of_apply {e : Endian} {ρ : List RRel} {b b' : Bytes} (hs : Separated ρ)
    (ha : applyR e ρ b = .ok b') : Facts e ρ b b' := by
  obtain ⟨h1, h2, h3⟩ := applyR_spec ρ b b' hs ha
  exact ⟨hs, h1, h2, h3⟩

/-- a `RelocateReader` over `b` and the plain reader over `b'` have the same window -/
def RR (b b' : Bytes) (s : RCur Cur) (t : Cur) : Prop :=
  t = resec b' s.rdr ∧ s.rdr.sec = b ∧ s.sect = Cur.ofSec b ∧ s.rdr.off + s.rdr.len ≤ b.length

theorem RR.view {b b' : Bytes} {rel : Rel} {s : RCur Cur} {t : Cur} (h : RR b b' s t) :
    ((relocImpl sharedImpl rel).view s).toView = (sharedImpl.view t).toView := by
  obtain ⟨rfl, _, _, _⟩ := h
  rfl

theorem hitOrMiss_iff (ρ : List RRel) (o n : Nat) :
    hitOrMiss ρ o n = true ↔ (∃ r ∈ ρ, r.off = o ∧ r.size = n) ∨ Disjoint ρ o n := by
  simp [hitOrMiss, disjoint_iff, List.any_eq_true]

variable {e : Endian} {ρ : List RRel} {b b' : Bytes}

/-- closed form of a relocated read of a `RelocateReader` over the shared-buffer reader whose
window lies inside the section -/
theorem relocated_closed (m : Mode) (rd : M Cur Nat) (g : Nat → Nat → Out Nat) (s : RCur Cur)
    (hsect : s.sect = Cur.ofSec b) (hinv : s.rdr.off + s.rdr.len ≤ b.length) :
    Reloc.relocated sharedImpl m rd g s =
      (match rd s.rdr with
       | (.ok v, r') => (g s.rdr.off v, { s with rdr := r' })
       | (.err x, r') => (.err x, { s with rdr := r' })
       | (.panic w, r') => (.panic w, { s with rdr := r' })
       | (.diverge, r') => (.diverge, { s with rdr := r' })) := by
  have hoff : sharedImpl.offsetFrom m s.rdr s.sect = .ok s.rdr.off := by
    rw [hsect]
    have := ptrOffsetFrom_within m (s := Cur.ofSec b) (r := s.rdr) (by simp [Cur.ofSec])
      (by simpa [Cur.ofSec] using hinv)
    show ptrOffsetFrom m s.rdr (Cur.ofSec b) = _
    simpa [Cur.ofSec] using this
  unfold Reloc.relocated
  rw [hoff]
  unfold M.bind M.liftOut Reloc.onReader
  rcases rd s.rdr with ⟨o, r'⟩
  cases o <;> rfl

/-- **the relocatable reads**: relocating what was read from `b` gives what is read from `b'` -/
theorem relocated_fixed (hf : Facts e ρ b b') (m : Mode) (n : Nat) (okS : Bool) (errS : Err)
    (s : RCur Cur) (t : Cur) (hr : RR b b' s t)
    (hok : okS = true → ¬ s.rdr.len < n → 0 < n ∧ n ≤ 8 ∧ hitOrMiss ρ s.rdr.off n = true) :
    (Reloc.relocated sharedImpl m (fixedRead e n okS errS) (relFun ρ) s).1 =
        (fixedRead e n okS errS t).1 ∧
      RR b b' (Reloc.relocated sharedImpl m (fixedRead e n okS errS) (relFun ρ) s).2
        (fixedRead e n okS errS t).2 := by
  obtain ⟨rfl, hsec, hsect, hinv⟩ := hr
  rw [relocated_closed m _ _ s hsect hinv]
  by_cases h1 : okS = false
  · have e1 : fixedRead e n okS errS s.rdr = (.err errS, s.rdr) := by simp [fixedRead, h1]
    have e2 : fixedRead e n okS errS (resec b' s.rdr) = (.err errS, resec b' s.rdr) := by
      simp [fixedRead, h1]
    rw [e1, e2]
    exact ⟨rfl, rfl, hsec, hsect, hinv⟩
  · by_cases h2 : s.rdr.len < n
    · have e1 : fixedRead e n okS errS s.rdr = (.err .rUnexpectedEof, s.rdr) := by
        simp [fixedRead, h1, h2]
      have e2 : fixedRead e n okS errS (resec b' s.rdr) = (.err .rUnexpectedEof, resec b' s.rdr) := by
        simp [fixedRead, h1, resec, h2]
      rw [e1, e2]
      exact ⟨rfl, rfl, hsec, hsect, hinv⟩
    · have e1 : fixedRead e n okS errS s.rdr =
          (.ok (Ints.fromBytes e (ext b s.rdr.off n)), adv s.rdr n) := by
        simp [fixedRead, h1, h2, hsec]
      have e2 : fixedRead e n okS errS (resec b' s.rdr) =
          (.ok (Ints.fromBytes e (ext b' s.rdr.off n)), resec b' (adv s.rdr n)) := by
        simp [fixedRead, h1, resec, h2, adv]
      rw [e1, e2]
      obtain ⟨hn0, hn8, hhm⟩ := hok (by simpa using h1) h2
      refine ⟨?_, rfl, by simp [adv, hsec], hsect, by simp only [adv]; omega⟩
      show relFun ρ s.rdr.off (Ints.fromBytes e (ext b s.rdr.off n)) = .ok (Ints.fromBytes e (ext b' s.rdr.off n))
      rcases (hitOrMiss_iff ρ s.rdr.off n).mp hhm with ⟨r, hrm, hro, hrs⟩ | hd
      · -- the read hits the relocated field `r`
        obtain ⟨_, q0, q1, q2⟩ := hf.hit r hrm
        rw [← hro, ← hrs, relFun_hit hf.sep hrm, q2, Ints.fromBytes_toBytes]
        rw [← hrs] at hn8
        congr 1
        have hnv : newVal e b r = (Ints.fromBytes e (ext b r.off r.size) : Int) + r.addend := rfl
        have hN : (2 : Nat) ^ (8 * r.size) ≤ 2 ^ 64 := Nat.pow_le_pow_right (by omega) (by omega)
        have hc : ((2 ^ (8 * r.size) : Nat) : Int) = (2 : Int) ^ (8 * r.size) := by simp
        have hp : (2 : Int) ^ (8 * r.size) ≤ 2 ^ 64 := by omega
        have hmod : (256 : Nat) ^ r.size = 2 ^ (8 * r.size) := Ints.pow256 r.size
        unfold addWrap
        rw [← hnv]
        have h64 : newVal e b r % 2 ^ 64 = newVal e b r := Int.emod_eq_of_lt q0 (by omega)
        rw [h64]
        have hlt : (newVal e b r).toNat < 2 ^ (8 * r.size) := by
          have : ((newVal e b r).toNat : Int) = newVal e b r := Int.toNat_of_nonneg q0
          have h3 : ((2 ^ (8 * r.size) : Nat) : Int) = (2 : Int) ^ (8 * r.size) := by simp
          omega
        rw [hmod, Nat.mod_eq_of_lt hlt]
      · rw [relFun_miss hf.sep hn0 hd, hf.same _ _ hd]

end Gimli.Rr
