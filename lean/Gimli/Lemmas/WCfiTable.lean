import Gimli.Lemmas.WCfi
/-!
Helper lemmas for C14 about whole entries and the table: what `write_nop` achieves, the shape of
a written CIE / FDE, `add_cie` as insertion into a duplicate-free vector, and the invariant of the
loop of `FrameTable::write` (each referenced CIE emitted once, right before the first FDE that
uses it, entries back to back).
-/
open Gimli Gimli.WCfi Gimli.Spec.WCfi

namespace Gimli.WCfi

/-! ## padding -/

theorem nopCount_pow (m : Mode) (len k n : Nat) (hk : k ≤ 3) (hlen : 0 < len ∧ len < 2 ^ 64)
    (h : nopCount m len (2 ^ k) = .ok n) : (len + n) % 2 ^ k = 0 ∧ n < 2 ^ k := by
  unfold nopCount at h
  have hk' : k = 0 ∨ k = 1 ∨ k = 2 ∨ k = 3 := by omega
  have hand : 2 ^ k &&& (2 ^ k - 1) = 0 := by
    rcases hk' with rfl | rfl | rfl | rfl <;> decide
  have hpos : 2 ^ k ≠ 0 := by
    rcases hk' with rfl | rfl | rfl | rfl <;> decide
  rw [if_neg hpos, if_neg (fun hh => hh.2 hand), Nat.and_two_pow_sub_one_eq_mod] at h
  have hn : (2 ^ 64 - len) % 2 ^ 64 % 2 ^ k = n := by injection h
  subst hn
  rcases hk' with rfl | rfl | rfl | rfl <;> simp only [Nat.reducePow] <;> omega

theorem nopCount_aligned (m : Mode) (len align n : Nat) (hlen : 0 < len ∧ len < 2 ^ 64)
    (ha : align = 1 ∨ align = 2 ∨ align = 4 ∨ align = 8) (h : nopCount m len align = .ok n) :
    (len + n) % align = 0 ∧ n < align := by
  rcases ha with rfl | rfl | rfl | rfl
  · exact nopCount_pow m len 0 n (by omega) hlen h
  · exact nopCount_pow m len 1 n (by omega) hlen h
  · exact nopCount_pow m len 2 n (by omega) hlen h
  · exact nopCount_pow m len 3 n (by omega) hlen h

theorem writeUdata_length (e : Endian) (v size : Nat) (bs : Bytes) (h : Ints.writeUdata e v size = .ok bs) :
    bs.length = size := by
  unfold Ints.writeUdata at h
  split at h
  · split at h
    · cases h
    · cases h; exact Ints.toBytes_length _ _ _
  · split at h
    · cases h; rename_i h8; rw [h8]; exact Ints.toBytes_length _ _ _
    · cases h

theorem writeInitialLength_length (e : Endian) (f : Format) (len : Nat) (lf : Bytes)
    (h : Ints.writeInitialLength e f len = .ok lf) : lf.length = lenFieldSize f := by
  unfold Ints.writeInitialLength at h
  cases f with
  | dwarf32 =>
    simp only at h
    split at h
    · cases h
    · exact writeUdata_length _ _ _ _ h
  | dwarf64 =>
    simp only at h
    obtain ⟨a, ha, hb⟩ := bind_ok_inv h
    have := writeUdata_length _ _ _ _ ha
    cases hb
    simp [Ints.toBytes_length, lenFieldSize, this]

/-- shape of a written entry: length field, then a body whose size the length field states, ending
in the nops that `write_nop` computed for it -/
structure EntryShape (m : Mode) (e : Endian) (f : Format) (asz : Nat) (bs : Bytes) : Prop where
  split : ∃ lf body n, bs = lf ++ body ++ List.replicate n 0 ∧
    Ints.writeInitialLength e f (body.length + n) = .ok lf ∧
    nopCount m (lenFieldSize f + body.length) asz = .ok n

theorem cieWrite_shape (m : Mode) (e : Endian) (eh : Bool) (c : WCie) (off : Nat) (bs : Bytes)
    (h : cieWrite m e eh c off = .ok bs) : EntryShape m e c.format c.addressSize bs := by
  unfold cieWrite at h
  split at h
  · cases h
  · obtain ⟨ra, _, h⟩ := bind_ok_inv h
    obtain ⟨aug, _, h⟩ := bind_ok_inv h
    obtain ⟨ins, _, h⟩ := bind_ok_inv h
    obtain ⟨n, hn, h⟩ := bind_ok_inv h
    obtain ⟨lf, hlf, h⟩ := bind_ok_inv h
    cases h
    exact ⟨_, _, _, rfl, hlf, hn⟩

theorem fdeWrite_shape (m : Mode) (e : Endian) (eh : Bool) (off cieOff : Nat) (c : WCie) (f : WFde) (bs : Bytes)
    (h : fdeWrite m e eh off cieOff c f = .ok bs) : EntryShape m e c.format c.addressSize bs := by
  unfold fdeWrite at h
  obtain ⟨ptr, _, h⟩ := bind_ok_inv h
  obtain ⟨addrs, _, h⟩ := bind_ok_inv h
  obtain ⟨aug, _, h⟩ := bind_ok_inv h
  obtain ⟨ins, _, h⟩ := bind_ok_inv h
  obtain ⟨n, hn, h⟩ := bind_ok_inv h
  obtain ⟨lf, hlf, h⟩ := bind_ok_inv h
  cases h
  exact ⟨_, _, _, rfl, hlf, hn⟩

/-- what the padding achieves: the whole entry — length field plus `length` — is a multiple of
the address size -/
theorem shape_aligned {m : Mode} {e : Endian} {f : Format} {asz : Nat} {bs : Bytes}
    (hs : EntryShape m e f asz bs) (ha : asz = 1 ∨ asz = 2 ∨ asz = 4 ∨ asz = 8) (hlen : bs.length < 2 ^ 64) :
    bs.length % asz = 0 ∧ lenFieldSize f ≤ bs.length := by
  obtain ⟨lf, body, n, rfl, hlf, hn⟩ := hs.split
  have hl := writeInitialLength_length _ _ _ _ hlf
  simp only [List.length_append, List.length_replicate] at hlen ⊢
  have hw : 0 < lenFieldSize f := by cases f <;> simp [lenFieldSize]
  rw [hl] at hlen ⊢
  exact ⟨(nopCount_aligned m (lenFieldSize f + body.length) asz n ⟨by omega, by omega⟩ ha hn).1, by omega⟩

/-! ## `add_cie` -/

theorem indexOf_some {c : WCie} {l : List WCie} {i : Nat} (h : indexOf c l = some i) :
    l[i]? = some c ∧ ∀ j, j < i → l[j]? ≠ some c := by
  induction l generalizing i with
  | nil => simp [indexOf] at h
  | cons x xs ih =>
    rw [indexOf] at h
    by_cases hx : x = c
    · rw [if_pos hx] at h
      cases h
      exact ⟨by simp [hx], fun j hj => by omega⟩
    · rw [if_neg hx] at h
      cases hi : indexOf c xs with
      | none => rw [hi] at h; cases h
      | some k =>
        rw [hi] at h
        simp only [Option.map_some, Option.some.injEq] at h
        subst h
        obtain ⟨h1, h2⟩ := ih hi
        refine ⟨by simpa using h1, ?_⟩
        intro j hj
        cases j with
        | zero => simp [hx]
        | succ j => simpa using h2 j (by omega)

theorem indexOf_none {c : WCie} {l : List WCie} (h : indexOf c l = none) : c ∉ l := by
  induction l with
  | nil => simp
  | cons x xs ih =>
    rw [indexOf] at h
    by_cases hx : x = c
    · rw [if_pos hx] at h; cases h
    · rw [if_neg hx] at h
      cases hi : indexOf c xs with
      | none =>
        have := ih hi
        simp only [List.mem_cons, not_or]
        exact ⟨fun h' => hx h'.symm, this⟩
      | some k => rw [hi] at h; cases h

theorem indexOf_mem {c : WCie} {l : List WCie} (h : c ∈ l) : ∃ i, indexOf c l = some i := by
  cases hi : indexOf c l with
  | none => exact absurd h (indexOf_none hi)
  | some i => exact ⟨i, rfl⟩

/-- the id returned designates the CIE that was added -/
theorem addCie_get (t : Table) (c : WCie) : (t.addCie c).1.cies[(t.addCie c).2]? = some c := by
  unfold Table.addCie
  cases hi : indexOf c t.cies with
  | some i => exact (indexOf_some hi).1
  | none => simp

/-- ids handed out earlier keep designating the same CIE -/
theorem addCie_stable (t : Table) (c x : WCie) (i : Nat) (h : t.cies[i]? = some x) :
    (t.addCie c).1.cies[i]? = some x := by
  unfold Table.addCie
  cases hi : indexOf c t.cies with
  | some k => exact h
  | none =>
    simp only
    have hlt : i < t.cies.length := by
      rcases Nat.lt_or_ge i t.cies.length with hl | hl
      · exact hl
      · rw [List.getElem?_eq_none hl] at h; cases h
    rw [List.getElem?_append_left hlt]
    exact h

theorem addCie_nodup (t : Table) (c : WCie) (h : t.cies.Nodup) : (t.addCie c).1.cies.Nodup := by
  unfold Table.addCie
  cases hi : indexOf c t.cies with
  | some k => exact h
  | none =>
    simp only
    rw [List.nodup_append]
    refine ⟨h, by simp, ?_⟩
    intro a ha b hb
    simp only [List.mem_singleton] at hb
    subst hb
    intro hab
    subst hab
    exact indexOf_none hi ha

/-- in a duplicate-free table, two positions hold the same CIE only if they are the same position -/
theorem nodup_getElem?_inj {l : List WCie} (h : l.Nodup) {i j : Nat} {c : WCie}
    (hi : l[i]? = some c) (hj : l[j]? = some c) : i = j := by
  induction l generalizing i j with
  | nil => simp at hi
  | cons x xs ih =>
    rw [List.nodup_cons] at h
    cases i with
    | zero =>
      cases j with
      | zero => rfl
      | succ j =>
        simp only [List.getElem?_cons_zero, Option.some.injEq] at hi
        simp only [List.getElem?_cons_succ] at hj
        subst hi
        exact absurd (List.mem_of_getElem? hj) h.1
    | succ i =>
      cases j with
      | zero =>
        simp only [List.getElem?_cons_zero, Option.some.injEq] at hj
        simp only [List.getElem?_cons_succ] at hi
        subst hj
        exact absurd (List.mem_of_getElem? hi) h.1
      | succ j =>
        simp only [List.getElem?_cons_succ] at hi hj
        rw [ih h.2 hi hj]

theorem indexOf_append_new {c : WCie} {l : List WCie} (h : c ∉ l) : indexOf c (l ++ [c]) = some l.length := by
  induction l with
  | nil => simp [indexOf]
  | cons x xs ih =>
    simp only [List.mem_cons, not_or] at h
    rw [List.cons_append, indexOf, if_neg (fun hx => h.1 hx.symm), ih h.2]
    simp

/-- adding a CIE a second time changes nothing and returns the same id -/
theorem addCie_idem (t : Table) (c : WCie) :
    (t.addCie c).1.addCie c = ((t.addCie c).1, (t.addCie c).2) := by
  unfold Table.addCie
  cases hi : indexOf c t.cies with
  | some i => simp only [hi]
  | none =>
    simp only [indexOf_append_new (indexOf_none hi)]

/-- two consecutive `add_cie` calls return the same id exactly when the CIEs are equal -/
theorem addCie_eq_iff (t : Table) (a b : WCie) :
    (t.addCie a).2 = ((t.addCie a).1.addCie b).2 ↔ a = b := by
  constructor
  · intro h
    have h1 := addCie_stable (t.addCie a).1 b a _ (addCie_get t a)
    have h2 := addCie_get (t.addCie a).1 b
    rw [h, h2] at h1
    injection h1 with h1
    exact h1.symm
  · rintro rfl
    rw [addCie_idem]

/-- any sequence of `add_cie` calls on a duplicate-free table: the table stays duplicate-free, every
returned id designates the CIE of its call in the final table -/
theorem addCies_spec (cs : List WCie) : ∀ (t : Table), t.cies.Nodup →
    (t.addCies cs).1.cies.Nodup ∧ (t.addCies cs).2.length = cs.length ∧
    (∀ (i : Nat) (x : WCie), t.cies[i]? = some x → (t.addCies cs).1.cies[i]? = some x) ∧
    ∀ (k : Nat) (hk : k < cs.length), ∃ id : Nat, (t.addCies cs).2[k]? = some id ∧ (t.addCies cs).1.cies[id]? = some cs[k] := by
  induction cs with
  | nil => intro t h; exact ⟨h, rfl, fun _ _ h => h, fun k hk => absurd hk (by simp)⟩
  | cons c cs ih =>
    intro t h
    obtain ⟨h1, h2, h3, h4⟩ := ih (t.addCie c).1 (addCie_nodup t c h)
    simp only [Table.addCies]
    refine ⟨h1, by simp [h2], fun i x hx => h3 i x (addCie_stable t c x i hx), ?_⟩
    intro k hk
    cases k with
    | zero => exact ⟨(t.addCie c).2, by simp, h3 _ _ (addCie_get t c)⟩
    | succ k =>
      obtain ⟨id, hid, hget⟩ := h4 k (by simpa using hk)
      exact ⟨id, by simpa using hid, by simpa using hget⟩


/-! ## the loop of `FrameTable::write` -/

theorem getD_set_self (offs : List (Option Nat)) (ci : Nat) (v : Option Nat) (h : ci < offs.length) :
    (offs.set ci v).getD ci none = v := by
  simp [List.getD_eq_getElem?_getD, h]

theorem getD_set_ne (offs : List (Option Nat)) (ci i : Nat) (v : Option Nat) (h : i ≠ ci) :
    (offs.set ci v).getD i none = offs.getD i none := by
  simp [List.getD_eq_getElem?_getD, Ne.symm h]

theorem writeLoop_inv (m : Mode) (e : Endian) (eh : Bool) (cies : List WCie) :
    ∀ (fdes : List (Nat × WFde)) (offs : List (Option Nat)) (pos : Nat) (es : List Entry),
      offs.length = cies.length → writeLoop m e eh cies fdes offs pos = .ok es →
      (cieIdxs es).Nodup ∧
      (∀ i, i ∈ cieIdxs es ↔ (offs.getD i none = none ∧ ∃ f, (i, f) ∈ fdes)) ∧
      CieThenFde es ∧ Contiguous pos es := by
  intro fdes
  induction fdes with
  | nil =>
    intro offs pos es _ h
    rw [writeLoop] at h
    cases h
    simp [cieIdxs, CieThenFde, Contiguous]
  | cons kf rest ih =>
    obtain ⟨ci, f⟩ := kf
    intro offs pos es hlen h
    rw [writeLoop] at h
    cases hc : cies[ci]? with
    | none => rw [hc] at h; cases h
    | some c =>
      rw [hc] at h
      simp only at h
      have hci : ci < offs.length := by
        rw [hlen]
        rcases Nat.lt_or_ge ci cies.length with hl | hl
        · exact hl
        · rw [List.getElem?_eq_none hl] at hc; cases hc
      cases ho : offs.getD ci none with
      | some o =>
        rw [ho] at h
        simp only at h
        obtain ⟨fb, _, h⟩ := bind_ok_inv h
        obtain ⟨es', hes, h⟩ := bind_ok_inv h
        cases h
        obtain ⟨h1, h2, h3, h4⟩ := ih offs _ es' hlen hes
        refine ⟨h1, ?_, h3, ⟨rfl, h4⟩⟩
        intro i
        simp only [cieIdxs]
        rw [h2 i]
        constructor
        · rintro ⟨hn, f', hf'⟩
          exact ⟨hn, f', List.mem_cons_of_mem _ hf'⟩
        · rintro ⟨hn, f', hf'⟩
          refine ⟨hn, f', ?_⟩
          rcases List.mem_cons.mp hf' with heq | hmem
          · have : i = ci := by injection heq
            subst this
            rw [ho] at hn; cases hn
          · exact hmem
      | none =>
        rw [ho] at h
        simp only at h
        obtain ⟨cb, _, h⟩ := bind_ok_inv h
        obtain ⟨fb, _, h⟩ := bind_ok_inv h
        obtain ⟨es', hes, h⟩ := bind_ok_inv h
        cases h
        obtain ⟨h1, h2, h3, h4⟩ := ih (offs.set ci (some pos)) _ es' (by simpa using hlen) hes
        have hnot : ci ∉ cieIdxs es' := by
          intro hm
          have := ((h2 ci).mp hm).1
          rw [getD_set_self offs ci _ hci] at this
          cases this
        refine ⟨?_, ?_, ⟨rfl, rfl, h3⟩, ⟨rfl, rfl, h4⟩⟩
        · simp only [cieIdxs]
          exact List.nodup_cons.mpr ⟨hnot, h1⟩
        · intro i
          simp only [cieIdxs, List.mem_cons]
          by_cases hi : i = ci
          · subst hi
            constructor
            · intro _; exact ⟨ho, f, Or.inl rfl⟩
            · intro _; exact Or.inl rfl
          · rw [h2 i, getD_set_ne offs ci i _ hi]
            constructor
            · rintro (h' | ⟨hn, f', hf'⟩)
              · exact absurd h' hi
              · exact ⟨hn, f', Or.inr hf'⟩
            · rintro ⟨hn, f', hf'⟩
              refine Or.inr ⟨hn, f', ?_⟩
              rcases hf' with heq | hmem
              · have : i = ci := by injection heq
                exact absurd this hi
              · exact hmem


theorem FdesBound.mono {m : Mode} {e : Endian} {eh : Bool} {cies : List WCie}
    {offs offs' : List (Option Nat)} {all all' : List Entry}
    (hall : ∀ x, x ∈ all → x ∈ all')
    (hoffs : ∀ ci cieOff, offs.getD ci none = some cieOff →
      offs'.getD ci none = some cieOff ∨ ∃ c cb, cies[ci]? = some c ∧ Entry.cie ci cieOff cb ∈ all' ∧
        cieWrite m e eh c cieOff = .ok cb) :
    ∀ es, FdesBound m e eh cies offs all es → FdesBound m e eh cies offs' all' es := by
  intro es
  induction es with
  | nil => intro _; trivial
  | cons x es ih =>
    intro h
    cases x with
    | cie i o b => exact ih h
    | fde ci off fb =>
      obtain ⟨⟨c, f, cieOff, hc, hw, hle, hor⟩, hrest⟩ := h
      refine ⟨⟨c, f, cieOff, hc, hw, hle, ?_⟩, ih hrest⟩
      rcases hor with h1 | ⟨cb, hmem, hcw⟩
      · rcases hoffs ci cieOff h1 with h2 | ⟨c', cb, hc', hmem, hcw⟩
        · exact Or.inl h2
        · rw [hc] at hc'; cases hc'
          exact Or.inr ⟨cb, hmem, hcw⟩
      · exact Or.inr ⟨cb, hall _ hmem, hcw⟩

theorem writeLoop_bound (m : Mode) (e : Endian) (eh : Bool) (cies : List WCie) :
    ∀ (fdes : List (Nat × WFde)) (offs : List (Option Nat)) (pos : Nat) (es : List Entry),
      offs.length = cies.length → (∀ i o, offs.getD i none = some o → o ≤ pos) →
      writeLoop m e eh cies fdes offs pos = .ok es → FdesBound m e eh cies offs es es := by
  intro fdes
  induction fdes with
  | nil =>
    intro offs pos es _ _ h
    rw [writeLoop] at h
    cases h
    trivial
  | cons kf rest ih =>
    obtain ⟨ci, f⟩ := kf
    intro offs pos es hlen hle h
    rw [writeLoop] at h
    cases hc : cies[ci]? with
    | none => rw [hc] at h; cases h
    | some c =>
      rw [hc] at h
      simp only at h
      have hci : ci < offs.length := by
        rw [hlen]
        rcases Nat.lt_or_ge ci cies.length with hl | hl
        · exact hl
        · rw [List.getElem?_eq_none hl] at hc; cases hc
      cases ho : offs.getD ci none with
      | some o =>
        rw [ho] at h
        simp only at h
        obtain ⟨fb, hfb, h⟩ := bind_ok_inv h
        obtain ⟨es', hes, h⟩ := bind_ok_inv h
        cases h
        have ih' := ih offs _ es' hlen (fun i o' h' => Nat.le_trans (hle i o' h') (Nat.le_add_right _ _)) hes
        refine ⟨⟨c, f, o, hc, hfb, hle ci o ho, Or.inl ho⟩, ?_⟩
        exact FdesBound.mono (fun x hx => List.mem_cons_of_mem _ hx) (fun _ _ h' => Or.inl h') es' ih'
      | none =>
        rw [ho] at h
        simp only at h
        obtain ⟨cb, hcb, h⟩ := bind_ok_inv h
        obtain ⟨fb, hfb, h⟩ := bind_ok_inv h
        obtain ⟨es', hes, h⟩ := bind_ok_inv h
        cases h
        have ih' := ih (offs.set ci (some pos)) _ es' (by simpa using hlen) (by
          intro i o' h'
          by_cases hi : i = ci
          · subst hi
            rw [getD_set_self offs i _ hci] at h'
            cases h'
            omega
          · rw [getD_set_ne offs ci i _ hi] at h'
            have := hle i o' h'
            omega) hes
        refine ⟨⟨c, f, pos, hc, hfb, Nat.le_add_right _ _, Or.inr ⟨cb, by simp, hcb⟩⟩, ?_⟩
        refine FdesBound.mono (fun x hx => List.mem_cons_of_mem _ (List.mem_cons_of_mem _ hx)) ?_ es' ih'
        intro i o' h'
        by_cases hi : i = ci
        · subst hi
          rw [getD_set_self offs i _ hci] at h'
          cases h'
          exact Or.inr ⟨c, cb, hc, by simp, hcb⟩
        · rw [getD_set_ne offs ci i _ hi] at h'
          exact Or.inl h'


theorem FdesBound.mem {m : Mode} {e : Endian} {eh : Bool} {cies : List WCie} {offs : List (Option Nat)}
    {all : List Entry} : ∀ es, FdesBound m e eh cies offs all es →
    ∀ ci off fb, Entry.fde ci off fb ∈ es →
      ∃ c f cieOff, cies[ci]? = some c ∧ fdeWrite m e eh off cieOff c f = .ok fb ∧ cieOff ≤ off ∧
        (offs.getD ci none = some cieOff ∨
          ∃ cb, Entry.cie ci cieOff cb ∈ all ∧ cieWrite m e eh c cieOff = .ok cb) := by
  intro es
  induction es with
  | nil => intro _ ci off fb h; cases h
  | cons x es ih =>
    intro h ci off fb hmem
    cases x with
    | cie i o b =>
      rcases List.mem_cons.mp hmem with heq | hm
      · cases heq
      · exact ih h ci off fb hm
    | fde ci' off' fb' =>
      obtain ⟨hx, hrest⟩ := h
      rcases List.mem_cons.mp hmem with heq | hm
      · cases heq; exact hx
      · exact ih hrest ci off fb hm

end Gimli.WCfi
