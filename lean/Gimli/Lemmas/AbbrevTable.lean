import Gimli.Lemmas.Abbrev
import Gimli.Lemmas.LebU16
import Gimli.Lemmas.AttrRoundtrip
import Gimli.Spec.AbbrevTable
/-! Helper lemmas for C02, part 8: parsing the encoding of an abbreviation table
(`Spec.AbbrevTable.encodeTable`) reads back exactly its declarations. -/
set_option linter.unusedSimpArgs false
namespace Gimli.Abbrev
open Gimli Gimli.Attr Gimli.Spec.AbbrevTable

theorem u16_zero (rest : Bytes) : Leb.u16 (0 :: rest) = .ok (0, rest) := by simp [Leb.u16]

theorem parseSpec_null (rest : Bytes) : parseSpec (0 :: 0 :: rest) = .ok (none, rest) := by
  unfold parseSpec
  simp [u16_zero]

theorem parseSpec_rt (s : Spec) (hv : SpecValid s) (rest : Bytes) :
    parseSpec (encodeSpec s ++ rest) = .ok (some s, rest) := by
  obtain ⟨hn0, hn16, hof, hf0, hf16, himp⟩ := hv
  unfold parseSpec encodeSpec
  simp only [List.append_assoc]
  rw [Leb.u16_roundtrip s.name hn16]
  simp only [Out.bind_ok]
  rw [Leb.u16_roundtrip s.form.code hf16]
  simp only [Out.bind_ok, hn0, hf0, false_and, and_false, if_false]
  by_cases hi : s.form = .implicitConst
  · simp only [hi, if_true] at himp ⊢
    have hc : Form.implicitConst.code = 0x21 := rfl
    simp only [hc, if_true]
    rw [Leb.signed_roundtrip _ himp.1 himp.2]
    simp only [Out.bind_ok, Out.pure_eq]
    cases s with
    | mk name form ic => simp only at hi; subst hi; rfl
  · simp only [hi, if_false, List.nil_append] at himp ⊢
    have hne : ¬ s.form.code = 0x21 := by
      intro h21
      apply hi
      rw [← hof, h21]; rfl
    simp only [hne, if_false, Out.pure_eq, hof]
    cases s with
    | mk name form ic => simp only at himp; subst himp; rfl

theorem encodeSpec_length (s : Spec) : 2 ≤ (encodeSpec s).length := by
  unfold encodeSpec
  have h1 : Leb.encodeU s.name ≠ [] := by unfold Leb.encodeU Leb.encodeUFuel; simp only; split <;> simp
  have h2 : Leb.encodeU s.form.code ≠ [] := by unfold Leb.encodeU Leb.encodeUFuel; simp only; split <;> simp
  simp only [List.length_append]
  cases ha : Leb.encodeU s.name with
  | nil => exact absurd ha h1
  | cons b t =>
    cases hb : Leb.encodeU s.form.code with
    | nil => exact absurd hb h2
    | cons c u => simp; omega

theorem parseSpecs_rt : ∀ (ss : List Spec) (fuel : Nat) (rest : Bytes), (∀ s ∈ ss, SpecValid s) → ss.length < fuel →
    parseSpecs fuel (encodeSpecs ss ++ rest) = .ok (ss, rest) := by
  intro ss
  induction ss with
  | nil =>
    intro fuel rest _ hf
    obtain ⟨fuel, rfl⟩ : ∃ k, fuel = k + 1 := ⟨fuel - 1, by simp at hf; omega⟩
    simp only [encodeSpecs, List.cons_append, List.nil_append]
    rw [parseSpecs, parseSpec_null]
    rfl
  | cons s ss ih =>
    intro fuel rest hv hf
    obtain ⟨fuel, rfl⟩ : ∃ k, fuel = k + 1 := ⟨fuel - 1, by simp at hf; omega⟩
    simp only [encodeSpecs, List.append_assoc]
    rw [parseSpecs, parseSpec_rt s (hv s (by simp))]
    simp only [Out.bind_ok]
    rw [ih fuel rest (fun x hx => hv x (by simp [hx])) (by simp at hf; omega)]
    rfl

theorem encodeSpecs_length (ss : List Spec) : ss.length < (encodeSpecs ss).length := by
  induction ss with
  | nil => simp [encodeSpecs]
  | cons s ss ih =>
    have := encodeSpec_length s
    simp only [encodeSpecs, List.length_append, List.length_cons]
    omega

theorem parseAbbreviation_null (rest : Bytes) : parseAbbreviation (0 :: rest) = .ok (none, rest) := by
  unfold parseAbbreviation
  simp [Leb.unsigned]

theorem parseAbbreviation_rt (a : Abbreviation) (hv : DeclValid a) (rest : Bytes) :
    parseAbbreviation (encodeDecl a ++ rest) = .ok (some a, rest) := by
  obtain ⟨hc0, hc64, ht0, ht16, hss⟩ := hv
  unfold parseAbbreviation encodeDecl
  have hne : (Leb.encodeU a.code ++ (Leb.encodeU a.tag ++ ((if a.hasChildren = true then 1 else 0) :: encodeSpecs a.attrs)) ++ rest).isEmpty = false := by
    have h1 : Leb.encodeU a.code ≠ [] := by unfold Leb.encodeU Leb.encodeUFuel; simp only; split <;> simp
    cases h : Leb.encodeU a.code with
    | nil => exact absurd h h1
    | cons b t => rfl
  rw [hne]
  simp only [Bool.false_eq_true, if_false, List.append_assoc, List.cons_append]
  rw [Leb.unsigned_roundtrip a.code hc64]
  simp only [Out.bind_ok, hc0, if_false]
  rw [Leb.u16_roundtrip a.tag ht16]
  simp only [Out.bind_ok, ht0, if_false]
  rw [readFixed_one]
  simp only [Out.bind_ok]
  have hl := encodeSpecs_length a.attrs
  cases hch : a.hasChildren with
  | false =>
    simp only [Bool.false_eq_true, if_false]
    rw [parseSpecs_rt a.attrs _ rest hss (by simp only [List.length_append]; omega)]
    simp only [Out.bind_ok, Out.pure_eq]
    cases a with
    | mk code tag hc attrs => simp only at hch; subst hch; simp
  | true =>
    simp only [if_true]
    rw [parseSpecs_rt a.attrs _ rest hss (by simp only [List.length_append]; omega)]
    simp only [Out.bind_ok, Out.pure_eq]
    cases a with
    | mk code tag hc attrs => simp only at hch; subst hch; simp

theorem parseDecls_rt : ∀ (ds : List Abbreviation) (fuel : Nat) (rest : Bytes), (∀ a ∈ ds, DeclValid a) →
    ds.length < fuel → parseDecls fuel (encodeTable ds ++ rest) = .ok ds := by
  intro ds
  induction ds with
  | nil =>
    intro fuel rest _ hf
    obtain ⟨fuel, rfl⟩ : ∃ k, fuel = k + 1 := ⟨fuel - 1, by simp at hf; omega⟩
    simp only [encodeTable, List.cons_append, List.nil_append]
    rw [parseDecls, parseAbbreviation_null]
    rfl
  | cons a ds ih =>
    intro fuel rest hv hf
    obtain ⟨fuel, rfl⟩ : ∃ k, fuel = k + 1 := ⟨fuel - 1, by simp at hf; omega⟩
    simp only [encodeTable, List.append_assoc]
    rw [parseDecls, parseAbbreviation_rt a (hv a (by simp))]
    simp only [Out.bind_ok]
    rw [ih fuel rest (fun x hx => hv x (by simp [hx])) (by simp at hf; omega)]
    rfl

theorem encodeTable_length (ds : List Abbreviation) : ds.length < (encodeTable ds).length := by
  induction ds with
  | nil => simp [encodeTable]
  | cons a ds ih =>
    have h1 : Leb.encodeU a.code ≠ [] := by unfold Leb.encodeU Leb.encodeUFuel; simp only; split <;> simp
    simp only [encodeTable, encodeDecl, List.length_append, List.length_cons]
    cases h : Leb.encodeU a.code with
    | nil => exact absurd h h1
    | cons b t => simp; omega

end Gimli.Abbrev
