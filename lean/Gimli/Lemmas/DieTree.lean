import Gimli.Lemmas.DieSibling
/-! Helper lemmas for C02, part 6: `EntriesTree::{root,next}` and the recursion over
`EntriesTreeNode::children()` on the encoding of a forest. -/
set_option linter.unusedSimpArgs false
set_option linter.unusedVariables false
namespace Gimli.Die
open Gimli Gimli.Attr Gimli.Abbrev Gimli.Ints Gimli.Spec Gimli.Spec.Forest

/-- how `EntriesTree::next(D)` is entered during a complete recursive traversal: either the
current entry is the parent whose children are about to be listed (one level up, children
flag set), or it is the last entry seen of the previous child's subtree (that child itself if it
has no children flag, else the null entry that ended its child list) — in which case there is
nothing to seek over -/
def TreeMode (t : Tree) (D : Int) : Prop :=
  (t.entry.depth < D ∧ t.entry.hasChildren = true) ∨ (¬ t.entry.depth < D ∧ t.entry.hasChildren = false)

/-- in either mode `next(D)` reads exactly one entry from the input -/
theorem Tree.next_read (ctx : Ctx) (t : Tree) (D : Int) (hm : TreeMode t D)
    (hne : t.raw.input.isEmpty = false) (e : Entry) (r : Raw) (hre : t.raw.readEntry ctx = .ok (e, r))
    (hd : e.depth = D) :
    t.next ctx D = .ok (!e.isNull, Tree.mk t.root r e) := by
  unfold Tree.next
  rcases hm with ⟨h1, h2⟩ | ⟨h1, h2⟩
  · simp [h1, h2, hne, hre]
  · simp only [h1, if_false]
    rw [Tree.nextLoop]
    simp [h2, hne, hre, hd]

theorem readEntry_depth {ctx : Ctx} {r r' : Raw} {e : Entry} (h : r.readEntry ctx = .ok (e, r')) :
    e.depth = r.depth := by
  unfold Raw.readEntry at h
  obtain ⟨⟨ab, r1⟩, _, h2⟩ := bind_ok_inv h
  simp only at h2
  split at h2
  · simp only [Out.pure_eq, Out.ok.injEq, Prod.mk.injEq] at h2; rw [← h2.1]
  · obtain ⟨⟨vs', rest⟩, _, h4⟩ := bind_ok_inv h2
    simp only [Out.pure_eq, Out.ok.injEq, Prod.mk.injEq] at h4; rw [← h4.1]

/-- an entry without the children flag has an empty child iterator, and the tree stays on it -/
theorem treeChildren_leaf (ctx : Ctx) (n : Nat) (tt : Tree) (D : Int) (hd : tt.entry.depth < D)
    (hc : tt.entry.hasChildren = false) : treeChildren ctx (n + 1) tt D = (([], .ok ()), tt) := by
  rw [treeChildren]
  simp [Tree.next, hd, hc]

/-- **the children iterator over a forest**: a complete recursive traversal
(`children()` / `next()` down to the leaves) of the child list `g` reports exactly the entries of
`g` in depth-first order and leaves the tree on the null entry that ends the list -/
theorem treeChildren_forest (ctx : Ctx) : ∀ (g : Forest), ForestOK ctx g → ∀ (off : Nat) (D : Int) (rest : Bytes)
    (t : Tree), t.raw = ⟨encode g ++ 0 :: rest, off + (encode g ++ 0 :: rest).length, D⟩ → TreeMode t D →
    ∀ (fuel : Nat), count g < fuel →
    ∃ es, es.map Entry.item = (listing off D g).filter nonNull ∧
      treeChildren ctx fuel t D =
        ((es, .ok ()), Tree.mk t.root ⟨rest, off + (encode g ++ 0 :: rest).length, D - 1⟩
          ⟨off + (encode g).length, D, 0, false, []⟩) := by
  intro g
  induction g with
  | nil =>
    intro _ off D rest t hraw hm fuel hf
    obtain ⟨fuel, rfl⟩ : ∃ k, fuel = k + 1 := ⟨fuel - 1, by omega⟩
    simp only [encode, List.nil_append] at hraw ⊢
    have hre := readEntry_null ctx rest (off + (0 :: rest).length) D
    rw [← hraw] at hre
    have hnx := Tree.next_read ctx t D hm (by rw [hraw]; rfl) _ _ hre rfl
    rw [treeChildren, hnx]
    refine ⟨[], rfl, ?_⟩
    simp [Entry.isNull]
  | node k kids sibs ihk ihs =>
    intro hok off D rest t hraw hm fuel hf
    obtain ⟨fuel, rfl⟩ : ∃ n, fuel = n + 1 := ⟨fuel - 1, by omega⟩
    obtain ⟨hd, hk, hs⟩ := hok
    have hdtag := hd.2.2.1
    have hcount : count (.node k kids sibs) = 1 + ((if k.children then count kids + 1 else 0) + count sibs) := rfl
    obtain ⟨a, vs, hget, htag, hch, hattrs, hre⟩ := readEntry_node' hd (afterHead k kids sibs (0 :: rest))
      (off + (encode (.node k kids sibs) ++ 0 :: rest).length) D
    rw [← encode_node_append, ← hraw] at hre
    have hoff : off + (encode (.node k kids sibs) ++ 0 :: rest).length
        - (encode (.node k kids sibs) ++ 0 :: rest).length = off := by omega
    rw [hoff] at hre
    have hnx := Tree.next_read ctx t D hm (by rw [hraw]; exact isEmpty_false_of_ne_nil (by
      rw [encode_node_append]; simp [headBytes_ne_nil])) _ _ hre rfl
    have hnn : (entryOf a vs off D).isNull = false := by simp [Entry.isNull, htag, hdtag]
    have hitem : (entryOf a vs off D).item = ⟨off, D, k.tag, k.children⟩ := by
      simp [Entry.item, htag, hch]
    have hlen := congrArg List.length (encode_node_append k kids sibs (0 :: rest))
    simp only [List.length_append, List.length_cons] at hlen
    rw [treeChildren, hnx]
    simp only [hnn, Bool.not_false]
    cases hcd : k.children with
    | false =>
      -- no children flag: the child's own iterator ends at once, the tree stays on the child
      obtain ⟨f2, hf2⟩ : ∃ n, fuel = n + 1 := ⟨fuel - 1, by rw [hcount] at hf; omega⟩
      simp only [Bool.false_eq_true, if_false]
      rw [hf2, treeChildren_leaf ctx f2 _ (D + 1) (by show D < D + 1; omega) (by show a.hasChildren = false; rw [hch, hcd]), ← hf2]
      simp only
      have hE : off + (encode (.node k kids sibs) ++ 0 :: rest).length
          = off + (headBytes k).length + (encode sibs ++ 0 :: rest).length := by
        simp only [afterHead, hcd, Bool.false_eq_true, if_false, List.nil_append, List.length_append,
          List.length_cons] at hlen ⊢
        omega
      obtain ⟨es2, hl2, hw2⟩ := ihs hs (off + (headBytes k).length) D rest
        (Tree.mk t.root (⟨encode sibs ++ 0 :: rest, off + (headBytes k).length + (encode sibs ++ 0 :: rest).length, D⟩) (entryOf a vs off D))
        rfl (Or.inr ⟨by show ¬ D < D; omega, by show a.hasChildren = false; rw [hch, hcd]⟩) fuel (by rw [hcount] at hf; omega)
      simp only [afterHead, hcd, Bool.false_eq_true, if_false, List.nil_append, hE]
      rw [hw2]
      refine ⟨entryOf a vs off D :: es2, ?_, ?_⟩
      · simp only [List.map_cons, hitem, listing, hcd, Bool.false_eq_true, if_false, List.nil_append,
          List.filter_cons, hl2]
        simp [nonNull, Item.isNull, hdtag]
      · simp only [List.nil_append, Prod.mk.injEq, true_and, and_true, Tree.mk.injEq, Raw.mk.injEq, Entry.mk.injEq]
        simp only [encode, hcd, Bool.false_eq_true, if_false, List.nil_append, List.length_append, List.length_cons]
        omega
    | true =>
      have hE1 : off + (encode (.node k kids sibs) ++ 0 :: rest).length
          = off + (headBytes k).length + (encode kids ++ 0 :: (encode sibs ++ 0 :: rest)).length := by
        simp only [afterHead, hcd, if_true, List.length_append, List.length_cons, List.length_nil] at hlen ⊢
        omega
      have hE2 : off + (encode (.node k kids sibs) ++ 0 :: rest).length
          = off + (headBytes k).length + (encode kids).length + 1 + (encode sibs ++ 0 :: rest).length := by
        simp only [List.length_append, List.length_cons] at hE1 ⊢
        omega
      have hin : afterHead k kids sibs (0 :: rest) = encode kids ++ 0 :: (encode sibs ++ 0 :: rest) := by
        simp [afterHead, hcd]
      obtain ⟨es1, hl1, hw1⟩ := ihk hk (off + (headBytes k).length) (D + 1) (encode sibs ++ 0 :: rest)
        (Tree.mk t.root (⟨encode kids ++ 0 :: (encode sibs ++ 0 :: rest),
                         off + (headBytes k).length + (encode kids ++ 0 :: (encode sibs ++ 0 :: rest)).length, D + 1⟩) (entryOf a vs off D))
        rfl (Or.inl ⟨by show D < D + 1; omega, by show a.hasChildren = true; rw [hch, hcd]⟩) fuel (by
          rw [hcount] at hf; simp only [hcd, if_true] at hf; omega)
      simp only [hcd, if_true, hin, hE1]
      rw [hw1]
      simp only
      obtain ⟨es2, hl2, hw2⟩ := ihs hs (off + (headBytes k).length + (encode kids).length + 1) D rest
        (Tree.mk t.root (⟨encode sibs ++ 0 :: rest,
                         off + (headBytes k).length + (encode kids).length + 1 + (encode sibs ++ 0 :: rest).length, D⟩) (⟨off + (headBytes k).length + (encode kids).length, D + 1, 0, false, []⟩))
        rfl (Or.inr ⟨by show ¬ D + 1 < D; omega, rfl⟩) fuel (by rw [hcount] at hf; omega)
      rw [← hE1, hE2, show (D + 1 - 1 : Int) = D by omega]
      rw [hw2]
      refine ⟨entryOf a vs off D :: (es1 ++ es2), ?_, ?_⟩
      · simp only [List.map_cons, List.map_append, hitem, hl1, hl2, listing, hcd, if_true, List.filter_cons,
          List.filter_append, List.filter_nil]
        simp [nonNull, Item.isNull, hdtag]
      · simp only [Prod.mk.injEq, true_and, and_true, Tree.mk.injEq, Raw.mk.injEq, Entry.mk.injEq]
        simp only [encode, hcd, if_true, List.length_append, List.length_cons, List.length_nil]
        omega


/-- **the tree view of a unit**: `entries_tree(None)?.root()` and the complete recursion over
`children()` report the root entry followed by exactly its descendants in depth-first order
(the entries of `kids`); further top-level entries (`sibs`) and padding are not part of the tree -/
theorem treeAll_unit (ctx : Ctx) (d : Node) (kids sibs : Forest) (hok : ForestOK ctx (.node d kids sibs))
    (tail : Bytes) (off fuel : Nat) (hfuel : count kids + 1 < fuel) :
    ∃ es, es.map Entry.item =
        ⟨off, 0, d.tag, d.children⟩ :: (if d.children then (listing (off + (headBytes d).length) 1 kids).filter nonNull else []) ∧
      treeAll ctx fuel (Tree.new (encode (.node d kids sibs) ++ tail) off) = (es, .ok ()) := by
  obtain ⟨hd, hk, hs⟩ := hok
  have hdtag := hd.2.2.1
  obtain ⟨a, vs, hget, htag, hch, hattrs, hre⟩ := readEntry_node' hd (afterHead d kids sibs tail)
    (off + (encode (.node d kids sibs) ++ tail).length) 0
  rw [← encode_node_append] at hre
  have hoff : off + (encode (.node d kids sibs) ++ tail).length - (encode (.node d kids sibs) ++ tail).length = off := by
    omega
  rw [hoff] at hre
  have hnn : (entryOf a vs off 0).isNull = false := by simp [Entry.isNull, htag, hdtag]
  have hitem : (entryOf a vs off 0).item = ⟨off, 0, d.tag, d.children⟩ := by simp [Entry.item, htag, hch]
  have hroot : (Tree.new (encode (.node d kids sibs) ++ tail) off).rootNode ctx
      = .ok (Tree.mk (encode (.node d kids sibs) ++ tail)
          ⟨afterHead d kids sibs tail, off + (encode (.node d kids sibs) ++ tail).length,
            if d.children then 0 + 1 else 0⟩ (entryOf a vs off 0)) := by
    unfold Tree.rootNode Tree.new Raw.new
    simp only [hre, Out.bind_ok, hnn, Bool.false_eq_true, if_false, Out.pure_eq]
  unfold treeAll
  rw [hroot]
  simp only
  obtain ⟨fuel, rfl⟩ : ∃ k, fuel = k + 1 := ⟨fuel - 1, by omega⟩
  cases hcd : d.children with
  | false =>
    rw [treeChildren_leaf ctx fuel _ 1 (by show (0 : Int) < 1; omega) (by show a.hasChildren = false; rw [hch, hcd])]
    exact ⟨[entryOf a vs off 0], by simp [hitem, hcd], rfl⟩
  | true =>
    have hlen := congrArg List.length (encode_node_append d kids sibs tail)
    simp only [List.length_append, afterHead, hcd, if_true, List.length_cons, List.length_nil] at hlen
    have hin : afterHead d kids sibs tail = encode kids ++ 0 :: (encode sibs ++ tail) := by
      simp [afterHead, hcd]
    have hE1 : off + (encode (.node d kids sibs) ++ tail).length
        = off + (headBytes d).length + (encode kids ++ 0 :: (encode sibs ++ tail)).length := by
      simp only [List.length_append, List.length_cons]; omega
    obtain ⟨es1, hl1, hw1⟩ := treeChildren_forest ctx kids hk (off + (headBytes d).length) 1 (encode sibs ++ tail)
      (Tree.mk (encode (.node d kids sibs) ++ tail)
        ⟨encode kids ++ 0 :: (encode sibs ++ tail),
          off + (headBytes d).length + (encode kids ++ 0 :: (encode sibs ++ tail)).length, 1⟩ (entryOf a vs off 0))
      rfl (Or.inl ⟨by show (0 : Int) < 1; omega, by show a.hasChildren = true; rw [hch, hcd]⟩) (fuel + 1) (by omega)
    simp only [if_true, hin, hE1, show (0 : Int) + 1 = 1 by omega]
    rw [hw1]
    exact ⟨entryOf a vs off 0 :: es1, by simp [hitem, hcd, hl1], rfl⟩

/-! ### the tree's fast path: `EntriesTree::next` over a subtree that was not iterated -/

/-- no declaration has the null tag (what `Abbreviation::parse` guarantees: `AbbreviationTagZero`) -/
def TagsOK (ctx : Ctx) : Prop := ∀ c a, ctx.abbrevs.get c = some a → a.tag ≠ 0

theorem readEntry_null_flag {ctx : Ctx} (htags : TagsOK ctx) {r r' : Raw} {e : Entry}
    (h : r.readEntry ctx = .ok (e, r')) : e.isNull = true → e.hasChildren = false := by
  unfold Raw.readEntry at h
  obtain ⟨⟨ab, r1⟩, h1, h2⟩ := bind_ok_inv h
  simp only at h2
  split at h2
  · simp only [Out.pure_eq, Out.ok.injEq, Prod.mk.injEq] at h2
    intro _; rw [← h2.1]
  · rename_i a
    obtain ⟨⟨vs, rest⟩, _, h4⟩ := bind_ok_inv h2
    simp only [Out.pure_eq, Out.ok.injEq, Prod.mk.injEq] at h4
    intro hn
    rw [← h4.1] at hn
    -- a declaration's tag is not 0
    have hget : ∃ c, ctx.abbrevs.get c = some a := by
      unfold Raw.readAbbreviation at h1
      obtain ⟨⟨code, rs⟩, _, h6⟩ := bind_ok_inv h1
      simp only at h6
      split at h6
      · simp at h6
      · split at h6
        · simp at h6
        · rename_i a' hg
          simp only [Out.pure_eq, Out.ok.injEq, Prod.mk.injEq, Option.some.injEq] at h6
          exact ⟨code, by rw [hg, h6.1]⟩
    obtain ⟨c, hc⟩ := hget
    exact absurd (by simpa [Entry.isNull] using hn) (htags c a hc)

/-- the tree's loop is the cursor's loop: same seeks, same reads, same stop -/
theorem nextLoop_eq_siblingLoop (ctx : Ctx) (htags : TagsOK ctx) (D : Int) : ∀ (fuel : Nat) (t : Tree),
    (t.entry.isNull = true → t.entry.hasChildren = false) →
    Tree.nextLoop ctx D fuel t =
      (Cursor.siblingLoop ctx D fuel ⟨t.raw, t.entry⟩).map
        (fun x => (x.1.isSome, Tree.mk t.root x.2.raw x.2.cur)) := by
  intro fuel
  induction fuel with
  | zero => intro t _; rfl
  | succ fuel ih =>
    intro t hinv
    -- what follows the seek step is the same on both sides, for any reader state `R`
    have hstep : ∀ R : Raw,
        (if R.input.isEmpty then
            (.ok (false, { t with raw := R, entry := t.entry.setNull }) : Out (Bool × Tree))
          else do
            let (e, r) ← R.readEntry ctx
            let t := { t with raw := r, entry := e }
            if e.depth = D then pure (!e.isNull, t) else Tree.nextLoop ctx D fuel t) =
        (readPart ctx D fuel ⟨R, t.entry⟩).map (fun x => (x.1.isSome, Tree.mk t.root x.2.raw x.2.cur)) := by
      intro R
      cases he : R.input.isEmpty with
      | true =>
        rw [readPart_empty (c := ⟨R, t.entry⟩) _ _ he]
        simp [Out.map]
      | false =>
        rw [readPart_read (c := ⟨R, t.entry⟩) _ _ he]
        simp only [Bool.false_eq_true, if_false]
        cases hr : R.readEntry ctx with
        | ok p =>
          obtain ⟨e, r⟩ := p
          simp only [Out.bind_ok]
          by_cases hd : e.depth = D
          · simp only [hd, if_true, Out.pure_eq, Out.map, Cursor.current]
            cases e.isNull <;> simp
          · simp only [hd, if_false]
            exact ih (Tree.mk t.root r e) (readEntry_null_flag htags hr)
        | err x => simp [Out.map]
        | panic w => simp [Out.map]
        | diverge => simp [Out.map]
    rw [Tree.nextLoop, siblingLoop_succ]
    cases hn : t.entry.isNull with
    | true =>
      have hc := hinv hn
      rw [seekStep_null _ _ hn]
      simp only [hc, Bool.false_eq_true, if_false]
      exact hstep t.raw
    | false =>
      cases hc : t.entry.hasChildren with
      | false =>
        rw [seekStep_nochildren _ _ hc]
        simp only [Bool.false_eq_true, if_false]
        exact hstep t.raw
      | true =>
        cases hs : t.entry.sibling with
        | none =>
          rw [seekStep_nosibling _ _ hs]
          simp only [if_true]
          exact hstep t.raw
        | some off =>
          rw [seekStep_sibling _ _ off hn hc hs]
          simp only [if_true]
          exact hstep (t.raw.seekForward off t.entry.depth)

/-- **`EntriesTree::next` over a subtree that was not iterated**: with the tree on an entry (whose
children the caller did not list, or only partly), asking for the next entry at that entry's
depth passes over the rest of the subtree — through the `DW_AT_sibling` fast path when there is a
usable attribute — and ends on the next sibling (`true`) or on the list's end (`false`) -/
theorem treeNext_skips_subtree (ctx : Ctx) (htags : TagsOK ctx) (d : Node) (kids sibs : Forest)
    (hok : ForestOK ctx (.node d kids sibs)) (off : Nat) (hsib : SibOK ctx off (.node d kids sibs)) (D : Int)
    (tail : Bytes) (htail : tail = [] ∨ ∃ t, tail = 0 :: t) (t : Tree)
    (hc : PosAt ctx ⟨t.raw, t.entry⟩ off D tail (.node d kids sibs)) :
    ∃ c', PosAt ctx c' (if d.children then off + (headBytes d).length + (encode kids).length + 1
                        else off + (headBytes d).length) D tail sibs ∧
      t.next ctx D = .ok (c'.current.isSome, Tree.mk t.root c'.raw c'.cur) := by
  obtain ⟨c', hp, hns⟩ := nextSibling_posAt ctx d kids sibs hok off hsib D tail htail ⟨t.raw, t.entry⟩ hc
  refine ⟨c', hp, ?_⟩
  obtain ⟨a, vs, hget, htag, hch, hattrs, hceq⟩ := hc
  have hent : t.entry = entryOf a vs off D := by
    have := congrArg Cursor.cur hceq; simpa using this
  have hdtag := hok.1.2.2.1
  have hnn : t.entry.isNull = false := by rw [hent]; simp [Entry.isNull, htag, hdtag]
  have hdep : t.entry.depth = D := by rw [hent]
  unfold Tree.next
  rw [if_neg (by rw [hdep]; omega)]
  rw [nextLoop_eq_siblingLoop ctx htags D _ t (by rw [hnn]; intro h; cases h)]
  unfold Cursor.nextSibling at hns
  simp only [Cursor.current, hnn, Bool.false_eq_true, if_false, hdep] at hns
  rw [hns]
  rfl

end Gimli.Die
