import Gimli.Lemmas.Filter
/-!
Helper lemmas for C19, part 2: the graph that `FilterUnit::read_entry` builds.

`records units` lists every entry of the section in read order together with the parent that the
`parents` stack of `FilterUnit` yields for it; `buildDeps` is a fold of `recordStep` over that list
(`buildDeps_eq`). `GraphInv` characterises the `FilterDependencies` value after a prefix of the
records exactly: its keys are the entry offsets, the list stored for `x` holds precisely the
references and the parent of `x` and the member-like children of `x`, and `required` holds the
wanted entries.
-/
namespace Gimli.Filter

/-- one DIE as `read_entry` records it: its unit, the raw entry, the parent found on the stack -/
structure Rec where
  unit : UnitHdr
  e : Entry
  parent : Option Parent

namespace Rec
/-- `entry.offset.to_unit_section_offset(unit)` -/
def off (r : Rec) : Off := r.unit.base + r.e.off
def parentOff (r : Rec) : Option Off :=
  match r.parent with
  | some p => some (r.unit.base + p.off)
  | none => none
/-- `parent.tag != DW_TAG_namespace && entry.has_die_back_edge()` -/
def backEdge (r : Rec) : Bool :=
  match r.parent with
  | some p => parentAllowsChildEdge p.tag && hasBackEdge r.e.tag r.e.hasDecl
  | none => false
/-- offsets recorded from attributes, expressions and location lists -/
def refDeps (r : Rec) : List Off := r.e.attrs.flatMap (attrDeps r.unit)
/-- the `deps` passed to `add_entry` -/
def ownDeps (r : Rec) : List Off :=
  match r.parent with
  | some p => r.refDeps ++ [r.unit.base + p.off]
  | none => r.refDeps
end Rec

/-- entries of one unit with the parent the stack yields -/
def withParents : List Parent → List Entry → List (Entry × Option Parent)
  | _, [] => []
  | st, e :: es =>
    (e, (popParents e.depth st).head?) :: withParents (pushParent e (popParents e.depth st)) es

def unitRecs (ue : UnitHdr × List Entry) : List Rec :=
  (withParents [] ue.2).map (fun ep => ⟨ue.1, ep.1, ep.2⟩)

def records (units : List (UnitHdr × List Entry)) : List Rec := units.flatMap unitRecs

def recordStep (m : Mode) (d : Deps) (r : Rec) : Out Deps := recordEntry m r.unit d r.e r.parent

/-! ## `buildDeps` is a fold over the records -/

theorem foldOut_append {σ α : Type} (f : σ → α → Out σ) : ∀ (a b : List α) (s : σ),
    foldOut f s (a ++ b) = (foldOut f s a >>= fun s' => foldOut f s' b) := by
  intro a
  induction a with
  | nil => intro b s; rfl
  | cons x a ih =>
    intro b s
    simp only [List.cons_append, foldOut]
    cases f s x with
    | ok s' => simp only; exact ih b s'
    | err e => rfl
    | panic w => rfl
    | diverge => rfl

theorem foldOut_readEntry (m : Mode) (u : UnitHdr) : ∀ (es : List Entry) (d : Deps) (st : List Parent),
    (foldOut (readEntry m u) (d, st) es).map (·.1) =
      foldOut (recordStep m) d ((withParents st es).map (fun ep => ⟨u, ep.1, ep.2⟩)) := by
  intro es
  induction es with
  | nil => intro d st; rfl
  | cons e es ih =>
    intro d st
    simp only [withParents, List.map_cons, foldOut, readEntry, recordStep]
    cases recordEntry m u d e (popParents e.depth st).head? with
    | ok d' => simp only [Out.map]; exact ih d' _
    | err e => rfl
    | panic w => rfl
    | diverge => rfl

theorem filterUnit_eq (m : Mode) (d : Deps) (ue : UnitHdr × List Entry) :
    filterUnit m d ue = foldOut (recordStep m) d (unitRecs ue) := by
  simp only [filterUnit, unitRecs]
  exact foldOut_readEntry m ue.1 ue.2 d []

theorem foldOut_filterUnit (m : Mode) : ∀ (units : List (UnitHdr × List Entry)) (d : Deps),
    foldOut (filterUnit m) d units = foldOut (recordStep m) d (records units) := by
  intro units
  induction units with
  | nil => intro d; rfl
  | cons ue units ih =>
    intro d
    simp only [records, List.flatMap_cons, foldOut]
    rw [foldOut_append, filterUnit_eq]
    cases foldOut (recordStep m) d (unitRecs ue) with
    | ok d' => simp only [Out.bind_ok]; exact ih d'
    | err e => rfl
    | panic w => rfl
    | diverge => rfl

/-- without root attributes `buildDepsFrom` is the plain fold over the units -/
theorem buildDepsFrom_nil (m : Mode) : ∀ (units : List (UnitHdr × List Entry)) (d : Deps),
    buildDepsFrom m d units [] = foldOut (filterUnit m) d units := by
  intro units
  induction units with
  | nil => intro d; rfl
  | cons ue units ih =>
    intro d
    simp only [buildDepsFrom, foldOut, List.headD_nil, List.tail_nil, requireRoot, List.flatMap_nil,
      List.foldl_nil]
    cases filterUnit m d ue with
    | ok d' => exact ih d'
    | err e => rfl
    | panic w => rfl
    | diverge => rfl

/-- `buildDeps` (no root attributes) processes the records of all units in order -/
theorem buildDeps_eq (m : Mode) (units : List (UnitHdr × List Entry)) :
    buildDeps m units = foldOut (recordStep m) {} (records units) := by
  rw [buildDeps, buildDepsFrom_nil]
  exact foldOut_filterUnit m units {}

/-! ## one step, exactly -/

namespace EdgeMap
theorem get?_insert (m : EdgeMap) (x y : Off) (v : List Off) :
    (m.insert x v).get? y = if y = x then some v else m.get? y := by
  simp only [insert, get?]
  by_cases h : y = x
  · subst h; simp
  · have : ¬ x = y := fun h' => h h'.symm
    simp only [this, h, if_false]
    rw [get?_erase]; simp [h]

theorem get?_push (m : EdgeMap) (x y z : Off) :
    (m.push x z).get? y = if y = x then (m.get? x).map (· ++ [z]) else m.get? y := by
  induction m with
  | nil => simp [push, get?]
  | cons p m ih =>
    obtain ⟨k, v⟩ := p
    simp only [push]
    by_cases hk : k = x
    · subst hk
      simp only [if_true, get?]
      by_cases hy : y = k
      · subst hy; simp
      · have : ¬ k = y := fun h' => hy h'.symm
        simp [this, hy]
    · simp only [hk, if_false, get?]
      by_cases hky : k = y
      · subst hky; simp [hk]
      · simp only [hky, if_false]
        rw [ih]
end EdgeMap

/-- `add_entry` on a fresh key followed by the optional `require_entry` -/
theorem finish_spec (m : Mode) (d d' : Deps) (off : Off) (deps : List Off) (req : Bool)
    (hnew : d.edges.contains off = false)
    (h : (do let d1 ← d.addEntry m off deps; pure (if req then d1.requireEntry off else d1) : Out Deps) = .ok d') :
    (∀ y, d'.edges.get? y = if y = off then some deps else d.edges.get? y) ∧
    d'.required = (if req then d.required ++ [off] else d.required) := by
  simp only [Deps.addEntry, hnew, Bool.false_eq_true, and_false, if_false, Out.bind_ok, Out.pure_eq,
    Out.ok.injEq] at h
  subst h
  cases req
  · simp only [Bool.false_eq_true, if_false]
    exact ⟨fun y => EdgeMap.get?_insert _ _ _ _, trivial⟩
  · simp only [if_true, Deps.requireEntry]
    exact ⟨fun y => EdgeMap.get?_insert _ _ _ _, trivial⟩

/-- what one `read_entry` does to the dependency state -/
theorem recordStep_spec (m : Mode) (d d' : Deps) (r : Rec)
    (hnew : d.edges.contains r.off = false) (h : recordStep m d r = .ok d') :
    (∀ y, d'.edges.get? y =
      if y = r.off then some r.ownDeps
      else if r.backEdge = true ∧ r.parentOff = some y then (d.edges.get? y).map (· ++ [r.off])
      else d.edges.get? y) ∧
    d'.required = (if r.e.required then d.required ++ [r.off] else d.required) ∧
    (r.backEdge = true → ∀ po, r.parentOff = some po → d.edges.contains po = true) := by
  obtain ⟨u, e, parent⟩ := r
  simp only [recordStep, recordEntry, Rec.off, Rec.ownDeps, Rec.backEdge, Rec.parentOff, Rec.refDeps] at *
  cases parent with
  | none =>
    obtain ⟨h1, h2⟩ := finish_spec m d d' _ _ _ hnew h
    refine ⟨?_, h2, ?_⟩
    · intro y; rw [h1 y]; simp
    · intro hb; simp at hb
  | some p =>
    simp only at h ⊢
    by_cases hb : (parentAllowsChildEdge p.tag && hasBackEdge e.tag e.hasDecl) = true
    · simp only [hb, if_true] at h
      simp only [Deps.addEdge] at h
      by_cases hc : d.edges.contains (u.base + p.off) = true
      · simp only [hc, if_true, Out.bind_ok] at h
        have hne : u.base + p.off ≠ u.base + e.off := by
          intro heq; rw [heq, hnew] at hc; cases hc
        have hnew' : ({ d with edges := d.edges.push (u.base + p.off) (u.base + e.off) } : Deps).edges.contains (u.base + e.off) = false := by
          simp only [EdgeMap.contains, EdgeMap.get?_push]
          have : ¬ (u.base + e.off = u.base + p.off) := fun h' => hne h'.symm
          simp only [this, if_false]
          exact hnew
        obtain ⟨h1, h2⟩ := finish_spec m _ d' _ _ _ hnew' h
        refine ⟨?_, h2, ?_⟩
        · intro y
          rw [h1 y]
          by_cases hy : y = u.base + e.off
          · simp [hy]
          · simp only [hy, if_false, hb, true_and, Option.some.injEq, EdgeMap.get?_push]
            by_cases hy2 : y = u.base + p.off
            · subst hy2; simp
            · have : ¬ (u.base + p.off = y) := fun h' => hy2 h'.symm
              simp [hy2, this]
        · intro _ po hpo
          simp only [Option.some.injEq] at hpo
          subst hpo; exact hc
      · simp only [hc] at h
        cases h
    · simp only [hb] at h
      obtain ⟨h1, h2⟩ := finish_spec m d d' _ _ _ hnew h
      refine ⟨?_, h2, ?_⟩
      · intro y; rw [h1 y]; simp [hb]
      · intro hb'; exact (hb hb').elim


/-! ## the graph after a prefix of the records, exactly -/

/-- `x` keeps `y` because `y` is referenced by `x` or is the parent of `x` -/
def DepOwn (pre : List Rec) (x y : Off) : Prop := ∃ r, r ∈ pre ∧ r.off = x ∧ y ∈ r.ownDeps
/-- `x` keeps `y` because `y` is a member-like child of the non-namespace entry `x` -/
def DepChild (pre : List Rec) (x y : Off) : Prop :=
  ∃ c, c ∈ pre ∧ c.off = y ∧ c.backEdge = true ∧ c.parentOff = some x

structure GraphInv (pre : List Rec) (d : Deps) : Prop where
  keys : ∀ x, d.edges.contains x = true ↔ ∃ r, r ∈ pre ∧ r.off = x
  edges : ∀ x l, d.edges.get? x = some l → ∀ y, y ∈ l ↔ (DepOwn pre x y ∨ DepChild pre x y)
  par : ∀ c, c ∈ pre → c.backEdge = true → ∀ po, c.parentOff = some po → ∃ r, r ∈ pre ∧ r.off = po
  req : ∀ x, x ∈ d.required ↔ ∃ r, r ∈ pre ∧ r.off = x ∧ r.e.required = true

theorem graphInv_nil : GraphInv [] {} := by
  refine ⟨?_, ?_, ?_, ?_⟩
  · intro x; simp [EdgeMap.contains, EdgeMap.get?]
  · intro x l h; simp [EdgeMap.get?] at h
  · intro c hc; cases hc
  · intro x; simp

theorem graphInv_step (m : Mode) (pre : List Rec) (d d' : Deps) (r : Rec)
    (hinv : GraphInv pre d) (hdist : ∀ r', r' ∈ pre → r'.off ≠ r.off)
    (h : recordStep m d r = .ok d') : GraphInv (pre ++ [r]) d' := by
  have hnew : d.edges.contains r.off = false := by
    cases hc : d.edges.contains r.off with
    | false => rfl
    | true =>
      obtain ⟨r', hr', ho⟩ := (hinv.keys _).1 hc
      exact (hdist r' hr' ho).elim
  obtain ⟨S1, S2, S3⟩ := recordStep_spec m d d' r hnew h
  have memApp : ∀ (P : Rec → Prop), (∃ r', r' ∈ pre ++ [r] ∧ P r') ↔ ((∃ r', r' ∈ pre ∧ P r') ∨ P r) := by
    intro P
    constructor
    · rintro ⟨r', hr', hp⟩
      rcases List.mem_append.1 hr' with h1 | h1
      · exact Or.inl ⟨r', h1, hp⟩
      · simp only [List.mem_singleton] at h1; subst h1; exact Or.inr hp
    · rintro (⟨r', hr', hp⟩ | hp)
      · exact ⟨r', List.mem_append_left _ hr', hp⟩
      · exact ⟨r, List.mem_append_right _ (List.mem_singleton.2 rfl), hp⟩
  have ownApp : ∀ x y, DepOwn (pre ++ [r]) x y ↔ (DepOwn pre x y ∨ (r.off = x ∧ y ∈ r.ownDeps)) :=
    fun x y => memApp (fun r' => r'.off = x ∧ y ∈ r'.ownDeps)
  have childApp : ∀ x y, DepChild (pre ++ [r]) x y ↔
      (DepChild pre x y ∨ (r.off = y ∧ r.backEdge = true ∧ r.parentOff = some x)) :=
    fun x y => memApp (fun c => c.off = y ∧ c.backEdge = true ∧ c.parentOff = some x)
  have keys' : ∀ x, d'.edges.contains x = true ↔ ∃ r', r' ∈ pre ++ [r] ∧ r'.off = x := by
    intro x
    rw [memApp (fun r' => r'.off = x)]
    simp only [EdgeMap.contains, S1 x]
    by_cases hx : x = r.off
    · subst hx; simp
    · have hx' : ¬ r.off = x := fun h' => hx h'.symm
      simp only [hx, if_false, hx', or_false]
      rw [← hinv.keys x]
      by_cases hb : r.backEdge = true ∧ r.parentOff = some x
      · simp only [hb, and_self, if_true, Option.isSome_map, EdgeMap.contains]
      · simp only [hb, if_false, EdgeMap.contains]
  refine ⟨keys', ?_, ?_, ?_⟩
  · intro x l hl y
    rw [ownApp, childApp]
    rw [S1 x] at hl
    by_cases hx : x = r.off
    · subst hx
      simp only [if_true, Option.some.injEq] at hl
      subst hl
      constructor
      · intro hy; exact Or.inl (Or.inr ⟨rfl, hy⟩)
      · rintro ((⟨r', hr', ho, _⟩ | ⟨_, hy⟩) | (⟨c, hc, _, hb, hp⟩ | ⟨_, hb, hp⟩))
        · exact (hdist r' hr' ho).elim
        · exact hy
        · obtain ⟨r', hr', ho⟩ := hinv.par c hc hb _ hp
          exact (hdist r' hr' ho).elim
        · have := S3 hb _ hp
          rw [hnew] at this; cases this
    · have hx' : ¬ r.off = x := fun h' => hx h'.symm
      simp only [hx, if_false] at hl
      simp only [hx', false_and, or_false]
      by_cases hb : r.backEdge = true ∧ r.parentOff = some x
      · simp only [hb, and_self, if_true, Option.map_eq_some_iff] at hl
        obtain ⟨l0, hl0, hl⟩ := hl
        subst hl
        rw [List.mem_append, List.mem_singleton, hinv.edges x l0 hl0 y]
        simp only [hb, and_self, and_true]
        constructor
        · rintro (h1 | h1)
          · rcases h1 with h2 | h2
            · exact Or.inl h2
            · exact Or.inr (Or.inl h2)
          · exact Or.inr (Or.inr h1.symm)
        · rintro (h1 | h1 | h1)
          · exact Or.inl (Or.inl h1)
          · exact Or.inl (Or.inr h1)
          · exact Or.inr h1.symm
      · simp only [hb, if_false] at hl
        rw [hinv.edges x l hl y]
        constructor
        · rintro (h1 | h1)
          · exact Or.inl h1
          · exact Or.inr (Or.inl h1)
        · rintro (h1 | h1 | ⟨_, h2, h3⟩)
          · exact Or.inl h1
          · exact Or.inr h1
          · exact (hb ⟨h2, h3⟩).elim
  · intro c hc hb po hp
    rcases List.mem_append.1 hc with h1 | h1
    · obtain ⟨r', hr', ho⟩ := hinv.par c h1 hb po hp
      exact ⟨r', List.mem_append_left _ hr', ho⟩
    · simp only [List.mem_singleton] at h1; subst h1
      have := S3 hb po hp
      obtain ⟨r', hr', ho⟩ := (hinv.keys po).1 this
      exact ⟨r', List.mem_append_left _ hr', ho⟩
  · intro x
    rw [memApp (fun r' => r'.off = x ∧ r'.e.required = true), S2]
    cases hreq : r.e.required
    · simp only [Bool.false_eq_true, if_false, and_false, or_false]
      exact hinv.req x
    · simp only [if_true, List.mem_append, List.mem_singleton, and_true]
      rw [hinv.req x]
      constructor
      · rintro (h1 | h1)
        · exact Or.inl h1
        · exact Or.inr h1.symm
      · rintro (h1 | h1)
        · exact Or.inl h1
        · exact Or.inr h1.symm


theorem graphInv_fold (m : Mode) : ∀ (recs pre : List Rec) (d d' : Deps),
    GraphInv pre d → ((pre ++ recs).map Rec.off).Nodup →
    foldOut (recordStep m) d recs = .ok d' → GraphInv (pre ++ recs) d' := by
  intro recs
  induction recs with
  | nil =>
    intro pre d d' hinv _ h
    simp only [foldOut, Out.ok.injEq] at h
    subst h; simpa using hinv
  | cons r recs ih =>
    intro pre d d' hinv hnd h
    simp only [foldOut] at h
    cases hs : recordStep m d r with
    | ok d1 =>
      rw [hs] at h
      simp only at h
      have hdist : ∀ r', r' ∈ pre → r'.off ≠ r.off := by
        intro r' hr' heq
        rw [List.map_append, List.map_cons, List.nodup_append] at hnd
        exact hnd.2.2 _ (List.mem_map_of_mem hr') _ List.mem_cons_self heq
      have h1 := graphInv_step m pre d d1 r hinv hdist hs
      have := ih (pre ++ [r]) d1 d' h1 (by simpa using hnd) h
      simpa using this
    | err e => rw [hs] at h; cases h
    | panic w => rw [hs] at h; cases h
    | diverge => rw [hs] at h; cases h

/-- the graph built for a section whose DIE offsets are distinct, exactly -/
theorem buildDeps_graph (m : Mode) (units : List (UnitHdr × List Entry)) (d : Deps)
    (h : buildDeps m units = .ok d) (hnd : ((records units).map Rec.off).Nodup) :
    GraphInv (records units) d := by
  rw [buildDeps_eq] at h
  have := graphInv_fold m (records units) [] {} d graphInv_nil (by simpa using hnd) h
  simpa using this

/-! ## the parent found on the stack is an earlier entry of the same unit -/

theorem popParents_subset (depth : Int) : ∀ (st : List Parent) (p : Parent),
    p ∈ popParents depth st → p ∈ st := by
  intro st
  induction st with
  | nil => intro p h; simp [popParents] at h
  | cons q st ih =>
    intro p h
    rw [popParents] at h
    by_cases hq : q.depth < depth
    · simp only [hq, if_true] at h; exact h
    · simp only [hq, if_false] at h; exact List.mem_cons_of_mem _ (ih p h)

theorem withParents_parent : ∀ (es : List Entry) (st : List Parent) (e : Entry) (p : Parent),
    (e, some p) ∈ withParents st es → p ∈ st ∨ ∃ e', e' ∈ es ∧ p.off = e'.off ∧ p.tag = e'.tag := by
  intro es
  induction es with
  | nil => intro st e p h; simp [withParents] at h
  | cons a es ih =>
    intro st e p h
    rw [withParents] at h
    rcases List.mem_cons.1 h with h1 | h1
    · left
      simp only [Prod.mk.injEq] at h1
      have : p ∈ (popParents a.depth st).head? := by rw [← h1.2]; rfl
      exact popParents_subset _ _ _ (List.mem_of_mem_head? this)
    · rcases ih _ e p h1 with h2 | ⟨e', he', ho⟩
      · simp only [pushParent] at h2
        by_cases hc : a.hasChildren = true
        · simp only [hc, if_true] at h2
          rcases List.mem_cons.1 h2 with h3 | h3
          · right; exact ⟨a, List.mem_cons_self, by rw [h3], by rw [h3]⟩
          · left; exact popParents_subset _ _ _ h3
        · simp only [hc] at h2
          left; exact popParents_subset _ _ _ h2
      · right; exact ⟨e', List.mem_cons_of_mem _ he', ho⟩

theorem withParents_mem : ∀ (es : List Entry) (st : List Parent) (e : Entry),
    e ∈ es → ∃ q, (e, q) ∈ withParents st es := by
  intro es
  induction es with
  | nil => intro st e h; cases h
  | cons a es ih =>
    intro st e h
    rw [withParents]
    rcases List.mem_cons.1 h with h1 | h1
    · subst h1; exact ⟨_, List.mem_cons_self⟩
    · obtain ⟨q, hq⟩ := ih (pushParent a (popParents a.depth st)) e h1
      exact ⟨q, List.mem_cons_of_mem _ hq⟩

/-- the parent offset of a record is the offset of a record of the same section, and the parent's
recorded tag is that record's tag -/
theorem records_parent (units : List (UnitHdr × List Entry)) (r : Rec) (hr : r ∈ records units)
    (p : Parent) (hp : r.parent = some p) :
    ∃ r', r' ∈ records units ∧ r'.off = r.unit.base + p.off ∧ r'.e.tag = p.tag := by
  simp only [records, List.mem_flatMap] at hr
  obtain ⟨ue, hue, hr⟩ := hr
  simp only [unitRecs, List.mem_map] at hr
  obtain ⟨ep, hep, hr⟩ := hr
  subst hr
  simp only at hp
  have hmem : (ep.1, some p) ∈ withParents [] ue.2 := by
    have : ep = (ep.1, some p) := by rw [← hp]
    rw [← this]; exact hep
  rcases withParents_parent ue.2 [] ep.1 p hmem with h1 | ⟨e', he', ho, ht⟩
  · cases h1
  · obtain ⟨q, hq⟩ := withParents_mem ue.2 [] e' he'
    refine ⟨⟨ue.1, e', q⟩, ?_, ?_, ?_⟩
    · simp only [records, List.mem_flatMap]
      exact ⟨ue, hue, by simp only [unitRecs, List.mem_map]; exact ⟨(e', q), hq, rfl⟩⟩
    · simp only [Rec.off]; rw [ho]
    · exact ht.symm

/-! ## `ConvertUnit::read_entry`: parent links of the reserved entries -/

/-- `ConvertUnit::read_entry` without the attribute conversion: `(offset, parent)` of the reserved
entries, in order -/
def convertLinks (ids : List Off) (u : UnitHdr) : List (Int × Off) → List Entry → List (Off × Option Off)
  | _, [] => []
  | stack, e :: es =>
    let stack1 := stack.dropWhile (fun p => !(decide (p.1 < e.depth)))
    let stack2 := if ids.contains (u.base + e.off) && e.hasChildren then (e.depth, u.base + e.off) :: stack1 else stack1
    if ids.contains (u.base + e.off) then (u.base + e.off, stack1.head?.map (·.2)) :: convertLinks ids u stack2 es
    else convertLinks ids u stack2 es

theorem convertEntries_links (ids : List Off) (u : UnitHdr) : ∀ (es : List Entry) (st : List (Int × Off))
    (acc res : List (Off × Option Off)),
    convertEntries ids u st es acc = .ok res → res = acc.reverse ++ convertLinks ids u st es := by
  intro es
  induction es with
  | nil => intro st acc res h; simp only [convertEntries, Except.ok.injEq] at h; simp [convertLinks, h]
  | cons e es ih =>
    intro st acc res h
    rw [convertEntries] at h
    rw [convertLinks]
    by_cases hr : ids.contains (u.base + e.off) = true
    · simp only [hr, if_true, Bool.true_and] at h ⊢
      cases hf : firstErr (e.attrs.map (convAttr ids u)) with
      | some err => rw [hf] at h; cases h
      | none =>
        rw [hf] at h
        simp only at h
        have := ih _ _ _ h
        simpa using this
    · have hr' : ids.contains (u.base + e.off) = false := by simpa using hr
      simp only [hr', Bool.false_and, Bool.false_eq_true, if_false] at h ⊢
      exact ih _ _ _ h


/-- the `FilterUnit` stack has strictly decreasing depths from the top -/
def StackSorted (st : List Parent) : Prop := st.Pairwise (fun a b => b.depth < a.depth)

theorem popParents_split (d : Int) : ∀ (st : List Parent), StackSorted st →
    ∃ A, st = A ++ popParents d st ∧ (∀ a, a ∈ A → ¬ a.depth < d) ∧ (∀ b, b ∈ popParents d st → b.depth < d) := by
  intro st
  induction st with
  | nil => intro _; exact ⟨[], rfl, by simp, by simp [popParents]⟩
  | cons q st ih =>
    intro hs
    rw [StackSorted, List.pairwise_cons] at hs
    rw [popParents]
    by_cases hq : q.depth < d
    · simp only [hq, if_true]
      refine ⟨[], rfl, by simp, ?_⟩
      intro b hb
      rcases List.mem_cons.1 hb with h | h
      · subst h; exact hq
      · exact Int.lt_trans (hs.1 b h) hq
    · simp only [hq, if_false]
      obtain ⟨A, hA, h1, h2⟩ := ih hs.2
      refine ⟨q :: A, by rw [List.cons_append, ← hA], ?_, h2⟩
      intro a ha
      rcases List.mem_cons.1 ha with h | h
      · subst h; exact hq
      · exact h1 a h

theorem popParents_sorted (d : Int) (st : List Parent) (hs : StackSorted st) : StackSorted (popParents d st) := by
  obtain ⟨A, hA, _, _⟩ := popParents_split d st hs
  rw [StackSorted, hA, List.pairwise_append] at hs
  exact hs.2.1

theorem dropWhile_append_all {α : Type} (P : α → Bool) : ∀ (X Y : List α), (∀ x, x ∈ X → P x = true) →
    (X ++ Y).dropWhile P = Y.dropWhile P := by
  intro X
  induction X with
  | nil => intro Y _; rfl
  | cons x X ih =>
    intro Y h
    simp only [List.cons_append, List.dropWhile_cons, h x List.mem_cons_self, if_true]
    exact ih Y (fun y hy => h y (List.mem_cons_of_mem _ hy))

theorem dropWhile_none {α : Type} (P : α → Bool) : ∀ (Y : List α), (∀ y, y ∈ Y → P y = false) →
    Y.dropWhile P = Y := by
  intro Y h
  cases Y with
  | nil => rfl
  | cons y Y => simp [h y List.mem_cons_self]

/-- the `ConvertUnit` stack that corresponds to a `FilterUnit` stack: its reserved elements, then the root -/
def convStack (ids : List Off) (u : UnitHdr) (st : List Parent) : List (Int × Off) :=
  (st.filter (fun p => ids.contains (u.base + p.off))).map (fun p => (p.depth, u.base + p.off)) ++ [(0, u.rootOff)]

theorem convStack_pop (ids : List Off) (u : UnitHdr) (st : List Parent) (hs : StackSorted st) (d : Int) (hd : 0 < d) :
    (convStack ids u st).dropWhile (fun p => !(decide (p.1 < d))) = convStack ids u (popParents d st) := by
  obtain ⟨A, hA, h1, h2⟩ := popParents_split d st hs
  have e1 : convStack ids u st =
      (A.filter (fun p => ids.contains (u.base + p.off))).map (fun p => (p.depth, u.base + p.off)) ++
        convStack ids u (popParents d st) := by
    conv => lhs; rw [convStack, hA]
    simp only [List.filter_append, List.map_append, List.append_assoc, convStack]
  rw [e1, dropWhile_append_all]
  · apply dropWhile_none
    intro y hy
    simp only [convStack, List.mem_append, List.mem_map, List.mem_filter, List.mem_singleton] at hy
    rcases hy with ⟨p, ⟨hp, _⟩, hy⟩ | hy
    · subst hy; simp [h2 p hp]
    · subst hy; simp [hd]
  · intro x hx
    simp only [List.mem_map, List.mem_filter] at hx
    obtain ⟨p, ⟨hp, _⟩, hx⟩ := hx
    subst hx
    simp [h1 p hp]

/-- what the parent-link theorem says the output is: the reserved entries with the parent the
`FilterUnit` stack found (the root if none) -/
def filterLinks (ids : List Off) (u : UnitHdr) (st : List Parent) (es : List Entry) : List (Off × Option Off) :=
  ((withParents st es).filter (fun ep => ids.contains (u.base + ep.1.off))).map
    (fun ep => (u.base + ep.1.off, some (match ep.2 with | some p => u.base + p.off | none => u.rootOff)))

theorem convertLinks_eq (ids : List Off) (u : UnitHdr) : ∀ (es : List Entry) (st : List Parent),
    StackSorted st →
    (∀ e, e ∈ es → 0 < e.depth) →
    (∀ ep, ep ∈ withParents st es → ids.contains (u.base + ep.1.off) = true →
        ∀ p, ep.2 = some p → ids.contains (u.base + p.off) = true) →
    convertLinks ids u (convStack ids u st) es = filterLinks ids u st es := by
  intro es
  induction es with
  | nil => intro st _ _ _; rfl
  | cons e es ih =>
    intro st hs hd hc
    have hde := hd e List.mem_cons_self
    rw [convertLinks, filterLinks, withParents]
    rw [convStack_pop ids u st hs e.depth hde]
    have hs1 : StackSorted (popParents e.depth st) := popParents_sorted _ _ hs
    obtain ⟨_, _, _, hlt⟩ := popParents_split e.depth st hs
    -- the stack after the push, on both sides
    have hpush : (if (ids.contains (u.base + e.off) && e.hasChildren) = true
          then (e.depth, u.base + e.off) :: convStack ids u (popParents e.depth st)
          else convStack ids u (popParents e.depth st)) =
        convStack ids u (pushParent e (popParents e.depth st)) := by
      simp only [pushParent]
      by_cases hch : e.hasChildren = true
      · by_cases hr : ids.contains (u.base + e.off) = true
        · have hm : u.base + e.off ∈ ids := by simpa using hr
          simp [hch, hm, convStack]
        · have hm : ¬ (u.base + e.off ∈ ids) := by simpa using hr
          simp [hch, hm, convStack]
      · have hch' : e.hasChildren = false := by simpa using hch
        simp [hch']
    have hs2 : StackSorted (pushParent e (popParents e.depth st)) := by
      simp only [pushParent]
      by_cases hch : e.hasChildren = true
      · simp only [hch, if_true, StackSorted, List.pairwise_cons]
        exact ⟨fun b hb => hlt b hb, hs1⟩
      · simp only [hch]; exact hs1
    have hrec := ih (pushParent e (popParents e.depth st)) hs2
      (fun e' he' => hd e' (List.mem_cons_of_mem _ he'))
      (fun ep hep => hc ep (by rw [withParents]; exact List.mem_cons_of_mem _ hep))
    rw [hpush, hrec]
    by_cases hr : ids.contains (u.base + e.off) = true
    · simp only [hr, if_true, List.filter_cons, filterLinks, List.map_cons, List.cons.injEq, Prod.mk.injEq, true_and, and_true]
      -- the parent
      cases hp : (popParents e.depth st).head? with
      | none =>
        have : popParents e.depth st = [] := by
          cases h : popParents e.depth st with
          | nil => rfl
          | cons a l => rw [h] at hp; simp at hp
        simp [this, convStack]
      | some p =>
        have hpr : ids.contains (u.base + p.off) = true :=
          hc (e, some p) (by rw [withParents, hp]; exact List.mem_cons_self) hr p rfl
        cases h : popParents e.depth st with
        | nil => rw [h] at hp; simp at hp
        | cons a l =>
          rw [h] at hp
          simp only [List.head?_cons, Option.some.injEq] at hp
          subst hp
          have hm : u.base + a.off ∈ ids := by simpa using hpr
          simp [convStack, hm]
    · have hm : ¬ (u.base + e.off ∈ ids) := by simpa using hr
      simp [hm, filterLinks]


/-! ## the filter pass is total on sections with distinct offsets -/

namespace EdgeMap
theorem contains_push (m : EdgeMap) (x y z : Off) : (m.push x z).contains y = m.contains y := by
  simp only [contains, get?_push]
  by_cases h : y = x
  · subst h; simp
  · simp [h]

theorem contains_insert (m : EdgeMap) (x y : Off) (v : List Off) :
    (m.insert x v).contains y = (decide (y = x) || m.contains y) := by
  simp only [contains, get?_insert]
  by_cases h : y = x
  · simp [h]
  · simp [h]
end EdgeMap

/-- `recordEntry` succeeds when the entry offset is new and the parent (if any) is a key; the keys
afterwards are the old keys plus the entry -/
theorem recordEntry_ok (m : Mode) (u : UnitHdr) (d : Deps) (e : Entry) (parent : Option Parent)
    (hnew : d.edges.contains (u.base + e.off) = false)
    (hpar : ∀ p, parent = some p → d.edges.contains (u.base + p.off) = true) :
    ∃ d', recordEntry m u d e parent = .ok d' ∧
      ∀ x, d'.edges.contains x = (decide (x = u.base + e.off) || d.edges.contains x) := by
  have fin : ∀ (d0 : Deps) (deps : List Off), d0.edges.contains (u.base + e.off) = false →
      (∀ x, d0.edges.contains x = d.edges.contains x) →
      ∃ d', (do let d1 ← d0.addEntry m (u.base + e.off) deps
                pure (if e.required then d1.requireEntry (u.base + e.off) else d1) : Out Deps) = .ok d' ∧
        ∀ x, d'.edges.contains x = (decide (x = u.base + e.off) || d.edges.contains x) := by
    intro d0 deps h0 hk
    simp only [Deps.addEntry, h0, Bool.false_eq_true, and_false, if_false, Out.bind_ok, Out.pure_eq]
    refine ⟨_, rfl, ?_⟩
    intro x
    cases e.required
    · simp only [Bool.false_eq_true, if_false, EdgeMap.contains_insert, hk]
    · simp only [if_true, Deps.requireEntry, EdgeMap.contains_insert, hk]
  simp only [recordEntry]
  cases parent with
  | none => exact fin d _ hnew (fun _ => rfl)
  | some p =>
    simp only
    by_cases hb : (parentAllowsChildEdge p.tag && hasBackEdge e.tag e.hasDecl) = true
    · simp only [hb, if_true, Deps.addEdge, hpar p rfl, Out.bind_ok]
      apply fin
      · simp only [EdgeMap.contains_push]; exact hnew
      · intro x; simp only [EdgeMap.contains_push]
    · simp only [hb]
      exact fin d _ hnew (fun _ => rfl)

/-- one unit: the fold over its entries succeeds; `seen` bounds the keys from above -/
theorem foldOut_readEntry_ok (m : Mode) (u : UnitHdr) : ∀ (es : List Entry) (d : Deps) (st : List Parent),
    (∀ p, p ∈ st → d.edges.contains (u.base + p.off) = true) →
    (∀ e, e ∈ es → d.edges.contains (u.base + e.off) = false) →
    (es.map (fun e => u.base + e.off)).Nodup →
    ∃ d' st', foldOut (readEntry m u) (d, st) es = .ok (d', st') ∧
      ∀ x, d'.edges.contains x = (decide (x ∈ es.map (fun e => u.base + e.off)) || d.edges.contains x) := by
  intro es
  induction es with
  | nil => intro d st _ _ _; exact ⟨d, st, rfl, by simp⟩
  | cons e es ih =>
    intro d st hst hnew hnd
    rw [List.map_cons, List.nodup_cons] at hnd
    simp only [foldOut, readEntry]
    obtain ⟨d1, h1, hk1⟩ := recordEntry_ok m u d e (popParents e.depth st).head?
      (hnew e List.mem_cons_self)
      (fun p hp => hst p (popParents_subset _ _ _ (List.mem_of_mem_head? (by rw [hp]; rfl))))
    rw [h1]
    simp only [Out.map]
    obtain ⟨d', st', h2, hk2⟩ := ih d1 (pushParent e (popParents e.depth st))
      (by
        intro p hp
        rw [hk1]
        simp only [pushParent] at hp
        by_cases hc : e.hasChildren = true
        · simp only [hc, if_true] at hp
          rcases List.mem_cons.1 hp with h | h
          · subst h; simp
          · simp [hst p (popParents_subset _ _ _ h)]
        · simp only [hc] at hp
          simp [hst p (popParents_subset _ _ _ hp)])
      (by
        intro e' he'
        rw [hk1, hnew e' (List.mem_cons_of_mem _ he')]
        have : ¬ (u.base + e'.off = u.base + e.off) := by
          intro heq; exact hnd.1 (heq ▸ List.mem_map_of_mem he')
        simp only [this, decide_false, Bool.or_false])
      hnd.2
    refine ⟨d', st', h2, ?_⟩
    intro x
    rw [hk2, hk1]
    by_cases hx : x = u.base + e.off
    · subst hx; simp
    · simp [hx]


/-- section offsets of all DIEs, unit by unit -/
def allOffs (units : List (UnitHdr × List Entry)) : List Off :=
  units.flatMap (fun ue => ue.2.map (fun e => ue.1.base + e.off))

theorem withParents_fst : ∀ (es : List Entry) (st : List Parent), (withParents st es).map (·.1) = es := by
  intro es
  induction es with
  | nil => intro st; rfl
  | cons e es ih => intro st; simp only [withParents, List.map_cons, ih]

theorem records_off (units : List (UnitHdr × List Entry)) : (records units).map Rec.off = allOffs units := by
  induction units with
  | nil => rfl
  | cons ue units ih =>
    simp only [records, allOffs, List.flatMap_cons, List.map_append] at ih ⊢
    rw [ih]
    congr 1
    simp only [unitRecs, List.map_map]
    have := withParents_fst ue.2 []
    conv => rhs; rw [← this]
    simp only [List.map_map]
    rfl

theorem foldOut_filterUnit_ok (m : Mode) : ∀ (units : List (UnitHdr × List Entry)) (d : Deps),
    (∀ x, x ∈ allOffs units → d.edges.contains x = false) →
    (allOffs units).Nodup →
    ∃ d', foldOut (filterUnit m) d units = .ok d' ∧
      ∀ x, d'.edges.contains x = (decide (x ∈ allOffs units) || d.edges.contains x) := by
  intro units
  induction units with
  | nil => intro d _ _; exact ⟨d, rfl, by simp [allOffs]⟩
  | cons ue units ih =>
    intro d hnew hnd
    simp only [allOffs, List.flatMap_cons] at hnew hnd
    rw [List.nodup_append] at hnd
    obtain ⟨d1, st1, h1, hk1⟩ := foldOut_readEntry_ok m ue.1 ue.2 d [] (by intro p hp; cases hp)
      (fun e he => hnew _ (List.mem_append_left _ (List.mem_map_of_mem he))) hnd.1
    simp only [foldOut, filterUnit, h1, Out.map]
    obtain ⟨d', h2, hk2⟩ := ih d1
      (by
        intro x hx
        rw [hk1, hnew x (List.mem_append_right _ hx)]
        have : ¬ x ∈ ue.2.map (fun e => ue.1.base + e.off) := fun h => hnd.2.2 x h x hx rfl
        simp [this])
      hnd.2.1
    refine ⟨d', h2, ?_⟩
    intro x
    rw [hk2, hk1]
    simp only [allOffs, List.flatMap_cons, List.mem_append]
    by_cases ha : x ∈ ue.2.map (fun e => ue.1.base + e.off)
    · simp [ha]
    · by_cases hb : x ∈ List.flatMap (fun ue => ue.2.map (fun e => ue.1.base + e.off)) units
      · simp [ha, hb]
      · simp [ha, hb]

/-- the filter pass never panics on a section with distinct DIE offsets: `add_edge` always finds
the parent (`unwrap`), `add_entry` never sees a key twice (`debug_assert!`) -/
theorem buildDeps_total (m : Mode) (units : List (UnitHdr × List Entry))
    (hd : ((records units).map Rec.off).Nodup) : ∃ d, buildDeps m units = .ok d := by
  rw [records_off] at hd
  obtain ⟨d, h, _⟩ := foldOut_filterUnit_ok m units {} (by intro x _; rfl) hd
  exact ⟨d, by rw [buildDeps, buildDepsFrom_nil]; exact h⟩


theorem records_mem (units : List (UnitHdr × List Entry)) (r : Rec) (hr : r ∈ records units) :
    ∃ ue, ue ∈ units ∧ r.unit = ue.1 ∧ r.e ∈ ue.2 := by
  simp only [records, List.mem_flatMap] at hr
  obtain ⟨ue, hue, hr⟩ := hr
  simp only [unitRecs, List.mem_map] at hr
  obtain ⟨ep, hep, hr⟩ := hr
  subst hr
  refine ⟨ue, hue, rfl, ?_⟩
  have := withParents_fst ue.2 []
  rw [← this]
  exact List.mem_map_of_mem hep

theorem containsOff_entry (u : UnitHdr) (off : Nat) (h : u.inBounds off = true) :
    u.containsOff (u.base + off) = true := by
  simp only [UnitHdr.containsOff, Nat.le_add_right, decide_true, Bool.true_and, Nat.add_sub_cancel_left]
  exact h


/-! ## small facts used by the property theorems -/

theorem firstErr_none {l : List (Option ConvErr)} : firstErr l = none ↔ ∀ x, x ∈ l → x = none := by
  induction l with
  | nil => simp [firstErr]
  | cons a l ih =>
    cases a with
    | none => simp [firstErr, ih]
    | some e => simp [firstErr]

theorem convUnitRef_none {ids : List Off} {u : UnitHdr} {val : Nat} :
    convUnitRef ids u val = none ↔ (u.inBounds val = true ∧ u.base + val ∈ ids) := by
  simp only [convUnitRef]
  by_cases h : (u.inBounds val && ids.contains (u.base + val)) = true
  · simp only [h, if_true, true_iff]
    simpa using h
  · have h' : (u.inBounds val && ids.contains (u.base + val)) = false := by simpa using h
    simp only [h', Bool.false_eq_true, if_false]
    constructor
    · intro hc; cases hc
    · intro hc; exact (h (by simpa using hc)).elim

theorem convInfoRef_none {ids : List Off} {val : Off} :
    convInfoRef ids val = none ↔ val ∈ ids := by
  simp only [convInfoRef]
  by_cases h : ids.contains val = true
  · simp only [h, if_true, true_iff]; simpa using h
  · have h' : ids.contains val = false := by simpa using h
    simp only [h', Bool.false_eq_true, if_false]
    constructor
    · intro hc; cases hc
    · intro hc; exact (h (by simpa using hc)).elim

/-- the DIE offsets of the section are pairwise distinct -/
def Distinct (units : List (UnitHdr × List Entry)) : Prop := ((records units).map Rec.off).Nodup

/-- a section as the raw reader can deliver it: distinct DIE offsets, units in ascending
non-overlapping order, every DIE inside the bounds of its unit -/
structure WellFormed (units : List (UnitHdr × List Entry)) : Prop where
  distinct : Distinct units
  ascending : (units.map (·.1)).Pairwise (fun u v => u.endOff ≤ v.base)
  inside : ∀ ue, ue ∈ units → ∀ e, e ∈ ue.2 → ue.1.inBounds e.off = true


/-- per unit: what `convertUnits` returns when it succeeds -/
theorem convertUnits_links (ids : List Off) : ∀ (units : List (UnitHdr × List Entry))
    (ras : List (List AttrRef)) (us : List (List (Off × Option Off))),
    (∀ ue, ue ∈ units → (∀ e, e ∈ ue.2 → 0 < e.depth) ∧
      (∀ ep, ep ∈ withParents [] ue.2 → ids.contains (ue.1.base + ep.1.off) = true →
        ∀ p, ep.2 = some p → ids.contains (ue.1.base + p.off) = true)) →
    convertUnits ids units ras = .ok us →
    us = units.map (fun ue => filterLinks ids ue.1 [] ue.2) := by
  intro units
  induction units with
  | nil => intro ras us _ h; simp only [convertUnits, Except.ok.injEq] at h; simp [← h]
  | cons ue units ih =>
    intro ras us hP h
    obtain ⟨u, es⟩ := ue
    rw [convertUnits] at h
    cases hr : firstErr ((ras.headD []).map (convAttr ids u)) with
    | some e => rw [hr] at h; cases h
    | none =>
      rw [hr] at h
      simp only at h
      cases hc : convertEntries ids u (if es.isEmpty then [] else [(0, u.rootOff)]) es [] with
      | error e => rw [hc] at h; cases h
      | ok r =>
        rw [hc] at h
        simp only at h
        cases hrest : convertUnits ids units ras.tail with
        | error e => rw [hrest] at h; cases h
        | ok rs =>
          rw [hrest] at h
          simp only [Except.ok.injEq] at h
          have h1 := ih ras.tail rs (fun ue hue => hP ue (List.mem_cons_of_mem _ hue)) hrest
          have h2 : r = filterLinks ids u [] es := by
            cases es with
            | nil =>
              simp only [convertEntries, Except.ok.injEq] at hc
              simp [← hc, filterLinks, withParents]
            | cons e es' =>
              simp only [List.isEmpty_cons, Bool.false_eq_true, if_false] at hc
              obtain ⟨hd, hcl⟩ := hP (u, e :: es') List.mem_cons_self
              have h1' := convertEntries_links ids u (e :: es') _ [] r hc
              have h2' := convertLinks_eq ids u (e :: es') [] List.Pairwise.nil hd hcl
              simp only [convStack, List.filter_nil, List.map_nil, List.nil_append] at h2'
              rw [h1', h2']; rfl
          rw [← h, h1, h2]; rfl



/-! ## the references of the unit roots (fix f623d29): required, outside the graph -/

/-- put a `required` prefix in front of a result computed from an empty `required` list -/
def Deps.frame (req : List Off) (r : Deps) : Deps := ⟨r.edges, req ++ r.required⟩

/-- `recordEntry` reads only the map and only appends to `required` -/
theorem recordEntry_frame (m : Mode) (u : UnitHdr) (d : Deps) (e : Entry) (parent : Option Parent) :
    recordEntry m u d e parent = (recordEntry m u ⟨d.edges, []⟩ e parent).map (Deps.frame d.required) := by
  have fin : ∀ (edges : EdgeMap) (deps : List Off),
      (do let d1 ← (⟨edges, d.required⟩ : Deps).addEntry m (u.base + e.off) deps
          pure (if e.required then d1.requireEntry (u.base + e.off) else d1) : Out Deps) =
      ((do let d1 ← (⟨edges, []⟩ : Deps).addEntry m (u.base + e.off) deps
           pure (if e.required then d1.requireEntry (u.base + e.off) else d1) : Out Deps)).map
        (Deps.frame d.required) := by
    intro edges deps
    simp only [Deps.addEntry]
    by_cases hc : m = Mode.debug ∧ edges.contains (u.base + e.off) = true
    · simp [hc, Out.map]
    · simp only [hc, if_false, Out.bind_ok, Out.pure_eq, Out.map]
      cases e.required <;> simp [Deps.frame, Deps.requireEntry]
  simp only [recordEntry]
  cases parent with
  | none => exact fin d.edges _
  | some p =>
    simp only
    by_cases hb : (parentAllowsChildEdge p.tag && hasBackEdge e.tag e.hasDecl) = true
    · simp only [hb, if_true, Deps.addEdge]
      by_cases hc : d.edges.contains (u.base + p.off) = true
      · simp only [hc, if_true, Out.bind_ok]
        exact fin _ _
      · simp [hc, Out.map]
    · simp only [hb]
      exact fin d.edges _


theorem frame_frame (a b : List Off) (r : Deps) : Deps.frame a (Deps.frame b r) = Deps.frame (a ++ b) r := by
  simp [Deps.frame, List.append_assoc]

theorem Out.map_map {α β γ : Type} (f : α → β) (g : β → γ) (x : Out α) : (x.map f).map g = x.map (g ∘ f) := by
  cases x <;> rfl

theorem foldOut_readEntry_frame (m : Mode) (u : UnitHdr) : ∀ (es : List Entry) (d : Deps) (st : List Parent),
    foldOut (readEntry m u) (d, st) es =
      (foldOut (readEntry m u) (⟨d.edges, []⟩, st) es).map (fun r => (Deps.frame d.required r.1, r.2)) := by
  intro es
  induction es with
  | nil => intro d st; simp [foldOut, Out.map, Deps.frame]
  | cons e es ih =>
    intro d st
    simp only [foldOut, readEntry]
    rw [recordEntry_frame]
    cases hr : recordEntry m u ⟨d.edges, []⟩ e (popParents e.depth st).head? with
    | ok r =>
      simp only [Out.map]
      have e1 : foldOut (readEntry m u) (Deps.frame d.required r, pushParent e (popParents e.depth st)) es =
          (foldOut (readEntry m u) (⟨r.edges, []⟩, pushParent e (popParents e.depth st)) es).map
            (fun x => (Deps.frame (d.required ++ r.required) x.1, x.2)) := ih (Deps.frame d.required r) _
      have e2 := ih r (pushParent e (popParents e.depth st))
      rw [e1, e2]
      generalize foldOut (readEntry m u) (⟨r.edges, []⟩, pushParent e (popParents e.depth st)) es = X
      cases X <;> simp [Out.map, frame_frame]
    | err e => rfl
    | panic w => rfl
    | diverge => rfl

theorem filterUnit_frame (m : Mode) (d : Deps) (ue : UnitHdr × List Entry) :
    filterUnit m d ue = (filterUnit m ⟨d.edges, []⟩ ue).map (Deps.frame d.required) := by
  simp only [filterUnit]
  rw [foldOut_readEntry_frame, Out.map_map, Out.map_map]
  rfl

theorem requireRoot_spec (u : UnitHdr) (ra : List AttrRef) (d : Deps) :
    (requireRoot u ra d).edges = d.edges ∧
    (requireRoot u ra d).required = d.required ++ ra.flatMap (attrDeps u) := by
  simp only [requireRoot]
  generalize ra.flatMap (attrDeps u) = l
  induction l generalizing d with
  | nil => simp
  | cons x l ih =>
    simp only [List.foldl_cons]
    obtain ⟨h1, h2⟩ := ih (d.requireEntry x)
    exact ⟨h1, by rw [h2]; simp [Deps.requireEntry]⟩

/-- the offsets required on behalf of the unit roots -/
def rootReqs : List (UnitHdr × List Entry) → List (List AttrRef) → List Off
  | [], _ => []
  | ue :: rest, ras => (ras.headD []).flatMap (attrDeps ue.1) ++ rootReqs rest ras.tail

theorem rootReqs_nil : ∀ units, rootReqs units [] = [] := by
  intro units
  induction units with
  | nil => rfl
  | cons ue units ih => simp [rootReqs, ih]

/-- the filter pass with root attributes = the pass without them, plus the root references in
`required`: same map, same outcome kind -/
theorem buildDepsFrom_roots (m : Mode) : ∀ (units : List (UnitHdr × List Entry)) (ras : List (List AttrRef)) (d : Deps),
    match buildDepsFrom m ⟨d.edges, []⟩ units [] with
    | .ok d0 => ∃ d', buildDepsFrom m d units ras = .ok d' ∧ d'.edges = d0.edges ∧
        ∀ x, x ∈ d'.required ↔ (x ∈ d.required ∨ x ∈ d0.required ∨ x ∈ rootReqs units ras)
    | .err e => buildDepsFrom m d units ras = .err e
    | .panic w => buildDepsFrom m d units ras = .panic w
    | .diverge => buildDepsFrom m d units ras = .diverge := by
  intro units
  induction units with
  | nil => intro ras d; exact ⟨d, rfl, rfl, by simp [rootReqs]⟩
  | cons ue units ih =>
    intro ras d
    obtain ⟨hre, hrr⟩ := requireRoot_spec ue.1 (ras.headD []) d
    have hroot0 : requireRoot ue.1 (([] : List (List AttrRef)).headD []) ⟨d.edges, []⟩ = ⟨d.edges, []⟩ := by
      simp [requireRoot]
    simp only [buildDepsFrom, hroot0, List.tail_nil]
    rw [filterUnit_frame m (requireRoot ue.1 (ras.headD []) d), hre]
    cases hF : filterUnit m ⟨d.edges, []⟩ ue with
    | ok r =>
      simp only [Out.map]
      have h1 := ih ras.tail (Deps.frame (requireRoot ue.1 (ras.headD []) d).required r)
      have h2 := ih [] r
      simp only [Deps.frame] at h1
      cases hB : buildDepsFrom m ⟨r.edges, []⟩ units [] with
      | ok b =>
        rw [hB] at h1 h2
        obtain ⟨d', hd', he', hm'⟩ := h1
        obtain ⟨d0, hd0, he0, hm0⟩ := h2
        rw [hd0]
        refine ⟨d', hd', by rw [he', he0], ?_⟩
        intro x
        rw [hm', hm0, hrr]
        simp only [rootReqs, rootReqs_nil, List.mem_append, List.not_mem_nil, or_false]
        constructor
        · rintro (((h | h) | h) | h | h)
          · exact Or.inl h
          · exact Or.inr (Or.inr (Or.inl h))
          · exact Or.inr (Or.inl (Or.inl h))
          · exact Or.inr (Or.inl (Or.inr h))
          · exact Or.inr (Or.inr (Or.inr h))
        · rintro (h | (h | h) | h | h)
          · exact Or.inl (Or.inl (Or.inl h))
          · exact Or.inl (Or.inr h)
          · exact Or.inr (Or.inl h)
          · exact Or.inl (Or.inl (Or.inr h))
          · exact Or.inr (Or.inr h)
      | err e => rw [hB] at h1 h2; rw [h2]; exact h1
      | panic w => rw [hB] at h1 h2; rw [h2]; exact h1
      | diverge => rw [hB] at h1 h2; rw [h2]; exact h1
    | err e => rfl
    | panic w => rfl
    | diverge => rfl


/-- the filter pass with root attributes: the graph of the pass without them, and `required`
extended by the root references -/
theorem buildDeps_roots (m : Mode) (units : List (UnitHdr × List Entry)) (ras : List (List AttrRef))
    (d : Deps) (h : buildDeps m units ras = .ok d) :
    ∃ d0, buildDeps m units = .ok d0 ∧ d.edges = d0.edges ∧
      ∀ x, x ∈ d.required ↔ (x ∈ d0.required ∨ x ∈ rootReqs units ras) := by
  have hr := buildDepsFrom_roots m units ras {}
  simp only [buildDeps] at h ⊢
  cases h0 : buildDepsFrom m ({} : Deps) units [] with
  | ok d0 =>
    have h0' : buildDepsFrom m ⟨({} : Deps).edges, []⟩ units [] = .ok d0 := h0
    rw [h0'] at hr
    obtain ⟨d', hd', he, hm⟩ := hr
    rw [hd'] at h
    simp only [Out.ok.injEq] at h
    subst h
    exact ⟨d0, rfl, he, fun x => by rw [hm x]; simp⟩
  | err e =>
    have h0' : buildDepsFrom m ⟨({} : Deps).edges, []⟩ units [] = .err e := h0
    rw [h0'] at hr; rw [hr] at h; cases h
  | panic w =>
    have h0' : buildDepsFrom m ⟨({} : Deps).edges, []⟩ units [] = .panic w := h0
    rw [h0'] at hr; rw [hr] at h; cases h
  | diverge =>
    have h0' : buildDepsFrom m ⟨({} : Deps).edges, []⟩ units [] = .diverge := h0
    rw [h0'] at hr; rw [hr] at h; cases h

/-- the filter pass never panics on a section with distinct DIE offsets, whatever the roots reference -/
theorem buildDeps_total_roots (m : Mode) (units : List (UnitHdr × List Entry)) (ras : List (List AttrRef))
    (hd : ((records units).map Rec.off).Nodup) : ∃ d, buildDeps m units ras = .ok d := by
  obtain ⟨d0, h0⟩ := buildDeps_total m units hd
  have hr := buildDepsFrom_roots m units ras {}
  have h0' : buildDepsFrom m ⟨({} : Deps).edges, []⟩ units [] = .ok d0 := h0
  rw [h0'] at hr
  obtain ⟨d', hd', _, _⟩ := hr
  exact ⟨d', hd'⟩

/-- every reference recorded for the root of the `i`-th unit is in `rootReqs` -/
theorem mem_rootReqs : ∀ (units : List (UnitHdr × List Entry)) (ras : List (List AttrRef)) (i : Nat)
    (ue : UnitHdr × List Entry) (ra : List AttrRef), units[i]? = some ue → ras[i]? = some ra →
    ∀ a, a ∈ ra → ∀ t, t ∈ attrDeps ue.1 a → t ∈ rootReqs units ras := by
  intro units
  induction units with
  | nil => intro ras i ue ra h; simp at h
  | cons u0 units ih =>
    intro ras i ue ra hu hr a ha t ht
    cases ras with
    | nil => simp at hr
    | cons r0 ras =>
      cases i with
      | zero =>
        simp only [List.getElem?_cons_zero, Option.some.injEq] at hu hr
        subst hu; subst hr
        simp only [rootReqs, List.headD_cons, List.mem_append]
        exact Or.inl (List.mem_flatMap.2 ⟨a, ha, ht⟩)
      | succ i =>
        simp only [List.getElem?_cons_succ] at hu hr
        simp only [rootReqs, List.tail_cons, List.mem_append]
        exact Or.inr (ih ras i ue ra hu hr a ha t ht)

/-- if every recorded target of an attribute that resolves in `ids` also resolves in `ids'`, then an
attribute that converts with `ids` converts with `ids'` (a reference nested deeper than
`MAX_ENTRY_VALUE_DEPTH` is not recorded, but it makes the conversion fail with either table) -/
theorem convAttr_keep (ids ids' : List Off) (u : UnitHdr) (a : AttrRef)
    (keep : ∀ t, t ∈ attrDeps u a → t ∈ ids → t ∈ ids')
    (hfull : convAttr ids u a = none) : convAttr ids' u a = none := by
  have hu : ∀ val, (∀ t, t ∈ (if u.inBounds val then [u.base + val] else []) → t ∈ attrDeps u a) →
      convUnitRef ids u val = none → convUnitRef ids' u val = none := by
    intro val hsub h
    rw [convUnitRef_none] at h ⊢
    exact ⟨h.1, keep _ (hsub _ (by simp [h.1])) h.2⟩
  have hi : ∀ val, val ∈ attrDeps u a →
      convInfoRef ids val = none → convInfoRef ids' val = none := by
    intro val hsub h
    rw [convInfoRef_none] at h ⊢
    exact keep _ hsub h
  have hop : ∀ (ops : List OpRef),
      (∀ o, o ∈ ops → ∀ t, t ∈ opDeps u o → t ∈ attrDeps u a) →
      firstErr (ops.map (convOp ids u)) = none →
      firstErr (ops.map (convOp ids' u)) = none := by
    intro ops hsub h
    rw [firstErr_none] at h ⊢
    intro x hx
    simp only [List.mem_map] at hx
    obtain ⟨o, ho, hx⟩ := hx
    have h1 := h (convOp ids u o) (List.mem_map.2 ⟨o, ho, rfl⟩)
    subst hx
    cases o with
    | unitRef val => exact hu val (fun t ht => hsub _ ho t (by simpa [opDeps] using ht)) h1
    | infoRef val => exact hi val (hsub _ ho val (by simp [opDeps])) h1
    | implicitRef val => exact hi val (hsub _ ho val (by simp [opDeps])) h1
    | nestedUnitRef k val =>
      -- a reference nested deeper than the bound makes the unfiltered conversion fail
      simp only [convOp] at h1 ⊢
      by_cases hk : scansDepth k = true
      · simp only [hk, if_true] at h1 ⊢
        exact hu val (fun t ht => hsub _ ho t (by
          simp only [opDeps, hk, Bool.true_and]; exact ht)) h1
      · simp [hk] at h1
    | nestedInfoRef k val =>
      simp only [convOp] at h1 ⊢
      by_cases hk : scansDepth k = true
      · simp only [hk, if_true] at h1 ⊢
        exact hi val (hsub _ ho val (by simp [opDeps, hk])) h1
      · simp [hk] at h1
    | nestedPlain k => exact h1
  cases a with
  | unitRef val => exact hu val (fun t ht => by simpa [attrDeps] using ht) hfull
  | infoRef val => exact hi val (by simp [attrDeps]) hfull
  | expr ops =>
    simp only [convAttr] at hfull ⊢
    exact hop ops (fun o ho t ht => by
      simp only [attrDeps]; exact List.mem_flatMap.2 ⟨o, ho, ht⟩) hfull
  | loclist locs =>
    simp only [convAttr] at hfull ⊢
    rw [firstErr_none] at hfull ⊢
    intro x hx
    simp only [List.mem_map] at hx
    obtain ⟨l, hl, hx⟩ := hx
    subst hx
    refine hop l.2 ?_ (hfull _ (List.mem_map.2 ⟨l, hl, rfl⟩))
    intro o ho t ht
    simp only [attrDeps]
    exact List.mem_flatMap.2 ⟨l, hl, List.mem_flatMap.2 ⟨o, ho, ht⟩⟩


/-! ## `write` resolves every reference of a converted split unit -/

/-- an attribute that converts has all its recorded targets in the id table -/
theorem convAttr_targets (ids : List Off) (u : UnitHdr) (a : AttrRef) (h : convAttr ids u a = none) :
    ∀ t, t ∈ attrDeps u a → t ∈ ids := by
  have hu : ∀ val, convUnitRef ids u val = none → ∀ t, t ∈ (if u.inBounds val then [u.base + val] else []) → t ∈ ids := by
    intro val h t ht
    rw [convUnitRef_none] at h
    simp only [h.1, if_true, List.mem_singleton] at ht
    subst ht; exact h.2
  have hi : ∀ val, convInfoRef ids val = none → val ∈ ids := fun val h => convInfoRef_none.1 h
  have hop : ∀ o, convOp ids u o = none → ∀ t, t ∈ opDeps u o → t ∈ ids := by
    intro o h t ht
    cases o with
    | unitRef v => exact hu v h t (by simpa [opDeps] using ht)
    | infoRef v => simp only [opDeps, List.mem_singleton] at ht; subst ht; exact hi _ h
    | implicitRef v => simp only [opDeps, List.mem_singleton] at ht; subst ht; exact hi _ h
    | nestedUnitRef k v =>
      simp only [convOp] at h
      by_cases hk : scansDepth k = true
      · simp only [hk, if_true] at h
        simp only [opDeps, hk, Bool.true_and] at ht
        exact hu v h t ht
      · simp [hk] at h
    | nestedInfoRef k v =>
      simp only [convOp] at h
      by_cases hk : scansDepth k = true
      · simp only [hk, if_true] at h
        simp only [opDeps, hk, if_true, List.mem_singleton] at ht
        subst ht; exact hi _ h
      · simp [hk] at h
    | nestedPlain k => simp [opDeps] at ht
  have hops : ∀ ops : List OpRef, firstErr (ops.map (convOp ids u)) = none →
      ∀ t, t ∈ ops.flatMap (opDeps u) → t ∈ ids := by
    intro ops h t ht
    rw [firstErr_none] at h
    obtain ⟨o, ho, hto⟩ := List.mem_flatMap.1 ht
    exact hop o (h _ (List.mem_map.2 ⟨o, ho, rfl⟩)) t hto
  intro t ht
  cases a with
  | unitRef v => exact hu v h t (by simpa [attrDeps] using ht)
  | infoRef v => simp only [attrDeps, List.mem_singleton] at ht; subst ht; exact hi _ h
  | expr ops => exact hops ops h t ht
  | loclist locs =>
    simp only [convAttr] at h
    rw [firstErr_none] at h
    simp only [attrDeps] at ht
    obtain ⟨l, hl, htl⟩ := List.mem_flatMap.1 ht
    exact hops l.2 (h _ (List.mem_map.2 ⟨l, hl, rfl⟩)) t htl

theorem attrTargets_subset (u : UnitHdr) (a : AttrRef) : ∀ t, t ∈ attrTargets u a → t ∈ attrDeps u a := by
  intro t ht
  cases a with
  | loclist locs =>
    simp only [attrTargets] at ht
    simp only [attrDeps]
    obtain ⟨l, hl, htl⟩ := List.mem_flatMap.1 ht
    refine List.mem_flatMap.2 ⟨l, hl, ?_⟩
    by_cases h1 : l.1 = true
    · simpa [h1] using htl
    · simp [h1] at htl
  | unitRef v => exact ht
  | infoRef v => exact ht
  | expr ops => exact ht

/-- a successful `convertEntries`: every reserved entry is in the output and all its attributes converted -/
theorem convertEntries_ok (ids : List Off) (u : UnitHdr) : ∀ (es : List Entry) (st : List (Int × Off))
    (acc res : List (Off × Option Off)),
    convertEntries ids u st es acc = .ok res →
    (∀ p, p ∈ acc → p ∈ res) ∧
    ∀ e, e ∈ es → ids.contains (u.base + e.off) = true →
      (u.base + e.off) ∈ res.map (·.1) ∧ firstErr (e.attrs.map (convAttr ids u)) = none := by
  intro es
  induction es with
  | nil =>
    intro st acc res h
    simp only [convertEntries, Except.ok.injEq] at h
    subst h
    exact ⟨fun p hp => List.mem_reverse.2 hp, fun e he => by cases he⟩
  | cons e es ih =>
    intro st acc res h
    rw [convertEntries] at h
    by_cases hr : ids.contains (u.base + e.off) = true
    · simp only [hr, if_true, Bool.true_and] at h
      cases hf : firstErr (e.attrs.map (convAttr ids u)) with
      | some err => rw [hf] at h; cases h
      | none =>
        rw [hf] at h
        simp only at h
        obtain ⟨h1, h2⟩ := ih _ _ _ h
        refine ⟨fun p hp => h1 p (List.mem_cons_of_mem _ hp), ?_⟩
        intro e' he' hres
        rcases List.mem_cons.1 he' with h3 | h3
        · subst h3
          exact ⟨List.mem_map.2 ⟨_, h1 _ List.mem_cons_self, rfl⟩, hf⟩
        · exact h2 e' h3 hres
    · have hr' : ids.contains (u.base + e.off) = false := by simpa using hr
      simp only [hr', Bool.false_and, Bool.false_eq_true, if_false] at h
      obtain ⟨h1, h2⟩ := ih _ _ _ h
      refine ⟨h1, ?_⟩
      intro e' he' hres
      rcases List.mem_cons.1 he' with h3 | h3
      · subst h3; rw [hr'] at hres; cases hres
      · exact h2 e' h3 hres


end Gimli.Filter
