import Gimli.Lemmas.AttrRoundtrip
import Gimli.Lemmas.LebU16
/-! Helper lemmas for C03, part 5: chains of `DW_FORM_indirect`. -/
set_option linter.unusedSimpArgs false
namespace Gimli.Attr
open Gimli Gimli.Ints Gimli.Spec.Attr

/-- a form the decoder knows by name -/
def Form.Known : Form → Prop
  | .unknown _ => False
  | _ => True

theorem ofCode_code (f : Form) (h : f.Known) : Form.ofCode f.code = f := by
  cases f <;> first | rfl | exact h.elim

theorem code_lt (f : Form) (h : f.Known) : f.code < 2 ^ 16 := by
  cases f <;> first | decide | exact h.elim

/-- `k` times `DW_FORM_indirect` as the dynamic form, then the real form's code -/
def indirectPrefix (k : Nat) (form : Form) : Bytes := List.replicate k 0x16 ++ Leb.encodeU form.code

theorem parseLoop_indirect_chain (enc : Encoding) (spec : Spec) (form : Form) (hk : form.Known)
    (hni : form ≠ .indirect) : ∀ (k m : Nat) (tl : Bytes),
    parseLoop enc spec (k + 2 + m) .indirect (indirectPrefix k form ++ tl) = parseDirect enc spec form tl := by
  intro k
  induction k with
  | zero =>
    intro m tl
    simp only [indirectPrefix, List.replicate_zero, List.nil_append]
    rw [show 0 + 2 + m = (m + 1) + 1 by omega, parseLoop_succ_indirect]
    rw [Leb.u16_roundtrip _ (code_lt form hk)]
    simp only [Out.bind_ok, ofCode_code form hk]
    exact parseLoop_succ_direct _ _ _ _ _ hni
  | succ k ih =>
    intro m tl
    simp only [indirectPrefix, List.replicate_succ, List.cons_append, List.append_assoc]
    rw [show k + 1 + 2 + m = (k + 2 + m) + 1 by omega, parseLoop_succ_indirect]
    have : Leb.u16 (0x16 :: (List.replicate k 0x16 ++ (Leb.encodeU form.code ++ tl)))
        = .ok (0x16, List.replicate k 0x16 ++ (Leb.encodeU form.code ++ tl)) := by
      simp [Leb.u16]
    rw [this]
    simp only [Out.bind_ok]
    have h16 : Form.ofCode 0x16 = .indirect := by decide
    rw [h16]
    have := ih m tl
    simp only [indirectPrefix, List.append_assoc] at this
    exact this

theorem indirectPrefix_length (k : Nat) (form : Form) : k + 1 ≤ (indirectPrefix k form).length := by
  simp only [indirectPrefix, List.length_append, List.length_replicate]
  have : Leb.encodeU form.code ≠ [] := by
    unfold Leb.encodeU Leb.encodeUFuel; simp only; split <;> simp
  cases h : Leb.encodeU form.code with
  | nil => exact absurd h this
  | cons b t => simp

end Gimli.Attr
