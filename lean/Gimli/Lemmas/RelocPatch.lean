import Gimli.Model.Reloc
import Gimli.Lemmas.Ints
namespace Gimli.Wr
open Gimli

/-! ## `patch` / `write_at` -/

theorem patch_length {b : Bytes} {off : Nat} {x : Bytes} (h : off + x.length ≤ b.length) :
    (patch b off x).length = b.length := by
  simp [patch]; omega

theorem getElem?_patch {b : Bytes} {off : Nat} {x : Bytes} (h : off + x.length ≤ b.length)
    (i : Nat) :
    (patch b off x)[i]? = if i < off then b[i]? else if i < off + x.length then x[i - off]? else b[i]? := by
  unfold patch
  have hto : (b.take off).length = off := by simp; omega
  by_cases h1 : i < off
  · simp only [h1, if_true, List.append_assoc]
    rw [List.getElem?_append_left (by omega)]
    simp [h1]
  · simp only [h1, if_false]
    by_cases h2 : i < off + x.length
    · simp only [h2, if_true, List.append_assoc]
      rw [List.getElem?_append_right (by omega), hto, List.getElem?_append_left (by omega)]
    · simp only [h2, if_false, List.append_assoc]
      rw [List.getElem?_append_right (by omega), hto,
        List.getElem?_append_right (by omega), List.getElem?_drop]
      congr 1; omega

theorem writeAt_ok_iff {b : Bytes} {off : Nat} {x b' : Bytes} :
    writeAt b off x = .ok b' ↔ off + x.length ≤ b.length ∧ b' = patch b off x := by
  unfold writeAt
  by_cases h1 : off > b.length
  · simp [h1]; omega
  · by_cases h2 : x.length > b.length - off
    · simp [h1, h2]; omega
    · simp only [h1, h2, if_false, Out.ok.injEq]
      constructor
      · intro h; exact ⟨by omega, h.symm⟩
      · intro h; exact h.2.symm

theorem writeAt_ok {b : Bytes} {off : Nat} {x : Bytes} (h : off + x.length ≤ b.length) :
    writeAt b off x = .ok (patch b off x) := writeAt_ok_iff.mpr ⟨h, rfl⟩

/-- `write_at` on two buffers of the same length fails the same way -/
theorem writeAt_length_congr {b c : Bytes} (h : b.length = c.length) (off : Nat) (x : Bytes) :
    (∀ b', writeAt b off x ≠ .ok b') → writeAt c off x = writeAt b off x := by
  intro hno
  unfold writeAt at *
  rw [h] at *
  by_cases h1 : off > c.length
  · simp [h1]
  · by_cases h2 : x.length > c.length - off
    · simp [h1, h2]
    · simp [h1, h2] at hno

theorem patch_append {b : Bytes} {off : Nat} {x y : Bytes} (h : off + x.length ≤ b.length) :
    patch (b ++ y) off x = patch b off x ++ y := by
  apply List.ext_getElem?
  intro i
  have hl : (patch b off x).length = b.length := patch_length h
  rw [getElem?_patch (b := b ++ y) (by simp; omega), List.getElem?_append (l₁ := patch b off x),
    hl, getElem?_patch h, List.getElem?_append]
  by_cases hi : i < b.length
  · simp [hi]
  · have h1 : ¬ i < off := by omega
    have h2 : ¬ i < off + x.length := by omega
    simp [hi, h1, h2]

theorem patch_at_end {b z x : Bytes} (h : x.length = z.length) :
    patch (b ++ z) b.length x = b ++ x := by
  apply List.ext_getElem?
  intro i
  rw [getElem?_patch (b := b ++ z) (by simp; omega), List.getElem?_append, List.getElem?_append]
  by_cases h1 : i < b.length
  · simp [h1]
  · simp only [h1, if_false]
    by_cases h2 : i < b.length + x.length
    · simp [h2]
    · simp only [h2, if_false]
      rw [List.getElem?_eq_none (by omega), List.getElem?_eq_none (by omega)]

theorem patch_comm {b : Bytes} {o p : Nat} {x y : Bytes} (hx : o + x.length ≤ b.length)
    (hy : p + y.length ≤ b.length) (hd : p + y.length ≤ o ∨ o + x.length ≤ p) :
    patch (patch b o x) p y = patch (patch b p y) o x := by
  apply List.ext_getElem?
  intro i
  rw [getElem?_patch (by rw [patch_length hx]; exact hy), getElem?_patch hx,
    getElem?_patch (by rw [patch_length hy]; exact hx), getElem?_patch hy]
  by_cases h1 : i < p <;> by_cases h2 : i < p + y.length <;> by_cases h3 : i < o <;>
    by_cases h4 : i < o + x.length <;> simp [h1, h2, h3, h4] <;> omega

/-- two buffers agree outside `[o, o+n)` -/
def AgreeOut (o n : Nat) (b c : Bytes) : Prop :=
  b.length = c.length ∧ ∀ i, (i < o ∨ o + n ≤ i) → b[i]? = c[i]?

theorem AgreeOut.patch_same {o n : Nat} {b c : Bytes} (h : AgreeOut o n b c) {p : Nat} {y : Bytes}
    (hy : p + y.length ≤ b.length) : AgreeOut o n (patch b p y) (patch c p y) := by
  refine ⟨by rw [patch_length hy, patch_length (by rw [← h.1]; exact hy)]; exact h.1, fun i hi => ?_⟩
  rw [getElem?_patch hy, getElem?_patch (by rw [← h.1]; exact hy)]
  split
  · exact h.2 i hi
  · split
    · rfl
    · exact h.2 i hi

theorem AgreeOut.patch_eq {o n : Nat} {b c : Bytes} (h : AgreeOut o n b c) {x : Bytes}
    (hx : x.length = n) (hb : o + n ≤ b.length) : patch b o x = patch c o x := by
  apply List.ext_getElem?
  intro i
  rw [getElem?_patch (by omega), getElem?_patch (by rw [← h.1]; omega)]
  split
  · exact h.2 i (Or.inl ‹_›)
  · split
    · rfl
    · exact h.2 i (Or.inr (by omega))

theorem agreeOut_patch {b : Bytes} {o : Nat} {z : Bytes} (h : o + z.length ≤ b.length) :
    AgreeOut o z.length (patch b o z) b := by
  refine ⟨patch_length h, fun i hi => ?_⟩
  rw [getElem?_patch h]
  rcases hi with hi | hi
  · simp [hi]
  · have h1 : ¬ i < o := by omega
    have h2 : ¬ i < o + z.length := by omega
    simp [h1, h2]

end Gimli.Wr
