import Gimli.Lemmas.DieForest
/-! Helper lemmas for C02, part 5: `EntriesCursor::next_sibling` (with and without the
`DW_AT_sibling` fast path) over the encoding of a forest, and the recursive walk built from it. -/
set_option linter.unusedSimpArgs false
set_option linter.unusedVariables false
namespace Gimli.Die
open Gimli Gimli.Attr Gimli.Abbrev Gimli.Ints Gimli.Spec Gimli.Spec.Forest

/-! ### the loop of `next_sibling`: seek (fast path), then read -/

/-- the fast-path step at the start of each iteration -/
def seekStep (c : Cursor) : Cursor :=
  match c.current with
  | some cur =>
    if cur.hasChildren then
      match cur.sibling with
      | some off => { c with raw := c.raw.seekForward off cur.depth }
      | none => c
    else c
  | none => c

/-- the rest of an iteration: read the next entry, stop at the end of input or at the wanted
depth, otherwise go round again -/
def readPart (ctx : Ctx) (D : Int) (fuel : Nat) (c : Cursor) : Out (Option Entry × Cursor) :=
  c.nextEntry ctx >>= fun x =>
    if !x.1 then pure (none, x.2)
    else if x.2.cur.depth = D then pure (x.2.current, x.2)
    else Cursor.siblingLoop ctx D fuel x.2

theorem siblingLoop_succ (ctx : Ctx) (D : Int) (fuel : Nat) (c : Cursor) :
    Cursor.siblingLoop ctx D (fuel + 1) c = readPart ctx D fuel (seekStep c) := by
  rw [Cursor.siblingLoop]
  rfl

theorem seekForward_le (r : Raw) (off : Nat) (d : Int) :
    (r.seekForward off d).input.length ≤ r.input.length ∧ (r.seekForward off d).endOffset = r.endOffset := by
  unfold Raw.seekForward
  split
  · exact ⟨Nat.le_refl _, rfl⟩
  · simp only
    split
    · simp
    · exact ⟨Nat.le_refl _, rfl⟩

theorem seekStep_le (c : Cursor) : (seekStep c).raw.input.length ≤ c.raw.input.length := by
  unfold seekStep
  split
  · split
    · split
      · exact (seekForward_le _ _ _).1
      · exact Nat.le_refl _
    · exact Nat.le_refl _
  · exact Nat.le_refl _

theorem readPart_empty {ctx : Ctx} {c : Cursor} (D : Int) (fuel : Nat) (h : c.raw.input.isEmpty = true) :
    readPart ctx D fuel c = .ok (none, { c with cur := c.cur.setNull }) := by
  unfold readPart; rw [nextEntry_empty h]; rfl

theorem readPart_read {ctx : Ctx} {c : Cursor} (D : Int) (fuel : Nat) (h : c.raw.input.isEmpty = false) :
    readPart ctx D fuel c =
      (c.raw.readEntry ctx >>= fun x =>
        if x.1.depth = D then pure ((Cursor.mk x.2 x.1).current, ⟨x.2, x.1⟩)
        else Cursor.siblingLoop ctx D fuel ⟨x.2, x.1⟩) := by
  unfold readPart; rw [nextEntry_read h]
  cases c.raw.readEntry ctx <;> simp

theorem siblingLoop_fuel (ctx : Ctx) (D : Int) : ∀ (f f' : Nat) (c : Cursor), c.raw.input.length < f →
    c.raw.input.length < f' → Cursor.siblingLoop ctx D f c = Cursor.siblingLoop ctx D f' c := by
  intro f
  induction f with
  | zero => intro f' c h; omega
  | succ f ih =>
    intro f' c h h'
    obtain ⟨f', rfl⟩ : ∃ k, f' = k + 1 := ⟨f' - 1, by omega⟩
    rw [siblingLoop_succ, siblingLoop_succ]
    have hs := seekStep_le c
    cases he : (seekStep c).raw.input.isEmpty with
    | true => rw [readPart_empty _ _ he, readPart_empty _ _ he]
    | false =>
      rw [readPart_read _ _ he, readPart_read _ _ he]
      cases hr : (seekStep c).raw.readEntry ctx with
      | ok p =>
        obtain ⟨e, r⟩ := p
        simp only [Out.bind_ok]
        split
        · rfl
        · have := (readEntry_shrinks hr).1
          exact ih f' _ (by simp only; omega) (by simp only; omega)
      | err x => rfl
      | panic w => rfl
      | diverge => rfl

theorem readPart_fuel (ctx : Ctx) (D : Int) (f f' : Nat) (c : Cursor) (h : c.raw.input.length ≤ f)
    (h' : c.raw.input.length ≤ f') : readPart ctx D f c = readPart ctx D f' c := by
  cases he : c.raw.input.isEmpty with
  | true => rw [readPart_empty _ _ he, readPart_empty _ _ he]
  | false =>
    rw [readPart_read _ _ he, readPart_read _ _ he]
    cases hr : c.raw.readEntry ctx with
    | ok p =>
      obtain ⟨e, r⟩ := p
      simp only [Out.bind_ok]
      split
      · rfl
      · have := (readEntry_shrinks hr).1
        exact siblingLoop_fuel ctx D f f' _ (by simp only; omega) (by simp only; omega)
    | err x => rfl
    | panic w => rfl
    | diverge => rfl


/-- `readEntry_node` with the entry spelled out -/
theorem readEntry_node' {ctx : Ctx} {d : Node} (hd : NodeOK ctx d) (rest : Bytes) (endOff : Nat) (depth : Int) :
    ∃ a vs, ctx.abbrevs.get d.code = some a ∧ a.tag = d.tag ∧ a.hasChildren = d.children ∧
      (∀ rest, readAttributes ctx.enc a.attrs (d.attrBytes ++ rest) = .ok (vs, rest)) ∧
      (Raw.mk (headBytes d ++ rest) endOff depth).readEntry ctx
        = .ok (⟨endOff - (headBytes d ++ rest).length, depth, a.tag, a.hasChildren, a.attrs.zip vs⟩,
               ⟨rest, endOff, if d.children then depth + 1 else depth⟩) := by
  obtain ⟨h0, h64, _, a, hget, htag, hch, vs, hattrs⟩ := hd
  refine ⟨a, vs, hget, htag, hch, hattrs, ?_⟩
  unfold Raw.readEntry Raw.readAbbreviation
  simp only [headBytes, List.append_assoc]
  rw [Leb.unsigned_roundtrip d.code h64]
  simp only [Out.bind_ok, h0, if_false, hget, Out.pure_eq, hattrs, Raw.nextOffset, hch, List.length_append]

/-- the `DW_AT_sibling` fast-path target of entry `d` read at unit offset `off` is `target`
(`none`: no usable sibling attribute) -/
def SibTarget (ctx : Ctx) (d : Node) (off : Nat) (target : Option Nat) : Prop :=
  ∀ a vs (depth : Int), ctx.abbrevs.get d.code = some a →
    (∀ rest, readAttributes ctx.enc a.attrs (d.attrBytes ++ rest) = .ok (vs, rest)) →
    Entry.sibling ⟨off, depth, a.tag, a.hasChildren, a.attrs.zip vs⟩ = target

/-- every entry with the children flag either has no usable `DW_AT_sibling` attribute or one that
points just behind the entry's subtree (its next sibling, or the null entry that ends the
sibling list); `off` is the unit offset of the first entry of the forest -/
def SibOK (ctx : Ctx) : Nat → Forest → Prop
  | _, .nil => True
  | off, .node d kids sibs =>
    let o1 := off + (headBytes d).length
    let o2 := if d.children then o1 + (encode kids).length + 1 else o1
    (d.children = true → SibTarget ctx d off none ∨ SibTarget ctx d off (some o2)) ∧
      SibOK ctx o1 kids ∧ SibOK ctx o2 sibs

theorem seekStep_null (r : Raw) (e : Entry) (h : e.isNull = true) : seekStep ⟨r, e⟩ = ⟨r, e⟩ := by
  simp [seekStep, Cursor.current, h]

theorem seekStep_nochildren (r : Raw) (e : Entry) (h : e.hasChildren = false) : seekStep ⟨r, e⟩ = ⟨r, e⟩ := by
  unfold seekStep
  split
  · rename_i cur hc
    simp only [Cursor.current] at hc
    split at hc
    · simp at hc
    · simp only [Option.some.injEq] at hc; subst hc; simp [h]
  · rfl

theorem seekStep_nosibling (r : Raw) (e : Entry) (h : e.sibling = none) : seekStep ⟨r, e⟩ = ⟨r, e⟩ := by
  unfold seekStep
  split
  · rename_i cur hc
    simp only [Cursor.current] at hc
    split at hc
    · simp at hc
    · simp only [Option.some.injEq] at hc; subst hc; simp [h]
  · rfl

theorem seekStep_sibling (r : Raw) (e : Entry) (off : Nat) (hn : e.isNull = false) (hc : e.hasChildren = true)
    (h : e.sibling = some off) : seekStep ⟨r, e⟩ = ⟨r.seekForward off e.depth, e⟩ := by
  simp [seekStep, Cursor.current, hn, hc, h]

theorem seekForward_skip (pre rest : Bytes) (E : Nat) (d d' : Int) (target : Nat)
    (hE : (pre ++ rest).length ≤ E) (ht : target = E - (pre ++ rest).length + pre.length) :
    (Raw.mk (pre ++ rest) E d).seekForward target d' = ⟨rest, E, d'⟩ := by
  unfold Raw.seekForward Raw.nextOffset
  simp only [List.length_append] at hE ht ⊢
  have h1 : ¬ target < E - (pre.length + rest.length) := by omega
  have h2 : target - (E - (pre.length + rest.length)) = pre.length := by omega
  simp [h1, h2]


theorem isEmpty_false_of_ne_nil {bs : Bytes} (h : bs ≠ []) : bs.isEmpty = false := by
  cases bs with
  | nil => exact absurd rfl h
  | cons b t => rfl

/-- the loop of `next_sibling`, looking for depth `D`, passes over a whole forest that lies
deeper (`D < D'`) — by reading it entry by entry, or by jumping over subtrees through their
`DW_AT_sibling` attributes — and is then exactly where it would be had it started behind it -/
theorem skipForest (ctx : Ctx) (D : Int) : ∀ (g : Forest), ForestOK ctx g → ∀ (off : Nat), SibOK ctx off g →
    ∀ (D' : Int), D < D' → ∀ (tail : Bytes) (cur : Entry) (f : Nat), (encode g ++ tail).length ≤ f →
    ∃ cur', readPart ctx D f ⟨⟨encode g ++ tail, off + (encode g ++ tail).length, D'⟩, cur⟩ =
      readPart ctx D tail.length ⟨⟨tail, off + (encode g ++ tail).length, D'⟩, cur'⟩ := by
  intro g
  induction g with
  | nil =>
    intro _ off _ D' _ tail cur f hf
    exact ⟨cur, readPart_fuel ctx D f tail.length _ (by simpa [encode] using hf) (by simp [encode])⟩
  | node d kids sibs ihk ihs =>
    intro hok off hsib D' hD tail cur f hf
    obtain ⟨hd, hk, hs⟩ := hok
    obtain ⟨hsd, hsk, hss⟩ := hsib
    have hdtag := hd.2.2.1
    -- the bytes behind the head of this entry
    have henc : encode (.node d kids sibs) ++ tail
        = headBytes d ++ ((if d.children then encode kids ++ [0] else []) ++ (encode sibs ++ tail)) := by
      simp [encode]
    obtain ⟨a, vs, hget, htag, hch, hattrs, hre⟩ := readEntry_node' hd
      ((if d.children then encode kids ++ [0] else []) ++ (encode sibs ++ tail))
      (off + (encode (.node d kids sibs) ++ tail).length) D'
    rw [← henc] at hre
    have hne : (encode (.node d kids sibs) ++ tail) ≠ [] := by
      rw [henc]; simp [headBytes_ne_nil]
    rw [readPart_read (c := ⟨⟨encode (.node d kids sibs) ++ tail, _, D'⟩, cur⟩) _ _
      (isEmpty_false_of_ne_nil hne), hre]
    simp only [Out.bind_ok]
    have hDne : ¬ (D' = D) := by omega
    simp only [hDne, if_false]
    have hhead : 1 ≤ (headBytes d).length := by
      cases hh : headBytes d with
      | nil => exact absurd hh (headBytes_ne_nil d)
      | cons b t => simp
    obtain ⟨f1, rfl⟩ : ∃ k, f = k + 1 := ⟨f - 1, by
      have : (headBytes d).length ≤ (encode (.node d kids sibs) ++ tail).length := by
        rw [henc]; simp
      omega⟩
    rw [siblingLoop_succ]
    have hoff : off + (encode (.node d kids sibs) ++ tail).length - (encode (.node d kids sibs) ++ tail).length = off := by
      omega
    rw [hoff]
    have hnn : (Entry.mk off D' a.tag a.hasChildren (a.attrs.zip vs)).isNull = false := by
      simp [Entry.isNull, htag, hdtag]
    cases hc : d.children with
    | false =>
      have hlen : (encode (.node d kids sibs) ++ tail).length
          = (headBytes d).length + (encode sibs ++ tail).length := by
        rw [henc]; simp [hc]
      rw [seekStep_nochildren _ _ (by simp [hch, hc])]
      simp only [hc, Bool.false_eq_true, if_false, List.nil_append]
      have hss' : SibOK ctx (off + (headBytes d).length) sibs := by simpa [hc] using hss
      obtain ⟨cur', h2⟩ := ihs hs _ hss' D' hD tail
        (Entry.mk off D' a.tag a.hasChildren (a.attrs.zip vs)) f1 (by omega)
      refine ⟨cur', ?_⟩
      have hE : off + (encode (.node d kids sibs) ++ tail).length
          = off + (headBytes d).length + (encode sibs ++ tail).length := by omega
      rw [hE]; exact h2
    | true =>
      have hlen : (encode (.node d kids sibs) ++ tail).length
          = (headBytes d).length + ((encode kids).length + 1 + (encode sibs ++ tail).length) := by
        rw [henc]; simp [hc]; omega
      simp only [hc, if_true]
      have hss' : SibOK ctx (off + (headBytes d).length + (encode kids).length + 1) sibs := by
        simpa [hc] using hss
      have hE2 : off + (encode (.node d kids sibs) ++ tail).length
          = off + (headBytes d).length + (encode kids).length + 1 + (encode sibs ++ tail).length := by omega
      rcases hsd hc with hnone | hsome
      · -- no sibling attribute: read through the children and their terminator
        have hsn := hnone a vs D' hget hattrs
        rw [seekStep_nosibling _ _ hsn]
        have hin : (encode kids ++ [0]) ++ (encode sibs ++ tail) = encode kids ++ (0 :: (encode sibs ++ tail)) := by
          simp
        rw [hin]
        have hE1 : off + (encode (.node d kids sibs) ++ tail).length
            = off + (headBytes d).length + (encode kids ++ (0 :: (encode sibs ++ tail))).length := by
          simp only [List.length_append, List.length_cons] at hlen ⊢; omega
        obtain ⟨cur1, h1⟩ := ihk hk _ hsk (D' + 1) (by omega) (0 :: (encode sibs ++ tail))
          (Entry.mk off D' a.tag a.hasChildren (a.attrs.zip vs)) f1 (by
            simp only [List.length_append, List.length_cons] at hlen hf ⊢; omega)
        rw [hE1, h1]
        -- the terminator
        rw [readPart_read _ _ (by rfl), readEntry_null]
        simp only [Out.bind_ok]
        have hDne' : ¬ (D' + 1 = D) := by omega
        simp only [hDne', if_false, List.length_cons]
        rw [siblingLoop_succ, seekStep_null _ _ (by rfl)]
        obtain ⟨cur', h2⟩ := ihs hs _ hss' D' hD tail
          (Entry.mk (off + (headBytes d).length + (encode kids ++ 0 :: (encode sibs ++ tail)).length
            - ((encode sibs ++ tail).length + 1)) (D' + 1) 0 false []) (encode sibs ++ tail).length (Nat.le_refl _)
        refine ⟨cur', ?_⟩
        rw [← hE1, hE2, show (D' + 1 - 1 : Int) = D' by omega]
        rw [← hE1, hE2] at h2
        exact h2
      · -- fast path: jump behind the subtree, keeping the depth
        have hss2 := hsome a vs D' hget hattrs
        simp only [hc, if_true] at hss2
        rw [seekStep_sibling _ _ _ hnn (by simp [hch, hc]) hss2]
        dsimp only
        have hin : (encode kids ++ [0]) ++ (encode sibs ++ tail) = (encode kids ++ [0]) ++ (encode sibs ++ tail) := rfl
        rw [seekForward_skip (encode kids ++ [0]) (encode sibs ++ tail) _ (D' + 1) D'
          (off + (headBytes d).length + (encode kids).length + 1)
          (by simp only [List.length_append, List.length_cons, List.length_nil] at hlen ⊢; omega)
          (by simp only [List.length_append, List.length_cons, List.length_nil] at hlen ⊢; omega)]
        obtain ⟨cur', h2⟩ := ihs hs _ hss' D' hD tail
          (Entry.mk off D' a.tag a.hasChildren (a.attrs.zip vs)) f1 (by omega)
        refine ⟨cur', ?_⟩
        rw [hE2]; exact h2

/-- what follows the head of entry `d` in `encode (node d kids sibs) ++ tail` -/
def afterHead (d : Node) (kids sibs : Forest) (tail : Bytes) : Bytes :=
  (if d.children then encode kids ++ [0] else []) ++ (encode sibs ++ tail)

/-- the entry that `read_entry` produces for `d` (declaration `a`, values `vs`) at `off`, `D` -/
abbrev entryOf (a : Abbreviation) (vs : List Value) (off : Nat) (D : Int) : Entry :=
  ⟨off, D, a.tag, a.hasChildren, a.attrs.zip vs⟩

/-- the cursor sits on the first entry of the forest `g` (which starts at unit offset `off`, depth
`D`, and is followed by `tail`), or — for the empty forest — on no entry -/
def PosAt (ctx : Ctx) (c : Cursor) (off : Nat) (D : Int) (tail : Bytes) : Forest → Prop
  | .nil => c.current = none
  | .node d kids sibs =>
    ∃ a vs, ctx.abbrevs.get d.code = some a ∧ a.tag = d.tag ∧ a.hasChildren = d.children ∧
      (∀ rest, readAttributes ctx.enc a.attrs (d.attrBytes ++ rest) = .ok (vs, rest)) ∧
      c = ⟨⟨afterHead d kids sibs tail, off + (encode (.node d kids sibs) ++ tail).length,
            if d.children then D + 1 else D⟩, entryOf a vs off D⟩

theorem encode_node_append (d : Node) (kids sibs : Forest) (tail : Bytes) :
    encode (.node d kids sibs) ++ tail = headBytes d ++ afterHead d kids sibs tail := by
  simp [encode, afterHead]

/-- reading the first entry of a forest puts the cursor on it -/
theorem readPart_posAt (ctx : Ctx) (D : Int) (g : Forest) (hok : ForestOK ctx g) (off : Nat) (tail : Bytes)
    (htail : tail = [] ∨ ∃ t, tail = 0 :: t) (cur : Entry) (f : Nat) :
    ∃ c', PosAt ctx c' off D tail g ∧
      readPart ctx D f ⟨⟨encode g ++ tail, off + (encode g ++ tail).length, D⟩, cur⟩ = .ok (c'.current, c') := by
  cases g with
  | nil =>
    simp only [encode, List.nil_append]
    rcases htail with rfl | ⟨t, rfl⟩
    · rw [readPart_empty (c := ⟨⟨[], _, D⟩, cur⟩) _ _ (by rfl)]
      refine ⟨⟨⟨[], off + ([] : Bytes).length, D⟩, cur.setNull⟩, ?_, ?_⟩
      · simp [PosAt, Cursor.current, Entry.setNull, Entry.isNull]
      · simp [Cursor.current, Entry.setNull, Entry.isNull]
    · rw [readPart_read _ _ (by rfl), readEntry_null]
      simp only [Out.bind_ok, if_true, Out.pure_eq]
      exact ⟨_, by simp [PosAt, Cursor.current, Entry.isNull], rfl⟩
  | node d kids sibs =>
    obtain ⟨hd, _, _⟩ := hok
    obtain ⟨a, vs, hget, htag, hch, hattrs, hre⟩ := readEntry_node' hd (afterHead d kids sibs tail)
      (off + (encode (.node d kids sibs) ++ tail).length) D
    rw [← encode_node_append] at hre
    have hne : (encode (.node d kids sibs) ++ tail) ≠ [] := by
      rw [encode_node_append]; simp [headBytes_ne_nil]
    rw [readPart_read (c := ⟨⟨encode (.node d kids sibs) ++ tail, _, D⟩, cur⟩) _ _
      (isEmpty_false_of_ne_nil hne), hre]
    simp only [Out.bind_ok, if_true, Out.pure_eq]
    have hoff : off + (encode (.node d kids sibs) ++ tail).length - (encode (.node d kids sibs) ++ tail).length = off := by
      omega
    rw [hoff]
    exact ⟨_, ⟨a, vs, hget, htag, hch, hattrs, rfl⟩, rfl⟩

/-- **`next_sibling` from an entry**: wherever the cursor's entry has children or not, a usable
`DW_AT_sibling` or not, the cursor ends on the entry's next sibling — or on no entry when there
is none (the list's terminating null entry, or the end of the input) -/
theorem nextSibling_posAt (ctx : Ctx) (d : Node) (kids sibs : Forest) (hok : ForestOK ctx (.node d kids sibs))
    (off : Nat) (hsib : SibOK ctx off (.node d kids sibs)) (D : Int) (tail : Bytes)
    (htail : tail = [] ∨ ∃ t, tail = 0 :: t) (c : Cursor) (hc : PosAt ctx c off D tail (.node d kids sibs)) :
    ∃ c', PosAt ctx c' (if d.children then off + (headBytes d).length + (encode kids).length + 1
                        else off + (headBytes d).length) D tail sibs ∧
      c.nextSibling ctx = .ok (c'.current, c') := by
  obtain ⟨hd, hk, hs⟩ := hok
  obtain ⟨hsd, hsk, hss⟩ := hsib
  obtain ⟨a, vs, hget, htag, hch, hattrs, rfl⟩ := hc
  have hdtag := hd.2.2.1
  have hnn : (entryOf a vs off D).isNull = false := by simp [entryOf, Entry.isNull, htag, hdtag]
  unfold Cursor.nextSibling
  simp only [Cursor.current, hnn, Bool.false_eq_true, if_false]
  rw [siblingLoop_succ]
  have hlen := congrArg List.length (encode_node_append d kids sibs tail)
  simp only [List.length_append] at hlen
  cases hcd : d.children with
  | false =>
    rw [seekStep_nochildren _ _ (by simp [entryOf, hch, hcd])]
    simp only [afterHead, hcd, Bool.false_eq_true, if_false, List.nil_append]
    have hE : off + (encode (.node d kids sibs) ++ tail).length
        = off + (headBytes d).length + (encode sibs ++ tail).length := by
      simp only [afterHead, hcd, Bool.false_eq_true, if_false, List.nil_append, List.length_append] at hlen ⊢
      omega
    rw [hE]
    exact readPart_posAt ctx D sibs hs _ tail htail _ _
  | true =>
    simp only [afterHead, hcd, if_true]
    have hE2 : off + (encode (.node d kids sibs) ++ tail).length
        = off + (headBytes d).length + (encode kids).length + 1 + (encode sibs ++ tail).length := by
      simp only [afterHead, hcd, if_true, List.length_append, List.length_cons, List.length_nil] at hlen ⊢
      omega
    rcases hsd hcd with hnone | hsome
    · have hsn := hnone a vs D hget hattrs
      rw [seekStep_nosibling _ _ hsn]
      have hin : (encode kids ++ [0]) ++ (encode sibs ++ tail) = encode kids ++ (0 :: (encode sibs ++ tail)) := by
        simp
      rw [hin]
      have hE1 : off + (encode (.node d kids sibs) ++ tail).length
          = off + (headBytes d).length + (encode kids ++ (0 :: (encode sibs ++ tail))).length := by
        simp only [List.length_append, List.length_cons] at hE2 ⊢; omega
      obtain ⟨cur1, h1⟩ := skipForest ctx D kids hk _ hsk (D + 1) (by omega) (0 :: (encode sibs ++ tail))
        (entryOf a vs off D) ((encode kids ++ [0]) ++ (encode sibs ++ tail)).length (by simp)
      rw [hin] at h1
      rw [hE1, h1]
      rw [readPart_read _ _ (by rfl), readEntry_null]
      simp only [Out.bind_ok]
      have hDne' : ¬ (D + 1 = D) := by omega
      simp only [hDne', if_false, List.length_cons]
      rw [siblingLoop_succ, seekStep_null _ _ (by rfl)]
      rw [← hE1, hE2, show (D + 1 - 1 : Int) = D by omega]
      exact readPart_posAt ctx D sibs hs _ tail htail _ _
    · have hss2 := hsome a vs D hget hattrs
      simp only [hcd, if_true] at hss2
      rw [seekStep_sibling _ _ _ hnn (by simp [entryOf, hch, hcd]) hss2]
      dsimp only [entryOf]
      rw [seekForward_skip (encode kids ++ [0]) (encode sibs ++ tail) _ (D + 1) D
        (off + (headBytes d).length + (encode kids).length + 1)
        (by simp only [List.length_append, List.length_cons, List.length_nil] at hE2 ⊢; omega)
        (by simp only [List.length_append, List.length_cons, List.length_nil] at hE2 ⊢; omega)]
      rw [hE2]
      exact readPart_posAt ctx D sibs hs _ tail htail _ _


def nonNull (i : Item) : Bool := !i.isNull

theorem siblingWalk_none (ctx : Ctx) (fuel : Nat) (c : Cursor) (h : c.current = none) :
    siblingWalk ctx (fuel + 1) c = ([], .ok ()) := by
  rw [siblingWalk, h]

/-- `next_entry` in front of a forest puts the cursor on its first entry (or on no entry) -/
theorem nextEntry_posAt (ctx : Ctx) (D : Int) (g : Forest) (hok : ForestOK ctx g) (off : Nat) (tail : Bytes)
    (htail : tail = [] ∨ ∃ t, tail = 0 :: t) (cur : Entry) :
    ∃ b c', PosAt ctx c' off D tail g ∧
      (Cursor.mk ⟨encode g ++ tail, off + (encode g ++ tail).length, D⟩ cur).nextEntry ctx = .ok (b, c') := by
  obtain ⟨c', hp, hr⟩ := readPart_posAt ctx D g hok off tail htail cur 0
  cases he : (encode g ++ tail).isEmpty with
  | true =>
    rw [nextEntry_empty (c := ⟨⟨encode g ++ tail, _, D⟩, cur⟩) he]
    rw [readPart_empty (c := ⟨⟨encode g ++ tail, _, D⟩, cur⟩) _ _ he] at hr
    simp only [Out.ok.injEq, Prod.mk.injEq] at hr
    exact ⟨false, _, by rw [hr.2]; exact hp, rfl⟩
  | false =>
    rw [readPart_read (c := ⟨⟨encode g ++ tail, _, D⟩, cur⟩) _ _ he] at hr
    rw [nextEntry_read (c := ⟨⟨encode g ++ tail, _, D⟩, cur⟩) he]
    cases hre : (Raw.mk (encode g ++ tail) (off + (encode g ++ tail).length) D).readEntry ctx with
    | ok p =>
      obtain ⟨e, r⟩ := p
      rw [hre] at hr
      simp only [Out.bind_ok] at hr ⊢
      have hdep : e.depth = D := by
        unfold Raw.readEntry at hre
        obtain ⟨⟨ab, r1⟩, _, h2⟩ := bind_ok_inv hre
        simp only at h2
        split at h2
        · simp only [Out.pure_eq, Out.ok.injEq, Prod.mk.injEq] at h2; rw [← h2.1]
        · obtain ⟨⟨vs', rest⟩, _, h4⟩ := bind_ok_inv h2
          simp only [Out.pure_eq, Out.ok.injEq, Prod.mk.injEq] at h4; rw [← h4.1]
      simp only [hdep, if_true, Out.pure_eq, Out.ok.injEq, Prod.mk.injEq] at hr
      exact ⟨true, ⟨r, e⟩, by rw [hr.2]; exact hp, rfl⟩
    | err x => rw [hre] at hr; simp at hr
    | panic w => rw [hre] at hr; simp at hr
    | diverge => rw [hre] at hr; simp at hr

/-- stepping into the child list of an entry with the children flag: onto the first child, or
onto no entry when the list is empty -/
theorem nextEntry_posAt_kids (ctx : Ctx) (d : Node) (kids sibs : Forest) (hk : ForestOK ctx kids)
    (off : Nat) (D : Int) (tail : Bytes) (c : Cursor) (hcd : d.children = true)
    (hc : PosAt ctx c off D tail (.node d kids sibs)) :
    ∃ b c', PosAt ctx c' (off + (headBytes d).length) (D + 1) (0 :: (encode sibs ++ tail)) kids ∧
      c.nextEntry ctx = .ok (b, c') := by
  obtain ⟨a, vs, hget, htag, hch, hattrs, rfl⟩ := hc
  have hlen := congrArg List.length (encode_node_append d kids sibs tail)
  simp only [List.length_append, afterHead, hcd, if_true, List.length_cons, List.length_nil] at hlen
  have hin : afterHead d kids sibs tail = encode kids ++ (0 :: (encode sibs ++ tail)) := by
    simp [afterHead, hcd]
  have hE1 : off + (encode (.node d kids sibs) ++ tail).length
      = off + (headBytes d).length + (encode kids ++ (0 :: (encode sibs ++ tail))).length := by
    simp only [List.length_append, List.length_cons]; omega
  simp only [hcd, if_true, hin, hE1]
  exact nextEntry_posAt ctx (D + 1) kids hk (off + (headBytes d).length) (0 :: (encode sibs ++ tail))
    (Or.inr ⟨_, rfl⟩) (entryOf a vs off D)

/-- **the sibling walk visits exactly the entries of the forest, in depth-first order** -/
theorem siblingWalk_forest (ctx : Ctx) : ∀ (g : Forest), ForestOK ctx g → ∀ (off : Nat), SibOK ctx off g →
    ∀ (D : Int) (tail : Bytes), (tail = [] ∨ ∃ t, tail = 0 :: t) → ∀ (c : Cursor), PosAt ctx c off D tail g →
    ∀ (fuel : Nat), count g < fuel →
    ∃ es, es.map Entry.item = (listing off D g).filter nonNull ∧ siblingWalk ctx fuel c = (es, .ok ()) := by
  intro g
  induction g with
  | nil =>
    intro _ off _ D tail _ c hc fuel hf
    obtain ⟨fuel, rfl⟩ : ∃ k, fuel = k + 1 := ⟨fuel - 1, by omega⟩
    exact ⟨[], rfl, siblingWalk_none ctx fuel c hc⟩
  | node d kids sibs ihk ihs =>
    intro hok off hsib D tail htail c hc fuel hf
    obtain ⟨fuel, rfl⟩ : ∃ k, fuel = k + 1 := ⟨fuel - 1, by omega⟩
    have hcount : count (.node d kids sibs) = 1 + ((if d.children then count kids + 1 else 0) + count sibs) := rfl
    obtain ⟨c2, hp2, hns⟩ := nextSibling_posAt ctx d kids sibs hok off hsib D tail htail c hc
    obtain ⟨hd, hk, hs⟩ := hok
    obtain ⟨hsd, hsk, hss⟩ := hsib
    obtain ⟨es2, hl2, hw2⟩ := ihs hs _ hss D tail htail c2 hp2 fuel (by
      rw [hcount] at hf; omega)
    have hdtag := hd.2.2.1
    obtain ⟨a, vs, hget, htag, hch, hattrs, hceq⟩ := hc
    have hcur : c.current = some (entryOf a vs off D) := by
      rw [hceq]; simp [Cursor.current, Entry.isNull, htag, hdtag]
    have hitem : (entryOf a vs off D).item = ⟨off, D, d.tag, d.children⟩ := by
      simp [Entry.item, htag, hch]
    have hnn : nonNull ⟨off, D, d.tag, d.children⟩ = true := by
      simp [nonNull, Item.isNull, hdtag]
    rw [siblingWalk, hcur]
    simp only
    cases hcd : d.children with
    | false =>
      have hhc : a.hasChildren = false := by rw [hch, hcd]
      simp only [hhc, Bool.false_eq_true, if_false, hns, List.nil_append]
      rw [hw2]
      refine ⟨entryOf a vs off D :: es2, ?_, rfl⟩
      simp only [List.map_cons, hitem, listing, hcd, Bool.false_eq_true, if_false, List.nil_append,
        List.filter_cons, hnn, if_true]
      simp only [hcd, Bool.false_eq_true, if_false] at hl2
      rw [hl2]
      simp [nonNull, Item.isNull, hdtag]
    | true =>
      have hhc : a.hasChildren = true := by rw [hch, hcd]
      obtain ⟨b, c1, hp1, hne1⟩ := nextEntry_posAt_kids ctx d kids sibs hk off D tail c hcd
        ⟨a, vs, hget, htag, hch, hattrs, hceq⟩
      obtain ⟨es1, hl1, hw1⟩ := ihk hk _ hsk (D + 1) (0 :: (encode sibs ++ tail)) (Or.inr ⟨_, rfl⟩) c1 hp1 fuel (by
        rw [hcount] at hf; simp only [hcd, if_true] at hf; omega)
      simp only [hhc, if_true, hne1, hw1, hns]
      rw [hw2]
      refine ⟨entryOf a vs off D :: (es1 ++ es2), ?_, rfl⟩
      simp only [List.map_cons, List.map_append, hitem, hl1, listing, hcd, if_true, List.filter_cons, hnn,
        List.filter_append, List.filter_nil]
      simp only [hcd, if_true] at hl2
      rw [hl2]
      simp [nonNull, Item.isNull, hdtag]


theorem padding_filter_nonNull : ∀ (n oo : Nat) (dd : Int), (padding oo dd n).filter nonNull = [] := by
  intro n
  induction n with
  | zero => intro oo dd; rfl
  | succ n ih =>
    intro oo dd
    simp only [padding, List.filter_cons, nonNull, Item.isNull, decide_true, Bool.not_true,
      Bool.false_eq_true, if_false]
    exact ih _ _

/-- **the whole unit by sibling stepping** (`next_entry`, then the recursive walk): the non-null
entries of the depth-first listing, in order -/
theorem siblingAll_unit (ctx : Ctx) (f : Forest) (hok : ForestOK ctx f) (pad off : Nat)
    (hsib : SibOK ctx off f) (fuel : Nat) (hfuel : count f < fuel) :
    ∃ es, es.map Entry.item = (listingUnit off f pad).filter nonNull ∧
      siblingAll ctx fuel (Cursor.new (encodeUnit f pad) off) = (es, .ok ()) := by
  have htail : List.replicate pad (0 : UInt8) = [] ∨ ∃ t, List.replicate pad (0 : UInt8) = 0 :: t := by
    cases pad with
    | zero => exact Or.inl rfl
    | succ n => exact Or.inr ⟨_, List.replicate_succ⟩
  obtain ⟨b, c', hp, hne⟩ := nextEntry_posAt ctx 0 f hok off (List.replicate pad 0) htail Entry.null
  obtain ⟨es, hl, hw⟩ := siblingWalk_forest ctx f hok off hsib 0 (List.replicate pad 0) htail c' hp fuel hfuel
  refine ⟨es, ?_, ?_⟩
  · rw [hl, listingUnit, List.filter_append]
    have := padding_filter_nonNull pad (off + (encode f).length) 0
    rw [this, List.append_nil]
  · unfold siblingAll Cursor.new Raw.new encodeUnit
    rw [hne]
    exact hw

end Gimli.Die
