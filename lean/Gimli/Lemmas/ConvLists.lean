import Gimli.Model.ConvLists
import Gimli.Lemmas.WLists
/-! Helper lemmas for the range / location list component of C12 (read-to-write conversion). -/
namespace Gimli.ConvLists
open Gimli Gimli.Ints Gimli.Lists Gimli.WLists Gimli.Spec.Lists Gimli.Spec.WLists

/-- `convert_address` of an executable: every address is the constant it is
(`|a| Some(Address::Constant(a))`) -/
def IdConv (ca : Nat → Option Addr) : Prop := ∀ a, ca a = some (.const a)

/-- what the raw reader guarantees about an address-or-offset pair: both words were read with the
unit's address size -/
def RawFits (c : Cfg) : Entry → Prop
  | .pair b e _ => b < addrMod c.addrSize ∧ e < addrMod c.addrSize
  | _ => True

instance (c : Cfg) (x : Entry) : Decidable (RawFits c x) := by
  unfold RawFits; cases x <;> infer_instance

/-- a location description after conversion and re-encoding (`enc` = the bytes the converted
expression is written as); unchanged where the conversion fails -/
def gdata (k : Kind) (ce : Bytes → CR WExpr) (enc : WExpr → Bytes) (d : Bytes) : Bytes :=
  match convData k ce d with
  | .ok x => enc x
  | .error _ => d

/-- apply `g` to the location description of an entry -/
def mapEntryData (g : Bytes → Bytes) : Entry → Entry
  | .pair b e d => .pair b e (g d)
  | .baseAddress a => .baseAddress a
  | .baseAddressx i => .baseAddressx i
  | .startxEndx b e d => .startxEndx b e (g d)
  | .startxLength b l d => .startxLength b l (g d)
  | .offsetPair b e d => .offsetPair b e (g d)
  | .defaultLocation d => .defaultLocation (g d)
  | .startEnd b e d => .startEnd b e (g d)
  | .startLength b l d => .startLength b l (g d)

def mapDenotData (g : Bytes → Bytes) : Denot → Denot
  | .range b e d => .range b e (g d)
  | .undefined => .undefined

/-- the resolution does not look at location descriptions -/
theorem resolveList_mapData (s : Nat) (tbl : Table) (g : Bytes → Bytes) : ∀ (l : List Entry) (base : Nat),
    resolveList s tbl base (l.map (mapEntryData g)) = (resolveList s tbl base l).map (mapDenotData g)
  | [], _ => rfl
  | x :: xs, base => by
    have ih := resolveList_mapData s tbl g xs
    cases x with
    | pair b e d =>
      simp only [List.map_cons, mapEntryData, resolveList, resolve1]
      split <;> simp [ih, mapDenotData]
    | baseAddress a => simp only [List.map_cons, mapEntryData, resolveList, resolve1, ih]
    | baseAddressx i =>
      simp only [List.map_cons, mapEntryData, resolveList, resolve1]
      cases tbl i <;> simp [ih, mapDenotData]
    | startxEndx b e d =>
      simp only [List.map_cons, mapEntryData, resolveList, resolve1]
      cases tbl b <;> cases tbl e <;> simp only [] <;> (try split) <;> simp [ih, mapDenotData]
    | startxLength b l d =>
      simp only [List.map_cons, mapEntryData, resolveList, resolve1]
      cases tbl b <;> simp only [] <;> (try split) <;> simp [ih, mapDenotData]
    | offsetPair b e d =>
      simp only [List.map_cons, mapEntryData, resolveList, resolve1]
      split <;> simp [ih, mapDenotData]
    | defaultLocation d =>
      simp only [List.map_cons, mapEntryData, resolveList, resolve1]
      split <;> simp [ih, mapDenotData]
    | startEnd b e d =>
      simp only [List.map_cons, mapEntryData, resolveList, resolve1]
      split <;> simp [ih, mapDenotData]
    | startLength b l d =>
      simp only [List.map_cons, mapEntryData, resolveList, resolve1]
      split <;> simp [ih, mapDenotData]

theorem except_bind_ok {ε α β : Type} {x : Except ε α} {f : α → Except ε β} {b : β}
    (h : (x >>= f) = .ok b) : ∃ a, x = .ok a ∧ f a = .ok b := by
  cases x with
  | ok a => exact ⟨a, rfl, h⟩
  | error e => cases h

theorem convAddr_id {ca : Nat → Option Addr} (hid : IdConv ca) (a : Nat) : convAddr ca a = .ok (.const a) := by
  simp [convAddr, hid a]

theorem unitAddress_ok {c : Cfg} {addr : Bytes} {ab i a : Nat} (hs : ValidSize c.addrSize)
    (hlen : addr.length < 2 ^ 64) (h : unitAddress c addr ab i = .ok a) :
    tableOf c.endian c.addrSize addr ab i = some a := by
  have ht := getAddress_tableOf c addr ab i hs hlen
  unfold unitAddress at h
  cases hg : getAddress c addr ab i with
  | ok a' =>
    rw [hg] at h
    simp only [liftRead, Except.ok.injEq] at h
    subst h
    cases htb : tableOf c.endian c.addrSize addr ab i with
    | some a'' => rw [htb] at ht; simp only at ht; rw [hg] at ht; simpa using ht.symm
    | none => rw [htb] at ht; simp only at ht; obtain ⟨e, he⟩ := ht; rw [hg] at he; cases he
  | err e => rw [hg] at h; cases h
  | panic w => rw [hg] at h; cases h
  | diverge => rw [hg] at h; cases h

theorem gdata_ok {k : Kind} {ce : Bytes → CR WExpr} {enc : WExpr → Bytes} {d : Bytes} {x : WExpr}
    (h : convData k ce d = .ok x) : gdata k ce enc d = enc x := by
  simp [gdata, h]

/-- one step of the list resolution, input entry vs converted entry -/
theorem convertEntry_step {k : Kind} {c : Cfg} {ca : Nat → Option Addr} {ce : Bytes → CR WExpr}
    {addr : Bytes} {ab : Nat} {hb hb' : Bool} {x : Entry} {w : WEntry} (enc : WExpr → Bytes)
    (hid : IdConv ca) (hs : ValidSize c.addrSize) (hlen : addr.length < 2 ^ 64) (hfit : RawFits c x)
    (h : convertEntry k c ca ce addr ab hb x = .ok (w, hb')) :
    ∀ (base : Nat) (xs ys : List Entry), (hb = false → base = 0) →
      (∀ base', (hb' = false → base' = 0) →
        resolveList c.addrSize (tableOf c.endian c.addrSize addr ab) base' xs =
          resolveList c.addrSize noTable base' ys) →
      resolveList c.addrSize (tableOf c.endian c.addrSize addr ab) base
          (mapEntryData (gdata k ce enc) x :: xs) =
        resolveList c.addrSize noTable base
          ((if isEmptyEntry w then [] else [asBuilt enc w]) ++ ys) := by
  intro base xs ys hbase hrec
  have ht := tombstone_pos c.addrSize hs
  cases x with
  | pair b e d =>
    simp only [convertEntry] at h
    obtain ⟨b', h1, h⟩ := except_bind_ok h
    obtain ⟨e', h2, h⟩ := except_bind_ok h
    obtain ⟨x, hx, h⟩ := except_bind_ok h
    rw [convAddr_id hid] at h1 h2
    cases h1; cases h2
    have hg := gdata_ok (enc := enc) hx
    cases hb with
    | true =>
      simp only [if_true, pure, Except.pure, Except.ok.injEq, Prod.mk.injEq] at h
      obtain ⟨rfl, rfl⟩ := h
      simp only [mapEntryData, resolveList, resolve1, isEmptyEntry, hg]
      by_cases hbe : b = e
      · subst hbe
        have hk : ¬ Keep c.addrSize base ((base + b) % addrMod c.addrSize) ((base + b) % addrMod c.addrSize) true := by
          simp [Keep]
        simp [hk, hrec base (by simp)]
      · have : (b == e) = false := by simpa using hbe
        simp only [this, Bool.false_eq_true, if_false, List.cons_append, List.nil_append, asBuilt,
          resolveList, resolve1]
        rw [hrec base (by simp)]
    | false =>
      have hb0 : base = 0 := hbase rfl
      subst hb0
      simp only [Bool.false_eq_true, if_false, pure, Except.pure, Except.ok.injEq, Prod.mk.injEq] at h
      obtain ⟨rfl, rfl⟩ := h
      obtain ⟨hfb, hfe⟩ := hfit
      simp only [mapEntryData, resolveList, resolve1, isEmptyEntry, hg, Nat.zero_add,
        Nat.mod_eq_of_lt hfb, Nat.mod_eq_of_lt hfe]
      have hk : Keep c.addrSize 0 b e true ↔ Keep c.addrSize 0 b e false := by simp [Keep, ht]
      by_cases hbe : b = e
      · subst hbe
        have hk' : ¬ Keep c.addrSize 0 b b true := by simp [Keep]
        simp [hk', hrec 0 (by simp)]
      · have : (Addr.const b == Addr.const e) = false := by simpa using hbe
        simp only [this, Bool.false_eq_true, if_false, List.cons_append, List.nil_append, asBuilt,
          addrVal, resolveList, resolve1]
        rw [hrec 0 (by simp)]
        by_cases hkeep : Keep c.addrSize 0 b e false
        · rw [if_pos hkeep, if_pos (hk.mpr hkeep)]
        · rw [if_neg hkeep, if_neg (fun h => hkeep (hk.mp h))]
  | baseAddress a =>
    simp only [convertEntry] at h
    obtain ⟨a', h1, h⟩ := except_bind_ok h
    rw [convAddr_id hid] at h1
    cases h1
    simp only [pure, Except.pure, Except.ok.injEq, Prod.mk.injEq] at h
    obtain ⟨rfl, rfl⟩ := h
    simp only [mapEntryData, resolveList, resolve1, isEmptyEntry, Bool.false_eq_true, if_false,
      List.cons_append, List.nil_append, asBuilt, addrVal]
    exact hrec a (by simp)
  | baseAddressx i =>
    simp only [convertEntry] at h
    obtain ⟨a0, h0, h⟩ := except_bind_ok h
    obtain ⟨a', h1, h⟩ := except_bind_ok h
    rw [convAddr_id hid] at h1
    cases h1
    simp only [pure, Except.pure, Except.ok.injEq, Prod.mk.injEq] at h
    obtain ⟨rfl, rfl⟩ := h
    have htb := unitAddress_ok hs hlen h0
    simp only [mapEntryData, resolveList, resolve1, htb, isEmptyEntry, Bool.false_eq_true, if_false,
      List.cons_append, List.nil_append, asBuilt, addrVal]
    exact hrec a0 (by simp)
  | startxEndx b e d =>
    simp only [convertEntry] at h
    obtain ⟨b0, hb0, h⟩ := except_bind_ok h
    obtain ⟨b', h1, h⟩ := except_bind_ok h
    obtain ⟨e0, he0, h⟩ := except_bind_ok h
    obtain ⟨e', h2, h⟩ := except_bind_ok h
    obtain ⟨x, hx, h⟩ := except_bind_ok h
    rw [convAddr_id hid] at h1 h2
    cases h1; cases h2
    have hg := gdata_ok (enc := enc) hx
    simp only [pure, Except.pure, Except.ok.injEq, Prod.mk.injEq] at h
    obtain ⟨rfl, rfl⟩ := h
    have htb := unitAddress_ok hs hlen hb0
    have hte := unitAddress_ok hs hlen he0
    simp only [mapEntryData, resolveList, resolve1, htb, hte, isEmptyEntry, hg]
    by_cases hbe : b0 = e0
    · subst hbe
      have hk' : ¬ Keep c.addrSize base b0 b0 false := by simp [Keep]
      simp [hk', hrec base hbase]
    · have : (Addr.const b0 == Addr.const e0) = false := by simpa using hbe
      simp only [this, Bool.false_eq_true, if_false, List.cons_append, List.nil_append, asBuilt,
        addrVal, resolveList, resolve1]
      rw [hrec base hbase]
  | startxLength b l d =>
    simp only [convertEntry] at h
    obtain ⟨b0, hb0, h⟩ := except_bind_ok h
    obtain ⟨b', h1, h⟩ := except_bind_ok h
    obtain ⟨x, hx, h⟩ := except_bind_ok h
    rw [convAddr_id hid] at h1
    cases h1
    have hg := gdata_ok (enc := enc) hx
    simp only [pure, Except.pure, Except.ok.injEq, Prod.mk.injEq] at h
    obtain ⟨rfl, rfl⟩ := h
    have htb := unitAddress_ok hs hlen hb0
    simp only [mapEntryData, resolveList, resolve1, htb, isEmptyEntry, hg]
    by_cases hl : l = 0
    · subst hl
      have hk' : ¬ Keep c.addrSize base b0 (b0 % addrMod c.addrSize) false := by
        have := Nat.mod_le b0 (addrMod c.addrSize)
        simp only [Keep]; omega
      simp [hk', hrec base hbase]
    · have : (l == 0) = false := by simpa using hl
      simp only [this, Bool.false_eq_true, if_false, List.cons_append, List.nil_append, asBuilt,
        addrVal, resolveList, resolve1]
      rw [hrec base hbase]
  | offsetPair b e d =>
    simp only [convertEntry] at h
    obtain ⟨x, hx, h⟩ := except_bind_ok h
    have hg := gdata_ok (enc := enc) hx
    simp only [pure, Except.pure, Except.ok.injEq, Prod.mk.injEq] at h
    obtain ⟨rfl, rfl⟩ := h
    simp only [mapEntryData, resolveList, resolve1, isEmptyEntry, hg]
    by_cases hbe : b = e
    · subst hbe
      have hk : ¬ Keep c.addrSize base ((base + b) % addrMod c.addrSize) ((base + b) % addrMod c.addrSize) true := by
        simp [Keep]
      simp [hk, hrec base hbase]
    · have : (b == e) = false := by simpa using hbe
      simp only [this, Bool.false_eq_true, if_false, List.cons_append, List.nil_append, asBuilt,
        resolveList, resolve1]
      rw [hrec base hbase]
  | defaultLocation d =>
    simp only [convertEntry] at h
    obtain ⟨x, hx, h⟩ := except_bind_ok h
    have hg := gdata_ok (enc := enc) hx
    simp only [pure, Except.pure, Except.ok.injEq, Prod.mk.injEq] at h
    obtain ⟨rfl, rfl⟩ := h
    simp only [mapEntryData, resolveList, resolve1, isEmptyEntry, hg, Bool.false_eq_true, if_false,
      List.cons_append, List.nil_append, asBuilt]
    rw [hrec base hbase]
  | startEnd b e d =>
    simp only [convertEntry] at h
    obtain ⟨b', h1, h⟩ := except_bind_ok h
    obtain ⟨e', h2, h⟩ := except_bind_ok h
    obtain ⟨x, hx, h⟩ := except_bind_ok h
    rw [convAddr_id hid] at h1 h2
    cases h1; cases h2
    have hg := gdata_ok (enc := enc) hx
    simp only [pure, Except.pure, Except.ok.injEq, Prod.mk.injEq] at h
    obtain ⟨rfl, rfl⟩ := h
    simp only [mapEntryData, resolveList, resolve1, isEmptyEntry, hg]
    by_cases hbe : b = e
    · subst hbe
      have hk' : ¬ Keep c.addrSize base b b false := by simp [Keep]
      simp [hk', hrec base hbase]
    · have : (Addr.const b == Addr.const e) = false := by simpa using hbe
      simp only [this, Bool.false_eq_true, if_false, List.cons_append, List.nil_append, asBuilt,
        addrVal, resolveList, resolve1]
      rw [hrec base hbase]
  | startLength b l d =>
    simp only [convertEntry] at h
    obtain ⟨b', h1, h⟩ := except_bind_ok h
    obtain ⟨x, hx, h⟩ := except_bind_ok h
    rw [convAddr_id hid] at h1
    cases h1
    have hg := gdata_ok (enc := enc) hx
    simp only [pure, Except.pure, Except.ok.injEq, Prod.mk.injEq] at h
    obtain ⟨rfl, rfl⟩ := h
    simp only [mapEntryData, resolveList, resolve1, isEmptyEntry, hg]
    by_cases hl : l = 0
    · subst hl
      have hk' : ¬ Keep c.addrSize base b (b % addrMod c.addrSize) false := by
        have := Nat.mod_le b (addrMod c.addrSize)
        simp only [Keep]; omega
      simp [hk', hrec base hbase]
    · have : (l == 0) = false := by simpa using hl
      simp only [this, Bool.false_eq_true, if_false, List.cons_append, List.nil_append, asBuilt,
        addrVal, resolveList, resolve1]
      rw [hrec base hbase]

theorem convertEntries_cons_ok {k : Kind} {c : Cfg} {ca : Nat → Option Addr} {ce : Bytes → CR WExpr}
    {addr : Bytes} {ab : Nat} {hb : Bool} {x : Entry} {rest : List (Ev Entry)} {out : WList}
    (h : convertEntries k c ca ce addr ab hb (.item x :: rest) = .ok out) :
    ∃ w hb' ws, convertEntry k c ca ce addr ab hb x = .ok (w, hb') ∧
      convertEntries k c ca ce addr ab hb' rest = .ok ws ∧
      out = (if isEmptyEntry w then [] else [w]) ++ ws := by
  simp only [convertEntries] at h
  obtain ⟨⟨w, hb'⟩, h1, h2⟩ := except_bind_ok h
  obtain ⟨ws, h3, h4⟩ := except_bind_ok h2
  simp only [pure, Except.pure, Except.ok.injEq] at h4
  refine ⟨w, hb', ws, h1, h3, ?_⟩
  rw [← h4]; split <;> simp

theorem convertEntries_meaning {k : Kind} {c : Cfg} {ca : Nat → Option Addr} {ce : Bytes → CR WExpr}
    {addr : Bytes} {ab : Nat} (enc : WExpr → Bytes)
    (hid : IdConv ca) (hs : ValidSize c.addrSize) (hlen : addr.length < 2 ^ 64) :
    ∀ (l : List Entry) (hb : Bool) (base : Nat) (out : WList), (hb = false → base = 0) →
      (∀ x ∈ l, RawFits c x) →
      convertEntries k c ca ce addr ab hb (l.map .item) = .ok out →
      resolveList c.addrSize (tableOf c.endian c.addrSize addr ab) base
          (l.map (mapEntryData (gdata k ce enc))) =
        resolveList c.addrSize noTable base (out.map (asBuilt enc))
  | [], hb, base, out, _, _, h => by
    simp only [List.map_nil, convertEntries, Except.ok.injEq] at h
    subst h; rfl
  | x :: xs, hb, base, out, hbase, hfit, h => by
    simp only [List.map_cons] at h
    obtain ⟨w, hb', ws, h1, h2, rfl⟩ := convertEntries_cons_ok h
    have step := convertEntry_step enc hid hs hlen (hfit x (by simp)) h1 base
      (xs.map (mapEntryData (gdata k ce enc))) (ws.map (asBuilt enc)) hbase
      (fun base' hb0 => convertEntries_meaning enc hid hs hlen xs hb' base' ws hb0
        (fun y hy => hfit y (by simp [hy])) h2)
    simp only [List.map_cons]
    rw [step]
    split <;> simp

/-- a successful conversion saw no `Err` from the raw iterator -/
theorem convertEntries_ok_items {k : Kind} {c : Cfg} {ca : Nat → Option Addr} {ce : Bytes → CR WExpr}
    {addr : Bytes} {ab : Nat} : ∀ (evs : List (Ev Entry)) (hb : Bool) (out : WList),
    convertEntries k c ca ce addr ab hb evs = .ok out → ∃ l : List Entry, evs = l.map .item
  | [], _, _, _ => ⟨[], rfl⟩
  | .error e :: rest, hb, out, h => by simp [convertEntries] at h
  | .item x :: rest, hb, out, h => by
    obtain ⟨w, hb', ws, _, h2, _⟩ := convertEntries_cons_ok h
    obtain ⟨l, hl⟩ := convertEntries_ok_items rest hb' ws h2
    exact ⟨x :: l, by simp [hl]⟩

/-- an entry the conversion drops denotes nothing, whatever the base address -/
theorem empty_denotes_nothing (s : Nat) (enc : WExpr → Bytes) (w : WEntry) (h : isEmptyEntry w = true)
    (base : Nat) (ys : List Entry) :
    resolveList s noTable base (asBuilt enc w :: ys) = resolveList s noTable base ys := by
  cases w with
  | baseAddress a => simp [isEmptyEntry] at h
  | defaultLocation x => simp [isEmptyEntry] at h
  | offsetPair b e x =>
    have : b = e := by simpa [isEmptyEntry] using h
    subst this
    simp [asBuilt, resolveList, resolve1, Keep]
  | startEnd b e x =>
    have : b = e := by simpa [isEmptyEntry] using h
    subst this
    simp [asBuilt, resolveList, resolve1, Keep]
  | startLength b len x =>
    have : len = 0 := by simpa [isEmptyEntry] using h
    subst this
    have := Nat.mod_le (addrVal b) (addrMod s)
    have hk : ¬ Keep s base (addrVal b) (addrVal b % addrMod s) false := by
      simp only [Keep]; omega
    simp [asBuilt, resolveList, resolve1, hk]

/-- the converted list is the sequence of per-entry conversions, in order, minus the empty ones -/
theorem convertEntries_shape {k : Kind} {c : Cfg} {ca : Nat → Option Addr} {ce : Bytes → CR WExpr}
    {addr : Bytes} {ab : Nat} : ∀ (l : List Entry) (hb : Bool) (out : WList),
    convertEntries k c ca ce addr ab hb (l.map .item) = .ok out →
    ∃ ws : List WEntry, ws.length = l.length ∧
      (∀ p ∈ l.zip ws, ∃ h h', convertEntry k c ca ce addr ab h p.1 = .ok (p.2, h')) ∧
      out = ws.filter (fun w => !isEmptyEntry w)
  | [], hb, out, h => by
    simp only [List.map_nil, convertEntries, Except.ok.injEq] at h
    subst h; exact ⟨[], rfl, by simp, rfl⟩
  | x :: xs, hb, out, h => by
    simp only [List.map_cons] at h
    obtain ⟨w, hb', ws, h1, h2, rfl⟩ := convertEntries_cons_ok h
    obtain ⟨ws', hlen, hf, rfl⟩ := convertEntries_shape xs hb' ws h2
    refine ⟨w :: ws', by simp [hlen], ?_, ?_⟩
    · intro p hp
      simp only [List.zip_cons_cons, List.mem_cons] at hp
      rcases hp with rfl | hp
      · exact ⟨hb, hb', h1⟩
      · exact hf p hp
    · cases hw : isEmptyEntry w <;> simp [List.filter, hw]

/-- the conversion never panics or diverges as long as the expression conversion does not -/
theorem convertEntry_no_crash {k : Kind} {c : Cfg} {ca : Nat → Option Addr} {ce : Bytes → CR WExpr}
    {addr : Bytes} {ab : Nat} (hce : ∀ d, ce d ≠ .error .crash) (hb : Bool) (x : Entry) :
    convertEntry k c ca ce addr ab hb x ≠ .error .crash := by
  have hA : ∀ a, convAddr ca a ≠ .error .crash := by
    intro a; unfold convAddr; split <;> simp
  have hU : ∀ i, unitAddress c addr ab i ≠ .error .crash := by
    intro i
    have hn := getAddress_normal c addr ab i
    unfold unitAddress
    cases hg : getAddress c addr ab i with
    | ok a => simp [liftRead]
    | err e => simp [liftRead]
    | panic w => rw [hg] at hn; simp [Out.Normal] at hn
    | diverge => rw [hg] at hn; simp [Out.Normal] at hn
  have hD : ∀ d, convData k ce d ≠ .error .crash := by
    intro d; cases k
    · simp [convData]
    · exact hce d
  have bindNC : ∀ {α β : Type} (x : CR α) (f : α → CR β), x ≠ .error .crash →
      (∀ a, f a ≠ .error .crash) → (x >>= f) ≠ .error .crash := by
    intro α β x f hx hf
    cases x with
    | ok a => exact hf a
    | error e => intro h; exact hx (by simpa [bind, Except.bind] using h)
  cases x with
  | pair b e d =>
    simp only [convertEntry]
    refine bindNC _ _ (hA b) fun b' => bindNC _ _ (hA e) fun e' => bindNC _ _ (hD d) fun x => ?_
    split
    · split <;> simp [pure, Except.pure, throw, throwThe, MonadExceptOf.throw]
    · simp [pure, Except.pure]
  | baseAddress a =>
    exact bindNC _ _ (hA a) fun _ => by simp [pure, Except.pure]
  | baseAddressx i =>
    exact bindNC _ _ (hU i) fun a => bindNC _ _ (hA a) fun _ => by simp [pure, Except.pure]
  | startxEndx b e d =>
    exact bindNC _ _ (hU b) fun b0 => bindNC _ _ (hA b0) fun _ => bindNC _ _ (hU e) fun e0 =>
      bindNC _ _ (hA e0) fun _ => bindNC _ _ (hD d) fun _ => by simp [pure, Except.pure]
  | startxLength b l d =>
    exact bindNC _ _ (hU b) fun b0 => bindNC _ _ (hA b0) fun _ => bindNC _ _ (hD d) fun _ => by
      simp [pure, Except.pure]
  | offsetPair b e d => exact bindNC _ _ (hD d) fun _ => by simp [pure, Except.pure]
  | defaultLocation d => exact bindNC _ _ (hD d) fun _ => by simp [pure, Except.pure]
  | startEnd b e d =>
    exact bindNC _ _ (hA b) fun _ => bindNC _ _ (hA e) fun _ => bindNC _ _ (hD d) fun _ => by
      simp [pure, Except.pure]
  | startLength b l d =>
    exact bindNC _ _ (hA b) fun _ => bindNC _ _ (hD d) fun _ => by simp [pure, Except.pure]

theorem convertEntries_no_crash {k : Kind} {c : Cfg} {ca : Nat → Option Addr} {ce : Bytes → CR WExpr}
    {addr : Bytes} {ab : Nat} (hce : ∀ d, ce d ≠ .error .crash) : ∀ (evs : List (Ev Entry)) (hb : Bool),
    convertEntries k c ca ce addr ab hb evs ≠ .error .crash
  | [], _ => by simp [convertEntries]
  | .error e :: _, _ => by simp [convertEntries]
  | .item x :: rest, hb => by
    simp only [convertEntries]
    cases h1 : convertEntry k c ca ce addr ab hb x with
    | error e =>
      intro h
      have := convertEntry_no_crash (k := k) (c := c) (ca := ca) (addr := addr) (ab := ab) hce hb x
      rw [h1] at this
      exact this (by simpa [bind, Except.bind] using h)
    | ok p =>
      cases h2 : convertEntries k c ca ce addr ab p.2 rest with
      | error e =>
        intro h
        have := convertEntries_no_crash (k := k) (c := c) (ca := ca) (addr := addr) (ab := ab) hce rest p.2
        rw [h2] at this
        exact this (by simpa [bind, Except.bind, h2] using h)
      | ok ws => simp [bind, Except.bind, h2, pure, Except.pure]

/-! ## what the raw reader guarantees -/

theorem parseRaw_fits (k : Kind) (c : Cfg) (f : Fmt) (bs : Bytes) (x : Entry) (rest : Bytes)
    (h : parseRaw k c f bs = .ok (some x, rest)) : RawFits c x := by
  cases x with
  | pair b e d =>
    cases f with
    | bare =>
      simp only [parseRaw] at h
      obtain ⟨⟨b', r1⟩, h1, h⟩ := bind_ok_inv h
      obtain ⟨⟨e', r2⟩, h2, h⟩ := bind_ok_inv h
      have hb := (readAddress_value _ _ _ _ _ h1).2.2
      have he := (readAddress_value _ _ _ _ _ h2).2.2
      simp only at h
      split at h
      · simp at h
      · split at h
        · simp at h
        · obtain ⟨⟨d', r3⟩, _, h⟩ := bind_ok_inv h
          simp only [Out.pure_eq, Out.ok.injEq, Prod.mk.injEq, Option.some.injEq, Entry.pair.injEq] at h
          obtain ⟨⟨rfl, rfl, _⟩, _⟩ := h
          exact ⟨hb, he⟩
    | coded =>
      exfalso
      simp only [parseRaw] at h
      split at h
      · simp at h
      · split at h
        all_goals (repeat' (first | (simp at h; done) | (obtain ⟨_, _, h⟩ := bind_ok_inv h) | (split at h)))
  | _ => trivial

theorem rawFuel_fits (k : Kind) (c : Cfg) (f : Fmt) : ∀ (n : Nat) (bs : Bytes) (evs : List (Ev Entry)),
    rawFuel k c f n bs = .ok evs → ∀ x, Ev.item x ∈ evs → RawFits c x := by
  intro n
  induction n with
  | zero => intro bs evs h; simp [rawFuel] at h
  | succ n ih =>
    intro bs evs h x hx
    rw [rawFuel_succ] at h
    split at h
    · simp only [Out.ok.injEq] at h; subst h; simp at hx
    · split at h
      · rename_i y rest hp
        obtain ⟨evs', h1, h2⟩ := bind_ok_inv h
        simp only [Out.pure_eq, Out.ok.injEq] at h2
        subst h2
        simp only [List.mem_cons, Ev.item.injEq] at hx
        rcases hx with rfl | hx
        · exact parseRaw_fits k c f bs _ rest hp
        · exact ih rest evs' h1 x hx
      · simp only [Out.ok.injEq] at h; subst h; simp at hx
      · simp only [Out.ok.injEq] at h; subst h; simp at hx
      · cases h
      · cases h

/-- everything the raw iterator returns at an offset of a section has pair words of the address size -/
theorem rawAt_fits (k : Kind) (c : Cfg) (dwo : Bool) (legacy v5 : Bytes) (offset : Nat)
    (evs : List (Ev Entry)) (h : rawAt k c dwo legacy v5 offset = .ok evs) :
    ∀ x, Ev.item x ∈ evs → RawFits c x := by
  unfold rawAt at h
  simp only at h
  split at h <;> split at h
  · cases h
  · exact rawFuel_fits k c _ _ _ evs h
  · cases h
  · exact rawFuel_fits k c _ _ _ evs h

theorem liftRead_ok {α : Type} {r : Out α} {a : α} (h : liftRead r = .ok a) : r = .ok a := by
  cases r <;> simp_all [liftRead]

theorem cookedAt_eq (k : Kind) (c : Cfg) (dwo : Bool) (legacy v5 : Bytes) (off base : Nat) (addr : Bytes)
    (ab : Nat) :
    cookedAt k c dwo legacy v5 off base addr ab =
      (do let raw ← rawAt k c dwo legacy v5 off; cook c addr ab base raw) := by
  unfold cookedAt rawAt cookedAll
  simp only
  split <;> split <;> simp

end Gimli.ConvLists
