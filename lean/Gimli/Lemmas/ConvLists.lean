import Gimli.Model.ConvLists
import Gimli.Lemmas.WLists
/-! Helper lemmas for the range / location list component of C12 (read-to-write conversion). -/
namespace Gimli.ConvLists
open Gimli Gimli.Ints Gimli.Lists Gimli.WLists Gimli.Spec.Lists Gimli.Spec.WLists

/-- `convert_address` of an executable: every address is the constant it is
(`|a| Some(Address::Constant(a))`) -/
def IdConv (ca : Nat → Option Addr) : Prop := ∀ a, ca a = some (.const a)

/-- what the raw reader guarantees about an address-or-offset pair: both words were read with the
unit's address size -/
def RawFits (c : Cfg) : Entry → Prop
  | .pair b e _ => b < addrMod c.addrSize ∧ e < addrMod c.addrSize
  | _ => True

instance (c : Cfg) (x : Entry) : Decidable (RawFits c x) := by
  unfold RawFits; cases x <;> infer_instance

/-- a location description after conversion and re-encoding (`enc` = the bytes the converted
expression is written as); unchanged where the conversion fails -/
def gdata (k : Kind) (ce : Bytes → CR WExpr) (enc : WExpr → Bytes) (d : Bytes) : Bytes :=
  match convData k ce d with
  | .ok x => enc x
  | .error _ => d

/-- apply `g` to the location description of an entry -/
def mapEntryData (g : Bytes → Bytes) : Entry → Entry
  | .pair b e d => .pair b e (g d)
  | .baseAddress a => .baseAddress a
  | .baseAddressx i => .baseAddressx i
  | .startxEndx b e d => .startxEndx b e (g d)
  | .startxLength b l d => .startxLength b l (g d)
  | .offsetPair b e d => .offsetPair b e (g d)
  | .defaultLocation d => .defaultLocation (g d)
  | .startEnd b e d => .startEnd b e (g d)
  | .startLength b l d => .startLength b l (g d)

def mapDenotData (g : Bytes → Bytes) : Denot → Denot
  | .range b e d => .range b e (g d)
  | .undefined => .undefined

/-- the resolution does not look at location descriptions -/
theorem resolveList_mapData (s : Nat) (tbl : Table) (g : Bytes → Bytes) : ∀ (l : List Entry) (base : Nat),
    resolveList s tbl base (l.map (mapEntryData g)) = (resolveList s tbl base l).map (mapDenotData g)
  | [], _ => rfl
  | x :: xs, base => by
    have ih := resolveList_mapData s tbl g xs
    cases x with
    | pair b e d =>
      simp only [List.map_cons, mapEntryData, resolveList, resolve1]
      split <;> simp [ih, mapDenotData]
    | baseAddress a => simp only [List.map_cons, mapEntryData, resolveList, resolve1, ih]
    | baseAddressx i =>
      simp only [List.map_cons, mapEntryData, resolveList, resolve1]
      cases tbl i <;> simp [ih, mapDenotData]
    | startxEndx b e d =>
      simp only [List.map_cons, mapEntryData, resolveList, resolve1]
      cases tbl b <;> cases tbl e <;> simp only [] <;> (try split) <;> simp [ih, mapDenotData]
    | startxLength b l d =>
      simp only [List.map_cons, mapEntryData, resolveList, resolve1]
      cases tbl b <;> simp only [] <;> (try split) <;> simp [ih, mapDenotData]
    | offsetPair b e d =>
      simp only [List.map_cons, mapEntryData, resolveList, resolve1]
      split <;> simp [ih, mapDenotData]
    | defaultLocation d =>
      simp only [List.map_cons, mapEntryData, resolveList, resolve1]
      split <;> simp [ih, mapDenotData]
    | startEnd b e d =>
      simp only [List.map_cons, mapEntryData, resolveList, resolve1]
      split <;> simp [ih, mapDenotData]
    | startLength b l d =>
      simp only [List.map_cons, mapEntryData, resolveList, resolve1]
      split <;> simp [ih, mapDenotData]

theorem except_bind_ok {ε α β : Type} {x : Except ε α} {f : α → Except ε β} {b : β}
    (h : (x >>= f) = .ok b) : ∃ a, x = .ok a ∧ f a = .ok b := by
  cases x with
  | ok a => exact ⟨a, rfl, h⟩
  | error e => cases h

theorem convAddr_id {ca : Nat → Option Addr} (hid : IdConv ca) (a : Nat) : convAddr ca a = .ok (.const a) := by
  simp [convAddr, hid a]

theorem unitAddress_ok {c : Cfg} {addr : Bytes} {ab i a : Nat} (hs : ValidSize c.addrSize)
    (hlen : addr.length < 2 ^ 64) (h : unitAddress c addr ab i = .ok a) :
    tableOf c.endian c.addrSize addr ab i = some a := by
  have ht := getAddress_tableOf c addr ab i hs hlen
  unfold unitAddress at h
  cases hg : getAddress c addr ab i with
  | ok a' =>
    rw [hg] at h
    simp only [liftRead, Except.ok.injEq] at h
    subst h
    cases htb : tableOf c.endian c.addrSize addr ab i with
    | some a'' => rw [htb] at ht; simp only at ht; rw [hg] at ht; simpa using ht.symm
    | none => rw [htb] at ht; simp only at ht; obtain ⟨e, he⟩ := ht; rw [hg] at he; cases he
  | err e => rw [hg] at h; cases h
  | panic w => rw [hg] at h; cases h
  | diverge => rw [hg] at h; cases h

theorem gdata_ok {k : Kind} {ce : Bytes → CR WExpr} {enc : WExpr → Bytes} {d : Bytes} {x : WExpr}
    (h : convData k ce d = .ok x) : gdata k ce enc d = enc x := by
  simp [gdata, h]

/-- one step of the list resolution, input entry vs converted entry -/
theorem convertEntry_step {k : Kind} {c : Cfg} {ca : Nat → Option Addr} {ce : Bytes → CR WExpr}
    {addr : Bytes} {ab : Nat} {hb hb' : Bool} {x : Entry} {w : WEntry} (enc : WExpr → Bytes)
    (hid : IdConv ca) (hs : ValidSize c.addrSize) (hlen : addr.length < 2 ^ 64) (hfit : RawFits c x)
    (h : convertEntry k c ca ce addr ab hb x = .ok (w, hb')) :
    ∀ (base : Nat) (xs ys : List Entry), (hb = false → base = 0) →
      (∀ base', (hb' = false → base' = 0) →
        resolveList c.addrSize (tableOf c.endian c.addrSize addr ab) base' xs =
          resolveList c.addrSize noTable base' ys) →
      resolveList c.addrSize (tableOf c.endian c.addrSize addr ab) base
          (mapEntryData (gdata k ce enc) x :: xs) =
        resolveList c.addrSize noTable base
          ((if isEmptyEntry w then [] else [asBuilt enc w]) ++ ys) := by
  intro base xs ys hbase hrec
  have ht := tombstone_pos c.addrSize hs
  cases x with
  | pair b e d =>
    simp only [convertEntry] at h
    obtain ⟨b', h1, h⟩ := except_bind_ok h
    obtain ⟨e', h2, h⟩ := except_bind_ok h
    obtain ⟨x, hx, h⟩ := except_bind_ok h
    rw [convAddr_id hid] at h1 h2
    cases h1; cases h2
    have hg := gdata_ok (enc := enc) hx
    cases hb with
    | true =>
      simp only [if_true, pure, Except.pure, Except.ok.injEq, Prod.mk.injEq] at h
      obtain ⟨rfl, rfl⟩ := h
      simp only [mapEntryData, resolveList, resolve1, isEmptyEntry, hg]
      by_cases hbe : b = e
      · subst hbe
        have hk : ¬ Keep c.addrSize base ((base + b) % addrMod c.addrSize) ((base + b) % addrMod c.addrSize) true := by
          simp [Keep]
        simp [hk, hrec base (by simp)]
      · have : (b == e) = false := by simpa using hbe
        simp only [this, Bool.false_eq_true, if_false, List.cons_append, List.nil_append, asBuilt,
          resolveList, resolve1]
        rw [hrec base (by simp)]
    | false =>
      have hb0 : base = 0 := hbase rfl
      subst hb0
      simp only [Bool.false_eq_true, if_false, pure, Except.pure, Except.ok.injEq, Prod.mk.injEq] at h
      obtain ⟨rfl, rfl⟩ := h
      obtain ⟨hfb, hfe⟩ := hfit
      simp only [mapEntryData, resolveList, resolve1, isEmptyEntry, hg, Nat.zero_add,
        Nat.mod_eq_of_lt hfb, Nat.mod_eq_of_lt hfe]
      have hk : Keep c.addrSize 0 b e true ↔ Keep c.addrSize 0 b e false := by simp [Keep, ht]
      by_cases hbe : b = e
      · subst hbe
        have hk' : ¬ Keep c.addrSize 0 b b true := by simp [Keep]
        simp [hk', hrec 0 (by simp)]
      · have : (Addr.const b == Addr.const e) = false := by simpa using hbe
        simp only [this, Bool.false_eq_true, if_false, List.cons_append, List.nil_append, asBuilt,
          addrVal, resolveList, resolve1]
        rw [hrec 0 (by simp)]
        by_cases hkeep : Keep c.addrSize 0 b e false
        · rw [if_pos hkeep, if_pos (hk.mpr hkeep)]
        · rw [if_neg hkeep, if_neg (fun h => hkeep (hk.mp h))]
  | baseAddress a =>
    simp only [convertEntry] at h
    obtain ⟨a', h1, h⟩ := except_bind_ok h
    rw [convAddr_id hid] at h1
    cases h1
    simp only [pure, Except.pure, Except.ok.injEq, Prod.mk.injEq] at h
    obtain ⟨rfl, rfl⟩ := h
    simp only [mapEntryData, resolveList, resolve1, isEmptyEntry, Bool.false_eq_true, if_false,
      List.cons_append, List.nil_append, asBuilt, addrVal]
    exact hrec a (by simp)
  | baseAddressx i =>
    simp only [convertEntry] at h
    obtain ⟨a0, h0, h⟩ := except_bind_ok h
    obtain ⟨a', h1, h⟩ := except_bind_ok h
    rw [convAddr_id hid] at h1
    cases h1
    simp only [pure, Except.pure, Except.ok.injEq, Prod.mk.injEq] at h
    obtain ⟨rfl, rfl⟩ := h
    have htb := unitAddress_ok hs hlen h0
    simp only [mapEntryData, resolveList, resolve1, htb, isEmptyEntry, Bool.false_eq_true, if_false,
      List.cons_append, List.nil_append, asBuilt, addrVal]
    exact hrec a0 (by simp)
  | startxEndx b e d =>
    simp only [convertEntry] at h
    obtain ⟨b0, hb0, h⟩ := except_bind_ok h
    obtain ⟨b', h1, h⟩ := except_bind_ok h
    obtain ⟨e0, he0, h⟩ := except_bind_ok h
    obtain ⟨e', h2, h⟩ := except_bind_ok h
    obtain ⟨x, hx, h⟩ := except_bind_ok h
    rw [convAddr_id hid] at h1 h2
    cases h1; cases h2
    have hg := gdata_ok (enc := enc) hx
    simp only [pure, Except.pure, Except.ok.injEq, Prod.mk.injEq] at h
    obtain ⟨rfl, rfl⟩ := h
    have htb := unitAddress_ok hs hlen hb0
    have hte := unitAddress_ok hs hlen he0
    simp only [mapEntryData, resolveList, resolve1, htb, hte, isEmptyEntry, hg]
    by_cases hbe : b0 = e0
    · subst hbe
      have hk' : ¬ Keep c.addrSize base b0 b0 false := by simp [Keep]
      simp [hk', hrec base hbase]
    · have : (Addr.const b0 == Addr.const e0) = false := by simpa using hbe
      simp only [this, Bool.false_eq_true, if_false, List.cons_append, List.nil_append, asBuilt,
        addrVal, resolveList, resolve1]
      rw [hrec base hbase]
  | startxLength b l d =>
    simp only [convertEntry] at h
    obtain ⟨b0, hb0, h⟩ := except_bind_ok h
    obtain ⟨b', h1, h⟩ := except_bind_ok h
    obtain ⟨x, hx, h⟩ := except_bind_ok h
    rw [convAddr_id hid] at h1
    cases h1
    have hg := gdata_ok (enc := enc) hx
    simp only [pure, Except.pure, Except.ok.injEq, Prod.mk.injEq] at h
    obtain ⟨rfl, rfl⟩ := h
    have htb := unitAddress_ok hs hlen hb0
    simp only [mapEntryData, resolveList, resolve1, htb, isEmptyEntry, hg]
    by_cases hl : l = 0
    · subst hl
      have hk' : ¬ Keep c.addrSize base b0 (b0 % addrMod c.addrSize) false := by
        have := Nat.mod_le b0 (addrMod c.addrSize)
        simp only [Keep]; omega
      simp [hk', hrec base hbase]
    · have : (l == 0) = false := by simpa using hl
      simp only [this, Bool.false_eq_true, if_false, List.cons_append, List.nil_append, asBuilt,
        addrVal, resolveList, resolve1]
      rw [hrec base hbase]
  | offsetPair b e d =>
    simp only [convertEntry] at h
    obtain ⟨x, hx, h⟩ := except_bind_ok h
    have hg := gdata_ok (enc := enc) hx
    simp only [pure, Except.pure, Except.ok.injEq, Prod.mk.injEq] at h
    obtain ⟨rfl, rfl⟩ := h
    simp only [mapEntryData, resolveList, resolve1, isEmptyEntry, hg]
    by_cases hbe : b = e
    · subst hbe
      have hk : ¬ Keep c.addrSize base ((base + b) % addrMod c.addrSize) ((base + b) % addrMod c.addrSize) true := by
        simp [Keep]
      simp [hk, hrec base hbase]
    · have : (b == e) = false := by simpa using hbe
      simp only [this, Bool.false_eq_true, if_false, List.cons_append, List.nil_append, asBuilt,
        resolveList, resolve1]
      rw [hrec base hbase]
  | defaultLocation d =>
    simp only [convertEntry] at h
    obtain ⟨x, hx, h⟩ := except_bind_ok h
    have hg := gdata_ok (enc := enc) hx
    simp only [pure, Except.pure, Except.ok.injEq, Prod.mk.injEq] at h
    obtain ⟨rfl, rfl⟩ := h
    simp only [mapEntryData, resolveList, resolve1, isEmptyEntry, hg, Bool.false_eq_true, if_false,
      List.cons_append, List.nil_append, asBuilt]
    rw [hrec base hbase]
  | startEnd b e d =>
    simp only [convertEntry] at h
    obtain ⟨b', h1, h⟩ := except_bind_ok h
    obtain ⟨e', h2, h⟩ := except_bind_ok h
    obtain ⟨x, hx, h⟩ := except_bind_ok h
    rw [convAddr_id hid] at h1 h2
    cases h1; cases h2
    have hg := gdata_ok (enc := enc) hx
    simp only [pure, Except.pure, Except.ok.injEq, Prod.mk.injEq] at h
    obtain ⟨rfl, rfl⟩ := h
    simp only [mapEntryData, resolveList, resolve1, isEmptyEntry, hg]
    by_cases hbe : b = e
    · subst hbe
      have hk' : ¬ Keep c.addrSize base b b false := by simp [Keep]
      simp [hk', hrec base hbase]
    · have : (Addr.const b == Addr.const e) = false := by simpa using hbe
      simp only [this, Bool.false_eq_true, if_false, List.cons_append, List.nil_append, asBuilt,
        addrVal, resolveList, resolve1]
      rw [hrec base hbase]
  | startLength b l d =>
    simp only [convertEntry] at h
    obtain ⟨b', h1, h⟩ := except_bind_ok h
    obtain ⟨x, hx, h⟩ := except_bind_ok h
    rw [convAddr_id hid] at h1
    cases h1
    have hg := gdata_ok (enc := enc) hx
    simp only [pure, Except.pure, Except.ok.injEq, Prod.mk.injEq] at h
    obtain ⟨rfl, rfl⟩ := h
    simp only [mapEntryData, resolveList, resolve1, isEmptyEntry, hg]
    by_cases hl : l = 0
    · subst hl
      have hk' : ¬ Keep c.addrSize base b (b % addrMod c.addrSize) false := by
        have := Nat.mod_le b (addrMod c.addrSize)
        simp only [Keep]; omega
      simp [hk', hrec base hbase]
    · have : (l == 0) = false := by simpa using hl
      simp only [this, Bool.false_eq_true, if_false, List.cons_append, List.nil_append, asBuilt,
        addrVal, resolveList, resolve1]
      rw [hrec base hbase]

theorem convertEntries_cons_ok {k : Kind} {c : Cfg} {ca : Nat → Option Addr} {ce : Bytes → CR WExpr}
    {addr : Bytes} {ab : Nat} {hb : Bool} {x : Entry} {rest : List (Ev Entry)} {out : WList}
    (h : convertEntries k c ca ce addr ab hb (.item x :: rest) = .ok out) :
    ∃ w hb' ws, convertEntry k c ca ce addr ab hb x = .ok (w, hb') ∧
      convertEntries k c ca ce addr ab hb' rest = .ok ws ∧
      out = (if isEmptyEntry w then [] else [w]) ++ ws := by
  simp only [convertEntries] at h
  obtain ⟨⟨w, hb'⟩, h1, h2⟩ := except_bind_ok h
  obtain ⟨ws, h3, h4⟩ := except_bind_ok h2
  simp only [pure, Except.pure, Except.ok.injEq] at h4
  refine ⟨w, hb', ws, h1, h3, ?_⟩
  rw [← h4]; split <;> simp

theorem convertEntries_meaning {k : Kind} {c : Cfg} {ca : Nat → Option Addr} {ce : Bytes → CR WExpr}
    {addr : Bytes} {ab : Nat} (enc : WExpr → Bytes)
    (hid : IdConv ca) (hs : ValidSize c.addrSize) (hlen : addr.length < 2 ^ 64) :
    ∀ (l : List Entry) (hb : Bool) (base : Nat) (out : WList), (hb = false → base = 0) →
      (∀ x ∈ l, RawFits c x) →
      convertEntries k c ca ce addr ab hb (l.map .item) = .ok out →
      resolveList c.addrSize (tableOf c.endian c.addrSize addr ab) base
          (l.map (mapEntryData (gdata k ce enc))) =
        resolveList c.addrSize noTable base (out.map (asBuilt enc))
  | [], hb, base, out, _, _, h => by
    simp only [List.map_nil, convertEntries, Except.ok.injEq] at h
    subst h; rfl
  | x :: xs, hb, base, out, hbase, hfit, h => by
    simp only [List.map_cons] at h
    obtain ⟨w, hb', ws, h1, h2, rfl⟩ := convertEntries_cons_ok h
    have step := convertEntry_step enc hid hs hlen (hfit x (by simp)) h1 base
      (xs.map (mapEntryData (gdata k ce enc))) (ws.map (asBuilt enc)) hbase
      (fun base' hb0 => convertEntries_meaning enc hid hs hlen xs hb' base' ws hb0
        (fun y hy => hfit y (by simp [hy])) h2)
    simp only [List.map_cons]
    rw [step]
    split <;> simp

end Gimli.ConvLists
