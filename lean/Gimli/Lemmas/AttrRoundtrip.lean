import Gimli.Lemmas.Attr
import Gimli.Spec.Attr
/-! Helper lemmas for C03, part 3: decoding the DWARF encoding (`Spec.Attr.encodeForm`) of a value
gives the value back — per primitive reader, then per form. -/
namespace Gimli.Attr
open Gimli Gimli.Ints Gimli.Spec.Attr

theorem readFixed_rt (e : Endian) (n v : Nat) (rest : Bytes) (hv : v < 2 ^ (8 * n)) :
    readFixed e n (toBytes e n v ++ rest) = .ok (v, rest) :=
  readFixed_toBytes e n v rest (by rw [pow256]; exact hv)

theorem readAddress_rt (e : Endian) (n v : Nat) (rest : Bytes) (hn : validAddressSize n)
    (hv : v < 2 ^ (8 * n)) : readAddress e n (toBytes e n v ++ rest) = .ok (v, rest) := by
  unfold readAddress
  unfold validAddressSize at hn
  rw [if_pos hn]; exact readFixed_rt e n v rest hv

theorem offsetFromU64_64 {v : Nat} (hv : v < 2 ^ 64) : offsetFromU64 64 v = .ok v := by
  simp [offsetFromU64, hv]

theorem readWord_rt (e : Endian) (f : Format) (v : Nat) (rest : Bytes) (hv : v < 2 ^ (8 * f.wordSize)) :
    readWord e 64 f (toBytes e f.wordSize v ++ rest) = .ok (v, rest) := by
  cases f with
  | dwarf32 => exact readFixed_rt e 4 v rest hv
  | dwarf64 =>
    simp only [readWord, Format.wordSize] at hv ⊢
    rw [readFixed_rt e 8 v rest hv]
    simp [offsetFromU64_64 hv]

theorem readSizedOffset_rt (e : Endian) (n v : Nat) (rest : Bytes) (hn : validAddressSize n)
    (hv : v < 2 ^ (8 * n)) : readSizedOffset e 64 n (toBytes e n v ++ rest) = .ok (v, rest) := by
  unfold readSizedOffset
  unfold validAddressSize at hn
  rw [if_pos hn, readFixed_rt e n v rest hv]
  have : v < 2 ^ 64 := by
    have : 2 ^ (8 * n) ≤ 2 ^ 64 := Nat.pow_le_pow_right (by decide) (by omega)
    omega
  simp [offsetFromU64_64 this]

theorem leVal_append_zeros (a : Bytes) (k : Nat) : leVal (a ++ List.replicate k 0) = leVal a := by
  induction a with
  | nil =>
    induction k with
    | zero => rfl
    | succ k ih => simp only [List.nil_append] at ih ⊢; simp [List.replicate_succ, leVal, ih]
  | cons b tl ih => simp [leVal, ih]

theorem readUint_rt (e : Endian) (n v : Nat) (rest : Bytes) (hn : n ≤ 8) (hv : v < 2 ^ (8 * n)) :
    readUint e n (toBytes e n v ++ rest) = .ok (v, rest) := by
  unfold readUint
  have hl := toBytes_length e n v
  rw [if_neg (by omega), take_ok _ _ (by simp [hl])]
  simp only [Out.bind_ok, Out.pure_eq]
  rw [List.take_left' hl, List.drop_left' hl]
  have hv' : v % 256 ^ n = v := Nat.mod_eq_of_lt (by rw [pow256]; exact hv)
  cases e with
  | little =>
    simp only [fromBytes, toBytes, leVal_append_zeros, leVal_leBytes, hv']
  | big =>
    simp only [fromBytes, toBytes, List.reverse_append, List.reverse_reverse, List.reverse_replicate,
      leVal_append_zeros, leVal_leBytes, hv']

theorem take_rt (b rest : Bytes) : Ints.take b.length (b ++ rest) = .ok (b, rest) := by
  rw [take_ok _ _ (by simp)]; simp

theorem readCStr_rt (s rest : Bytes) (h : (0 : UInt8) ∉ s) : readCStr (s ++ [0] ++ rest) = .ok (s, rest) := by
  induction s with
  | nil => simp [readCStr]
  | cons b tl ih =>
    have hb : b ≠ 0 := fun hb => h (by simp [hb])
    have ht : (0 : UInt8) ∉ tl := fun ht => h (by simp [ht])
    simp only [List.cons_append, readCStr, hb, if_false]
    have := ih ht
    simp only [List.append_assoc] at this ⊢
    rw [this]; rfl

theorem readFixed_one (e : Endian) (b : UInt8) (rest : Bytes) :
    readFixed e 1 (b :: rest) = .ok (b.toNat, rest) := by
  cases e <;> simp [readFixed, Ints.take, fromBytes, leVal]

theorem encFixed_some {e : Endian} {n : Nat} {p : Payload} {bytes : Bytes}
    (h : encFixed e n p = some bytes) : ∃ v, p = .num v ∧ v < 2 ^ (8 * n) ∧ bytes = toBytes e n v := by
  unfold encFixed at h
  split at h
  · split at h
    · simp only [Option.some.injEq] at h; exact ⟨_, rfl, by assumption, h.symm⟩
    · simp at h
  · simp at h

theorem encUleb_some {p : Payload} {bytes : Bytes}
    (h : encUleb p = some bytes) : ∃ v, p = .num v ∧ v < 2 ^ 64 ∧ bytes = Leb.encodeU v := by
  unfold encUleb at h
  split at h
  · split at h
    · simp only [Option.some.injEq] at h; exact ⟨_, rfl, by assumption, h.symm⟩
    · simp at h
  · simp at h

theorem encBlock_some {e : Endian} {w : Nat} {p : Payload} {bytes : Bytes}
    (h : encBlock e w p = some bytes) :
    ∃ b, p = .bytes b ∧ b.length < 2 ^ (8 * w) ∧ bytes = toBytes e w b.length ++ b := by
  unfold encBlock at h
  split at h
  · split at h
    · simp only [Option.some.injEq] at h; exact ⟨_, rfl, by assumption, h.symm⟩
    · simp at h
  · simp at h

theorem encBlockLeb_some {p : Payload} {bytes : Bytes}
    (h : encBlockLeb p = some bytes) :
    ∃ b, p = .bytes b ∧ b.length < 2 ^ 64 ∧ bytes = Leb.encodeU b.length ++ b := by
  unfold encBlockLeb at h
  split at h
  · split at h
    · simp only [Option.some.injEq] at h; exact ⟨_, rfl, by assumption, h.symm⟩
    · simp at h
  · simp at h

theorem numV_rt (k : Kind) (r : Out (Nat × Bytes)) (v : Nat) (rest : Bytes) (h : r = .ok (v, rest)) :
    numV k r = .ok (⟨k, .num v⟩, rest) := by
  subst h; rfl

theorem blockV_rt (k : Kind) (r : Out (Nat × Bytes)) (b rest : Bytes)
    (h : r = .ok (b.length, b ++ rest)) : blockV k r = .ok (⟨k, .bytes b⟩, rest) := by
  subst h
  simp only [blockV, Out.bind_ok, take_rt]
  rfl

/-- every form except `DW_FORM_indirect`: decoding the DWARF encoding of a value gives back that
value (class and payload) and leaves exactly what followed it -/
theorem parseDirect_roundtrip (enc : Encoding) (spec : Spec) (form : Form) (p : Payload)
    (bytes rest : Bytes) (henc : encodeForm enc form p = some bytes)
    (himp : form = .implicitConst → spec.form = .implicitConst ∧ p = .int spec.implicitConst) :
    parseDirect enc spec form (bytes ++ rest) = .ok (⟨rawKind enc spec.name form, p⟩, rest) := by
  cases form <;> simp only [encodeForm, reduceCtorEq] at henc <;> simp only [parseDirect, rawKind]
  case sdata =>
    split at henc
    · rename_i i
      split at henc
      · rename_i hr
        simp only [Option.some.injEq] at henc; subst henc
        rw [Leb.signed_roundtrip i hr.1 hr.2 rest]; rfl
      · simp at henc
    · simp at henc
  case addr =>
    split at henc
    · rename_i ha
      obtain ⟨v, rfl, hv, rfl⟩ := encFixed_some henc
      exact numV_rt _ _ _ _ (readAddress_rt _ _ _ _ ha hv)
    · simp at henc
  case refAddr =>
    split at henc
    · rename_i h2
      split at henc
      · rename_i ha
        obtain ⟨v, rfl, hv, rfl⟩ := encFixed_some henc
        rw [if_pos h2]
        exact numV_rt _ _ _ _ (readSizedOffset_rt _ _ _ _ ha hv)
      · simp at henc
    · rename_i h2
      obtain ⟨v, rfl, hv, rfl⟩ := encFixed_some henc
      rw [if_neg h2]
      exact numV_rt _ _ _ _ (readWord_rt _ _ _ _ hv)
  case data4 =>
    obtain ⟨v, rfl, hv, rfl⟩ := encFixed_some henc
    split
    · exact numV_rt _ _ _ _ (readWord_rt _ .dwarf32 _ _ hv)
    · exact numV_rt _ _ _ _ (readFixed_rt _ _ _ _ hv)
  case data8 =>
    obtain ⟨v, rfl, hv, rfl⟩ := encFixed_some henc
    split
    · exact numV_rt _ _ _ _ (readWord_rt _ .dwarf64 _ _ hv)
    · exact numV_rt _ _ _ _ (readFixed_rt _ _ _ _ hv)
  case string =>
    split at henc
    · split at henc
      · rename_i s h0
        simp only [Option.some.injEq] at henc; subst henc
        rw [readCStr_rt _ _ h0]; rfl
      · simp at henc
    · simp at henc
  case flag =>
    split at henc
    · rename_i b
      simp only [Option.some.injEq] at henc; subst henc
      cases b <;> simp [readFixed_one]
    · simp at henc
  case flagPresent =>
    split at henc
    · simp only [Option.some.injEq] at henc; subst henc; rfl
    · simp at henc
  case implicitConst =>
    obtain ⟨hf, hp⟩ := himp rfl
    subst hp
    simp only [Option.some.injEq] at henc; subst henc
    simp [Spec.implicitConstValue, hf]
  all_goals first
    | (obtain ⟨v, rfl, hv, rfl⟩ := encFixed_some henc
       first
        | exact numV_rt _ _ _ _ (readFixed_rt _ _ _ _ hv)
        | exact numV_rt _ _ _ _ (readWord_rt _ _ _ _ hv)
        | exact numV_rt _ _ _ _ (readUint_rt _ _ _ _ (by omega) hv))
    | (obtain ⟨v, rfl, hv, rfl⟩ := encUleb_some henc
       exact numV_rt _ _ _ _ (Leb.unsigned_roundtrip _ hv _))
    | (obtain ⟨b, rfl, hb, rfl⟩ := encBlock_some henc
       refine blockV_rt _ _ _ _ ?_
       rw [List.append_assoc]
       exact readFixed_rt _ _ _ _ hb)
    | (obtain ⟨b, rfl, hb, rfl⟩ := encBlockLeb_some henc
       refine blockV_rt _ _ _ _ ?_
       rw [List.append_assoc]
       exact Leb.unsigned_roundtrip _ hb _)

end Gimli.Attr
