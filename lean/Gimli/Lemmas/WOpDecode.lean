import Gimli.Lemmas.WOp
/-!
# C15: the C07 reader Model on the opcodes the writer emits

`Op.parseOperands` at each opcode byte `Operation::write` can produce, as closed evaluation
(`rfl`) of the reader Model; then the round trip of every operand codec (C09 lemmas).
-/
namespace Gimli.WOp
open Gimli.Op (Encoding)
variable (e : Endian) (enc : Encoding) (rest : Bytes)

theorem parse_cons (b : UInt8) :
    Op.parse e enc (b :: rest) = Op.parseOperands e enc b.toNat rest := rfl

theorem po_lit (v : Nat) (hv : v < 32) :
    Op.parseOperands e enc (0x30 + v) rest = .ok (.unsignedConstant v, rest) := by
  unfold Op.parseOperands
  have : 0x30 ≤ 0x30 + v ∧ 0x30 + v ≤ 0x4f := by omega
  simp only [this, and_self, if_true, Nat.add_sub_cancel_left]

theorem po_reg (r : Nat) (hr : r < 32) :
    Op.parseOperands e enc (0x50 + r) rest = .ok (.register r, rest) := by
  unfold Op.parseOperands
  have h1 : ¬ (0x30 ≤ 0x50 + r ∧ 0x50 + r ≤ 0x4f) := by omega
  have h2 : 0x50 ≤ 0x50 + r ∧ 0x50 + r ≤ 0x6f := by omega
  simp only [h1, h2, and_self, if_true, if_false, Nat.add_sub_cancel_left]

theorem po_breg (r : Nat) (hr : r < 32) :
    Op.parseOperands e enc (0x70 + r) rest =
      (do let (v, bs) ← Leb.signed rest; pure (.registerOffset r v 0, bs)) := by
  unfold Op.parseOperands
  have h1 : ¬ (0x30 ≤ 0x70 + r ∧ 0x70 + r ≤ 0x4f) := by omega
  have h2 : ¬ (0x50 ≤ 0x70 + r ∧ 0x70 + r ≤ 0x6f) := by omega
  have h3 : 0x70 ≤ 0x70 + r ∧ 0x70 + r ≤ 0x8f := by omega
  simp only [h1, h2, h3, and_self, if_true, if_false, Nat.add_sub_cancel_left]

theorem po_03 : Op.parseOperands e enc 0x03 rest =
    (do let (a, bs) ← Ints.readAddress e enc.addressSize rest; pure (.address a, bs)) := rfl
theorem po_06 : Op.parseOperands e enc 0x06 rest = .ok (.deref 0 enc.addressSize false, rest) := rfl
theorem po_18 : Op.parseOperands e enc 0x18 rest = .ok (.deref 0 enc.addressSize true, rest) := rfl
theorem po_10 : Op.parseOperands e enc 0x10 rest =
    (do let (v, bs) ← Leb.unsigned rest; pure (.unsignedConstant v, bs)) := rfl
theorem po_11 : Op.parseOperands e enc 0x11 rest =
    (do let (v, bs) ← Leb.signed rest; pure (.signedConstant v, bs)) := rfl
theorem po_12 : Op.parseOperands e enc 0x12 rest = .ok (.pick 0, rest) := rfl
theorem po_14 : Op.parseOperands e enc 0x14 rest = .ok (.pick 1, rest) := rfl
theorem po_15 : Op.parseOperands e enc 0x15 rest =
    (do let (v, bs) ← Op.rdU e 1 rest; pure (.pick v, bs)) := rfl
theorem po_23 : Op.parseOperands e enc 0x23 rest =
    (do let (v, bs) ← Leb.unsigned rest; pure (.plusConstant v, bs)) := rfl
theorem po_28 : Op.parseOperands e enc 0x28 rest =
    (do let (t, bs) ← Op.rdI e 2 rest; pure (.bra t, bs)) := rfl
theorem po_2f : Op.parseOperands e enc 0x2f rest =
    (do let (t, bs) ← Op.rdI e 2 rest; pure (.skip t, bs)) := rfl
theorem po_90 : Op.parseOperands e enc 0x90 rest =
    (do let (r, bs) ← Op.rdRegister rest; pure (.register r, bs)) := rfl
theorem po_91 : Op.parseOperands e enc 0x91 rest =
    (do let (v, bs) ← Leb.signed rest; pure (.frameOffset v, bs)) := rfl
theorem po_92 : Op.parseOperands e enc 0x92 rest = (do
    let (r, bs) ← Op.rdRegister rest
    let (o, bs) ← Leb.signed bs
    pure (.registerOffset r o 0, bs)) := rfl
theorem po_93 : Op.parseOperands e enc 0x93 rest = (do
    let (size, bs) ← Leb.unsigned rest
    if size * 8 < 2 ^ 64 then pure (.piece (size * 8) none, bs) else .err .rInvalidPiece) := rfl
theorem po_94 : Op.parseOperands e enc 0x94 rest =
    (do let (s, bs) ← Op.rdU e 1 rest; pure (.deref 0 s false, bs)) := rfl
theorem po_95 : Op.parseOperands e enc 0x95 rest =
    (do let (s, bs) ← Op.rdU e 1 rest; pure (.deref 0 s true, bs)) := rfl
theorem po_99 : Op.parseOperands e enc 0x99 rest =
    (do let (v, bs) ← Op.rdU e 4 rest; pure (.call (.unitRef v), bs)) := rfl
theorem po_9a : Op.parseOperands e enc 0x9a rest =
    (do let (v, bs) ← Op.rdOffset e enc.format rest; pure (.call (.debugInfoRef v), bs)) := rfl
theorem po_fd : Op.parseOperands e enc 0xfd rest =
    (do let (v, bs) ← Op.rdOffset e enc.format rest; pure (.variableValue v, bs)) := rfl
theorem po_9d : Op.parseOperands e enc 0x9d rest = (do
    let (size, bs) ← Leb.unsigned rest
    let (off, bs) ← Leb.unsigned bs
    pure (.piece size (some off), bs)) := rfl
theorem po_9e : Op.parseOperands e enc 0x9e rest = (do
    let (len, bs) ← Leb.unsigned rest
    let (data, bs) ← Op.split len bs
    pure (.implicitValue data, bs)) := rfl

def poImplicitPointer : Out (Op.Operation × Bytes) := do
  let (value, bs) ←
    if enc.version = 2 then Ints.readAddress e enc.addressSize rest else Op.rdOffset e enc.format rest
  let (off, bs) ← Leb.signed bs
  pure (.implicitPointer value off, bs)
theorem po_a0 : Op.parseOperands e enc 0xa0 rest = poImplicitPointer e enc rest := rfl
theorem po_f2 : Op.parseOperands e enc 0xf2 rest = poImplicitPointer e enc rest := rfl

def poEntryValue : Out (Op.Operation × Bytes) := do
  let (len, bs) ← Leb.unsigned rest
  let (expr, bs) ← Op.split len bs
  pure (.entryValue expr, bs)
theorem po_a3 : Op.parseOperands e enc 0xa3 rest = poEntryValue rest := rfl
theorem po_f3 : Op.parseOperands e enc 0xf3 rest = poEntryValue rest := rfl

def poTypedLiteral : Out (Op.Operation × Bytes) := do
  let (bt, bs) ← Leb.unsigned rest
  let (len, bs) ← Op.rdU e 1 bs
  let (value, bs) ← Op.split len bs
  pure (.typedLiteral bt value, bs)
theorem po_a4 : Op.parseOperands e enc 0xa4 rest = poTypedLiteral e rest := rfl
theorem po_f4 : Op.parseOperands e enc 0xf4 rest = poTypedLiteral e rest := rfl

def poRegvalType : Out (Op.Operation × Bytes) := do
  let (r, bs) ← Op.rdRegister rest
  let (bt, bs) ← Leb.unsigned bs
  pure (.registerOffset r 0 bt, bs)
theorem po_a5 : Op.parseOperands e enc 0xa5 rest = poRegvalType rest := rfl
theorem po_f5 : Op.parseOperands e enc 0xf5 rest = poRegvalType rest := rfl

def poDerefType (space : Bool) : Out (Op.Operation × Bytes) := do
  let (s, bs) ← Op.rdU e 1 rest
  let (bt, bs) ← Leb.unsigned bs
  pure (.deref bt s space, bs)
theorem po_a6 : Op.parseOperands e enc 0xa6 rest = poDerefType e rest false := rfl
theorem po_f6 : Op.parseOperands e enc 0xf6 rest = poDerefType e rest false := rfl
theorem po_a7 : Op.parseOperands e enc 0xa7 rest = poDerefType e rest true := rfl

def poConvert : Out (Op.Operation × Bytes) := do
  let (bt, bs) ← Leb.unsigned rest; pure (.convert bt, bs)
theorem po_a8 : Op.parseOperands e enc 0xa8 rest = poConvert rest := rfl
theorem po_f7 : Op.parseOperands e enc 0xf7 rest = poConvert rest := rfl
def poReinterpret : Out (Op.Operation × Bytes) := do
  let (bt, bs) ← Leb.unsigned rest; pure (.reinterpret bt, bs)
theorem po_a9 : Op.parseOperands e enc 0xa9 rest = poReinterpret rest := rfl
theorem po_f9 : Op.parseOperands e enc 0xf9 rest = poReinterpret rest := rfl

theorem po_fa : Op.parseOperands e enc 0xfa rest =
    (do let (v, bs) ← Op.rdU e 4 rest; pure (.parameterRef v, bs)) := rfl

theorem po_ed : Op.parseOperands e enc 0xed rest = (do
    let (k, bs) ← Op.rdU e 1 rest
    match k with
    | 0 => do let (i, bs) ← Ints.readUlebU32 bs; pure (.wasmLocal i, bs)
    | 1 => do let (i, bs) ← Ints.readUlebU32 bs; pure (.wasmGlobal i, bs)
    | 2 => do let (i, bs) ← Ints.readUlebU32 bs; pure (.wasmStack i, bs)
    | 3 => do let (i, bs) ← Op.rdU e 4 bs; pure (.wasmGlobal i, bs)
    | _ => .err .rInvalidExpression) := rfl

/-- the operand-free opcodes: one closed evaluation per opcode -/
theorem po_simple (opc : Nat) (img : Op.Operation) (h : simpleImage opc = some img) :
    Op.parseOperands e enc opc rest = .ok (img, rest) := by
  unfold simpleImage at h
  split at h <;> first | (simp only [Option.some.injEq] at h; subst h; rfl) | (simp at h)

/-! ## operand round trips -/

theorem b8_toNat (n : Nat) (h : n < 256) : (b8 n).toNat = n := by
  simp [b8]; omega

theorem rdU1_b8 (e : Endian) (n : Nat) (h : n < 256) (rest : Bytes) :
    Op.rdU e 1 (b8 n :: rest) = .ok (n, rest) := by
  have := Ints.readFixed_toBytes e 1 n rest (by simpa using h)
  have h2 : Ints.toBytes e 1 n = [b8 n] := by
    cases e <;> simp [Ints.toBytes, Ints.leBytes, b8, Nat.mod_eq_of_lt h]
  rw [h2] at this
  exact this

theorem rdU_writeUdata (e : Endian) (v size : Nat) (bs rest : Bytes)
    (h : Ints.writeUdata e v size = .ok bs) (hv : v < 2 ^ 64) :
    Op.rdU e size (bs ++ rest) = .ok (v, rest) :=
  (Ints.writeUdata_roundtrip e v size bs rest h hv).2

theorem writeUdata_size (e : Endian) (v size : Nat) (bs : Bytes) (h : Ints.writeUdata e v size = .ok bs) :
    size = 1 ∨ size = 2 ∨ size = 4 ∨ size = 8 := by
  unfold Ints.writeUdata at h
  split at h
  · rename_i hs; omega
  · split at h
    · rename_i h8; omega
    · simp at h

theorem writeUdata_fits1 (e : Endian) (v : Nat) (bs : Bytes) (h : Ints.writeUdata e v 1 = .ok bs) :
    v < 256 := by
  unfold Ints.writeUdata at h
  simp only [true_or, if_true] at h
  split at h
  · simp at h
  · rename_i hh
    have : v % 2 ^ (8 * 1) = v := by simpa using hh
    have h2 : v % 256 < 256 := Nat.mod_lt _ (by decide)
    simp at this
    omega

theorem writeUdata_fits4 (e : Endian) (v : Nat) (bs : Bytes) (h : Ints.writeUdata e v 4 = .ok bs) :
    v < 2 ^ 64 := by
  unfold Ints.writeUdata at h
  simp only [Nat.reduceEqDiff, or_true, if_true] at h
  split at h
  · simp at h
  · rename_i hh
    have : v % 2 ^ (8 * 4) = v := by simpa using hh
    have h2 : v % 2 ^ (8 * 4) < 2 ^ (8 * 4) := Nat.mod_lt _ (by decide)
    rw [this] at h2
    have : (2:Nat) ^ (8*4) < 2 ^ 64 := by decide
    omega

theorem rdRegister_rt (r : Nat) (h : r < 2 ^ 16) (rest : Bytes) :
    Op.rdRegister (Leb.encodeU r ++ rest) = .ok (r, rest) := by
  have h64 : r < 2 ^ 64 := by
    have : (2:Nat) ^ 16 < 2 ^ 64 := by decide
    omega
  simp [Op.rdRegister, Leb.unsigned_roundtrip r h64, h]

theorem readAddress_writeUdata (e : Endian) (v size : Nat) (bs rest : Bytes)
    (h : Ints.writeUdata e v size = .ok bs) (hv : v < 2 ^ 64) :
    Ints.readAddress e size (bs ++ rest) = .ok (v, rest) := by
  have hs := writeUdata_size e v size bs h
  simp only [Ints.readAddress, hs, if_true]
  exact (Ints.writeUdata_roundtrip e v size bs rest h hv).2

theorem rdOffset_zero (e : Endian) (f : Format) (bs rest : Bytes)
    (h : Ints.writeUdata e 0 f.wordSize = .ok bs) :
    Op.rdOffset e f (bs ++ rest) = .ok (0, rest) := by
  have rt := (Ints.writeUdata_roundtrip e 0 _ bs rest h (by decide)).2
  cases f with
  | dwarf32 => simpa [Op.rdOffset, Ints.readWord, Format.wordSize] using rt
  | dwarf64 =>
    simp only [Format.wordSize] at rt
    simp [Op.rdOffset, Ints.readWord, rt, Ints.offsetFromU64]

theorem split_append (data rest : Bytes) : Op.split data.length (data ++ rest) = .ok (data, rest) := by
  simp [Op.split, Ints.take]

theorem readUlebU32_rt (i : Nat) (h : i < 2 ^ 32) (rest : Bytes) :
    Ints.readUlebU32 (Leb.encodeU i ++ rest) = .ok (i, rest) := by
  have h64 : i < 2 ^ 64 := by
    have : (2:Nat) ^ 32 < 2 ^ 64 := by decide
    omega
  simp [Ints.readUlebU32, Leb.unsigned_roundtrip i h64, h]

/-- `write_sdata(v, 2)` then `read_i16` -/
theorem rdI2_writeSdata (e : Endian) (v : Int) (bs rest : Bytes) (h : Ints.writeSdata e v 2 = .ok bs) :
    Op.rdI e 2 (bs ++ rest) = .ok (v, rest) ∧ -(2:Int)^15 ≤ v ∧ v < 2^15 := by
  unfold Ints.writeSdata at h
  simp only [Nat.reduceEqDiff, true_or, or_true, if_true] at h
  split at h
  · simp at h
  · rename_i hh
    have hh : Ints.toSigned 2 (v % 2 ^ (8 * 2)).toNat = v := by simpa using hh
    simp only [Out.ok.injEq] at h
    subst h
    have hlt : (v % 2 ^ (8 * 2)).toNat < 256 ^ 2 := by
      have : (0:Int) ≤ v % 2 ^ (8*2) := Int.emod_nonneg _ (by decide)
      have : v % 2 ^ (8*2) < 2 ^ (8*2) := Int.emod_lt_of_pos _ (by decide)
      omega
    refine ⟨?_, ?_⟩
    · simp only [Op.rdI, Ints.readFixed_toBytes e 2 _ rest hlt, Out.bind_ok, Out.pure_eq, hh]
    · unfold Ints.toSigned at hh
      split at hh <;> omega

/-! ## one operation: decode what was emitted -/

theorem entryOffset_some (uo : UnitOffs) (en o : Nat) (h : entryOffset uo en = .ok o) :
    ∃ offs, uo = some offs ∧ offs en = some o := by
  unfold entryOffset at h
  cases uo with
  | none => simp at h
  | some f =>
    refine ⟨f, rfl, ?_⟩
    simp only at h
    cases hf : f en with
    | none => simp [hf] at h
    | some x => simp only [hf, Out.ok.injEq] at h; rw [h]

theorem vOp_cases (enc : Encoding) (std gnu : Nat) :
    (enc.version ≥ 5 ∧ vOp enc std gnu = b8 std) ∨ (¬ enc.version ≥ 5 ∧ vOp enc std gnu = b8 gnu) := by
  unfold vOp
  by_cases h : enc.version ≥ 5 <;> simp [h]

theorem pow16_lt : (2:Nat) ^ 16 < 2 ^ 64 := by decide
theorem pow32_lt : (2:Nat) ^ 32 < 2 ^ 64 := by decide

theorem writeDRef_entry (e : Endian) (hasRefs : Bool) (r : DRef) (size at_ : Nat) (bs : Bytes) (fx : List Fixup)
    (h : writeDRef e hasRefs r size at_ = .ok (bs, fx)) :
    Ints.writeUdata e 0 size = .ok bs ∧ ∃ u en, r = .entry u en ∧ fx = [⟨at_, size, u, en⟩] := by
  cases r with
  | symbol s => simp [writeDRef] at h
  | entry u en =>
    simp only [writeDRef] at h
    split at h
    · rw [bind_eq_ok] at h
      obtain ⟨b, hb, h2⟩ := h
      simp only [Out.pure_eq, Out.ok.injEq, Prod.mk.injEq] at h2
      exact ⟨by rw [← h2.1]; exact hb, u, en, rfl, h2.2.symm⟩
    · simp at h

/-- **decoding what one operation emitted** (no hypothesis on what follows) -/
theorem opWrite_decode (e : Endian) (enc : Encoding) (uo : UnitOffs) (hasRefs : Bool)
    (op : Operation) (offsets : List Nat) (pos : Nat) (bs : Bytes) (fx : List Fixup) (rest : Bytes)
    (hoffs : ∀ offs, uo = some offs → ∀ en o, offs en = some o → o < 2 ^ 64)
    (hlen : bs.length < 2 ^ 64)
    (hw : opWrite e enc uo hasRefs offsets pos op = .ok (bs, fx)) (hwf : OpWf op) :
    ∃ img, opImage e enc uo hasRefs offsets pos op = some img ∧
      Op.parse e enc (bs ++ rest) = .ok (img, rest) := by
  cases op with
  | raw b => simp [OpWf] at hwf
  | simple opc =>
    simp only [OpWf, Option.isSome_iff_exists] at hwf
    obtain ⟨img, himg⟩ := hwf
    simp only [opWrite, Out.ok.injEq, Prod.mk.injEq] at hw
    refine ⟨img, by simp [opImage, image, himg], ?_⟩
    have hlt : opc < 256 := by
      unfold simpleImage at himg
      split at himg <;> first | omega | simp at himg
    rw [← hw.1]
    simp only [List.cons_append, List.nil_append, parse_cons, b8_toNat _ hlt]
    exact po_simple e enc rest opc img himg
  | address a =>
    cases a with
    | symbol s ad => simp [opWrite, writeAddress] at hw
    | constant v =>
      simp only [opWrite, bind_eq_ok, Out.pure_eq, Out.ok.injEq, Prod.mk.injEq, writeAddress] at hw
      obtain ⟨b, hb, h2, _⟩ := hw
      refine ⟨.address v, by simp [opImage, image], ?_⟩
      rw [← h2]
      simp only [List.cons_append, parse_cons]
      show Op.parseOperands e enc 0x03 _ = _
      simp [po_03, readAddress_writeUdata e v _ b rest hb hwf]
  | unsignedConstant v =>
    refine ⟨.unsignedConstant v, by simp [opImage, image], ?_⟩
    simp only [opWrite] at hw
    split at hw <;> simp only [Out.ok.injEq, Prod.mk.injEq] at hw <;> rw [← hw.1]
    · rename_i h32
      simp only [List.cons_append, List.nil_append, parse_cons]
      rw [b8_toNat _ (by omega), po_lit _ _ _ _ h32]
    · simp only [List.cons_append, parse_cons]
      show Op.parseOperands e enc 0x10 _ = _
      simp [po_10, Leb.unsigned_roundtrip v hwf]
  | signedConstant v =>
    refine ⟨.signedConstant v, by simp [opImage, image], ?_⟩
    simp only [opWrite, Out.ok.injEq, Prod.mk.injEq] at hw
    rw [← hw.1]
    simp only [List.cons_append, parse_cons]
    show Op.parseOperands e enc 0x11 _ = _
    simp [po_11, Leb.signed_roundtrip v hwf.1 hwf.2]
  | constantType base value =>
    simp only [opWrite, bind_eq_ok, Out.pure_eq, Out.ok.injEq, Prod.mk.injEq] at hw
    obtain ⟨o, ho, l, hl, h2, _⟩ := hw
    obtain ⟨offs, huo, hoe⟩ := entryOffset_some _ _ _ ho
    have ho64 := hoffs offs huo _ _ hoe
    refine ⟨.typedLiteral o value, by simp [opImage, image, huo, hoe], ?_⟩
    have hl8 := writeUdata_fits1 _ _ _ hl
    rw [← h2]
    simp only [List.cons_append, List.append_assoc, parse_cons]
    rcases vOp_cases enc 0xa4 0xf4 with ⟨_, hv⟩ | ⟨_, hv⟩ <;> rw [hv]
    · show Op.parseOperands e enc 0xa4 _ = _
      rw [po_a4]
      simp [poTypedLiteral, Leb.unsigned_roundtrip o ho64, rdU_writeUdata e _ 1 l _ hl (by omega), split_append]
    · show Op.parseOperands e enc 0xf4 _ = _
      rw [po_f4]
      simp [poTypedLiteral, Leb.unsigned_roundtrip o ho64, rdU_writeUdata e _ 1 l _ hl (by omega), split_append]
  | frameOffset o =>
    refine ⟨.frameOffset o, by simp [opImage, image], ?_⟩
    simp only [opWrite, Out.ok.injEq, Prod.mk.injEq] at hw
    rw [← hw.1]
    simp only [List.cons_append, parse_cons]
    show Op.parseOperands e enc 0x91 _ = _
    simp [po_91, Leb.signed_roundtrip o hwf.1 hwf.2]
  | registerOffset r o =>
    refine ⟨.registerOffset r o 0, by simp [opImage, image], ?_⟩
    obtain ⟨hr, ho1, ho2⟩ := hwf
    simp only [opWrite] at hw
    split at hw <;> simp only [Out.ok.injEq, Prod.mk.injEq] at hw <;> rw [← hw.1]
    · rename_i h32
      simp only [List.cons_append, parse_cons]
      rw [b8_toNat _ (by omega), po_breg _ _ _ _ h32]
      simp [Leb.signed_roundtrip o ho1 ho2]
    · simp only [List.cons_append, List.append_assoc, parse_cons]
      show Op.parseOperands e enc 0x92 _ = _
      simp [po_92, rdRegister_rt r hr, Leb.signed_roundtrip o ho1 ho2]
  | registerType r base =>
    simp only [opWrite, bind_eq_ok, Out.pure_eq, Out.ok.injEq, Prod.mk.injEq] at hw
    obtain ⟨o, ho, h2, _⟩ := hw
    obtain ⟨offs, huo, hoe⟩ := entryOffset_some _ _ _ ho
    have ho64 := hoffs offs huo _ _ hoe
    refine ⟨.registerOffset r 0 o, by simp [opImage, image, huo, hoe], ?_⟩
    rw [← h2]
    simp only [List.cons_append, List.append_assoc, parse_cons]
    rcases vOp_cases enc 0xa5 0xf5 with ⟨_, hv⟩ | ⟨_, hv⟩ <;> rw [hv]
    · show Op.parseOperands e enc 0xa5 _ = _
      simp [po_a5, poRegvalType, rdRegister_rt r hwf, Leb.unsigned_roundtrip o ho64]
    · show Op.parseOperands e enc 0xf5 _ = _
      simp [po_f5, poRegvalType, rdRegister_rt r hwf, Leb.unsigned_roundtrip o ho64]
  | pick i =>
    refine ⟨.pick i, by simp [opImage, image], ?_⟩
    simp only [opWrite] at hw
    split at hw <;> simp only [Out.ok.injEq, Prod.mk.injEq] at hw <;> rw [← hw.1]
    · rfl
    · rfl
    · simp only [List.cons_append, List.nil_append, parse_cons]
      show Op.parseOperands e enc 0x15 _ = _
      simp [po_15, rdU1_b8 e i hwf]
  | deref sp =>
    refine ⟨.deref 0 enc.addressSize sp, by simp [opImage, image], ?_⟩
    simp only [opWrite, Out.ok.injEq, Prod.mk.injEq] at hw
    rw [← hw.1]
    cases sp <;> rfl
  | derefSize sp sz =>
    refine ⟨.deref 0 sz sp, by simp [opImage, image], ?_⟩
    simp only [opWrite, Out.ok.injEq, Prod.mk.injEq] at hw
    rw [← hw.1]
    cases sp
    · simp only [List.cons_append, List.nil_append, parse_cons]
      show Op.parseOperands e enc 0x94 _ = _
      simp [po_94, rdU1_b8 e sz hwf]
    · simp only [List.cons_append, List.nil_append, parse_cons]
      show Op.parseOperands e enc 0x95 _ = _
      simp [po_95, rdU1_b8 e sz hwf]
  | derefType sp sz base =>
    simp only [opWrite, bind_eq_ok, Out.pure_eq, Out.ok.injEq, Prod.mk.injEq] at hw
    obtain ⟨o, ho, h2, _⟩ := hw
    obtain ⟨offs, huo, hoe⟩ := entryOffset_some _ _ _ ho
    have ho64 := hoffs offs huo _ _ hoe
    refine ⟨.deref o sz sp, by simp [opImage, image, huo, hoe], ?_⟩
    rw [← h2]
    simp only [List.cons_append, parse_cons]
    cases sp
    · simp only [Bool.false_eq_true, if_false]
      rcases vOp_cases enc 0xa6 0xf6 with ⟨_, hv⟩ | ⟨_, hv⟩ <;> rw [hv]
      · show Op.parseOperands e enc 0xa6 _ = _
        simp [po_a6, poDerefType, rdU1_b8 e sz hwf, Leb.unsigned_roundtrip o ho64]
      · show Op.parseOperands e enc 0xf6 _ = _
        simp [po_f6, poDerefType, rdU1_b8 e sz hwf, Leb.unsigned_roundtrip o ho64]
    · simp only [if_true]
      show Op.parseOperands e enc 0xa7 _ = _
      simp [po_a7, poDerefType, rdU1_b8 e sz hwf, Leb.unsigned_roundtrip o ho64]
  | plusConstant v =>
    refine ⟨.plusConstant v, by simp [opImage, image], ?_⟩
    simp only [opWrite, Out.ok.injEq, Prod.mk.injEq] at hw
    rw [← hw.1]
    simp only [List.cons_append, parse_cons]
    show Op.parseOperands e enc 0x23 _ = _
    simp [po_23, Leb.unsigned_roundtrip v hwf]
  | skip t =>
    simp only [opWrite, bind_eq_ok, Out.pure_eq, Out.ok.injEq, Prod.mk.injEq] at hw
    obtain ⟨d, hd, h2, _⟩ := hw
    unfold writeBranch at hd
    cases hg : offsets[t]? with
    | none => simp [hg] at hd
    | some tt =>
      simp only [hg] at hd
      have := (rdI2_writeSdata e _ d rest hd).1
      refine ⟨.skip (((tt : Nat) : Int) - ((pos : Int) + 3)), ?_, ?_⟩
      · simp [opImage, image, dispOf, List.getD, hg]
      · rw [← h2]
        simp only [List.cons_append, parse_cons]
        show Op.parseOperands e enc 0x2f _ = _
        have e3 : ((tt : Nat) : Int) - ((pos : Int) + 3) = (tt : Int) - (((pos + 1 : Nat) : Int) + 2) := by omega
        simp [po_2f, e3, this]
  | branch t =>
    simp only [opWrite, bind_eq_ok, Out.pure_eq, Out.ok.injEq, Prod.mk.injEq] at hw
    obtain ⟨d, hd, h2, _⟩ := hw
    unfold writeBranch at hd
    cases hg : offsets[t]? with
    | none => simp [hg] at hd
    | some tt =>
      simp only [hg] at hd
      have := (rdI2_writeSdata e _ d rest hd).1
      refine ⟨.bra (((tt : Nat) : Int) - ((pos : Int) + 3)), ?_, ?_⟩
      · simp [opImage, image, dispOf, List.getD, hg]
      · rw [← h2]
        simp only [List.cons_append, parse_cons]
        show Op.parseOperands e enc 0x28 _ = _
        have e3 : ((tt : Nat) : Int) - ((pos : Int) + 3) = (tt : Int) - (((pos + 1 : Nat) : Int) + 2) := by omega
        simp [po_28, e3, this]
  | call en =>
    simp only [opWrite, bind_eq_ok, Out.pure_eq, Out.ok.injEq, Prod.mk.injEq] at hw
    obtain ⟨o, ho, b, hb, h2, _⟩ := hw
    obtain ⟨offs, huo, hoe⟩ := entryOffset_some _ _ _ ho
    refine ⟨.call (.unitRef o), by simp [opImage, image, huo, hoe], ?_⟩
    rw [← h2]
    simp only [List.cons_append, parse_cons]
    show Op.parseOperands e enc 0x99 _ = _
    simp [po_99, rdU_writeUdata e o 4 b rest hb (writeUdata_fits4 e o b hb)]
  | callRef r =>
    simp only [opWrite, bind_eq_ok, Out.pure_eq, Out.ok.injEq, Prod.mk.injEq] at hw
    obtain ⟨⟨b, f⟩, hb, h2, _⟩ := hw
    obtain ⟨hb0, _⟩ := writeDRef_entry _ _ _ _ _ _ _ hb
    refine ⟨.call (.debugInfoRef 0), by simp [opImage, image], ?_⟩
    rw [← h2]
    simp only [List.cons_append, parse_cons]
    show Op.parseOperands e enc 0x9a _ = _
    simp [po_9a, rdOffset_zero e enc.format b rest hb0]
  | variableValue r =>
    simp only [opWrite, bind_eq_ok, Out.pure_eq, Out.ok.injEq, Prod.mk.injEq] at hw
    obtain ⟨⟨b, f⟩, hb, h2, _⟩ := hw
    obtain ⟨hb0, _⟩ := writeDRef_entry _ _ _ _ _ _ _ hb
    refine ⟨.variableValue 0, by simp [opImage, image], ?_⟩
    rw [← h2]
    simp only [List.cons_append, parse_cons]
    show Op.parseOperands e enc 0xfd _ = _
    simp [po_fd, rdOffset_zero e enc.format b rest hb0]
  | convert base =>
    cases base with
    | none =>
      refine ⟨.convert 0, by simp [opImage, image], ?_⟩
      simp only [opWrite, Out.ok.injEq, Prod.mk.injEq] at hw
      rw [← hw.1]
      rcases vOp_cases enc 0xa8 0xf7 with ⟨_, hv⟩ | ⟨_, hv⟩ <;> rw [hv] <;> rfl
    | some bb =>
      simp only [opWrite, bind_eq_ok, Out.pure_eq, Out.ok.injEq, Prod.mk.injEq] at hw
      obtain ⟨o, ho, h2, _⟩ := hw
      obtain ⟨offs, huo, hoe⟩ := entryOffset_some _ _ _ ho
      have ho64 := hoffs offs huo _ _ hoe
      refine ⟨.convert o, by simp [opImage, image, huo, hoe], ?_⟩
      rw [← h2]
      simp only [List.cons_append, parse_cons]
      rcases vOp_cases enc 0xa8 0xf7 with ⟨_, hv⟩ | ⟨_, hv⟩ <;> rw [hv]
      · show Op.parseOperands e enc 0xa8 _ = _
        simp [po_a8, poConvert, Leb.unsigned_roundtrip o ho64]
      · show Op.parseOperands e enc 0xf7 _ = _
        simp [po_f7, poConvert, Leb.unsigned_roundtrip o ho64]
  | reinterpret base =>
    cases base with
    | none =>
      refine ⟨.reinterpret 0, by simp [opImage, image], ?_⟩
      simp only [opWrite, Out.ok.injEq, Prod.mk.injEq] at hw
      rw [← hw.1]
      rcases vOp_cases enc 0xa9 0xf9 with ⟨_, hv⟩ | ⟨_, hv⟩ <;> rw [hv] <;> rfl
    | some bb =>
      simp only [opWrite, bind_eq_ok, Out.pure_eq, Out.ok.injEq, Prod.mk.injEq] at hw
      obtain ⟨o, ho, h2, _⟩ := hw
      obtain ⟨offs, huo, hoe⟩ := entryOffset_some _ _ _ ho
      have ho64 := hoffs offs huo _ _ hoe
      refine ⟨.reinterpret o, by simp [opImage, image, huo, hoe], ?_⟩
      rw [← h2]
      simp only [List.cons_append, parse_cons]
      rcases vOp_cases enc 0xa9 0xf9 with ⟨_, hv⟩ | ⟨_, hv⟩ <;> rw [hv]
      · show Op.parseOperands e enc 0xa9 _ = _
        simp [po_a9, poReinterpret, Leb.unsigned_roundtrip o ho64]
      · show Op.parseOperands e enc 0xf9 _ = _
        simp [po_f9, poReinterpret, Leb.unsigned_roundtrip o ho64]
  | entryValue body =>
    simp only [opWrite, bind_eq_ok, Out.pure_eq, Out.ok.injEq, Prod.mk.injEq] at hw
    obtain ⟨len, hlen', offs, hoffs', ⟨b, f⟩, hwr, h2, _⟩ := hw
    have hsz := exprWriteOps_length e enc uo hasRefs body _ _ _ _ hwr
    rw [hlen'] at hsz
    simp only [Out.ok.injEq] at hsz
    have hb64 : b.length < 2 ^ 64 := by
      rw [← h2] at hlen
      simp at hlen
      omega
    have hew : exprWrite e enc uo hasRefs (pos + (1 + (Leb.encodeU len).length)) body = .ok (b, f) := by
      simp only [exprWrite, bind_eq_ok]
      refine ⟨offs, ?_, ?_⟩
      · simpa [Nat.add_comm] using hoffs'
      · simpa [Nat.add_comm] using hwr
    refine ⟨.entryValue b, by simp [opImage, image, bodyOf, hlen', hew], ?_⟩
    rw [← h2]
    simp only [List.cons_append, List.append_assoc, parse_cons]
    rcases vOp_cases enc 0xa3 0xf3 with ⟨_, hv⟩ | ⟨_, hv⟩ <;> rw [hv]
    · show Op.parseOperands e enc 0xa3 _ = _
      simp [po_a3, poEntryValue, hsz, Leb.unsigned_roundtrip b.length hb64, split_append]
    · show Op.parseOperands e enc 0xf3 _ = _
      simp [po_f3, poEntryValue, hsz, Leb.unsigned_roundtrip b.length hb64, split_append]
  | register r =>
    refine ⟨.register r, by simp [opImage, image], ?_⟩
    simp only [opWrite] at hw
    split at hw <;> simp only [Out.ok.injEq, Prod.mk.injEq] at hw <;> rw [← hw.1]
    · rename_i h32
      simp only [List.cons_append, List.nil_append, parse_cons]
      rw [b8_toNat _ (by omega), po_reg _ _ _ _ h32]
    · simp only [List.cons_append, parse_cons]
      show Op.parseOperands e enc 0x90 _ = _
      simp [po_90, rdRegister_rt r hwf]
  | implicitValue d =>
    refine ⟨.implicitValue d, by simp [opImage, image], ?_⟩
    simp only [opWrite, Out.ok.injEq, Prod.mk.injEq] at hw
    rw [← hw.1]
    simp only [List.cons_append, List.append_assoc, parse_cons]
    show Op.parseOperands e enc 0x9e _ = _
    simp [po_9e, Leb.unsigned_roundtrip d.length hwf, split_append]
  | implicitPointer r o =>
    simp only [opWrite, bind_eq_ok, Out.pure_eq, Out.ok.injEq, Prod.mk.injEq] at hw
    obtain ⟨⟨b, f⟩, hb, h2, _⟩ := hw
    obtain ⟨hb0, _⟩ := writeDRef_entry _ _ _ _ _ _ _ hb
    refine ⟨.implicitPointer 0 o, by simp [opImage, image], ?_⟩
    rw [← h2]
    simp only [List.cons_append, List.append_assoc, parse_cons]
    have key : poImplicitPointer e enc (b ++ (Leb.encodeS o ++ rest)) = .ok (.implicitPointer 0 o, rest) := by
      unfold poImplicitPointer
      unfold implicitPointerRefSize at hb0
      by_cases h2v : enc.version = 2
      · simp only [h2v, if_true] at hb0 ⊢
        simp [readAddress_writeUdata e 0 _ b _ hb0 (by decide), Leb.signed_roundtrip o hwf.1 hwf.2]
      · simp only [h2v, if_false] at hb0 ⊢
        simp [rdOffset_zero e enc.format b _ hb0, Leb.signed_roundtrip o hwf.1 hwf.2]
    rcases vOp_cases enc 0xa0 0xf2 with ⟨_, hv⟩ | ⟨_, hv⟩ <;> rw [hv]
    · show Op.parseOperands e enc 0xa0 _ = _
      rw [po_a0]; exact key
    · show Op.parseOperands e enc 0xf2 _ = _
      rw [po_f2]; exact key
  | piece n =>
    refine ⟨.piece (n * 8) none, by simp [opImage, image], ?_⟩
    simp only [opWrite] at hw
    split at hw
    · cases hw
    · rename_i hfit
      simp only [Out.ok.injEq, Prod.mk.injEq] at hw
      rw [← hw.1]
      simp only [List.cons_append, parse_cons]
      show Op.parseOperands e enc 0x93 _ = _
      have hq : ((2:Nat) ^ 64 - 1) / 8 = 2 ^ 61 - 1 := by decide
      have h61 : (2:Nat) ^ 61 * 8 = 2 ^ 64 := by decide
      have h64 : n < 2 ^ 64 := hwf
      have h8 : n * 8 < 2 ^ 64 := by rw [hq] at hfit; omega
      simp [po_93, Leb.unsigned_roundtrip n h64, h8]
  | bitPiece s o =>
    refine ⟨.piece s (some o), by simp [opImage, image], ?_⟩
    simp only [opWrite, Out.ok.injEq, Prod.mk.injEq] at hw
    rw [← hw.1]
    simp only [List.cons_append, List.append_assoc, parse_cons]
    show Op.parseOperands e enc 0x9d _ = _
    simp [po_9d, Leb.unsigned_roundtrip s hwf.1, Leb.unsigned_roundtrip o hwf.2]
  | parameterRef en =>
    simp only [opWrite, bind_eq_ok, Out.pure_eq, Out.ok.injEq, Prod.mk.injEq] at hw
    obtain ⟨o, ho, b, hb, h2, _⟩ := hw
    obtain ⟨offs, huo, hoe⟩ := entryOffset_some _ _ _ ho
    refine ⟨.parameterRef o, by simp [opImage, image, huo, hoe], ?_⟩
    rw [← h2]
    simp only [List.cons_append, parse_cons]
    show Op.parseOperands e enc 0xfa _ = _
    simp [po_fa, rdU_writeUdata e o 4 b rest hb (writeUdata_fits4 e o b hb)]
  | wasmLocal i =>
    refine ⟨.wasmLocal i, by simp [opImage, image], ?_⟩
    simp only [opWrite, Out.ok.injEq, Prod.mk.injEq] at hw
    rw [← hw.1]
    simp only [List.cons_append, parse_cons]
    show Op.parseOperands e enc 0xed _ = _
    rw [po_ed, show (0 : UInt8) = b8 0 from rfl, rdU1_b8 e 0 (by decide)]
    simp [readUlebU32_rt i hwf]
  | wasmGlobal i =>
    refine ⟨.wasmGlobal i, by simp [opImage, image], ?_⟩
    simp only [opWrite, Out.ok.injEq, Prod.mk.injEq] at hw
    rw [← hw.1]
    simp only [List.cons_append, parse_cons]
    show Op.parseOperands e enc 0xed _ = _
    rw [po_ed, show (1 : UInt8) = b8 1 from rfl, rdU1_b8 e 1 (by decide)]
    simp [readUlebU32_rt i hwf]
  | wasmStack i =>
    refine ⟨.wasmStack i, by simp [opImage, image], ?_⟩
    simp only [opWrite, Out.ok.injEq, Prod.mk.injEq] at hw
    rw [← hw.1]
    simp only [List.cons_append, parse_cons]
    show Op.parseOperands e enc 0xed _ = _
    rw [po_ed, show (2 : UInt8) = b8 2 from rfl, rdU1_b8 e 2 (by decide)]
    simp [readUlebU32_rt i hwf]

end Gimli.WOp
