import Gimli.Model.Index
import Gimli.Model.Indexed
import Gimli.Lemmas.Index
/-!
# Lemmas for C17: the unit handed out by a package equals the standalone contribution;
indexed string-offset / address tables
-/
namespace Gimli.Index
open Gimli

theorem dwpRange_slice (pre c post : Bytes) :
    dwpRange (pre ++ c ++ post) pre.length c.length = .ok c := by
  unfold dwpRange
  rw [if_neg (by simp)]
  simp only [List.append_assoc, List.drop_left]
  rw [if_neg (by simp)]
  simp

theorem dwpRange_zero (data : Bytes) : dwpRange data 0 0 = .ok [] := by
  simp [dwpRange]

theorem foldl_no_match (cols : List (SecKind × Nat × Nat)) (k : SecKind) (acc : Nat × Nat)
    (h : ∀ c, c ∈ cols → c.1 ≠ k) :
    List.foldl (fun acc c => if c.1 = k then c.2 else acc) acc cols = acc := by
  induction cols generalizing acc with
  | nil => rfl
  | cons c cols ih =>
    rw [List.foldl_cons, if_neg (h c (by simp))]
    exact ih acc (fun c' hc' => h c' (by simp [hc']))

theorem contribution_absent (cols : List (SecKind × Nat × Nat)) (k : SecKind)
    (h : ∀ c, c ∈ cols → c.1 ≠ k) : contribution cols k = (0, 0) :=
  foldl_no_match cols k (0, 0) h

theorem contribution_unique (cols : List (SecKind × Nat × Nat)) (k : SecKind) (o s : Nat)
    (hmem : (k, o, s) ∈ cols) (huniq : (cols.map (·.1)).Nodup) : contribution cols k = (o, s) := by
  unfold contribution
  generalize (0, 0) = acc
  induction cols generalizing acc with
  | nil => simp at hmem
  | cons c cols ih =>
    rw [List.map_cons, List.nodup_cons] at huniq
    rw [List.foldl_cons]
    rcases List.mem_cons.mp hmem with he | hm
    · subst he
      simp only [if_true]
      apply foldl_no_match
      intro c' hc' hk
      apply huniq.1
      rw [← hk]
      exact List.mem_map_of_mem (f := fun x => x.1) hc'
    · have hne : c.1 ≠ k := by
        intro hk
        apply huniq.1
        rw [hk]
        exact List.mem_map_of_mem (f := fun (x : SecKind × Nat × Nat) => x.1) hm
      rw [if_neg hne]
      exact ih hm huniq.2 acc

/-- what a unit contributes to the package: for every section kind either nothing (no column of
that kind; the standalone section is empty) or the bytes `c` found at `pre.length` in the
package section -/
def Contributes (pkg : SecKind → Bytes) (cols : List (SecKind × Nat × Nat)) (standalone : SecKind → Bytes)
    (k : SecKind) : Prop :=
  ((∀ c, c ∈ cols → c.1 ≠ k) ∧ standalone k = []) ∨
  (∃ pre post, pkg k = pre ++ standalone k ++ post ∧ (k, pre.length, (standalone k).length) ∈ cols)

theorem packageSlices_standalone (pkg : SecKind → Bytes) (cols : List (SecKind × Nat × Nat))
    (standalone : SecKind → Bytes) (huniq : (cols.map (·.1)).Nodup) (ks : List SecKind)
    (h : ∀ k, k ∈ ks → Contributes pkg cols standalone k) :
    packageSlices pkg cols ks = .ok (ks.map fun k => (k, standalone k)) := by
  induction ks with
  | nil => rfl
  | cons k ks ih =>
    rw [packageSlices]
    have hk : dwpRange (pkg k) (contribution cols k).1 (contribution cols k).2 = .ok (standalone k) := by
      rcases h k (by simp) with ⟨habs, hemp⟩ | ⟨pre, post, hp, hm⟩
      · rw [contribution_absent cols k habs, hemp]; exact dwpRange_zero _
      · rw [contribution_unique cols k _ _ hm huniq, hp]; exact dwpRange_slice _ _ _
    simp only [hk, Out.bind_ok, ih (fun k' hk' => h k' (by simp [hk'])), Out.pure_eq, List.map_cons]
open Gimli.Ints Gimli.Spec.Index in
/-- **`find_cu` end to end**: on a package whose index holds the table built from `kvs`, whose
`offsets`/`sizes` matrices are `offs`/`szs`, and in which row `row` of the matrices points, per
column kind, at the standalone sections of the unit — the unit with id `id` listed at `row` is
handed out with exactly its standalone sections, and an id that is not listed gives `None` -/
theorem findUnit_exact (e : Endian) (kvs : List (Nat × Nat)) (ix : UnitIndex)
    (hfind : ∀ id, find e ix id = scan kvs id)
    (offs szs : List (List Nat))
    (hk : ix.sections.length = ix.sectionCount) (hnodup : ix.sections.Nodup)
    (hro : offs.length = ix.unitCount) (hrs : szs.length = ix.unitCount)
    (hco : ∀ r, r ∈ offs → r.length = ix.sectionCount ∧ ∀ v, v ∈ r → v < 2 ^ 32)
    (hcs : ∀ r, r ∈ szs → r.length = ix.sectionCount ∧ ∀ v, v ∈ r → v < 2 ^ 32)
    (hoff : ix.offsets = encMatrix e offs) (hsz : ix.sizes = encMatrix e szs)
    (pkg standalone : SecKind → Bytes) (id : Nat) :
    (scan kvs id = none → findUnit e ix pkg id = .ok none) ∧
    (∀ row, scan kvs id = some row → 1 ≤ row → row ≤ ix.unitCount →
      (∀ kd, kd ∈ sliceOrder → Contributes pkg
        (ix.sections.zip ((offs.getD (row - 1) []).zip (szs.getD (row - 1) []))) standalone kd) →
      findUnit e ix pkg id = .ok (some (row, sliceOrder.map fun kd => (kd, standalone kd)))) := by
  constructor
  · intro h
    unfold findUnit
    rw [hfind id, h]
  · intro row h h1 h2 hc
    unfold findUnit
    rw [hfind id, h]
    simp only
    rw [sections_matrix e ix offs szs row hk hro hrs hco hcs hoff hsz h1 h2]
    simp only [Out.bind_ok]
    have hu : ((ix.sections.zip ((offs.getD (row - 1) []).zip (szs.getD (row - 1) []))).map (·.1)).Nodup := by
      have hpo : row - 1 < offs.length := by omega
      have hps : row - 1 < szs.length := by omega
      have ho := (hco _ (List.getElem_mem hpo)).1
      have hs := (hcs _ (List.getElem_mem hps)).1
      have hl : ix.sections.length ≤ ((offs.getD (row - 1) []).zip (szs.getD (row - 1) [])).length := by
        simp [List.getD_eq_getElem?_getD, hpo, hps, ho, hs, hk]
      have : (ix.sections.zip ((offs.getD (row - 1) []).zip (szs.getD (row - 1) []))).map (·.1) = ix.sections := by
        rw [List.map_fst_zip]; exact hl
      rw [this]; exact hnodup
    rw [packageSlices_standalone pkg _ standalone hu sliceOrder hc]
    rfl
end Gimli.Index

namespace Gimli.Indexed
open Gimli Gimli.Ints Gimli.Index
open Gimli.Names (skipTo)

theorem skipTo_append (pre rest : Bytes) : skipTo (pre ++ rest) pre.length = .ok rest := by
  simp [skipTo]

theorem readWord_enc (e : Endian) (f : Format) (v : Nat) (rest : Bytes) (hv : v < 256 ^ f.wordSize) :
    readWord e 64 f (toBytes e f.wordSize v ++ rest) = .ok (v, rest) := by
  cases f with
  | dwarf32 => exact readFixed_toBytes e 4 v rest hv
  | dwarf64 =>
    simp only [readWord, Format.wordSize]
    rw [readFixed_toBytes e 8 v rest hv]
    have : v < 18446744073709551616 := by simpa [Format.wordSize] using hv
    simp [offsetFromU64, this]

/-- **indexed string offsets**: entry `i` of a table of offsets that starts at `base` -/
theorem getStrOffset_table (e : Endian) (f : Format) (pre post : Bytes) (vals : List Nat) (i : Nat)
    (hi : i < vals.length) (hb : ∀ v, v ∈ vals → v < 256 ^ f.wordSize) (hsz : i * f.wordSize < 2 ^ 64) :
    getStrOffset e f (pre ++ vals.flatMap (fun v => toBytes e f.wordSize v) ++ post) pre.length i =
      .ok vals[i] := by
  unfold getStrOffset
  rw [List.append_assoc, skipTo_append]
  simp only [Out.bind_ok]
  rw [if_neg (by omega)]
  have hf : ∀ a : Nat, (toBytes e f.wordSize a).length = f.wordSize := fun a => toBytes_length e f.wordSize a
  have hlen := flatMap_length_const (fun v => toBytes e f.wordSize v) f.wordSize hf vals
  have hsmall : i * f.wordSize ≤ (vals.flatMap fun v => toBytes e f.wordSize v).length := by
    rw [hlen, Nat.mul_comm]; exact Nat.mul_le_mul_left _ (by omega)
  unfold skipTo
  rw [if_pos (by rw [List.length_append]; omega)]
  simp only [Out.bind_ok]
  rw [List.drop_append_of_le_length hsmall, drop_flatMap_const _ _ hf, List.drop_eq_getElem_cons hi,
    List.flatMap_cons, List.append_assoc, readWord_enc e f _ _ (hb _ (List.getElem_mem hi))]
  rfl

theorem readAddress_enc' (e : Endian) (sz v : Nat) (rest : Bytes)
    (hs : sz = 1 ∨ sz = 2 ∨ sz = 4 ∨ sz = 8) (hv : v < 256 ^ sz) :
    readAddress e sz (toBytes e sz v ++ rest) = .ok (v, rest) := by
  unfold readAddress
  rw [if_pos hs]
  exact readFixed_toBytes e sz v rest hv

/-- **indexed addresses** -/
theorem getAddress_table (e : Endian) (sz : Nat) (hs : sz = 1 ∨ sz = 2 ∨ sz = 4 ∨ sz = 8)
    (pre post : Bytes) (vals : List Nat) (i : Nat)
    (hi : i < vals.length) (hb : ∀ v, v ∈ vals → v < 256 ^ sz) (hsz : i * sz < 2 ^ 64) :
    getAddress e sz (pre ++ vals.flatMap (fun v => toBytes e sz v) ++ post) pre.length i =
      .ok vals[i] := by
  unfold getAddress
  rw [List.append_assoc, skipTo_append]
  simp only [Out.bind_ok]
  rw [if_neg (by omega)]
  have hf : ∀ a : Nat, (toBytes e sz a).length = sz := fun a => toBytes_length e sz a
  have hlen := flatMap_length_const (fun v => toBytes e sz v) sz hf vals
  have hsmall : i * sz ≤ (vals.flatMap fun v => toBytes e sz v).length := by
    rw [hlen, Nat.mul_comm]; exact Nat.mul_le_mul_left _ (by omega)
  unfold skipTo
  rw [if_pos (by rw [List.length_append]; omega)]
  simp only [Out.bind_ok]
  rw [List.drop_append_of_le_length hsmall, drop_flatMap_const _ _ hf, List.drop_eq_getElem_cons hi,
    List.flatMap_cons, List.append_assoc, readAddress_enc' e sz _ _ hs (hb _ (List.getElem_mem hi))]
  rfl
end Gimli.Indexed
