import Gimli.Lemmas.Value
import Gimli.Lemmas.Eval
/-! # C07: results of `Value` operations on well-formed integer values are well-formed integer values -/
open Gimli Gimli.Value Gimli.Spec.Expr

namespace Gimli.Value

/-- an integer value whose stored pattern fits its Rust type -/
def VOk (v : Value) : Prop := WF v ∧ IsInt v

theorem vok_mk (t : ValueType) (b : Nat) (ht : t.kind ≠ .float) (hb : b < 2 ^ t.width) : VOk ⟨t, b⟩ := ⟨hb, ht⟩

theorem width_le (t : ValueType) : t.width ≤ 64 := by cases t <;> simp [ValueType.width]
theorem width_pos (t : ValueType) : 0 < t.width := by cases t <;> simp [ValueType.width]

theorem mod_width_lt (t : ValueType) (n : Nat) : n % 2 ^ t.width < 2 ^ t.width := Nat.mod_lt _ (Nat.two_pow_pos _)

theorem lt64_of_lt_width (t : ValueType) (n : Nat) (h : n < 2 ^ t.width) : n < 2 ^ 64 :=
  Nat.lt_of_lt_of_le h (Nat.pow_le_pow_right (by omega) (width_le t))

theorem toU64_lt (v : Value) (mask : Nat) (hv : WF v) (u : Nat) (h : v.toU64 mask = .ok u) : u < 2 ^ 64 := by
  unfold toU64 at h
  split at h
  · cases h; exact Nat.lt_of_le_of_lt Nat.and_le_left (wf_lt64 v hv)
  · cases h; exact pat_lt 64 _
  · cases h; exact wf_lt64 v hv
  · cases h

theorem fromU64_vok (t : ValueType) (ht : t.kind ≠ .float) (n : Nat) (hn : n < 2 ^ 64) (r : Value)
    (h : fromU64 t n = .ok r) : VOk r ∧ r.ty = t := by
  cases t <;> simp [ValueType.kind] at ht <;> simp only [fromU64] at h <;> cases h
  all_goals refine ⟨⟨?_, by simp [IsInt, ValueType.kind]⟩, rfl⟩
  all_goals first
    | exact hn
    | exact Nat.mod_lt _ (Nat.two_pow_pos _)


theorem and_lt64 (n mask : Nat) (h : n < 2 ^ 64) : n &&& mask < 2 ^ 64 := Nat.lt_of_le_of_lt Nat.and_le_left h

theorem arith_vok (g f32 f64) (x y r : Value) (mask : Nat) (hx : VOk x)
    (h : arith g f32 f64 x y mask = .ok r) : VOk r := by
  obtain ⟨tx, bx⟩ := x
  obtain ⟨hwx, hix⟩ := hx
  unfold arith at h
  split at h
  · cases h
  · cases tx <;> simp [IsInt, ValueType.kind] at hix <;> simp only [] at h <;> cases h
    all_goals refine ⟨?_, by simp [IsInt, ValueType.kind]⟩
    all_goals first
      | exact and_lt64 _ _ (Nat.mod_lt _ (Nat.two_pow_pos _))
      | exact Nat.mod_lt _ (Nat.two_pow_pos _)

theorem div_vok (x y r : Value) (mask : Nat) (hx : VOk x) (h : x.div y mask = .ok r) : VOk r := by
  obtain ⟨tx, bx⟩ := x
  obtain ⟨hwx, hix⟩ := hx
  have hb : bx < 2 ^ tx.width := hwx
  unfold Value.div at h
  split at h; · cases h
  split at h; · cases h
  split at h; · cases h
  cases tx <;> simp [IsInt, ValueType.kind] at hix <;> simp only [ValueType.kind] at h <;> cases h
  all_goals refine ⟨?_, by simp [IsInt, ValueType.kind]⟩
  all_goals first
    | exact pat_lt _ _
    | exact Nat.lt_of_le_of_lt (Nat.div_le_self _ _) hb

theorem rem_vok (x y r : Value) (mask : Nat) (hx : VOk x) (h : x.rem y mask = .ok r) : VOk r := by
  obtain ⟨tx, bx⟩ := x
  obtain ⟨hwx, hix⟩ := hx
  have hb : bx < 2 ^ tx.width := hwx
  unfold Value.rem at h
  split at h; · cases h
  split at h; · cases h
  split at h; · cases h
  cases tx <;> simp [IsInt, ValueType.kind] at hix <;> simp only [ValueType.kind] at h <;> cases h
  all_goals refine ⟨?_, by simp [IsInt, ValueType.kind]⟩
  all_goals first
    | exact pat_lt _ _
    | exact Nat.lt_of_le_of_lt (Nat.mod_le _ _) hb
    | exact Nat.lt_of_le_of_lt (Nat.mod_le _ _) (and_lt64 _ _ hb)

theorem bitwise_vok (f : Nat → Nat → Nat) (hf : ∀ p q, p < 2 ^ 64 → q < 2 ^ 64 → f p q < 2 ^ 64)
    (x y r : Value) (mask : Nat) (hx : VOk x) (hy : VOk y) (h : bitwise f x y mask = .ok r) : VOk r := by
  unfold bitwise at h
  split at h; · cases h
  obtain ⟨u1, h1, h⟩ := _root_.bind_eq_ok h
  obtain ⟨u2, h2, h⟩ := _root_.bind_eq_ok h
  exact (fromU64_vok _ hx.2 _ (hf _ _ (toU64_lt _ _ hx.1 _ h1) (toU64_lt _ _ hy.1 _ h2)) _ h).1

theorem compare_vok (ri rf32 rf64) (x y r : Value) (mask : Nat) (h : compare ri rf32 rf64 x y mask = .ok r) :
    VOk r := by
  unfold compare at h
  split at h; · cases h
  cases h
  refine ⟨?_, by simp [IsInt, ValueType.kind]⟩
  show Bool.toNat _ < 2 ^ 64
  exact Nat.lt_of_le_of_lt (Bool.toNat_le _) (by omega)


theorem unaryOf_vok (op : UnOp) (x r : Value) (mask : Nat) (hx : VOk x) (h : unaryOf op x mask = .ok r) : VOk r := by
  cases op
  case not =>
    simp only [unaryOf, Value.not] at h
    obtain ⟨u, h1, h⟩ := _root_.bind_eq_ok h
    exact (fromU64_vok _ hx.2 _ (by have := toU64_lt _ _ hx.1 _ h1; omega) _ h).1
  all_goals
    obtain ⟨tx, bx⟩ := x
    obtain ⟨hwx, hix⟩ := hx
    have hb : bx < 2 ^ tx.width := hwx
    cases tx <;> simp [IsInt, ValueType.kind] at hix <;>
      simp only [unaryOf, Value.abs, Value.neg, ValueType.kind] at h <;> cases h
    all_goals refine ⟨?_, by simp [IsInt, ValueType.kind]⟩
    all_goals (show _ < _)
    all_goals simp only [ValueType.width]
    all_goals first
      | exact pat_lt _ _
      | exact hb

theorem shr_le (n c : Nat) : n >>> c ≤ n := by
  rw [Nat.shiftRight_eq_div_pow]; exact Nat.div_le_self _ _

theorem ite_lt {c : Prop} [Decidable c] (x y n : Nat) (hx : x < n) (hy : y < n) : (if c then x else y) < n := by
  split <;> assumption

theorem shl_vok (x y r : Value) (mask : Nat) (hx : VOk x) (h : x.shl y mask = .ok r) : VOk r := by
  obtain ⟨tx, bx⟩ := x
  obtain ⟨hwx, hix⟩ := hx
  simp only [Value.shl] at h
  obtain ⟨c, _, h⟩ := _root_.bind_eq_ok h
  cases tx <;> simp [IsInt, ValueType.kind] at hix <;> simp only [ValueType.kind] at h <;> cases h
  all_goals refine ⟨?_, by simp [IsInt, ValueType.kind]⟩
  all_goals (show _ < _)
  all_goals simp only [ValueType.width]
  all_goals exact ite_lt _ _ _ (by omega) (Nat.mod_lt _ (Nat.two_pow_pos _))

theorem shr_vok (x y r : Value) (mask : Nat) (hx : VOk x) (h : x.shr y mask = .ok r) : VOk r := by
  obtain ⟨tx, bx⟩ := x
  obtain ⟨hwx, hix⟩ := hx
  have hb : bx < 2 ^ tx.width := hwx
  simp only [Value.shr] at h
  obtain ⟨c, _, h⟩ := _root_.bind_eq_ok h
  cases tx <;> simp [IsInt, ValueType.kind] at hix <;> simp only [ValueType.kind] at h <;> cases h
  all_goals refine ⟨?_, by simp [IsInt, ValueType.kind]⟩
  all_goals (show _ < _)
  all_goals simp only [ValueType.width] at hb ⊢
  all_goals first
    | exact ite_lt _ _ _ (by omega) (Nat.lt_of_le_of_lt (shr_le _ _) (and_lt64 _ _ hb))
    | exact ite_lt _ _ _ (by omega) (Nat.lt_of_le_of_lt (shr_le _ _) hb)

theorem shra_vok (x y r : Value) (mask : Nat) (hx : VOk x) (h : x.shra y mask = .ok r) : VOk r := by
  obtain ⟨tx, bx⟩ := x
  obtain ⟨hwx, hix⟩ := hx
  simp only [Value.shra] at h
  obtain ⟨c, _, h⟩ := _root_.bind_eq_ok h
  cases tx <;> simp [IsInt, ValueType.kind] at hix <;> simp only [ValueType.kind] at h <;> cases h
  all_goals refine ⟨?_, by simp [IsInt, ValueType.kind]⟩
  all_goals (show _ < _)
  all_goals simp only [ValueType.width]
  all_goals exact ite_lt _ _ _ (ite_lt _ _ _ (by omega) (by omega)) (pat_lt _ _)

theorem shift_vok (op : BinOp) (hop : IsShift op) (x y r : Value) (mask : Nat) (hx : VOk x)
    (h : binaryOf op x y mask = .ok r) : VOk r := by
  cases op <;> simp [IsShift] at hop
  · exact shl_vok x y r mask hx h
  · exact shr_vok x y r mask hx h
  · exact shra_vok x y r mask hx h

theorem binaryOf_vok (op : BinOp) (x y r : Value) (mask : Nat) (hx : VOk x) (hy : VOk y)
    (h : binaryOf op x y mask = .ok r) : VOk r := by
  by_cases hop : IsShift op
  · exact shift_vok op hop x y r mask hx h
  cases op <;> simp only [binaryOf] at h
  case add => exact arith_vok _ _ _ _ _ _ _ hx h
  case sub => exact arith_vok _ _ _ _ _ _ _ hx h
  case mul => exact arith_vok _ _ _ _ _ _ _ hx h
  case div => exact div_vok _ _ _ _ hx h
  case rem => exact rem_vok _ _ _ _ hx h
  case and => exact bitwise_vok _ (fun p q hp _ => and_lt64 p q hp) _ _ _ _ hx hy h
  case or => exact bitwise_vok _ (fun p q hp hq => Nat.or_lt_two_pow hp hq) _ _ _ _ hx hy h
  case xor => exact bitwise_vok _ (fun p q hp hq => Nat.xor_lt_two_pow hp hq) _ _ _ _ hx hy h
  case shl => exact absurd trivial hop
  case shr => exact absurd trivial hop
  case shra => exact absurd trivial hop
  all_goals exact compare_vok _ _ _ _ _ _ _ h

end Gimli.Value
