import Gimli.Spec.OpTable
/-!
# C07 `decode_matches_table`: `Operation::parse` (Model) = table-driven Spec decode

For each operand signature shape a normal form of the Spec decode (`spec_*`), then one line per
opcode byte: rewrite the Spec side into its normal form and peel the primitive reads off both
sides (`peel`); what remains is closed evaluation (`rfl`).
-/
open Gimli Gimli.Op Gimli.Spec.OpTable
set_option linter.unusedSimpArgs false

theorem Out.bind_assoc' {α β γ} (x : Out α) (f : α → Out β) (g : β → Out γ) :
    (x >>= f) >>= g = x >>= fun a => f a >>= g := by cases x <;> rfl

theorem bind_congr' {α β} (x : Out α) (f g : α → Out β) (h : ∀ a, f a = g a) : (x >>= f) = (x >>= g) := by
  cases x <;> simp [h]

/-- Spec decode of the operands of opcode `n` -/
def specOperands (e : Endian) (enc : Encoding) (n : Nat) (rest : Bytes) : Out (Operation × Bytes) :=
  match signature n with
  | none => .err .rInvalidExpression
  | some sig => do
    let (args, r) ← readOperands e enc sig rest
    let op ← meaning enc n args
    pure (op, r)

/-- `meaning` then pair with the rest -/
def fin (enc : Encoding) (n : Nat) (args : List Arg) (r : Bytes) : Out (Operation × Bytes) :=
  meaning enc n args >>= fun op => pure (op, r)

section
variable (e : Endian) (enc : Encoding) (n : Nat) (rest : Bytes)

theorem spec_u (k : Nat) (hs : signature n = some [.u k]) :
    specOperands e enc n rest = (rdU e k rest >>= fun (v, r) => fin enc n [.nat v] r) := by
  simp [specOperands, hs, readOperands, readOperand, rdU, fin, Out.bind_assoc']

theorem spec_s (k : Nat) (hs : signature n = some [.s k]) :
    specOperands e enc n rest = (rdI e k rest >>= fun (v, r) => fin enc n [.int v] r) := by
  simp [specOperands, hs, readOperands, readOperand, rdI, fin, Out.bind_assoc']

theorem spec_uleb (hs : signature n = some [.uleb]) :
    specOperands e enc n rest = (Leb.unsigned rest >>= fun (v, r) => fin enc n [.nat v] r) := by
  simp [specOperands, hs, readOperands, readOperand, fin, Out.bind_assoc']

theorem spec_sleb (hs : signature n = some [.sleb]) :
    specOperands e enc n rest = (Leb.signed rest >>= fun (v, r) => fin enc n [.int v] r) := by
  simp [specOperands, hs, readOperands, readOperand, fin, Out.bind_assoc']

theorem spec_addr (hs : signature n = some [.addr]) :
    specOperands e enc n rest = (Ints.readAddress e enc.addressSize rest >>= fun (v, r) => fin enc n [.nat v] r) := by
  simp [specOperands, hs, readOperands, readOperand, fin, Out.bind_assoc']

theorem spec_off (hs : signature n = some [.off]) :
    specOperands e enc n rest = (rdOffset e enc.format rest >>= fun (v, r) => fin enc n [.nat v] r) := by
  simp [specOperands, hs, readOperands, readOperand, rdOffset, fin, Out.bind_assoc']

theorem spec_reg (hs : signature n = some [.reg]) :
    specOperands e enc n rest = (rdRegister rest >>= fun (v, r) => fin enc n [.nat v] r) := by
  simp only [specOperands, hs, readOperands, readOperand, rdRegister, fin, Out.bind_assoc', Out.bind_ok, Out.pure_eq]
  refine bind_congr' _ _ _ (fun ⟨v, r⟩ => ?_)
  by_cases h : v < 2 ^ 16 <;> simp [h]

theorem spec_reg_sleb (hs : signature n = some [.reg, .sleb]) :
    specOperands e enc n rest =
      (rdRegister rest >>= fun (v, r) => Leb.signed r >>= fun (o, r2) => fin enc n [.nat v, .int o] r2) := by
  simp only [specOperands, hs, readOperands, readOperand, rdRegister, fin, Out.bind_assoc', Out.bind_ok, Out.pure_eq]
  refine bind_congr' _ _ _ (fun ⟨v, r⟩ => ?_)
  by_cases h : v < 2 ^ 16 <;> simp [h, Out.bind_assoc']

theorem spec_reg_uleb (hs : signature n = some [.reg, .uleb]) :
    specOperands e enc n rest =
      (rdRegister rest >>= fun (v, r) => Leb.unsigned r >>= fun (o, r2) => fin enc n [.nat v, .nat o] r2) := by
  simp only [specOperands, hs, readOperands, readOperand, rdRegister, fin, Out.bind_assoc', Out.bind_ok, Out.pure_eq]
  refine bind_congr' _ _ _ (fun ⟨v, r⟩ => ?_)
  by_cases h : v < 2 ^ 16 <;> simp [h, Out.bind_assoc']

theorem spec_uleb_uleb (hs : signature n = some [.uleb, .uleb]) :
    specOperands e enc n rest =
      (Leb.unsigned rest >>= fun (v, r) => Leb.unsigned r >>= fun (o, r2) => fin enc n [.nat v, .nat o] r2) := by
  simp [specOperands, hs, readOperands, readOperand, fin, Out.bind_assoc']

theorem spec_u_uleb (k : Nat) (hs : signature n = some [.u k, .uleb]) :
    specOperands e enc n rest =
      (rdU e k rest >>= fun (v, r) => Leb.unsigned r >>= fun (o, r2) => fin enc n [.nat v, .nat o] r2) := by
  simp [specOperands, hs, readOperands, readOperand, rdU, fin, Out.bind_assoc']

theorem spec_block (hs : signature n = some [.blockUleb]) :
    specOperands e enc n rest =
      (Leb.unsigned rest >>= fun (len, r) => split len r >>= fun (d, r2) => fin enc n [.bytes d] r2) := by
  simp [specOperands, hs, readOperands, readOperand, split, fin, Out.bind_assoc']

theorem spec_uleb_block1 (hs : signature n = some [.uleb, .block1]) :
    specOperands e enc n rest =
      (Leb.unsigned rest >>= fun (t, r) => rdU e 1 r >>= fun (len, r2) => split len r2 >>= fun (d, r3) =>
        fin enc n [.nat t, .bytes d] r3) := by
  simp [specOperands, hs, readOperands, readOperand, split, rdU, fin, Out.bind_assoc']

theorem spec_ref_sleb (hs : signature n = some [.refAddr, .sleb]) :
    specOperands e enc n rest =
      if enc.version = 2 then
        Ints.readAddress e enc.addressSize rest >>= fun (v, r) =>
          Leb.signed r >>= fun (o, r2) => fin enc n [.nat v, .int o] r2
      else
        rdOffset e enc.format rest >>= fun (v, r) =>
          Leb.signed r >>= fun (o, r2) => fin enc n [.nat v, .int o] r2 := by
  by_cases hv : enc.version = 2 <;>
    simp [specOperands, hs, readOperands, readOperand, rdOffset, fin, Out.bind_assoc', hv]

theorem ite_congr'' {α} (c : Prop) [Decidable c] (a a' b b' : α) (h1 : a = a') (h2 : b = b') :
    (if c then a else b) = (if c then a' else b') := by rw [h1, h2]

theorem spec_wasm (hs : signature n = some [.wasm]) :
    specOperands e enc n rest =
      (rdU e 1 rest >>= fun (k, r) =>
        if k = 0 ∨ k = 1 ∨ k = 2 then Ints.readUlebU32 r >>= fun (i, r2) => fin enc n [.nat k, .nat i] r2
        else if k = 3 then rdU e 4 r >>= fun (i, r2) => fin enc n [.nat k, .nat i] r2
        else .err .rInvalidExpression) := by
  simp only [specOperands, hs, readOperands, readOperand, rdU, fin, Out.bind_assoc', Out.bind_ok, Out.pure_eq]
  refine bind_congr' _ _ _ (fun ⟨k, r⟩ => ?_)
  by_cases h1 : k = 0 ∨ k = 1 ∨ k = 2
  · simp [h1, Out.bind_assoc']
  · by_cases h2 : k = 3 <;> simp [h1, h2, Out.bind_assoc']

end

/-- per opcode: peel the primitive reads off both sides, then evaluate -/
macro "peel" : tactic => `(tactic|
  repeat (first | rfl | (refine bind_congr' _ _ _ (fun ⟨_, _⟩ => ?_)) | (refine ite_congr'' _ _ _ _ _ ?_ ?_)))

theorem fin_piece (enc : Encoding) (size : Nat) (r : Bytes) :
    fin enc 0x93 [.nat size] r =
      if size * 8 < 2 ^ 64 then pure (Operation.piece (size * 8) none, r) else .err .rInvalidPiece := by
  show ((if size * 8 < 2 ^ 64 then Out.ok (Operation.piece (size * 8) none) else Out.err Err.rInvalidPiece) >>=
    fun op => pure (op, r)) = _
  split <;> rfl


theorem dec_wasm (e : Endian) (enc : Encoding) (rest : Bytes) :
    parseOperands e enc 0xed rest = specOperands e enc 0xed rest := by
  rw [spec_wasm _ _ _ _ rfl]
  refine bind_congr' _ _ _ (fun ⟨k, r⟩ => ?_)
  match k with
  | 0 => peel
  | 1 => peel
  | 2 => peel
  | 3 => peel
  | k + 4 => rfl

theorem dec_chunk0 (e : Endian) (enc : Encoding) (rest : Bytes) (n : Nat) (h1 : 0 ≤ n) (h2 : n < 32) :
    parseOperands e enc n rest = specOperands e enc n rest :=
  match n, h1, h2 with
  | 0, _, _ => rfl
  | 1, _, _ => rfl
  | 2, _, _ => rfl
  | 3, _, _ => by rw [spec_addr _ _ _ _ rfl]; peel
  | 4, _, _ => rfl
  | 5, _, _ => rfl
  | 6, _, _ => rfl
  | 7, _, _ => rfl
  | 8, _, _ => by rw [spec_u _ _ _ _ 1 rfl]; peel
  | 9, _, _ => by rw [spec_s _ _ _ _ 1 rfl]; peel
  | 10, _, _ => by rw [spec_u _ _ _ _ 2 rfl]; peel
  | 11, _, _ => by rw [spec_s _ _ _ _ 2 rfl]; peel
  | 12, _, _ => by rw [spec_u _ _ _ _ 4 rfl]; peel
  | 13, _, _ => by rw [spec_s _ _ _ _ 4 rfl]; peel
  | 14, _, _ => by rw [spec_u _ _ _ _ 8 rfl]; peel
  | 15, _, _ => by rw [spec_s _ _ _ _ 8 rfl]; peel
  | 16, _, _ => by rw [spec_uleb _ _ _ _ rfl]; peel
  | 17, _, _ => by rw [spec_sleb _ _ _ _ rfl]; peel
  | 18, _, _ => rfl
  | 19, _, _ => rfl
  | 20, _, _ => rfl
  | 21, _, _ => by rw [spec_u _ _ _ _ 1 rfl]; peel
  | 22, _, _ => rfl
  | 23, _, _ => rfl
  | 24, _, _ => rfl
  | 25, _, _ => rfl
  | 26, _, _ => rfl
  | 27, _, _ => rfl
  | 28, _, _ => rfl
  | 29, _, _ => rfl
  | 30, _, _ => rfl
  | 31, _, _ => rfl
  | n + 32, _, h => absurd h (by omega)

theorem dec_chunk1 (e : Endian) (enc : Encoding) (rest : Bytes) (n : Nat) (h1 : 32 ≤ n) (h2 : n < 64) :
    parseOperands e enc n rest = specOperands e enc n rest :=
  match n, h1, h2 with
  | 32, _, _ => rfl
  | 33, _, _ => rfl
  | 34, _, _ => rfl
  | 35, _, _ => by rw [spec_uleb _ _ _ _ rfl]; peel
  | 36, _, _ => rfl
  | 37, _, _ => rfl
  | 38, _, _ => rfl
  | 39, _, _ => rfl
  | 40, _, _ => by rw [spec_s _ _ _ _ 2 rfl]; peel
  | 41, _, _ => rfl
  | 42, _, _ => rfl
  | 43, _, _ => rfl
  | 44, _, _ => rfl
  | 45, _, _ => rfl
  | 46, _, _ => rfl
  | 47, _, _ => by rw [spec_s _ _ _ _ 2 rfl]; peel
  | 48, _, _ => rfl
  | 49, _, _ => rfl
  | 50, _, _ => rfl
  | 51, _, _ => rfl
  | 52, _, _ => rfl
  | 53, _, _ => rfl
  | 54, _, _ => rfl
  | 55, _, _ => rfl
  | 56, _, _ => rfl
  | 57, _, _ => rfl
  | 58, _, _ => rfl
  | 59, _, _ => rfl
  | 60, _, _ => rfl
  | 61, _, _ => rfl
  | 62, _, _ => rfl
  | 63, _, _ => rfl
  | 0, h, _ => absurd h (by omega)
  | n + 64, _, h => absurd h (by omega)

theorem dec_chunk2 (e : Endian) (enc : Encoding) (rest : Bytes) (n : Nat) (h1 : 64 ≤ n) (h2 : n < 96) :
    parseOperands e enc n rest = specOperands e enc n rest :=
  match n, h1, h2 with
  | 64, _, _ => rfl
  | 65, _, _ => rfl
  | 66, _, _ => rfl
  | 67, _, _ => rfl
  | 68, _, _ => rfl
  | 69, _, _ => rfl
  | 70, _, _ => rfl
  | 71, _, _ => rfl
  | 72, _, _ => rfl
  | 73, _, _ => rfl
  | 74, _, _ => rfl
  | 75, _, _ => rfl
  | 76, _, _ => rfl
  | 77, _, _ => rfl
  | 78, _, _ => rfl
  | 79, _, _ => rfl
  | 80, _, _ => rfl
  | 81, _, _ => rfl
  | 82, _, _ => rfl
  | 83, _, _ => rfl
  | 84, _, _ => rfl
  | 85, _, _ => rfl
  | 86, _, _ => rfl
  | 87, _, _ => rfl
  | 88, _, _ => rfl
  | 89, _, _ => rfl
  | 90, _, _ => rfl
  | 91, _, _ => rfl
  | 92, _, _ => rfl
  | 93, _, _ => rfl
  | 94, _, _ => rfl
  | 95, _, _ => rfl
  | 0, h, _ => absurd h (by omega)
  | n + 96, _, h => absurd h (by omega)

theorem dec_chunk3 (e : Endian) (enc : Encoding) (rest : Bytes) (n : Nat) (h1 : 96 ≤ n) (h2 : n < 128) :
    parseOperands e enc n rest = specOperands e enc n rest :=
  match n, h1, h2 with
  | 96, _, _ => rfl
  | 97, _, _ => rfl
  | 98, _, _ => rfl
  | 99, _, _ => rfl
  | 100, _, _ => rfl
  | 101, _, _ => rfl
  | 102, _, _ => rfl
  | 103, _, _ => rfl
  | 104, _, _ => rfl
  | 105, _, _ => rfl
  | 106, _, _ => rfl
  | 107, _, _ => rfl
  | 108, _, _ => rfl
  | 109, _, _ => rfl
  | 110, _, _ => rfl
  | 111, _, _ => rfl
  | 112, _, _ => by rw [spec_sleb _ _ _ _ rfl]; peel
  | 113, _, _ => by rw [spec_sleb _ _ _ _ rfl]; peel
  | 114, _, _ => by rw [spec_sleb _ _ _ _ rfl]; peel
  | 115, _, _ => by rw [spec_sleb _ _ _ _ rfl]; peel
  | 116, _, _ => by rw [spec_sleb _ _ _ _ rfl]; peel
  | 117, _, _ => by rw [spec_sleb _ _ _ _ rfl]; peel
  | 118, _, _ => by rw [spec_sleb _ _ _ _ rfl]; peel
  | 119, _, _ => by rw [spec_sleb _ _ _ _ rfl]; peel
  | 120, _, _ => by rw [spec_sleb _ _ _ _ rfl]; peel
  | 121, _, _ => by rw [spec_sleb _ _ _ _ rfl]; peel
  | 122, _, _ => by rw [spec_sleb _ _ _ _ rfl]; peel
  | 123, _, _ => by rw [spec_sleb _ _ _ _ rfl]; peel
  | 124, _, _ => by rw [spec_sleb _ _ _ _ rfl]; peel
  | 125, _, _ => by rw [spec_sleb _ _ _ _ rfl]; peel
  | 126, _, _ => by rw [spec_sleb _ _ _ _ rfl]; peel
  | 127, _, _ => by rw [spec_sleb _ _ _ _ rfl]; peel
  | 0, h, _ => absurd h (by omega)
  | n + 128, _, h => absurd h (by omega)

theorem dec_chunk4 (e : Endian) (enc : Encoding) (rest : Bytes) (n : Nat) (h1 : 128 ≤ n) (h2 : n < 160) :
    parseOperands e enc n rest = specOperands e enc n rest :=
  match n, h1, h2 with
  | 128, _, _ => by rw [spec_sleb _ _ _ _ rfl]; peel
  | 129, _, _ => by rw [spec_sleb _ _ _ _ rfl]; peel
  | 130, _, _ => by rw [spec_sleb _ _ _ _ rfl]; peel
  | 131, _, _ => by rw [spec_sleb _ _ _ _ rfl]; peel
  | 132, _, _ => by rw [spec_sleb _ _ _ _ rfl]; peel
  | 133, _, _ => by rw [spec_sleb _ _ _ _ rfl]; peel
  | 134, _, _ => by rw [spec_sleb _ _ _ _ rfl]; peel
  | 135, _, _ => by rw [spec_sleb _ _ _ _ rfl]; peel
  | 136, _, _ => by rw [spec_sleb _ _ _ _ rfl]; peel
  | 137, _, _ => by rw [spec_sleb _ _ _ _ rfl]; peel
  | 138, _, _ => by rw [spec_sleb _ _ _ _ rfl]; peel
  | 139, _, _ => by rw [spec_sleb _ _ _ _ rfl]; peel
  | 140, _, _ => by rw [spec_sleb _ _ _ _ rfl]; peel
  | 141, _, _ => by rw [spec_sleb _ _ _ _ rfl]; peel
  | 142, _, _ => by rw [spec_sleb _ _ _ _ rfl]; peel
  | 143, _, _ => by rw [spec_sleb _ _ _ _ rfl]; peel
  | 144, _, _ => by rw [spec_reg _ _ _ _ rfl]; peel
  | 145, _, _ => by rw [spec_sleb _ _ _ _ rfl]; peel
  | 146, _, _ => by rw [spec_reg_sleb _ _ _ _ rfl]; peel
  | 147, _, _ => by rw [spec_uleb _ _ _ _ rfl]; exact bind_congr' _ _ _ (fun ⟨size, r⟩ => (fin_piece enc size r).symm)
  | 148, _, _ => by rw [spec_u _ _ _ _ 1 rfl]; peel
  | 149, _, _ => by rw [spec_u _ _ _ _ 1 rfl]; peel
  | 150, _, _ => rfl
  | 151, _, _ => rfl
  | 152, _, _ => by rw [spec_u _ _ _ _ 2 rfl]; peel
  | 153, _, _ => by rw [spec_u _ _ _ _ 4 rfl]; peel
  | 154, _, _ => by rw [spec_off _ _ _ _ rfl]; peel
  | 155, _, _ => rfl
  | 156, _, _ => rfl
  | 157, _, _ => by rw [spec_uleb_uleb _ _ _ _ rfl]; peel
  | 158, _, _ => by rw [spec_block _ _ _ _ rfl]; peel
  | 159, _, _ => rfl
  | 0, h, _ => absurd h (by omega)
  | n + 160, _, h => absurd h (by omega)

theorem dec_chunk5 (e : Endian) (enc : Encoding) (rest : Bytes) (n : Nat) (h1 : 160 ≤ n) (h2 : n < 192) :
    parseOperands e enc n rest = specOperands e enc n rest :=
  match n, h1, h2 with
  | 160, _, _ => by rw [spec_ref_sleb _ _ _ _ rfl]; peel
  | 161, _, _ => by rw [spec_uleb _ _ _ _ rfl]; peel
  | 162, _, _ => by rw [spec_uleb _ _ _ _ rfl]; peel
  | 163, _, _ => by rw [spec_block _ _ _ _ rfl]; peel
  | 164, _, _ => by rw [spec_uleb_block1 _ _ _ _ rfl]; peel
  | 165, _, _ => by rw [spec_reg_uleb _ _ _ _ rfl]; peel
  | 166, _, _ => by rw [spec_u_uleb _ _ _ _ 1 rfl]; peel
  | 167, _, _ => by rw [spec_u_uleb _ _ _ _ 1 rfl]; peel
  | 168, _, _ => by rw [spec_uleb _ _ _ _ rfl]; peel
  | 169, _, _ => by rw [spec_uleb _ _ _ _ rfl]; peel
  | 170, _, _ => rfl
  | 171, _, _ => rfl
  | 172, _, _ => rfl
  | 173, _, _ => rfl
  | 174, _, _ => rfl
  | 175, _, _ => rfl
  | 176, _, _ => rfl
  | 177, _, _ => rfl
  | 178, _, _ => rfl
  | 179, _, _ => rfl
  | 180, _, _ => rfl
  | 181, _, _ => rfl
  | 182, _, _ => rfl
  | 183, _, _ => rfl
  | 184, _, _ => rfl
  | 185, _, _ => rfl
  | 186, _, _ => rfl
  | 187, _, _ => rfl
  | 188, _, _ => rfl
  | 189, _, _ => rfl
  | 190, _, _ => rfl
  | 191, _, _ => rfl
  | 0, h, _ => absurd h (by omega)
  | n + 192, _, h => absurd h (by omega)

theorem dec_chunk6 (e : Endian) (enc : Encoding) (rest : Bytes) (n : Nat) (h1 : 192 ≤ n) (h2 : n < 224) :
    parseOperands e enc n rest = specOperands e enc n rest :=
  match n, h1, h2 with
  | 192, _, _ => rfl
  | 193, _, _ => rfl
  | 194, _, _ => rfl
  | 195, _, _ => rfl
  | 196, _, _ => rfl
  | 197, _, _ => rfl
  | 198, _, _ => rfl
  | 199, _, _ => rfl
  | 200, _, _ => rfl
  | 201, _, _ => rfl
  | 202, _, _ => rfl
  | 203, _, _ => rfl
  | 204, _, _ => rfl
  | 205, _, _ => rfl
  | 206, _, _ => rfl
  | 207, _, _ => rfl
  | 208, _, _ => rfl
  | 209, _, _ => rfl
  | 210, _, _ => rfl
  | 211, _, _ => rfl
  | 212, _, _ => rfl
  | 213, _, _ => rfl
  | 214, _, _ => rfl
  | 215, _, _ => rfl
  | 216, _, _ => rfl
  | 217, _, _ => rfl
  | 218, _, _ => rfl
  | 219, _, _ => rfl
  | 220, _, _ => rfl
  | 221, _, _ => rfl
  | 222, _, _ => rfl
  | 223, _, _ => rfl
  | 0, h, _ => absurd h (by omega)
  | n + 224, _, h => absurd h (by omega)

theorem dec_chunk7 (e : Endian) (enc : Encoding) (rest : Bytes) (n : Nat) (h1 : 224 ≤ n) (h2 : n < 256) :
    parseOperands e enc n rest = specOperands e enc n rest :=
  match n, h1, h2 with
  | 224, _, _ => rfl
  | 225, _, _ => rfl
  | 226, _, _ => rfl
  | 227, _, _ => rfl
  | 228, _, _ => rfl
  | 229, _, _ => rfl
  | 230, _, _ => rfl
  | 231, _, _ => rfl
  | 232, _, _ => rfl
  | 233, _, _ => rfl
  | 234, _, _ => rfl
  | 235, _, _ => rfl
  | 236, _, _ => rfl
  | 237, _, _ => dec_wasm e enc rest
  | 238, _, _ => rfl
  | 239, _, _ => rfl
  | 240, _, _ => rfl
  | 241, _, _ => rfl
  | 242, _, _ => by rw [spec_ref_sleb _ _ _ _ rfl]; peel
  | 243, _, _ => by rw [spec_block _ _ _ _ rfl]; peel
  | 244, _, _ => by rw [spec_uleb_block1 _ _ _ _ rfl]; peel
  | 245, _, _ => by rw [spec_reg_uleb _ _ _ _ rfl]; peel
  | 246, _, _ => by rw [spec_u_uleb _ _ _ _ 1 rfl]; peel
  | 247, _, _ => by rw [spec_uleb _ _ _ _ rfl]; peel
  | 248, _, _ => rfl
  | 249, _, _ => by rw [spec_uleb _ _ _ _ rfl]; peel
  | 250, _, _ => by rw [spec_u _ _ _ _ 4 rfl]; peel
  | 251, _, _ => by rw [spec_uleb _ _ _ _ rfl]; peel
  | 252, _, _ => by rw [spec_uleb _ _ _ _ rfl]; peel
  | 253, _, _ => by rw [spec_off _ _ _ _ rfl]; peel
  | 254, _, _ => rfl
  | 255, _, _ => rfl
  | 0, h, _ => absurd h (by omega)
  | n + 256, _, h => absurd h (by omega)

/-- every opcode byte: the Model's operand decode is the Spec's -/
theorem parseOperands_eq_spec (e : Endian) (enc : Encoding) (rest : Bytes) (n : Nat) (hn : n < 256) :
    parseOperands e enc n rest = specOperands e enc n rest := by
  by_cases h0 : n < 32; exact dec_chunk0 e enc rest n (by omega) h0
  by_cases h1 : n < 64; exact dec_chunk1 e enc rest n (by omega) h1
  by_cases h2 : n < 96; exact dec_chunk2 e enc rest n (by omega) h2
  by_cases h3 : n < 128; exact dec_chunk3 e enc rest n (by omega) h3
  by_cases h4 : n < 160; exact dec_chunk4 e enc rest n (by omega) h4
  by_cases h5 : n < 192; exact dec_chunk5 e enc rest n (by omega) h5
  by_cases h6 : n < 224; exact dec_chunk6 e enc rest n (by omega) h6
  exact dec_chunk7 e enc rest n (by omega) hn

/-- `Operation::parse` = Spec `decode`, for every byte string and every encoding -/
theorem parse_eq_decode (e : Endian) (enc : Encoding) (bs : Bytes) : parse e enc bs = decode e enc bs := by
  cases bs with
  | nil => rfl
  | cons b rest =>
    show parseOperands e enc b.toNat rest = specOperands e enc b.toNat rest
    exact parseOperands_eq_spec e enc rest b.toNat (UInt8.toNat_lt b)

/-! ## totality of decode: never a panic, never fuel -/

theorem bind_normal {α β} (x : Out α) (f : α → Out β) (hx : x.Normal) (hf : ∀ a, (f a).Normal) :
    (x >>= f).Normal := by
  cases x with
  | ok a => exact hf a
  | err e => trivial
  | panic w => exact hx
  | diverge => exact hx

theorem args0_normal (args : List Arg) (op : Operation) : (args0 args op).Normal := by
  unfold args0; split <;> trivial
theorem argsN_normal (args : List Arg) (f : Nat → Out Operation) (hf : ∀ a, (f a).Normal) : (argsN args f).Normal := by
  unfold argsN; split <;> first | exact hf _ | trivial
theorem argsI_normal (args : List Arg) (f : Int → Operation) : (argsI args f).Normal := by
  unfold argsI; split <;> trivial
theorem argsB_normal (args : List Arg) (f : Bytes → Operation) : (argsB args f).Normal := by
  unfold argsB; split <;> trivial
theorem argsNN_normal (args : List Arg) (f : Nat → Nat → Out Operation) (hf : ∀ a b, (f a b).Normal) :
    (argsNN args f).Normal := by
  unfold argsNN; split <;> first | exact hf _ _ | trivial
theorem argsNI_normal (args : List Arg) (f : Nat → Int → Operation) : (argsNI args f).Normal := by
  unfold argsNI; split <;> trivial
theorem argsNB_normal (args : List Arg) (f : Nat → Bytes → Operation) : (argsNB args f).Normal := by
  unfold argsNB; split <;> trivial

macro "mn" : tactic => `(tactic| first
  | exact args0_normal _ _
  | exact argsN_normal _ _ (fun _ => trivial)
  | exact argsI_normal _ _
  | exact argsB_normal _ _
  | exact argsNN_normal _ _ (fun _ _ => trivial)
  | exact argsNI_normal _ _
  | exact argsNB_normal _ _
  | exact argsN_normal _ _ (fun _ => by split <;> trivial)
  | exact argsNN_normal _ _ (fun _ _ => by repeat (first | trivial | split))
  | trivial)

theorem mn_chunk0 (enc : Encoding) (args : List Arg) (n : Nat) (h1 : 0 ≤ n) (h2 : n < 32) :
    (meaning enc n args).Normal :=
  match n, h1, h2 with
  | 0, _, _ => by mn
  | 1, _, _ => by mn
  | 2, _, _ => by mn
  | 3, _, _ => by mn
  | 4, _, _ => by mn
  | 5, _, _ => by mn
  | 6, _, _ => by mn
  | 7, _, _ => by mn
  | 8, _, _ => by mn
  | 9, _, _ => by mn
  | 10, _, _ => by mn
  | 11, _, _ => by mn
  | 12, _, _ => by mn
  | 13, _, _ => by mn
  | 14, _, _ => by mn
  | 15, _, _ => by mn
  | 16, _, _ => by mn
  | 17, _, _ => by mn
  | 18, _, _ => by mn
  | 19, _, _ => by mn
  | 20, _, _ => by mn
  | 21, _, _ => by mn
  | 22, _, _ => by mn
  | 23, _, _ => by mn
  | 24, _, _ => by mn
  | 25, _, _ => by mn
  | 26, _, _ => by mn
  | 27, _, _ => by mn
  | 28, _, _ => by mn
  | 29, _, _ => by mn
  | 30, _, _ => by mn
  | 31, _, _ => by mn
  | n + 32, _, h => absurd h (by omega)

theorem mn_chunk1 (enc : Encoding) (args : List Arg) (n : Nat) (h1 : 32 ≤ n) (h2 : n < 64) :
    (meaning enc n args).Normal :=
  match n, h1, h2 with
  | 32, _, _ => by mn
  | 33, _, _ => by mn
  | 34, _, _ => by mn
  | 35, _, _ => by mn
  | 36, _, _ => by mn
  | 37, _, _ => by mn
  | 38, _, _ => by mn
  | 39, _, _ => by mn
  | 40, _, _ => by mn
  | 41, _, _ => by mn
  | 42, _, _ => by mn
  | 43, _, _ => by mn
  | 44, _, _ => by mn
  | 45, _, _ => by mn
  | 46, _, _ => by mn
  | 47, _, _ => by mn
  | 48, _, _ => by mn
  | 49, _, _ => by mn
  | 50, _, _ => by mn
  | 51, _, _ => by mn
  | 52, _, _ => by mn
  | 53, _, _ => by mn
  | 54, _, _ => by mn
  | 55, _, _ => by mn
  | 56, _, _ => by mn
  | 57, _, _ => by mn
  | 58, _, _ => by mn
  | 59, _, _ => by mn
  | 60, _, _ => by mn
  | 61, _, _ => by mn
  | 62, _, _ => by mn
  | 63, _, _ => by mn
  | 0, h, _ => absurd h (by omega)
  | n + 64, _, h => absurd h (by omega)

theorem mn_chunk2 (enc : Encoding) (args : List Arg) (n : Nat) (h1 : 64 ≤ n) (h2 : n < 96) :
    (meaning enc n args).Normal :=
  match n, h1, h2 with
  | 64, _, _ => by mn
  | 65, _, _ => by mn
  | 66, _, _ => by mn
  | 67, _, _ => by mn
  | 68, _, _ => by mn
  | 69, _, _ => by mn
  | 70, _, _ => by mn
  | 71, _, _ => by mn
  | 72, _, _ => by mn
  | 73, _, _ => by mn
  | 74, _, _ => by mn
  | 75, _, _ => by mn
  | 76, _, _ => by mn
  | 77, _, _ => by mn
  | 78, _, _ => by mn
  | 79, _, _ => by mn
  | 80, _, _ => by mn
  | 81, _, _ => by mn
  | 82, _, _ => by mn
  | 83, _, _ => by mn
  | 84, _, _ => by mn
  | 85, _, _ => by mn
  | 86, _, _ => by mn
  | 87, _, _ => by mn
  | 88, _, _ => by mn
  | 89, _, _ => by mn
  | 90, _, _ => by mn
  | 91, _, _ => by mn
  | 92, _, _ => by mn
  | 93, _, _ => by mn
  | 94, _, _ => by mn
  | 95, _, _ => by mn
  | 0, h, _ => absurd h (by omega)
  | n + 96, _, h => absurd h (by omega)

theorem mn_chunk3 (enc : Encoding) (args : List Arg) (n : Nat) (h1 : 96 ≤ n) (h2 : n < 128) :
    (meaning enc n args).Normal :=
  match n, h1, h2 with
  | 96, _, _ => by mn
  | 97, _, _ => by mn
  | 98, _, _ => by mn
  | 99, _, _ => by mn
  | 100, _, _ => by mn
  | 101, _, _ => by mn
  | 102, _, _ => by mn
  | 103, _, _ => by mn
  | 104, _, _ => by mn
  | 105, _, _ => by mn
  | 106, _, _ => by mn
  | 107, _, _ => by mn
  | 108, _, _ => by mn
  | 109, _, _ => by mn
  | 110, _, _ => by mn
  | 111, _, _ => by mn
  | 112, _, _ => by mn
  | 113, _, _ => by mn
  | 114, _, _ => by mn
  | 115, _, _ => by mn
  | 116, _, _ => by mn
  | 117, _, _ => by mn
  | 118, _, _ => by mn
  | 119, _, _ => by mn
  | 120, _, _ => by mn
  | 121, _, _ => by mn
  | 122, _, _ => by mn
  | 123, _, _ => by mn
  | 124, _, _ => by mn
  | 125, _, _ => by mn
  | 126, _, _ => by mn
  | 127, _, _ => by mn
  | 0, h, _ => absurd h (by omega)
  | n + 128, _, h => absurd h (by omega)

theorem mn_chunk4 (enc : Encoding) (args : List Arg) (n : Nat) (h1 : 128 ≤ n) (h2 : n < 160) :
    (meaning enc n args).Normal :=
  match n, h1, h2 with
  | 128, _, _ => by mn
  | 129, _, _ => by mn
  | 130, _, _ => by mn
  | 131, _, _ => by mn
  | 132, _, _ => by mn
  | 133, _, _ => by mn
  | 134, _, _ => by mn
  | 135, _, _ => by mn
  | 136, _, _ => by mn
  | 137, _, _ => by mn
  | 138, _, _ => by mn
  | 139, _, _ => by mn
  | 140, _, _ => by mn
  | 141, _, _ => by mn
  | 142, _, _ => by mn
  | 143, _, _ => by mn
  | 144, _, _ => by mn
  | 145, _, _ => by mn
  | 146, _, _ => by mn
  | 147, _, _ => by mn
  | 148, _, _ => by mn
  | 149, _, _ => by mn
  | 150, _, _ => by mn
  | 151, _, _ => by mn
  | 152, _, _ => by mn
  | 153, _, _ => by mn
  | 154, _, _ => by mn
  | 155, _, _ => by mn
  | 156, _, _ => by mn
  | 157, _, _ => by mn
  | 158, _, _ => by mn
  | 159, _, _ => by mn
  | 0, h, _ => absurd h (by omega)
  | n + 160, _, h => absurd h (by omega)

theorem mn_chunk5 (enc : Encoding) (args : List Arg) (n : Nat) (h1 : 160 ≤ n) (h2 : n < 192) :
    (meaning enc n args).Normal :=
  match n, h1, h2 with
  | 160, _, _ => by mn
  | 161, _, _ => by mn
  | 162, _, _ => by mn
  | 163, _, _ => by mn
  | 164, _, _ => by mn
  | 165, _, _ => by mn
  | 166, _, _ => by mn
  | 167, _, _ => by mn
  | 168, _, _ => by mn
  | 169, _, _ => by mn
  | 170, _, _ => by mn
  | 171, _, _ => by mn
  | 172, _, _ => by mn
  | 173, _, _ => by mn
  | 174, _, _ => by mn
  | 175, _, _ => by mn
  | 176, _, _ => by mn
  | 177, _, _ => by mn
  | 178, _, _ => by mn
  | 179, _, _ => by mn
  | 180, _, _ => by mn
  | 181, _, _ => by mn
  | 182, _, _ => by mn
  | 183, _, _ => by mn
  | 184, _, _ => by mn
  | 185, _, _ => by mn
  | 186, _, _ => by mn
  | 187, _, _ => by mn
  | 188, _, _ => by mn
  | 189, _, _ => by mn
  | 190, _, _ => by mn
  | 191, _, _ => by mn
  | 0, h, _ => absurd h (by omega)
  | n + 192, _, h => absurd h (by omega)

theorem mn_chunk6 (enc : Encoding) (args : List Arg) (n : Nat) (h1 : 192 ≤ n) (h2 : n < 224) :
    (meaning enc n args).Normal :=
  match n, h1, h2 with
  | 192, _, _ => by mn
  | 193, _, _ => by mn
  | 194, _, _ => by mn
  | 195, _, _ => by mn
  | 196, _, _ => by mn
  | 197, _, _ => by mn
  | 198, _, _ => by mn
  | 199, _, _ => by mn
  | 200, _, _ => by mn
  | 201, _, _ => by mn
  | 202, _, _ => by mn
  | 203, _, _ => by mn
  | 204, _, _ => by mn
  | 205, _, _ => by mn
  | 206, _, _ => by mn
  | 207, _, _ => by mn
  | 208, _, _ => by mn
  | 209, _, _ => by mn
  | 210, _, _ => by mn
  | 211, _, _ => by mn
  | 212, _, _ => by mn
  | 213, _, _ => by mn
  | 214, _, _ => by mn
  | 215, _, _ => by mn
  | 216, _, _ => by mn
  | 217, _, _ => by mn
  | 218, _, _ => by mn
  | 219, _, _ => by mn
  | 220, _, _ => by mn
  | 221, _, _ => by mn
  | 222, _, _ => by mn
  | 223, _, _ => by mn
  | 0, h, _ => absurd h (by omega)
  | n + 224, _, h => absurd h (by omega)

theorem mn_chunk7 (enc : Encoding) (args : List Arg) (n : Nat) (h1 : 224 ≤ n) (h2 : n < 256) :
    (meaning enc n args).Normal :=
  match n, h1, h2 with
  | 224, _, _ => by mn
  | 225, _, _ => by mn
  | 226, _, _ => by mn
  | 227, _, _ => by mn
  | 228, _, _ => by mn
  | 229, _, _ => by mn
  | 230, _, _ => by mn
  | 231, _, _ => by mn
  | 232, _, _ => by mn
  | 233, _, _ => by mn
  | 234, _, _ => by mn
  | 235, _, _ => by mn
  | 236, _, _ => by mn
  | 237, _, _ => by mn
  | 238, _, _ => by mn
  | 239, _, _ => by mn
  | 240, _, _ => by mn
  | 241, _, _ => by mn
  | 242, _, _ => by mn
  | 243, _, _ => by mn
  | 244, _, _ => by mn
  | 245, _, _ => by mn
  | 246, _, _ => by mn
  | 247, _, _ => by mn
  | 248, _, _ => by mn
  | 249, _, _ => by mn
  | 250, _, _ => by mn
  | 251, _, _ => by mn
  | 252, _, _ => by mn
  | 253, _, _ => by mn
  | 254, _, _ => by mn
  | 255, _, _ => by mn
  | 0, h, _ => absurd h (by omega)
  | n + 256, _, h => absurd h (by omega)

theorem meaning_normal (enc : Encoding) (args : List Arg) (n : Nat) (hn : n < 256) : (meaning enc n args).Normal := by
  by_cases h0 : n < 32; exact mn_chunk0 enc args n (by omega) h0
  by_cases h1 : n < 64; exact mn_chunk1 enc args n (by omega) h1
  by_cases h2 : n < 96; exact mn_chunk2 enc args n (by omega) h2
  by_cases h3 : n < 128; exact mn_chunk3 enc args n (by omega) h3
  by_cases h4 : n < 160; exact mn_chunk4 enc args n (by omega) h4
  by_cases h5 : n < 192; exact mn_chunk5 enc args n (by omega) h5
  by_cases h6 : n < 224; exact mn_chunk6 enc args n (by omega) h6
  exact mn_chunk7 enc args n (by omega) hn
