import Gimli.Lemmas.Eval
/-! # C07 `iter_limit` over whole runs: `evaluate()` and any script of `resume_with_*` answers -/
open Gimli Gimli.Op Gimli.Eval
set_option linter.unusedVariables false

namespace Gimli.Eval

theorem finalOf_ne_diverged_of_normal {α} (x : Out α) (h : x.Normal) : finalOf x ≠ .diverged := by
  cases x <;> simp [finalOf, Out.Normal] at h ⊢

macro "ans_norm" : tactic => `(tactic|
  repeat (first
    | trivial
    | exact pop_normal _
    | exact push_normal _ _ _
    | exact Value.parse_normal _ _ _
    | exact Value.convert_normal _ _ _
    | exact Value.reinterpret_normal _ _ _
    | exact Value.fromU64_normal _ _
    | exact Value.arith_normal _ _ _ _ _ _
    | (refine bind_normal _ _ ?_ ?_)
    | split
    | (intro p; try obtain ⟨_, _⟩ := p)))

theorem applyAnswer_normal_or_panic (c : Config) (w : Waiting) (a : Answer) (m : Mach) :
    (applyAnswer c w a m).Normal ∨ ∃ p, applyAnswer c w a m = .panic p := by
  unfold applyAnswer
  cases w <;> cases a <;> simp only [] <;>
    first
    | (right; exact ⟨_, rfl⟩)
    | (left; (try unfold Value.add); ans_norm)

theorem resume_bound (m : Nat) (hm : m < 2 ^ 32) (fuel : Nat) (a : Answer) (s : Eval) (r : Request) (s' : Eval)
    (hmax : s.cfg.maxIterations = some m) (hit : s.iteration ≤ m) (h : resume fuel a s = .ok (r, s')) :
    s'.cfg = s.cfg ∧ s.iteration ≤ s'.iteration ∧ s'.iteration ≤ m ∧
      s'.decodes + 2 * s.iteration ≤ s.decodes + 2 * s'.iteration := by
  unfold resume at h
  split at h
  · cases h
  · obtain ⟨m1, _, h2⟩ := bind_eq_ok h
    exact evalInternal_bound m hm fuel { s with m := m1 } r s' hmax hit h2
  · cases h

theorem resume_not_diverge (m : Nat) (hm : m < 2 ^ 32) (fuel : Nat) (hf : m + 2 ≤ fuel) (a : Answer) (s : Eval)
    (hmax : s.cfg.maxIterations = some m) (hit : s.iteration ≤ m) : resume fuel a s ≠ .diverge := by
  unfold resume
  split
  · intro h; cases h
  · next w hw =>
    cases hx : applyAnswer s.cfg w a s.m with
    | ok m1 =>
      simp only [Out.bind_ok]
      have := evalInternal_terminates m hm fuel { s with m := m1 } hmax hit (by simp only []; omega)
      intro h; rw [h] at this; exact this
    | err e => intro h; cases h
    | panic p => intro h; cases h
    | diverge =>
      -- `applyAnswer` never diverges: it is built from total operations
      exfalso
      have hn := applyAnswer_normal_or_panic s.cfg w a s.m
      rw [hx] at hn
      rcases hn with hn | ⟨p, hp⟩
      · exact hn
      · cases hp
  · intro h; cases h

/-- over any script of answers: the run never runs out of fuel and every state it reaches has its
counter within the limit -/
theorem runFrom_limit (m : Nat) (hm : m < 2 ^ 32) (fuel : Nat) (hf : m + 2 ≤ fuel) :
    ∀ (toks : List Tok) (r : Request) (s : Eval), s.cfg.maxIterations = some m → s.iteration ≤ m →
      (runFrom fuel toks r s).2.1 ≠ .diverged ∧
      ∀ e, (runFrom fuel toks r s).2.2 = some e →
        e.iteration ≤ m ∧ e.decodes + 2 * s.iteration ≤ s.decodes + 2 * e.iteration := by
  intro toks
  induction toks with
  | nil =>
    intro r s hmax hit
    cases r <;> simp only [runFrom] <;> refine ⟨by simp, fun e he => ?_⟩ <;>
      (simp only [Option.some.injEq] at he; subst he; exact ⟨hit, Nat.le_refl _⟩)
  | cons t toks ih =>
    intro r s hmax hit
    by_cases hr : r = .complete
    · subst hr
      simp only [runFrom]
      refine ⟨by simp, fun e he => ?_⟩
      simp only [Option.some.injEq] at he; subst he; exact ⟨hit, Nat.le_refl _⟩
    · have hM : runFrom fuel (t :: toks) r s =
          (match resume fuel (answerFor r t) s with
           | .ok (r', s') => (match runFrom fuel toks r' s' with | (tr, f, e) => (r :: tr, f, e))
           | o => ([r], finalOf o, none)) := by
        cases r <;> first | exact (hr rfl).elim | rfl
      rw [hM]
      cases hx : resume fuel (answerFor r t) s with
      | ok p =>
        obtain ⟨r', s'⟩ := p
        obtain ⟨hc, h1, h2, h3⟩ := resume_bound m hm fuel _ s r' s' hmax hit hx
        obtain ⟨ihd, ihe⟩ := ih r' s' (by rw [hc]; exact hmax) h2
        simp only []
        refine ⟨ihd, fun e he => ?_⟩
        obtain ⟨he1, he2⟩ := ihe e he
        exact ⟨he1, by omega⟩
      | err e => exact ⟨by simp [finalOf], fun e he => by cases he⟩
      | panic p => exact ⟨by simp [finalOf], fun e he => by cases he⟩
      | diverge => exact absurd hx (resume_not_diverge m hm fuel hf _ s hmax hit)


/-- the same from a fresh evaluator: `evaluate()`, then the script -/
theorem run_limit (m : Nat) (hm : m < 2 ^ 32) (fuel : Nat) (hf : m + 2 ≤ fuel) (toks : List Tok) (s : Eval)
    (hmax : s.cfg.maxIterations = some m) (hit : s.iteration ≤ m) :
    (run fuel toks s).2.1 ≠ .diverged ∧
      ∀ e, (run fuel toks s).2.2 = some e →
        e.iteration ≤ m ∧ e.decodes + 2 * s.iteration ≤ s.decodes + 2 * e.iteration := by
  -- what `evaluate` does before the loop: nothing, or push the initial value
  have key : ∀ s1 : Eval, s1.cfg = s.cfg → s1.iteration = s.iteration → s1.decodes = s.decodes →
      ((match (match evaluateInternal fuel s1 with
                | .ok (r, s') => ((.ok (r, s') : Out (Request × Eval)), s')
                | .err e => (.err e, { s1 with state := .error e })
                | .panic w => (.panic w, s1)
                | .diverge => (.diverge, s1)) with
        | (.ok (r, s'), _) => runFrom fuel toks r s'
        | (o, _) => ([], finalOf o, none)) : List Request × Final × Option Eval).2.1 ≠ .diverged ∧
      ∀ e, ((match (match evaluateInternal fuel s1 with
                | .ok (r, s') => ((.ok (r, s') : Out (Request × Eval)), s')
                | .err e => (.err e, { s1 with state := .error e })
                | .panic w => (.panic w, s1)
                | .diverge => (.diverge, s1)) with
        | (.ok (r, s'), _) => runFrom fuel toks r s'
        | (o, _) => ([], finalOf o, none)) : List Request × Final × Option Eval).2.2 = some e →
        e.iteration ≤ m ∧ e.decodes + 2 * s.iteration ≤ s.decodes + 2 * e.iteration := by
    intro s1 hc hi hd
    have hn := evalInternal_terminates m hm fuel s1 (by rw [hc]; exact hmax) (by omega) (by omega)
    cases hx : evaluateInternal fuel s1 with
    | ok p =>
      obtain ⟨r, s'⟩ := p
      obtain ⟨h0, h1, h2, h3⟩ := evalInternal_bound m hm fuel s1 r s' (by rw [hc]; exact hmax) (by omega) hx
      obtain ⟨ihd, ihe⟩ := runFrom_limit m hm fuel hf toks r s' (by rw [h0, hc]; exact hmax) h2
      refine ⟨ihd, fun e he => ?_⟩
      obtain ⟨he1, he2⟩ := ihe e he
      exact ⟨he1, by omega⟩
    | err e => exact ⟨by simp [finalOf], fun e he => by cases he⟩
    | panic p => exact ⟨by simp [finalOf], fun e he => by cases he⟩
    | diverge => rw [hx] at hn; exact hn.elim
  unfold run evaluate
  cases hs : s.state with
  | start init =>
    cases init with
    | none => exact key _ rfl rfl rfl
    | some v =>
      simp only []
      cases hp : push s.cfg (Value.generic v) s.m with
      | ok m1 => exact key _ rfl rfl rfl
      | err e => exact ⟨by simp [finalOf], fun e he => by cases he⟩
      | panic p => exact ⟨by simp [finalOf], fun e he => by cases he⟩
      | diverge => exact absurd hp (by have := push_normal s.cfg (Value.generic v) s.m; intro h; rw [h] at this; exact this)
  | ready => exact key s rfl rfl rfl
  | error e => exact ⟨by simp [finalOf], fun e he => by cases he⟩
  | complete =>
    simp only []
    obtain ⟨ihd, ihe⟩ := runFrom_limit m hm fuel hf toks .complete s hmax hit
    exact ⟨ihd, ihe⟩
  | waiting w => exact ⟨by simp [finalOf], fun e he => by cases he⟩

end Gimli.Eval
