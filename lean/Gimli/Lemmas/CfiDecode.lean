import Gimli.Spec.Cfi
import Gimli.Lemmas.Cfi
import Gimli.Lemmas.Leb
import Gimli.Lemmas.Ints
/-!
# `Cfi.parse` accepts every encoding the Spec describes (C06)

`parse_encodes`: for every instruction `i` and every byte string `bs` with `Spec.Cfi.Encodes … i bs`,
`parse` on `bs ++ rest` returns exactly `(i, rest)`.
-/
namespace Gimli.Spec.Cfi
open Gimli Gimli.Cfi Gimli.Spec

theorem uleb_read {v : Nat} {bs : Bytes} (h : ULeb v bs) (rest : Bytes) :
    Leb.unsigned (bs ++ rest) = .ok (v, rest) := by
  obtain ⟨h1, h2, h3, h4⟩ := h
  rw [← h3]
  exact Leb.unsigned_complete bs rest h1 h2 (h3 ▸ h4)

theorem reg_read {r : Reg} {bs : Bytes} (h : RegEnc r bs) (rest : Bytes) :
    readReg (bs ++ rest) = .ok (r, rest) := by
  unfold readReg
  rw [uleb_read h rest]
  have : r.toNat < 2 ^ 16 := r.toNat_lt
  simp [this]

theorem fixed_read {e : Endian} {n v : Nat} {bs : Bytes} (h : Fixed e n v bs) (rest : Bytes) :
    Ints.readFixed e n (bs ++ rest) = .ok (v, rest) := by
  obtain ⟨h1, h2⟩ := h
  rw [h1]
  exact Ints.readFixed_toBytes e n v rest h2

theorem block_read {ex bs : Bytes} (h : Block ex bs) (rest : Bytes) :
    readExpr (bs ++ rest) = .ok (ex, rest) := by
  obtain ⟨l, hl, hb⟩ := h
  unfold readExpr
  rw [hb, List.append_assoc, uleb_read hl (ex ++ rest)]
  simp

/-- the decoding context that corresponds to the parameters of `Encodes` -/
def cfgOf (m : Mode) (e : Endian) (asz : Nat) (aarch64 : Bool) (p : PtrParams) : DecodeCfg :=
  { mode := m, endian := e, addressEncoding := none, params := { p with addressSize := asz },
    vendor := if aarch64 then .aarch64 else .default }

theorem parse_encodes {m : Mode} {e : Endian} {asz : Nat} {aarch64 : Bool} {p : PtrParams} {i : Instr} {bs : Bytes}
    (h : Encodes e asz aarch64 i bs) (pos : Nat) (rest : Bytes) :
    parse (cfgOf m e asz aarch64 p) pos (bs ++ rest) = .ok (i, rest) := by
  cases h with
  | advanceLoc d hd =>
    have h1 : (UInt8.ofNat (0x40 + d)).toNat = 0x40 + d := by
      simp only [UInt8.toNat_ofNat']; omega
    simp only [List.cons_append, List.nil_append, parse, h1]
    have : (0x40 + d) / 64 = 1 := by omega
    have h2 : (0x40 + d) % 64 = d := by omega
    simp [this, h2]
  | offset r o bo hr ho =>
    have h1 : (UInt8.ofNat (0x80 + r.toNat)).toNat = 0x80 + r.toNat := by
      simp only [UInt8.toNat_ofNat']; omega
    simp only [List.cons_append, parse, h1]
    have h2 : (0x80 + r.toNat) / 64 = 2 := by omega
    have h3 : UInt16.ofNat ((0x80 + r.toNat) % 64) = r := by
      have : (0x80 + r.toNat) % 64 = r.toNat := by omega
      rw [this]; simp
    simp [h2, h3, uleb_read ho]
  | restore r hr =>
    have h1 : (UInt8.ofNat (0xc0 + r.toNat)).toNat = 0xc0 + r.toNat := by
      simp only [UInt8.toNat_ofNat']; omega
    simp only [List.cons_append, List.nil_append, parse, h1]
    have h2 : (0xc0 + r.toNat) / 64 = 3 := by omega
    have h3 : UInt16.ofNat ((0xc0 + r.toNat) % 64) = r := by
      have : (0xc0 + r.toNat) % 64 = r.toNat := by omega
      rw [this]; simp
    simp [h2, h3]
  | nop => simp [parse]
  | setLoc a ba hsz ha =>
    have := fixed_read ha rest
    simp [parse, cfgOf, Ints.readAddress, hsz, this]
  | advanceLoc1 d bd hd => simp [parse, cfgOf, fixed_read hd]
  | advanceLoc2 d bd hd => simp [parse, cfgOf, fixed_read hd]
  | advanceLoc4 d bd hd => simp [parse, cfgOf, fixed_read hd]
  | offsetExtended r o br bo hr ho => simp [parse, reg_read hr, uleb_read ho]
  | restoreExtended r br hr => simp [parse, reg_read hr]
  | undefined r br hr => simp [parse, reg_read hr]
  | sameValue r br hr => simp [parse, reg_read hr]
  | register d s bd bs hd hs => simp [parse, reg_read hd, reg_read hs]
  | rememberState => simp [parse]
  | restoreState => simp [parse]
  | defCfa r o br bo hr ho => simp [parse, reg_read hr, uleb_read ho]
  | defCfaRegister r br hr => simp [parse, reg_read hr]
  | defCfaOffset o bo ho => simp [parse, uleb_read ho]
  | defCfaExpression ex bx hx => simp [parse, block_read hx]
  | expression r ex br bx hr hx => simp [parse, reg_read hr, block_read hx]
  | valOffset r o br bo hr ho => simp [parse, reg_read hr, uleb_read ho]
  | valExpression r ex br bx hr hx => simp [parse, reg_read hr, block_read hx]
  | argsSize n bn hn => simp [parse, uleb_read hn]
  | negateRaState ha => simp [parse, cfgOf, ha]

end Gimli.Spec.Cfi
