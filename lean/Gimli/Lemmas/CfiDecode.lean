import Gimli.Spec.Cfi
import Gimli.Lemmas.Cfi
import Gimli.Lemmas.Leb
import Gimli.Lemmas.Ints
/-!
# `Cfi.parse` accepts every encoding the Spec describes (C06)

`parse_encodes`: for every instruction `i` and every byte string `bs` with `Spec.Cfi.Encodes … i bs`,
`parse` on `bs ++ rest` returns exactly `(i, rest)`.
-/
namespace Gimli.Spec.Cfi
open Gimli Gimli.Cfi Gimli.Spec

theorem uleb_read {v : Nat} {bs : Bytes} (h : ULeb v bs) (rest : Bytes) :
    Leb.unsigned (bs ++ rest) = .ok (v, rest) := by
  obtain ⟨h1, h2, h3, h4⟩ := h
  rw [← h3]
  exact Leb.unsigned_complete bs rest h1 h2 (h3 ▸ h4)

theorem sleb_read {v : Int} {bs : Bytes} (h : SLeb v bs) (rest : Bytes) :
    Leb.signed (bs ++ rest) = .ok (v, rest) := by
  obtain ⟨h1, h2, h3, h4, h5⟩ := h
  rw [← h3]
  exact Leb.signed_complete bs rest h1 (Leb.sfits_of_range bs h1 h2 (h3 ▸ h4) (h3 ▸ h5))

theorem reg_read {r : Reg} {bs : Bytes} (h : RegEnc r bs) (rest : Bytes) :
    readReg (bs ++ rest) = .ok (r, rest) := by
  unfold readReg
  rw [uleb_read h rest]
  have : r.toNat < 2 ^ 16 := r.toNat_lt
  simp [this]

theorem fixed_read {e : Endian} {n v : Nat} {bs : Bytes} (h : Fixed e n v bs) (rest : Bytes) :
    Ints.readFixed e n (bs ++ rest) = .ok (v, rest) := by
  obtain ⟨h1, h2⟩ := h
  rw [h1]
  exact Ints.readFixed_toBytes e n v rest h2

theorem block_read {ex bs : Bytes} (h : Block ex bs) (rest : Bytes) :
    readExpr (bs ++ rest) = .ok (ex, rest) := by
  obtain ⟨l, hl, hb⟩ := h
  unfold readExpr
  rw [hb, List.append_assoc, uleb_read hl (ex ++ rest)]
  simp

/-- the decoding context that corresponds to the parameters of `Encodes` -/
def cfgOf (m : Mode) (e : Endian) (asz : Nat) (aarch64 : Bool) (p : PtrParams) : DecodeCfg :=
  { mode := m, endian := e, addressEncoding := none, params := { p with addressSize := asz },
    vendor := if aarch64 then .aarch64 else .default }

theorem parse_encodes {m : Mode} {e : Endian} {asz : Nat} {aarch64 : Bool} {p : PtrParams} {i : Instr} {bs : Bytes}
    (h : Encodes e asz aarch64 i bs) (pos : Nat) (rest : Bytes) :
    parse (cfgOf m e asz aarch64 p) pos (bs ++ rest) = .ok (i, rest) := by
  cases h with
  | advanceLoc d hd =>
    have h1 : (UInt8.ofNat (0x40 + d)).toNat = 0x40 + d := by
      simp only [UInt8.toNat_ofNat']; omega
    simp only [List.cons_append, List.nil_append, parse, h1]
    have : (0x40 + d) / 64 = 1 := by omega
    have h2 : (0x40 + d) % 64 = d := by omega
    simp [this, h2]
  | offset r o bo hr ho =>
    have h1 : (UInt8.ofNat (0x80 + r.toNat)).toNat = 0x80 + r.toNat := by
      simp only [UInt8.toNat_ofNat']; omega
    simp only [List.cons_append, parse, h1]
    have h2 : (0x80 + r.toNat) / 64 = 2 := by omega
    have h3 : UInt16.ofNat ((0x80 + r.toNat) % 64) = r := by
      have : (0x80 + r.toNat) % 64 = r.toNat := by omega
      rw [this]; simp
    simp [h2, h3, uleb_read ho]
  | restore r hr =>
    have h1 : (UInt8.ofNat (0xc0 + r.toNat)).toNat = 0xc0 + r.toNat := by
      simp only [UInt8.toNat_ofNat']; omega
    simp only [List.cons_append, List.nil_append, parse, h1]
    have h2 : (0xc0 + r.toNat) / 64 = 3 := by omega
    have h3 : UInt16.ofNat ((0xc0 + r.toNat) % 64) = r := by
      have : (0xc0 + r.toNat) % 64 = r.toNat := by omega
      rw [this]; simp
    simp [h2, h3]
  | nop => simp [parse]
  | setLoc a ba hsz ha =>
    have := fixed_read ha rest
    simp [parse, cfgOf, Ints.readAddress, hsz, this]
  | advanceLoc1 d bd hd => simp [parse, cfgOf, fixed_read hd]
  | advanceLoc2 d bd hd => simp [parse, cfgOf, fixed_read hd]
  | advanceLoc4 d bd hd => simp [parse, cfgOf, fixed_read hd]
  | offsetExtended r o br bo hr ho => simp [parse, reg_read hr, uleb_read ho]
  | restoreExtended r br hr => simp [parse, reg_read hr]
  | undefined r br hr => simp [parse, reg_read hr]
  | sameValue r br hr => simp [parse, reg_read hr]
  | register d s bd bs hd hs => simp [parse, reg_read hd, reg_read hs]
  | rememberState => simp [parse]
  | restoreState => simp [parse]
  | defCfa r o br bo hr ho => simp [parse, reg_read hr, uleb_read ho]
  | defCfaRegister r br hr => simp [parse, reg_read hr]
  | defCfaOffset o bo ho => simp [parse, uleb_read ho]
  | defCfaExpression ex bx hx => simp [parse, block_read hx]
  | expression r ex br bx hr hx => simp [parse, reg_read hr, block_read hx]
  | valOffset r o br bo hr ho => simp [parse, reg_read hr, uleb_read ho]
  | offsetExtendedSf r o br bo hr ho => simp [parse, reg_read hr, sleb_read ho]
  | defCfaSf r o br bo hr ho => simp [parse, reg_read hr, sleb_read ho]
  | defCfaOffsetSf o bo ho => simp [parse, sleb_read ho]
  | valOffsetSf r o br bo hr ho => simp [parse, reg_read hr, sleb_read ho]
  | valExpression r ex br bx hr hx => simp [parse, reg_read hr, block_read hx]
  | argsSize n bn hn => simp [parse, uleb_read hn]
  | negateRaState ha => simp [parse, cfgOf, ha]

theorem leBytes_leVal (bs : Bytes) : Ints.leBytes bs.length (Ints.leVal bs) = bs := by
  induction bs with
  | nil => rfl
  | cons b tl ih =>
    simp only [List.length_cons, Ints.leBytes, Ints.leVal]
    have h1 : (b.toNat + 256 * Ints.leVal tl) % 256 = b.toNat := by
      have := b.toNat_lt; omega
    have h2 : (b.toNat + 256 * Ints.leVal tl) / 256 = Ints.leVal tl := by
      have := b.toNat_lt; omega
    rw [h1, h2, ih]
    simp

theorem toBytes_fromBytes (e : Endian) (bs : Bytes) : Ints.toBytes e bs.length (Ints.fromBytes e bs) = bs := by
  cases e with
  | little => exact leBytes_leVal bs
  | big =>
    simp only [Ints.toBytes, Ints.fromBytes]
    have := leBytes_leVal bs.reverse
    rw [List.length_reverse] at this
    rw [this, List.reverse_reverse]

theorem uleb_sound {bs : Bytes} {v : Nat} {rest : Bytes} (h : Leb.unsigned bs = .ok (v, rest)) :
    ∃ pre, bs = pre ++ rest ∧ ULeb v pre := by
  obtain ⟨pre, h1, h2, h3, h4, h5⟩ := Leb.unsigned_sound bs v rest h
  exact ⟨pre, h1, h2, h3, h4.symm, h5⟩

theorem sleb_sound {bs : Bytes} {v : Int} {rest : Bytes} (h : Leb.signed bs = .ok (v, rest)) :
    ∃ pre, bs = pre ++ rest ∧ SLeb v pre := by
  obtain ⟨pre, h1, h2, h3, h4, h5, h6⟩ := Leb.signed_sound bs v rest h
  exact ⟨pre, h1, h2, h3, h4.symm, h5, h6⟩

theorem reg_sound {bs : Bytes} {r : Reg} {rest : Bytes} (h : readReg bs = .ok (r, rest)) :
    ∃ pre, bs = pre ++ rest ∧ RegEnc r pre := by
  unfold readReg at h
  obtain ⟨⟨v, r1⟩, h1, h2⟩ := bind_eq_ok h
  simp only at h2
  split at h2
  · rename_i hv
    simp only [Out.pure_eq, Out.ok.injEq, Prod.mk.injEq] at h2
    obtain ⟨e1, e2⟩ := h2
    subst e1; subst e2
    obtain ⟨pre, hp, hu⟩ := uleb_sound h1
    refine ⟨pre, hp, ?_⟩
    unfold RegEnc
    have : (UInt16.ofNat v).toNat = v := by
      simp only [UInt16.toNat_ofNat']; omega
    rw [this]; exact hu
  · cases h2

theorem fixed_sound {e : Endian} {n : Nat} {bs : Bytes} {v : Nat} {rest : Bytes}
    (h : Ints.readFixed e n bs = .ok (v, rest)) : ∃ pre, bs = pre ++ rest ∧ Fixed e n v pre := by
  obtain ⟨hn, hr, hv, hlt⟩ := Ints.readFixed_ok e n bs v rest h
  refine ⟨bs.take n, by rw [hr, List.take_append_drop], ?_, hlt⟩
  have hl : (bs.take n).length = n := by simp [List.length_take, Nat.min_eq_left hn]
  rw [hv]
  have := toBytes_fromBytes e (bs.take n)
  rw [hl] at this
  exact this.symm

theorem block_sound {bs ex rest : Bytes} (h : readExpr bs = .ok (ex, rest)) :
    ∃ pre, bs = pre ++ rest ∧ Block ex pre := by
  unfold readExpr at h
  obtain ⟨⟨len, r1⟩, h1, h2⟩ := bind_eq_ok h
  simp only at h2
  split at h2
  · rename_i hl
    simp only [Out.pure_eq, Out.ok.injEq, Prod.mk.injEq] at h2
    obtain ⟨e1, e2⟩ := h2
    subst e1; subst e2
    obtain ⟨l, hp, hu⟩ := uleb_sound h1
    refine ⟨l ++ r1.take len, by rw [hp, List.append_assoc, List.take_append_drop], l, ?_, rfl⟩
    have : (r1.take len).length = len := by simp [List.length_take, Nat.min_eq_left hl]
    rw [this]; exact hu
  · cases h2

theorem byte_eq {b : UInt8} {k : Nat} (h : b.toNat = k) : b = UInt8.ofNat k := by
  rw [← h]; simp

theorem address_sound {e : Endian} {n : Nat} {bs : Bytes} {v : Nat} {rest : Bytes}
    (h : Ints.readAddress e n bs = .ok (v, rest)) :
    ∃ pre, bs = pre ++ rest ∧ (n = 1 ∨ n = 2 ∨ n = 4 ∨ n = 8) ∧ Fixed e n v pre := by
  unfold Ints.readAddress at h
  split at h
  · rename_i hn
    obtain ⟨pre, hp, hf⟩ := fixed_sound h
    exact ⟨pre, hp, hn, hf⟩
  · cases h

theorem exists_cons {x : UInt8} {tl pre rest : Bytes} {P : Bytes → Prop} (h1 : tl = pre ++ rest)
    (h2 : P (x :: pre)) : ∃ p, x :: tl = p ++ rest ∧ P p :=
  ⟨x :: pre, by simp [h1], h2⟩

macro "sound_of " h:ident : tactic =>
  `(tactic| first
    | exact reg_sound $h
    | exact uleb_sound $h
    | exact sleb_sound $h
    | exact fixed_sound $h
    | exact block_sound $h)

theorem parse_sound {m : Mode} {e : Endian} {asz : Nat} {aarch64 : Bool} {p : PtrParams} {pos : Nat}
    {bs : Bytes} {i : Instr} {rest : Bytes}
    (h : parse (cfgOf m e asz aarch64 p) pos bs = .ok (i, rest)) :
    ∃ pre, bs = pre ++ rest ∧ Encodes e asz aarch64 i pre := by
  cases bs with
  | nil => simp [parse] at h
  | cons b tl =>
    simp only [parse, cfgOf] at h
    split at h
    · -- DW_CFA_advance_loc
      rename_i h1
      cases h
      refine ⟨[b], rfl, ?_⟩
      have hb : b = UInt8.ofNat (0x40 + b.toNat % 64) := by
        have : 0x40 + b.toNat % 64 = b.toNat := by omega
        rw [this]; simp
      rw [hb]
      have := Encodes.advanceLoc (e := e) (asz := asz) (aarch64 := aarch64) (b.toNat % 64) (by omega)
      simpa using this
    · split at h
      · -- DW_CFA_offset
        rename_i h1 h2
        obtain ⟨⟨o, r1⟩, h3, h4⟩ := bind_eq_ok h
        cases h4
        obtain ⟨pre, hp, hu⟩ := uleb_sound h3
        subst hp
        refine ⟨b :: pre, rfl, ?_⟩
        have hr : (UInt16.ofNat (b.toNat % 64)).toNat = b.toNat % 64 := by
          simp only [UInt16.toNat_ofNat']; omega
        have hb : b = UInt8.ofNat (0x80 + (UInt16.ofNat (b.toNat % 64)).toNat) := by
          rw [hr]
          have : 0x80 + b.toNat % 64 = b.toNat := by omega
          rw [this]; simp
        have := Encodes.offset (e := e) (asz := asz) (aarch64 := aarch64) (UInt16.ofNat (b.toNat % 64)) o pre
          (by rw [hr]; omega) hu
        rw [← hb] at this
        exact this
      · split at h
        · -- DW_CFA_restore
          rename_i h1 h2 h3
          cases h
          refine ⟨[b], rfl, ?_⟩
          have hr : (UInt16.ofNat (b.toNat % 64)).toNat = b.toNat % 64 := by
            simp only [UInt16.toNat_ofNat']; omega
          have hb : b = UInt8.ofNat (0xc0 + (UInt16.ofNat (b.toNat % 64)).toNat) := by
            rw [hr]
            have : 0xc0 + b.toNat % 64 = b.toNat := by
              have := b.toNat_lt; omega
            rw [this]; simp
          have := Encodes.restore (e := e) (asz := asz) (aarch64 := aarch64) (UInt16.ofNat (b.toNat % 64))
            (by rw [hr]; omega)
          rw [← hb] at this
          exact this
        · split at h
          all_goals first
            | (cases h; done)
            | (rename_i op heq
               have hb := byte_eq heq
               subst hb
               first
                | (cases h
                   exact ⟨[_], rfl, by constructor⟩)
                | (obtain ⟨⟨a, r1⟩, h1, h2⟩ := bind_eq_ok h
                   first
                    | (cases h2
                       first
                        | (obtain ⟨pre, hp, hsz, he⟩ := address_sound h1
                           subst hp
                           exact ⟨_ :: pre, rfl, Encodes.setLoc _ _ hsz he⟩)
                        | (obtain ⟨pre, hp, he⟩ : ∃ pre, tl = pre ++ r1 ∧ _ := by sound_of h1
                           subst hp
                           exact ⟨_ :: pre, rfl, by constructor <;> assumption⟩))
                    | (obtain ⟨⟨a2, r2⟩, h3, h4⟩ := bind_eq_ok h2
                       cases h4
                       first
                        | (obtain ⟨pre1, hp1, he1⟩ : ∃ pre, tl = pre ++ r1 ∧ _ := by sound_of h1
                           obtain ⟨pre2, hp2, he2⟩ : ∃ pre, r1 = pre ++ r2 ∧ _ := by sound_of h3
                           refine exists_cons (pre := pre1 ++ pre2) (by rw [hp1, hp2, List.append_assoc]) ?_
                           constructor <;> assumption)))
                | skip)
          -- DW_CFA_AARCH64_negate_ra_state: only for the AArch64 vendor
          cases aarch64 with
          | false => simp at h
          | true =>
            simp only [if_true, Out.ok.injEq, Prod.mk.injEq] at h
            obtain ⟨e1, e2⟩ := h
            subst e1; subst e2
            exact ⟨[_], rfl, Encodes.negateRaState rfl⟩

end Gimli.Spec.Cfi
