import Gimli.Spec.Cfi
import Gimli.Lemmas.Cfi
import Gimli.Lemmas.CfiEntry
import Gimli.Lemmas.Leb
import Gimli.Lemmas.Ints
/-!
# `Cfi.parse` accepts exactly the encodings the Spec describes (C06)

* `parse_encodes`: for every instruction `i` and every byte string `bs` with `Spec.Cfi.Encodes c pos i bs`,
  `parse c pos (bs ++ rest)` returns exactly `(i, rest)`;
* `parse_sound`: whatever `parse` accepts is such an encoding;
* `parseEncodedPointerDirect_eq`: the pointer decoding of `DW_CFA_set_loc` inside `Cfi.parse` *is* C05's
  Model of `parse_encoded_pointer` (`CfiEntry.parseEncodedPointer`), so C05's `pep_semantics`
  (`encoded_pointer_decode`) gives its meaning.
-/
set_option linter.unusedSimpArgs false
namespace Gimli.Spec.Cfi
open Gimli Gimli.Cfi Gimli.Spec

theorem uleb_read {v : Nat} {bs : Bytes} (h : ULeb v bs) (rest : Bytes) :
    Leb.unsigned (bs ++ rest) = .ok (v, rest) := by
  obtain ⟨h1, h2, h3, h4⟩ := h
  rw [← h3]
  exact Leb.unsigned_complete bs rest h1 h2 (h3 ▸ h4)

theorem sleb_read {v : Int} {bs : Bytes} (h : SLeb v bs) (rest : Bytes) :
    Leb.signed (bs ++ rest) = .ok (v, rest) := by
  obtain ⟨h1, h2, h3, h4, h5⟩ := h
  rw [← h3]
  exact Leb.signed_complete bs rest h1 (Leb.sfits_of_range bs h1 h2 (h3 ▸ h4) (h3 ▸ h5))

theorem reg_read {r : Reg} {bs : Bytes} (h : RegEnc r bs) (rest : Bytes) :
    readReg (bs ++ rest) = .ok (r, rest) := by
  unfold readReg
  rw [uleb_read h rest]
  have : r.toNat < 2 ^ 16 := r.toNat_lt
  simp [this]

theorem fixed_read {e : Endian} {n v : Nat} {bs : Bytes} (h : Fixed e n v bs) (rest : Bytes) :
    Ints.readFixed e n (bs ++ rest) = .ok (v, rest) := by
  obtain ⟨h1, h2⟩ := h
  rw [h1]
  exact Ints.readFixed_toBytes e n v rest h2

theorem block_read {ex bs : Bytes} (h : Block ex bs) (rest : Bytes) :
    readExpr (bs ++ rest) = .ok (ex, rest) := by
  obtain ⟨l, hl, hb⟩ := h
  unfold readExpr
  rw [hb, List.append_assoc, uleb_read hl (ex ++ rest)]
  simp

theorem leBytes_leVal (bs : Bytes) : Ints.leBytes bs.length (Ints.leVal bs) = bs := by
  induction bs with
  | nil => rfl
  | cons b tl ih =>
    simp only [List.length_cons, Ints.leBytes, Ints.leVal]
    have h1 : (b.toNat + 256 * Ints.leVal tl) % 256 = b.toNat := by
      have := b.toNat_lt; omega
    have h2 : (b.toNat + 256 * Ints.leVal tl) / 256 = Ints.leVal tl := by
      have := b.toNat_lt; omega
    rw [h1, h2, ih]
    simp

theorem toBytes_fromBytes (e : Endian) (bs : Bytes) : Ints.toBytes e bs.length (Ints.fromBytes e bs) = bs := by
  cases e with
  | little => exact leBytes_leVal bs
  | big =>
    simp only [Ints.toBytes, Ints.fromBytes]
    have := leBytes_leVal bs.reverse
    rw [List.length_reverse] at this
    rw [this, List.reverse_reverse]

theorem uleb_sound {bs : Bytes} {v : Nat} {rest : Bytes} (h : Leb.unsigned bs = .ok (v, rest)) :
    ∃ pre, bs = pre ++ rest ∧ ULeb v pre := by
  obtain ⟨pre, h1, h2, h3, h4, h5⟩ := Leb.unsigned_sound bs v rest h
  exact ⟨pre, h1, h2, h3, h4.symm, h5⟩

theorem sleb_sound {bs : Bytes} {v : Int} {rest : Bytes} (h : Leb.signed bs = .ok (v, rest)) :
    ∃ pre, bs = pre ++ rest ∧ SLeb v pre := by
  obtain ⟨pre, h1, h2, h3, h4, h5, h6⟩ := Leb.signed_sound bs v rest h
  exact ⟨pre, h1, h2, h3, h4.symm, h5, h6⟩

theorem reg_sound {bs : Bytes} {r : Reg} {rest : Bytes} (h : readReg bs = .ok (r, rest)) :
    ∃ pre, bs = pre ++ rest ∧ RegEnc r pre := by
  unfold readReg at h
  obtain ⟨⟨v, r1⟩, h1, h2⟩ := bind_eq_ok h
  simp only at h2
  split at h2
  · rename_i hv
    simp only [Out.pure_eq, Out.ok.injEq, Prod.mk.injEq] at h2
    obtain ⟨e1, e2⟩ := h2
    subst e1; subst e2
    obtain ⟨pre, hp, hu⟩ := uleb_sound h1
    refine ⟨pre, hp, ?_⟩
    unfold RegEnc
    have : (UInt16.ofNat v).toNat = v := by
      simp only [UInt16.toNat_ofNat']; omega
    rw [this]; exact hu
  · cases h2

theorem fixed_sound {e : Endian} {n : Nat} {bs : Bytes} {v : Nat} {rest : Bytes}
    (h : Ints.readFixed e n bs = .ok (v, rest)) : ∃ pre, bs = pre ++ rest ∧ Fixed e n v pre := by
  obtain ⟨hn, hr, hv, hlt⟩ := Ints.readFixed_ok e n bs v rest h
  refine ⟨bs.take n, by rw [hr, List.take_append_drop], ?_, hlt⟩
  have hl : (bs.take n).length = n := by simp [List.length_take, Nat.min_eq_left hn]
  rw [hv]
  have := toBytes_fromBytes e (bs.take n)
  rw [hl] at this
  exact this.symm

theorem block_sound {bs ex rest : Bytes} (h : readExpr bs = .ok (ex, rest)) :
    ∃ pre, bs = pre ++ rest ∧ Block ex pre := by
  unfold readExpr at h
  obtain ⟨⟨len, r1⟩, h1, h2⟩ := bind_eq_ok h
  simp only at h2
  split at h2
  · rename_i hl
    simp only [Out.pure_eq, Out.ok.injEq, Prod.mk.injEq] at h2
    obtain ⟨e1, e2⟩ := h2
    subst e1; subst e2
    obtain ⟨l, hp, hu⟩ := uleb_sound h1
    refine ⟨l ++ r1.take len, by rw [hp, List.append_assoc, List.take_append_drop], l, ?_, rfl⟩
    have : (r1.take len).length = len := by simp [List.length_take, Nat.min_eq_left hl]
    rw [this]; exact hu
  · cases h2

theorem byte_eq {b : UInt8} {k : Nat} (h : b.toNat = k) : b = UInt8.ofNat k := by
  rw [← h]; simp

theorem address_sound {e : Endian} {n : Nat} {bs : Bytes} {v : Nat} {rest : Bytes}
    (h : Ints.readAddress e n bs = .ok (v, rest)) :
    ∃ pre, bs = pre ++ rest ∧ (n = 1 ∨ n = 2 ∨ n = 4 ∨ n = 8) ∧ Fixed e n v pre := by
  unfold Ints.readAddress at h
  split at h
  · rename_i hn
    obtain ⟨pre, hp, hf⟩ := fixed_sound h
    exact ⟨pre, hp, hn, hf⟩
  · cases h

theorem exists_cons {x : UInt8} {tl pre rest : Bytes} {P : Bytes → Prop} (h1 : tl = pre ++ rest)
    (h2 : P (x :: pre)) : ∃ p, x :: tl = p ++ rest ∧ P p :=
  ⟨x :: pre, by simp [h1], h2⟩

theorem valid_iff (b : Nat) : CfiEntry.isValidEncoding b = true ↔ Frame.validEncoding b := by
  unfold CfiEntry.isValidEncoding CfiEntry.peAbsent CfiEntry.peFormat CfiEntry.peApplication
    Frame.validEncoding Frame.formatDefined Frame.applicationDefined
  by_cases h : b = 0xff
  · simp [h]
  · simp only [h, decide_false, Bool.false_eq_true, if_false, false_or]
    have : b % 128 / 16 * 16 = b / 16 % 8 * 16 := by omega
    rw [this]
    split
    · rename_i h1; simp only [Bool.false_eq_true, false_iff, not_and]; intro h2; exact absurd h2 h1
    · rename_i h1
      split
      · rename_i h2; simp only [Bool.false_eq_true, false_iff, not_and]; intro _ h3; exact absurd h3 h2
      · rename_i h2
        simp only [true_iff]
        exact ⟨Classical.not_not.mp h1, Classical.not_not.mp h2⟩

theorem ehPeValid_eq (b : Nat) : ehPeValid b = CfiEntry.isValidEncoding b := by
  unfold ehPeValid CfiEntry.isValidEncoding CfiEntry.peAbsent CfiEntry.peFormat CfiEntry.peApplication
  by_cases h : b = 0xff
  · simp [h]
  · simp only [h, if_false, decide_false, Bool.false_eq_true]
    by_cases hf : (b % 16 = 0 ∨ b % 16 = 1 ∨ b % 16 = 2 ∨ b % 16 = 3 ∨ b % 16 = 4 ∨ b % 16 = 9 ∨ b % 16 = 10 ∨ b % 16 = 11 ∨ b % 16 = 12)
    · by_cases ha : b / 16 % 8 ≤ 5
      · have ha' : (b % 128 / 16 * 16 = 0 ∨ b % 128 / 16 * 16 = 0x10 ∨ b % 128 / 16 * 16 = 0x20 ∨ b % 128 / 16 * 16 = 0x30 ∨
            b % 128 / 16 * 16 = 0x40 ∨ b % 128 / 16 * 16 = 0x50) := by omega
        simp [hf, ha, ha']
      · have ha' : ¬ (b % 128 / 16 * 16 = 0 ∨ b % 128 / 16 * 16 = 0x10 ∨ b % 128 / 16 * 16 = 0x20 ∨ b % 128 / 16 * 16 = 0x30 ∨
            b % 128 / 16 * 16 = 0x40 ∨ b % 128 / 16 * 16 = 0x50) := by omega
        simp [hf, ha, ha']
    · simp [hf]

theorem shr_ones : ∀ sh : Fin 64, (2 ^ 64 - 1) >>> sh.val = 2 ^ (64 - sh.val) - 1 := by decide +kernel

theorem wrappingAddSized_eq (m : Mode) (a l s : Nat) :
    Cfi.wrappingAddSized m a l s = CfiEntry.wrappingAddSized m a l s := by
  unfold Cfi.wrappingAddSized Cfi.onesSized CfiEntry.wrappingAddSized
  by_cases hs : 1 ≤ s ∧ s ≤ 8
  · have hpos : 0 < 2 ^ (8 * s) := Nat.pow_pos (by omega)
    simp only [hs, and_self, if_true, Out.bind_ok, Out.pure_eq]
    rw [Nat.sub_add_cancel hpos]
  · simp only [hs, if_false]
    cases m with
    | debug =>
      simp only
      by_cases h0 : s = 0
      · simp [h0]
      · by_cases h1 : s * 8 > 255
        · simp [h0, h1]
        · have h2 : s * 8 > 64 := by omega
          simp [h0, h1, h2]
    | release =>
      simp only [Out.bind_ok, Out.pure_eq]
      have hlt : ((64 + 256 - (s * 8) % 256) % 256) % 64 < 64 := Nat.mod_lt _ (by decide)
      have := shr_ones ⟨_, hlt⟩
      simp only at this
      rw [this]
      have hpos : 0 < 2 ^ (64 - ((64 + 256 - (s * 8) % 256) % 256) % 64) := Nat.pow_pos (by decide)
      rw [Nat.sub_add_cancel hpos, Nat.and_two_pow_sub_one_eq_mod]


/-- forget the section offset of a positioned reader result -/
def dropOff {α : Type} (x : Out (α × CfiEntry.Rd)) : Out (α × Bytes) := x.map (fun y => (y.1, y.2.bs))

theorem dropOff_lift {α : Type} (f : Bytes → Out (α × Bytes)) (r : CfiEntry.Rd) :
    dropOff (r.lift f) = f r.bs := by
  unfold dropOff CfiEntry.Rd.lift
  cases h : f r.bs with
  | ok p => obtain ⟨a, rest⟩ := p; simp [Out.map]
  | err e => simp [Out.map]
  | panic w => simp [Out.map]
  | diverge => simp [Out.map]

theorem dropOff_lift_bind {α β : Type} (f : Bytes → Out (α × Bytes)) (g : α → β) (r : CfiEntry.Rd) :
    dropOff (r.lift f >>= fun x => pure (g x.1, x.2)) = (f r.bs >>= fun x => pure (g x.1, x.2)) := by
  unfold dropOff CfiEntry.Rd.lift
  cases h : f r.bs with
  | ok p => obtain ⟨a, rest⟩ := p; simp [Out.map]
  | err e => simp [Out.map]
  | panic w => simp [Out.map]
  | diverge => simp [Out.map]

theorem parseEncodedValue_eq (e : Endian) (enc asz : Nat) (r : CfiEntry.Rd) :
    dropOff (CfiEntry.parseEncodedValue e enc asz r) = Cfi.parseEncodedValue e enc asz r.bs := by
  unfold CfiEntry.parseEncodedValue Cfi.parseEncodedValue CfiEntry.peFormat CfiEntry.sext
  simp only
  generalize enc % 16 = f
  by_cases h0 : f = 0
  · subst h0; simp only [if_true]; exact dropOff_lift _ _
  by_cases h1 : f = 1
  · subst h1; simp; exact dropOff_lift _ _
  by_cases h2 : f = 2
  · subst h2; simp; exact dropOff_lift _ _
  by_cases h3 : f = 3
  · subst h3; simp; exact dropOff_lift _ _
  by_cases h4 : f = 4
  · subst h4; simp; exact dropOff_lift _ _
  by_cases h9 : f = 9
  · subst h9; simp; exact dropOff_lift_bind Leb.signed Leb.ofI64 r
  by_cases h10 : f = 10
  · subst h10; simp; exact dropOff_lift_bind (Ints.readFixed e 2) (fun v => Leb.ofI64 (Ints.toSigned 2 v)) r
  by_cases h11 : f = 11
  · subst h11; simp; exact dropOff_lift_bind (Ints.readFixed e 4) (fun v => Leb.ofI64 (Ints.toSigned 4 v)) r
  by_cases h12 : f = 12
  · subst h12; simp; exact dropOff_lift_bind (Ints.readFixed e 8) (fun v => Leb.ofI64 (Ints.toSigned 8 v)) r
  simp only [h0, h1, h2, h3, h4, h9, h10, h11, h12, if_false]
  simp [dropOff, Out.map]


/-- C05's parameters for mine -/
theorem peParams_asz (c : DecodeCfg) : (peParams c).asz = c.params.addressSize := rfl

theorem pointerBase_eq (m : Mode) (enc : Nat) (c : DecodeCfg) (off : Nat) (hv : CfiEntry.isValidEncoding enc = true)
    (ho : enc ≠ 0xff) :
    Cfi.pointerBase m enc c.params off = CfiEntry.pointerBase m enc (peParams c) off := by
  obtain ⟨_, ha⟩ := CfiEntry.validFormat hv ho
  simp only [CfiEntry.peApplication] at ha
  unfold Cfi.pointerBase CfiEntry.pointerBase CfiEntry.peApplication peParams
  simp only
  have hk : enc / 16 % 8 = enc % 128 / 16 := by omega
  rw [hk]
  generalize enc % 128 / 16 = k at ha
  have : k = 0 ∨ k = 1 ∨ k = 2 ∨ k = 3 ∨ k = 4 ∨ k = 5 := by omega
  rcases this with h | h | h | h | h | h <;> subst h <;> simp [wrappingAddSized_eq]
  · cases c.params.sectionBase <;> rfl
  · cases c.params.textBase <;> rfl
  · cases c.params.dataBase <;> rfl


theorem dropOff_cases {α : Type} {x : Out (α × CfiEntry.Rd)} {y : Out (α × Bytes)} (h : dropOff x = y) :
    (∃ a r, x = .ok (a, r) ∧ y = .ok (a, r.bs)) ∨ (∃ e, x = .err e ∧ y = .err e) ∨
    (∃ w, x = .panic w ∧ y = .panic w) ∨ (x = .diverge ∧ y = .diverge) := by
  cases x with
  | ok p => obtain ⟨a, r⟩ := p; exact Or.inl ⟨a, r, rfl, h.symm⟩
  | err e => exact Or.inr (Or.inl ⟨e, rfl, h.symm⟩)
  | panic w => exact Or.inr (Or.inr (Or.inl ⟨w, rfl, h.symm⟩))
  | diverge => exact Or.inr (Or.inr (Or.inr ⟨rfl, h.symm⟩))

/-- **The set_loc operand is C05's `parse_encoded_pointer`**: the pointer decoding inside the
Model of `CallFrameInstruction::parse` equals C05's Model of `parse_encoded_pointer` (run at the
operand's section offset with the iterator's parameters) followed by `Pointer::direct` -/
theorem parseEncodedPointerDirect_eq (m : Mode) (e : Endian) (enc : Nat) (c : DecodeCfg) (pos : Nat) (bs : Bytes) :
    Cfi.parseEncodedPointerDirect m e enc c.params pos bs =
      (CfiEntry.parseEncodedPointer m e enc (peParams c) ⟨pos, bs⟩ >>= fun x =>
        x.1.toDirect >>= fun a => pure (a, x.2.bs)) := by
  unfold Cfi.parseEncodedPointerDirect Cfi.parseEncodedPointer CfiEntry.parseEncodedPointer
  rw [ehPeValid_eq]
  by_cases hv : CfiEntry.isValidEncoding enc = true
  · by_cases ho : enc = 0xff
    · subst ho; simp [hv]
    · simp only [hv, Bool.not_true, Bool.false_eq_true, if_false, ho, not_true_eq_false]
      rw [pointerBase_eq m enc c pos hv ho]
      cases hb : CfiEntry.pointerBase m enc (peParams c) pos with
      | ok base =>
        simp only [Out.bind_ok]
        have hpv := parseEncodedValue_eq e enc c.params.addressSize ⟨pos, bs⟩
        rcases dropOff_cases hpv with ⟨x, r', h1, h2⟩ | ⟨e', h1, h2⟩ | ⟨w, h1, h2⟩ | ⟨h1, h2⟩
        · simp only at h2
          simp only [peParams_asz, h1, h2, Out.bind_ok, wrappingAddSized_eq]
          cases hw : CfiEntry.wrappingAddSized m base x c.params.addressSize with
          | ok v =>
            simp only [Out.bind_ok, Out.pure_eq, CfiEntry.Ptr.new, CfiEntry.peIndirect]
            by_cases hi : 128 ≤ enc % 256
            · have : enc / 128 % 2 = 1 := by omega
              simp [hi, this, CfiEntry.Ptr.toDirect]
            · have : ¬ enc / 128 % 2 = 1 := by omega
              simp [hi, this, CfiEntry.Ptr.toDirect]
          | err e' => simp
          | panic w => simp
          | diverge => simp
        · simp only at h2; simp [peParams_asz, h1, h2]
        · simp only at h2; simp [peParams_asz, h1, h2]
        · simp only at h2; simp [peParams_asz, h1, h2]
      | err e' => simp
      | panic w => simp
      | diverge => simp
  · simp [hv]

theorem sext_eq (n v : Nat) (hn : n = 2 ∨ n = 4 ∨ n = 8) (hv : v < 256 ^ n) :
    Leb.ofI64 (Ints.toSigned n v) = signExtend n v := by
  unfold Leb.ofI64 Ints.toSigned signExtend
  rcases hn with h | h | h <;> subst h <;> simp only [Nat.reducePow, Nat.reduceMul, Nat.reduceSub] at hv ⊢ <;>
    (split <;> split <;> omega)


/-! ### the operand of an encoded pointer -/

theorem operand_read {e : Endian} {asz enc x : Nat} {bx : Bytes} (h : Operand e asz enc x bx) (rest : Bytes) :
    Cfi.parseEncodedValue e enc asz (bx ++ rest) = .ok (x, rest) := by
  unfold Cfi.parseEncodedValue
  cases h with
  | absptr x bs hf hsz hx => simp [hf, Ints.readAddress, hsz, fixed_read hx]
  | uleb128 x bs hf hx => simp [hf, uleb_read hx]
  | udata2 x bs hf hx => simp [hf, fixed_read hx]
  | udata4 x bs hf hx => simp [hf, fixed_read hx]
  | udata8 x bs hf hx => simp [hf, fixed_read hx]
  | sleb128 v bs hf hx => simp [hf, sleb_read hx, Leb.ofI64, pattern64]
  | sdata2 v bs hf hx => simp [hf, fixed_read hx, sext_eq 2 v (by simp) hx.2]
  | sdata4 v bs hf hx => simp [hf, fixed_read hx, sext_eq 4 v (by simp) hx.2]
  | sdata8 v bs hf hx => simp [hf, fixed_read hx, sext_eq 8 v (by simp) hx.2]

theorem operand_sound {e : Endian} {asz enc x : Nat} {bs rest : Bytes}
    (h : Cfi.parseEncodedValue e enc asz bs = .ok (x, rest)) :
    ∃ bx, bs = bx ++ rest ∧ Operand e asz enc x bx := by
  unfold Cfi.parseEncodedValue at h
  simp only at h
  split at h
  · rename_i hf
    obtain ⟨pre, hp, hsz, hx⟩ := address_sound h
    exact ⟨pre, hp, .absptr x pre hf hsz hx⟩
  · rename_i hf
    obtain ⟨pre, hp, hx⟩ := uleb_sound h
    exact ⟨pre, hp, .uleb128 x pre hf hx⟩
  · rename_i hf
    obtain ⟨pre, hp, hx⟩ := fixed_sound h
    exact ⟨pre, hp, .udata2 x pre hf hx⟩
  · rename_i hf
    obtain ⟨pre, hp, hx⟩ := fixed_sound h
    exact ⟨pre, hp, .udata4 x pre hf hx⟩
  · rename_i hf
    obtain ⟨pre, hp, hx⟩ := fixed_sound h
    exact ⟨pre, hp, .udata8 x pre hf hx⟩
  · rename_i hf
    obtain ⟨⟨v, r1⟩, h1, h2⟩ := bind_eq_ok h
    cases h2
    obtain ⟨pre, hp, hx⟩ := sleb_sound h1
    exact ⟨pre, hp, .sleb128 v pre hf hx⟩
  · rename_i hf
    obtain ⟨⟨v, r1⟩, h1, h2⟩ := bind_eq_ok h
    cases h2
    obtain ⟨pre, hp, hx⟩ := fixed_sound h1
    rw [sext_eq 2 v (by simp) hx.2]
    exact ⟨pre, hp, .sdata2 v pre hf hx⟩
  · rename_i hf
    obtain ⟨⟨v, r1⟩, h1, h2⟩ := bind_eq_ok h
    cases h2
    obtain ⟨pre, hp, hx⟩ := fixed_sound h1
    rw [sext_eq 4 v (by simp) hx.2]
    exact ⟨pre, hp, .sdata4 v pre hf hx⟩
  · rename_i hf
    obtain ⟨⟨v, r1⟩, h1, h2⟩ := bind_eq_ok h
    cases h2
    obtain ⟨pre, hp, hx⟩ := fixed_sound h1
    rw [sext_eq 8 v (by simp) hx.2]
    exact ⟨pre, hp, .sdata8 v pre hf hx⟩
  · cases h

/-! ### `DW_CFA_set_loc` under a pointer encoding, through C05's Model and Spec -/

theorem setloc_ptr_read {c : DecodeCfg} {pos enc b x : Nat} {bx rest : Bytes}
    (hvalid : Frame.validEncoding enc) (ho : enc ≠ 0xff) (hal : CfiEntry.peApplication enc ≠ 0x50)
    (hind : CfiEntry.peIndirect enc = false) (hsz : 1 ≤ c.params.addressSize ∧ c.params.addressSize ≤ 8)
    (hb : Frame.neededBase enc (peParams c) (pos + 1) = some b)
    (hop : Operand c.endian c.params.addressSize enc x bx) :
    Cfi.parseEncodedPointerDirect c.mode c.endian enc c.params (pos + 1) (bx ++ rest) =
      .ok ((b + x) % 2 ^ 64 % 2 ^ (8 * c.params.addressSize), rest) := by
  have hv := (valid_iff enc).mpr hvalid
  rw [parseEncodedPointerDirect_eq,
    CfiEntry.pep_semantics c.mode c.endian enc (peParams c) ⟨pos + 1, bx ++ rest⟩ hv ho hal hsz.1 hsz.2]
  simp only [hb, peParams_asz]
  have hmine := operand_read hop rest
  have hpv := parseEncodedValue_eq c.endian enc c.params.addressSize ⟨pos + 1, bx ++ rest⟩
  rw [hmine] at hpv
  rcases dropOff_cases hpv with ⟨x', r', h1, h2⟩ | ⟨e', _, h2⟩ | ⟨w, _, h2⟩ | ⟨_, h2⟩
  · simp only [Out.ok.injEq, Prod.mk.injEq] at h2
    obtain ⟨e1, e2⟩ := h2
    subst e1
    simp only [h1, Out.bind_ok, Out.pure_eq, CfiEntry.Ptr.new, hind, Bool.false_eq_true, if_false,
      CfiEntry.Ptr.toDirect, ← e2]
  · cases h2
  · cases h2
  · cases h2

theorem setloc_ptr_sound {c : DecodeCfg} {pos enc a : Nat} {tl rest : Bytes}
    (hsz : 1 ≤ c.params.addressSize ∧ c.params.addressSize ≤ 8)
    (h : Cfi.parseEncodedPointerDirect c.mode c.endian enc c.params (pos + 1) tl = .ok (a, rest)) :
    ∃ b x bx, tl = bx ++ rest ∧ Frame.validEncoding enc ∧ enc ≠ 0xff ∧ CfiEntry.peApplication enc ≠ 0x50 ∧
      CfiEntry.peIndirect enc = false ∧ Frame.neededBase enc (peParams c) (pos + 1) = some b ∧
      Operand c.endian c.params.addressSize enc x bx ∧
      a = (b + x) % 2 ^ 64 % 2 ^ (8 * c.params.addressSize) := by
  rw [parseEncodedPointerDirect_eq] at h
  by_cases hv : CfiEntry.isValidEncoding enc = true
  · by_cases ho : enc = 0xff
    · subst ho; simp [CfiEntry.parseEncodedPointer, hv] at h
    · by_cases hal : CfiEntry.peApplication enc = 0x50
      · simp [CfiEntry.parseEncodedPointer, CfiEntry.pointerBase, hv, ho, hal] at h
      · rw [CfiEntry.pep_semantics c.mode c.endian enc (peParams c) ⟨pos + 1, tl⟩ hv ho hal hsz.1 hsz.2] at h
        simp only at h
        cases hb : Frame.neededBase enc (peParams c) (pos + 1) with
        | none => rw [hb] at h; simp at h
        | some b =>
          rw [hb] at h
          simp only [peParams_asz] at h
          have hpv := parseEncodedValue_eq c.endian enc c.params.addressSize ⟨pos + 1, tl⟩
          rcases dropOff_cases hpv with ⟨x, r', h1, h2⟩ | ⟨e', h1, _⟩ | ⟨w, h1, _⟩ | ⟨h1, _⟩
          · rw [h1] at h
            simp only [Out.bind_ok, Out.pure_eq, CfiEntry.Ptr.new] at h
            by_cases hi : CfiEntry.peIndirect enc = true
            · simp [hi, CfiEntry.Ptr.toDirect] at h
            · have hi' : CfiEntry.peIndirect enc = false := by simpa using hi
              simp only [hi', Bool.false_eq_true, if_false, CfiEntry.Ptr.toDirect, Out.bind_ok, Out.ok.injEq,
                Prod.mk.injEq] at h
              obtain ⟨ea, er⟩ := h
              obtain ⟨bx, hbx, hop⟩ := operand_sound h2
              simp only at hbx
              rw [er] at hbx
              exact ⟨b, x, bx, hbx, (valid_iff enc).mp hv, ho, hal, hi', rfl, hop, ea.symm⟩
          · rw [h1] at h; simp at h
          · rw [h1] at h; simp at h
          · rw [h1] at h; simp at h
  · simp [CfiEntry.parseEncodedPointer, hv] at h

theorem parse_encodes {c : DecodeCfg} {pos : Nat} {i : Instr} {bs : Bytes}
    (h : Encodes c pos i bs) (rest : Bytes) :
    parse c pos (bs ++ rest) = .ok (i, rest) := by
  cases h with
  | advanceLoc d hd =>
    have h1 : (UInt8.ofNat (0x40 + d)).toNat = 0x40 + d := by
      simp only [UInt8.toNat_ofNat']; omega
    simp only [List.cons_append, List.nil_append, parse, h1]
    have : (0x40 + d) / 64 = 1 := by omega
    have h2 : (0x40 + d) % 64 = d := by omega
    simp [this, h2]
  | offset r o bo hr ho =>
    have h1 : (UInt8.ofNat (0x80 + r.toNat)).toNat = 0x80 + r.toNat := by
      simp only [UInt8.toNat_ofNat']; omega
    simp only [List.cons_append, parse, h1]
    have h2 : (0x80 + r.toNat) / 64 = 2 := by omega
    have h3 : UInt16.ofNat ((0x80 + r.toNat) % 64) = r := by
      have : (0x80 + r.toNat) % 64 = r.toNat := by omega
      rw [this]; simp
    simp [h2, h3, uleb_read ho]
  | restore r hr =>
    have h1 : (UInt8.ofNat (0xc0 + r.toNat)).toNat = 0xc0 + r.toNat := by
      simp only [UInt8.toNat_ofNat']; omega
    simp only [List.cons_append, List.nil_append, parse, h1]
    have h2 : (0xc0 + r.toNat) / 64 = 3 := by omega
    have h3 : UInt16.ofNat ((0xc0 + r.toNat) % 64) = r := by
      have : (0xc0 + r.toNat) % 64 = r.toNat := by omega
      rw [this]; simp
    simp [h2, h3]
  | nop => simp [parse]
  | setLoc a ba hnone hsz ha =>
    have := fixed_read ha rest
    simp [parse, hnone, Ints.readAddress, hsz, this]
  | setLocEncoded enc b x bx henc hvalid ho hal hind hsz hb hop =>
    have := setloc_ptr_read (rest := rest) hvalid ho hal hind hsz hb hop
    simp [parse, henc, this]
  | advanceLoc1 d bd hd => simp [parse, fixed_read hd]
  | advanceLoc2 d bd hd => simp [parse, fixed_read hd]
  | advanceLoc4 d bd hd => simp [parse, fixed_read hd]
  | offsetExtended r o br bo hr ho => simp [parse, reg_read hr, uleb_read ho]
  | restoreExtended r br hr => simp [parse, reg_read hr]
  | undefined r br hr => simp [parse, reg_read hr]
  | sameValue r br hr => simp [parse, reg_read hr]
  | register d s bd bs hd hs => simp [parse, reg_read hd, reg_read hs]
  | rememberState => simp [parse]
  | restoreState => simp [parse]
  | defCfa r o br bo hr ho => simp [parse, reg_read hr, uleb_read ho]
  | defCfaRegister r br hr => simp [parse, reg_read hr]
  | defCfaOffset o bo ho => simp [parse, uleb_read ho]
  | defCfaExpression ex bx hx => simp [parse, block_read hx]
  | expression r ex br bx hr hx => simp [parse, reg_read hr, block_read hx]
  | valOffset r o br bo hr ho => simp [parse, reg_read hr, uleb_read ho]
  | offsetExtendedSf r o br bo hr ho => simp [parse, reg_read hr, sleb_read ho]
  | defCfaSf r o br bo hr ho => simp [parse, reg_read hr, sleb_read ho]
  | defCfaOffsetSf o bo ho => simp [parse, sleb_read ho]
  | valOffsetSf r o br bo hr ho => simp [parse, reg_read hr, sleb_read ho]
  | valExpression r ex br bx hr hx => simp [parse, reg_read hr, block_read hx]
  | argsSize n bn hn => simp [parse, uleb_read hn]
  | negateRaState ha => simp [parse, ha]


macro "sound_of " h:ident : tactic =>
  `(tactic| first
    | exact reg_sound $h
    | exact uleb_sound $h
    | exact sleb_sound $h
    | exact fixed_sound $h
    | exact block_sound $h)

theorem parse_sound {c : DecodeCfg} {pos : Nat} {bs : Bytes} {i : Instr} {rest : Bytes}
    (hsz : c.addressEncoding ≠ none → 1 ≤ c.params.addressSize ∧ c.params.addressSize ≤ 8)
    (h : parse c pos bs = .ok (i, rest)) :
    ∃ pre, bs = pre ++ rest ∧ Encodes c pos i pre := by
  cases bs with
  | nil => simp [parse] at h
  | cons b tl =>
    simp only [parse] at h
    split at h
    · -- DW_CFA_advance_loc
      rename_i h1
      cases h
      refine ⟨[b], rfl, ?_⟩
      have hb : b = UInt8.ofNat (0x40 + b.toNat % 64) := by
        have : 0x40 + b.toNat % 64 = b.toNat := by omega
        rw [this]; simp
      rw [hb]
      have := Encodes.advanceLoc (c := c) (pos := pos) (b.toNat % 64) (by omega)
      simpa using this
    · split at h
      · -- DW_CFA_offset
        rename_i h1 h2
        obtain ⟨⟨o, r1⟩, h3, h4⟩ := bind_eq_ok h
        cases h4
        obtain ⟨pre, hp, hu⟩ := uleb_sound h3
        subst hp
        refine ⟨b :: pre, rfl, ?_⟩
        have hr : (UInt16.ofNat (b.toNat % 64)).toNat = b.toNat % 64 := by
          simp only [UInt16.toNat_ofNat']; omega
        have hb : b = UInt8.ofNat (0x80 + (UInt16.ofNat (b.toNat % 64)).toNat) := by
          rw [hr]
          have : 0x80 + b.toNat % 64 = b.toNat := by omega
          rw [this]; simp
        have := Encodes.offset (c := c) (pos := pos) (UInt16.ofNat (b.toNat % 64)) o pre
          (by rw [hr]; omega) hu
        rw [← hb] at this
        exact this
      · split at h
        · -- DW_CFA_restore
          rename_i h1 h2 h3
          cases h
          refine ⟨[b], rfl, ?_⟩
          have hr : (UInt16.ofNat (b.toNat % 64)).toNat = b.toNat % 64 := by
            simp only [UInt16.toNat_ofNat']; omega
          have hb : b = UInt8.ofNat (0xc0 + (UInt16.ofNat (b.toNat % 64)).toNat) := by
            rw [hr]
            have : 0xc0 + b.toNat % 64 = b.toNat := by
              have := b.toNat_lt; omega
            rw [this]; simp
          have := Encodes.restore (c := c) (pos := pos) (UInt16.ofNat (b.toNat % 64))
            (by rw [hr]; omega)
          rw [← hb] at this
          exact this
        · split at h
          all_goals first
            | (cases h; done)
            | (rename_i op heq
               have hb := byte_eq heq
               subst hb
               first
                | (cases h
                   exact ⟨[_], rfl, by constructor⟩)
                | (obtain ⟨⟨a, r1⟩, h1, h2⟩ := bind_eq_ok h
                   first
                    | (cases h2
                       first
                        | (obtain ⟨pre, hp, he⟩ : ∃ pre, tl = pre ++ r1 ∧ _ := by sound_of h1
                           subst hp
                           exact ⟨_ :: pre, rfl, by constructor <;> assumption⟩))
                    | (obtain ⟨⟨a2, r2⟩, h3, h4⟩ := bind_eq_ok h2
                       cases h4
                       first
                        | (obtain ⟨pre1, hp1, he1⟩ : ∃ pre, tl = pre ++ r1 ∧ _ := by sound_of h1
                           obtain ⟨pre2, hp2, he2⟩ : ∃ pre, r1 = pre ++ r2 ∧ _ := by sound_of h3
                           refine exists_cons (pre := pre1 ++ pre2) (by rw [hp1, hp2, List.append_assoc]) ?_
                           constructor <;> assumption)))
                | skip)
          · -- DW_CFA_set_loc
            split at h
            · -- under the FDE pointer encoding
              rename_i enc henc
              obtain ⟨⟨a, r1⟩, h1, h2⟩ := bind_eq_ok h
              cases h2
              obtain ⟨b', x, bx, hbx, hvalid, ho, hal, hind, hb, hop, ea⟩ :=
                setloc_ptr_sound (hsz (by rw [henc]; simp)) h1
              subst hbx; subst ea
              exact ⟨_ :: bx, rfl, Encodes.setLocEncoded enc b' x bx henc hvalid ho hal hind (hsz (by rw [henc]; simp)) hb hop⟩
            · -- plain address
              rename_i hnone
              obtain ⟨⟨a, r1⟩, h1, h2⟩ := bind_eq_ok h
              cases h2
              obtain ⟨pre, hp, hs, he⟩ := address_sound h1
              subst hp
              exact ⟨_ :: pre, rfl, Encodes.setLoc _ _ hnone hs he⟩
          · -- DW_CFA_AARCH64_negate_ra_state: only for the AArch64 vendor
            split at h
            · rename_i hv
              cases h
              exact ⟨[_], rfl, Encodes.negateRaState hv⟩
            · cases h

/-- every operand C05's Spec encoder `Frame.encodeOperand` produces is an `Operand` here (the
relation additionally covers padded LEB128 operands) -/
theorem operand_of_encodeOperand {e : Endian} {enc asz x : Nat} {bytes : Bytes}
    (h : Frame.encodeOperand e enc asz x = some bytes) : Operand e asz enc x bytes := by
  unfold Frame.encodeOperand CfiEntry.peFormat at h
  simp only at h
  split at h
  · rename_i hf
    split at h
    · rename_i hc
      cases h
      exact .absptr x _ hf hc.1 ⟨rfl, by rw [Ints.pow256]; exact hc.2⟩
    · cases h
  · split at h
    · rename_i hf
      split at h
      · rename_i hx
        cases h
        obtain ⟨h1, h2, h3, _⟩ := Leb.encodeU_spec x hx
        exact .uleb128 x _ hf ⟨h1, h3, h2, hx⟩
      · cases h
    · split at h
      · rename_i hf
        split at h
        · rename_i hx; cases h; exact .udata2 x _ hf ⟨rfl, by omega⟩
        · cases h
      · split at h
        · rename_i hf
          split at h
          · rename_i hx; cases h; exact .udata4 x _ hf ⟨rfl, by omega⟩
          · cases h
        · split at h
          · rename_i hf
            split at h
            · rename_i hx; cases h; exact .udata8 x _ hf ⟨rfl, by omega⟩
            · cases h
          · split at h
            · rename_i hf
              split at h
              · rename_i hx
                cases h
                have hlt : x % 2 ^ 16 < 256 ^ 2 := by omega
                have := Operand.sdata2 (e := e) (asz := asz) (enc := enc) (x % 2 ^ 16) _ hf ⟨rfl, hlt⟩
                rw [← sext_eq 2 _ (by simp) hlt] at this
                unfold CfiEntry.sext at hx
                rw [hx] at this
                exact this
              · cases h
            · split at h
              · rename_i hf
                split at h
                · rename_i hx
                  cases h
                  have hlt : x % 2 ^ 32 < 256 ^ 4 := by omega
                  have := Operand.sdata4 (e := e) (asz := asz) (enc := enc) (x % 2 ^ 32) _ hf ⟨rfl, hlt⟩
                  rw [← sext_eq 4 _ (by simp) hlt] at this
                  unfold CfiEntry.sext at hx
                  rw [hx] at this
                  exact this
                · cases h
              · split at h
                · rename_i hf
                  split at h
                  · rename_i hx
                    cases h
                    have hlt : x < 256 ^ 8 := by omega
                    have := Operand.sdata8 (e := e) (asz := asz) (enc := enc) x _ hf ⟨rfl, hlt⟩
                    have hse : signExtend 8 x = x := by unfold signExtend; split <;> omega
                    rw [hse] at this
                    exact this
                  · cases h
                · split at h
                  · rename_i hf
                    split at h
                    · rename_i hx
                      cases h
                      -- sleb128: the operand pattern `x` is encoded as the signed number it denotes
                      have hlo : -(2 : Int) ^ 63 ≤ Leb.toI64 x := by unfold Leb.toI64; split <;> omega
                      have hhi : Leb.toI64 x < 2 ^ 63 := by unfold Leb.toI64; split <;> omega
                      obtain ⟨h1, h2, h3, _⟩ := Leb.encodeS_spec (Leb.toI64 x) hlo hhi
                      have := Operand.sleb128 (e := e) (asz := asz) (enc := enc) (Leb.toI64 x) _ hf
                        ⟨h1, h3, h2, hlo, hhi⟩
                      have hp : pattern64 (Leb.toI64 x) = x := by
                        unfold pattern64 Leb.toI64; split <;> omega
                      rw [hp] at this
                      exact this
                    · cases h
                  · cases h

end Gimli.Spec.Cfi
