import Gimli.Lemmas.WLineHeader
import Gimli.Lemmas.LineHeaderV5
/-! Helper lemmas for C13: the version 5 header that `LineProgram::write` lays out is the §6.2.4
encoding (`Spec.Line.encodeHeaderV5`) of an abstract header built from the program's tables, so
C04's `header_roundtrip_v5` reads it back. -/
namespace Gimli.WLine
open Gimli Gimli.Line Gimli.Spec Gimli.Spec.Line

theorem toBytes_one (e : Endian) (v : Nat) : Ints.toBytes e 1 v = [UInt8.ofNat v] := by
  have : UInt8.ofNat (v % 256) = UInt8.ofNat v := by
    apply UInt8.toNat_inj.mp; simp
  cases e <;> simp [Ints.toBytes, Ints.leBytes, this]

/-! ## string tables only grow -/

theorem findIdx?_lt {α : Type} (p : α → Bool) : ∀ (t : List α) (i : Nat), findIdx? p t = some i → i < t.length := by
  intro t
  induction t with
  | nil => intro i h; simp [findIdx?] at h
  | cons x xs ih =>
    intro i h
    rw [findIdx?] at h
    split at h
    · simp at h; subst h; simp
    · cases hx : findIdx? p xs with
      | none => rw [hx] at h; simp at h
      | some j =>
        rw [hx] at h; simp at h; subst h
        have := ih j hx
        simp; omega

theorem findIdx?_append {α : Type} (p : α → Bool) : ∀ (t more : List α) (i : Nat),
    findIdx? p t = some i → findIdx? p (t ++ more) = some i := by
  intro t
  induction t with
  | nil => intro more i h; simp [findIdx?] at h
  | cons x xs ih =>
    intro more i h
    rw [List.cons_append, findIdx?]
    rw [findIdx?] at h
    split
    · rename_i hp; rw [if_pos hp] at h; exact h
    · rename_i hp; rw [if_neg hp] at h
      cases hx : findIdx? p xs with
      | none => rw [hx] at h; simp at h
      | some j => rw [hx] at h; rw [ih more j hx]; exact h

theorem offset_append : ∀ (t more : StrTab) (i : Nat), i < t.length →
    StrTab.offset (t ++ more) i = StrTab.offset t i := by
  intro t
  induction t with
  | nil => intro more i h; simp at h
  | cons s t ih =>
    intro more i h
    cases i with
    | zero => simp [StrTab.offset]
    | succ i =>
      simp only [List.cons_append, StrTab.offset]
      rw [ih more i (by simpa using h)]

theorem add_grows (t t' : StrTab) (s : Bytes) (i : Nat) (h : StrTab.add t s = .ok (t', i)) :
    ∃ more, t' = t ++ more := by
  unfold StrTab.add at h
  split at h
  · cases h
  · split at h
    · simp at h; exact ⟨[], by simp [h.1]⟩
    · simp at h; exact ⟨[s], h.1.symm⟩

/-- both tables of `b` extend those of `a` -/
def Tabs.le (a b : Tabs) : Prop :=
  (∃ m, b.lineStrings = a.lineStrings ++ m) ∧ (∃ m, b.strings = a.strings ++ m)

theorem Tabs.le_refl (a : Tabs) : Tabs.le a a := ⟨⟨[], by simp⟩, ⟨[], by simp⟩⟩

theorem Tabs.le_trans {a b c : Tabs} (h1 : Tabs.le a b) (h2 : Tabs.le b c) : Tabs.le a c := by
  obtain ⟨⟨m1, e1⟩, ⟨n1, f1⟩⟩ := h1
  obtain ⟨⟨m2, e2⟩, ⟨n2, f2⟩⟩ := h2
  exact ⟨⟨m1 ++ m2, by rw [e2, e1]; simp⟩, ⟨n1 ++ n2, by rw [f2, f1]; simp⟩⟩

/-- the string sections are smaller than 2^64 bytes (`usize` offsets) -/
def TabsSmall (t : Tabs) : Prop := ∀ i, t.strings.offset i < 2 ^ 64 ∧ t.lineStrings.offset i < 2 ^ 64

/-! ## one `LineString` -/

/-- offset of the entry with content `v` -/
def refOff (t : StrTab) (v : Bytes) : Nat := t.offset ((findIdx? (· == v) t).getD 0)

/-- the field a `LineString` is written as: the inline string, or the offset of its content in the
string table it refers to -/
def fieldOf (tabs : Tabs) (s : LineStr) : FieldV :=
  match s.form with
  | .string => .string s.val
  | .strp => .strp (refOff tabs.strings s.val)
  | .lineStrp => .lineStrp (refOff tabs.lineStrings s.val)

theorem refOff_grows (t more : StrTab) (v : Bytes) (i : Nat) (h : findIdx? (· == v) t = some i) :
    refOff (t ++ more) v = refOff t v := by
  unfold refOff
  rw [findIdx?_append _ t more i h, h]
  exact offset_append t more i (findIdx?_lt _ t i h)

theorem writeUdata_word (en : Endian) (format : Format) (v : Nat) (b : Bytes) (hv : v < 2 ^ 64)
    (h : Ints.writeUdata en v format.wordSize = .ok b) :
    b = wordBytes en format v ∧ (format = .dwarf32 → v < 2 ^ 32) := by
  have hfit := (Ints.writeUdata_ok_iff en v format.wordSize hv).mp ⟨b, h⟩
  have hbs : b = Ints.toBytes en format.wordSize v := by
    unfold Ints.writeUdata at h
    split at h
    · split at h
      · simp at h
      · simpa using h.symm
    · split at h
      · rename_i h8; rw [h8]; simpa using h.symm
      · simp at h
  cases format with
  | dwarf32 => exact ⟨hbs, fun _ => by simpa [Format.wordSize] using hfit.2⟩
  | dwarf64 => exact ⟨hbs, fun hx => by cases hx⟩

/-- `LineString::write` for version 5, read off its success: the form is the table's form and the
bytes are the §7.5.5 encoding of `fieldOf` (relative to any later state `tabsF` of the tables) -/
theorem writeStr_v5 (en : Endian) (format : Format) (m : Mode) (tabs tabsF : Tabs) (form : SForm) (s : LineStr)
    (b : Bytes) (h : writeStr en format 5 m tabs form s = .ok b) (hle : Tabs.le tabs tabsF)
    (hsm : TabsSmall tabsF) (hnul : s.form = .string → (0 : UInt8) ∉ s.val) :
    s.form = form ∧ b = (fieldOf tabsF s).encode en format ∧ (fieldOf tabsF s).Ok format ∧
    (fieldOf tabsF s).form = form.code := by
  unfold writeStr at h
  split at h
  · cases h
  rename_i hform
  have hform : form = s.form := by simpa using hform
  subst hform
  obtain ⟨⟨m1, e1⟩, ⟨m2, e2⟩⟩ := hle
  cases hf : s.form with
  | string =>
    rw [hf] at h
    simp only at h
    split at h
    · cases h
    simp only [Out.ok.injEq] at h
    refine ⟨rfl, ?_, ?_, ?_⟩
    · simp [fieldOf, hf, FieldV.encode, h]
    · simp only [fieldOf, hf, FieldV.Ok]; exact hnul hf
    · simp [fieldOf, hf, FieldV.form, SForm.code]
  | strp =>
    rw [hf] at h
    simp only [show ¬ (5 < 5) by decide, ↓reduceIte] at h
    cases hi : findIdx? (· == s.val) tabs.strings with
    | none => rw [hi] at h; cases h
    | some id =>
      rw [hi] at h
      simp only at h
      have hoff : refOff tabsF.strings s.val = tabs.strings.offset id := by
        rw [e2, refOff_grows _ _ _ _ hi]; simp [refOff, hi]
      have hlt : tabs.strings.offset id < 2 ^ 64 := by rw [← hoff]; unfold refOff; exact (hsm _).1
      obtain ⟨hb, h32⟩ := writeUdata_word en format _ b hlt h
      refine ⟨rfl, ?_, ?_, ?_⟩
      · simp [fieldOf, hf, FieldV.encode, hoff, hb]
      · simp only [fieldOf, hf, FieldV.Ok, hoff]; exact ⟨hlt, h32⟩
      · simp [fieldOf, hf, FieldV.form, SForm.code]
  | lineStrp =>
    rw [hf] at h
    simp only [show ¬ (5 < 5) by decide, ↓reduceIte] at h
    cases hi : findIdx? (· == s.val) tabs.lineStrings with
    | none => rw [hi] at h; cases h
    | some id =>
      rw [hi] at h
      simp only at h
      have hoff : refOff tabsF.lineStrings s.val = tabs.lineStrings.offset id := by
        rw [e1, refOff_grows _ _ _ _ hi]; simp [refOff, hi]
      have hlt : tabs.lineStrings.offset id < 2 ^ 64 := by rw [← hoff]; unfold refOff; exact (hsm _).2
      obtain ⟨hb, h32⟩ := writeUdata_word en format _ b hlt h
      refine ⟨rfl, ?_, ?_, ?_⟩
      · simp [fieldOf, hf, FieldV.encode, hoff, hb]
      · simp only [fieldOf, hf, FieldV.Ok, hoff]; exact ⟨hlt, h32⟩
      · simp [fieldOf, hf, FieldV.form, SForm.code]

/-- an inline string has no NUL -/
def NulFree (s : LineStr) : Prop := s.form = .string → (0 : UInt8) ∉ s.val

instance (s : LineStr) : Decidable (NulFree s) := by unfold NulFree; infer_instance

theorem writeStrs_v5 (en : Endian) (format : Format) (m : Mode) (tabs tabsF : Tabs) (form : SForm)
    (hle : Tabs.le tabs tabsF) (hsm : TabsSmall tabsF) :
    ∀ (ds : List LineStr) (b : Bytes), writeStrs en format 5 m tabs form ds = .ok b → (∀ d ∈ ds, NulFree d) →
      b = ds.flatMap (fun d => (fieldOf tabsF d).encode en format) ∧
      ∀ d ∈ ds, (fieldOf tabsF d).Ok format ∧ (fieldOf tabsF d).form = form.code := by
  intro ds
  induction ds with
  | nil => intro b h _; simp [writeStrs] at h; subst h; simp
  | cons d ds ih =>
    intro b h hn
    rw [writeStrs] at h
    cases h1 : writeStr en format 5 m tabs form d with
    | ok b1 =>
      rw [h1] at h
      simp only [Out.bind_ok] at h
      cases h2 : writeStrs en format 5 m tabs form ds with
      | ok b2 =>
        rw [h2] at h
        simp only [Out.bind_ok, Out.pure_eq, Out.ok.injEq] at h
        obtain ⟨_, e1, o1, f1⟩ := writeStr_v5 en format m tabs tabsF form d b1 h1 hle hsm (hn d (by simp))
        obtain ⟨e2, o2⟩ := ih b2 h2 (fun x hx => hn x (by simp [hx]))
        refine ⟨by rw [← h, e1, e2]; simp, ?_⟩
        intro x hx
        simp only [List.mem_cons] at hx
        rcases hx with rfl | hx
        · exact ⟨o1, f1⟩
        · exact o2 x hx
      | err e => rw [h2] at h; simp at h
      | panic w => rw [h2] at h; simp at h
      | diverge => rw [h2] at h; simp at h
    | err e => rw [h1] at h; simp at h
    | panic w => rw [h1] at h; simp at h
    | diverge => rw [h1] at h; simp at h

/-! ## the file table -/

/-- the `DW_LNCT_LLVM_source` part of version 5's `write_file` (a missing source adds the empty
string to the table of the source form) -/
def writeSrc (en : Endian) (format : Format) (version : Nat) (m : Mode) (p : Prog) (sourceForm : SForm)
    (tabs : Tabs) (f : FileEnt) : Out (Bytes × Tabs) :=
  if p.hasSource then
    match f.info.source with
    | some s => do
      let b ← writeStr en format version m tabs sourceForm s
      pure (b, tabs)
    | none =>
      match sourceForm with
      | .lineStrp => do
        let (t, _) ← tabs.lineStrings.add []
        let tabs := { tabs with lineStrings := t }
        let b ← writeStr en format version m tabs sourceForm { form := .lineStrp, val := [] }
        pure (b, tabs)
      | .strp => do
        let (t, _) ← tabs.strings.add []
        let tabs := { tabs with strings := t }
        let b ← writeStr en format version m tabs sourceForm { form := .strp, val := [] }
        pure (b, tabs)
      | .string => do
        let b ← writeStr en format version m tabs sourceForm { form := .string, val := [] }
        pure (b, tabs)
  else pure ([], tabs)

theorem writeFilesV5_cons (en : Endian) (format : Format) (version : Nat) (m : Mode) (p : Prog)
    (fileForm sourceForm : SForm) (tabs : Tabs) (f : FileEnt) (fs : List FileEnt) :
    writeFilesV5 en format version m p fileForm sourceForm tabs (f :: fs) = (do
      let name ← writeStr en format version m tabs fileForm f.name
      let (src, tabs) ← writeSrc en format version m p sourceForm tabs f
      let (bs, tabs) ← writeFilesV5 en format version m p fileForm sourceForm tabs fs
      pure (name ++ Leb.encodeU f.dir ++ (if p.hasTimestamp then Leb.encodeU f.info.timestamp else []) ++
        (if p.hasSize then Leb.encodeU f.info.size else []) ++ (if p.hasMd5 then f.info.md5 else []) ++ src ++ bs,
        tabs)) := rfl

/-- the source string of a file as written: its own, or the empty string in the table's form -/
def srcOf (sourceForm : SForm) (f : FileEnt) : LineStr :=
  f.info.source.getD { form := sourceForm, val := [] }

theorem writeSrc_v5 (en : Endian) (format : Format) (m : Mode) (p : Prog) (sourceForm : SForm)
    (tabs tabs1 tabsF : Tabs) (f : FileEnt) (src : Bytes)
    (h : writeSrc en format 5 m p sourceForm tabs f = .ok (src, tabs1)) (hsm : TabsSmall tabsF)
    (hnul : ∀ s, f.info.source = some s → NulFree s) :
    Tabs.le tabs tabs1 ∧ (Tabs.le tabs1 tabsF →
      src = (if p.hasSource then (fieldOf tabsF (srcOf sourceForm f)).encode en format else []) ∧
      (p.hasSource = true → (fieldOf tabsF (srcOf sourceForm f)).Ok format ∧
        (fieldOf tabsF (srcOf sourceForm f)).form = sourceForm.code)) := by
  unfold writeSrc at h
  by_cases hs : p.hasSource = true
  · rw [if_pos hs] at h
    cases hsrc : f.info.source with
    | some s =>
      rw [hsrc] at h
      simp only at h
      cases h1 : writeStr en format 5 m tabs sourceForm s with
      | ok b =>
        rw [h1] at h
        simp only [Out.bind_ok, Out.pure_eq, Out.ok.injEq, Prod.mk.injEq] at h
        obtain ⟨hb, ht⟩ := h
        subst ht
        refine ⟨Tabs.le_refl _, fun hle => ?_⟩
        obtain ⟨_, e1, o1, f1⟩ := writeStr_v5 en format m tabs tabsF sourceForm s b h1 hle hsm (hnul s hsrc)
        have : srcOf sourceForm f = s := by simp [srcOf, hsrc]
        rw [this, if_pos hs, ← hb]
        exact ⟨e1, fun _ => ⟨o1, f1⟩⟩
      | err e => rw [h1] at h; simp at h
      | panic w => rw [h1] at h; simp at h
      | diverge => rw [h1] at h; simp at h
    | none =>
      rw [hsrc] at h
      have hso : srcOf sourceForm f = { form := sourceForm, val := [] } := by simp [srcOf, hsrc]
      rw [hso, if_pos hs]
      cases sourceForm with
      | string =>
        simp only at h
        cases h1 : writeStr en format 5 m tabs .string { form := .string, val := [] } with
        | ok b =>
          rw [h1] at h
          simp only [Out.bind_ok, Out.pure_eq, Out.ok.injEq, Prod.mk.injEq] at h
          obtain ⟨hb, ht⟩ := h
          subst ht
          refine ⟨Tabs.le_refl _, fun hle => ?_⟩
          obtain ⟨_, e1, o1, f1⟩ := writeStr_v5 en format m tabs tabsF .string _ b h1 hle hsm (by intro _; simp)
          rw [← hb]
          exact ⟨e1, fun _ => ⟨o1, f1⟩⟩
        | err e => rw [h1] at h; simp at h
        | panic w => rw [h1] at h; simp at h
        | diverge => rw [h1] at h; simp at h
      | strp =>
        simp only at h
        cases ha : tabs.strings.add [] with
        | ok v =>
          rw [ha] at h
          simp only [Out.bind_ok] at h
          obtain ⟨more, hm⟩ := add_grows _ _ _ _ ha
          cases h1 : writeStr en format 5 m { tabs with strings := v.1 } .strp { form := .strp, val := [] } with
          | ok b =>
            rw [h1] at h
            simp only [Out.bind_ok, Out.pure_eq, Out.ok.injEq, Prod.mk.injEq] at h
            obtain ⟨hb, ht⟩ := h
            subst ht
            refine ⟨⟨⟨[], by simp⟩, ⟨more, hm⟩⟩, fun hle => ?_⟩
            obtain ⟨_, e1, o1, f1⟩ := writeStr_v5 en format m _ tabsF .strp _ b h1 hle hsm (by intro hx; cases hx)
            rw [← hb]
            exact ⟨e1, fun _ => ⟨o1, f1⟩⟩
          | err e => rw [h1] at h; simp at h
          | panic w => rw [h1] at h; simp at h
          | diverge => rw [h1] at h; simp at h
        | err e => rw [ha] at h; simp at h
        | panic w => rw [ha] at h; simp at h
        | diverge => rw [ha] at h; simp at h
      | lineStrp =>
        simp only at h
        cases ha : tabs.lineStrings.add [] with
        | ok v =>
          rw [ha] at h
          simp only [Out.bind_ok] at h
          obtain ⟨more, hm⟩ := add_grows _ _ _ _ ha
          cases h1 : writeStr en format 5 m { tabs with lineStrings := v.1 } .lineStrp { form := .lineStrp, val := [] } with
          | ok b =>
            rw [h1] at h
            simp only [Out.bind_ok, Out.pure_eq, Out.ok.injEq, Prod.mk.injEq] at h
            obtain ⟨hb, ht⟩ := h
            subst ht
            refine ⟨⟨⟨more, hm⟩, ⟨[], by simp⟩⟩, fun hle => ?_⟩
            obtain ⟨_, e1, o1, f1⟩ := writeStr_v5 en format m _ tabsF .lineStrp _ b h1 hle hsm (by intro hx; cases hx)
            rw [← hb]
            exact ⟨e1, fun _ => ⟨o1, f1⟩⟩
          | err e => rw [h1] at h; simp at h
          | panic w => rw [h1] at h; simp at h
          | diverge => rw [h1] at h; simp at h
        | err e => rw [ha] at h; simp at h
        | panic w => rw [ha] at h; simp at h
        | diverge => rw [ha] at h; simp at h
  · rw [if_neg hs] at h
    simp only [Out.pure_eq, Out.ok.injEq, Prod.mk.injEq] at h
    obtain ⟨hb, ht⟩ := h
    subst ht
    refine ⟨Tabs.le_refl _, fun _ => ⟨by rw [if_neg hs, hb], fun hx => absurd hx hs⟩⟩

/-- the fields of one `file_names` entry, in the order of `fileFormatOf` -/
def fileFields (p : Prog) (tabs : Tabs) (sourceForm : SForm) (f : FileEnt) : List FieldV :=
  [fieldOf tabs f.name, .udata f.dir] ++ (if p.hasTimestamp then [.udata f.info.timestamp] else []) ++
  (if p.hasSize then [.udata f.info.size] else []) ++ (if p.hasMd5 then [.data16 f.info.md5] else []) ++
  (if p.hasSource then [fieldOf tabs (srcOf sourceForm f)] else [])

/-- `file_name_entry_format` as `LineProgram::write` emits it -/
def fileFormatOf (p : Prog) (fileForm sourceForm : SForm) : List EntryFormat :=
  [(1, fileForm.code), (2, 0x0f)] ++ (if p.hasTimestamp then [(3, 0x0f)] else []) ++
  (if p.hasSize then [(4, 0x0f)] else []) ++ (if p.hasMd5 then [(5, 0x1e)] else []) ++
  (if p.hasSource then [(0x2001, sourceForm.code)] else [])

/-- what the file entries must satisfy to be read back: inline strings without NUL, `u64` fields,
a 16-byte MD5 (`[u8; 16]` in the code) -/
def FileOk5 (f : FileEnt) : Prop :=
  NulFree f.name ∧ FileFits f ∧ f.info.md5.length = 16 ∧ NulFree (srcOf .string f)

instance (f : FileEnt) : Decidable (FileOk5 f) := by unfold FileOk5 FileFits; infer_instance

theorem writeFilesV5_v5 (en : Endian) (format : Format) (m : Mode) (p : Prog) (fileForm sourceForm : SForm)
    (tabsF : Tabs) (hsm : TabsSmall tabsF) :
    ∀ (fs : List FileEnt) (tabs tabs' : Tabs) (b : Bytes),
      writeFilesV5 en format 5 m p fileForm sourceForm tabs fs = .ok (b, tabs') →
      Tabs.le tabs' tabsF → (∀ f ∈ fs, FileOk5 f) →
      Tabs.le tabs tabs' ∧
      b = fs.flatMap (fun f => encodeEntry en format (fileFields p tabsF sourceForm f)) ∧
      ∀ f ∈ fs, Conforms format (fileFormatOf p fileForm sourceForm) (fileFields p tabsF sourceForm f) := by
  intro fs
  induction fs with
  | nil =>
    intro tabs tabs' b h _ _
    simp only [writeFilesV5, Out.ok.injEq, Prod.mk.injEq] at h
    obtain ⟨hb, ht⟩ := h
    subst ht; subst hb
    exact ⟨Tabs.le_refl _, by simp, by simp⟩
  | cons f fs ih =>
    intro tabs tabs' b h hle hok
    rw [writeFilesV5_cons] at h
    cases h1 : writeStr en format 5 m tabs fileForm f.name with
    | ok name =>
      rw [h1] at h
      simp only [Out.bind_ok] at h
      cases h2 : writeSrc en format 5 m p sourceForm tabs f with
      | ok v2 =>
        rw [h2] at h
        simp only [Out.bind_ok] at h
        cases h3 : writeFilesV5 en format 5 m p fileForm sourceForm v2.2 fs with
        | ok v3 =>
          rw [h3] at h
          simp only [Out.bind_ok, Out.pure_eq, Out.ok.injEq, Prod.mk.injEq] at h
          obtain ⟨hb, ht⟩ := h
          subst ht
          obtain ⟨hokN, hfit, hmd5, hokS0⟩ := hok f (by simp)
          have hokS : ∀ s, f.info.source = some s → NulFree s := fun s hs => by
            simpa [srcOf, hs] using hokS0
          obtain ⟨le3, e3, c3⟩ := ih v2.2 v3.2 v3.1 h3 hle (fun x hx => hok x (by simp [hx]))
          obtain ⟨le2, hsrc⟩ := writeSrc_v5 en format m p sourceForm tabs v2.2 tabsF f v2.1 h2 hsm hokS
          obtain ⟨esrc, osrc⟩ := hsrc (Tabs.le_trans le3 hle)
          have leF : Tabs.le tabs tabsF := Tabs.le_trans le2 (Tabs.le_trans le3 hle)
          obtain ⟨_, e1, o1, f1⟩ := writeStr_v5 en format m tabs tabsF fileForm f.name name h1 leF hsm hokN
          have hconf : Conforms format (fileFormatOf p fileForm sourceForm) (fileFields p tabsF sourceForm f) := by
            obtain ⟨q1, q2, q3⟩ := hfit
            unfold Conforms fileFields fileFormatOf
            constructor
            · have fu : ∀ v, (FieldV.udata v).form = 0x0f := fun _ => rfl
              have fd : ∀ b, (FieldV.data16 b).form = 0x1e := fun _ => rfl
              by_cases hs : p.hasSource = true
              · have os2 := (osrc hs).2
                cases p.hasTimestamp <;> cases p.hasSize <;> cases p.hasMd5 <;> simp [hs, f1, fu, fd, os2]
              · cases p.hasTimestamp <;> cases p.hasSize <;> cases p.hasMd5 <;> simp [hs, f1, fu, fd]
            · intro x hx
              simp only [List.mem_append, List.mem_cons, List.mem_ite_nil_right, List.not_mem_nil, or_false,
                List.mem_singleton] at hx
              rcases hx with (((( rfl | rfl) | ⟨_, rfl⟩) | ⟨_, rfl⟩) | ⟨_, rfl⟩) | ⟨hs, rfl⟩
              · exact o1
              · exact q1
              · exact q2
              · exact q3
              · exact hmd5
              · exact (osrc hs).1
          refine ⟨Tabs.le_trans le2 le3, ?_, ?_⟩
          · rw [← hb, e1, esrc, e3]
            simp only [List.flatMap_cons, encodeEntry, fileFields]
            cases p.hasTimestamp <;> cases p.hasSize <;> cases p.hasMd5 <;> cases p.hasSource <;>
              simp [FieldV.encode]
          · intro x hx
            simp only [List.mem_cons] at hx
            rcases hx with rfl | hx
            · exact hconf
            · exact c3 x hx
        | err e => rw [h3] at h; simp at h
        | panic w => rw [h3] at h; simp at h
        | diverge => rw [h3] at h; simp at h
      | err e => rw [h2] at h; simp at h
      | panic w => rw [h2] at h; simp at h
      | diverge => rw [h2] at h; simp at h
    | err e => rw [h1] at h; simp at h
    | panic w => rw [h1] at h; simp at h
    | diverge => rw [h1] at h; simp at h

/-! ## the whole unit -/

/-- what a reader accepts: byte-sized, non-zero parameters (version 5) -/
def EncReadable5 (e : Enc) : Prop :=
  e.version = 5 ∧ 1 ≤ e.minInstLen ∧ e.minInstLen ≤ 255 ∧ 1 ≤ e.maxOps ∧ e.maxOps ≤ 255 ∧
  -128 ≤ e.lineBase ∧ e.lineBase ≤ 127 ∧ 1 ≤ e.lineRange ∧ e.lineRange ≤ 255

instance (e : Enc) : Decidable (EncReadable5 e) := by unfold EncReadable5; infer_instance

/-- the form of the directory table: that of its first entry -/
def dirFormOf (p : Prog) : SForm := (p.dirs.head?.map (·.form)).getD .string
/-- the form of the file names: that of the first file -/
def fileFormOf (p : Prog) : SForm := (p.files.head?.map (·.name.form)).getD .string

/-- the abstract version 5 header (§6.2.4, `Spec.Line.HeaderV5`) that `LineProgram::write` emits:
one-field directory entries; file entries `path, directory_index[, timestamp][, size][, MD5][, source]` -/
def headerV5Of (en : Endian) (p : Prog) (tabsF : Tabs) (prog : Bytes) : HeaderV5 :=
  { p := paramsOf en p.format p.addrSize p.enc,
    dirFormat := [(1, (dirFormOf p).code)],
    dirs := p.dirs.map (fun d => [fieldOf tabsF d]),
    fileFormat := fileFormatOf p (fileFormOf p) (firstSourceForm p.files),
    files := p.files.map (fileFields p tabsF (firstSourceForm p.files)),
    program := prog }

theorem SForm.code_lt (s : SForm) : s.code < 128 := by cases s <;> decide

theorem lineBase_byte (lb : Int) (h1 : -128 ≤ lb) (h2 : lb ≤ 127) :
    UInt8.ofNat (lb % 256).toNat = UInt8.ofNat (Leb.ofI64 lb % 256) := by
  have : (lb % 256).toNat = Leb.ofI64 lb % 256 := by
    unfold Leb.ofI64
    omega
  rw [this]

/-- the parameter block: §6.2.4 bytes = what `write` pushes -/
theorem fixed_eq (en : Endian) (e : Enc) (h1 : -128 ≤ e.lineBase) (h2 : e.lineBase ≤ 127) :
    Ints.toBytes en 1 e.minInstLen ++ Ints.toBytes en 1 e.maxOps ++
      Ints.toBytes en 1 (if e.defaultIsStmt then 1 else 0) ++ Ints.toBytes en 1 (e.lineBase % 256).toNat ++
      Ints.toBytes en 1 e.lineRange ++ Ints.toBytes en 1 13 ++ stdLens =
    ([UInt8.ofNat e.minInstLen] ++ [UInt8.ofNat e.maxOps]) ++
      [UInt8.ofNat (b2n e.defaultIsStmt), UInt8.ofNat (Leb.ofI64 e.lineBase % 256),
        UInt8.ofNat e.lineRange, UInt8.ofNat opcodeBase] ++ stdLens := by
  simp only [toBytes_one, lineBase_byte e.lineBase h1 h2]
  cases e.defaultIsStmt <;> simp [b2n, opcodeBase]

/-- `file_name_entry_format` as `write` pushes it -/
def fileHeadV5 (p : Prog) (ff sf : SForm) : Bytes :=
  ((([UInt8.ofNat (2 + b2n p.hasTimestamp + b2n p.hasSize + b2n p.hasMd5 + b2n p.hasSource)] ++
    Leb.encodeU 1 ++ Leb.encodeU ff.code ++ Leb.encodeU 2 ++ Leb.encodeU 15 ++
    if p.hasTimestamp = true then Leb.encodeU 3 ++ Leb.encodeU 15 else []) ++
    if p.hasSize = true then Leb.encodeU 4 ++ Leb.encodeU 15 else []) ++
    if p.hasMd5 = true then Leb.encodeU 5 ++ Leb.encodeU 30 else []) ++
    if p.hasSource = true then Leb.encodeU 8193 ++ Leb.encodeU sf.code else []

theorem fileHead_eq (p : Prog) (ff sf : SForm) : encodeFormat (fileFormatOf p ff sf) = fileHeadV5 p ff sf := by
  unfold encodeFormat fileFormatOf fileHeadV5
  cases p.hasTimestamp <;> cases p.hasSize <;> cases p.hasMd5 <;> cases p.hasSource <;>
    simp [toBytes_one, b2n]

theorem formatOk_dir (c : SForm) : FormatOk [(1, c.code)] := by
  cases c <;> decide

theorem formatOk_file (p : Prog) (ff sf : SForm) : FormatOk (fileFormatOf p ff sf) := by
  have h1 := SForm.code_lt ff
  have h2 := SForm.code_lt sf
  unfold FormatOk fileFormatOf
  cases p.hasTimestamp <;> cases p.hasSize <;> cases p.hasMd5 <;> cases p.hasSource <;>
    simp <;> omega

/-- the parameter block as `write` pushes it (version ≥ 4) -/
def fixedV5 (e : Enc) : Bytes :=
  ([UInt8.ofNat e.minInstLen] ++ [UInt8.ofNat e.maxOps]) ++
    [UInt8.ofNat (b2n e.defaultIsStmt), UInt8.ofNat (Leb.ofI64 e.lineBase % 256),
      UInt8.ofNat e.lineRange, UInt8.ofNat opcodeBase] ++ stdLens

/-- the two tables as `write` pushes them, `ds` / `fs` being the entries -/
def tablesV5 (p : Prog) (dform fform sform : SForm) (nd nf : Nat) (ds fs : Bytes) : Bytes :=
  [1] ++ Leb.encodeU 1 ++ Leb.encodeU dform.code ++ Leb.encodeU nd ++ ds ++
    (fileHeadV5 p fform sform ++ Leb.encodeU nf) ++ fs

theorem encodeFieldsV5_of (en : Endian) (p : Prog) (T : Tabs) (prog : Bytes)
    (h1 : -128 ≤ p.enc.lineBase) (h2 : p.enc.lineBase ≤ 127) :
    encodeFieldsV5 (headerV5Of en p T prog) =
      fixedV5 p.enc ++ tablesV5 p (dirFormOf p) (fileFormOf p) (firstSourceForm p.files) p.dirs.length p.files.length
        (p.dirs.flatMap (fun d => (fieldOf T d).encode en p.format))
        (p.files.flatMap (fun f => encodeEntry en p.format (fileFields p T (firstSourceForm p.files) f))) := by
  have hdt : encodeFormat [(1, (dirFormOf p).code)] = [1] ++ Leb.encodeU 1 ++ Leb.encodeU (dirFormOf p).code := by
    simp [encodeFormat, toBytes_one]
  have hdir : encodeTable en p.format (p.dirs.map (fun d => [fieldOf T d])) =
      Leb.encodeU p.dirs.length ++ p.dirs.flatMap (fun d => (fieldOf T d).encode en p.format) := by
    simp [encodeTable, encodeEntry, List.flatMap_map]
  have hfile : encodeTable en p.format (p.files.map (fileFields p T (firstSourceForm p.files))) =
      Leb.encodeU p.files.length ++
      p.files.flatMap (fun f => encodeEntry en p.format (fileFields p T (firstSourceForm p.files) f)) := by
    unfold encodeTable
    rw [List.length_map, List.flatMap_map]
  unfold encodeFieldsV5 fixedV5 tablesV5
  simp only [headerV5Of, paramsOf, toBytes_one, lineBase_byte _ h1 h2, hdt, hdir, fileHead_eq, hfile,
    List.append_assoc, b2n, opcodeBase]
  rfl

theorem write_v5_layout (en : Endian) (m : Mode) (p : Prog) (uver uasz : Nat) (tabs tabs' : Tabs) (bytes : Bytes)
    (he : EncReadable5 p.enc) (hasz : p.addrSize = 1 ∨ p.addrSize = 2 ∨ p.addrSize = 4 ∨ p.addrSize = 8)
    (hds : ∀ d ∈ p.dirs, NulFree d) (hfs : ∀ f ∈ p.files, FileOk5 f) (hsm : TabsSmall tabs')
    (hcount : p.dirs.length < 2 ^ 64 ∧ p.files.length < 2 ^ 64) (hsmall : bytes.length < 2 ^ 64)
    (hw : p.write en m uver uasz tabs = .ok (bytes, tabs')) :
    ∃ prog, writeInstrs en 5 p.addrSize p.instrs = .ok prog ∧
      encodeHeaderV5 (headerV5Of en p tabs' prog) = .ok bytes ∧ (headerV5Of en p tabs' prog).WF ∧
      Tabs.le tabs tabs' := by
  obtain ⟨hv, hm1, hm2, ho1, ho2, hb1, hb2, hr1, hr2⟩ := he
  unfold Prog.write at hw
  simp only [hv] at hw
  split at hw
  · cases hw
  split at hw
  · cases hw
  split at hw
  · cases hw
  simp only [show ¬ (5 ≤ 4) by decide, ↓reduceIte, show (5 ≥ 5) by decide] at hw
  cases hd : p.dirs with
  | nil => simp [hd] at hw
  | cons d0 dtl =>
    cases hf : p.files with
    | nil =>
      simp only [hd, hf] at hw
      cases h1 : writeStrs en p.format 5 m tabs d0.form (d0 :: dtl) <;> simp [h1] at hw
    | cons f0 ftl =>
      simp only [hd, hf] at hw
      cases h1 : writeStrs en p.format 5 m tabs d0.form (d0 :: dtl) with
      | err e => simp [h1] at hw
      | panic w => simp [h1] at hw
      | diverge => simp [h1] at hw
      | ok ds =>
        cases h2 : writeFilesV5 en p.format 5 m p f0.name.form (firstSourceForm (f0 :: ftl)) tabs (f0 :: ftl) with
        | err e => simp [h1, h2] at hw
        | panic w => simp [h1, h2] at hw
        | diverge => simp [h1, h2] at hw
        | ok v2 =>
          rw [h1] at hw
          simp only [Out.bind_ok] at hw
          rw [h2] at hw
          simp only [Out.bind_ok, Out.pure_eq] at hw
          have hw' : (do
              let hl ← Ints.writeUdata en (fixedV5 p.enc ++ tablesV5 p d0.form f0.name.form
                (firstSourceForm (f0 :: ftl)) (d0 :: dtl).length (f0 :: ftl).length ds v2.1).length p.format.wordSize
              let prog ← writeInstrs en 5 p.addrSize p.instrs
              let il ← Ints.writeInitialLength en p.format (Ints.toBytes en 2 5 ++ [UInt8.ofNat p.addrSize, 0] ++ hl ++
                (fixedV5 p.enc ++ tablesV5 p d0.form f0.name.form
                  (firstSourceForm (f0 :: ftl)) (d0 :: dtl).length (f0 :: ftl).length ds v2.1) ++ prog).length
              Out.ok (il ++ (Ints.toBytes en 2 5 ++ [UInt8.ofNat p.addrSize, 0] ++ hl ++
                (fixedV5 p.enc ++ tablesV5 p d0.form f0.name.form
                  (firstSourceForm (f0 :: ftl)) (d0 :: dtl).length (f0 :: ftl).length ds v2.1) ++ prog), v2.2)) =
              Out.ok (bytes, tabs') := hw
          clear hw
          obtain ⟨hl, h3, hw⟩ := (bind_eq_ok _ _ _).mp hw'
          obtain ⟨prog, h4, hw⟩ := (bind_eq_ok _ _ _).mp hw
          obtain ⟨il, h5, hw⟩ := (bind_eq_ok _ _ _).mp hw
          simp only [Out.ok.injEq, Prod.mk.injEq] at hw
          obtain ⟨hbytes, htabs⟩ := hw
          subst htabs
          -- the tables
          obtain ⟨le2, efs, cfs⟩ := writeFilesV5_v5 en p.format m p f0.name.form (firstSourceForm (f0 :: ftl)) v2.2 hsm
            (f0 :: ftl) tabs v2.2 v2.1 h2 (Tabs.le_refl _) (by rw [← hf]; exact hfs)
          obtain ⟨eds, ods⟩ := writeStrs_v5 en p.format m tabs v2.2 d0.form le2 hsm (d0 :: dtl) ds h1
            (by rw [← hd]; exact hds)
          have hdf : dirFormOf p = d0.form := by simp [dirFormOf, hd]
          have hff : fileFormOf p = f0.name.form := by simp [fileFormOf, hf]
          have hfields := encodeFieldsV5_of en p v2.2 prog hb1 hb2
          rw [hdf, hff, hd, hf, ← eds, ← efs] at hfields
          generalize hFT : fixedV5 p.enc ++ tablesV5 p d0.form f0.name.form (firstSourceForm (f0 :: ftl))
            (d0 :: dtl).length (f0 :: ftl).length ds v2.1 = FT at h3 h5 hbytes hfields
          have hFTlen : FT.length < 2 ^ 64 := by
            rw [← hbytes] at hsmall; simp only [List.length_append] at hsmall; omega
          obtain ⟨hhl, h32⟩ := writeUdata_word en p.format FT.length hl hFTlen h3
          have hbody : encodeBodyV5 (headerV5Of en p v2.2 prog) =
              Ints.toBytes en 2 5 ++ [UInt8.ofNat p.addrSize, 0] ++ hl ++ FT ++ prog := by
            unfold encodeBodyV5
            rw [hfields, hhl]
            simp [headerV5Of, paramsOf, toBytes_one, hv]
          refine ⟨prog, h4, ?_, ?_, le2⟩
          · unfold encodeHeaderV5
            rw [hbody]
            show (do let il ← Ints.writeInitialLength en p.format
                      (Ints.toBytes en 2 5 ++ [UInt8.ofNat p.addrSize, 0] ++ hl ++ FT ++ prog).length
                     pure (il ++ (Ints.toBytes en 2 5 ++ [UInt8.ofNat p.addrSize, 0] ++ hl ++ FT ++ prog))) = _
            rw [h5]
            simp only [Out.bind_ok, Out.pure_eq, Out.ok.injEq]
            exact hbytes
          · refine ⟨?_, hv, formatOk_dir _, formatOk_file _ _ _, ?_, ?_, ?_, ?_, ?_, ?_⟩
            · exact ⟨by show 2 ≤ p.enc.version; omega, by show p.enc.version ≤ 5; omega, hasz, hm1, hm2, ho1, ho2,
                hb1, hb2, hr1, hr2, by show 1 ≤ 13; omega, by show 13 ≤ 255; omega, rfl, fun h => by
                  have : p.enc.version ≤ 3 := h
                  omega⟩
            · intro d hdm
              simp only [headerV5Of, List.mem_map] at hdm
              obtain ⟨x, hx, rfl⟩ := hdm
              rw [hd] at hx
              obtain ⟨o1, f1⟩ := ods x hx
              refine ⟨by simp [headerV5Of, f1, hdf], ?_⟩
              intro y hy
              simp only [List.mem_singleton] at hy
              subst hy
              exact o1
            · intro f hfm
              simp only [headerV5Of, List.mem_map] at hfm
              obtain ⟨x, hx, rfl⟩ := hfm
              rw [hf] at hx
              have := cfs x hx
              show Conforms p.format (fileFormatOf p (fileFormOf p) (firstSourceForm p.files))
                (fileFields p v2.2 (firstSourceForm p.files) x)
              rw [hff, hf]
              exact this
            · show (p.dirs.map _).length < _; rw [List.length_map]; exact hcount.1
            · show (p.files.map _).length < _; rw [List.length_map]; exact hcount.2
            · rw [hbody]
              rw [← hbytes] at hsmall; simp only [List.length_append] at hsmall ⊢; omega
            · intro h32'
              rw [hfields]
              exact h32 h32'

/-! ## what the reader reports for it -/

/-- the attribute value a reader gets for a written `LineString` -/
def attrOf (tabs : Tabs) (s : LineStr) : AttrVal :=
  match s.form with
  | .string => .string s.val
  | .strp => .strp (refOff tabs.strings s.val)
  | .lineStrp => .lineStrp (refOff tabs.lineStrings s.val)

theorem fieldOf_value (tabs : Tabs) (s : LineStr) : (fieldOf tabs s).value = attrOf tabs s := by
  unfold fieldOf attrOf
  cases s.form <;> rfl

/-- the `FileEntry` a reader gets for a written version 5 file entry: fields that the table does
not announce keep the reader's defaults -/
def FileEnt.toEntry5 (p : Prog) (tabs : Tabs) (sf : SForm) (f : FileEnt) : FileEntry :=
  { path := attrOf tabs f.name, dirIndex := f.dir,
    timestamp := if p.hasTimestamp then f.info.timestamp else 0,
    size := if p.hasSize then f.info.size else 0,
    md5 := if p.hasMd5 then f.info.md5 else List.replicate 16 0,
    source := if p.hasSource then some (attrOf tabs (srcOf sf f)) else none }

theorem fileOf5_written (p : Prog) (tabs : Tabs) (ff sf : SForm) (f : FileEnt) (hmd5 : f.info.md5.length = 16) :
    fileOf5 (fileFormatOf p ff sf) (fileFields p tabs sf f) = f.toEntry5 p tabs sf := by
  have vu : ∀ v, (FieldV.udata v).value = .udata v := fun _ => rfl
  have vd : ∀ b, (FieldV.data16 b).value = .block b := fun _ => rfl
  unfold fileOf5 fileFormatOf fileFields FileEnt.toEntry5
  cases p.hasTimestamp <;> cases p.hasSize <;> cases p.hasMd5 <;> cases p.hasSource <;>
    simp [fileAccOf, FileAcc.update, vu, vd, AttrVal.udataValue, hmd5, fieldOf_value]

/-- the header C04's reader returns for the abstract header of a written program -/
theorem headerV5Of_expected (en : Endian) (p : Prog) (T : Tabs) (prog : Bytes)
    (hmd5 : ∀ f ∈ p.files, f.info.md5.length = 16) :
    (headerV5Of en p T prog).expected =
      { p := paramsOf en p.format p.addrSize p.enc,
        unitLength := (encodeBodyV5 (headerV5Of en p T prog)).length,
        headerLength := (encodeFieldsV5 (headerV5Of en p T prog)).length,
        dirFormat := [(1, (dirFormOf p).code)], dirs := p.dirs.map (attrOf T),
        fileFormat := fileFormatOf p (fileFormOf p) (firstSourceForm p.files),
        files := p.files.map (FileEnt.toEntry5 p T (firstSourceForm p.files)),
        program := prog, compDir := none, compFile := none } := by
  unfold HeaderV5.expected
  have h1 : (headerV5Of en p T prog).dirs.map
      (fun d => (dirOf (headerV5Of en p T prog).dirFormat d none).getD (.string [])) = p.dirs.map (attrOf T) := by
    simp [headerV5Of, dirOf, fieldOf_value]
  have h2 : (headerV5Of en p T prog).files.map (fileOf5 (headerV5Of en p T prog).fileFormat) =
      p.files.map (FileEnt.toEntry5 p T (firstSourceForm p.files)) := by
    simp only [headerV5Of, List.map_map]
    apply List.map_congr_left
    intro f hf
    exact fileOf5_written p T _ _ f (hmd5 f hf)
  rw [h1, h2]
  rfl

/-- **a reference resolves to its string**: in the written table (`StringTable::write`:
NUL-terminated entries in insertion order) the C string at `refOff t v` is `v`, for every entry `v`
of a table whose entries have no NUL (`StringTable::add` asserts it) -/
theorem refOff_resolves : ∀ (t : StrTab) (v : Bytes), (findIdx? (· == v) t).isSome →
    (∀ s ∈ t, ∀ b ∈ s, b ≠ (0 : UInt8)) →
    ∃ rest, readCStr ((StrTab.bytes t).drop (refOff t v)) = .ok (v, rest) := by
  intro t
  induction t with
  | nil => intro v h; simp [findIdx?] at h
  | cons s t ih =>
    intro v h hn
    unfold refOff
    rw [findIdx?] at h ⊢
    by_cases hs : (s == v) = true
    · have : s = v := by simpa using hs
      subst this
      simp only [hs, ↓reduceIte, Option.getD_some, StrTab.offset, List.drop_zero, StrTab.bytes]
      exact ⟨_, readCStr_append s (hn s (by simp)) _⟩
    · simp only [hs, Bool.false_eq_true, ↓reduceIte] at h ⊢
      cases hj : findIdx? (· == v) t with
      | none => rw [hj] at h; simp at h
      | some j =>
        simp only [Option.map_some, Option.getD_some, StrTab.offset, StrTab.bytes]
        obtain ⟨rest, hr⟩ := ih v (by rw [hj]; rfl) (fun x hx => hn x (by simp [hx]))
        unfold refOff at hr
        rw [hj] at hr
        simp only [Option.getD_some] at hr
        refine ⟨rest, ?_⟩
        have : List.drop (s.length + 1 + StrTab.offset t j) (s ++ 0 :: StrTab.bytes t) =
            List.drop (StrTab.offset t j) (StrTab.bytes t) := by
          rw [show s.length + 1 + StrTab.offset t j = s.length + (1 + StrTab.offset t j) by omega,
            ← List.drop_drop]
          simp only [List.drop_left]
          rw [Nat.add_comm]
          rfl
        rw [this]
        exact hr

end Gimli.WLine
