import Gimli.Lemmas.Capacity
/-! # C07 `stack_capacity`: the fixed value stack never holds more than its capacity -/
open Gimli Gimli.Op Gimli.Eval
set_option linter.unusedVariables false
namespace Gimli.Eval

/-- the fixed stack never holds more than its capacity -/
def StackOk (c : Config) (m : Mach) : Prop := ∀ n, c.caps.stack = some n → m.stack.length ≤ n

theorem push_stackOk (c : Config) (v : Value) (m m' : Mach) (h : push c v m = .ok m') : StackOk c m' := by
  unfold push hasRoom at h
  intro n hn
  rw [hn] at h
  simp only [] at h
  split at h
  · next hlt => cases h; simp at hlt ⊢; omega
  · cases h

theorem pop_stackOk (c : Config) (m m' : Mach) (v : Value) (h : pop m = .ok (v, m')) (h0 : StackOk c m) :
    StackOk c m' := by
  unfold pop at h
  split at h
  · cases h
  · next hs => cases h; intro n hn; have := h0 n hn; rw [hs] at this; simp at this ⊢; omega

theorem pushPiece_stackOk (c : Config) (p : Piece) (m m' : Mach) (h : pushPiece c p m = .ok m') (h0 : StackOk c m) :
    StackOk c m' := by
  unfold pushPiece at h
  split at h
  · cases h; exact h0
  · cases h

theorem binop_stackOk (c : Config) (f) (m : Mach) (r : OpResult) (m' : Mach) (h : binop c f m = .ok (r, m')) :
    StackOk c m' := by
  unfold binop at h
  obtain ⟨⟨_, m1⟩, _, h⟩ := bind_eq_ok h
  obtain ⟨⟨_, m2⟩, _, h⟩ := bind_eq_ok h
  obtain ⟨_, _, h⟩ := bind_eq_ok h
  obtain ⟨m3, hp, h⟩ := bind_eq_ok h
  cases h
  exact push_stackOk _ _ _ _ hp

theorem unop_stackOk (c : Config) (f) (m : Mach) (r : OpResult) (m' : Mach) (h : unop c f m = .ok (r, m')) :
    StackOk c m' := by
  unfold unop at h
  obtain ⟨⟨_, m1⟩, _, h⟩ := bind_eq_ok h
  obtain ⟨_, _, h⟩ := bind_eq_ok h
  obtain ⟨m3, hp, h⟩ := bind_eq_ok h
  cases h
  exact push_stackOk _ _ _ _ hp

theorem execute_stackOk (c : Config) (op : Operation) (m : Mach) (r : OpResult) (m' : Mach)
    (h0 : StackOk c m) (h : execute c op m = .ok (r, m')) : StackOk c m' := by
  cases op <;> simp only [execute] at h
  all_goals first
    | exact binop_stackOk _ _ _ _ _ h
    | exact unop_stackOk _ _ _ _ _ h
    | (cases h; exact h0)
    | skip
  case variableValue => cases h
  case uninitialized => cases h
  case unsignedConstant v =>
    obtain ⟨m1, hp, h⟩ := bind_eq_ok h; cases h; exact push_stackOk _ _ _ _ hp
  case signedConstant v =>
    obtain ⟨m1, hp, h⟩ := bind_eq_ok h; cases h; exact push_stackOk _ _ _ _ hp
  case pushObjectAddress =>
    split at h
    · obtain ⟨m1, hp, h⟩ := bind_eq_ok h; cases h; exact push_stackOk _ _ _ _ hp
    · cases h
  case pick i =>
    split at h
    · cases h
    · obtain ⟨m1, hp, h⟩ := bind_eq_ok h; cases h; exact push_stackOk _ _ _ _ hp
  case drop =>
    obtain ⟨⟨v, m1⟩, hp, h⟩ := bind_eq_ok h; cases h; exact pop_stackOk _ _ _ _ hp h0
  case stackValue =>
    obtain ⟨⟨v, m1⟩, hp, h⟩ := bind_eq_ok h; cases h; exact pop_stackOk _ _ _ _ hp h0
  case tls =>
    obtain ⟨⟨v, m1⟩, hp, h⟩ := bind_eq_ok h
    obtain ⟨n, _, h⟩ := bind_eq_ok h
    cases h; exact pop_stackOk _ _ _ _ hp h0
  case skip t =>
    obtain ⟨pc, _, h⟩ := bind_eq_ok h; cases h; exact h0
  case bra t =>
    obtain ⟨⟨v, m1⟩, hp, h⟩ := bind_eq_ok h
    have h1 := pop_stackOk _ _ _ _ hp h0
    obtain ⟨n, _, h⟩ := bind_eq_ok h
    simp only [] at h
    split at h
    · obtain ⟨pc, _, h⟩ := bind_eq_ok h; cases h; exact h1
    · cases h; exact h1
  case swap =>
    obtain ⟨⟨_, m1⟩, _, h⟩ := bind_eq_ok h
    obtain ⟨⟨_, m2⟩, _, h⟩ := bind_eq_ok h
    obtain ⟨m3, _, h⟩ := bind_eq_ok h
    obtain ⟨m4, hp, h⟩ := bind_eq_ok h
    cases h; exact push_stackOk _ _ _ _ hp
  case rot =>
    obtain ⟨⟨_, m1⟩, _, h⟩ := bind_eq_ok h
    obtain ⟨⟨_, m2⟩, _, h⟩ := bind_eq_ok h
    obtain ⟨⟨_, m3⟩, _, h⟩ := bind_eq_ok h
    obtain ⟨m4, _, h⟩ := bind_eq_ok h
    obtain ⟨m5, _, h⟩ := bind_eq_ok h
    obtain ⟨m6, hp, h⟩ := bind_eq_ok h
    cases h; exact push_stackOk _ _ _ _ hp
  case plusConstant v =>
    obtain ⟨⟨_, m1⟩, _, h⟩ := bind_eq_ok h
    obtain ⟨_, _, h⟩ := bind_eq_ok h
    obtain ⟨_, _, h⟩ := bind_eq_ok h
    obtain ⟨m3, hp, h⟩ := bind_eq_ok h
    cases h; exact push_stackOk _ _ _ _ hp
  case deref bt size space =>
    split at h
    · cases h
    · obtain ⟨⟨v, m1⟩, hp, h⟩ := bind_eq_ok h
      have h1 := pop_stackOk _ _ _ _ hp h0
      obtain ⟨n, _, h⟩ := bind_eq_ok h
      simp only [] at h
      split at h
      · obtain ⟨⟨v2, m2⟩, hp2, h⟩ := bind_eq_ok h
        obtain ⟨n2, _, h⟩ := bind_eq_ok h
        cases h; exact pop_stackOk _ _ _ _ hp2 h1
      · cases h; exact h1
  case piece size off =>
    split at h
    · simp only [Out.pure_eq, Out.bind_ok] at h
      obtain ⟨m2, hpp, h⟩ := bind_eq_ok h
      cases h
      exact pushPiece_stackOk _ _ _ _ hpp h0
    · obtain ⟨⟨v, m3⟩, hp, h⟩ := bind_eq_ok h
      obtain ⟨n, _, h⟩ := bind_eq_ok h
      simp only [Out.pure_eq, Out.bind_ok] at h
      obtain ⟨m2, hpp, h⟩ := bind_eq_ok h
      cases h
      exact pushPiece_stackOk _ _ _ _ hpp (pop_stackOk _ _ _ _ hp h0)


theorem endOfExpression_stack (m : Mach) : (endOfExpression m).2.stack = m.stack := by
  unfold endOfExpression; rfl

theorem evaluateOneOperation_stackOk (c : Config) (m : Mach) (r : OpResult) (m' : Mach) (h0 : StackOk c m)
    (h : evaluateOneOperation c m = .ok (r, m')) : StackOk c m' := by
  unfold evaluateOneOperation at h
  obtain ⟨⟨op, rest⟩, _, h⟩ := bind_eq_ok h
  exact execute_stackOk c op { m with pc := rest } r m' h0 h

theorem finish_stackOk (c : Config) (m m' : Mach) (h0 : StackOk c m) (h : finish c m = .ok m') : StackOk c m' := by
  unfold finish at h
  split at h
  · obtain ⟨⟨v, m1⟩, hp, h⟩ := bind_eq_ok h
    obtain ⟨n, _, h⟩ := bind_eq_ok h
    have h1 := pop_stackOk c _ _ _ hp h0
    exact pushPiece_stackOk _ _ _ _ h (show StackOk c { m1 with valueResult := some v } from h1)
  · cases h; exact h0

theorem afterComplete_stackOk (c : Config) (l : Location) (m m' : Mach) (b : Bool) (h0 : StackOk c m)
    (h : afterComplete c l m = .ok (m', b)) : StackOk c m' := by
  unfold afterComplete at h
  have he : StackOk c (endOfExpression m).2 := fun n hn => by rw [endOfExpression_stack]; exact h0 n hn
  split at h
  · next m1 heq =>
    have h1 : StackOk c m1 := by rw [heq] at he; exact he
    split at h
    · obtain ⟨m2, hpp, h⟩ := bind_eq_ok h
      cases h; exact pushPiece_stackOk _ _ _ _ hpp h1
    · cases h
  · next m1 heq =>
    have h1 : StackOk c m1 := by rw [heq] at he; exact he
    obtain ⟨⟨op, rest⟩, _, h⟩ := bind_eq_ok h
    simp only [] at h
    split at h
    · obtain ⟨m2, hpp, h⟩ := bind_eq_ok h
      cases h; exact pushPiece_stackOk _ _ _ _ hpp h1
    · cases h

/-- what a continuation / the loop guarantees about the stack -/
def KeepsStack (k : Eval → Out (Request × Eval)) : Prop :=
  ∀ (s : Eval) (r : Request) (s' : Eval), StackOk s.cfg s.m → k s = .ok (r, s') → s'.cfg = s.cfg ∧ StackOk s'.cfg s'.m

theorem loopBody_stackOk (k) (hk : KeepsStack k) : KeepsStack (loopBody k) := by
  intro s r s' h0 h
  unfold loopBody at h
  have he : StackOk s.cfg (endOfExpression s.m).2 := fun n hn => by rw [endOfExpression_stack]; exact h0 n hn
  split at h
  · next m1 heq =>
    have h1 : StackOk s.cfg m1 := by rw [heq] at he; exact he
    obtain ⟨m2, hf, h⟩ := bind_eq_ok h
    cases h
    exact ⟨rfl, finish_stackOk _ _ _ h1 hf⟩
  · next m1 heq =>
    have h1 : StackOk s.cfg m1 := by rw [heq] at he; exact he
    split at h
    · cases h
    · obtain ⟨⟨res, m2⟩, hev, h⟩ := bind_eq_ok h
      have h2 := evaluateOneOperation_stackOk _ _ _ _ h1 hev
      cases res with
      | piece => exact hk { s with m := m2, iteration := saturatingInc s.iteration, decodes := s.decodes + 1 } r s' h2 h
      | incomplete =>
        simp only [afterOp] at h
        split at h
        · cases h
        · exact hk { s with m := (endOfExpression m2).2, iteration := saturatingInc s.iteration, decodes := s.decodes + 1 } r s'
            (fun n hn => by rw [endOfExpression_stack]; exact h2 n hn) h
      | complete loc =>
        obtain ⟨⟨m3, extra⟩, hac, h⟩ := bind_eq_ok h
        exact hk { s with m := m3, iteration := saturatingInc s.iteration, decodes := s.decodes + 1 + (if extra then 1 else 0) } r s'
          (afterComplete_stackOk _ _ _ _ _ h2 hac) h
      | waiting w rq => cases h; exact ⟨rfl, h2⟩

theorem evaluateInternal_stackOk (fuel : Nat) : KeepsStack (evaluateInternal fuel) := by
  induction fuel with
  | zero => intro s r s' _ h; simp [evaluateInternal] at h
  | succ fuel ih => exact loopBody_stackOk _ ih

theorem applyAnswer_stackOk (c : Config) (w : Waiting) (a : Answer) (m m' : Mach) (h0 : StackOk c m)
    (h : applyAnswer c w a m = .ok m') : StackOk c m' := by
  unfold applyAnswer at h
  cases w <;> cases a <;> simp only [] at h <;>
    first
    | cases h
    | exact push_stackOk _ _ _ _ h
    | skip
  case register.register off v =>
    obtain ⟨_, _, h⟩ := bind_eq_ok h
    obtain ⟨_, _, h⟩ := bind_eq_ok h
    exact push_stackOk _ _ _ _ h
  case atLocation.atLocation bytes =>
    split at h
    · cases h; exact h0
    · split at h
      · cases h; exact h0
      · cases h
  case typedLiteral.baseType bytes t =>
    obtain ⟨_, _, h⟩ := bind_eq_ok h
    exact push_stackOk _ _ _ _ h
  case convert.baseType t =>
    obtain ⟨⟨_, _⟩, _, h⟩ := bind_eq_ok h
    obtain ⟨_, _, h⟩ := bind_eq_ok h
    exact push_stackOk _ _ _ _ h
  case reinterpret.baseType t =>
    obtain ⟨⟨_, _⟩, _, h⟩ := bind_eq_ok h
    obtain ⟨_, _, h⟩ := bind_eq_ok h
    exact push_stackOk _ _ _ _ h

theorem resume_stackOk (fuel : Nat) (a : Answer) (s : Eval) (r : Request) (s' : Eval) (h0 : StackOk s.cfg s.m)
    (h : resume fuel a s = .ok (r, s')) : s'.cfg = s.cfg ∧ StackOk s'.cfg s'.m := by
  unfold resume at h
  split at h
  · cases h
  · obtain ⟨m1, ha, h⟩ := bind_eq_ok h
    exact evaluateInternal_stackOk fuel { s with m := m1 } r s' (applyAnswer_stackOk _ _ _ _ _ h0 ha) h
  · cases h

end Gimli.Eval
