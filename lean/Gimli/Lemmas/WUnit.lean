import Gimli.Model.WUnit
import Gimli.Spec.WUnit
import Gimli.Lemmas.Leb
import Gimli.Lemmas.Ints
/-! Helper lemmas for C11 (unit writer). -/
namespace Gimli.WUnit
open Gimli Gimli.Ints

/-! ## sizes of the primitive encodings -/

theorem encodeUFuel_length (fuel v : Nat) : (Leb.encodeUFuel fuel v).length = Leb.sizeUFuel fuel v := by
  induction fuel generalizing v with
  | zero => rfl
  | succ n ih =>
    rw [Leb.encodeUFuel, Leb.sizeUFuel]
    by_cases h : v / 128 = 0
    · simp [h]
    · simp [h, ih]; omega

/-- `uleb128_size(v)` is the length of what `write_uleb128(v)` emits — for every `v` -/
theorem encodeU_length (v : Nat) : (Leb.encodeU v).length = Leb.sizeU v :=
  encodeUFuel_length 10 v

theorem encodeSFuel_length (fuel : Nat) (v : Int) :
    (Leb.encodeSFuel fuel v).length = Leb.sizeSFuel fuel v := by
  induction fuel generalizing v with
  | zero => rfl
  | succ n ih =>
    rw [Leb.encodeSFuel, Leb.sizeSFuel]
    by_cases h : v / 64 = 0 ∨ v / 64 = -1
    · simp [h]
    · simp [h, ih]; omega

/-- `sleb128_size(v)` is the length of what `write_sleb128(v)` emits — for every `v` -/
theorem encodeS_length (v : Int) : (Leb.encodeS v).length = Leb.sizeS v :=
  encodeSFuel_length 10 v

/-- whatever `write_udata` accepts has exactly the requested size -/
theorem writeUdata_length (e : Endian) (v size : Nat) (bs : Bytes)
    (h : writeUdata e v size = .ok bs) : bs.length = size := by
  unfold writeUdata at h
  split at h
  · split at h
    · simp at h
    · simp only [Out.ok.injEq] at h; rw [← h]; exact toBytes_length e size v
  · split at h
    · rename_i h8; simp only [Out.ok.injEq] at h; rw [← h, h8]; exact toBytes_length e 8 v
    · simp at h

/-- inversion of the `String` arm of `AttributeValue::write` -/
theorem string_emit_inv (bs : Bytes) (em : Emit)
    (h : (if bs.contains 0 then .err .wInvalidAttributeValue else .ok (Emit.ofBytes (bs ++ [0])) : Out Emit) = .ok em) :
    bs.contains 0 = false ∧ em = Emit.ofBytes (bs ++ [0]) := by
  by_cases hc : bs.contains 0 = true
  · rw [if_pos hc] at h; cases h
  · rw [if_neg hc] at h
    simp only [Out.ok.injEq] at h
    exact ⟨by simpa using hc, h.symm⟩

/-! ## predicted size = emitted length, kind by kind -/

/-- `b` knows everything `a` knows (same unit, same vector length, every assigned offset kept) -/
def Offs.Ext (a b : Offs) : Prop :=
  a.unit = b.unit ∧ a.n = b.n ∧ ∀ id o, a.map id = some o → b.map id = some o

theorem Offs.Ext.refl (a : Offs) : a.Ext a := ⟨rfl, rfl, fun _ _ h => h⟩

theorem Offs.Ext.trans {a b c : Offs} (h1 : a.Ext b) (h2 : b.Ext c) : a.Ext c :=
  ⟨h1.1.trans h2.1, h1.2.1.trans h2.2.1, fun id o h => h2.2.2 id o (h1.2.2 id o h)⟩

theorem unitOffset_ext {a b : Offs} (h : a.Ext b) (id u : Nat)
    (ha : a.unitOffset id = .ok (some u)) : b.unitOffset id = .ok (some u) := by
  obtain ⟨hu, hn, hm⟩ := h
  unfold Offs.unitOffset Offs.debugInfoOffset at ha ⊢
  by_cases hlt : id < a.n
  · have hlt' : id < b.n := hn ▸ hlt
    simp only [hlt, hlt', if_true, Out.bind_ok, Out.pure_eq, Out.ok.injEq] at ha ⊢
    cases hmap : a.map id with
    | none => simp [hmap] at ha
    | some o =>
      rw [hm id o hmap]
      simp only [hmap, Option.map_some, Option.some.injEq] at ha
      simp [← hu, ha]
  · simp [hlt] at ha

theorem exprItem_size_eq_emit (cx : Ctx) (a : Offs) (pos : Nat) (it : ExprItem) (sz : Nat)
    (bs : Bytes) (fx : List IFix) (hext : a.Ext cx.offs)
    (hs : exprItemSize cx.enc a it = .ok sz) (he : exprItemEmit cx pos it = .ok (bs, fx)) :
    bs.length = sz := by
  cases it with
  | raw b =>
    simp only [exprItemSize, exprItemEmit, Out.ok.injEq, Prod.mk.injEq] at hs he
    rw [← he.1, hs]
  | convert id =>
    simp only [exprItemSize, exprItemEmit] at hs he
    cases hu : a.unitOffset id with
    | ok r =>
      cases r with
      | none => simp [hu] at hs
      | some u =>
        rw [unitOffset_ext hext id u hu] at he
        simp only [hu, Out.bind_ok, Out.pure_eq, Out.ok.injEq, Prod.mk.injEq] at hs he
        rw [← he.1, ← hs, List.length_cons, encodeU_length] <;> omega
    | err e => simp [hu] at hs
    | panic w => simp [hu] at hs
    | diverge => simp [hu] at hs
  | call id =>
    simp only [exprItemSize, exprItemEmit, Out.ok.injEq] at hs he
    cases hu : cx.offs.unitOffset id with
    | ok r =>
      cases r with
      | none => simp [hu] at he
      | some u =>
        simp only [hu, Out.bind_ok] at he
        cases hw : writeUdata cx.endian u 4 with
        | ok b =>
          simp only [hw, Out.bind_ok, Out.pure_eq, Out.ok.injEq, Prod.mk.injEq] at he
          rw [← he.1, ← hs, List.length_cons, writeUdata_length _ _ _ _ hw] <;> omega
        | err e => simp [hw] at he
        | panic w => simp [hw] at he
        | diverge => simp [hw] at he
    | err e => simp [hu] at he
    | panic w => simp [hu] at he
    | diverge => simp [hu] at he
  | callRef unit id =>
    simp only [exprItemSize, exprItemEmit, Out.ok.injEq] at hs he
    cases hw : writeUdata cx.endian 0 cx.enc.word with
    | ok b =>
      simp only [hw, Out.bind_ok, Out.pure_eq, Out.ok.injEq, Prod.mk.injEq] at he
      rw [← he.1, ← hs, List.length_cons, writeUdata_length _ _ _ _ hw] <;> omega
    | err e => simp [hw] at he
    | panic w => simp [hw] at he
    | diverge => simp [hw] at he

theorem exprItems_size_eq_emit (cx : Ctx) (a : Offs) (items : List ExprItem) :
    ∀ (pos sz : Nat) (bs : Bytes) (fx : List IFix), a.Ext cx.offs →
    exprSize cx.enc a items = .ok sz → exprItemsEmit cx pos items = .ok (bs, fx) →
    bs.length = sz := by
  induction items with
  | nil =>
    intro pos sz bs fx _ hs he
    simp only [exprSize, exprItemsEmit, Out.ok.injEq, Prod.mk.injEq] at hs he
    rw [← he.1, ← hs]; rfl
  | cons it rest ih =>
    intro pos sz bs fx hext hs he
    rw [exprSize] at hs
    rw [exprItemsEmit] at he
    cases h1 : exprItemSize cx.enc a it with
    | ok s1 =>
      cases h2 : exprSize cx.enc a rest with
      | ok s2 =>
        simp only [h1, h2, Out.bind_ok, Out.pure_eq, Out.ok.injEq] at hs
        cases h3 : exprItemEmit cx pos it with
        | ok r1 =>
          obtain ⟨b1, f1⟩ := r1
          simp only [h3, Out.bind_ok] at he
          cases h4 : exprItemsEmit cx (pos + b1.length) rest with
          | ok r2 =>
            obtain ⟨b2, f2⟩ := r2
            simp only [h4, Out.bind_ok, Out.pure_eq, Out.ok.injEq, Prod.mk.injEq] at he
            have e1 := exprItem_size_eq_emit cx a pos it s1 b1 f1 hext h1 h3
            have e2 := ih _ _ _ _ hext h2 h4
            rw [← he.1, ← hs, List.length_append, e1, e2]
          | err e => simp [h4] at he
          | panic w => simp [h4] at he
          | diverge => simp [h4] at he
        | err e => simp [h3] at he
        | panic w => simp [h3] at he
        | diverge => simp [h3] at he
      | err e => simp [h1, h2] at hs
      | panic w => simp [h1, h2] at hs
      | diverge => simp [h1, h2] at hs
    | err e => simp [h1] at hs
    | panic w => simp [h1] at hs
    | diverge => simp [h1] at hs

/-- inversion of a `do`-bound `writeUdata` followed by `pure (.ofBytes b)` -/
theorem udata_emit_length (e : Endian) (v size : Nat) (em : Emit)
    (h : (do let b ← writeUdata e v size; pure (Emit.ofBytes b) : Out Emit) = .ok em) :
    em.bytes.length = size := by
  cases hw : writeUdata e v size with
  | ok b =>
    simp only [hw, Out.bind_ok, Out.pure_eq, Out.ok.injEq] at h
    rw [← h]; exact writeUdata_length _ _ _ _ hw
  | err e => simp [hw] at h
  | panic w => simp [hw] at h
  | diverge => simp [hw] at h

theorem attr_size_eq_emit' (cx : Ctx) (a : Offs) (pos : Nat) (v : AttrVal) (sz : Nat) (em : Emit)
    (hext : a.Ext cx.offs) (hs : attrSize cx.enc a v = .ok sz) (he : attrEmit cx pos v = .ok em) :
    em.bytes.length = sz := by
  cases v with
  | address x =>
    simp only [attrSize, attrEmit, Out.ok.injEq] at hs he
    rw [← hs]; exact udata_emit_length _ _ _ _ he
  | addressSym => simp [attrEmit] at he
  | block bs =>
    simp only [attrSize, attrEmit, Out.ok.injEq] at hs he
    rw [← he, ← hs]; simp [Emit.ofBytes, encodeU_length]
  | data1 x | data2 x | data4 x | data8 x | data16 x =>
    simp only [attrSize, attrEmit, Out.ok.injEq] at hs he
    rw [← he, ← hs]; simp [Emit.ofBytes, toBytes_length]
  | sdata x =>
    simp only [attrSize, attrEmit, Out.ok.injEq] at hs he
    rw [← he, ← hs]; simp [Emit.ofBytes, encodeS_length]
  | udata x | constClass x | fileIndex x =>
    simp only [attrSize, attrEmit, Out.ok.injEq] at hs he
    rw [← he, ← hs]; simp [Emit.ofBytes, encodeU_length]
  | implicitConst x =>
    simp only [attrSize, attrEmit, Out.ok.injEq] at hs he
    rw [← he, ← hs]; split <;> simp [Emit.ofBytes, encodeS_length]
  | exprloc items =>
    simp only [attrSize, attrEmit] at hs he
    cases h1 : exprSize cx.enc a items with
    | ok s1 =>
      simp only [h1, Out.bind_ok, Out.pure_eq, Out.ok.injEq] at hs
      cases h2 : exprSize cx.enc cx.offs items with
      | ok s2 =>
        simp only [h2, Out.bind_ok] at he
        cases h3 : exprItemsEmit cx (pos + (Leb.encodeU s2).length) items with
        | ok r =>
          obtain ⟨body, fx⟩ := r
          simp only [h3, Out.bind_ok, Out.pure_eq, Out.ok.injEq] at he
          have e1 := exprItems_size_eq_emit cx a items _ _ _ _ hext h1 h3
          have e2 := exprItems_size_eq_emit cx cx.offs items _ _ _ _ (Offs.Ext.refl _) h2 h3
          have e3 : s1 = s2 := by omega
          subst e3
          rw [← he, ← hs]
          show (Leb.encodeU s1 ++ body).length = _
          rw [List.length_append, encodeU_length, e1]
        | err e => simp [h3] at he
        | panic w => simp [h3] at he
        | diverge => simp [h3] at he
      | err e => simp [h2] at he
      | panic w => simp [h2] at he
      | diverge => simp [h2] at he
    | err e => simp [h1] at hs
    | panic w => simp [h1] at hs
    | diverge => simp [h1] at hs
  | flag b =>
    simp only [attrSize, attrEmit, Out.ok.injEq] at hs he
    rw [← he, ← hs]; simp [Emit.ofBytes]
  | flagPresent =>
    simp only [attrSize, attrEmit, Out.ok.injEq] at hs he
    rw [← he, ← hs]; split <;> simp [Emit.ofBytes]
  | unitRef id =>
    simp only [attrSize, attrEmit, Out.ok.injEq] at hs he
    cases hw : writeUdata cx.endian 0 cx.enc.word with
    | ok b =>
      simp only [hw, Out.bind_ok, Out.pure_eq, Out.ok.injEq] at he
      rw [← he, ← hs]; exact writeUdata_length _ _ _ _ hw
    | err e => simp [hw] at he
    | panic w => simp [hw] at he
    | diverge => simp [hw] at he
  | debugInfoRef unit id =>
    simp only [attrSize, attrEmit, Out.ok.injEq] at hs he
    cases hw : writeUdata cx.endian 0 (if cx.enc.version = 2 then cx.enc.addrSize else cx.enc.word) with
    | ok b =>
      simp only [hw, Out.bind_ok, Out.pure_eq, Out.ok.injEq] at he
      rw [← he, ← hs]; exact writeUdata_length _ _ _ _ hw
    | err e => simp [hw] at he
    | panic w => simp [hw] at he
    | diverge => simp [hw] at he
  | debugInfoRefSym => simp [attrEmit] at he
  | debugInfoRefSup off | locationListRef off | debugMacinfoRef off | debugMacroRef off
  | rangeListRef off | debugStrRefSup off =>
    simp only [attrSize, attrEmit, Out.ok.injEq] at hs he
    rw [← hs]; exact udata_emit_length _ _ _ _ he
  | lineProgramRef =>
    simp only [attrSize, attrEmit, Out.ok.injEq] at hs he
    cases hl : cx.lineProgram with
    | none => simp [hl] at he
    | some off =>
      simp only [hl] at he
      rw [← hs]; exact udata_emit_length _ _ _ _ he
  | debugTypesRef sig =>
    simp only [attrSize, attrEmit, Out.ok.injEq] at hs he
    rw [← he, ← hs]; simp [Emit.ofBytes, toBytes_length]
  | stringRef idx =>
    simp only [attrSize, attrEmit, Out.ok.injEq] at hs he
    cases ht : tableOffset cx.strOffsets idx with
    | ok off =>
      simp only [ht, Out.bind_ok] at he
      rw [← hs]; exact udata_emit_length _ _ _ _ he
    | err e => simp [ht] at he
    | panic w => simp [ht] at he
    | diverge => simp [ht] at he
  | lineStringRef idx =>
    simp only [attrSize, attrEmit, Out.ok.injEq] at hs he
    cases ht : tableOffset cx.lineStrOffsets idx with
    | ok off =>
      simp only [ht, Out.bind_ok] at he
      rw [← hs]; exact udata_emit_length _ _ _ _ he
    | err e => simp [ht] at he
    | panic w => simp [ht] at he
    | diverge => simp [ht] at he
  | string bs =>
    simp only [attrSize, attrEmit, Out.ok.injEq] at hs he
    obtain ⟨_, he⟩ := string_emit_inv bs em he
    rw [he, ← hs]; simp [Emit.ofBytes]

/-! ## pass 1 against pass 2 -/

@[simp] theorem Emit.append_bytes (a b : Emit) : (a ++ b).bytes = a.bytes ++ b.bytes := rfl
@[simp] theorem Emit.append_urefs (a b : Emit) : (a ++ b).urefs = a.urefs ++ b.urefs := rfl
@[simp] theorem Emit.append_ifix (a b : Emit) : (a ++ b).ifix = a.ifix ++ b.ifix := rfl
@[simp] theorem Emit.append_starts (a b : Emit) : (a ++ b).starts = a.starts ++ b.starts := rfl

mutual
/-- the entry ids of a tree, in the order the entries are laid out (pre-order) -/
def Tree.ids : Tree → List Nat
  | .node id _ _ _ ch => id :: ch.ids
def Forest.ids : Forest → List Nat
  | .nil => []
  | .cons t rest => t.ids ++ rest.ids
end

theorem attrEmit_starts (cx : Ctx) (pos : Nat) (v : AttrVal) (em : Emit)
    (h : attrEmit cx pos v = .ok em) : em.starts = [] := by
  cases v <;> simp only [attrEmit] at h
  case addressSym | debugInfoRefSym => simp at h
  case block | data1 | data2 | data4 | data8 | data16 | sdata | implicitConst | udata | flag
      | flagPresent | debugTypesRef | constClass | fileIndex =>
    simp only [Out.ok.injEq] at h; rw [← h]; rfl
  case string bs =>
    rw [(string_emit_inv bs em h).2]; rfl
  case lineProgramRef =>
    cases hl : cx.lineProgram with
    | none => simp [hl] at h
    | some off =>
      simp only [hl] at h
      cases hw : writeUdata cx.endian off cx.enc.word <;> simp [hw] at h
      rw [← h]; rfl
  case exprloc items =>
    cases h2 : exprSize cx.enc cx.offs items <;> simp [h2] at h
    rename_i s2
    cases h3 : exprItemsEmit cx (pos + (Leb.encodeU s2).length) items <;> simp [h3] at h
    rw [← h]
  case stringRef idx =>
    cases ht : tableOffset cx.strOffsets idx <;> simp [ht] at h
    rename_i off
    cases hw : writeUdata cx.endian off cx.enc.word <;> simp [hw] at h
    rw [← h]; rfl
  case lineStringRef idx =>
    cases ht : tableOffset cx.lineStrOffsets idx <;> simp [ht] at h
    rename_i off
    cases hw : writeUdata cx.endian off cx.enc.word <;> simp [hw] at h
    rw [← h]; rfl
  all_goals
    (first
      | (rename_i x
         cases hw : writeUdata cx.endian x cx.enc.word <;> simp [hw] at h
         rw [← h]; rfl)
      | (rename_i x
         cases hw : writeUdata cx.endian x cx.enc.addrSize <;> simp [hw] at h
         rw [← h]; rfl)
      | (cases hw : writeUdata cx.endian 0 cx.enc.word <;> simp [hw] at h
         rw [← h])
      | (cases hw : writeUdata cx.endian 0 (if cx.enc.version = 2 then cx.enc.addrSize else cx.enc.word) <;> simp [hw] at h
         rw [← h]))
/-- inversion of one `do` step -/
theorem bind_ok_inv {α β : Type} {x : Out α} {f : α → Out β} {b : β}
    (h : (x >>= f) = .ok b) : ∃ a, x = .ok a ∧ f a = .ok b := by
  cases x with
  | ok a => exact ⟨a, rfl, h⟩
  | err e => simp at h
  | panic w => simp at h
  | diverge => simp at h

theorem attrs_size_eq_emit (cx : Ctx) (a : Offs) (attrs : List (Nat × AttrVal)) :
    ∀ (pos sz : Nat) (em : Emit), a.Ext cx.offs →
    attrsSize cx.enc a attrs = .ok sz → attrsEmit cx pos attrs = .ok em →
    em.bytes.length = sz ∧ em.starts = [] := by
  induction attrs with
  | nil =>
    intro pos sz em _ hs he
    simp only [attrsSize, attrsEmit, Out.ok.injEq] at hs he
    rw [← he, ← hs]; exact ⟨rfl, rfl⟩
  | cons nv rest ih =>
    intro pos sz em hext hs he
    obtain ⟨name, v⟩ := nv
    rw [attrsSize] at hs
    rw [attrsEmit] at he
    obtain ⟨s1, h1, hs⟩ := bind_ok_inv hs
    obtain ⟨s2, h2, hs⟩ := bind_ok_inv hs
    obtain ⟨e1, h3, he⟩ := bind_ok_inv he
    obtain ⟨e2, h4, he⟩ := bind_ok_inv he
    simp only [Out.pure_eq, Out.ok.injEq] at hs he
    have a1 := attr_size_eq_emit' cx a pos v s1 e1 hext h1 h3
    have a2 := attrEmit_starts cx pos v e1 h3
    obtain ⟨b1, b2⟩ := ih _ _ _ hext h2 h4
    rw [← he, ← hs]
    simp [a1, a2, b1, b2]

mutual
theorem calcTree_frame (c : Enc) : ∀ (t : Tree) (st st' : P1), calcTree c st t = .ok st' →
    st'.offs.unit = st.offs.unit ∧ st'.offs.n = st.offs.n ∧
    (∀ j, j ∉ t.ids → st'.offs.map j = st.offs.map j ∧ st'.codes j = st.codes j)
  | .node id tag sib attrs ch, st, st', h => by
    rw [calcTree] at h
    simp only at h
    obtain ⟨sz, hsz, h⟩ := bind_ok_inv h
    cases ch with
    | nil =>
      simp only [Out.pure_eq, Out.ok.injEq] at h
      subst h
      refine ⟨rfl, rfl, ?_⟩
      intro j hj
      simp only [Tree.ids, Forest.ids, List.mem_cons, List.not_mem_nil, or_false] at hj
      simp [Offs.set, hj]
    | cons t rest =>
      simp only at h
      obtain ⟨st2, hf, h⟩ := bind_ok_inv h
      simp only [Out.pure_eq, Out.ok.injEq] at h
      subst h
      obtain ⟨f1, f2, f3⟩ := calcForest_frame c (.cons t rest) _ st2 hf
      refine ⟨f1, f2, ?_⟩
      intro j hj
      simp only [Tree.ids, List.mem_cons, not_or] at hj
      obtain ⟨g1, g2⟩ := f3 j hj.2
      simp only at g1 g2 ⊢
      rw [g1, g2]
      simp [Offs.set, hj.1]
theorem calcForest_frame (c : Enc) : ∀ (f : Forest) (st st' : P1), calcForest c st f = .ok st' →
    st'.offs.unit = st.offs.unit ∧ st'.offs.n = st.offs.n ∧
    (∀ j, j ∉ f.ids → st'.offs.map j = st.offs.map j ∧ st'.codes j = st.codes j)
  | .nil, st, st', h => by
    rw [calcForest] at h
    simp only [Out.pure_eq, Out.ok.injEq] at h
    subst h
    exact ⟨rfl, rfl, fun _ _ => ⟨rfl, rfl⟩⟩
  | .cons t rest, st, st', h => by
    rw [calcForest] at h
    obtain ⟨st1, ht, h⟩ := bind_ok_inv h
    obtain ⟨a1, a2, a3⟩ := calcTree_frame c t st st1 ht
    obtain ⟨b1, b2, b3⟩ := calcForest_frame c rest st1 st' h
    refine ⟨b1.trans a1, b2.trans a2, ?_⟩
    intro j hj
    simp only [Forest.ids, List.mem_append, not_or] at hj
    obtain ⟨x1, x2⟩ := a3 j hj.1
    obtain ⟨y1, y2⟩ := b3 j hj.2
    exact ⟨y1.trans x1, y2.trans x2⟩
end

/-- none of `ids` has been laid out yet -/
def Fresh (ids : List Nat) (st : P1) : Prop := ∀ j ∈ ids, st.offs.map j = none ∧ st.codes j = none

/-- pass 2 reads tables that contain everything pass 1 has assigned up to `st` -/
def P1.ExtCx (st : P1) (cx : Ctx) : Prop :=
  st.offs.Ext cx.offs ∧ ∀ j c, st.codes j = some c → cx.codes j = some c

theorem emitTree_exact_nil (cx : Ctx) (id tag : Nat) (sib : Bool) (attrs : List (Nat × AttrVal))
    (st st' : P1) (em : Emit)
    (hc : calcTree cx.enc st (.node id tag sib attrs .nil) = .ok st')
    (he : emitTree cx st.offset (.node id tag sib attrs .nil) = .ok em)
    (hx : st'.ExtCx cx) :
    st.offset + em.bytes.length = st'.offset ∧ (∀ p ∈ em.starts, cx.offs.map p.1 = some p.2) ∧
      em.starts.map (·.1) = [id] := by
  rw [calcTree] at hc
  simp only [Forest.isEmpty, Bool.not_true] at hc
  generalize abbrevAdd st.abbrevs (abbreviation cx.enc tag sib attrs false) = added at hc
  obtain ⟨sz, hsz, hc⟩ := bind_ok_inv hc
  simp only [Out.pure_eq, Out.ok.injEq] at hc
  subst hc
  simp only [entrySize, Bool.and_false] at hsz
  obtain ⟨asz, hasz, hsz⟩ := bind_ok_inv hsz
  simp only [Out.pure_eq, Out.ok.injEq] at hsz
  obtain ⟨hxo, hxc⟩ := hx
  have hcode := hxc id added.1 (by simp)
  have hoff : cx.offs.map id = some st.offset := hxo.2.2 id _ (by simp [Offs.set])
  rw [emitTree] at he
  simp only [codeOf, hcode, Out.bind_ok, Forest.isEmpty, Bool.not_true, Bool.and_false] at he
  obtain ⟨a, ha, he⟩ := bind_ok_inv he
  simp only [Out.pure_eq, Out.bind_ok, Bool.false_eq_true, if_false, Out.ok.injEq] at he
  obtain ⟨l1, l2⟩ := attrs_size_eq_emit cx _ attrs _ _ _ hxo hasz ha
  subst he
  simp [l1, l2, encodeU_length, hoff] at hsz ⊢
  omega


theorem nodup_cons_inv {a : Nat} {l : List Nat} (h : (a :: l).Nodup) : a ∉ l ∧ l.Nodup :=
  List.nodup_cons.mp h

mutual
theorem emitTree_exact (cx : Ctx) : ∀ (t : Tree) (st st' : P1) (em : Emit),
    calcTree cx.enc st t = .ok st' → emitTree cx st.offset t = .ok em →
    t.ids.Nodup → Fresh t.ids st → st'.ExtCx cx →
    st.offset + em.bytes.length = st'.offset ∧ (∀ p ∈ em.starts, cx.offs.map p.1 = some p.2) ∧
      em.starts.map (·.1) = t.ids
  | .node id tag sib attrs .nil, st, st', em, hc, he, _, _, hx => by
    simpa [Tree.ids, Forest.ids] using emitTree_exact_nil cx id tag sib attrs st st' em hc he hx
  | .node id tag sib attrs (.cons t rest), st, st', em, hc, he, hnd, hfr, hx => by
    rw [calcTree] at hc
    simp only [Forest.isEmpty, Bool.not_false] at hc
    generalize abbrevAdd st.abbrevs (abbreviation cx.enc tag sib attrs true) = added at hc
    obtain ⟨sz, hsz, hc⟩ := bind_ok_inv hc
    obtain ⟨st2, hf, hc⟩ := bind_ok_inv hc
    simp only [Out.pure_eq, Out.ok.injEq] at hc
    subst hc
    simp only [entrySize, Bool.and_true] at hsz
    obtain ⟨asz, hasz, hsz⟩ := bind_ok_inv hsz
    simp only [Out.pure_eq, Out.ok.injEq] at hsz
    obtain ⟨hxo, hxc⟩ := hx
    simp only at hxo hxc
    simp only [Tree.ids] at hnd hfr
    obtain ⟨hid, hnd'⟩ := nodup_cons_inv hnd
    obtain ⟨f1, f2, f3⟩ := calcForest_frame cx.enc (.cons t rest) _ st2 hf
    simp only at f1 f2 f3
    have hcode : cx.codes id = some added.1 := hxc id added.1 (by rw [(f3 id hid).2]; simp)
    have hoff : cx.offs.map id = some st.offset :=
      hxo.2.2 id _ (by rw [(f3 id hid).1]; simp [Offs.set])
    have hfr1 : Fresh (Forest.cons t rest).ids
        { offset := st.offset + sz, offs := st.offs.set id st.offset, abbrevs := added.2,
          codes := fun j => if j = id then some added.1 else st.codes j } := by
      intro j hj
      have hne : j ≠ id := fun h => hid (h ▸ hj)
      have := hfr j (List.mem_cons_of_mem _ hj)
      simp [Offs.set, hne, this.1, this.2]
    have hext1 : (st.offs.set id st.offset).Ext cx.offs := by
      refine ⟨f1 ▸ hxo.1, f2 ▸ hxo.2.1, ?_⟩
      intro j o hj
      by_cases hmem : j ∈ (Forest.cons t rest).ids
      · have := (hfr1 j hmem).1
        simp only at this
        rw [this] at hj; cases hj
      · exact hxo.2.2 j o (by rw [(f3 j hmem).1]; exact hj)
    rw [emitTree] at he
    simp only [codeOf, hcode, Out.bind_ok, Forest.isEmpty, Bool.not_false, Bool.and_true] at he
    obtain ⟨a, ha, he⟩ := bind_ok_inv he
    obtain ⟨k, hk, he⟩ := bind_ok_inv he
    obtain ⟨k0, hk0, hk⟩ := bind_ok_inv hk
    obtain ⟨sibBs, hsib, he⟩ := bind_ok_inv he
    simp only [Out.pure_eq, Out.ok.injEq] at hk he
    obtain ⟨l1, l2⟩ := attrs_size_eq_emit cx _ attrs _ _ _ hext1 hasz ha
    have hpos : (st.offset + (Leb.encodeU added.1).length + (if sib = true then cx.enc.word else 0)) +
        a.bytes.length = st.offset + sz := by
      rw [l1, encodeU_length, ← hsz]; omega
    rw [hpos] at hk0
    have ih := emitForest_exact cx (.cons t rest) _ st2 k0 hf hk0 hnd' hfr1 ⟨hxo, hxc⟩
    simp only at ih
    obtain ⟨i1, i2, i3⟩ := ih
    have hsl : sibBs.length = if sib = true then cx.enc.word else 0 := by
      cases sib with
      | false => simp at hsib; subst hsib; simp
      | true => simp only [if_true] at hsib ⊢; exact writeUdata_length _ _ _ _ hsib
    subst he hk
    refine ⟨?_, ?_, ?_⟩
    · simp only [Emit.append_bytes, List.length_append, Emit.ofBytes, List.length_cons, List.length_nil]
      rw [hsl, l1, encodeU_length]; omega
    · intro p hp
      simp only [Emit.append_starts, l2, Emit.ofBytes, List.append_nil, List.mem_append, List.mem_cons,
        List.not_mem_nil, or_false] at hp
      rcases hp with hp | hp
      · subst hp; exact hoff
      · exact i2 p hp
    · simp [l2, Emit.ofBytes, i3, Tree.ids]
theorem emitForest_exact (cx : Ctx) : ∀ (f : Forest) (st st' : P1) (em : Emit),
    calcForest cx.enc st f = .ok st' → emitForest cx st.offset f = .ok em →
    f.ids.Nodup → Fresh f.ids st → st'.ExtCx cx →
    st.offset + em.bytes.length = st'.offset ∧ (∀ p ∈ em.starts, cx.offs.map p.1 = some p.2) ∧
      em.starts.map (·.1) = f.ids
  | .nil, st, st', em, hc, he, _, _, _ => by
    rw [calcForest] at hc
    rw [emitForest] at he
    simp only [Out.pure_eq, Out.ok.injEq] at hc he
    subst hc he
    simp [Forest.ids]
  | .cons t rest, st, st', em, hc, he, hnd, hfr, hx => by
    rw [calcForest] at hc
    rw [emitForest] at he
    obtain ⟨st1, ht, hc⟩ := bind_ok_inv hc
    obtain ⟨a, ha, he⟩ := bind_ok_inv he
    obtain ⟨r, hr, he⟩ := bind_ok_inv he
    simp only [Out.pure_eq, Out.ok.injEq] at he
    simp only [Forest.ids] at hnd hfr
    have hnd1 : t.ids.Nodup := (List.nodup_append.mp hnd).1
    have hnd2 : rest.ids.Nodup := (List.nodup_append.mp hnd).2.1
    have hdis : ∀ j, j ∈ t.ids → j ∉ rest.ids := fun j h1 h2 =>
      (List.nodup_append.mp hnd).2.2 j h1 j h2 rfl
    obtain ⟨a1, a2, a3⟩ := calcTree_frame cx.enc t st st1 ht
    obtain ⟨b1, b2, b3⟩ := calcForest_frame cx.enc rest st1 st' hc
    have hfr_t : Fresh t.ids st := fun j hj => hfr j (List.mem_append_left _ hj)
    have hfr_r : Fresh rest.ids st1 := by
      intro j hj
      have hnt : j ∉ t.ids := fun h => hdis j h hj
      have := hfr j (List.mem_append_right _ hj)
      rw [(a3 j hnt).1, (a3 j hnt).2]; exact this
    -- everything `st1` knows is still known at the end
    have hx1 : st1.ExtCx cx := by
      obtain ⟨hxo, hxc⟩ := hx
      refine ⟨⟨b1 ▸ hxo.1, b2 ▸ hxo.2.1, ?_⟩, ?_⟩
      · intro j o hj
        by_cases hmem : j ∈ rest.ids
        · rw [(hfr_r j hmem).1] at hj; cases hj
        · exact hxo.2.2 j o (by rw [(b3 j hmem).1]; exact hj)
      · intro j c hj
        by_cases hmem : j ∈ rest.ids
        · rw [(hfr_r j hmem).2] at hj; cases hj
        · exact hxc j c (by rw [(b3 j hmem).2]; exact hj)
    obtain ⟨i1, i2, i3⟩ := emitTree_exact cx t st st1 a ht ha hnd1 hfr_t hx1
    rw [i1] at hr
    obtain ⟨j1, j2, j3⟩ := emitForest_exact cx rest st1 st' r hc hr hnd2 hfr_r hx
    subst he
    refine ⟨?_, ?_, ?_⟩
    · simp only [Emit.append_bytes, List.length_append]; omega
    · intro p hp
      simp only [Emit.append_starts, List.mem_append] at hp
      rcases hp with hp | hp
      · exact i2 p hp
      · exact j2 p hp
    · simp [i3, j3, Forest.ids]
end

/-! ## de-duplicating tables -/

theorem findIdx_some (a : Abbrev) : ∀ (tab : List Abbrev) (i : Nat), findIdx a tab = some i →
    tab[i]? = some a
  | [], i, h => by simp [findIdx] at h
  | b :: rest, i, h => by
    rw [findIdx] at h
    by_cases hb : b = a
    · simp only [hb, if_true, Option.some.injEq] at h; subst h; simp [hb]
    · simp only [hb, if_false] at h
      cases hr : findIdx a rest with
      | none => simp [hr] at h
      | some k =>
        simp only [hr, Option.map_some, Option.some.injEq] at h
        subst h
        simpa using findIdx_some a rest k hr

theorem findIdx_none (a : Abbrev) : ∀ (tab : List Abbrev), findIdx a tab = none → a ∉ tab
  | [], _ => by simp
  | b :: rest, h => by
    rw [findIdx] at h
    by_cases hb : b = a
    · simp [hb] at h
    · simp only [hb, if_false] at h
      cases hr : findIdx a rest with
      | none =>
        have := findIdx_none a rest hr
        simp only [List.mem_cons, not_or]
        exact ⟨fun h => hb h.symm, this⟩
      | some k => simp [hr] at h

/-- first index: no earlier element equals `a` -/
theorem findIdx_first (a : Abbrev) : ∀ (tab : List Abbrev) (i : Nat), findIdx a tab = some i →
    ∀ j, j < i → tab[j]? ≠ some a
  | [], i, h => by simp [findIdx] at h
  | b :: rest, i, h => by
    rw [findIdx] at h
    by_cases hb : b = a
    · simp only [hb, if_true, Option.some.injEq] at h; subst h; intro j hj; omega
    · simp only [hb, if_false] at h
      cases hr : findIdx a rest with
      | none => simp [hr] at h
      | some k =>
        simp only [hr, Option.map_some, Option.some.injEq] at h
        subst h
        intro j hj
        cases j with
        | zero => simp [hb]
        | succ j => simpa using findIdx_first a rest k hr j (by omega)

/-- `AbbreviationTable::add`: the code is at least 1, at most the table size, the table under
that code holds exactly this abbreviation, and the table only ever grows at the end -/
theorem abbrevAdd_spec (tab : List Abbrev) (a : Abbrev) :
    1 ≤ (abbrevAdd tab a).1 ∧ (abbrevAdd tab a).1 ≤ (abbrevAdd tab a).2.length ∧
    (abbrevAdd tab a).2[(abbrevAdd tab a).1 - 1]? = some a ∧
    ((abbrevAdd tab a).2 = tab ∨ (a ∉ tab ∧ (abbrevAdd tab a).2 = tab ++ [a])) := by
  unfold abbrevAdd
  cases h : findIdx a tab with
  | some i =>
    have hg := findIdx_some a tab i h
    have hlt : i < tab.length := by
      rcases Nat.lt_or_ge i tab.length with h | h
      · exact h
      · rw [List.getElem?_eq_none h] at hg; cases hg
    simp only [Nat.add_sub_cancel]
    exact ⟨by omega, by omega, hg, Or.inl trivial⟩
  | none =>
    have hn := findIdx_none a tab h
    simp only [Nat.add_sub_cancel, List.length_append, List.length_cons, List.length_nil]
    refine ⟨by omega, by omega, by simp, Or.inr ⟨hn, trivial⟩⟩

theorem abbrevAdd_nodup (tab : List Abbrev) (a : Abbrev) (h : tab.Nodup) : (abbrevAdd tab a).2.Nodup := by
  rcases (abbrevAdd_spec tab a).2.2.2 with h1 | ⟨h1, h2⟩
  · rw [h1]; exact h
  · rw [h2]
    exact List.nodup_append.mpr ⟨h, by simp, by
      intro x hx y hy
      simp only [List.mem_cons, List.not_mem_nil, or_false] at hy
      subst hy
      exact fun hxy => h1 (hxy ▸ hx)⟩

/-- in a duplicate-free table two positions holding the same value are the same position -/
theorem nodup_getElem?_inj {α : Type} : ∀ (l : List α) (i j : Nat) (a : α), l.Nodup →
    l[i]? = some a → l[j]? = some a → i = j
  | [], i, j, a, _, hi, _ => by simp at hi
  | x :: rest, i, j, a, hnd, hi, hj => by
    obtain ⟨hx, hr⟩ := List.nodup_cons.mp hnd
    cases i with
    | zero =>
      cases j with
      | zero => rfl
      | succ j =>
        simp only [List.getElem?_cons_zero, Option.some.injEq, List.getElem?_cons_succ] at hi hj
        subst hi
        exact absurd (List.mem_of_getElem? hj) hx
    | succ i =>
      cases j with
      | zero =>
        simp only [List.getElem?_cons_zero, Option.some.injEq, List.getElem?_cons_succ] at hi hj
        subst hj
        exact absurd (List.mem_of_getElem? hi) hx
      | succ j =>
        simp only [List.getElem?_cons_succ] at hi hj
        rw [nodup_getElem?_inj rest i j a hr hi hj]

/-- adding an abbreviation that the table already holds under code `k` returns `k` and leaves
the table alone (equal abbreviations share one code) -/
theorem abbrevAdd_existing (tab : List Abbrev) (a : Abbrev) (k : Nat) (hnd : tab.Nodup)
    (hk : tab[k]? = some a) : abbrevAdd tab a = (k + 1, tab) := by
  unfold abbrevAdd
  cases h : findIdx a tab with
  | some i =>
    have := nodup_getElem?_inj tab i k a hnd (findIdx_some a tab i h) hk
    simp [this]
  | none => exact absurd (List.mem_of_getElem? hk) (findIdx_none a tab h)

theorem strFind_some (s : Bytes) : ∀ (tab : StrTab) (i : Nat), strFind s tab = some i →
    tab[i]? = some s
  | [], i, h => by simp [strFind] at h
  | b :: rest, i, h => by
    rw [strFind] at h
    by_cases hb : b = s
    · simp only [hb, if_true, Option.some.injEq] at h; subst h; simp [hb]
    · simp only [hb, if_false] at h
      cases hr : strFind s rest with
      | none => simp [hr] at h
      | some k =>
        simp only [hr, Option.map_some, Option.some.injEq] at h
        subst h
        simpa using strFind_some s rest k hr

theorem strFind_none (s : Bytes) : ∀ (tab : StrTab), strFind s tab = none → s ∉ tab
  | [], _ => by simp
  | b :: rest, h => by
    rw [strFind] at h
    by_cases hb : b = s
    · simp [hb] at h
    · simp only [hb, if_false] at h
      cases hr : strFind s rest with
      | none =>
        have := strFind_none s rest hr
        simp only [List.mem_cons, not_or]
        exact ⟨fun h => hb h.symm, this⟩
      | some k => simp [hr] at h

/-- `StringTable::add`: the id indexes this very string, and the table only grows at the end -/
theorem strAdd_spec (tab : StrTab) (s : Bytes) :
    (strAdd tab s).2[(strAdd tab s).1]? = some s ∧
    ((strAdd tab s).2 = tab ∨ (s ∉ tab ∧ (strAdd tab s).2 = tab ++ [s])) := by
  unfold strAdd
  cases h : strFind s tab with
  | some i => exact ⟨strFind_some s tab i h, Or.inl rfl⟩
  | none => exact ⟨by simp, Or.inr ⟨strFind_none s tab h, rfl⟩⟩

theorem strAdd_nodup (tab : StrTab) (s : Bytes) (h : tab.Nodup) : (strAdd tab s).2.Nodup := by
  rcases (strAdd_spec tab s).2 with h1 | ⟨h1, h2⟩
  · rw [h1]; exact h
  · rw [h2]
    exact List.nodup_append.mpr ⟨h, by simp, by
      intro x hx y hy
      simp only [List.mem_cons, List.not_mem_nil, or_false] at hy
      subst hy
      exact fun hxy => h1 (hxy ▸ hx)⟩

/-- a string that is already in the table under id `k` gets id `k` again; nothing is stored twice -/
theorem strAdd_existing (tab : StrTab) (s : Bytes) (k : Nat) (hnd : tab.Nodup)
    (hk : tab[k]? = some s) : strAdd tab s = (k, tab) := by
  unfold strAdd
  cases h : strFind s tab with
  | some i =>
    have := nodup_getElem?_inj tab i k s hnd (strFind_some s tab i h) hk
    simp [this]
  | none => exact absurd (List.mem_of_getElem? hk) (strFind_none s tab h)

/-- the offset recorded for id `idx` is the length of everything written before it, and at that
offset `.debug_str` holds the string followed by its terminator -/
theorem str_offset_resolves : ∀ (tab : StrTab) (len idx : Nat) (s : Bytes), tab[idx]? = some s →
    (strOffsetsFrom len tab)[idx]? = some (len + (strWrite (tab.take idx)).length) ∧
    (strWrite tab).drop (strWrite (tab.take idx)).length = s ++ 0 :: strWrite (tab.drop (idx + 1))
  | [], len, idx, s, h => by simp at h
  | b :: rest, len, idx, s, h => by
    cases idx with
    | zero =>
      simp only [List.getElem?_cons_zero, Option.some.injEq] at h
      subst h
      simp [strOffsetsFrom, strWrite]
    | succ idx =>
      simp only [List.getElem?_cons_succ] at h
      obtain ⟨h1, h2⟩ := str_offset_resolves rest (len + b.length + 1) idx s h
      refine ⟨?_, ?_⟩
      · simp only [strOffsetsFrom, List.getElem?_cons_succ, h1, List.take_succ_cons, strWrite,
          List.length_append, List.length_cons, List.length_nil, Option.some.injEq]
        omega
      · simp only [List.take_succ_cons, strWrite, List.length_append, List.length_cons,
          List.length_nil, List.drop_succ_cons]
        rw [show b.length + (0 + 1) + (strWrite (List.take idx rest)).length =
          (b ++ [0]).length + (strWrite (List.take idx rest)).length by simp]
        rw [← List.drop_drop, List.drop_left, h2]

/-! ## base types first -/

theorem toList_ofList (l : List Tree) : (Forest.ofList l).toList = l := by
  induction l with
  | nil => rfl
  | cons t rest ih => simp [Forest.ofList, Forest.toList, ih]

def isBase (t : Tree) : Bool := decide (t.tag = DW_TAG_base_type)

theorem reorder_children (id tag : Nat) (sib : Bool) (attrs : List (Nat × AttrVal)) (ch : Forest) :
    reorderBaseTypes (.node id tag sib attrs ch) =
      .node id tag sib attrs
        (Forest.ofList (ch.toList.filter isBase ++ ch.toList.filter (fun t => !isBase t))) := by
  simp only [reorderBaseTypes, isBase]
  congr 3
  apply List.filter_congr
  intro t _
  simp

theorem filter_partition_left {α : Type} (p : α → Bool) (l : List α) :
    (l.filter p ++ l.filter (fun a => !p a)).filter p = l.filter p := by
  rw [List.filter_append, List.filter_filter, List.filter_filter]
  have h1 : (l.filter fun a => p a && p a) = l.filter p := by
    apply List.filter_congr; intro a _; simp
  have h2 : (l.filter fun a => p a && !p a) = [] := by
    rw [List.filter_eq_nil_iff]; intro a _; simp
  rw [h1, h2, List.append_nil]

theorem filter_partition_right {α : Type} (p : α → Bool) (l : List α) :
    (l.filter p ++ l.filter (fun a => !p a)).filter (fun a => !p a) = l.filter (fun a => !p a) := by
  rw [List.filter_append, List.filter_filter, List.filter_filter]
  have h1 : (l.filter fun a => !p a && p a) = [] := by
    rw [List.filter_eq_nil_iff]; intro a _; simp
  have h2 : (l.filter fun a => !p a && !p a) = l.filter (fun a => !p a) := by
    apply List.filter_congr; intro a _; simp
  rw [h1, h2, List.nil_append]

/-! ## every entry's code designates its own abbreviation -/

mutual
/-- each entry's id with the abbreviation `DebuggingInformationEntry::abbreviation` builds for it -/
def Tree.abbrevs (c : Enc) : Tree → List (Nat × Abbrev)
  | .node id tag sib attrs ch => (id, abbreviation c tag sib attrs (!ch.isEmpty)) :: ch.abbrevs c
def Forest.abbrevs (c : Enc) : Forest → List (Nat × Abbrev)
  | .nil => []
  | .cons t rest => t.abbrevs c ++ rest.abbrevs c
end

mutual
theorem Tree.abbrevs_ids (c : Enc) : ∀ (t : Tree), (t.abbrevs c).map (·.1) = t.ids
  | .node id tag sib attrs ch => by simp [Tree.abbrevs, Tree.ids, Forest.abbrevs_ids c ch]
theorem Forest.abbrevs_ids (c : Enc) : ∀ (f : Forest), (f.abbrevs c).map (·.1) = f.ids
  | .nil => by simp [Forest.abbrevs, Forest.ids]
  | .cons t rest => by
    simp [Forest.abbrevs, Forest.ids, Tree.abbrevs_ids c t, Forest.abbrevs_ids c rest]
end

/-- the property that survives later insertions: the code of `p.1` is assigned and the table
holds `p.2` under it -/
def CodeOk (st : P1) (p : Nat × Abbrev) : Prop :=
  ∃ code, st.codes p.1 = some code ∧ 1 ≤ code ∧ st.abbrevs[code - 1]? = some p.2

theorem CodeOk.mono {st st' : P1} {p : Nat × Abbrev} (h : CodeOk st p)
    (hc : st'.codes p.1 = st.codes p.1) (ha : ∃ ext, st'.abbrevs = st.abbrevs ++ ext) : CodeOk st' p := by
  obtain ⟨code, h1, h2, h3⟩ := h
  obtain ⟨ext, he⟩ := ha
  refine ⟨code, hc ▸ h1, h2, ?_⟩
  have hlt : code - 1 < st.abbrevs.length := by
    rcases Nat.lt_or_ge (code - 1) st.abbrevs.length with h | h
    · exact h
    · rw [List.getElem?_eq_none h] at h3; cases h3
  rw [he, List.getElem?_append_left hlt, h3]

mutual
theorem calcTree_codes (c : Enc) : ∀ (t : Tree) (st st' : P1), calcTree c st t = .ok st' →
    t.ids.Nodup → st.abbrevs.Nodup →
    st'.abbrevs.Nodup ∧ (∃ ext, st'.abbrevs = st.abbrevs ++ ext) ∧ ∀ p ∈ t.abbrevs c, CodeOk st' p
  | .node id tag sib attrs ch, st, st', h, hnd, hta => by
    rw [calcTree] at h
    simp only at h
    obtain ⟨sz, _, h⟩ := bind_ok_inv h
    obtain ⟨s1, s2, s3, s4⟩ := abbrevAdd_spec st.abbrevs (abbreviation c tag sib attrs !ch.isEmpty)
    have hnd1 := abbrevAdd_nodup st.abbrevs (abbreviation c tag sib attrs !ch.isEmpty) hta
    have hext1 : ∃ ext, (abbrevAdd st.abbrevs (abbreviation c tag sib attrs !ch.isEmpty)).2 = st.abbrevs ++ ext := by
      rcases s4 with s4 | ⟨_, s4⟩
      · exact ⟨[], by simp [s4]⟩
      · exact ⟨_, s4⟩
    simp only [Tree.ids] at hnd
    obtain ⟨hid, hnd'⟩ := nodup_cons_inv hnd
    cases ch with
    | nil =>
      simp only [Out.pure_eq, Out.ok.injEq] at h
      subst h
      refine ⟨hnd1, hext1, ?_⟩
      intro p hp
      simp only [Tree.abbrevs, Forest.abbrevs, List.mem_cons, List.not_mem_nil, or_false] at hp
      subst hp
      exact ⟨_, by simp, s1, s3⟩
    | cons t rest =>
      simp only at h
      obtain ⟨st2, hf, h⟩ := bind_ok_inv h
      simp only [Out.pure_eq, Out.ok.injEq] at h
      subst h
      obtain ⟨i1, i2, i3⟩ := calcForest_codes c (.cons t rest) _ st2 hf hnd' hnd1
      obtain ⟨_, _, f3⟩ := calcForest_frame c (.cons t rest) _ st2 hf
      simp only at i1 i2 i3 f3
      refine ⟨i1, ?_, ?_⟩
      · obtain ⟨e1, he1⟩ := hext1
        obtain ⟨e2, he2⟩ := i2
        exact ⟨e1 ++ e2, by rw [he2, he1, List.append_assoc]⟩
      · intro p hp
        simp only [Tree.abbrevs, List.mem_cons] at hp
        rcases hp with hp | hp
        · subst hp
          refine ⟨(abbrevAdd st.abbrevs (abbreviation c tag sib attrs !(Forest.cons t rest).isEmpty)).1, ?_, s1, ?_⟩
          · rw [(f3 id hid).2]; simp
          · obtain ⟨e2, he2⟩ := i2
            rw [he2, List.getElem?_append_left (by omega)]; exact s3
        · exact i3 p hp
theorem calcForest_codes (c : Enc) : ∀ (f : Forest) (st st' : P1), calcForest c st f = .ok st' →
    f.ids.Nodup → st.abbrevs.Nodup →
    st'.abbrevs.Nodup ∧ (∃ ext, st'.abbrevs = st.abbrevs ++ ext) ∧ ∀ p ∈ f.abbrevs c, CodeOk st' p
  | .nil, st, st', h, _, hta => by
    rw [calcForest] at h
    simp only [Out.pure_eq, Out.ok.injEq] at h
    subst h
    exact ⟨hta, ⟨[], by simp⟩, by simp [Forest.abbrevs]⟩
  | .cons t rest, st, st', h, hnd, hta => by
    rw [calcForest] at h
    obtain ⟨st1, ht, h⟩ := bind_ok_inv h
    simp only [Forest.ids] at hnd
    have hnd1 : t.ids.Nodup := (List.nodup_append.mp hnd).1
    have hnd2 : rest.ids.Nodup := (List.nodup_append.mp hnd).2.1
    have hdis : ∀ j, j ∈ t.ids → j ∉ rest.ids := fun j h1 h2 =>
      (List.nodup_append.mp hnd).2.2 j h1 j h2 rfl
    obtain ⟨a1, a2, a3⟩ := calcTree_codes c t st st1 ht hnd1 hta
    obtain ⟨b1, b2, b3⟩ := calcForest_codes c rest st1 st' h hnd2 a1
    obtain ⟨_, _, f3⟩ := calcForest_frame c rest st1 st' h
    refine ⟨b1, ?_, ?_⟩
    · obtain ⟨e1, he1⟩ := a2
      obtain ⟨e2, he2⟩ := b2
      exact ⟨e1 ++ e2, by rw [he2, he1, List.append_assoc]⟩
    · intro p hp
      simp only [Forest.abbrevs, List.mem_append] at hp
      rcases hp with hp | hp
      · have hmem : p.1 ∈ t.ids := by
          rw [← Tree.abbrevs_ids c t]; exact List.mem_map_of_mem hp
        exact (a3 p hp).mono (f3 p.1 (hdis p.1 hmem)).2 b2
      · exact b3 p hp
end

/-! ## what cannot be encoded is an error -/

mutual
/-- every attribute value of every entry -/
def Tree.attrVals : Tree → List AttrVal
  | .node _ _ _ attrs ch => attrs.map (·.2) ++ ch.attrVals
def Forest.attrVals : Forest → List AttrVal
  | .nil => []
  | .cons t rest => t.attrVals ++ rest.attrVals
end

theorem attrsEmit_ok_each (cx : Ctx) : ∀ (attrs : List (Nat × AttrVal)) (pos : Nat) (em : Emit),
    attrsEmit cx pos attrs = .ok em → ∀ v ∈ attrs.map (·.2), ∃ pos' em', attrEmit cx pos' v = .ok em'
  | [], _, _, _ => by simp
  | (n, v) :: rest, pos, em, h => by
    rw [attrsEmit] at h
    obtain ⟨a, ha, h⟩ := bind_ok_inv h
    obtain ⟨r, hr, _⟩ := bind_ok_inv h
    intro w hw
    simp only [List.map_cons, List.mem_cons] at hw
    rcases hw with hw | hw
    · subst hw; exact ⟨pos, a, ha⟩
    · exact attrsEmit_ok_each cx rest _ r hr w hw

mutual
theorem emitTree_ok_each (cx : Ctx) : ∀ (t : Tree) (pos : Nat) (em : Emit), emitTree cx pos t = .ok em →
    ∀ v ∈ t.attrVals, ∃ pos' em', attrEmit cx pos' v = .ok em'
  | .node id tag sib attrs ch, pos, em, h => by
    rw [emitTree] at h
    obtain ⟨code, _, h⟩ := bind_ok_inv h
    obtain ⟨a, ha, h⟩ := bind_ok_inv h
    obtain ⟨k, hk, _⟩ := bind_ok_inv h
    intro v hv
    simp only [Tree.attrVals, List.mem_append] at hv
    rcases hv with hv | hv
    · exact attrsEmit_ok_each cx attrs _ a ha v hv
    · cases ch with
      | nil => simp [Forest.attrVals] at hv
      | cons t rest =>
        simp only at hk
        obtain ⟨k0, hk0, _⟩ := bind_ok_inv hk
        exact emitForest_ok_each cx (.cons t rest) _ k0 hk0 v hv
theorem emitForest_ok_each (cx : Ctx) : ∀ (f : Forest) (pos : Nat) (em : Emit), emitForest cx pos f = .ok em →
    ∀ v ∈ f.attrVals, ∃ pos' em', attrEmit cx pos' v = .ok em'
  | .nil, _, _, _ => by simp [Forest.attrVals]
  | .cons t rest, pos, em, h => by
    rw [emitForest] at h
    obtain ⟨a, ha, h⟩ := bind_ok_inv h
    obtain ⟨r, hr, _⟩ := bind_ok_inv h
    intro v hv
    simp only [Forest.attrVals, List.mem_append] at hv
    rcases hv with hv | hv
    · exact emitTree_ok_each cx t pos a ha v hv
    · exact emitForest_ok_each cx rest _ r hr v hv
end

theorem writeAt_length (buf : Bytes) (pos : Nat) (new out : Bytes) (h : writeAt buf pos new = .ok out) :
    out.length = buf.length ∧ pos + new.length ≤ buf.length := by
  unfold writeAt at h
  split at h
  · simp at h
  · split at h
    · simp at h
    · simp only [Out.ok.injEq] at h
      subst h
      simp only [List.length_append, List.length_take, List.length_drop]
      omega

theorem patchUnitRefs_ok (e : Endian) (word : Nat) (o : Offs) : ∀ (refs : List (Nat × Nat)) (info info' : Bytes),
    patchUnitRefs e word o info refs = .ok info' →
    info'.length = info.length ∧
      ∀ r ∈ refs, ∃ u b, o.unitOffset r.2 = .ok (some u) ∧ writeUdata e u word = .ok b ∧
        r.1 + word ≤ info.length
  | [], info, info', h => by
    simp only [patchUnitRefs, Out.ok.injEq] at h
    subst h; simp
  | (pos, id) :: rest, info, info', h => by
    rw [patchUnitRefs] at h
    obtain ⟨r, hr, h⟩ := bind_ok_inv h
    cases r with
    | none => simp at h
    | some u =>
      simp only at h
      obtain ⟨b, hb, h⟩ := bind_ok_inv h
      obtain ⟨info1, hw, h⟩ := bind_ok_inv h
      obtain ⟨l1, l2⟩ := writeAt_length _ _ _ _ hw
      obtain ⟨i1, i2⟩ := patchUnitRefs_ok e word o rest info1 info' h
      have hbl := writeUdata_length _ _ _ _ hb
      refine ⟨i1.trans l1, ?_⟩
      intro r hr'
      simp only [List.mem_cons] at hr'
      rcases hr' with hr' | hr'
      · subst hr'; exact ⟨u, b, hr, hb, by rw [← hbl]; exact l2⟩
      · obtain ⟨u', b', x1, x2, x3⟩ := i2 r hr'
        exact ⟨u', b', x1, x2, by rw [← l1]; exact x3⟩

theorem applyFixups_ok (e : Endian) (units : List Offs) : ∀ (fx : List IFix) (info info' : Bytes),
    applyFixups e units info fx = .ok info' →
    info'.length = info.length ∧
      ∀ f ∈ fx, ∃ o off b, units[f.unit]? = some o ∧ o.debugInfoOffset f.id = .ok (some off) ∧
        writeUdata e off f.size = .ok b ∧ f.pos + f.size ≤ info.length
  | [], info, info', h => by
    simp only [applyFixups, Out.ok.injEq] at h
    subst h; simp
  | f :: rest, info, info', h => by
    rw [applyFixups] at h
    cases hu : units[f.unit]? with
    | none => simp [hu] at h
    | some o =>
      simp only [hu] at h
      obtain ⟨r, hr, h⟩ := bind_ok_inv h
      cases r with
      | none => simp at h
      | some off =>
        simp only at h
        obtain ⟨b, hb, h⟩ := bind_ok_inv h
        obtain ⟨info1, hw, h⟩ := bind_ok_inv h
        obtain ⟨l1, l2⟩ := writeAt_length _ _ _ _ hw
        obtain ⟨i1, i2⟩ := applyFixups_ok e units rest info1 info' h
        have hbl := writeUdata_length _ _ _ _ hb
        refine ⟨i1.trans l1, ?_⟩
        intro g hg
        simp only [List.mem_cons] at hg
        rcases hg with hg | hg
        · subst hg; exact ⟨o, off, b, hu, hr, hb, by rw [← hbl]; exact l2⟩
        · obtain ⟨o', off', b', x0, x1, x2, x3⟩ := i2 g hg
          exact ⟨o', off', b', x0, x1, x2, by rw [← l1]; exact x3⟩

/-! ## patching -/

/-- what `EndianVec::write_at` leaves in the buffer, byte by byte -/
theorem writeAt_getElem? (buf : Bytes) (pos : Nat) (new out : Bytes) (h : writeAt buf pos new = .ok out) :
    ∀ i, out[i]? = if pos ≤ i ∧ i < pos + new.length then new[i - pos]? else buf[i]? := by
  unfold writeAt at h
  split at h
  · simp at h
  · split at h
    · simp at h
    · rename_i h1 h2
      simp only [Out.ok.injEq] at h
      subst h
      intro i
      have hp : pos ≤ buf.length := by omega
      simp only [List.getElem?_append, List.length_append, List.length_take, Nat.min_eq_left hp,
        List.getElem?_take, List.getElem?_drop]
      by_cases c1 : i < pos
      · have hn : ¬ pos ≤ i := by omega
        simp [c1, hn, show i < pos + new.length by omega]
      · by_cases c2 : i < pos + new.length
        · have : pos ≤ i := by omega
          simp [c1, c2, this]
        · have h3 : ¬ (pos ≤ i ∧ i < pos + new.length) := by omega
          simp only [c2, c1, if_false]
          have e1 : pos + new.length + (i - (pos + new.length)) = i := by omega
          simp [e1]

/-- patches in increasing order, pairwise disjoint, all inside `[lo, hi)` -/
def Placed : Nat → Nat → List (Nat × Nat) → Prop
  | lo, hi, [] => lo ≤ hi
  | lo, hi, (p, size) :: rest => lo ≤ p ∧ Placed (p + size) hi rest

theorem Placed.le : ∀ {l : List (Nat × Nat)} {lo hi : Nat}, Placed lo hi l → lo ≤ hi
  | [], _, _, h => h
  | (p, size) :: rest, lo, hi, h => by
    have := Placed.le h.2
    have := h.1
    omega

theorem Placed.weaken : ∀ {l : List (Nat × Nat)} {lo hi lo' hi' : Nat}, Placed lo hi l → lo' ≤ lo → hi ≤ hi' →
    Placed lo' hi' l
  | [], _, _, _, _, h, h1, h2 => by simp only [Placed] at h ⊢; omega
  | (p, size) :: rest, lo, hi, lo', hi', h, h1, h2 =>
    ⟨by have := h.1; omega, Placed.weaken h.2 (Nat.le_refl _) h2⟩

theorem Placed.append : ∀ {a b : List (Nat × Nat)} {lo mid hi : Nat}, Placed lo mid a → Placed mid hi b →
    Placed lo hi (a ++ b)
  | [], b, lo, mid, hi, ha, hb => by
    simp only [Placed] at ha
    exact Placed.weaken hb ha (Nat.le_refl _)
  | (p, size) :: rest, b, lo, mid, hi, ha, hb => ⟨ha.1, Placed.append ha.2 hb⟩

/-- a run of `write_at` calls -/
def applyPatches (buf : Bytes) : List (Nat × Bytes) → Out Bytes
  | [] => .ok buf
  | (pos, b) :: rest => do
    let buf ← writeAt buf pos b
    applyPatches buf rest

/-- **Patches that do not overlap all survive**: after the run every patch's bytes stand at its
position and every byte outside `[lo, hi)` is untouched. -/
theorem applyPatches_placed : ∀ (ps : List (Nat × Bytes)) (buf out : Bytes) (lo hi : Nat),
    applyPatches buf ps = .ok out → Placed lo hi (ps.map (fun p => (p.1, p.2.length))) →
    (∀ p ∈ ps, ∀ i, i < p.2.length → out[p.1 + i]? = p.2[i]?) ∧
    (∀ i, i < lo ∨ hi ≤ i → out[i]? = buf[i]?) ∧ out.length = buf.length
  | [], buf, out, lo, hi, h, _ => by
    simp only [applyPatches, Out.ok.injEq] at h
    subst h; simp
  | (pos, b) :: rest, buf, out, lo, hi, h, hp => by
    rw [applyPatches] at h
    obtain ⟨buf1, hw, h⟩ := bind_ok_inv h
    simp only [List.map_cons, Placed] at hp
    obtain ⟨i1, i2, i3⟩ := applyPatches_placed rest buf1 out (pos + b.length) hi h hp.2
    have hg := writeAt_getElem? _ _ _ _ hw
    have hle := Placed.le hp.2
    refine ⟨?_, ?_, i3.trans (writeAt_length _ _ _ _ hw).1⟩
    · intro p hmem i hi'
      simp only [List.mem_cons] at hmem
      rcases hmem with hmem | hmem
      · subst hmem
        simp only at hi' ⊢
        rw [i2 (pos + i) (Or.inl (by omega)), hg]
        have : pos ≤ pos + i ∧ pos + i < pos + b.length := by omega
        simp [this]
      · exact i1 p hmem i hi'
    · intro i hi'
      rw [i2 i (by omega), hg]
      have : ¬ (pos ≤ i ∧ i < pos + b.length) := by have := hp.1; omega
      simp [this]


def holesU (word : Nat) (em : Emit) : List (Nat × Nat) := em.urefs.map (fun r => (r.1, word))
def holesI (fx : List IFix) : List (Nat × Nat) := fx.map (fun f => (f.pos, f.size))

theorem exprItemsEmit_placed (cx : Ctx) : ∀ (items : List ExprItem) (pos : Nat) (bs : Bytes) (fx : List IFix),
    exprItemsEmit cx pos items = .ok (bs, fx) → Placed pos (pos + bs.length) (holesI fx)
  | [], pos, bs, fx, h => by
    simp only [exprItemsEmit, Out.ok.injEq, Prod.mk.injEq] at h
    obtain ⟨h1, h2⟩ := h
    subst h1 h2
    simp [holesI, Placed]
  | it :: rest, pos, bs, fx, h => by
    rw [exprItemsEmit] at h
    obtain ⟨⟨a, fa⟩, ha, h⟩ := bind_ok_inv h
    obtain ⟨⟨r, fr⟩, hr, h⟩ := bind_ok_inv h
    simp only [Out.pure_eq, Out.ok.injEq, Prod.mk.injEq] at h
    obtain ⟨h1, h2⟩ := h
    subst h1 h2
    have ih := exprItemsEmit_placed cx rest _ r fr hr
    have hfirst : Placed pos (pos + a.length) (holesI fa) := by
      cases it with
      | raw b =>
        simp only [exprItemEmit, Out.ok.injEq, Prod.mk.injEq] at ha
        obtain ⟨h1, h2⟩ := ha; subst h1 h2; simp [holesI, Placed]
      | convert id =>
        simp only [exprItemEmit] at ha
        obtain ⟨u, _, ha⟩ := bind_ok_inv ha
        cases u with
        | none => simp at ha
        | some u =>
          simp only [Out.pure_eq, Out.ok.injEq, Prod.mk.injEq] at ha
          obtain ⟨h1, h2⟩ := ha; subst h1 h2; simp [holesI, Placed]
      | call id =>
        simp only [exprItemEmit] at ha
        obtain ⟨u, _, ha⟩ := bind_ok_inv ha
        cases u with
        | none => simp at ha
        | some u =>
          simp only at ha
          obtain ⟨b, _, ha⟩ := bind_ok_inv ha
          simp only [Out.pure_eq, Out.ok.injEq, Prod.mk.injEq] at ha
          obtain ⟨h1, h2⟩ := ha; subst h1 h2; simp [holesI, Placed]
      | callRef unit id =>
        simp only [exprItemEmit] at ha
        obtain ⟨b, hb, ha⟩ := bind_ok_inv ha
        simp only [Out.pure_eq, Out.ok.injEq, Prod.mk.injEq] at ha
        obtain ⟨h1, h2⟩ := ha; subst h1 h2
        have := writeUdata_length _ _ _ _ hb
        simp only [holesI, List.map_cons, List.map_nil, Placed, List.length_cons]
        omega
    simp only [holesI, List.map_append, List.length_append] at ih ⊢
    rw [← Nat.add_assoc]
    exact Placed.append hfirst ih

theorem attrEmit_placed (cx : Ctx) (pos : Nat) (v : AttrVal) (em : Emit) (h : attrEmit cx pos v = .ok em) :
    Placed pos (pos + em.bytes.length) (holesU cx.enc.word em) ∧
    Placed pos (pos + em.bytes.length) (holesI em.ifix) := by
  cases v <;> simp only [attrEmit] at h
  case addressSym | debugInfoRefSym => simp at h
  case block | data1 | data2 | data4 | data8 | data16 | sdata | implicitConst | udata | flag
      | flagPresent | debugTypesRef | constClass | fileIndex =>
    simp only [Out.ok.injEq] at h; subst h; simp [holesU, holesI, Placed, Emit.ofBytes]
  case string bs =>
    rw [(string_emit_inv bs em h).2]; simp [holesU, holesI, Placed, Emit.ofBytes]
  case lineProgramRef =>
    cases hl : cx.lineProgram with
    | none => simp [hl] at h
    | some off =>
      simp only [hl] at h
      obtain ⟨b, _, h⟩ := bind_ok_inv h
      simp only [Out.pure_eq, Out.ok.injEq] at h; subst h; simp [holesU, holesI, Placed, Emit.ofBytes]
  case exprloc items =>
    obtain ⟨sz, _, h⟩ := bind_ok_inv h
    obtain ⟨⟨body, fx⟩, hb, h⟩ := bind_ok_inv h
    simp only [Out.pure_eq, Out.ok.injEq] at h; subst h
    have := exprItemsEmit_placed cx items _ body fx hb
    refine ⟨by simp [holesU, Placed], ?_⟩
    simp only [List.length_append]
    rw [← Nat.add_assoc]
    exact Placed.weaken this (by omega) (Nat.le_refl _)
  case stringRef idx =>
    obtain ⟨off, _, h⟩ := bind_ok_inv h
    obtain ⟨b, _, h⟩ := bind_ok_inv h
    simp only [Out.pure_eq, Out.ok.injEq] at h; subst h; simp [holesU, holesI, Placed, Emit.ofBytes]
  case lineStringRef idx =>
    obtain ⟨off, _, h⟩ := bind_ok_inv h
    obtain ⟨b, _, h⟩ := bind_ok_inv h
    simp only [Out.pure_eq, Out.ok.injEq] at h; subst h; simp [holesU, holesI, Placed, Emit.ofBytes]
  case unitRef id =>
    obtain ⟨b, hb, h⟩ := bind_ok_inv h
    simp only [Out.pure_eq, Out.ok.injEq] at h; subst h
    have := writeUdata_length _ _ _ _ hb
    simp [holesU, holesI, Placed, this]
  case debugInfoRef unit id =>
    obtain ⟨b, hb, h⟩ := bind_ok_inv h
    simp only [Out.pure_eq, Out.ok.injEq] at h; subst h
    have := writeUdata_length _ _ _ _ hb
    simp [holesU, holesI, Placed, this]
  all_goals
    (obtain ⟨b, _, h⟩ := bind_ok_inv h
     simp only [Out.pure_eq, Out.ok.injEq] at h; subst h; simp [holesU, holesI, Placed, Emit.ofBytes])

theorem holesU_append (word : Nat) (a b : Emit) : holesU word (a ++ b) = holesU word a ++ holesU word b := by
  simp [holesU]

theorem attrsEmit_placed (cx : Ctx) : ∀ (attrs : List (Nat × AttrVal)) (pos : Nat) (em : Emit),
    attrsEmit cx pos attrs = .ok em →
    Placed pos (pos + em.bytes.length) (holesU cx.enc.word em) ∧
    Placed pos (pos + em.bytes.length) (holesI em.ifix)
  | [], pos, em, h => by
    simp only [attrsEmit, Out.ok.injEq] at h; subst h; simp [holesU, holesI, Placed]
  | (n, v) :: rest, pos, em, h => by
    rw [attrsEmit] at h
    obtain ⟨a, ha, h⟩ := bind_ok_inv h
    obtain ⟨r, hr, h⟩ := bind_ok_inv h
    simp only [Out.pure_eq, Out.ok.injEq] at h; subst h
    obtain ⟨a1, a2⟩ := attrEmit_placed cx pos v a ha
    obtain ⟨r1, r2⟩ := attrsEmit_placed cx rest _ r hr
    simp only [Emit.append_bytes, List.length_append, ← Nat.add_assoc, holesU_append, Emit.append_ifix,
      holesI, List.map_append]
    exact ⟨Placed.append a1 r1, Placed.append a2 (by simpa [holesI] using r2)⟩

theorem holesI_append (a b : List IFix) : holesI (a ++ b) = holesI a ++ holesI b := by simp [holesI]

mutual
theorem emitTree_placed (cx : Ctx) : ∀ (t : Tree) (pos : Nat) (em : Emit), emitTree cx pos t = .ok em →
    Placed pos (pos + em.bytes.length) (holesU cx.enc.word em) ∧
    Placed pos (pos + em.bytes.length) (holesI em.ifix)
  | .node id tag sib attrs ch, pos, em, h => by
    rw [emitTree] at h
    obtain ⟨code, _, h⟩ := bind_ok_inv h
    obtain ⟨a, ha, h⟩ := bind_ok_inv h
    obtain ⟨k, hk, h⟩ := bind_ok_inv h
    obtain ⟨sibBs, hsib, h⟩ := bind_ok_inv h
    simp only [Out.pure_eq, Out.ok.injEq] at h
    have hsl : sibBs.length = if (sib && !ch.isEmpty) = true then cx.enc.word else 0 := by
      by_cases hc : (sib && !ch.isEmpty) = true
      · simp only [hc, if_true] at hsib ⊢; exact writeUdata_length _ _ _ _ hsib
      · have hc' : (sib && !ch.isEmpty) = false := by simpa using hc
        rw [hc'] at hsib ⊢
        simp at hsib
        subst hsib; rfl
    obtain ⟨a1, a2⟩ := attrsEmit_placed cx attrs _ a ha
    have hk' : Placed (pos + (Leb.encodeU code).length + sibBs.length + a.bytes.length)
          (pos + (Leb.encodeU code).length + sibBs.length + a.bytes.length + k.bytes.length) (holesU cx.enc.word k) ∧
        Placed (pos + (Leb.encodeU code).length + sibBs.length + a.bytes.length)
          (pos + (Leb.encodeU code).length + sibBs.length + a.bytes.length + k.bytes.length) (holesI k.ifix) := by
      rw [hsl]
      cases ch with
      | nil =>
        simp only [Out.pure_eq, Out.ok.injEq] at hk
        subst hk; simp [holesU, holesI, Placed]
      | cons t rest =>
        simp only at hk
        obtain ⟨k0, hk0, hk⟩ := bind_ok_inv hk
        simp only [Out.pure_eq, Out.ok.injEq] at hk
        subst hk
        obtain ⟨f1, f2⟩ := emitForest_placed cx (.cons t rest) _ k0 hk0
        simp only [Emit.append_bytes, Emit.ofBytes, List.length_append, holesU_append, Emit.append_ifix,
          holesI_append]
        refine ⟨?_, ?_⟩
        · have : holesU cx.enc.word ({ bytes := [0] } : Emit) = [] := rfl
          rw [this, List.append_nil]
          exact Placed.weaken f1 (Nat.le_refl _) (by omega)
        · have : holesI ({ bytes := [0] } : Emit).ifix = [] := rfl
          rw [this, List.append_nil]
          exact Placed.weaken f2 (Nat.le_refl _) (by omega)
    rw [hsl] at hk'
    rw [← hsl] at hk' a1 a2
    subst h
    simp only [Emit.append_bytes, List.length_append, holesU_append, Emit.append_ifix, holesI_append]
    have e0 : holesU cx.enc.word ({ bytes := Leb.encodeU code ++ sibBs, starts := [(id, pos)] } : Emit) = [] := rfl
    have e1 : holesI ({ bytes := Leb.encodeU code ++ sibBs, starts := [(id, pos)] } : Emit).ifix = [] := rfl
    rw [e0, e1, List.nil_append, List.nil_append]
    have hlen : pos + ((Leb.encodeU code).length + sibBs.length + a.bytes.length + k.bytes.length) =
        pos + (Leb.encodeU code).length + sibBs.length + a.bytes.length + k.bytes.length := by omega
    rw [hlen]
    exact ⟨Placed.append (Placed.weaken a1 (by omega) (Nat.le_refl _)) hk'.1,
           Placed.append (Placed.weaken a2 (by omega) (Nat.le_refl _)) hk'.2⟩
theorem emitForest_placed (cx : Ctx) : ∀ (f : Forest) (pos : Nat) (em : Emit), emitForest cx pos f = .ok em →
    Placed pos (pos + em.bytes.length) (holesU cx.enc.word em) ∧
    Placed pos (pos + em.bytes.length) (holesI em.ifix)
  | .nil, pos, em, h => by
    simp only [emitForest, Out.pure_eq, Out.ok.injEq] at h; subst h; simp [holesU, holesI, Placed]
  | .cons t rest, pos, em, h => by
    rw [emitForest] at h
    obtain ⟨a, ha, h⟩ := bind_ok_inv h
    obtain ⟨r, hr, h⟩ := bind_ok_inv h
    simp only [Out.pure_eq, Out.ok.injEq] at h; subst h
    obtain ⟨a1, a2⟩ := emitTree_placed cx t pos a ha
    obtain ⟨r1, r2⟩ := emitForest_placed cx rest _ r hr
    simp only [Emit.append_bytes, List.length_append, ← Nat.add_assoc, holesU_append, Emit.append_ifix,
      holesI_append]
    exact ⟨Placed.append a1 r1, Placed.append a2 r2⟩
end

theorem writeUdata_ok_eq (e : Endian) (v size : Nat) (bs : Bytes) (h : writeUdata e v size = .ok bs) :
    bs = toBytes e size v := by
  unfold writeUdata at h
  split at h
  · split at h
    · simp at h
    · simpa using h.symm
  · split at h
    · rename_i h8; subst h8; simpa using h.symm
    · simp at h

/-- the `unit_refs` loop over placeholders that do not overlap: afterwards every placeholder
holds the unit offset of the entry it names, and nothing outside `[lo, hi)` has changed -/
theorem patchUnitRefs_placed (e : Endian) (word : Nat) (o : Offs) : ∀ (refs : List (Nat × Nat))
    (info info' : Bytes) (lo hi : Nat), patchUnitRefs e word o info refs = .ok info' →
    Placed lo hi (refs.map (fun r => (r.1, word))) →
    (∀ r ∈ refs, ∃ u, o.unitOffset r.2 = .ok (some u) ∧
      ∀ i, i < word → info'[r.1 + i]? = (toBytes e word u)[i]?) ∧
    (∀ i, i < lo ∨ hi ≤ i → info'[i]? = info[i]?) ∧ info'.length = info.length
  | [], info, info', lo, hi, h, _ => by
    simp only [patchUnitRefs, Out.ok.injEq] at h
    subst h; simp
  | (pos, id) :: rest, info, info', lo, hi, h, hp => by
    rw [patchUnitRefs] at h
    obtain ⟨r, hr, h⟩ := bind_ok_inv h
    cases r with
    | none => simp at h
    | some u =>
      simp only at h
      obtain ⟨b, hb, h⟩ := bind_ok_inv h
      obtain ⟨info1, hw, h⟩ := bind_ok_inv h
      simp only [List.map_cons, Placed] at hp
      obtain ⟨i1, i2, i3⟩ := patchUnitRefs_placed e word o rest info1 info' (pos + word) hi h hp.2
      have hg := writeAt_getElem? _ _ _ _ hw
      have hbl := writeUdata_length _ _ _ _ hb
      have hbe := writeUdata_ok_eq _ _ _ _ hb
      have hle := Placed.le hp.2
      refine ⟨?_, ?_, i3.trans (writeAt_length _ _ _ _ hw).1⟩
      · intro r hmem
        simp only [List.mem_cons] at hmem
        rcases hmem with hmem | hmem
        · subst hmem
          refine ⟨u, hr, ?_⟩
          intro i hi'
          simp only
          rw [i2 (pos + i) (Or.inl (by omega)), hg, hbl]
          have : pos ≤ pos + i ∧ pos + i < pos + word := by omega
          simp [this, hbe]
        · exact i1 r hmem
      · intro i hi'
        rw [i2 i (by omega), hg, hbl]
        have : ¬ (pos ≤ i ∧ i < pos + word) := by have := hp.1; omega
        simp [this]

/-- the same for `write_debug_info_fixups` -/
theorem applyFixups_placed (e : Endian) (units : List Offs) : ∀ (fx : List IFix) (info info' : Bytes)
    (lo hi : Nat), applyFixups e units info fx = .ok info' → Placed lo hi (holesI fx) →
    (∀ f ∈ fx, ∃ o off, units[f.unit]? = some o ∧ o.debugInfoOffset f.id = .ok (some off) ∧
      ∀ i, i < f.size → info'[f.pos + i]? = (toBytes e f.size off)[i]?) ∧
    (∀ i, i < lo ∨ hi ≤ i → info'[i]? = info[i]?) ∧ info'.length = info.length
  | [], info, info', lo, hi, h, _ => by
    simp only [applyFixups, Out.ok.injEq] at h
    subst h; simp
  | f :: rest, info, info', lo, hi, h, hp => by
    rw [applyFixups] at h
    cases hu : units[f.unit]? with
    | none => simp [hu] at h
    | some o =>
      simp only [hu] at h
      obtain ⟨r, hr, h⟩ := bind_ok_inv h
      cases r with
      | none => simp at h
      | some off =>
        simp only at h
        obtain ⟨b, hb, h⟩ := bind_ok_inv h
        obtain ⟨info1, hw, h⟩ := bind_ok_inv h
        simp only [holesI, List.map_cons, Placed] at hp
        obtain ⟨i1, i2, i3⟩ := applyFixups_placed e units rest info1 info' (f.pos + f.size) hi h hp.2
        have hg := writeAt_getElem? _ _ _ _ hw
        have hbl := writeUdata_length _ _ _ _ hb
        have hbe := writeUdata_ok_eq _ _ _ _ hb
        have hle := Placed.le hp.2
        refine ⟨?_, ?_, i3.trans (writeAt_length _ _ _ _ hw).1⟩
        · intro g hmem
          simp only [List.mem_cons] at hmem
          rcases hmem with hmem | hmem
          · subst hmem
            refine ⟨o, off, hu, hr, ?_⟩
            intro i hi'
            rw [i2 (g.pos + i) (Or.inl (by omega)), hg, hbl]
            have : g.pos ≤ g.pos + i ∧ g.pos + i < g.pos + g.size := by omega
            simp [this, hbe]
          · exact i1 g hmem
        · intro i hi'
          rw [i2 i (by omega), hg, hbl]
          have : ¬ (f.pos ≤ i ∧ i < f.pos + f.size) := by have := hp.1; omega
          simp [this]

/-- **Every `UnitRef` placeholder ends up holding the unit offset of the entry it names.**
`pre` is everything in `.debug_info` before the root entry (earlier units, this unit's header),
`em` what pass 2 emitted for the tree.  After the `unit_refs` loop, for every recorded reference
`(pos, id)`: the entry `id` was written by pass 2 at some position `target`, pass 1 had assigned
exactly `target` to it, and the `word` bytes at `pos` are the encoding of `target - unitOff`.
Nothing before the root entry is modified. -/
theorem unit_refs_resolve' (cx : Ctx) (t : Tree) (unitOff n : Nat) (p1 : P1) (em : Emit) (pre info' : Bytes)
    (hnd : t.ids.Nodup)
    (hc : calcTree cx.enc (p1Init pre.length unitOff n) t = .ok p1)
    (hoffs : cx.offs = p1.offs) (hcodes : cx.codes = p1.codes)
    (he : emitTree cx pre.length t = .ok em)
    (hp : patchUnitRefs cx.endian cx.enc.word p1.offs (pre ++ em.bytes) em.urefs = .ok info') :
    (∀ r ∈ em.urefs, ∃ target, (r.2, target) ∈ em.starts ∧ p1.offs.map r.2 = some target ∧
      ∀ i, i < cx.enc.word → info'[r.1 + i]? = (toBytes cx.endian cx.enc.word (target - unitOff))[i]?) ∧
    (∀ i, i < pre.length → info'[i]? = pre[i]?) ∧ info'.length = pre.length + em.bytes.length := by
  have hx : p1.ExtCx cx := ⟨hoffs ▸ Offs.Ext.refl _, fun j c hj => by rw [hcodes]; exact hj⟩
  obtain ⟨e1, e2, e3⟩ := emitTree_exact cx t _ p1 em hc he hnd (fun _ _ => ⟨rfl, rfl⟩) hx
  obtain ⟨f1, f2, f3⟩ := calcTree_frame cx.enc t _ p1 hc
  obtain ⟨pl, _⟩ := emitTree_placed cx t _ em he
  obtain ⟨q1, q2, q3⟩ := patchUnitRefs_placed cx.endian cx.enc.word p1.offs em.urefs _ info' _ _ hp pl
  refine ⟨?_, ?_, by rw [q3, List.length_append]⟩
  · intro r hr
    obtain ⟨u, hu, hbytes⟩ := q1 r hr
    -- the offset pass 1 holds for `r.2`
    unfold Offs.unitOffset Offs.debugInfoOffset at hu
    by_cases hlt : r.2 < p1.offs.n
    · simp only [hlt, if_true, Out.bind_ok, Out.pure_eq, Out.ok.injEq] at hu
      cases hm : p1.offs.map r.2 with
      | none => simp [hm] at hu
      | some off =>
        simp only [hm, Option.map_some, Option.some.injEq] at hu
        have hmem : r.2 ∈ t.ids := by
          apply Classical.byContradiction
          intro hn
          have := (f3 r.2 hn).1
          simp only [p1Init] at this
          rw [this] at hm; cases hm
        rw [← e3] at hmem
        obtain ⟨p, hp1, hp2⟩ := List.mem_map.mp hmem
        have hst := e2 p hp1
        rw [hoffs, hp2, hm] at hst
        have htar : p.2 = off := (Option.some.inj hst).symm
        refine ⟨off, ?_, rfl, ?_⟩
        · have : p = (r.2, off) := by rw [← hp2, ← htar]
          rw [← this]; exact hp1
        · intro i hi
          rw [hbytes i hi, ← hu]
          have : p1.offs.unit = unitOff := by rw [f1]; rfl
          rw [this]
    · simp [hlt] at hu
  · intro i hi
    rw [q2 i (Or.inl hi), List.getElem?_append_left hi]

/-! ## `Unit::write` and `Dwarf::write` as a whole -/

theorem writeInitialLength_length (e : Endian) (f : Format) (len : Nat) (lf : Bytes)
    (h : writeInitialLength e f len = .ok lf) : lf.length = initLenSize f := by
  cases f with
  | dwarf32 =>
    simp only [writeInitialLength] at h
    split at h
    · simp at h
    · exact writeUdata_length _ _ _ _ h
  | dwarf64 =>
    simp only [writeInitialLength] at h
    obtain ⟨bs, hb, h⟩ := bind_ok_inv h
    simp only [Out.pure_eq, Out.ok.injEq] at h
    subst h
    simp [initLenSize, toBytes_length, writeUdata_length _ _ _ _ hb]

/-- the steps of a successful `Unit::write`, named -/
theorem writeUnit_inv (e : Endian) (so lso : List Nat) (s s' : Sec) (u : UnitIn) (o : Offs)
    (h : writeUnit e so lso s u = .ok (s', o)) :
    ∃ hdr p1 em lf,
      unitHeader e u.enc s.abbr.length = .ok hdr ∧
      calcTree u.enc (p1Init (s.info.length + initLenSize u.enc.format + hdr.length) s.info.length u.nEntries)
        (unitRoot u) = .ok p1 ∧
      emitTree (unitCtx e so lso u p1) (s.info.length + initLenSize u.enc.format + hdr.length) (unitRoot u) = .ok em ∧
      writeInitialLength e u.enc.format (hdr.length + em.bytes.length) = .ok lf ∧
      patchUnitRefs e u.enc.word p1.offs (s.info ++ lf ++ hdr ++ em.bytes) em.urefs = .ok s'.info ∧
      s'.abbr = s.abbr ++ abbrevTableWrite p1.abbrevs ∧ s'.ifix = s.ifix ++ em.ifix ∧ o = p1.offs := by
  unfold writeUnit at h
  simp only at h
  split at h
  · simp at h
  obtain ⟨hdr, h1, h⟩ := bind_ok_inv h
  obtain ⟨p1, h2, h⟩ := bind_ok_inv h
  obtain ⟨em, h3, h⟩ := bind_ok_inv h
  obtain ⟨lf, h4, h⟩ := bind_ok_inv h
  obtain ⟨info, h5, h⟩ := bind_ok_inv h
  simp only [Out.pure_eq, Out.ok.injEq, Prod.mk.injEq] at h
  obtain ⟨hs, ho⟩ := h
  subst hs ho
  exact ⟨hdr, p1, em, lf, h1, h2, h3, h4, h5, rfl, rfl, rfl⟩

/-- a unit write leaves the bytes of earlier units alone and appends exactly its own bytes -/
theorem writeUnit_frame (e : Endian) (so lso : List Nat) (s s' : Sec) (u : UnitIn) (o : Offs)
    (h : writeUnit e so lso s u = .ok (s', o)) : ∀ i, i < s.info.length → s'.info[i]? = s.info[i]? := by
  obtain ⟨hdr, p1, em, lf, _, _, h3, h4, h5, _, _, _⟩ := writeUnit_inv e so lso s s' u o h
  obtain ⟨pu, _⟩ := emitTree_placed _ _ _ _ h3
  have hl := writeInitialLength_length _ _ _ _ h4
  have hpre : (s.info ++ lf ++ hdr).length = s.info.length + initLenSize u.enc.format + hdr.length := by
    simp [hl]; omega
  have hpu : Placed (s.info ++ lf ++ hdr).length ((s.info ++ lf ++ hdr).length + em.bytes.length)
      (List.map (fun r => (r.1, u.enc.word)) em.urefs) := by rw [hpre]; exact pu
  obtain ⟨_, q2, _⟩ := patchUnitRefs_placed e u.enc.word p1.offs em.urefs _ s'.info _ _ h5 hpu
  intro i hi
  rw [q2 i (Or.inl (by rw [hpre]; omega))]
  rw [List.append_assoc, List.append_assoc, List.getElem?_append_left hi]

/-- the pending cross-unit fix-ups stay ordered, disjoint and inside the section -/
theorem writeUnit_ifix_placed (e : Endian) (so lso : List Nat) (s s' : Sec) (u : UnitIn) (o : Offs)
    (h : writeUnit e so lso s u = .ok (s', o)) (hp : Placed 0 s.info.length (holesI s.ifix)) :
    Placed 0 s'.info.length (holesI s'.ifix) ∧ s.info.length ≤ s'.info.length ∧
      ∀ i, i < s.info.length → s'.info[i]? = s.info[i]? := by
  obtain ⟨hdr, p1, em, lf, _, _, h3, h4, h5, _, h7, _⟩ := writeUnit_inv e so lso s s' u o h
  obtain ⟨_, pl⟩ := emitTree_placed _ _ _ _ h3
  obtain ⟨pu, _⟩ := emitTree_placed _ _ _ _ h3
  have hl := writeInitialLength_length _ _ _ _ h4
  have hpre : (s.info ++ lf ++ hdr).length = s.info.length + initLenSize u.enc.format + hdr.length := by
    simp [hl]; omega
  have hpu : Placed (s.info ++ lf ++ hdr).length ((s.info ++ lf ++ hdr).length + em.bytes.length)
      (List.map (fun r => (r.1, u.enc.word)) em.urefs) := by rw [hpre]; exact pu
  obtain ⟨_, q2, q3⟩ := patchUnitRefs_placed e u.enc.word p1.offs em.urefs _ s'.info _ _ h5 hpu
  have hlen : s'.info.length = s.info.length + initLenSize u.enc.format + hdr.length + em.bytes.length := by
    rw [q3]; simp [hl]; omega
  refine ⟨?_, by omega, ?_⟩
  · rw [h7, holesI_append, hlen]
    exact Placed.append (Placed.weaken hp (Nat.le_refl _) (by omega)) pl
  · intro i hi
    rw [q2 i (Or.inl (by rw [hpre]; omega))]
    rw [List.append_assoc, List.append_assoc, List.getElem?_append_left hi]

theorem writeUnits_ifix_placed (e : Endian) (so lso : List Nat) : ∀ (units : List UnitIn) (s s' : Sec)
    (offs : List Offs), writeUnits e so lso s units = .ok (s', offs) →
    Placed 0 s.info.length (holesI s.ifix) → Placed 0 s'.info.length (holesI s'.ifix)
  | [], s, s', offs, h, hp => by
    simp only [writeUnits, Out.ok.injEq, Prod.mk.injEq] at h
    rw [← h.1]; exact hp
  | u :: rest, s, s', offs, h, hp => by
    rw [writeUnits] at h
    obtain ⟨⟨s1, o⟩, h1, h⟩ := bind_ok_inv h
    obtain ⟨⟨s2, os⟩, h2, h⟩ := bind_ok_inv h
    simp only [Out.pure_eq, Out.ok.injEq, Prod.mk.injEq] at h
    rw [← h.1]
    exact writeUnits_ifix_placed e so lso rest s1 s2 os h2 (writeUnit_ifix_placed e so lso s s1 u o h1 hp).1

/-- the `DW_AT_sibling` value of an entry is the unit offset of the first byte after everything
the entry and its subtree emitted -/
theorem sibling_value (cx : Ctx) (pos id tag : Nat) (attrs : List (Nat × AttrVal)) (t : Tree) (rest : Forest)
    (em : Emit) (h : emitTree cx pos (.node id tag true attrs (.cons t rest)) = .ok em) :
    ∃ code tail, em.bytes = Leb.encodeU code ++
        toBytes cx.endian cx.enc.word (pos + em.bytes.length - cx.offs.unit) ++ tail := by
  rw [emitTree] at h
  obtain ⟨code, _, h⟩ := bind_ok_inv h
  obtain ⟨a, ha, h⟩ := bind_ok_inv h
  obtain ⟨k, hk, h⟩ := bind_ok_inv h
  obtain ⟨sibBs, hsib, h⟩ := bind_ok_inv h
  simp only [Forest.isEmpty, Bool.not_false, Bool.and_true, if_true] at hsib
  simp only [Out.pure_eq, Out.ok.injEq] at h
  have hl := writeUdata_length _ _ _ _ hsib
  have he := writeUdata_ok_eq _ _ _ _ hsib
  refine ⟨code, a.bytes ++ k.bytes, ?_⟩
  subst h
  simp only [Emit.append_bytes, List.append_assoc] at he ⊢
  rw [he]
  congr 3
  simp only [List.length_append, toBytes_length]
  omega

/-! ## patched references survive everything that is written later -/

theorem Placed.within : ∀ {l : List (Nat × Nat)} {lo hi : Nat}, Placed lo hi l →
    ∀ h ∈ l, lo ≤ h.1 ∧ h.1 + h.2 ≤ hi
  | [], _, _, _, h, hm => by simp at hm
  | (p, size) :: rest, lo, hi, hp, h, hm => by
    simp only [List.mem_cons] at hm
    rcases hm with hm | hm
    · subst hm
      have := Placed.le hp.2
      exact ⟨hp.1, this⟩
    · have := Placed.within hp.2 h hm
      have h1 := hp.1
      exact ⟨by omega, this.2⟩

/-- `write_debug_info_fixups` changes nothing outside the placeholders it patches -/
theorem applyFixups_frame (e : Endian) (units : List Offs) : ∀ (fx : List IFix) (info info' : Bytes),
    applyFixups e units info fx = .ok info' →
    ∀ i, (∀ f ∈ fx, i < f.pos ∨ f.pos + f.size ≤ i) → info'[i]? = info[i]?
  | [], info, info', h => by
    simp only [applyFixups, Out.ok.injEq] at h
    subst h; simp
  | f :: rest, info, info', h => by
    rw [applyFixups] at h
    cases hu : units[f.unit]? with
    | none => simp [hu] at h
    | some o =>
      simp only [hu] at h
      obtain ⟨r, _, h⟩ := bind_ok_inv h
      cases r with
      | none => simp at h
      | some off =>
        simp only at h
        obtain ⟨b, hb, h⟩ := bind_ok_inv h
        obtain ⟨info1, hw, h⟩ := bind_ok_inv h
        intro i hi
        rw [applyFixups_frame e units rest info1 info' h i (fun g hg => hi g (List.mem_cons_of_mem _ hg))]
        rw [writeAt_getElem? _ _ _ _ hw, writeUdata_length _ _ _ _ hb]
        have := hi f (List.mem_cons_self ..)
        have hn : ¬ (f.pos ≤ i ∧ i < f.pos + f.size) := by omega
        simp [hn]

/-- no `UnitRef` placeholder overlaps a fix-up placeholder -/
def CrossDisj (word : Nat) (em : Emit) : Prop :=
  ∀ r ∈ em.urefs, ∀ f ∈ em.ifix, r.1 + word ≤ f.pos ∨ f.pos + f.size ≤ r.1

theorem crossDisj_append (word : Nat) (a b : Emit) (lo mid hi : Nat)
    (ha : CrossDisj word a) (hb : CrossDisj word b)
    (au : Placed lo mid (holesU word a)) (ai : Placed lo mid (holesI a.ifix))
    (bu : Placed mid hi (holesU word b)) (bi : Placed mid hi (holesI b.ifix)) :
    CrossDisj word (a ++ b) := by
  intro r hr f hf
  simp only [Emit.append_urefs, Emit.append_ifix, List.mem_append] at hr hf
  have wu : ∀ (x : Emit) (l h : Nat), Placed l h (holesU word x) → ∀ r ∈ x.urefs, l ≤ r.1 ∧ r.1 + word ≤ h := by
    intro x l h hp r hr
    exact Placed.within hp (r.1, word) (List.mem_map.mpr ⟨r, hr, rfl⟩)
  have wi : ∀ (x : List IFix) (l h : Nat), Placed l h (holesI x) → ∀ f ∈ x, l ≤ f.pos ∧ f.pos + f.size ≤ h := by
    intro x l h hp f hf
    exact Placed.within hp (f.pos, f.size) (List.mem_map.mpr ⟨f, hf, rfl⟩)
  rcases hr with hr | hr <;> rcases hf with hf | hf
  · exact ha r hr f hf
  · have := wu a lo mid au r hr; have := wi b.ifix mid hi bi f hf; omega
  · have := wu b mid hi bu r hr; have := wi a.ifix lo mid ai f hf; omega
  · exact hb r hr f hf

theorem attrEmit_crossDisj (cx : Ctx) (pos : Nat) (v : AttrVal) (em : Emit) (h : attrEmit cx pos v = .ok em) :
    em.urefs = [] ∨ em.ifix = [] := by
  cases v <;> simp only [attrEmit] at h
  case addressSym | debugInfoRefSym => simp at h
  case block | data1 | data2 | data4 | data8 | data16 | sdata | implicitConst | udata | flag
      | flagPresent | debugTypesRef | constClass | fileIndex =>
    simp only [Out.ok.injEq] at h; subst h; left; rfl
  case string bs =>
    rw [(string_emit_inv bs em h).2]; left; rfl
  case lineProgramRef =>
    cases hl : cx.lineProgram with
    | none => simp [hl] at h
    | some off =>
      simp only [hl] at h
      obtain ⟨b, _, h⟩ := bind_ok_inv h
      simp only [Out.pure_eq, Out.ok.injEq] at h; subst h; left; rfl
  case exprloc items =>
    obtain ⟨sz, _, h⟩ := bind_ok_inv h
    obtain ⟨⟨body, fx⟩, hb, h⟩ := bind_ok_inv h
    simp only [Out.pure_eq, Out.ok.injEq] at h; subst h; left; rfl
  case stringRef idx =>
    obtain ⟨off, _, h⟩ := bind_ok_inv h
    obtain ⟨b, _, h⟩ := bind_ok_inv h
    simp only [Out.pure_eq, Out.ok.injEq] at h; subst h; left; rfl
  case lineStringRef idx =>
    obtain ⟨off, _, h⟩ := bind_ok_inv h
    obtain ⟨b, _, h⟩ := bind_ok_inv h
    simp only [Out.pure_eq, Out.ok.injEq] at h; subst h; left; rfl
  case unitRef id =>
    obtain ⟨b, hb, h⟩ := bind_ok_inv h
    simp only [Out.pure_eq, Out.ok.injEq] at h; subst h; right; rfl
  all_goals
    (obtain ⟨b, _, h⟩ := bind_ok_inv h
     simp only [Out.pure_eq, Out.ok.injEq] at h; subst h; left; rfl)

theorem attrsEmit_crossDisj (cx : Ctx) : ∀ (attrs : List (Nat × AttrVal)) (pos : Nat) (em : Emit),
    attrsEmit cx pos attrs = .ok em → CrossDisj cx.enc.word em
  | [], pos, em, h => by
    simp only [attrsEmit, Out.ok.injEq] at h; subst h
    intro r hr; simp at hr
  | (n, v) :: rest, pos, em, h => by
    rw [attrsEmit] at h
    obtain ⟨a, ha, h⟩ := bind_ok_inv h
    obtain ⟨r, hr, h⟩ := bind_ok_inv h
    simp only [Out.pure_eq, Out.ok.injEq] at h; subst h
    obtain ⟨a1, a2⟩ := attrEmit_placed cx pos v a ha
    obtain ⟨r1, r2⟩ := attrsEmit_placed cx rest _ r hr
    have ca : CrossDisj cx.enc.word a := by
      intro x hx f hf
      rcases attrEmit_crossDisj cx pos v a ha with h0 | h0
      · rw [h0] at hx; simp at hx
      · rw [h0] at hf; simp at hf
    exact crossDisj_append _ a r pos _ _ ca (attrsEmit_crossDisj cx rest _ r hr) a1 a2 r1 r2

mutual
theorem emitTree_crossDisj (cx : Ctx) : ∀ (t : Tree) (pos : Nat) (em : Emit), emitTree cx pos t = .ok em →
    CrossDisj cx.enc.word em
  | .node id tag sib attrs ch, pos, em, h => by
    rw [emitTree] at h
    obtain ⟨code, _, h⟩ := bind_ok_inv h
    obtain ⟨a, ha, h⟩ := bind_ok_inv h
    obtain ⟨k, hk, h⟩ := bind_ok_inv h
    obtain ⟨sibBs, _, h⟩ := bind_ok_inv h
    simp only [Out.pure_eq, Out.ok.injEq] at h
    subst h
    obtain ⟨a1, a2⟩ := attrsEmit_placed cx attrs _ a ha
    have ca := attrsEmit_crossDisj cx attrs _ a ha
    -- the children (with their null terminator): same holes as the forest's emission
    have hk' : CrossDisj cx.enc.word k ∧
        ∃ hi, Placed ((pos + (Leb.encodeU code).length + if (sib && !ch.isEmpty) = true then cx.enc.word else 0) + a.bytes.length) hi
            (holesU cx.enc.word k) ∧
          Placed ((pos + (Leb.encodeU code).length + if (sib && !ch.isEmpty) = true then cx.enc.word else 0) + a.bytes.length) hi
            (holesI k.ifix) := by
      cases ch with
      | nil =>
        simp only [Out.pure_eq, Out.ok.injEq] at hk
        subst hk
        exact ⟨fun r hr => by simp at hr, _, by show _ ≤ _; exact Nat.le_refl _, by show _ ≤ _; exact Nat.le_refl _⟩
      | cons t rest =>
        simp only at hk
        obtain ⟨k0, hk0, hk⟩ := bind_ok_inv hk
        simp only [Out.pure_eq, Out.ok.injEq] at hk
        subst hk
        obtain ⟨f1, f2⟩ := emitForest_placed cx (.cons t rest) _ k0 hk0
        have c0 := emitForest_crossDisj cx (.cons t rest) _ k0 hk0
        have cc : CrossDisj cx.enc.word (k0 ++ Emit.ofBytes [0]) := by
          intro r hr f hf
          simp only [Emit.append_urefs, Emit.append_ifix, Emit.ofBytes, List.append_nil] at hr hf
          exact c0 r hr f hf
        have e1 : holesU cx.enc.word (k0 ++ Emit.ofBytes [0]) = holesU cx.enc.word k0 := by
          simp [holesU, Emit.ofBytes]
        have e2 : holesI (k0 ++ Emit.ofBytes [0]).ifix = holesI k0.ifix := by
          simp [holesI, Emit.ofBytes]
        exact ⟨cc, _, e1 ▸ f1, e2 ▸ f2⟩
    obtain ⟨ck, hi, k1, k2⟩ := hk'
    have c1 : CrossDisj cx.enc.word (a ++ k) := crossDisj_append _ a k _ _ hi ca ck a1 a2 k1 k2
    intro r hr f hf
    simp only [Emit.append_urefs, Emit.append_ifix, List.nil_append] at hr hf
    exact c1 r (by simpa using hr) f (by simpa using hf)
theorem emitForest_crossDisj (cx : Ctx) : ∀ (f : Forest) (pos : Nat) (em : Emit), emitForest cx pos f = .ok em →
    CrossDisj cx.enc.word em
  | .nil, pos, em, h => by
    simp only [emitForest, Out.pure_eq, Out.ok.injEq] at h; subst h
    intro r hr; simp at hr
  | .cons t rest, pos, em, h => by
    rw [emitForest] at h
    obtain ⟨a, ha, h⟩ := bind_ok_inv h
    obtain ⟨r, hr, h⟩ := bind_ok_inv h
    simp only [Out.pure_eq, Out.ok.injEq] at h; subst h
    obtain ⟨a1, a2⟩ := emitTree_placed cx t pos a ha
    obtain ⟨r1, r2⟩ := emitForest_placed cx rest _ r hr
    exact crossDisj_append _ a r pos _ _ (emitTree_crossDisj cx t pos a ha)
      (emitForest_crossDisj cx rest _ r hr) a1 a2 r1 r2
end

/-- one unit: everything it queues lies behind what was there before -/
theorem writeUnit_later (e : Endian) (so lso : List Nat) (s s' : Sec) (u : UnitIn) (o : Offs)
    (h : writeUnit e so lso s u = .ok (s', o)) :
    ∃ later, s'.ifix = s.ifix ++ later ∧ ∀ f ∈ later, s.info.length ≤ f.pos := by
  obtain ⟨hdr, p1, em, lf, _, _, h3, _, _, _, h7, _⟩ := writeUnit_inv e so lso s s' u o h
  obtain ⟨_, pl⟩ := emitTree_placed _ _ _ _ h3
  refine ⟨em.ifix, h7, ?_⟩
  intro f hf
  have := Placed.within pl (f.pos, f.size) (List.mem_map.mpr ⟨f, hf, rfl⟩)
  simp only at this
  omega

/-- later units only append: the bytes of earlier units stay, and every fix-up queued later
lies behind them -/
theorem writeUnits_frame (e : Endian) (so lso : List Nat) : ∀ (units : List UnitIn) (s s' : Sec)
    (offs : List Offs), writeUnits e so lso s units = .ok (s', offs) →
    s.info.length ≤ s'.info.length ∧ (∀ i, i < s.info.length → s'.info[i]? = s.info[i]?) ∧
      ∃ later, s'.ifix = s.ifix ++ later ∧ ∀ f ∈ later, s.info.length ≤ f.pos
  | [], s, s', offs, h => by
    simp only [writeUnits, Out.ok.injEq, Prod.mk.injEq] at h
    rw [← h.1]
    exact ⟨Nat.le_refl _, fun _ _ => rfl, [], by simp, by simp⟩
  | u :: rest, s, s', offs, h => by
    rw [writeUnits] at h
    obtain ⟨⟨s1, o⟩, h1, h⟩ := bind_ok_inv h
    obtain ⟨⟨s2, os⟩, h2, h⟩ := bind_ok_inv h
    simp only [Out.pure_eq, Out.ok.injEq, Prod.mk.injEq] at h
    rw [← h.1]
    obtain ⟨l1, hl1, hl1'⟩ := writeUnit_later e so lso s s1 u o h1
    have fr1 := writeUnit_frame e so lso s s1 u o h1
    obtain ⟨hdr, p1, em, lf, _, _, _, h4, h5, _, _, _⟩ := writeUnit_inv e so lso s s1 u o h1
    have len1 : s.info.length ≤ s1.info.length := by
      have := (patchUnitRefs_ok _ _ _ _ _ _ h5).1
      rw [this]; simp only [List.length_append]; omega
    obtain ⟨a1, a2, l2, hl2, hl2'⟩ := writeUnits_frame e so lso rest s1 s2 os h2
    refine ⟨by omega, ?_, l1 ++ l2, by rw [hl2, hl1, List.append_assoc], ?_⟩
    · intro i hi
      rw [a2 i (by omega), fr1 i hi]
    · intro f hf
      simp only [List.mem_append] at hf
      rcases hf with hf | hf
      · exact hl1' f hf
      · have := hl2' f hf; omega

/-- **`UnitRef` values survive to the end of `Dwarf::write`.** Write unit `u` on top of `s0`, then
any further units, then patch all queued cross-unit fix-ups: in the final `.debug_info` every
`UnitRef` placeholder of `u` still holds the unit offset of the entry it names (as in
`unit_refs_resolve'`), because no fix-up placeholder overlaps it and later units only append. -/
theorem unit_refs_final (e : Endian) (so lso : List Nat) (s0 s1 s2 : Sec) (u : UnitIn) (o : Offs)
    (post : List UnitIn) (offs2 allOffs : List Offs) (info : Bytes)
    (hnd : (unitRoot u).ids.Nodup)
    (hp0 : Placed 0 s0.info.length (holesI s0.ifix))
    (h1 : writeUnit e so lso s0 u = .ok (s1, o))
    (h2 : writeUnits e so lso s1 post = .ok (s2, offs2))
    (h3 : applyFixups e allOffs s2.info s2.ifix = .ok info) :
    ∃ (hdr : Bytes) (p1 : P1) (em : Emit),
      calcTree u.enc (p1Init (s0.info.length + initLenSize u.enc.format + hdr.length) s0.info.length u.nEntries)
        (unitRoot u) = .ok p1 ∧
      emitTree (unitCtx e so lso u p1) (s0.info.length + initLenSize u.enc.format + hdr.length) (unitRoot u) = .ok em ∧
      o = p1.offs ∧
      ∀ r ∈ em.urefs, ∃ target, (r.2, target) ∈ em.starts ∧ p1.offs.map r.2 = some target ∧
        ∀ i, i < u.enc.word → info[r.1 + i]? = (toBytes e u.enc.word (target - s0.info.length))[i]? := by
  obtain ⟨hdr, p1, em, lf, _, c2, c3, c4, c5, _, c7, co⟩ := writeUnit_inv e so lso s0 s1 u o h1
  have hl := writeInitialLength_length _ _ _ _ c4
  have hpre : (s0.info ++ lf ++ hdr).length = s0.info.length + initLenSize u.enc.format + hdr.length := by
    simp [hl]; omega
  refine ⟨hdr, p1, em, c2, c3, co, ?_⟩
  have c2' := c2; have c3' := c3
  rw [← hpre] at c2' c3'
  obtain ⟨res, _, _⟩ := unit_refs_resolve' (unitCtx e so lso u p1) (unitRoot u) s0.info.length u.nEntries p1 em
    (s0.info ++ lf ++ hdr) s1.info hnd c2' rfl rfl c3' c5
  obtain ⟨pu, pi⟩ := emitTree_placed _ _ _ _ c3
  have cd := emitTree_crossDisj _ _ _ _ c3
  obtain ⟨_, inb⟩ := patchUnitRefs_ok _ _ _ _ _ _ c5
  have len1 : s1.info.length = (s0.info ++ lf ++ hdr ++ em.bytes).length := (patchUnitRefs_ok _ _ _ _ _ _ c5).1
  obtain ⟨_, fr2, later, hlater, hlater'⟩ := writeUnits_frame e so lso post s1 s2 offs2 h2
  intro r hr
  obtain ⟨target, t1, t2, t3⟩ := res r hr
  refine ⟨target, t1, t2, ?_⟩
  intro i hi
  have t3' : s1.info[r.1 + i]? = (toBytes e u.enc.word (target - s0.info.length))[i]? := t3 i hi
  rw [← t3']
  obtain ⟨_, _, _, _, hb⟩ := inb r hr
  have hj : r.1 + i < s1.info.length := by
    rw [len1]
    have hw : (unitCtx e so lso u p1).enc.word = u.enc.word := rfl
    omega
  have hstart := Placed.within pu (r.1, u.enc.word) (List.mem_map.mpr ⟨r, hr, rfl⟩)
  simp only at hstart
  rw [applyFixups_frame e allOffs s2.ifix s2.info info h3 (r.1 + i) ?_, fr2 (r.1 + i) hj]
  intro f hf
  rw [hlater, c7] at hf
  simp only [List.mem_append] at hf
  rcases hf with (hf | hf) | hf
  · have := Placed.within hp0 (f.pos, f.size) (List.mem_map.mpr ⟨f, hf, rfl⟩)
    simp only at this
    right; omega
  · have := cd r hr f hf
    have hw : (unitCtx e so lso u p1).enc.word = u.enc.word := rfl
    rw [hw] at this
    omega
  · have := hlater' f hf
    left; omega


/-! ## the emitted bytes are the encoding the form's reader decodes -/

theorem readCStr_roundtrip : ∀ (s rest : Bytes), (∀ b ∈ s, b ≠ 0) → readCStr (s ++ 0 :: rest) = .ok (s, rest)
  | [], rest, _ => by simp [readCStr]
  | b :: s, rest, h => by
    have hb : b ≠ 0 := h b (List.mem_cons_self ..)
    have ih := readCStr_roundtrip s rest (fun x hx => h x (List.mem_cons_of_mem _ hx))
    simp [readCStr, hb, ih]

set_option linter.unusedSimpArgs false in
theorem block_roundtrip (b rest : Bytes) (hb : b.length < 2 ^ 64) (form : Nat) (e : Endian) (c : Enc)
    (hf : form = DW_FORM_block ∨ form = DW_FORM_exprloc) :
    readForm e c form (Leb.encodeU b.length ++ b ++ rest) = .ok (.bytes b, rest) := by
  have h1 := Leb.unsigned_roundtrip b.length hb (b ++ rest)
  have h2 : take b.length (b ++ rest) = .ok (b, rest) := by
    rw [take_ok _ _ (by simp)]; simp
  rcases hf with hf | hf <;> subst hf <;>
    simp [readForm, DW_FORM_block, DW_FORM_exprloc, DW_FORM_addr, DW_FORM_data1, DW_FORM_flag, DW_FORM_data2,
      DW_FORM_data4, DW_FORM_ref4, DW_FORM_ref_sup4, DW_FORM_data8, DW_FORM_ref8, DW_FORM_ref_sup8,
      DW_FORM_ref_sig8, DW_FORM_data16, DW_FORM_sec_offset, DW_FORM_strp, DW_FORM_strp_sup, DW_FORM_line_strp,
      DW_FORM_udata, DW_FORM_flag_present, List.append_assoc, h1, h2]

theorem word_cases (c : Enc) : c.word = 4 ∨ c.word = 8 := by
  unfold Enc.word Format.wordSize; cases c.format <;> simp

theorem fixed_roundtrip' (e : Endian) (v size : Nat) (bs rest : Bytes) (hv : v < 2 ^ 64)
    (h : writeUdata e v size = .ok bs) : readFixed e size (bs ++ rest) = .ok (v, rest) :=
  (writeUdata_roundtrip e v size bs rest h hv).2

theorem toBytes_roundtrip (e : Endian) (n v : Nat) (rest : Bytes) (hv : v < 2 ^ (8 * n)) :
    readFixed e n (toBytes e n v ++ rest) = .ok (v, rest) :=
  readFixed_toBytes e n v rest (by rw [pow256]; exact hv)


theorem flag_roundtrip (e : Endian) (x : UInt8) (rest : Bytes) :
    readFixed e 1 ([x] ++ rest) = .ok (x.toNat, rest) := by
  cases e <;> simp [readFixed, take, fromBytes, leVal]

/-- a word-sized offset written by `write_udata` is read back by a word-sized fixed read -/
theorem word_roundtrip (cx : Ctx) (off : Nat) (em : Emit) (rest : Bytes) (hoff : off < 2 ^ 64)
    (h : (do let b ← writeUdata cx.endian off cx.enc.word; pure (Emit.ofBytes b) : Out Emit) = .ok em) :
    readFixed cx.endian cx.enc.word (em.bytes ++ rest) = .ok (off, rest) := by
  obtain ⟨b, hb, h⟩ := bind_ok_inv h
  simp only [Out.pure_eq, Out.ok.injEq] at h; subst h
  exact fixed_roundtrip' _ _ _ b rest hoff hb

set_option linter.unusedSimpArgs false in
/-- **The bytes written for a value are the encoding the reader of its form decodes**, for the
unsigned, fixed-size, block, string and flag kinds: reading `em.bytes ++ rest` with the primitive
readers that `read::parse_attribute` uses for `attrForm v` yields the intended value and leaves
exactly `rest`. -/
theorem attr_bytes_decode' (cx : Ctx) (pos : Nat) (v : AttrVal) (em : Emit) (fv : FormVal) (rest : Bytes)
    (h : attrEmit cx pos v = .ok em) (hr : v.InRange) (hd : decoded cx v = some fv)
    (hso : ∀ o ∈ cx.strOffsets, o < 2 ^ 64) (hlo : ∀ o ∈ cx.lineStrOffsets, o < 2 ^ 64)
    (hlp : ∀ o, cx.lineProgram = some o → o < 2 ^ 64) :
    readForm cx.endian cx.enc (attrForm cx.enc v).1 (em.bytes ++ rest) = .ok (fv, rest) := by
  have hw := word_cases cx.enc
  cases v <;> simp only [attrEmit] at h <;> simp only [decoded, Option.some.injEq, reduceCtorEq] at hd <;>
    simp only [AttrVal.InRange] at hr
  case address x =>
    obtain ⟨b, hb, h⟩ := bind_ok_inv h
    simp only [Out.pure_eq, Out.ok.injEq] at h; subst h hd
    have hfit := (writeUdata_ok_iff _ _ _ hr).mp ⟨b, hb⟩
    have := fixed_roundtrip' _ _ _ b rest hr hb
    simp [readForm, attrForm, DW_FORM_addr, readAddress, hfit.1, Emit.ofBytes, this]
  case block b =>
    simp only [Out.ok.injEq] at h; subst h hd
    simpa [attrForm, Emit.ofBytes, List.append_assoc] using
      block_roundtrip b rest hr DW_FORM_block cx.endian cx.enc (Or.inl rfl)
  case string s0 =>
    have h := (string_emit_inv s0 em h).2
    subst h hd
    have := readCStr_roundtrip s0 rest hr
    simp [readForm, attrForm, DW_FORM_string, DW_FORM_block, DW_FORM_exprloc, DW_FORM_addr, DW_FORM_data1,
      DW_FORM_flag, DW_FORM_data2, DW_FORM_data4, DW_FORM_ref4, DW_FORM_ref_sup4, DW_FORM_data8, DW_FORM_ref8,
      DW_FORM_ref_sup8, DW_FORM_ref_sig8, DW_FORM_data16, DW_FORM_sec_offset, DW_FORM_strp, DW_FORM_strp_sup,
      DW_FORM_line_strp, DW_FORM_udata, DW_FORM_flag_present, Emit.ofBytes, this]
  case data1 x =>
    simp only [Out.ok.injEq] at h; subst h hd
    have := toBytes_roundtrip cx.endian 1 x rest (by simpa using hr)
    simp [readForm, attrForm, DW_FORM_string, DW_FORM_block, DW_FORM_exprloc, DW_FORM_addr, DW_FORM_data1, DW_FORM_flag, DW_FORM_data2, DW_FORM_data4, DW_FORM_ref4, DW_FORM_ref_sup4, DW_FORM_data8, DW_FORM_ref8, DW_FORM_ref_sup8, DW_FORM_ref_sig8, DW_FORM_data16, DW_FORM_sec_offset, DW_FORM_strp, DW_FORM_strp_sup, DW_FORM_line_strp, DW_FORM_udata, DW_FORM_flag_present, Emit.ofBytes, this]
  case data2 x =>
    simp only [Out.ok.injEq] at h; subst h hd
    have := toBytes_roundtrip cx.endian 2 x rest (by simpa using hr)
    simp [readForm, attrForm, DW_FORM_string, DW_FORM_block, DW_FORM_exprloc, DW_FORM_addr, DW_FORM_data1, DW_FORM_flag, DW_FORM_data2, DW_FORM_data4, DW_FORM_ref4, DW_FORM_ref_sup4, DW_FORM_data8, DW_FORM_ref8, DW_FORM_ref_sup8, DW_FORM_ref_sig8, DW_FORM_data16, DW_FORM_sec_offset, DW_FORM_strp, DW_FORM_strp_sup, DW_FORM_line_strp, DW_FORM_udata, DW_FORM_flag_present, Emit.ofBytes, this]
  case data4 x =>
    simp only [Out.ok.injEq] at h; subst h hd
    have := toBytes_roundtrip cx.endian 4 x rest (by simpa using hr)
    simp [readForm, attrForm, DW_FORM_string, DW_FORM_block, DW_FORM_exprloc, DW_FORM_addr, DW_FORM_data1, DW_FORM_flag, DW_FORM_data2, DW_FORM_data4, DW_FORM_ref4, DW_FORM_ref_sup4, DW_FORM_data8, DW_FORM_ref8, DW_FORM_ref_sup8, DW_FORM_ref_sig8, DW_FORM_data16, DW_FORM_sec_offset, DW_FORM_strp, DW_FORM_strp_sup, DW_FORM_line_strp, DW_FORM_udata, DW_FORM_flag_present, Emit.ofBytes, this]
  case data8 x =>
    simp only [Out.ok.injEq] at h; subst h hd
    have := toBytes_roundtrip cx.endian 8 x rest (by simpa using hr)
    simp [readForm, attrForm, DW_FORM_string, DW_FORM_block, DW_FORM_exprloc, DW_FORM_addr, DW_FORM_data1, DW_FORM_flag, DW_FORM_data2, DW_FORM_data4, DW_FORM_ref4, DW_FORM_ref_sup4, DW_FORM_data8, DW_FORM_ref8, DW_FORM_ref_sup8, DW_FORM_ref_sig8, DW_FORM_data16, DW_FORM_sec_offset, DW_FORM_strp, DW_FORM_strp_sup, DW_FORM_line_strp, DW_FORM_udata, DW_FORM_flag_present, Emit.ofBytes, this]
  case data16 x =>
    simp only [Out.ok.injEq] at h; subst h hd
    have := toBytes_roundtrip cx.endian 16 x rest (by simpa using hr)
    simp [readForm, attrForm, DW_FORM_string, DW_FORM_block, DW_FORM_exprloc, DW_FORM_addr, DW_FORM_data1, DW_FORM_flag, DW_FORM_data2, DW_FORM_data4, DW_FORM_ref4, DW_FORM_ref_sup4, DW_FORM_data8, DW_FORM_ref8, DW_FORM_ref_sup8, DW_FORM_ref_sig8, DW_FORM_data16, DW_FORM_sec_offset, DW_FORM_strp, DW_FORM_strp_sup, DW_FORM_line_strp, DW_FORM_udata, DW_FORM_flag_present, Emit.ofBytes, this]
  case debugTypesRef x =>
    simp only [Out.ok.injEq] at h; subst h hd
    have := toBytes_roundtrip cx.endian 8 x rest (by simpa using hr)
    simp [readForm, attrForm, DW_FORM_string, DW_FORM_block, DW_FORM_exprloc, DW_FORM_addr, DW_FORM_data1, DW_FORM_flag, DW_FORM_data2, DW_FORM_data4, DW_FORM_ref4, DW_FORM_ref_sup4, DW_FORM_data8, DW_FORM_ref8, DW_FORM_ref_sup8, DW_FORM_ref_sig8, DW_FORM_data16, DW_FORM_sec_offset, DW_FORM_strp, DW_FORM_strp_sup, DW_FORM_line_strp, DW_FORM_udata, DW_FORM_flag_present, Emit.ofBytes, this]
  case udata x =>
    simp only [Out.ok.injEq] at h; subst h hd
    have := Leb.unsigned_roundtrip x hr rest
    simp [readForm, attrForm, DW_FORM_string, DW_FORM_block, DW_FORM_exprloc, DW_FORM_addr, DW_FORM_data1, DW_FORM_flag, DW_FORM_data2, DW_FORM_data4, DW_FORM_ref4, DW_FORM_ref_sup4, DW_FORM_data8, DW_FORM_ref8, DW_FORM_ref_sup8, DW_FORM_ref_sig8, DW_FORM_data16, DW_FORM_sec_offset, DW_FORM_strp, DW_FORM_strp_sup, DW_FORM_line_strp, DW_FORM_udata, DW_FORM_flag_present, Emit.ofBytes, this]
  case constClass x =>
    simp only [Out.ok.injEq] at h; subst h hd
    have := Leb.unsigned_roundtrip x hr rest
    simp [readForm, attrForm, DW_FORM_string, DW_FORM_block, DW_FORM_exprloc, DW_FORM_addr, DW_FORM_data1, DW_FORM_flag, DW_FORM_data2, DW_FORM_data4, DW_FORM_ref4, DW_FORM_ref_sup4, DW_FORM_data8, DW_FORM_ref8, DW_FORM_ref_sup8, DW_FORM_ref_sig8, DW_FORM_data16, DW_FORM_sec_offset, DW_FORM_strp, DW_FORM_strp_sup, DW_FORM_line_strp, DW_FORM_udata, DW_FORM_flag_present, Emit.ofBytes, this]
  case fileIndex x =>
    simp only [Out.ok.injEq] at h; subst h hd
    have := Leb.unsigned_roundtrip (x.getD 0) hr rest
    simp [readForm, attrForm, DW_FORM_string, DW_FORM_block, DW_FORM_exprloc, DW_FORM_addr, DW_FORM_data1, DW_FORM_flag, DW_FORM_data2, DW_FORM_data4, DW_FORM_ref4, DW_FORM_ref_sup4, DW_FORM_data8, DW_FORM_ref8, DW_FORM_ref_sup8, DW_FORM_ref_sig8, DW_FORM_data16, DW_FORM_sec_offset, DW_FORM_strp, DW_FORM_strp_sup, DW_FORM_line_strp, DW_FORM_udata, DW_FORM_flag_present, Emit.ofBytes, this]
  case flag b =>
    simp only [Out.ok.injEq] at h; subst h hd
    have h0 := flag_roundtrip cx.endian 0 rest
    have h1 := flag_roundtrip cx.endian 1 rest
    simp only [List.cons_append, List.nil_append] at h0 h1
    cases b <;> simp [readForm, attrForm, DW_FORM_string, DW_FORM_block, DW_FORM_exprloc, DW_FORM_addr, DW_FORM_data1, DW_FORM_flag, DW_FORM_data2, DW_FORM_data4, DW_FORM_ref4, DW_FORM_ref_sup4, DW_FORM_data8, DW_FORM_ref8, DW_FORM_ref_sup8, DW_FORM_ref_sig8, DW_FORM_data16, DW_FORM_sec_offset, DW_FORM_strp, DW_FORM_strp_sup, DW_FORM_line_strp, DW_FORM_udata, DW_FORM_flag_present, Emit.ofBytes, h0, h1]
  case flagPresent =>
    simp only [Out.ok.injEq] at h; subst h hd
    by_cases hv : cx.enc.version ≥ 4
    · simp [readForm, attrForm, DW_FORM_string, DW_FORM_block, DW_FORM_exprloc, DW_FORM_addr, DW_FORM_data1, DW_FORM_flag, DW_FORM_data2, DW_FORM_data4, DW_FORM_ref4, DW_FORM_ref_sup4, DW_FORM_data8, DW_FORM_ref8, DW_FORM_ref_sup8, DW_FORM_ref_sig8, DW_FORM_data16, DW_FORM_sec_offset, DW_FORM_strp, DW_FORM_strp_sup, DW_FORM_line_strp, DW_FORM_udata, DW_FORM_flag_present, Emit.ofBytes, hv]
    · have h1 := flag_roundtrip cx.endian 1 rest
      simp only [List.cons_append, List.nil_append] at h1
      simp [readForm, attrForm, DW_FORM_string, DW_FORM_block, DW_FORM_exprloc, DW_FORM_addr, DW_FORM_data1, DW_FORM_flag, DW_FORM_data2, DW_FORM_data4, DW_FORM_ref4, DW_FORM_ref_sup4, DW_FORM_data8, DW_FORM_ref8, DW_FORM_ref_sup8, DW_FORM_ref_sig8, DW_FORM_data16, DW_FORM_sec_offset, DW_FORM_strp, DW_FORM_strp_sup, DW_FORM_line_strp, DW_FORM_udata, DW_FORM_flag_present, Emit.ofBytes, hv, h1]
  case debugInfoRefSup off =>
    subst hd
    have := word_roundtrip cx off em rest hr h
    cases hf : cx.enc.format <;> simp [Enc.word, Format.wordSize, hf] at this <;>
      simp [readForm, attrForm, DW_FORM_string, DW_FORM_block, DW_FORM_exprloc, DW_FORM_addr, DW_FORM_data1, DW_FORM_flag, DW_FORM_data2, DW_FORM_data4, DW_FORM_ref4, DW_FORM_ref_sup4, DW_FORM_data8, DW_FORM_ref8, DW_FORM_ref_sup8, DW_FORM_ref_sig8, DW_FORM_data16, DW_FORM_sec_offset, DW_FORM_strp, DW_FORM_strp_sup, DW_FORM_line_strp, DW_FORM_udata, DW_FORM_flag_present, hf, this]
  case debugStrRefSup off =>
    subst hd
    have := word_roundtrip cx off em rest hr h
    simp [readForm, attrForm, DW_FORM_string, DW_FORM_block, DW_FORM_exprloc, DW_FORM_addr, DW_FORM_data1, DW_FORM_flag, DW_FORM_data2, DW_FORM_data4, DW_FORM_ref4, DW_FORM_ref_sup4, DW_FORM_data8, DW_FORM_ref8, DW_FORM_ref_sup8, DW_FORM_ref_sig8, DW_FORM_data16, DW_FORM_sec_offset, DW_FORM_strp, DW_FORM_strp_sup, DW_FORM_line_strp, DW_FORM_udata, DW_FORM_flag_present, this]
  case locationListRef off | debugMacinfoRef off | debugMacroRef off | rangeListRef off =>
    subst hd
    have := word_roundtrip cx off em rest hr h
    by_cases hv : cx.enc.version = 2 ∨ cx.enc.version = 3
    · cases hf : cx.enc.format <;> simp [Enc.word, Format.wordSize, hf] at this <;>
        simp [readForm, attrForm, DW_FORM_string, DW_FORM_block, DW_FORM_exprloc, DW_FORM_addr, DW_FORM_data1, DW_FORM_flag, DW_FORM_data2, DW_FORM_data4, DW_FORM_ref4, DW_FORM_ref_sup4, DW_FORM_data8, DW_FORM_ref8, DW_FORM_ref_sup8, DW_FORM_ref_sig8, DW_FORM_data16, DW_FORM_sec_offset, DW_FORM_strp, DW_FORM_strp_sup, DW_FORM_line_strp, DW_FORM_udata, DW_FORM_flag_present, hf, hv, this]
    · simp [readForm, attrForm, DW_FORM_string, DW_FORM_block, DW_FORM_exprloc, DW_FORM_addr, DW_FORM_data1, DW_FORM_flag, DW_FORM_data2, DW_FORM_data4, DW_FORM_ref4, DW_FORM_ref_sup4, DW_FORM_data8, DW_FORM_ref8, DW_FORM_ref_sup8, DW_FORM_ref_sig8, DW_FORM_data16, DW_FORM_sec_offset, DW_FORM_strp, DW_FORM_strp_sup, DW_FORM_line_strp, DW_FORM_udata, DW_FORM_flag_present, hv, this]
  case lineProgramRef =>
    cases hl : cx.lineProgram with
    | none => simp [hl] at h
    | some off =>
      simp only [hl, Option.map_some, Option.some.injEq] at h hd
      subst hd
      have := word_roundtrip cx off em rest (hlp off hl) h
      by_cases hv : cx.enc.version = 2 ∨ cx.enc.version = 3
      · cases hf : cx.enc.format <;> simp [Enc.word, Format.wordSize, hf] at this <;>
          simp [readForm, attrForm, DW_FORM_string, DW_FORM_block, DW_FORM_exprloc, DW_FORM_addr, DW_FORM_data1, DW_FORM_flag, DW_FORM_data2, DW_FORM_data4, DW_FORM_ref4, DW_FORM_ref_sup4, DW_FORM_data8, DW_FORM_ref8, DW_FORM_ref_sup8, DW_FORM_ref_sig8, DW_FORM_data16, DW_FORM_sec_offset, DW_FORM_strp, DW_FORM_strp_sup, DW_FORM_line_strp, DW_FORM_udata, DW_FORM_flag_present, hf, hv, this]
      · simp [readForm, attrForm, DW_FORM_string, DW_FORM_block, DW_FORM_exprloc, DW_FORM_addr, DW_FORM_data1, DW_FORM_flag, DW_FORM_data2, DW_FORM_data4, DW_FORM_ref4, DW_FORM_ref_sup4, DW_FORM_data8, DW_FORM_ref8, DW_FORM_ref_sup8, DW_FORM_ref_sig8, DW_FORM_data16, DW_FORM_sec_offset, DW_FORM_strp, DW_FORM_strp_sup, DW_FORM_line_strp, DW_FORM_udata, DW_FORM_flag_present, hv, this]
  case stringRef idx =>
    obtain ⟨off, ho, h⟩ := bind_ok_inv h
    unfold tableOffset at ho
    cases hg : cx.strOffsets[idx]? with
    | none => simp [hg] at ho
    | some o =>
      simp only [hg, Out.ok.injEq, Option.map_some, Option.some.injEq] at ho hd
      subst ho hd
      have := word_roundtrip cx o em rest (hso o (List.mem_of_getElem? hg)) h
      simp [readForm, attrForm, DW_FORM_string, DW_FORM_block, DW_FORM_exprloc, DW_FORM_addr, DW_FORM_data1, DW_FORM_flag, DW_FORM_data2, DW_FORM_data4, DW_FORM_ref4, DW_FORM_ref_sup4, DW_FORM_data8, DW_FORM_ref8, DW_FORM_ref_sup8, DW_FORM_ref_sig8, DW_FORM_data16, DW_FORM_sec_offset, DW_FORM_strp, DW_FORM_strp_sup, DW_FORM_line_strp, DW_FORM_udata, DW_FORM_flag_present, this]
  case lineStringRef idx =>
    obtain ⟨off, ho, h⟩ := bind_ok_inv h
    unfold tableOffset at ho
    cases hg : cx.lineStrOffsets[idx]? with
    | none => simp [hg] at ho
    | some o =>
      simp only [hg, Out.ok.injEq, Option.map_some, Option.some.injEq] at ho hd
      subst ho hd
      have := word_roundtrip cx o em rest (hlo o (List.mem_of_getElem? hg)) h
      simp [readForm, attrForm, DW_FORM_string, DW_FORM_block, DW_FORM_exprloc, DW_FORM_addr, DW_FORM_data1, DW_FORM_flag, DW_FORM_data2, DW_FORM_data4, DW_FORM_ref4, DW_FORM_ref_sup4, DW_FORM_data8, DW_FORM_ref8, DW_FORM_ref_sup8, DW_FORM_ref_sig8, DW_FORM_data16, DW_FORM_sec_offset, DW_FORM_strp, DW_FORM_strp_sup, DW_FORM_line_strp, DW_FORM_udata, DW_FORM_flag_present, this]


/-! ## signed constants and expression bodies decode too -/

/-- the bytes of an expression item do not depend on where it is written -/
theorem exprItemEmit_bytes_pos (cx : Ctx) (p q : Nat) (it : ExprItem) (b : Bytes) (fx : List IFix)
    (h : exprItemEmit cx p it = .ok (b, fx)) : ∃ fx', exprItemEmit cx q it = .ok (b, fx') := by
  cases it with
  | raw bs => simp only [exprItemEmit] at h ⊢; exact ⟨_, h⟩
  | convert id => simp only [exprItemEmit] at h ⊢; exact ⟨_, h⟩
  | call id => simp only [exprItemEmit] at h ⊢; exact ⟨_, h⟩
  | callRef u id =>
    simp only [exprItemEmit] at h ⊢
    obtain ⟨w, hw, h⟩ := bind_ok_inv h
    simp only [Out.pure_eq, Out.ok.injEq, Prod.mk.injEq] at h
    refine ⟨[{ pos := q + 1, size := cx.enc.word, unit := u, id := id }], ?_⟩
    rw [hw]; simp only [Out.bind_ok, Out.pure_eq]; rw [← h.1]

theorem exprItemsEmit_bytes_pos (cx : Ctx) : ∀ (items : List ExprItem) (p q : Nat) (b : Bytes) (fx : List IFix),
    exprItemsEmit cx p items = .ok (b, fx) → ∃ fx', exprItemsEmit cx q items = .ok (b, fx')
  | [], p, q, b, fx, h => by
    simp only [exprItemsEmit, Out.ok.injEq, Prod.mk.injEq] at h ⊢
    exact ⟨[], h.1, rfl⟩
  | it :: rest, p, q, b, fx, h => by
    rw [exprItemsEmit] at h ⊢
    obtain ⟨⟨a, fa⟩, ha, h⟩ := bind_ok_inv h
    obtain ⟨⟨r, fr⟩, hr, h⟩ := bind_ok_inv h
    simp only [Out.pure_eq, Out.ok.injEq, Prod.mk.injEq] at h
    obtain ⟨fa', ha'⟩ := exprItemEmit_bytes_pos cx p q it a fa ha
    obtain ⟨fr', hr'⟩ := exprItemsEmit_bytes_pos cx rest (p + a.length) (q + a.length) r fr hr
    refine ⟨fa' ++ fr', ?_⟩
    rw [ha']; simp only [Out.bind_ok]; rw [hr']; simp only [Out.bind_ok, Out.pure_eq]; rw [← h.1]

theorem signed_form_roundtrip (e : Endian) (c : Enc) (i ic : Int) (rest : Bytes)
    (hlo : -(2 : Int) ^ 63 ≤ i) (hhi : i < 2 ^ 63) :
    readFormFull e c DW_FORM_sdata ic (Leb.encodeS i ++ rest) = .ok (.int i, rest) := by
  simp [readFormFull, Leb.signed_roundtrip i hlo hhi rest]

/-- the kinds `decoded` covers are never written in one of the two signed forms -/
theorem attrForm_unsigned (cx : Ctx) (v : AttrVal) (fv : FormVal) (h : decoded cx v = some fv) :
    (attrForm cx.enc v).1 ≠ DW_FORM_sdata ∧ (attrForm cx.enc v).1 ≠ DW_FORM_implicit_const := by
  cases v <;> simp only [decoded, reduceCtorEq] at h <;>
    simp only [attrForm, DW_FORM_sdata, DW_FORM_implicit_const, DW_FORM_addr, DW_FORM_block, DW_FORM_data1,
      DW_FORM_data2, DW_FORM_data4, DW_FORM_data8, DW_FORM_data16, DW_FORM_flag, DW_FORM_flag_present,
      DW_FORM_ref_sup4, DW_FORM_ref_sup8, DW_FORM_sec_offset, DW_FORM_ref_sig8, DW_FORM_strp,
      DW_FORM_strp_sup, DW_FORM_line_strp, DW_FORM_string, DW_FORM_udata] <;>
    (repeat' split) <;> decide

/-- **Every value that is not a patched reference decodes to itself**: `attr_bytes_decode'`
extended by signed constants (C09's `signed_roundtrip`) and expression bodies. -/
theorem attr_bytes_decode_full (cx : Ctx) (pos : Nat) (v : AttrVal) (em : Emit) (fv : FormVal) (rest : Bytes)
    (h : attrEmit cx pos v = .ok em) (hr : v.InRangeFull cx) (hd : decodedFull cx v = some fv)
    (hso : ∀ o ∈ cx.strOffsets, o < 2 ^ 64) (hlo : ∀ o ∈ cx.lineStrOffsets, o < 2 ^ 64)
    (hlp : ∀ o, cx.lineProgram = some o → o < 2 ^ 64) :
    readFormFull cx.endian cx.enc (attrForm cx.enc v).1 (attrForm cx.enc v).2 (em.bytes ++ rest) = .ok (fv, rest) := by
  obtain ⟨hr1, hr2⟩ := hr
  cases v
  case sdata i =>
    simp only [attrEmit, Out.ok.injEq] at h
    simp only [decodedFull, Option.some.injEq] at hd
    subst h hd
    simpa [attrForm, Emit.ofBytes] using signed_form_roundtrip cx.endian cx.enc i 0 rest hr2.1 hr2.2
  case implicitConst i =>
    simp only [attrEmit, Out.ok.injEq] at h
    simp only [decodedFull, Option.some.injEq] at hd
    subst h hd
    by_cases hv : cx.enc.version ≥ 5
    · simp [attrForm, hv, readFormFull, Emit.ofBytes, DW_FORM_implicit_const, DW_FORM_sdata]
    · simpa [attrForm, hv, Emit.ofBytes] using signed_form_roundtrip cx.endian cx.enc i 0 rest hr2.1 hr2.2
  case exprloc items =>
    simp only [attrEmit] at h
    obtain ⟨size, hsz, h⟩ := bind_ok_inv h
    obtain ⟨⟨body, fx⟩, hb, h⟩ := bind_ok_inv h
    simp only [Out.pure_eq, Out.ok.injEq] at h
    subst h
    have hlen := exprItems_size_eq_emit cx cx.offs items _ _ _ _ (Offs.Ext.refl _) hsz hb
    obtain ⟨fx0, hb0⟩ := exprItemsEmit_bytes_pos cx items _ 0 body fx hb
    have heb : exprBytes cx items = some body := by simp [exprBytes, hb0]
    simp only [decodedFull, heb, Option.map_some, Option.some.injEq] at hd
    subst hd
    have hbl := hr2 body heb
    have hnf : (attrForm cx.enc (.exprloc items)).1 = DW_FORM_block ∨ (attrForm cx.enc (.exprloc items)).1 = DW_FORM_exprloc := by
      simp only [attrForm]; split <;> simp
    have hne : (attrForm cx.enc (.exprloc items)).1 ≠ DW_FORM_sdata ∧ (attrForm cx.enc (.exprloc items)).1 ≠ DW_FORM_implicit_const := by
      rcases hnf with h | h <;> rw [h] <;> decide
    simp only [readFormFull, hne.1, hne.2, if_false]
    rw [← hlen]
    simpa [List.append_assoc] using block_roundtrip body rest hbl _ cx.endian cx.enc hnf
  all_goals
    (simp only [decodedFull] at hd
     obtain ⟨n1, n2⟩ := attrForm_unsigned cx _ fv hd
     simp only [readFormFull, n1, n2, if_false]
     exact attr_bytes_decode' cx pos _ em fv rest h hr1 hd hso hlo hlp)


end Gimli.WUnit
