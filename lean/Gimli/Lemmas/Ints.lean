import Gimli.Model.Ints
import Gimli.Lemmas.Leb
namespace Gimli.Ints
open Gimli.Spec

theorem leBytes_length (n v : Nat) : (leBytes n v).length = n := by
  induction n generalizing v with
  | zero => rfl
  | succ n ih => simp [leBytes, ih]

theorem leVal_leBytes (n v : Nat) : leVal (leBytes n v) = v % 256 ^ n := by
  induction n generalizing v with
  | zero => simp [leBytes, leVal, Nat.mod_one]
  | succ n ih =>
    simp only [leBytes, leVal, ih]
    have h : (UInt8.ofNat (v % 256)).toNat = v % 256 := by simp
    rw [h, Nat.pow_succ, Nat.mul_comm (256 ^ n) 256, Nat.mod_mul]

theorem leVal_lt (bs : Bytes) : leVal bs < 256 ^ bs.length := by
  induction bs with
  | nil => simp [leVal]
  | cons b rest ih =>
    simp only [leVal, List.length_cons, Nat.pow_succ]
    have := UInt8.toNat_lt b
    omega

theorem toBytes_length (e : Endian) (n v : Nat) : (toBytes e n v).length = n := by
  cases e <;> simp [toBytes, leBytes_length]

theorem fromBytes_toBytes (e : Endian) (n v : Nat) : fromBytes e (toBytes e n v) = v % 256 ^ n := by
  cases e <;> simp [fromBytes, toBytes, leVal_leBytes]

theorem fromBytes_lt (e : Endian) (bs : Bytes) : fromBytes e bs < 256 ^ bs.length := by
  cases e
  · exact leVal_lt bs
  · simpa [fromBytes] using leVal_lt bs.reverse

theorem take_ok (n : Nat) (bs : Bytes) (h : n ≤ bs.length) : take n bs = .ok (bs.take n, bs.drop n) := by
  simp [take, h]

theorem take_eof (n : Nat) (bs : Bytes) (h : bs.length < n) : take n bs = .err .rUnexpectedEof := by
  simp [take, Nat.not_le.mpr h]

/-- write then read of an `n`-byte integer is the identity, in either byte order -/
theorem readFixed_toBytes (e : Endian) (n v : Nat) (rest : Bytes) (hv : v < 256 ^ n) :
    readFixed e n (toBytes e n v ++ rest) = .ok (v, rest) := by
  have hl := toBytes_length e n v
  rw [readFixed, take_ok _ _ (by simp [hl])]
  simp only [Out.bind_ok, Out.pure_eq]
  rw [List.take_left' hl, List.drop_left' hl, fromBytes_toBytes, Nat.mod_eq_of_lt hv]

/-- reading consumes exactly `n` bytes and returns the positional value -/
theorem readFixed_ok (e : Endian) (n : Nat) (bs : Bytes) (v : Nat) (rest : Bytes)
    (h : readFixed e n bs = .ok (v, rest)) :
    n ≤ bs.length ∧ rest = bs.drop n ∧ v = fromBytes e (bs.take n) ∧ v < 256 ^ n := by
  by_cases hn : n ≤ bs.length
  · rw [readFixed, take_ok _ _ hn] at h
    simp only [Out.bind_ok, Out.pure_eq, Out.ok.injEq, Prod.mk.injEq] at h
    refine ⟨hn, h.2.symm, h.1.symm, ?_⟩
    rw [← h.1]
    have := fromBytes_lt e (List.take n bs)
    rwa [List.length_take, Nat.min_eq_left hn] at this
  · rw [readFixed, take_eof _ _ (by omega)] at h
    simp at h

theorem readFixed_eof (e : Endian) (n : Nat) (bs : Bytes) (h : bs.length < n) :
    readFixed e n bs = .err .rUnexpectedEof := by
  rw [readFixed, take_eof _ _ h]; rfl

theorem pow256 (n : Nat) : 256 ^ n = 2 ^ (8 * n) := by
  rw [Nat.pow_mul]

/-- `write_udata` succeeds exactly for the sizes 1/2/4/8 when the value fits, and what it emits
reads back as the value -/
theorem writeUdata_ok_iff (e : Endian) (v size : Nat) (hv : v < 2 ^ 64) :
    (∃ bs, writeUdata e v size = .ok bs) ↔
      (size = 1 ∨ size = 2 ∨ size = 4 ∨ size = 8) ∧ v < 2 ^ (8 * size) := by
  unfold writeUdata
  constructor
  · rintro ⟨bs, h⟩
    split at h
    · rename_i hs
      split at h
      · simp at h
      · rename_i hfit
        refine ⟨by omega, ?_⟩
        have : v % 2 ^ (8 * size) = v := by simpa using hfit
        rw [← this]; exact Nat.mod_lt _ (Nat.pow_pos (by decide))
    · split at h
      · rename_i h8; subst h8; exact ⟨by omega, hv⟩
      · simp at h
  · rintro ⟨hs, hfit⟩
    by_cases h124 : size = 1 ∨ size = 2 ∨ size = 4
    · simp [h124, Nat.mod_eq_of_lt hfit]
    · have : size = 8 := by omega
      simp [this]

theorem writeUdata_roundtrip (e : Endian) (v size : Nat) (bs rest : Bytes)
    (h : writeUdata e v size = .ok bs) (hv : v < 2 ^ 64) :
    bs.length = size ∧ readFixed e size (bs ++ rest) = .ok (v, rest) := by
  have hfit := (writeUdata_ok_iff e v size hv).mp ⟨bs, h⟩
  unfold writeUdata at h
  have hbs : bs = toBytes e size v := by
    split at h
    · split at h
      · simp at h
      · simpa using h.symm
    · split at h
      · rename_i h8; subst h8; simpa using h.symm
      · simp at h
  subst hbs
  exact ⟨toBytes_length e size v, readFixed_toBytes e size v rest (by rw [pow256]; exact hfit.2)⟩


theorem readFixed_eq (e : Endian) (n : Nat) (bs : Bytes) :
    readFixed e n bs =
      if n ≤ bs.length then .ok (fromBytes e (bs.take n), bs.drop n) else .err .rUnexpectedEof := by
  by_cases hn : n ≤ bs.length
  · rw [readFixed, take_ok _ _ hn]; simp [hn]
  · rw [readFixed_eof _ _ _ (by omega)]; simp [hn]

/-- `read_initial_length`, case by case, in terms of positional values only -/
theorem readInitialLength_cases (e : Endian) (offBits : Nat) (bs : Bytes) :
    readInitialLength e offBits bs =
      if bs.length < 4 then .err .rUnexpectedEof
      else
        let w := fromBytes e (bs.take 4)
        if w < 0xffff_fff0 then .ok ((w, .dwarf32), bs.drop 4)
        else if w = 0xffff_ffff then
          if bs.length < 12 then .err .rUnexpectedEof
          else
            let v := fromBytes e ((bs.drop 4).take 8)
            if v < 2 ^ offBits then .ok ((v, .dwarf64), bs.drop 12) else .err .rUnsupportedOffset
        else .err .rUnknownReservedLength := by
  unfold readInitialLength
  rw [readFixed_eq]
  by_cases h4 : bs.length < 4
  · simp [h4, Nat.not_le.mpr h4]
  · have h4' : 4 ≤ bs.length := by omega
    simp only [h4', if_true, h4, if_false, Out.bind_ok]
    split
    · rfl
    · split
      · rw [readFixed_eq]
        by_cases h12 : bs.length < 12
        · have : ¬ 8 ≤ bs.length - 4 := by omega
          simp [h12, this]
        · have : 8 ≤ bs.length - 4 := by omega
          simp only [List.length_drop, this, if_true, h12, if_false, Out.bind_ok, offsetFromU64]
          split <;> simp
      · rfl

theorem writeInitialLength_roundtrip (e : Endian) (f : Format) (len : Nat) (bs rest : Bytes)
    (hlen : len < 2 ^ 64) (h : writeInitialLength e f len = .ok bs) :
    readInitialLength e 64 (bs ++ rest) = .ok ((len, f), rest) ∧
      bs.length = (match f with | .dwarf32 => 4 | .dwarf64 => 12) := by
  cases f with
  | dwarf32 =>
    simp only [writeInitialLength] at h
    split at h
    · simp at h
    · rename_i hres
      obtain ⟨hl, hr⟩ := writeUdata_roundtrip e len 4 bs rest h hlen
      have hfit := ((writeUdata_ok_iff e len 4 hlen).mp ⟨bs, h⟩).2
      refine ⟨?_, hl⟩
      unfold readInitialLength
      rw [hr]
      simp only [Out.bind_ok]
      have : len < 0xffff_fff0 := by omega
      simp [this]
  | dwarf64 =>
    simp only [writeInitialLength] at h
    cases hw : writeUdata e len 8 with
    | ok b8 =>
      rw [hw] at h
      simp only [Out.bind_ok, Out.pure_eq, Out.ok.injEq] at h
      subst h
      obtain ⟨hl, hr⟩ := writeUdata_roundtrip e len 8 b8 rest hw hlen
      refine ⟨?_, by simp [toBytes_length, hl]⟩
      unfold readInitialLength
      rw [List.append_assoc, readFixed_toBytes e 4 0xffff_ffff _ (by decide)]
      simp only [Out.bind_ok]
      rw [hr]
      simp [offsetFromU64, hlen]
    | err x => rw [hw] at h; simp at h
    | panic w => rw [hw] at h; simp at h
    | diverge => rw [hw] at h; simp at h

/-- `read_address` accepts exactly the sizes 1, 2, 4, 8 and then consumes exactly that many bytes -/
theorem readAddress_ok_iff (e : Endian) (size : Nat) (bs : Bytes) :
    (∃ v rest, readAddress e size bs = .ok (v, rest)) ↔
      (size = 1 ∨ size = 2 ∨ size = 4 ∨ size = 8) ∧ size ≤ bs.length := by
  unfold readAddress
  constructor
  · rintro ⟨v, rest, h⟩
    split at h
    · rename_i hs
      exact ⟨hs, (readFixed_ok _ _ _ _ _ h).1⟩
    · simp at h
  · rintro ⟨hs, hl⟩
    simp only [hs, if_true]
    rw [readFixed_eq]; simp [hl]

theorem readAddress_value (e : Endian) (size : Nat) (bs : Bytes) (v : Nat) (rest : Bytes)
    (h : readAddress e size bs = .ok (v, rest)) :
    rest = bs.drop size ∧ v = fromBytes e (bs.take size) ∧ v < 2 ^ (8 * size) := by
  unfold readAddress at h
  split at h
  · obtain ⟨_, h2, h3, h4⟩ := readFixed_ok _ _ _ _ _ h
    exact ⟨h2, h3, by rw [← pow256]; exact h4⟩
  · simp at h

theorem readAddressSize_ok_iff (bs : Bytes) (v : Nat) (rest : Bytes) :
    readAddressSize bs = .ok (v, rest) ↔
      ∃ b, bs = b :: rest ∧ v = b.toNat ∧ (v = 1 ∨ v = 2 ∨ v = 4 ∨ v = 8) := by
  cases bs with
  | nil => simp [readAddressSize]
  | cons b tl =>
    simp only [readAddressSize]
    split
    · rename_i hb
      constructor
      · intro h
        simp only [Out.ok.injEq, Prod.mk.injEq] at h
        exact ⟨b, by simp [h.2], h.1.symm, by rw [← h.1]; exact hb⟩
      · rintro ⟨b', hbs, hv, _⟩
        simp only [List.cons.injEq] at hbs
        simp [hbs.1, hbs.2, hv]
    · rename_i hb
      constructor
      · intro h; simp at h
      · rintro ⟨b', hbs, hv, hv4⟩
        simp only [List.cons.injEq] at hbs
        rw [hv, ← hbs.1] at hv4
        exact absurd hv4 hb

/-- `read_uleb128_u32` = the 64-bit read restricted to values below 2^32 -/
theorem readUlebU32_iff (bs : Bytes) (v : Nat) (rest : Bytes) :
    readUlebU32 bs = .ok (v, rest) ↔ Leb.unsigned bs = .ok (v, rest) ∧ v < 2 ^ 32 := by
  unfold readUlebU32
  cases h : Leb.unsigned bs with
  | ok p =>
    obtain ⟨v', rest'⟩ := p
    simp only [Out.bind_ok]
    split
    · rename_i hlt
      simp only [Out.pure_eq, Out.ok.injEq, Prod.mk.injEq]
      constructor
      · rintro ⟨rfl, rfl⟩; exact ⟨⟨rfl, rfl⟩, hlt⟩
      · rintro ⟨⟨rfl, rfl⟩, _⟩; exact ⟨rfl, rfl⟩
    · rename_i hlt
      simp only [Out.ok.injEq, Prod.mk.injEq]
      constructor
      · intro h; simp at h
      · rintro ⟨⟨rfl, rfl⟩, h2⟩; exact absurd h2 hlt
  | err x => simp
  | panic w => simp
  | diverge => simp


theorem toSigned_range (n : Nat) (hn : 0 < n) (v : Nat) :
    -(2 : Int) ^ (8 * n - 1) ≤ toSigned n v ∧ toSigned n v < 2 ^ (8 * n - 1) := by
  unfold toSigned
  have hp : (2 : Nat) ^ (8 * n) = 2 * 2 ^ (8 * n - 1) := by
    rw [← Nat.pow_succ']; congr 1; omega
  have hm := Nat.mod_lt v (show 0 < 2 ^ (8 * n) from Nat.pow_pos (by decide))
  have hc : ((2 : Nat) ^ (8 * n - 1) : Int) = (2 : Int) ^ (8 * n - 1) := by push_cast; rfl
  have hc2 : ((2 : Nat) ^ (8 * n) : Int) = (2 : Int) ^ (8 * n) := by push_cast; rfl
  split <;> omega

/-- `write_sdata` succeeds for sizes 1/2/4 exactly when the value is in the signed range of that
size (never truncates), always for size 8 (given an `i64`), never for other sizes -/
theorem writeSdata_ok_iff (e : Endian) (val : Int) (size : Nat)
    (hlo : -(2 : Int) ^ 63 ≤ val) (hhi : val < 2 ^ 63) :
    (∃ bs, writeSdata e val size = .ok bs) ↔
      (size = 1 ∨ size = 2 ∨ size = 4 ∨ size = 8) ∧
        -(2 : Int) ^ (8 * size - 1) ≤ val ∧ val < 2 ^ (8 * size - 1) := by
  unfold writeSdata
  constructor
  · rintro ⟨bs, h⟩
    split at h
    · rename_i hs
      simp only at h
      split at h
      · simp at h
      · rename_i hfit
        have heq : toSigned size (val % 2 ^ (8 * size)).toNat = val := Decidable.of_not_not hfit
        have := toSigned_range size (by omega) (val % 2 ^ (8 * size)).toNat
        rw [heq] at this
        exact ⟨by omega, this⟩
    · split at h
      · rename_i h8; subst h8; exact ⟨by omega, by simpa using hlo, by simpa using hhi⟩
      · simp at h
  · rintro ⟨hs, hlo', hhi'⟩
    by_cases h124 : size = 1 ∨ size = 2 ∨ size = 4
    · simp only [h124, if_true]
      have hfit : toSigned size (val % 2 ^ (8 * size)).toNat = val := by
        unfold toSigned
        rcases h124 with rfl | rfl | rfl <;> split <;> omega
      simp [hfit]
    · have : size = 8 := by omega
      simp [this]


theorem leVal_zeros (k : Nat) : leVal (List.replicate k (0 : UInt8)) = 0 := by
  induction k with
  | zero => rfl
  | succ k ih => simp [List.replicate_succ, leVal, ih]

theorem leVal_append_zeros (a : Bytes) (k : Nat) : leVal (a ++ List.replicate k 0) = leVal a := by
  induction a with
  | nil => simp [leVal_zeros, leVal]
  | cons b a ih => simp [leVal, ih]

/-- `read_uint(n)`, `n ≤ 8`: exactly `n` bytes are consumed and the result is their positional
value in the reader's byte order (the zero padding to 8 bytes goes on the high-order side in both
orders) -/
theorem readUint_eq (e : Endian) (n : Nat) (bs : Bytes) (hn : n ≤ 8) :
    readUint e n bs =
      if n ≤ bs.length then .ok (fromBytes e (bs.take n), bs.drop n) else .err .rUnexpectedEof := by
  unfold readUint
  have h8 : ¬ n > 8 := by omega
  simp only [h8, if_false]
  by_cases hl : n ≤ bs.length
  · rw [take_ok _ _ hl]
    simp only [Out.bind_ok, Out.pure_eq, hl, if_true]
    cases e with
    | little => simp [fromBytes, leVal_append_zeros]
    | big => simp [fromBytes, List.reverse_append, leVal_append_zeros]
  · rw [take_eof _ _ (by omega)]; simp [hl]

end Gimli.Ints
