import Gimli.Lemmas.DieSibling
import Gimli.Lemmas.AttrNormal
/-! Helper lemmas for C02, part 7: totality of the navigation steps, the abbreviation parser and the
unit-header parser — for every input they return a value or an error, and the fuel that the
entry points supply (input length + 1) is never exhausted. -/
set_option linter.unusedSimpArgs false
set_option linter.unusedVariables false
namespace Gimli.Die
open Gimli Gimli.Attr Gimli.Abbrev Gimli.Ints

/-! ### totality: every step returns a value or an error, and the supplied fuel is never exhausted -/

theorem readAbbreviation_normal (ctx : Ctx) (r : Raw) : (r.readAbbreviation ctx).Normal := by
  unfold Raw.readAbbreviation
  refine normal_bind (Props.C01.uleb_total _) fun a _ => ?_
  simp only
  split
  · exact normal_ok _
  · split
    · exact normal_err _
    · exact normal_ok _

theorem readEntry_normal (ctx : Ctx) (r : Raw) : (r.readEntry ctx).Normal := by
  unfold Raw.readEntry
  refine normal_bind (readAbbreviation_normal ctx r) fun a _ => ?_
  simp only
  split
  · exact normal_ok _
  · exact normal_bind (readAttributes_normal _ _ _) fun _ _ => normal_ok _

theorem rawAll_total (ctx : Ctx) : ∀ (fuel : Nat) (r : Raw), r.input.length < fuel →
    (rawAll ctx fuel r).2.Normal := by
  intro fuel
  induction fuel with
  | zero => intro r h; omega
  | succ fuel ih =>
    intro r h
    rw [rawAll]
    split
    · exact normal_ok _
    · have hn := readEntry_normal ctx r
      cases hr : r.readEntry ctx with
      | ok p =>
        obtain ⟨e, r'⟩ := p
        simp only [Trace.cons]
        exact ih r' (by have := (readEntry_shrinks hr).1; omega)
      | err x => simp [Trace.fail, Out.Normal]
      | panic w => rw [hr] at hn; simp [Out.Normal] at hn
      | diverge => rw [hr] at hn; simp [Out.Normal] at hn

theorem nextEntry_normal (ctx : Ctx) (c : Cursor) : (c.nextEntry ctx).Normal := by
  unfold Cursor.nextEntry
  split
  · exact normal_ok _
  · exact normal_bind (readEntry_normal _ _) fun _ _ => normal_ok _

theorem nextDfs_total (ctx : Ctx) : ∀ (fuel : Nat) (c : Cursor), c.raw.input.length < fuel →
    (Cursor.nextDfs ctx fuel c).Normal := by
  intro fuel
  induction fuel with
  | zero => intro c h; omega
  | succ fuel ih =>
    intro c h
    cases he : c.raw.input.isEmpty with
    | true => rw [nextDfs_empty _ he]; exact normal_ok _
    | false =>
      rw [nextDfs_read _ he]
      refine normal_bind (readEntry_normal _ _) fun a ha => ?_
      split
      · exact normal_ok _
      · exact ih _ (by have := (readEntry_shrinks (e := a.1) (r' := a.2) ha).1; simp only; omega)

theorem siblingLoop_total (ctx : Ctx) (D : Int) : ∀ (fuel : Nat) (c : Cursor), c.raw.input.length < fuel →
    (Cursor.siblingLoop ctx D fuel c).Normal := by
  intro fuel
  induction fuel with
  | zero => intro c h; omega
  | succ fuel ih =>
    intro c h
    rw [siblingLoop_succ]
    have hs := seekStep_le c
    cases he : (seekStep c).raw.input.isEmpty with
    | true => rw [readPart_empty _ _ he]; exact normal_ok _
    | false =>
      rw [readPart_read _ _ he]
      refine normal_bind (readEntry_normal _ _) fun a ha => ?_
      split
      · exact normal_ok _
      · exact ih _ (by have := (readEntry_shrinks (e := a.1) (r' := a.2) ha).1; simp only; omega)

theorem nextSibling_total (ctx : Ctx) (c : Cursor) : (c.nextSibling ctx).Normal := by
  unfold Cursor.nextSibling
  split
  · exact normal_ok _
  · exact siblingLoop_total ctx _ _ c (Nat.lt_succ_self _)

theorem treeNextLoop_total (ctx : Ctx) (D : Int) : ∀ (fuel : Nat) (t : Tree), t.raw.input.length < fuel →
    (Tree.nextLoop ctx D fuel t).Normal := by
  intro fuel
  induction fuel with
  | zero => intro t h; omega
  | succ fuel ih =>
    intro t h
    rw [Tree.nextLoop]
    try simp only
    generalize hraw : (if t.entry.hasChildren = true then
        match t.entry.sibling with
        | some off => t.raw.seekForward off t.entry.depth
        | none => t.raw
      else t.raw) = raw
    have hle : raw.input.length ≤ t.raw.input.length := by
      rw [← hraw]
      split
      · split
        · exact (seekForward_le _ _ _).1
        · exact Nat.le_refl _
      · exact Nat.le_refl _
    split
    · exact normal_ok _
    · refine normal_bind (readEntry_normal _ _) fun a ha => ?_
      try simp only
      split
      · exact normal_ok _
      · exact ih _ (by have := (readEntry_shrinks (e := a.1) (r' := a.2) ha).1; simp only; omega)

theorem treeNext_total (ctx : Ctx) (t : Tree) (D : Int) : (t.next ctx D).Normal := by
  unfold Tree.next
  split
  · split
    · exact normal_ok _
    · split
      · exact normal_ok _
      · exact normal_bind (readEntry_normal _ _) fun _ _ => normal_ok _
  · exact treeNextLoop_total ctx D _ t (Nat.lt_succ_self _)

/-! ### abbreviations and unit headers -/

theorem parseSpec_normal (bs : Bytes) : (parseSpec bs).Normal := by
  unfold parseSpec
  refine normal_bind (Props.C01.u16leb_total _) fun a _ => normal_bind (Props.C01.u16leb_total _) fun b _ => ?_
  simp only
  split
  · exact normal_ok _
  · split
    · exact normal_err _
    · split
      · exact normal_err _
      · split
        · exact normal_bind (Props.C01.sleb_total _) fun _ _ => normal_ok _
        · exact normal_ok _

theorem parseSpec_shrinks {bs : Bytes} {s : Option Spec} {rest : Bytes} (h : parseSpec bs = .ok (s, rest)) :
    rest.length < bs.length := by
  unfold parseSpec at h
  obtain ⟨⟨n, r1⟩, h1, h2⟩ := bind_ok_inv h
  obtain ⟨⟨f, r2⟩, h3, h4⟩ := bind_ok_inv h2
  have s1 := u16_shrinks h1
  have s2 := u16_shrinks h3
  simp only at h4
  split at h4
  · simp only [Out.pure_eq, Out.ok.injEq, Prod.mk.injEq] at h4; rw [← h4.2]; omega
  · split at h4
    · simp at h4
    · split at h4
      · simp at h4
      · split at h4
        · obtain ⟨⟨v, r3⟩, h5, h6⟩ := bind_ok_inv h4
          simp only [Out.pure_eq, Out.ok.injEq, Prod.mk.injEq] at h6
          have := skip_le _ _ (skip_of_signed h5)
          rw [← h6.2]; omega
        · simp only [Out.pure_eq, Out.ok.injEq, Prod.mk.injEq] at h4; rw [← h4.2]; omega

theorem parseSpecs_total : ∀ (fuel : Nat) (bs : Bytes), bs.length < fuel → (parseSpecs fuel bs).Normal := by
  intro fuel
  induction fuel with
  | zero => intro bs h; omega
  | succ fuel ih =>
    intro bs h
    rw [parseSpecs]
    refine normal_bind (parseSpec_normal _) fun a ha => ?_
    try simp only
    split
    · exact normal_ok _
    · have := parseSpec_shrinks (s := a.1) (rest := a.2) ha
      exact normal_bind (ih _ (by omega)) fun _ _ => normal_ok _

theorem parseSpecs_le : ∀ (fuel : Nat) (bs : Bytes) (ss : List Spec) (rest : Bytes),
    parseSpecs fuel bs = .ok (ss, rest) → rest.length ≤ bs.length := by
  intro fuel
  induction fuel with
  | zero => intro bs ss rest h; simp [parseSpecs] at h
  | succ fuel ih =>
    intro bs ss rest h
    rw [parseSpecs] at h
    obtain ⟨⟨s, r1⟩, h1, h2⟩ := bind_ok_inv h
    have := parseSpec_shrinks h1
    simp only at h2
    split at h2
    · simp only [Out.pure_eq, Out.ok.injEq, Prod.mk.injEq] at h2; rw [← h2.2]; omega
    · obtain ⟨⟨ss', r2⟩, h3, h4⟩ := bind_ok_inv h2
      simp only [Out.pure_eq, Out.ok.injEq, Prod.mk.injEq] at h4
      have := ih _ _ _ h3
      rw [← h4.2]; omega

theorem parseAbbreviation_normal (bs : Bytes) : (parseAbbreviation bs).Normal := by
  unfold parseAbbreviation
  split
  · exact normal_ok _
  · refine normal_bind (Props.C01.uleb_total _) fun a _ => ?_
    try simp only
    split
    · exact normal_ok _
    · refine normal_bind (Props.C01.u16leb_total _) fun b _ => ?_
      try simp only
      split
      · exact normal_err _
      · refine normal_bind (Props.C01.fixed_total _ _ _) fun c _ => ?_
        try simp only
        split
        · exact normal_err _
        · exact normal_bind (parseSpecs_total _ _ (Nat.lt_succ_self _)) fun _ _ => normal_ok _

theorem parseAbbreviation_shrinks {bs : Bytes} {a : Abbreviation} {rest : Bytes}
    (h : parseAbbreviation bs = .ok (some a, rest)) : rest.length < bs.length := by
  unfold parseAbbreviation at h
  split at h
  · simp at h
  · obtain ⟨⟨code, r1⟩, h1, h2⟩ := bind_ok_inv h
    have s1 := unsigned_shrinks h1
    simp only at h2
    split at h2
    · simp at h2
    · obtain ⟨⟨tag, r2⟩, h3, h4⟩ := bind_ok_inv h2
      have s2 := u16_shrinks h3
      simp only at h4
      split at h4
      · simp at h4
      · obtain ⟨⟨hc, r3⟩, h5, h6⟩ := bind_ok_inv h4
        have s3 := consumes_le (readFixed_consumes h5)
        simp only at h6
        split at h6
        · simp at h6
        · obtain ⟨⟨attrs, r4⟩, h7, h8⟩ := bind_ok_inv h6
          have s4 := parseSpecs_le _ _ _ _ h7
          simp only [Out.pure_eq, Out.ok.injEq, Prod.mk.injEq] at h8
          rw [← h8.2]; omega

theorem abbrevParseLoop_total : ∀ (fuel : Nat) (t : Abbreviations) (bs : Bytes), bs.length < fuel →
    (Abbrev.parseLoop fuel t bs).Normal := by
  intro fuel
  induction fuel with
  | zero => intro t bs h; omega
  | succ fuel ih =>
    intro t bs h
    rw [Abbrev.parseLoop]
    refine normal_bind (parseAbbreviation_normal _) fun a ha => ?_
    try simp only
    split
    · exact normal_ok _
    · rename_i ab hab
      split
      · exact normal_err _
      · have : parseAbbreviation bs = .ok (some ab, a.2) := by rw [ha, ← hab]
        exact ih _ _ (by have := parseAbbreviation_shrinks this; omega)

theorem abbreviationsParse_total (bs : Bytes) : (Abbreviations.parse bs).Normal :=
  abbrevParseLoop_total _ _ _ (Nat.lt_succ_self _)

theorem parseUnitHeader_total (e : Endian) (sect : Sect) (off : Nat) (bs : Bytes) :
    (parseUnitHeader e sect off bs).Normal := by
  have hword : ∀ f b, (readWord e 64 f b).Normal := fun f b => readWord_normal e f b
  have haddr : ∀ b, (readAddressSize b).Normal := by
    intro b; unfold readAddressSize; split
    · exact normal_err _
    · split
      · exact normal_ok _
      · exact normal_err _
  have hut : ∀ f ut b, (parseUnitType e f ut b).Normal := by
    intro f ut b
    unfold parseUnitType
    repeat' split
    all_goals first
      | exact normal_ok _
      | exact normal_err _
      | exact normal_bind (Props.C01.fixed_total _ _ _) fun _ _ => normal_bind (hword _ _) fun _ _ => normal_ok _
      | exact normal_bind (Props.C01.fixed_total _ _ _) fun _ _ => normal_ok _
  unfold parseUnitHeader
  refine normal_bind (Props.C01.initial_length_total _ _ _) fun a _ => ?_
  refine normal_bind (take_normal _ _) fun b _ => ?_
  refine normal_bind (Props.C01.fixed_total _ _ _) fun c _ => ?_
  refine normal_bind ?_ fun d _ => normal_bind (hut _ _ _) fun _ _ => normal_ok _
  split
  · exact normal_bind (hword _ _) fun _ _ => normal_bind (haddr _) fun _ _ => normal_ok _
  · split
    · exact normal_bind (Props.C01.fixed_total _ _ _) fun _ _ => normal_bind (haddr _) fun _ _ =>
        normal_bind (hword _ _) fun _ _ => normal_ok _
    · exact normal_err _

end Gimli.Die
