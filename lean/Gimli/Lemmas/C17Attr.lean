import Gimli.Lemmas.Pub
/-!
# Lemmas for C17: string / address form resolution (`Dwarf::attr_string`, `Dwarf::attr_address`)
-/
namespace Gimli.Indexed
open Gimli Gimli.Ints
open Gimli.Names (skipTo getStr)

/-- `DebugStr::get_str`: the NUL-terminated string that starts at the offset -/
theorem getStr_at (pre s post : Bytes) (hs : ∀ b, b ∈ s → b ≠ 0) :
    getStr (pre ++ (s ++ 0 :: post)) pre.length = .ok s := by
  unfold getStr
  rw [skipTo_append]
  simp only [Out.bind_ok]
  rw [Pub.readCStr_name s post hs]
  rfl

/-- **string form resolution through the string-offsets table**: `DW_FORM_strx` index `i`
resolves to the string whose `.debug_str` offset is entry `i` of the unit's table -/
theorem attrString_strx (c : Ctx) (pre post : Bytes) (vals : List Nat) (i : Nat)
    (spre s spost : Bytes)
    (hso : c.debugStrOffsets = pre ++ vals.flatMap (fun v => toBytes c.endian c.format.wordSize v) ++ post)
    (hbase : c.strOffsetsBase = pre.length)
    (hi : i < vals.length) (hb : ∀ v, v ∈ vals → v < 256 ^ c.format.wordSize)
    (hsz : i * c.format.wordSize < 2 ^ 64)
    (hstr : c.debugStr = spre ++ (s ++ 0 :: spost)) (hoff : vals[i] = spre.length)
    (hs : ∀ b, b ∈ s → b ≠ 0) :
    attrString c (.debugStrOffsetsIndex i) = .ok s := by
  simp only [attrString]
  rw [hso, hbase, getStrOffset_table c.endian c.format pre post vals i hi hb hsz]
  simp only [Out.bind_ok]
  rw [hstr, hoff, getStr_at spre s spost hs]

/-- `DW_FORM_strp` / `DW_FORM_line_strp` / `DW_FORM_strp_sup` read the section their form names -/
theorem attrString_strp (c : Ctx) (spre s spost : Bytes) (hs : ∀ b, b ∈ s → b ≠ 0) :
    (c.debugStr = spre ++ (s ++ 0 :: spost) → attrString c (.debugStrRef spre.length) = .ok s) ∧
    (c.debugLineStr = spre ++ (s ++ 0 :: spost) → attrString c (.debugLineStrRef spre.length) = .ok s) ∧
    (c.supDebugStr = some (spre ++ (s ++ 0 :: spost)) → attrString c (.debugStrRefSup spre.length) = .ok s) ∧
    (c.supDebugStr = none → attrString c (.debugStrRefSup spre.length) = .err .rExpectedStringAttributeValue) := by
  refine ⟨?_, ?_, ?_, ?_⟩
  · intro h; simp only [attrString]; rw [h, getStr_at spre s spost hs]
  · intro h; simp only [attrString]; rw [h, getStr_at spre s spost hs]
  · intro h; simp only [attrString, h]; rw [getStr_at spre s spost hs]
  · intro h; simp only [attrString, h]

/-- **address form resolution**: `DW_FORM_addrx` index `i` is entry `i` of the unit's table in
`.debug_addr`; `DW_FORM_addr` is the value itself; any other form is `None` -/
theorem attrAddress_addrx (c : Ctx) (hs : c.addressSize = 1 ∨ c.addressSize = 2 ∨ c.addressSize = 4 ∨ c.addressSize = 8)
    (pre post : Bytes) (vals : List Nat) (i : Nat)
    (had : c.debugAddr = pre ++ vals.flatMap (fun v => toBytes c.endian c.addressSize v) ++ post)
    (hbase : c.addrBase = pre.length) (hi : i < vals.length)
    (hb : ∀ v, v ∈ vals → v < 256 ^ c.addressSize) (hsz : i * c.addressSize < 2 ^ 64) (a : Nat) :
    attrAddress c (.debugAddrIndex i) = .ok (some vals[i]) ∧ attrAddress c (.addr a) = .ok (some a) ∧
      attrAddress c .other = .ok none := by
  refine ⟨?_, rfl, rfl⟩
  simp only [attrAddress]
  rw [had, hbase, getAddress_table c.endian c.addressSize hs pre post vals i hi hb hsz]
  rfl
end Gimli.Indexed
