import Gimli.Lemmas.OpDecode
import Gimli.Lemmas.Ints
import Gimli.Lemmas.Eval
/-! # C07: decoding returns a suffix of its input (the bytes consumed are a prefix) -/
open Gimli Gimli.Op Gimli.Spec.OpTable

/-- readers return a (proper or not) suffix of their input -/
def Suf {α} (x : Out (α × Bytes)) (bs : Bytes) : Prop := ∀ a rest, x = .ok (a, rest) → rest <:+ bs

theorem suf_bind {α β} (x : Out (α × Bytes)) (f : α × Bytes → Out (β × Bytes)) (bs : Bytes)
    (hx : Suf x bs) (hf : ∀ a r, r <:+ bs → Suf (f (a, r)) bs) : Suf (x >>= f) bs := by
  intro b rest h
  obtain ⟨⟨a, r⟩, h1, h2⟩ := bind_eq_ok h
  exact hf a r (hx a r h1) b rest h2

theorem suf_pure {α} (a : α) (r bs : Bytes) (h : r <:+ bs) : Suf (pure (a, r) : Out (α × Bytes)) bs := by
  intro a' rest h'; cases h'; exact h

theorem suf_err {α} (e : Err) (bs : Bytes) : Suf (.err e : Out (α × Bytes)) bs := by
  intro a rest h; cases h

theorem suf_mono {α} (x : Out (α × Bytes)) (r bs : Bytes) (h : Suf x r) (hr : r <:+ bs) : Suf x bs :=
  fun a rest hx => (h a rest hx).trans hr

theorem take_suf (n : Nat) (bs : Bytes) : Suf (Ints.take n bs) bs := by
  intro a rest h
  unfold Ints.take at h
  split at h
  · cases h; exact List.drop_suffix _ _
  · cases h

theorem readFixed_suf (e : Endian) (n : Nat) (bs : Bytes) : Suf (Ints.readFixed e n bs) bs := by
  intro v rest h
  obtain ⟨_, h2, _⟩ := Ints.readFixed_ok e n bs v rest h
  rw [h2]; exact List.drop_suffix _ _

theorem unsigned_suf (bs : Bytes) : Suf (Leb.unsigned bs) bs := by
  intro v rest h
  obtain ⟨pre, h1, _⟩ := Leb.unsigned_sound bs v rest h
  rw [h1]; exact List.suffix_append _ _

theorem signedLoop_suf (bs : Bytes) : ∀ (r s : Nat) (res sh : Nat) (b : UInt8) (rest : Bytes),
    Leb.signedLoop bs r s = .ok (res, sh, b, rest) → rest <:+ bs := by
  induction bs with
  | nil => intro r s res sh b rest h; simp [Leb.signedLoop] at h
  | cons x tl ih =>
    intro r s res sh b rest h
    rw [Leb.signedLoop] at h
    split at h
    · cases h
    · simp only [] at h
      split at h
      · cases h; exact List.suffix_cons _ _
      · exact (ih _ _ _ _ _ _ h).trans (List.suffix_cons _ _)

theorem signed_suf (bs : Bytes) : Suf (Leb.signed bs) bs := by
  intro v rest h
  unfold Leb.signed at h
  split at h
  · next res sh b rest' heq => cases h; exact signedLoop_suf bs _ _ _ _ _ _ heq
  all_goals cases h

theorem readAddress_suf (e : Endian) (n : Nat) (bs : Bytes) : Suf (Ints.readAddress e n bs) bs := by
  unfold Ints.readAddress; split
  · exact readFixed_suf e n bs
  · exact suf_err _ _

theorem readWord_suf (e : Endian) (f : Format) (bs : Bytes) : Suf (Ints.readWord e 64 f bs) bs := by
  unfold Ints.readWord
  cases f
  · exact readFixed_suf e 4 bs
  · refine suf_bind _ _ _ (readFixed_suf e 8 bs) (fun v r hr => ?_)
    intro a rest h
    obtain ⟨v', _, h2⟩ := bind_eq_ok h
    cases h2; exact hr

theorem readUlebU32_suf (bs : Bytes) : Suf (Ints.readUlebU32 bs) bs := by
  unfold Ints.readUlebU32
  refine suf_bind _ _ _ (unsigned_suf bs) (fun v r hr => ?_)
  show Suf (if v < 2 ^ 32 then _ else _) bs
  split
  · exact suf_pure _ _ _ hr
  · exact suf_err _ _

theorem readOperand_suf (e : Endian) (enc : Encoding) (o : Operand) (bs : Bytes) : Suf (readOperand e enc o bs) bs := by
  cases o <;> simp only [readOperand]
  case u n => refine suf_bind _ _ _ (readFixed_suf e n bs) (fun _ r hr => ?_); exact suf_pure _ _ _ hr
  case s n => refine suf_bind _ _ _ (readFixed_suf e n bs) (fun _ r hr => ?_); exact suf_pure _ _ _ hr
  case uleb => refine suf_bind _ _ _ (unsigned_suf bs) (fun _ r hr => ?_); exact suf_pure _ _ _ hr
  case sleb => refine suf_bind _ _ _ (signed_suf bs) (fun _ r hr => ?_); exact suf_pure _ _ _ hr
  case addr => refine suf_bind _ _ _ (readAddress_suf e _ bs) (fun _ r hr => ?_); exact suf_pure _ _ _ hr
  case off => refine suf_bind _ _ _ (readWord_suf e _ bs) (fun _ r hr => ?_); exact suf_pure _ _ _ hr
  case refAddr =>
    split
    · refine suf_bind _ _ _ (readAddress_suf e _ bs) (fun _ r hr => ?_); exact suf_pure _ _ _ hr
    · refine suf_bind _ _ _ (readWord_suf e _ bs) (fun _ r hr => ?_); exact suf_pure _ _ _ hr
  case reg =>
    refine suf_bind _ _ _ (unsigned_suf bs) (fun _ r hr => ?_)
    show Suf (if _ < 2 ^ 16 then _ else _) bs
    split
    · exact suf_pure _ _ _ hr
    · exact suf_err _ _
  case blockUleb =>
    refine suf_bind _ _ _ (unsigned_suf bs) (fun _ r hr => ?_)
    refine suf_bind _ _ _ (suf_mono _ _ _ (take_suf _ r) hr) (fun _ r2 hr2 => suf_pure _ _ _ hr2)
  case block1 =>
    refine suf_bind _ _ _ (readFixed_suf e 1 bs) (fun _ r hr => ?_)
    refine suf_bind _ _ _ (suf_mono _ _ _ (take_suf _ r) hr) (fun _ r2 hr2 => suf_pure _ _ _ hr2)
  case wasm =>
    refine suf_bind _ _ _ (readFixed_suf e 1 bs) (fun _ r hr => ?_)
    show Suf (if _ then _ else if _ then _ else _) bs
    split
    · refine suf_bind _ _ _ (suf_mono _ _ _ (readUlebU32_suf r) hr) (fun _ r2 hr2 => suf_pure _ _ _ hr2)
    · split
      · refine suf_bind _ _ _ (suf_mono _ _ _ (readFixed_suf e 4 r) hr) (fun _ r2 hr2 => suf_pure _ _ _ hr2)
      · exact suf_err _ _

theorem readOperands_suf (e : Endian) (enc : Encoding) (os : List Operand) :
    ∀ bs, Suf (readOperands e enc os bs) bs := by
  induction os with
  | nil => intro bs a rest h; cases h; exact List.suffix_refl _
  | cons o os ih =>
    intro bs
    unfold readOperands
    refine suf_bind _ _ _ (readOperand_suf e enc o bs) (fun a r hr => ?_)
    refine suf_bind _ _ _ (suf_mono _ _ _ (ih r) hr) (fun _ r2 hr2 => suf_pure _ _ _ hr2)

/-- decoding consumes the opcode byte and a prefix of what follows -/
theorem decode_suffix (e : Endian) (enc : Encoding) (b : UInt8) (tl : Bytes) (op : Operation) (rest : Bytes)
    (h : decode e enc (b :: tl) = .ok (op, rest)) : rest <:+ tl := by
  simp only [decode] at h
  cases hs : signature b.toNat with
  | none => rw [hs] at h; cases h
  | some sig =>
    rw [hs] at h
    obtain ⟨⟨args, r⟩, h1, h2⟩ := bind_eq_ok h
    obtain ⟨op', _, h3⟩ := bind_eq_ok h2
    have hr : r = rest := by cases h3; rfl
    rw [← hr]
    exact readOperands_suf e enc sig tl args r h1

/-! ## `OperationIter` -/

theorem iterNext_after_error (e : Endian) (enc : Encoding) (input : Bytes) (x : Err)
    (h : (iterNext e enc input).1 = .err x) :
    (iterNext e enc input).2 = [] ∧ (iterNext e enc (iterNext e enc input).2).1 = .ok none := by
  unfold iterNext at h ⊢
  cases input with
  | nil => simp at h
  | cons b tl =>
    simp only [] at h ⊢
    cases hp : parse e enc (b :: tl) with
    | ok p => rw [hp] at h; simp at h
    | err er => exact ⟨rfl, rfl⟩
    | panic w => rw [hp] at h; simp at h
    | diverge => rw [hp] at h; simp at h

theorem iterNext_progress (e : Endian) (enc : Encoding) (input : Bytes) (op : Operation)
    (h : (iterNext e enc input).1 = .ok (some op)) :
    (iterNext e enc input).2.length < input.length := by
  unfold iterNext at h ⊢
  cases input with
  | nil => simp at h
  | cons b tl =>
    simp only [] at h ⊢
    cases hp : parse e enc (b :: tl) with
    | ok p =>
      obtain ⟨op', rest⟩ := p
      simp only []
      rw [parse_eq_decode] at hp
      have := (decode_suffix e enc b tl op' rest hp).length_le
      simp only [List.length_cons]; omega
    | err er => rw [hp] at h; simp at h
    | panic w => rw [hp] at h; simp at h
    | diverge => rw [hp] at h; simp at h
