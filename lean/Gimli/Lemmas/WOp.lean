import Gimli.Model.WOp
import Gimli.Lemmas.Leb
import Gimli.Lemmas.Ints
namespace Gimli.WOp
open Gimli.Op (Encoding)

theorem bind_eq_ok {α β : Type} (x : Out α) (f : α → Out β) (b : β) :
    (x >>= f) = .ok b ↔ ∃ a, x = .ok a ∧ f a = .ok b := by
  cases x <;> simp

theorem encodeUFuel_length (fuel v : Nat) : (Leb.encodeUFuel fuel v).length = Leb.sizeUFuel fuel v := by
  induction fuel generalizing v with
  | zero => rfl
  | succ n ih =>
    rw [Leb.encodeUFuel, Leb.sizeUFuel]
    by_cases h : v / 128 = 0
    · simp [h]
    · simp [h, ih]; omega

theorem encodeU_length (v : Nat) : (Leb.encodeU v).length = Leb.sizeU v := encodeUFuel_length 10 v

theorem encodeSFuel_length (fuel : Nat) (v : Int) : (Leb.encodeSFuel fuel v).length = Leb.sizeSFuel fuel v := by
  induction fuel generalizing v with
  | zero => rfl
  | succ n ih =>
    rw [Leb.encodeSFuel, Leb.sizeSFuel]
    by_cases h : v / 64 = 0 ∨ v / 64 = -1
    · simp [h]
    · simp [h, ih]; omega

theorem encodeS_length (v : Int) : (Leb.encodeS v).length = Leb.sizeS v := encodeSFuel_length 10 v

theorem writeUdata_length (e : Endian) (v size : Nat) (bs : Bytes) (h : Ints.writeUdata e v size = .ok bs) :
    bs.length = size := by
  unfold Ints.writeUdata at h
  split at h
  · split at h
    · simp at h
    · simp only [Out.ok.injEq] at h; rw [← h, Ints.toBytes_length]
  · split at h
    · rename_i h8; simp only [Out.ok.injEq] at h; rw [← h, Ints.toBytes_length, h8]
    · simp at h

theorem writeSdata_length (e : Endian) (v : Int) (size : Nat) (bs : Bytes) (h : Ints.writeSdata e v size = .ok bs) :
    bs.length = size := by
  unfold Ints.writeSdata at h
  split at h
  · simp only at h
    split at h
    · simp at h
    · simp only [Out.ok.injEq] at h; rw [← h, Ints.toBytes_length]
  · split at h
    · rename_i h8; simp only [Out.ok.injEq] at h; rw [← h, Ints.toBytes_length, h8]
    · simp at h

theorem writeAddress_length (e : Endian) (a : Addr) (size : Nat) (bs : Bytes)
    (h : writeAddress e a size = .ok bs) : bs.length = size := by
  cases a with
  | constant v => exact writeUdata_length e v size bs h
  | symbol s a => simp [writeAddress] at h

theorem writeDRef_length (e : Endian) (hasRefs : Bool) (r : DRef) (size at_ : Nat) (bs : Bytes) (fx : List Fixup)
    (h : writeDRef e hasRefs r size at_ = .ok (bs, fx)) : bs.length = size := by
  cases r with
  | symbol s => simp [writeDRef] at h
  | entry u en =>
    simp only [writeDRef] at h
    split at h
    · rw [bind_eq_ok] at h
      obtain ⟨b, hb, h2⟩ := h
      simp only [Out.pure_eq, Out.ok.injEq, Prod.mk.injEq] at h2
      rw [← h2.1]; exact writeUdata_length e 0 size b hb
    · simp at h

theorem writeBranch_length (e : Endian) (offsets : List Nat) (t wlen : Nat) (bs : Bytes)
    (h : writeBranch e offsets t wlen = .ok bs) : bs.length = 2 := by
  unfold writeBranch at h
  split at h
  · simp at h
  · exact writeSdata_length e _ 2 bs h

theorem entryOffset_baseSize (uo : UnitOffs) (entry o : Nat) (h : entryOffset uo entry = .ok o) :
    baseSize uo entry = .ok (Leb.sizeU o) := by
  unfold entryOffset at h
  unfold baseSize
  cases uo with
  | none => simp at h
  | some f =>
    simp only at h ⊢
    cases hf : f entry with
    | none => simp [hf] at h
    | some x => simp only [hf, Out.ok.injEq] at h; rw [h]

/-! ## predicted size = emitted length, for every operation (mutual induction over the nesting) -/

mutual
theorem opWrite_length (e : Endian) (enc : Encoding) (uo : UnitOffs) (hasRefs : Bool) :
    ∀ (op : Operation) (offsets : List Nat) (pos : Nat) (bs : Bytes) (fx : List Fixup),
      opWrite e enc uo hasRefs offsets pos op = .ok (bs, fx) → opSize enc uo op = .ok bs.length
  | .raw b, offsets, pos, bs, fx, h => by
    simp only [opWrite, Out.ok.injEq, Prod.mk.injEq] at h
    simp [opSize, h.1]
  | .simple o, offsets, pos, bs, fx, h => by
    simp only [opWrite, Out.ok.injEq, Prod.mk.injEq] at h
    simp [opSize, ← h.1]
  | .address a, offsets, pos, bs, fx, h => by
    simp only [opWrite, bind_eq_ok, Out.pure_eq, Out.ok.injEq, Prod.mk.injEq] at h
    obtain ⟨b, hb, h2, _⟩ := h
    have := writeAddress_length _ _ _ _ hb
    simp [opSize, ← h2, this]; omega
  | .entryValue body, offsets, pos, bs, fx, h => by
    simp only [opWrite, bind_eq_ok, Out.pure_eq, Out.ok.injEq, Prod.mk.injEq] at h
    obtain ⟨len, hlen, offs, hoffs, ⟨b, f⟩, hw, h2, _⟩ := h
    have ih := exprWriteOps_length e enc uo hasRefs body _ _ _ _ hw
    rw [hlen] at ih
    simp only [Out.ok.injEq] at ih
    simp [opSize, hlen, ← h2, encodeU_length, ih]; omega
  | .unsignedConstant v, offsets, pos, bs, fx, h => by
    simp only [opWrite] at h
    split at h <;> simp only [Out.ok.injEq, Prod.mk.injEq] at h
    · rename_i hv; simp [opSize, ← h.1, hv]
    · rename_i hv; simp [opSize, ← h.1, hv, encodeU_length]; omega
  | .signedConstant v, offsets, pos, bs, fx, h => by
    simp only [opWrite, Out.ok.injEq, Prod.mk.injEq] at h
    simp [opSize, ← h.1, encodeS_length]; omega
  | .constantType base value, offsets, pos, bs, fx, h => by
    simp only [opWrite, bind_eq_ok, Out.pure_eq, Out.ok.injEq, Prod.mk.injEq] at h
    obtain ⟨o, ho, l, hl, h2, _⟩ := h
    have := writeUdata_length _ _ _ _ hl
    simp [opSize, entryOffset_baseSize _ _ _ ho, ← h2, encodeU_length, this]; omega
  | .frameOffset o, offsets, pos, bs, fx, h => by
    simp only [opWrite, Out.ok.injEq, Prod.mk.injEq] at h
    simp [opSize, ← h.1, encodeS_length]; omega
  | .registerOffset r o, offsets, pos, bs, fx, h => by
    simp only [opWrite] at h
    split at h <;> simp only [Out.ok.injEq, Prod.mk.injEq] at h
    · rename_i hv; simp [opSize, ← h.1, hv, encodeS_length]; omega
    · rename_i hv; simp [opSize, ← h.1, hv, encodeS_length, encodeU_length]; omega
  | .registerType r base, offsets, pos, bs, fx, h => by
    simp only [opWrite, bind_eq_ok, Out.pure_eq, Out.ok.injEq, Prod.mk.injEq] at h
    obtain ⟨o, ho, h2, _⟩ := h
    simp [opSize, entryOffset_baseSize _ _ _ ho, ← h2, encodeU_length]; omega
  | .pick i, offsets, pos, bs, fx, h => by
    simp only [opWrite] at h
    split at h <;> simp only [Out.ok.injEq, Prod.mk.injEq] at h
    · simp [opSize, ← h.1]
    · simp [opSize, ← h.1]
    · rename_i h0 h1
      have : i > 1 := by
        rcases i with _ | _ | i
        · exact absurd rfl h0
        · exact absurd rfl h1
        · omega
      simp [opSize, ← h.1, this]
  | .deref sp, offsets, pos, bs, fx, h => by
    simp only [opWrite, Out.ok.injEq, Prod.mk.injEq] at h
    simp [opSize, ← h.1]
  | .derefSize sp sz, offsets, pos, bs, fx, h => by
    simp only [opWrite, Out.ok.injEq, Prod.mk.injEq] at h
    simp [opSize, ← h.1]
  | .derefType sp sz base, offsets, pos, bs, fx, h => by
    simp only [opWrite, bind_eq_ok, Out.pure_eq, Out.ok.injEq, Prod.mk.injEq] at h
    obtain ⟨o, ho, h2, _⟩ := h
    simp [opSize, entryOffset_baseSize _ _ _ ho, ← h2, encodeU_length]; omega
  | .plusConstant v, offsets, pos, bs, fx, h => by
    simp only [opWrite, Out.ok.injEq, Prod.mk.injEq] at h
    simp [opSize, ← h.1, encodeU_length]; omega
  | .skip t, offsets, pos, bs, fx, h => by
    simp only [opWrite, bind_eq_ok, Out.pure_eq, Out.ok.injEq, Prod.mk.injEq] at h
    obtain ⟨d, hd, h2, _⟩ := h
    simp [opSize, ← h2, writeBranch_length _ _ _ _ _ hd]
  | .branch t, offsets, pos, bs, fx, h => by
    simp only [opWrite, bind_eq_ok, Out.pure_eq, Out.ok.injEq, Prod.mk.injEq] at h
    obtain ⟨d, hd, h2, _⟩ := h
    simp [opSize, ← h2, writeBranch_length _ _ _ _ _ hd]
  | .call en, offsets, pos, bs, fx, h => by
    simp only [opWrite, bind_eq_ok, Out.pure_eq, Out.ok.injEq, Prod.mk.injEq] at h
    obtain ⟨o, ho, b, hb, h2, _⟩ := h
    simp [opSize, ← h2, writeUdata_length _ _ _ _ hb]
  | .callRef r, offsets, pos, bs, fx, h => by
    simp only [opWrite, bind_eq_ok, Out.pure_eq, Out.ok.injEq, Prod.mk.injEq] at h
    obtain ⟨⟨b, f⟩, hb, h2, _⟩ := h
    simp [opSize, ← h2, writeDRef_length _ _ _ _ _ _ _ hb]; omega
  | .variableValue r, offsets, pos, bs, fx, h => by
    simp only [opWrite, bind_eq_ok, Out.pure_eq, Out.ok.injEq, Prod.mk.injEq] at h
    obtain ⟨⟨b, f⟩, hb, h2, _⟩ := h
    simp [opSize, ← h2, writeDRef_length _ _ _ _ _ _ _ hb]; omega
  | .convert base, offsets, pos, bs, fx, h => by
    cases base with
    | none =>
      simp only [opWrite, Out.ok.injEq, Prod.mk.injEq] at h
      simp [opSize, ← h.1]
    | some b =>
      simp only [opWrite, bind_eq_ok, Out.pure_eq, Out.ok.injEq, Prod.mk.injEq] at h
      obtain ⟨o, ho, h2, _⟩ := h
      simp [opSize, entryOffset_baseSize _ _ _ ho, ← h2, encodeU_length]; omega
  | .reinterpret base, offsets, pos, bs, fx, h => by
    cases base with
    | none =>
      simp only [opWrite, Out.ok.injEq, Prod.mk.injEq] at h
      simp [opSize, ← h.1]
    | some b =>
      simp only [opWrite, bind_eq_ok, Out.pure_eq, Out.ok.injEq, Prod.mk.injEq] at h
      obtain ⟨o, ho, h2, _⟩ := h
      simp [opSize, entryOffset_baseSize _ _ _ ho, ← h2, encodeU_length]; omega
  | .register r, offsets, pos, bs, fx, h => by
    simp only [opWrite] at h
    split at h <;> simp only [Out.ok.injEq, Prod.mk.injEq] at h
    · rename_i hv; simp [opSize, ← h.1, hv]
    · rename_i hv; simp [opSize, ← h.1, hv, encodeU_length]; omega
  | .implicitValue d, offsets, pos, bs, fx, h => by
    simp only [opWrite, Out.ok.injEq, Prod.mk.injEq] at h
    simp [opSize, ← h.1, encodeU_length]; omega
  | .implicitPointer r o, offsets, pos, bs, fx, h => by
    simp only [opWrite, bind_eq_ok, Out.pure_eq, Out.ok.injEq, Prod.mk.injEq] at h
    obtain ⟨⟨b, f⟩, hb, h2, _⟩ := h
    simp [opSize, ← h2, writeDRef_length _ _ _ _ _ _ _ hb, encodeS_length]; omega
  | .piece n, offsets, pos, bs, fx, h => by
    simp only [opWrite] at h
    split at h
    · cases h
    · simp only [Out.ok.injEq, Prod.mk.injEq] at h
      simp [opSize, ← h.1, encodeU_length]; omega
  | .bitPiece s o, offsets, pos, bs, fx, h => by
    simp only [opWrite, Out.ok.injEq, Prod.mk.injEq] at h
    simp [opSize, ← h.1, encodeU_length]; omega
  | .parameterRef en, offsets, pos, bs, fx, h => by
    simp only [opWrite, bind_eq_ok, Out.pure_eq, Out.ok.injEq, Prod.mk.injEq] at h
    obtain ⟨o, ho, b, hb, h2, _⟩ := h
    simp [opSize, ← h2, writeUdata_length _ _ _ _ hb]
  | .wasmLocal i, offsets, pos, bs, fx, h => by
    simp only [opWrite, Out.ok.injEq, Prod.mk.injEq] at h
    simp [opSize, ← h.1, encodeU_length]; omega
  | .wasmGlobal i, offsets, pos, bs, fx, h => by
    simp only [opWrite, Out.ok.injEq, Prod.mk.injEq] at h
    simp [opSize, ← h.1, encodeU_length]; omega
  | .wasmStack i, offsets, pos, bs, fx, h => by
    simp only [opWrite, Out.ok.injEq, Prod.mk.injEq] at h
    simp [opSize, ← h.1, encodeU_length]; omega

theorem exprWriteOps_length (e : Endian) (enc : Encoding) (uo : UnitOffs) (hasRefs : Bool) :
    ∀ (ops : List Operation) (offsets : List Nat) (pos : Nat) (bs : Bytes) (fx : List Fixup),
      exprWriteOps e enc uo hasRefs offsets pos ops = .ok (bs, fx) → exprSize enc uo ops = .ok bs.length
  | [], offsets, pos, bs, fx, h => by
    simp only [exprWriteOps, Out.ok.injEq, Prod.mk.injEq] at h
    simp [exprSize, ← h.1]
  | op :: rest, offsets, pos, bs, fx, h => by
    simp only [exprWriteOps, bind_eq_ok, Out.pure_eq, Out.ok.injEq, Prod.mk.injEq] at h
    obtain ⟨⟨b1, f1⟩, h1, ⟨b2, f2⟩, h2, h3, _⟩ := h
    have i1 := opWrite_length e enc uo hasRefs op _ _ _ _ h1
    have i2 := exprWriteOps_length e enc uo hasRefs rest _ _ _ _ h2
    simp [exprSize, i1, i2, ← h3]
end
end Gimli.WOp
