import Gimli.Lemmas.WOpRunA
/-!
# C15: whole evaluation runs, part B — one step keeps the invariant
-/
set_option linter.unusedSimpArgs false
set_option linter.unusedVariables false
namespace Gimli.WOp
open Gimli.Op (Encoding)
open Gimli.Eval Gimli.BuiltEval

/-- no operation touches the bytecode or the expression stack -/
theorem execute_frame (c : Config) (op : Op.Operation) (m : Mach) (r : OpResult) (m' : Mach)
    (h : execute c op m = .ok (r, m')) : m'.bytecode = m.bytecode ∧ m'.exprStack = m.exprStack := by
  by_cases hs : ∃ t, op = .skip t
  · obtain ⟨t, rfl⟩ := hs
    simp only [execute, bind_eq_ok, Out.pure_eq, Out.ok.injEq, Prod.mk.injEq] at h
    obtain ⟨pc, _, _, h⟩ := h
    rw [← h]; exact ⟨rfl, rfl⟩
  by_cases hb : ∃ t, op = .bra t
  · obtain ⟨t, rfl⟩ := hb
    simp only [execute, bind_eq_ok, Prod.exists] at h
    obtain ⟨entry, m2, hpop, v, hv, h⟩ := h
    obtain ⟨_, hbc2, hes2⟩ := (pop_keeps _ _ (same_refl _)).out _ _ hpop
    split at h
    · simp only [bind_eq_ok, Out.pure_eq, Out.ok.injEq, Prod.mk.injEq] at h
      obtain ⟨pc, _, _, h⟩ := h
      rw [← h]; exact ⟨hbc2, hes2⟩
    · simp only [Out.pure_eq, Out.ok.injEq, Prod.mk.injEq] at h
      rw [← h.2]; exact ⟨hbc2, hes2⟩
  · have := (execute_keeps c op m (fun t ht => hs ⟨t, ht⟩) (fun t ht => hb ⟨t, ht⟩)).out r m' h
    exact ⟨this.2.1, this.2.2⟩

section
variable {e : Endian} {enc : Encoding} {uo : UnitOffs} {hasRefs : Bool} {ops : List Operation}
  {pos : Nat} {bs : Bytes} {fx : List Fixup} {offs : List Nat}

/-- **one step keeps the invariant** -/
theorem step_inv (hW : Written e enc uo hasRefs ops pos bs fx offs) (c : Config)
    (hce : c.endian = e) (hcenc : c.encoding = enc) (m : Mach)
    (hi : Inv e enc uo hasRefs ops pos bs offs m) (hne : m.pc ≠ []) (r : OpResult) (m' : Mach)
    (h : evaluateOneOperation c m = .ok (r, m')) : Inv e enc uo hasRefs ops pos bs offs m' := by
  -- frame: bytecode and expression stack are unchanged
  have hfr : m'.bytecode = m.bytecode ∧ m'.exprStack = m.exprStack := by
    unfold evaluateOneOperation at h
    simp only [bind_eq_ok, Prod.exists] at h
    obtain ⟨op, rest, _, hx⟩ := h
    have := execute_frame c op _ r m' hx
    exact this
  refine ⟨?_, by rw [hfr.2]; exact hi.2⟩
  intro hb
  have hb' : m.bytecode = bs := by rw [← hfr.1]; exact hb
  obtain ⟨j, bj, fj, hj, hwj, hpc⟩ := hi.1 hb'
  have hpc : m.pc = bs.drop bj.length := hpc
  have hjlt : j < ops.length := by
    rcases Nat.lt_or_ge j ops.length with h | h
    · exact h
    · exfalso
      have : ops.take j = ops := List.take_of_length_le h
      rw [this, hW.hw] at hwj
      simp only [Out.ok.injEq, Prod.mk.injEq] at hwj
      rw [← hwj.1] at hpc
      simp at hpc
      exact hne hpc
  have hsplit : ops = ops.take j ++ ops[j] :: ops.drop (j + 1) := by
    rw [List.getElem_cons_drop]; exact (List.take_append_drop j ops).symm
  have hew : exprWrite e enc uo hasRefs pos (ops.take j ++ ops[j] :: ops.drop (j + 1)) = .ok (bs, fx) := by
    rw [← hsplit]; simp [exprWrite, hW.ho, hW.hw]
  obtain ⟨offs', b1, f1, bo, fo, img, ho', h1, _, _, hstep⟩ :=
    eval_step_aux e enc uo hasRefs c hce hcenc (ops.take j) (ops.drop (j + 1)) ops[j] pos bs fx hW.hoffs hW.hL
      (hW.hwf _ (List.getElem_mem _)) hew
  rw [← hsplit, hW.ho] at ho'
  simp only [Out.ok.injEq] at ho'
  subst ho'
  rw [hwj] at h1
  simp only [Out.ok.injEq, Prod.mk.injEq] at h1
  obtain ⟨rfl, rfl⟩ := h1
  obtain ⟨_, j', bj', fj', hj', hwj', hpc'⟩ := (hstep m hb' hpc).2 r m' h
  rw [← hsplit] at hj' hwj'
  exact ⟨j', bj', fj', hj', hwj', hpc'⟩
end
end Gimli.WOp
