import Gimli.Lemmas.Attr
import Gimli.Props.C01
/-! Helper lemmas for C03, part 2: totality of the attribute decoder and skipper (built on the
C01 totality theorems of the primitive readers), and payload preservation of the name-based
normalisation. -/
namespace Gimli.Attr
open Gimli Gimli.Ints

theorem normal_bind {α β} {x : Out α} {f : α → Out β} (hx : x.Normal) (hf : ∀ a, x = .ok a → (f a).Normal) :
    (x >>= f).Normal := by
  cases x with
  | ok a => simpa using hf a rfl
  | err e => simp [Out.Normal]
  | panic w => simp [Out.Normal] at hx
  | diverge => simp [Out.Normal] at hx

theorem normal_ok {α} (a : α) : (Out.ok a).Normal := by simp [Out.Normal]
theorem normal_err {α} (e : Err) : (Out.err e : Out α).Normal := by simp [Out.Normal]

theorem numV_normal {k : Kind} {r : Out (Nat × Bytes)} (h : r.Normal) : (numV k r).Normal :=
  normal_bind h fun _ _ => normal_ok _

theorem take_normal (n : Nat) (bs : Bytes) : (Ints.take n bs).Normal := by
  unfold Ints.take; split <;> simp [Out.Normal]

theorem blockV_normal {k : Kind} {r : Out (Nat × Bytes)} (h : r.Normal) : (blockV k r).Normal :=
  normal_bind h fun _ _ => normal_bind (take_normal _ _) fun _ _ => normal_ok _

theorem readWord_normal (e : Endian) (f : Format) (bs : Bytes) : (readWord e 64 f bs).Normal := by
  cases f
  · exact Props.C01.fixed_total _ _ _
  · simp only [readWord]
    refine normal_bind (Props.C01.fixed_total _ _ _) fun a _ => normal_bind ?_ fun _ _ => normal_ok _
    unfold offsetFromU64; split <;> simp [Out.Normal]

theorem readSizedOffset_normal (e : Endian) (n : Nat) (bs : Bytes) : (readSizedOffset e 64 n bs).Normal := by
  unfold readSizedOffset
  split
  · refine normal_bind (Props.C01.fixed_total _ _ _) fun a _ => normal_bind ?_ fun _ _ => normal_ok _
    unfold offsetFromU64; split <;> simp [Out.Normal]
  · exact normal_err _

theorem readUint3_normal (e : Endian) (bs : Bytes) : (readUint e 3 bs).Normal := by
  unfold readUint
  simp only [show ¬ (3 > 8) by omega, if_false]
  exact normal_bind (take_normal _ _) fun _ _ => normal_ok _

theorem readCStr_normal (bs : Bytes) : (readCStr bs).Normal := by
  induction bs with
  | nil => simp [readCStr, Out.Normal]
  | cons b tl ih =>
    rw [readCStr]; split
    · exact normal_ok _
    · exact normal_bind ih fun _ _ => normal_ok _

theorem parseDirect_normal (enc : Encoding) (spec : Spec) (form : Form) (bs : Bytes) :
    (parseDirect enc spec form bs).Normal := by
  cases form <;> simp only [parseDirect]
  case data4 => split <;> first | exact numV_normal (readWord_normal _ _ _) | exact numV_normal (Props.C01.fixed_total _ _ _)
  case data8 => split <;> first | exact numV_normal (readWord_normal _ _ _) | exact numV_normal (Props.C01.fixed_total _ _ _)
  case refAddr => split <;> first | exact numV_normal (readWord_normal _ _ _) | exact numV_normal (readSizedOffset_normal _ _ _)
  case sdata => exact normal_bind (Props.C01.sleb_total _) fun _ _ => normal_ok _
  case flag => exact normal_bind (Props.C01.fixed_total _ _ _) fun _ _ => normal_ok _
  case string => exact normal_bind (readCStr_normal _) fun _ _ => normal_ok _
  case implicitConst => split <;> simp [Out.Normal]
  all_goals first
    | exact normal_ok _
    | exact normal_err _
    | exact numV_normal (Props.C01.fixed_total _ _ _)
    | exact numV_normal (Props.C01.address_total _ _ _)
    | exact numV_normal (Props.C01.uleb_total _)
    | exact numV_normal (readWord_normal _ _ _)
    | exact numV_normal (readUint3_normal _ _)
    | exact blockV_normal (Props.C01.fixed_total _ _ _)
    | exact blockV_normal (Props.C01.uleb_total _)

theorem u16_shrinks {bs : Bytes} {c : Nat} {rest : Bytes} (h : Leb.u16 bs = .ok (c, rest)) :
    rest.length < bs.length := by
  unfold Leb.u16 at h
  repeat' split at h
  all_goals simp only [Out.ok.injEq, Prod.mk.injEq, reduceCtorEq] at h
  all_goals (obtain ⟨_, rfl⟩ := h; simp only [List.length_cons]; omega)

theorem parseLoop_normal (enc : Encoding) (spec : Spec) : ∀ (fuel : Nat) (form : Form) (bs : Bytes),
    bs.length < fuel → (parseLoop enc spec fuel form bs).Normal := by
  intro fuel
  induction fuel with
  | zero => intro _ bs h; omega
  | succ fuel ih =>
    intro form bs hl
    by_cases hi : form = .indirect
    · subst hi
      rw [parseLoop_succ_indirect]
      refine normal_bind (Props.C01.u16leb_total _) fun a ha => ?_
      have := u16_shrinks (c := a.1) (rest := a.2) ha
      exact ih _ _ (by omega)
    · rw [parseLoop_succ_direct _ _ _ _ _ hi]
      exact parseDirect_normal _ _ _ _

theorem parseAttribute_normal (enc : Encoding) (spec : Spec) (bs : Bytes) :
    (parseAttribute enc spec bs).Normal :=
  parseLoop_normal enc spec _ _ _ (Nat.lt_succ_self _)

theorem readAttributes_normal (enc : Encoding) (specs : List Spec) : ∀ bs : Bytes,
    (readAttributes enc specs bs).Normal := by
  induction specs with
  | nil => intro bs; exact normal_ok _
  | cons s ss ih =>
    intro bs
    rw [readAttributes]
    exact normal_bind (parseAttribute_normal _ _ _) fun _ _ => normal_bind (ih _) fun _ _ => normal_ok _

theorem skipN_normal (n : Nat) (bs : Bytes) : (skipN n bs).Normal := by
  unfold skipN; split <;> simp [Out.Normal]

theorem flush_normal (p : Nat) (bs : Bytes) : (flush p bs).Normal := by
  unfold flush; split
  · exact skipN_normal _ _
  · exact normal_ok _

theorem flush_le {p : Nat} {bs r : Bytes} (h : flush p bs = .ok r) : r.length ≤ bs.length := by
  unfold flush at h
  split at h
  · unfold skipN at h
    split at h
    · simp only [Out.ok.injEq] at h; rw [← h]; simp
    · simp at h
  · simp only [Out.ok.injEq] at h; rw [← h]; exact Nat.le_refl _

theorem skipBlock_normal {r : Out (Nat × Bytes)} (h : r.Normal) : (skipBlock r).Normal :=
  normal_bind h fun _ _ => skipN_normal _ _

theorem skipVar_normal (enc : Encoding) (form : Form) (bs : Bytes) : (skipVar enc form bs).Normal := by
  cases form <;> simp only [skipVar]
  case string => exact normal_bind (readCStr_normal _) fun _ _ => normal_ok _
  all_goals first
    | exact normal_err _
    | exact skipBlock_normal (Props.C01.fixed_total _ _ _)
    | exact skipBlock_normal (Props.C01.uleb_total _)
    | exact Props.C01.skipleb_total _

theorem skipOne_normal (enc : Encoding) : ∀ (fuel : Nat) (form : Form) (p : Nat) (bs : Bytes),
    bs.length < fuel → (skipOne enc fuel form p bs).Normal := by
  intro fuel
  induction fuel with
  | zero => intro _ _ bs h; omega
  | succ fuel ih =>
    intro form p bs hl
    cases hsz : getAttributeSize form enc with
    | some n => rw [skipOne_succ_fixed _ _ _ _ _ _ hsz]; exact normal_ok _
    | none =>
      by_cases hi : form = .indirect
      · subst hi
        rw [skipOne_succ_indirect]
        refine normal_bind (flush_normal _ _) fun b hb => normal_bind (Props.C01.u16leb_total _) fun a ha => ?_
        have h1 := u16_shrinks (c := a.1) (rest := a.2) ha
        have h2 := flush_le hb
        exact ih _ _ _ (by omega)
      · rw [skipOne_succ_var _ _ _ _ _ hsz hi]
        exact normal_bind (flush_normal _ _) fun _ _ => normal_bind (skipVar_normal _ _ _) fun _ _ => normal_ok _

theorem skipLoop_normal (enc : Encoding) (specs : List Spec) : ∀ (p : Nat) (bs : Bytes),
    (skipLoop enc specs p bs).Normal := by
  induction specs with
  | nil => intro p bs; rw [skipLoop]; exact flush_normal _ _
  | cons s ss ih =>
    intro p bs
    rw [skipLoop]
    exact normal_bind (skipOne_normal _ _ _ _ _ (Nat.lt_succ_self _)) fun _ _ => ih _ _

/-! ### normalisation -/

/-- two payloads denote the same number / view the same bytes / carry the same flag -/
def Payload.Same (a b : Payload) : Prop :=
  a.numeric = b.numeric ∧ a.bytes? = b.bytes? ∧ a.flag? = b.flag?

theorem Payload.Same.rfl' (a : Payload) : Payload.Same a a := ⟨rfl, rfl, rfl⟩

theorem udataValue_same {v : Value} {n : Nat} (h : v.udataValue = some n) :
    Payload.Same (.num n) v.payload := by
  unfold Value.udataValue at h
  split at h
  all_goals try (simp only [Option.some.injEq] at h; subst h; rename_i hp; rw [hp]; exact Payload.Same.rfl' _)
  · split at h
    · simp at h
    · rename_i i hk hp hi
      simp only [Option.some.injEq] at h
      subst h; rw [hp]
      refine ⟨?_, rfl, rfl⟩
      simp only [Payload.numeric]
      congr 1; omega
  · simp at h

theorem Rule.apply_same {r : Rule} {v v' : Value} (h : r.apply v = some v') :
    Payload.Same v'.payload v.payload := by
  cases r <;> simp only [Rule.apply, Option.map_eq_some_iff] at h <;> obtain ⟨n, hn, rfl⟩ := h
  case constU8 k =>
    simp only [Value.u8Value, Option.bind_eq_some_iff] at hn
    obtain ⟨m, hm, hlt⟩ := hn
    split at hlt <;> simp only [Option.some.injEq, reduceCtorEq] at hlt
    subst hlt; exact udataValue_same hm
  case constU16 k =>
    simp only [Value.u16Value, Option.bind_eq_some_iff] at hn
    obtain ⟨m, hm, hlt⟩ := hn
    split at hlt <;> simp only [Option.some.injEq, reduceCtorEq] at hlt
    subst hlt; exact udataValue_same hm
  case constUdata k => exact udataValue_same hn
  case dwoid => exact udataValue_same hn
  case exprloc =>
    unfold Value.exprlocValue at hn
    split at hn <;> simp only [Option.some.injEq, reduceCtorEq] at hn
    all_goals (subst hn; rename_i hp; rw [hp]; exact Payload.Same.rfl' _)
  case offset k =>
    unfold Value.offsetValue at hn
    split at hn <;> simp only [Option.some.injEq, reduceCtorEq] at hn
    subst hn; rename_i hp; rw [hp]; exact Payload.Same.rfl' _

theorem findSome_same (rs : List Rule) (v : Value) :
    Payload.Same ((rs.findSome? (·.apply v)).getD v).payload v.payload := by
  induction rs with
  | nil => exact Payload.Same.rfl' _
  | cons r rs ih =>
    simp only [List.findSome?_cons]
    cases h : r.apply v with
    | some v' => exact Rule.apply_same h
    | none => exact ih

end Gimli.Attr
