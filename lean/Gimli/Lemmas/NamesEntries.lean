import Gimli.Lemmas.Names
import Gimli.Lemmas.Leb
import Gimli.Lemmas.Package
/-!
# Lemmas for C17, `.debug_names` entry pool

`nameEntries_series`: `name_entries(i)` drained yields exactly the entries of the name's series
(abbreviation code, tag, one attribute per specification with the value the form denotes), each
at its pool offset, and stops at the terminating 0.
-/
namespace Gimli.C17
open Gimli Gimli.Leb

/-! ### the 16-bit LEB128 reader reads back what the writer emits -/

theorem ofNat_toNat (n : Nat) (h : n < 256) : (UInt8.ofNat n).toNat = n := by
  simp [Nat.mod_eq_of_lt h]

theorem encodeUFuel_more (f v : Nat) (h : v / 128 ≠ 0) :
    encodeUFuel (f + 1) v = UInt8.ofNat (v % 128 + 128) :: encodeUFuel f (v / 128) := by
  rw [encodeUFuel]; simp only [h, ne_eq, not_false_eq_true, if_true]

theorem encodeUFuel_last (f v : Nat) (h : v / 128 = 0) :
    encodeUFuel (f + 1) v = [UInt8.ofNat (v % 128)] := by
  rw [encodeUFuel]; simp only [h, ne_eq, not_true_eq_false, if_false]

theorem or_low7 (a b : Nat) (hb : b < 128) : b ||| (a <<< 7) = a * 128 + b := by
  have := Nat.shiftLeft_add_eq_or_of_lt (a := a) (b := b) (i := 7) (by omega)
  rw [Nat.or_comm, ← this, Nat.shiftLeft_eq]

theorem u16_roundtrip (v : Nat) (hv : v < 2 ^ 16) (rest : Bytes) :
    u16 (encodeU v ++ rest) = .ok (v, rest) := by
  by_cases h1 : v < 128
  · have he : encodeU v = [UInt8.ofNat v] := by
      rw [encodeU, encodeUFuel_last 9 v (by omega), Nat.mod_eq_of_lt h1]
    rw [he]
    simp only [List.cons_append, List.nil_append, u16]
    rw [ofNat_toNat v (by omega), if_pos h1]
  · by_cases h2 : v < 16384
    · have he : encodeU v = [UInt8.ofNat (v % 128 + 128), UInt8.ofNat (v / 128)] := by
        rw [encodeU, encodeUFuel_more 9 v (by omega), encodeUFuel_last 8 (v / 128) (by omega),
          Nat.mod_eq_of_lt (a := v / 128) (b := 128) (by omega)]
      rw [he]
      simp only [List.cons_append, List.nil_append, u16]
      rw [ofNat_toNat (v % 128 + 128) (by omega), ofNat_toNat (v / 128) (by omega)]
      rw [if_neg (by omega), if_pos (by omega)]
      have e1 : (v % 128 + 128) % 128 = v % 128 := by omega
      have e2 : v / 128 % 128 = v / 128 := by omega
      have e3 : (v / 128) <<< 7 % 2 ^ 16 = (v / 128) <<< 7 := by
        rw [Nat.shiftLeft_eq]; exact Nat.mod_eq_of_lt (by omega)
      rw [e1, e2, e3, or_low7 (v / 128) (v % 128) (by omega)]
      congr 2; omega
    · have he : encodeU v = [UInt8.ofNat (v % 128 + 128), UInt8.ofNat (v / 128 % 128 + 128), UInt8.ofNat (v / 128 / 128)] := by
        rw [encodeU, encodeUFuel_more 9 v (by omega), encodeUFuel_more 8 (v / 128) (by omega),
          encodeUFuel_last 7 (v / 128 / 128) (by omega),
          Nat.mod_eq_of_lt (a := v / 128 / 128) (b := 128) (by omega)]
      rw [he]
      simp only [List.cons_append, List.nil_append, u16]
      rw [ofNat_toNat (v % 128 + 128) (by omega), ofNat_toNat (v / 128 % 128 + 128) (by omega),
        ofNat_toNat (v / 128 / 128) (by omega)]
      rw [if_neg (by omega), if_neg (by omega), if_neg (by omega)]
      have e1 : (v % 128 + 128) % 128 = v % 128 := by omega
      have e2 : (v / 128 % 128 + 128) % 128 = v / 128 % 128 := by omega
      have e3 : (v / 128 % 128) <<< 7 % 2 ^ 16 = (v / 128 % 128) <<< 7 := by
        rw [Nat.shiftLeft_eq]; exact Nat.mod_eq_of_lt (by omega)
      have e4 : (v / 128 / 128) <<< 14 % 2 ^ 16 = v / 128 / 128 * 16384 := by
        rw [Nat.shiftLeft_eq]; exact Nat.mod_eq_of_lt (by omega)
      rw [e1, e2, e3, e4, or_low7 (v / 128 % 128) (v % 128) (by omega)]
      congr 2; omega
end Gimli.C17

namespace Gimli.Names
open Gimli Gimli.Ints
open Gimli.Aranges (Item)

/-- payload bytes of an attribute value `v` in a `DW_FORM` the entry pool may use -/
def encForm (e : Endian) (form v : Nat) : Bytes :=
  if form = 0x0c ∨ form = 0x0b ∨ form = 0x11 then toBytes e 1 v
  else if form = 0x19 then []
  else if form = 0x05 ∨ form = 0x12 then toBytes e 2 v
  else if form = 0x06 ∨ form = 0x13 then toBytes e 4 v
  else if form = 0x07 ∨ form = 0x14 then toBytes e 8 v
  else Leb.encodeU v

/-- the value a form denotes -/
def valueOf (form v : Nat) : Value :=
  if form = 0x0c then .flag (v ≠ 0)
  else if form = 0x19 then .flag true
  else if form = 0x0b ∨ form = 0x05 ∨ form = 0x06 ∨ form = 0x07 ∨ form = 0x0f then .unsigned v
  else .offset v

/-- supported form with a value that fits it -/
def FormOk (form v : Nat) : Prop :=
  ((form = 0x0c ∨ form = 0x0b ∨ form = 0x11) ∧ v < 2 ^ 8) ∨ form = 0x19 ∨
  ((form = 0x05 ∨ form = 0x12) ∧ v < 2 ^ 16) ∨ ((form = 0x06 ∨ form = 0x13) ∧ v < 2 ^ 32) ∨
  ((form = 0x07 ∨ form = 0x14 ∨ form = 0x0f ∨ form = 0x15) ∧ v < 2 ^ 64)

theorem readFormValue_enc (e : Endian) (form v : Nat) (rest : Bytes) (h : FormOk form v) :
    readFormValue e form (encForm e form v ++ rest) = .ok (valueOf form v, rest) := by
  have h1 : ∀ v, v < 2 ^ 8 → readFixed e 1 (toBytes e 1 v ++ rest) = .ok (v, rest) :=
    fun v hv => readFixed_toBytes e 1 v rest (by omega)
  have h2 : ∀ v, v < 2 ^ 16 → readFixed e 2 (toBytes e 2 v ++ rest) = .ok (v, rest) :=
    fun v hv => readFixed_toBytes e 2 v rest (by omega)
  have h4 : ∀ v, v < 2 ^ 32 → readFixed e 4 (toBytes e 4 v ++ rest) = .ok (v, rest) :=
    fun v hv => readFixed_toBytes e 4 v rest (by omega)
  have h8 : ∀ v, v < 2 ^ 64 → readFixed e 8 (toBytes e 8 v ++ rest) = .ok (v, rest) :=
    fun v hv => readFixed_toBytes e 8 v rest (by omega)
  have hl : ∀ v, v < 2 ^ 64 → Leb.unsigned (Leb.encodeU v ++ rest) = .ok (v, rest) :=
    fun v hv => Leb.unsigned_roundtrip v hv rest
  rcases h with ⟨hf | hf | hf, hv⟩ | hf | ⟨hf | hf, hv⟩ | ⟨hf | hf, hv⟩ | ⟨hf | hf | hf | hf, hv⟩ <;>
    subst hf
  · simp [readFormValue, encForm, valueOf, h1 v hv]
  · simp [readFormValue, encForm, valueOf, h1 v hv]
  · simp [readFormValue, encForm, valueOf, h1 v hv]
  · simp [readFormValue, encForm, valueOf]
  · simp [readFormValue, encForm, valueOf, h2 v hv]
  · simp [readFormValue, encForm, valueOf, h2 v hv]
  · simp [readFormValue, encForm, valueOf, h4 v hv]
  · simp [readFormValue, encForm, valueOf, h4 v hv]
  · simp [readFormValue, encForm, valueOf, h8 v hv]
  · simp [readFormValue, encForm, valueOf, h8 v hv]
  · simp [readFormValue, encForm, valueOf, hl v hv]
  · simp [readFormValue, encForm, valueOf, hl v hv]

/-- an abstract entry: its abbreviation and one value per attribute specification -/
structure AbsEntry where
  ab : Abbrev
  vals : List Nat

def encAttrs (e : Endian) : List (Nat × Nat) → List Nat → Bytes
  | (_, form) :: specs, v :: vs => encForm e form v ++ encAttrs e specs vs
  | _, _ => []

def attrsOf : List (Nat × Nat) → List Nat → List Attr
  | (name, form) :: specs, v :: vs => { name, form, value := valueOf form v } :: attrsOf specs vs
  | _, _ => []

/-- values match the specifications: same number, each fits its form -/
def ValsOk : List (Nat × Nat) → List Nat → Prop
  | [], [] => True
  | (_, form) :: specs, v :: vs => FormOk form v ∧ ValsOk specs vs
  | _, _ => False

def encEntry (e : Endian) (en : AbsEntry) : Bytes :=
  Leb.encodeU en.ab.code ++ encAttrs e en.ab.attrs en.vals

theorem readAttrs_enc (e : Endian) (specs : List (Nat × Nat)) (vs : List Nat) (rest : Bytes)
    (h : ValsOk specs vs) :
    readAttrs e specs (encAttrs e specs vs ++ rest) = .ok (attrsOf specs vs, rest) := by
  induction specs generalizing vs with
  | nil =>
    cases vs with
    | nil => simp [readAttrs, encAttrs, attrsOf]
    | cons v vs => simp [ValsOk] at h
  | cons sp specs ih =>
    obtain ⟨name, form⟩ := sp
    cases vs with
    | nil => simp [ValsOk] at h
    | cons v vs =>
      simp only [ValsOk] at h
      simp only [readAttrs, encAttrs, attrsOf, List.append_assoc]
      rw [readFormValue_enc e form v _ h.1]
      simp only [Out.bind_ok]
      rw [ih vs h.2]
      rfl

/-- the entry is usable with a given abbreviation table: its code is non-zero, fits 64 bits and
is resolved by `get` to this very abbreviation; the values fit the forms -/
structure AbsEntry.Ok (abbrevs : List Abbrev) (en : AbsEntry) : Prop where
  code_ne : en.ab.code ≠ 0
  code_lt : en.ab.code < 2 ^ 64
  get : getAbbrev abbrevs en.ab.code = some en.ab
  vals : ValsOk en.ab.attrs en.vals

def entryOf (off : Nat) (en : AbsEntry) : Entry :=
  { offset := off, abbrevCode := en.ab.code, tag := en.ab.tag,
    attrs := attrsOf en.ab.attrs en.vals }

theorem parseEntry_enc (e : Endian) (abbrevs : List Abbrev) (en : AbsEntry) (h : en.Ok abbrevs)
    (off : Nat) (rest : Bytes) :
    parseEntry e abbrevs off (encEntry e en ++ rest) = .ok (some (entryOf off en), rest) := by
  unfold parseEntry encEntry
  rw [List.append_assoc, Leb.unsigned_roundtrip _ h.code_lt]
  simp only [Out.bind_ok, h.code_ne, if_false, h.get]
  rw [readAttrs_enc e _ _ _ h.vals]
  rfl

theorem parseEntry_zero (e : Endian) (abbrevs : List Abbrev) (off : Nat) (rest : Bytes) :
    parseEntry e abbrevs off (0 :: rest) = .ok (none, rest) := by
  unfold parseEntry
  have : Leb.unsigned (0 :: rest) = .ok (0, rest) := by simp [Leb.unsigned]
  rw [this]
  simp

def encSeries (e : Endian) (es : List AbsEntry) : Bytes := es.flatMap (encEntry e)

/-- **exhaustive scan** of a series: every entry, in order, at its pool offset -/
def scanSeries (e : Endian) : Nat → List AbsEntry → List (Item Entry)
  | _, [] => []
  | off, en :: es => .item (entryOf off en) :: scanSeries e (off + (encEntry e en).length) es

theorem encEntry_ne_nil (e : Endian) (en : AbsEntry) (h : en.ab.code < 2 ^ 64) :
    0 < (encEntry e en).length := by
  unfold encEntry
  have := Leb.encodeU_spec en.ab.code h
  rw [List.length_append]
  omega

theorem entrySeries_enc (e : Endian) (abbrevs : List Abbrev) (es : List AbsEntry)
    (hes : ∀ en, en ∈ es → en.Ok abbrevs) (post : Bytes) (poolLen fuel : Nat)
    (hp : (encSeries e es ++ 0 :: post).length ≤ poolLen) (hf : es.length < fuel) :
    entrySeries e abbrevs poolLen fuel (encSeries e es ++ 0 :: post) =
      scanSeries e (poolLen - (encSeries e es ++ 0 :: post).length) es := by
  induction es generalizing fuel with
  | nil =>
    cases fuel with
    | zero => simp at hf
    | succ f =>
      simp only [encSeries, List.flatMap_nil, List.nil_append, scanSeries]
      rw [entrySeries]
      simp only [List.isEmpty_cons, Bool.false_eq_true, if_false]
      rw [parseEntry_zero]
  | cons en es ih =>
    cases fuel with
    | zero => simp at hf
    | succ f =>
      have hen := hes en (by simp)
      have hpos := encEntry_ne_nil e en hen.code_lt
      have hsplit : encSeries e (en :: es) ++ 0 :: post = encEntry e en ++ (encSeries e es ++ 0 :: post) := by
        simp [encSeries]
      rw [hsplit] at hp ⊢
      rw [entrySeries]
      have hne : (encEntry e en ++ (encSeries e es ++ 0 :: post)).isEmpty = false := by
        cases h : encEntry e en with
        | nil => rw [h] at hpos; simp at hpos
        | cons a t => rfl
      rw [hne]
      simp only [Bool.false_eq_true, if_false]
      rw [parseEntry_enc e abbrevs en hen]
      simp only [scanSeries]
      congr 1
      rw [ih (fun en' h' => hes en' (by simp [h'])) f (by rw [List.length_append] at hp; omega)
        (by simpa using hf)]
      congr 1
      have hl : (encEntry e en ++ (encSeries e es ++ 0 :: post)).length =
          (encEntry e en).length + (encSeries e es ++ 0 :: post).length := List.length_append
      rw [hl] at hp ⊢
      omega

open Gimli.Index (flatMap_length_const drop_flatMap_const) in
open Gimli.Indexed (readWord_enc) in
/-- entry `i` of an array of format-sized offsets -/
theorem offsetAt_table (e : Endian) (f : Format) (vals : List Nat) (i : Nat) (hi : i < vals.length)
    (hb : ∀ v, v ∈ vals → v < 256 ^ f.wordSize) :
    offsetAt e f (vals.flatMap fun v => toBytes e f.wordSize v) i = .ok vals[i] := by
  unfold offsetAt skipTo
  have hf : ∀ a : Nat, (toBytes e f.wordSize a).length = f.wordSize := fun a => toBytes_length e f.wordSize a
  have hlen := flatMap_length_const (fun v => toBytes e f.wordSize v) f.wordSize hf vals
  rw [if_pos (by rw [hlen, Nat.mul_comm]; exact Nat.mul_le_mul_left _ (by omega))]
  simp only [Out.bind_ok]
  rw [drop_flatMap_const _ _ hf, List.drop_eq_getElem_cons hi, List.flatMap_cons,
    readWord_enc e f _ _ (hb _ (List.getElem_mem hi))]
  rfl

/-- **`name_entries(i)` returns exactly the entries of the name's series**: the entry-offset
array points at `pre.length` in the pool, where the encoded series `es` followed by the
terminating 0 lies -/
theorem nameEntries_series (e : Endian) (ix : Index) (offsets : List Nat) (i : Nat)
    (hi : i < offsets.length)
    (hoff : ix.entryOffsetData = offsets.flatMap fun v => toBytes e ix.format.wordSize v)
    (hb : ∀ v, v ∈ offsets → v < 256 ^ ix.format.wordSize)
    (pre post : Bytes) (es : List AbsEntry) (hes : ∀ en, en ∈ es → en.Ok ix.abbrevs)
    (hpool : ix.entryPool = pre ++ (encSeries e es ++ 0 :: post)) (hoi : offsets[i] = pre.length) :
    ix.nameEntries e i = .ok (scanSeries e pre.length es) := by
  unfold Index.nameEntries
  rw [hoff, offsetAt_table e ix.format offsets i hi hb, hoi]
  simp only [Out.bind_ok]
  rw [hpool]
  have hs : skipTo (pre ++ (encSeries e es ++ 0 :: post)) pre.length = .ok (encSeries e es ++ 0 :: post) := by
    simp [skipTo]
  rw [hs]
  simp only [Out.bind_ok, Out.pure_eq]
  congr 1
  rw [entrySeries_enc e ix.abbrevs es hes post _ _ (by simp) (by
    have : es.length ≤ (encSeries e es).length := by
      clear hpool hs
      induction es with
      | nil => simp
      | cons en es ih =>
        have := encEntry_ne_nil e en (hes en (by simp)).code_lt
        have := ih (fun en' h' => hes en' (by simp [h']))
        simp only [encSeries, List.flatMap_cons, List.length_append, List.length_cons] at *
        omega
    rw [List.length_append]; simp; omega)]
  congr 1
  simp
/-! ### abbreviation table -/

def encSpec (p : Nat × Nat) : Bytes := Leb.encodeU p.1 ++ Leb.encodeU p.2
def encSpecs (specs : List (Nat × Nat)) : Bytes := specs.flatMap encSpec ++ [0, 0]
def encAbbrev (a : Abbrev) : Bytes := Leb.encodeU a.code ++ Leb.encodeU a.tag ++ encSpecs a.attrs
def encAbbrevs (abbrevs : List Abbrev) : Bytes := abbrevs.flatMap encAbbrev

structure Abbrev.Ok (a : Abbrev) : Prop where
  code_ne : a.code ≠ 0
  code_lt : a.code < 2 ^ 64
  tag_ne : a.tag ≠ 0
  tag_lt : a.tag < 2 ^ 16
  attrs : ∀ p, p ∈ a.attrs → p.1 ≠ 0 ∧ p.2 ≠ 0 ∧ p.1 < 2 ^ 16 ∧ p.2 < 2 ^ 16

theorem u16_zero (rest : Bytes) : Leb.u16 (0 :: rest) = .ok (0, rest) := by simp [Leb.u16]

theorem encodeU_length_pos (v : Nat) : 1 ≤ (Leb.encodeU v).length := by
  unfold Leb.encodeU
  rw [Leb.encodeUFuel]
  split <;> simp

theorem parseAttrSpecs_enc (specs : List (Nat × Nat)) (rest : Bytes) (fuel : Nat)
    (h : ∀ p, p ∈ specs → p.1 ≠ 0 ∧ p.2 ≠ 0 ∧ p.1 < 2 ^ 16 ∧ p.2 < 2 ^ 16) (hf : specs.length < fuel) :
    parseAttrSpecs fuel (encSpecs specs ++ rest) = .ok (specs, rest) := by
  induction specs generalizing fuel with
  | nil =>
    cases fuel with
    | zero => simp at hf
    | succ f =>
      simp only [encSpecs, List.flatMap_nil, List.nil_append, List.cons_append, parseAttrSpecs]
      rw [u16_zero]
      simp only [Out.bind_ok]
      rw [u16_zero]
      simp
  | cons p specs ih =>
    cases fuel with
    | zero => simp at hf
    | succ f =>
      obtain ⟨hn, hfm, hnl, hfl⟩ := h p (by simp)
      have hsplit : encSpecs (p :: specs) ++ rest =
          Leb.encodeU p.1 ++ (Leb.encodeU p.2 ++ (encSpecs specs ++ rest)) := by
        simp [encSpecs, encSpec, List.append_assoc]
      rw [hsplit, parseAttrSpecs, C17.u16_roundtrip p.1 hnl]
      simp only [Out.bind_ok]
      rw [C17.u16_roundtrip p.2 hfl]
      simp only [Out.bind_ok, hn, hfm, false_and, if_false]
      rw [ih f (fun q hq => h q (by simp [hq])) (by simpa using hf)]
      rfl

theorem encSpecs_length (specs : List (Nat × Nat)) : specs.length < (encSpecs specs).length := by
  induction specs with
  | nil => simp [encSpecs]
  | cons p specs ih =>
    have := encodeU_length_pos p.1
    simp only [encSpecs, List.flatMap_cons, encSpec, List.length_append, List.length_cons] at ih ⊢
    omega

/-- **the abbreviation table parses back to the abbreviations it encodes**, with or without the
terminating 0 -/
theorem parseAbbrevs_enc (abbrevs : List Abbrev) (h : ∀ a, a ∈ abbrevs → a.Ok)
    (tail : Bytes) (htail : tail = [] ∨ ∃ junk, tail = 0 :: junk) (fuel : Nat)
    (hf : abbrevs.length < fuel) :
    parseAbbrevs fuel (encAbbrevs abbrevs ++ tail) = .ok abbrevs := by
  induction abbrevs generalizing fuel with
  | nil =>
    cases fuel with
    | zero => simp at hf
    | succ f =>
      simp only [encAbbrevs, List.flatMap_nil, List.nil_append]
      rcases htail with rfl | ⟨junk, rfl⟩
      · simp [parseAbbrevs]
      · rw [parseAbbrevs]
        simp only [List.isEmpty_cons, Bool.false_eq_true, if_false]
        have : Leb.unsigned (0 :: junk) = .ok (0, junk) := by simp [Leb.unsigned]
        rw [this]
        simp
  | cons a abbrevs ih =>
    cases fuel with
    | zero => simp at hf
    | succ f =>
      have ha := h a (by simp)
      have hsplit : encAbbrevs (a :: abbrevs) ++ tail =
          Leb.encodeU a.code ++ (Leb.encodeU a.tag ++ (encSpecs a.attrs ++ (encAbbrevs abbrevs ++ tail))) := by
        simp [encAbbrevs, encAbbrev, List.append_assoc]
      rw [hsplit, parseAbbrevs]
      have hne : (Leb.encodeU a.code ++ (Leb.encodeU a.tag ++ (encSpecs a.attrs ++ (encAbbrevs abbrevs ++ tail)))).isEmpty = false := by
        have := encodeU_length_pos a.code
        cases hc : Leb.encodeU a.code with
        | nil => rw [hc] at this; simp at this
        | cons x t => rfl
      rw [hne]
      simp only [Bool.false_eq_true, if_false]
      rw [Leb.unsigned_roundtrip a.code ha.code_lt]
      simp only [Out.bind_ok, ha.code_ne, if_false]
      rw [C17.u16_roundtrip a.tag ha.tag_lt]
      simp only [Out.bind_ok, ha.tag_ne, if_false]
      rw [parseAttrSpecs_enc a.attrs _ _ ha.attrs (by
        have := encSpecs_length a.attrs
        rw [List.length_append]; omega)]
      simp only [Out.bind_ok]
      rw [ih (fun b hb => h b (by simp [hb])) f (by simpa using hf)]
      rfl
/-! ### unit references, parent chains, accessors -/

open Gimli.Index (flatMap_length_const drop_flatMap_const) in
/-- entry `i` of the foreign type-unit list (8-byte signatures) -/
theorem foreignTypeUnit_table (e : Endian) (ix : Index) (sigs : List Nat) (j : Nat) (hj : j < sigs.length)
    (hl : ix.foreignTuList = sigs.flatMap fun v => toBytes e 8 v) (hb : ∀ v, v ∈ sigs → v < 256 ^ 8) :
    ix.foreignTypeUnit e j = .ok sigs[j] := by
  unfold Index.foreignTypeUnit skipTo
  have hf : ∀ a : Nat, (toBytes e 8 a).length = 8 := fun a => toBytes_length e 8 a
  have hlen := flatMap_length_const (fun v => toBytes e 8 v) 8 hf sigs
  rw [hl, if_pos (by rw [hlen, Nat.mul_comm]; exact Nat.mul_le_mul_left _ (by omega))]
  simp only [Out.bind_ok]
  rw [drop_flatMap_const _ _ hf, List.drop_eq_getElem_cons hj, List.flatMap_cons,
    readFixed_toBytes e 8 _ _ (hb _ (List.getElem_mem hj))]
  rfl

/-- **unit references of an entry resolve through the right list**: `DW_IDX_compile_unit` indexes
the CU list; `DW_IDX_type_unit` indexes the local TU list first and the foreign TU list after it -/
theorem units_exact (e : Endian) (ix : Index) (cus ltus ftus : List Nat)
    (hcu : ix.cuList = cus.flatMap fun v => toBytes e ix.format.wordSize v)
    (hltu : ix.localTuList = ltus.flatMap fun v => toBytes e ix.format.wordSize v)
    (hftu : ix.foreignTuList = ftus.flatMap fun v => toBytes e 8 v)
    (hlc : ix.localTuCount = ltus.length)
    (hbc : ∀ v, v ∈ cus → v < 256 ^ ix.format.wordSize)
    (hbl : ∀ v, v ∈ ltus → v < 256 ^ ix.format.wordSize)
    (hbf : ∀ v, v ∈ ftus → v < 256 ^ 8) :
    (∀ i (hi : i < cus.length), ix.compileUnit e i = .ok cus[i]) ∧
    (∀ i (hi : i < ltus.length), ix.typeUnit e i = .ok (.local_ ltus[i])) ∧
    (∀ j (hj : j < ftus.length), ix.typeUnit e (ltus.length + j) = .ok (.foreign ftus[j])) := by
  refine ⟨?_, ?_, ?_⟩
  · intro i hi
    unfold Index.compileUnit
    rw [hcu]; exact offsetAt_table e ix.format cus i hi hbc
  · intro i hi
    unfold Index.typeUnit Index.localTypeUnit
    rw [if_neg (by omega), hltu, offsetAt_table e ix.format ltus i hi hbl]
    rfl
  · intro j hj
    unfold Index.typeUnit
    rw [if_pos (by omega), hlc, Nat.add_sub_cancel_left, foreignTypeUnit_table e ix ftus j hj hftu hbf]
    rfl

/-- **parent chains**: the entry a `DW_IDX_parent` offset refers to is parsed back as that entry -/
theorem nameEntry_at (e : Endian) (ix : Index) (pre post : Bytes) (en : AbsEntry) (h : en.Ok ix.abbrevs)
    (hpool : ix.entryPool = pre ++ (encEntry e en ++ post)) :
    ix.nameEntry e pre.length = .ok (entryOf pre.length en) := by
  unfold Index.nameEntry
  rw [hpool]
  have hs : skipTo (pre ++ (encEntry e en ++ post)) pre.length = .ok (encEntry e en ++ post) := by
    simp [skipTo]
  rw [hs]
  simp only [Out.bind_ok]
  rw [parseEntry_enc e ix.abbrevs en h]
  rfl

/-- the five accessors read the first attribute of their `DW_IDX` name and accept exactly the
value classes the standard assigns to it -/
theorem accessors_exact (e : Endian) (ix : Index) (en : Entry) :
    (firstAttr en 3 = none → en.dieOffset = .ok none) ∧
    (∀ f v, firstAttr en 3 = some ⟨3, f, .offset v⟩ → en.dieOffset = .ok (some v)) ∧
    (firstAttr en 4 = none → en.parent = .ok none) ∧
    (∀ f v, firstAttr en 4 = some ⟨4, f, .offset v⟩ → en.parent = .ok (some (some v))) ∧
    (∀ f, firstAttr en 4 = some ⟨4, f, .flag true⟩ → en.parent = .ok (some none)) ∧
    (∀ f v, firstAttr en 5 = some ⟨5, f, .unsigned v⟩ → en.typeHash = .ok (some v)) ∧
    (firstAttr en 1 = none → en.compileUnit e ix = .ok none) ∧
    (∀ f v, firstAttr en 1 = some ⟨1, f, .unsigned v⟩ → v < 2 ^ 32 →
      en.compileUnit e ix = (ix.compileUnit e v).map some) ∧
    (firstAttr en 2 = none → en.typeUnit e ix = .ok none) ∧
    (∀ f v, firstAttr en 2 = some ⟨2, f, .unsigned v⟩ → v < 2 ^ 32 →
      en.typeUnit e ix = (ix.typeUnit e v).map some) := by
  refine ⟨?_, ?_, ?_, ?_, ?_, ?_, ?_, ?_, ?_, ?_⟩
  · intro h; simp [Entry.dieOffset, h]
  · intro f v h; simp [Entry.dieOffset, h]
  · intro h; simp [Entry.parent, h]
  · intro f v h; simp [Entry.parent, h]
  · intro f h; simp [Entry.parent, h]
  · intro f v h; simp [Entry.typeHash, h]
  · intro h; simp [Entry.compileUnit, h]
  · intro f v h hv; simp only [Entry.compileUnit, h]; rw [if_pos hv]
  · intro h; simp [Entry.typeUnit, h]
  · intro f v h hv; simp only [Entry.typeUnit, h]; rw [if_pos hv]
end Gimli.Names
