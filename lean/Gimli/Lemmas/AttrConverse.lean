import Gimli.Lemmas.Attr
import Gimli.Lemmas.AttrNormal
/-! Helper lemmas for C03, part 4: the converse of `skip_eq_read` as far as it holds — which errors
of reading `skip_attributes` reproduces, and which it cannot see. -/
set_option linter.unusedSimpArgs false
set_option linter.unusedVariables false
namespace Gimli.Attr
open Gimli Gimli.Ints

/-- the errors that only *reading* an attribute can report: they depend on the value
(LEB128 that is over-long or does not fit), on the abbreviation (`DW_FORM_indirect` resolving to
`DW_FORM_implicit_const`) or on an encoding that no unit header can produce (address size not
1/2/4/8); `skip_attributes` does not look at any of these -/
def ReadOnlyErr (e : Err) : Prop :=
  e = .rBadUnsignedLeb128 ∨ e = .rBadSignedLeb128 ∨ e = .rInvalidImplicitConst ∨
    e = .rUnsupportedAddressSize ∨ e = .rUnsupportedOffsetSize ∨ e = .rUnsupportedOffset

theorem bind_err_inv {α β} {x : Out α} {f : α → Out β} {e : Err} (h : (x >>= f) = .err e) :
    x = .err e ∨ ∃ a, x = .ok a ∧ f a = .err e := by
  cases x with
  | ok a => exact Or.inr ⟨a, rfl, by simpa using h⟩
  | err e' => simp at h; exact Or.inl (by rw [h])
  | panic w => simp at h
  | diverge => simp at h

theorem readFixed_err {e : Endian} {n : Nat} {bs : Bytes} {x : Err} (h : readFixed e n bs = .err x) :
    x = .rUnexpectedEof ∧ bs.length < n := by
  rw [readFixed_eq] at h
  split at h
  · simp at h
  · simp only [Out.err.injEq] at h; exact ⟨h.symm, by omega⟩

theorem take_err {n : Nat} {bs : Bytes} {x : Err} (h : Ints.take n bs = .err x) :
    x = .rUnexpectedEof ∧ bs.length < n := by
  unfold Ints.take at h
  split at h
  · simp at h
  · simp only [Out.err.injEq] at h; exact ⟨h.symm, by omega⟩

/-- a failed fixed-size read: a read-only error, or the input is shorter than `n` -/
def ShortOr (n : Nat) (bs : Bytes) (x : Err) : Prop := ReadOnlyErr x ∨ (x = .rUnexpectedEof ∧ bs.length < n)

theorem numV_err {k : Kind} {r : Out (Nat × Bytes)} {x : Err} (h : numV k r = .err x) : r = .err x := by
  unfold numV at h
  rcases bind_err_inv h with h | ⟨a, _, h⟩
  · exact h
  · simp at h

theorem readAddress_err {e : Endian} {n : Nat} {bs : Bytes} {x : Err} (h : readAddress e n bs = .err x) :
    ShortOr n bs x := by
  unfold readAddress at h
  split at h
  · exact Or.inr (readFixed_err h)
  · simp only [Out.err.injEq] at h; exact Or.inl (by simp [ReadOnlyErr, ← h])

theorem offsetFromU64_err {ob v : Nat} {x : Err} (h : offsetFromU64 ob v = .err x) : x = .rUnsupportedOffset := by
  unfold offsetFromU64 at h; split at h <;> simp at h; exact h.symm

theorem readWord_err {e : Endian} {f : Format} {bs : Bytes} {x : Err} (h : readWord e 64 f bs = .err x) :
    ShortOr f.wordSize bs x := by
  cases f with
  | dwarf32 => exact Or.inr (readFixed_err h)
  | dwarf64 =>
    simp only [readWord] at h
    rcases bind_err_inv h with h | ⟨⟨v, r⟩, _, h⟩
    · exact Or.inr (readFixed_err h)
    · rcases bind_err_inv h with h | ⟨a, _, h⟩
      · exact Or.inl (by simp [ReadOnlyErr, offsetFromU64_err h])
      · simp at h

theorem readSizedOffset_err {e : Endian} {n : Nat} {bs : Bytes} {x : Err}
    (h : readSizedOffset e 64 n bs = .err x) : ShortOr n bs x := by
  unfold readSizedOffset at h
  split at h
  · rcases bind_err_inv h with h | ⟨⟨v, r⟩, _, h⟩
    · exact Or.inr (readFixed_err h)
    · rcases bind_err_inv h with h | ⟨a, _, h⟩
      · exact Or.inl (by simp [ReadOnlyErr, offsetFromU64_err h])
      · simp at h
  · simp only [Out.err.injEq] at h; exact Or.inl (by simp [ReadOnlyErr, ← h])

theorem readUint3_err {e : Endian} {bs : Bytes} {x : Err} (h : readUint e 3 bs = .err x) :
    ShortOr 3 bs x := by
  unfold readUint at h
  simp only [show ¬ (3 > 8) by omega, if_false] at h
  rcases bind_err_inv h with h | ⟨a, _, h⟩
  · exact Or.inr (take_err h)
  · simp at h

/-- **a fixed-size form that fails to read**: with a read-only error, or because fewer bytes
remain than the size table advertises -/
theorem parseDirect_fixed_err {enc : Encoding} {spec : Spec} {form : Form} {bs : Bytes} {x : Err} {n : Nat}
    (hsz : getAttributeSize form enc = some n) (h : parseDirect enc spec form bs = .err x) :
    ShortOr n bs x := by
  cases form <;> simp only [getAttributeSize, Option.some.injEq, reduceCtorEq] at hsz <;>
    subst hsz <;> simp only [parseDirect] at h
  case data4 =>
    split at h
    · exact readWord_err (numV_err h)
    · exact Or.inr (readFixed_err (numV_err h))
  case data8 =>
    split at h
    · exact readWord_err (numV_err h)
    · exact Or.inr (readFixed_err (numV_err h))
  case flag =>
    rcases bind_err_inv h with h | ⟨a, _, h⟩
    · exact Or.inr (readFixed_err h)
    · simp at h
  case refAddr =>
    by_cases hv : enc.version = 2
    · simp only [hv, if_true] at h ⊢
      exact readSizedOffset_err (numV_err h)
    · simp only [hv, if_false] at h ⊢
      exact readWord_err (numV_err h)
  case flagPresent => simp at h
  case implicitConst =>
    split at h
    · simp at h
    · simp only [Out.err.injEq] at h; exact Or.inl (by simp [ReadOnlyErr, ← h])
  all_goals
    have hx := numV_err h
    first
      | exact Or.inr (readFixed_err hx)
      | exact readAddress_err hx
      | exact readWord_err hx
      | exact readUint3_err hx


theorem unsignedLoop_err_skip (bs : Bytes) : ∀ (r s : Nat) (x : Err), Leb.unsignedLoop bs r s = .err x →
    x = .rBadUnsignedLeb128 ∨ (x = .rUnexpectedEof ∧ Leb.skip bs = .err .rUnexpectedEof) := by
  induction bs with
  | nil => intro r s x h; simp [Leb.unsignedLoop] at h; exact Or.inr ⟨h.symm, by simp [Leb.skip]⟩
  | cons b tl ih =>
    intro r s x h
    rw [Leb.unsignedLoop] at h
    split at h
    · simp only [Out.err.injEq] at h; exact Or.inl h.symm
    · simp only at h
      split at h
      · simp at h
      · rename_i hb
        rcases ih _ _ _ h with h1 | ⟨h1, h2⟩
        · exact Or.inl h1
        · exact Or.inr ⟨h1, by rw [Leb.skip]; simp [hb, h2]⟩

theorem unsigned_err_skip {bs : Bytes} {x : Err} (h : Leb.unsigned bs = .err x) :
    x = .rBadUnsignedLeb128 ∨ (x = .rUnexpectedEof ∧ Leb.skip bs = .err .rUnexpectedEof) := by
  cases bs with
  | nil => simp [Leb.unsigned] at h; exact Or.inr ⟨h.symm, by simp [Leb.skip]⟩
  | cons b tl =>
    rw [Leb.unsigned] at h
    split at h
    · simp at h
    · rename_i hb
      rcases unsignedLoop_err_skip _ _ _ _ h with h1 | ⟨h1, h2⟩
      · exact Or.inl h1
      · exact Or.inr ⟨h1, by rw [Leb.skip]; simp [hb, h2]⟩

theorem signedLoop_err_skip (bs : Bytes) : ∀ (r s : Nat) (x : Err), Leb.signedLoop bs r s = .err x →
    x = .rBadSignedLeb128 ∨ (x = .rUnexpectedEof ∧ Leb.skip bs = .err .rUnexpectedEof) := by
  induction bs with
  | nil => intro r s x h; simp [Leb.signedLoop] at h; exact Or.inr ⟨h.symm, by simp [Leb.skip]⟩
  | cons b tl ih =>
    intro r s x h
    rw [Leb.signedLoop] at h
    split at h
    · simp only [Out.err.injEq] at h; exact Or.inl h.symm
    · simp only at h
      split at h
      · simp at h
      · rename_i hb
        rcases ih _ _ _ h with h1 | ⟨h1, h2⟩
        · exact Or.inl h1
        · exact Or.inr ⟨h1, by rw [Leb.skip]; simp [hb, h2]⟩

theorem signed_err_skip {bs : Bytes} {x : Err} (h : Leb.signed bs = .err x) :
    x = .rBadSignedLeb128 ∨ (x = .rUnexpectedEof ∧ Leb.skip bs = .err .rUnexpectedEof) := by
  unfold Leb.signed at h
  split at h
  · simp at h
  · rename_i e he
    simp only [Out.err.injEq] at h; subst h
    exact signedLoop_err_skip bs 0 0 _ he
  · simp at h
  · simp at h

theorem skipBlock_err_of_blockV_err {k : Kind} {r : Out (Nat × Bytes)} {x : Err}
    (h : blockV k r = .err x) : skipBlock r = .err x := by
  unfold blockV at h
  unfold skipBlock
  rcases bind_err_inv h with h | ⟨⟨len, r1⟩, h1, h2⟩
  · rw [h]; rfl
  · rw [h1]
    simp only [Out.bind_ok]
    rcases bind_err_inv h2 with h3 | ⟨a, _, h3⟩
    · obtain ⟨hx, hl⟩ := take_err h3
      simp [skipN, hx, Nat.not_le.mpr hl]
    · simp at h3

/-- for the variably sized forms other than `DW_FORM_indirect`: a read that fails with anything
but a read-only error makes the skip fail with the same error -/
theorem skipVar_err_of_parseDirect_err {enc : Encoding} {spec : Spec} {form : Form} {bs : Bytes} {x : Err}
    (hsz : getAttributeSize form enc = none) (hni : form ≠ .indirect)
    (h : parseDirect enc spec form bs = .err x) (hx : ¬ ReadOnlyErr x) : skipVar enc form bs = .err x := by
  cases form <;> simp only [getAttributeSize, reduceCtorEq] at hsz <;>
    simp only [parseDirect] at h <;> simp only [skipVar]
  case indirect => exact absurd rfl hni
  case unknown c => simp only [Out.err.injEq] at h ⊢; exact h
  case string =>
    rcases bind_err_inv h with h | ⟨a, _, h⟩
    · rw [h]; rfl
    · simp at h
  case sdata =>
    rcases bind_err_inv h with h | ⟨a, _, h⟩
    · rcases signed_err_skip h with h1 | ⟨h1, h2⟩
      · exact absurd (by simp [ReadOnlyErr, h1]) hx
      · rw [h1, h2]
    · simp at h
  all_goals first
    | exact skipBlock_err_of_blockV_err h
    | (rcases unsigned_err_skip (numV_err h) with h1 | ⟨h1, h2⟩
       · exact absurd (by simp [ReadOnlyErr, h1]) hx
       · rw [h1, h2])


theorem flush_overrun {p : Nat} {bs : Bytes} (h : bs.length < p) : flush p bs = .err .rUnexpectedEof := by
  unfold flush skipN
  have : p ≠ 0 := by omega
  simp [this, Nat.not_le.mpr h]

/-- one specification from an overrun state: still overrun, or the end-of-input error -/
theorem skipOne_overrun (enc : Encoding) (fuel : Nat) (form : Form) (p : Nat) (bs : Bytes)
    (h : bs.length < p) :
    skipOne enc (fuel + 1) form p bs = .err .rUnexpectedEof ∨
      ∃ p', skipOne enc (fuel + 1) form p bs = .ok (p', bs) ∧ bs.length < p' := by
  cases hsz : getAttributeSize form enc with
  | some n => exact Or.inr ⟨p + n, skipOne_succ_fixed _ _ _ _ _ _ hsz, by omega⟩
  | none =>
    left
    by_cases hi : form = .indirect
    · subst hi; rw [skipOne_succ_indirect, flush_overrun h]; rfl
    · rw [skipOne_succ_var _ _ _ _ _ hsz hi, flush_overrun h]; rfl

/-- once more bytes are pending than remain, `skip_attributes` ends with the end-of-input error -/
theorem skipLoop_overrun (enc : Encoding) : ∀ (specs : List Spec) (p : Nat) (bs : Bytes), bs.length < p →
    skipLoop enc specs p bs = .err .rUnexpectedEof := by
  intro specs
  induction specs with
  | nil => intro p bs h; rw [skipLoop]; exact flush_overrun h
  | cons s ss ih =>
    intro p bs h
    rw [skipLoop]
    rcases skipOne_overrun enc bs.length s.form p bs h with h1 | ⟨p', h1, h2⟩
    · rw [h1]; rfl
    · rw [h1]; simp only [Out.bind_ok]; exact ih p' bs h2

/-- one specification whose reading fails with something other than a read-only error: the
skipper fails with the same error, or (end of input on a fixed-size form) is left overrun -/
theorem skipOne_of_parseLoop_err (enc : Encoding) (spec : Spec) : ∀ (f1 f2 : Nat) (form : Form) (p : Nat)
    (bs : Bytes) (x : Err), f1 ≤ f2 → p ≤ bs.length →
    parseLoop enc spec f1 form (bs.drop p) = .err x → ¬ ReadOnlyErr x →
    skipOne enc f2 form p bs = .err x ∨
      (x = .rUnexpectedEof ∧ ∃ p' bs', skipOne enc f2 form p bs = .ok (p', bs') ∧ bs'.length < p') := by
  intro f1
  induction f1 with
  | zero => intro f2 form p bs x _ _ h; simp [parseLoop] at h
  | succ f1 ih =>
    intro f2 form p bs x hf hp h hx
    obtain ⟨f2, rfl⟩ : ∃ k, f2 = k + 1 := ⟨f2 - 1, by omega⟩
    cases hsz : getAttributeSize form enc with
    | some n =>
      have hni : form ≠ .indirect := by
        intro hi; rw [hi, getAttributeSize_indirect] at hsz; simp at hsz
      rw [parseLoop_succ_direct _ _ _ _ _ hni] at h
      rcases parseDirect_fixed_err hsz h with h1 | ⟨h1, h2⟩
      · exact absurd h1 hx
      · right
        refine ⟨h1, p + n, bs, skipOne_succ_fixed _ _ _ _ _ _ hsz, ?_⟩
        simp only [List.length_drop] at h2; omega
    | none =>
      by_cases hi : form = .indirect
      · subst hi
        rw [parseLoop_succ_indirect] at h
        rw [skipOne_succ_indirect, flush_ok hp, Out.bind_ok]
        rcases bind_err_inv h with h1 | ⟨⟨c, r1⟩, h1, h2⟩
        · left; rw [h1]; rfl
        · rw [h1, Out.bind_ok]
          exact ih f2 (Form.ofCode c) 0 r1 x (by omega) (Nat.zero_le _) (by simpa using h2) hx
      · left
        rw [parseLoop_succ_direct _ _ _ _ _ hi] at h
        have hs := skipVar_err_of_parseDirect_err hsz hi h hx
        rw [skipOne_succ_var _ _ _ _ _ hsz hi, flush_ok hp, Out.bind_ok, hs]; rfl

/-- **the converse direction, as far as it is true**: if reading all attributes fails with an
error that is not read-only — in particular when it runs out of input — then `skip_attributes`
fails with the same error (generalised over the pending skip count) -/
theorem skipLoop_err_of_readAttributes_err (enc : Encoding) : ∀ (specs : List Spec) (p : Nat) (bs : Bytes)
    (x : Err), p ≤ bs.length → readAttributes enc specs (bs.drop p) = .err x → ¬ ReadOnlyErr x →
    skipLoop enc specs p bs = .err x := by
  intro specs
  induction specs with
  | nil => intro p bs x _ h; simp [readAttributes] at h
  | cons s ss ih =>
    intro p bs x hp h hx
    rw [readAttributes] at h
    rw [skipLoop]
    rcases bind_err_inv h with h1 | ⟨⟨v, r1⟩, h1, h2⟩
    · unfold parseAttribute at h1
      rcases skipOne_of_parseLoop_err enc s _ (bs.length + 1) s.form p bs x
          (by simp only [List.length_drop]; omega) hp h1 hx with h3 | ⟨hx', p', bs', h3, h4⟩
      · rw [h3]; rfl
      · rw [h3, Out.bind_ok, hx']
        exact skipLoop_overrun enc ss p' bs' h4
    · unfold parseAttribute at h1
      obtain ⟨p', bs', hs, hp', hr⟩ :=
        skipOne_of_parseLoop enc s _ (bs.length + 1) s.form p bs v r1
          (by simp only [List.length_drop]; omega) hp h1
      rw [hs, Out.bind_ok]
      rcases bind_err_inv h2 with h3 | ⟨a, _, h3⟩
      · rw [hr] at h3
        exact ih p' bs' x hp' h3 hx
      · simp at h3

end Gimli.Attr
