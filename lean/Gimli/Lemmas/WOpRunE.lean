import Gimli.Lemmas.WOpRunD
/-!
# C15: whole evaluation runs, part E — with the byte decoder the parameterised loop is C07's evaluator
-/
set_option linter.unusedSimpArgs false
set_option linter.unusedVariables false
namespace Gimli.WOp
open Gimli.Op (Encoding)
open Gimli.Eval Gimli.BuiltEval

/-! ## with the byte decoder the parameterised loop *is* C07's evaluator -/

theorem evaluateOneOperationD_parse (c : Config) (m : Mach) :
    evaluateOneOperationD parseDec c m = evaluateOneOperation c m := rfl

theorem afterCompleteD_parse (c : Config) (l : Location) (m : Mach) :
    afterCompleteD parseDec c l m = afterComplete c l m := rfl

theorem afterOpD_parse (k : Eval → Out (Request × Eval)) (s : Eval) (r : OpResult) (m : Mach) :
    afterOpD parseDec k s r m = afterOp k s r m := by
  cases r <;> rfl

theorem loopBodyD_parse (k : Eval → Out (Request × Eval)) (s : Eval) :
    loopBodyD parseDec k s = loopBody k s := by
  simp only [loopBodyD, loopBody, evaluateOneOperationD_parse, afterOpD_parse]
  rfl

theorem evaluateInternalD_parse : ∀ (fuel : Nat) (s : Eval),
    evaluateInternalD parseDec fuel s = evaluateInternal fuel s
  | 0, _ => rfl
  | fuel + 1, s => by
    have : evaluateInternalD parseDec fuel = evaluateInternal fuel := funext (evaluateInternalD_parse fuel)
    simp only [evaluateInternalD, evaluateInternal, loopBodyD_parse, this]

theorem evaluateD_parse (fuel : Nat) (s : Eval) : evaluateD parseDec fuel s = evaluate fuel s := by
  have : evaluateInternalD parseDec fuel = evaluateInternal fuel := funext (evaluateInternalD_parse fuel)
  simp only [evaluateD, evaluate, this]
  rfl

theorem resumeD_parse (fuel : Nat) (a : Answer) (s : Eval) : resumeD parseDec fuel a s = resume fuel a s := by
  have : evaluateInternalD parseDec fuel = evaluateInternal fuel := funext (evaluateInternalD_parse fuel)
  simp only [resumeD, resume, this]
  rfl

theorem runFromD_parse (fuel : Nat) : ∀ (toks : List Tok) (r : Request) (s : Eval),
    runFromD parseDec fuel toks r s = runFrom fuel toks r s
  | [], r, s => by cases r <;> rfl
  | t :: toks, r, s => by
    cases r with
    | complete => rfl
    | _ =>
      simp only [runFromD, runFrom, resumeD_parse]
      cases resume fuel (answerFor _ t) s with
      | ok p => obtain ⟨r', s'⟩ := p; simp only [runFromD_parse fuel toks r' s']
      | err _ => rfl
      | panic _ => rfl
      | diverge => rfl

theorem runD_parse (fuel : Nat) (toks : List Tok) (s : Eval) : runD parseDec fuel toks s = run fuel toks s := by
  simp only [runD, run, evaluateD_parse]
  cases evaluate fuel s with
  | mk o x =>
    cases o with
    | ok p => obtain ⟨r, s'⟩ := p; exact runFromD_parse fuel toks r s'
    | err _ => rfl
    | panic _ => rfl
    | diverge => rfl

end Gimli.WOp
