import Gimli.Lemmas.LineDecode
/-! Lemmas about `LineProgramHeader::parse` (Model: `parseHeader`): accepted headers are valid, the
parser returns normally on every input. -/
namespace Gimli.Line
open Gimli Gimli.Spec Gimli.Spec.Line Gimli.Props.C01

theorem bind_eq_ok {α β : Type} (x : Out α) (f : α → Out β) (b : β) :
    (x >>= f) = .ok b ↔ ∃ a, x = .ok a ∧ f a = .ok b := by
  cases x with
  | ok a => simp
  | err e => simp
  | panic w => simp
  | diverge => simp

theorem readFixed1_lt (e : Endian) (bs : Bytes) (v : Nat) (rest : Bytes)
    (h : Ints.readFixed e 1 bs = .ok (v, rest)) : v < 256 := by
  have := (Ints.readFixed_ok e 1 bs v rest h).2.2.2
  simpa using this

theorem toI8_range (n : Nat) (h : n < 256) : -128 ≤ toI8 n ∧ toI8 n ≤ 127 := by
  unfold toI8; split <;> omega

/-- **What `LineProgramHeader::parse` guarantees**: every header it accepts has parameters in the
ranges the state-machine theorems assume (`Params.Valid`), given that the caller's address size
(used for versions 2–4 only) is a supported one. -/
theorem parseHeader_valid (e : Endian) (asz : Nat) (cd cn : Option Bytes) (input : Bytes) (hd : Header)
    (hasz : asz = 1 ∨ asz = 2 ∨ asz = 4 ∨ asz = 8)
    (hp : parseHeader e asz cd cn input = .ok hd) : hd.p.Valid ∧ hd.p.endian = e := by
  unfold parseHeader at hp
  simp only [bind_eq_ok] at hp
  obtain ⟨⟨⟨ulen, fmt⟩, r0⟩, _, hp⟩ := hp
  obtain ⟨⟨unit, _⟩, _, hp⟩ := hp
  obtain ⟨⟨version, r1⟩, hver, hp⟩ := hp
  simp only at hp
  split at hp
  · simp at hp
  rename_i hvr
  simp only [bind_eq_ok] at hp
  obtain ⟨⟨asz', r2⟩, hasz', hp⟩ := hp
  obtain ⟨⟨hlen, r3⟩, _, hp⟩ := hp
  obtain ⟨⟨hdrBytes, prog⟩, _, hp⟩ := hp
  obtain ⟨⟨minlen, r4⟩, hmin, hp⟩ := hp
  simp only at hp
  split at hp
  · simp at hp
  rename_i hmin0
  simp only [bind_eq_ok] at hp
  obtain ⟨⟨maxops, r5⟩, hmax, hp⟩ := hp
  simp only at hp
  split at hp
  · simp at hp
  rename_i hmax0
  simp only [bind_eq_ok] at hp
  obtain ⟨⟨stmt, r6⟩, _, hp⟩ := hp
  obtain ⟨⟨lbase, r7⟩, hlb, hp⟩ := hp
  obtain ⟨⟨lrange, r8⟩, hlr, hp⟩ := hp
  simp only at hp
  split at hp
  · simp at hp
  rename_i hlr0
  simp only [bind_eq_ok] at hp
  obtain ⟨⟨obase, r9⟩, hob, hp⟩ := hp
  simp only at hp
  split at hp
  · simp at hp
  rename_i hob0
  simp only [bind_eq_ok] at hp
  obtain ⟨⟨stdlens, r10⟩, hstd, hp⟩ := hp
  simp only at hp
  -- facts
  have hminlt := readFixed1_lt _ _ _ _ hmin
  have hlblt := readFixed1_lt _ _ _ _ hlb
  have hlrlt := readFixed1_lt _ _ _ _ hlr
  have hoblt := readFixed1_lt _ _ _ _ hob
  have hstdlen : stdlens.length = obase - 1 := by
    obtain ⟨pre, hpre, hall⟩ := take_local _ _ _ _ hstd
    unfold Ints.take at hstd
    split at hstd
    · simp only [Out.ok.injEq, Prod.mk.injEq] at hstd
      rw [← hstd.1]; simp; omega
    · simp at hstd
  have hmaxr : 1 ≤ maxops ∧ maxops ≤ 255 ∧ (version ≤ 3 → maxops = 1) := by
    split at hmax
    · have := readFixed1_lt _ _ _ _ hmax
      omega
    · simp only [Out.pure_eq, Out.ok.injEq, Prod.mk.injEq] at hmax
      omega
  have haszr : asz' = 1 ∨ asz' = 2 ∨ asz' = 4 ∨ asz' = 8 := by
    split at hasz'
    · simp only [bind_eq_ok] at hasz'
      obtain ⟨⟨a, ra⟩, ha, hrest⟩ := hasz'
      obtain ⟨⟨seg, rs⟩, _, hrest⟩ := hrest
      simp only at hrest
      split at hrest
      · simp at hrest
      · simp only [Out.pure_eq, Out.ok.injEq, Prod.mk.injEq] at hrest
        have := (Ints.readAddressSize_ok_iff _ _ _).mp ha
        obtain ⟨b, _, hb, hcases⟩ := this
        rw [← hrest.1]; exact hcases
    · simp only [Out.pure_eq, Out.ok.injEq, Prod.mk.injEq] at hasz'
      rw [← hasz'.1]; exact hasz
  have hI8 := toI8_range lbase hlblt
  have hvalid : ∀ p : Params, p.endian = e → p.version = version → p.addrSize = asz' →
      p.minInstLen = minlen → p.maxOps = maxops → p.lineBase = toI8 lbase → p.lineRange = lrange →
      p.opcodeBase = obase → p.stdLens = stdlens → p.Valid ∧ p.endian = e := by
    intro p h1 h2 h3 h4 h5 h6 h7 h8 h9
    refine ⟨⟨by omega, by omega, by rw [h3]; exact haszr, by omega, by omega, by omega, by omega,
      by rw [h6]; exact hI8.1, by rw [h6]; exact hI8.2,
      by omega, by omega, by omega, by omega, by rw [h9, h8]; exact hstdlen,
      by rw [h2, h5]; exact hmaxr.2.2⟩, h1⟩
  split at hp
  · simp only [bind_eq_ok] at hp
    obtain ⟨_, _, hp⟩ := hp
    obtain ⟨_, _, hp⟩ := hp
    simp only [Out.pure_eq, Out.ok.injEq] at hp
    rw [← hp]
    exact hvalid _ rfl rfl rfl rfl rfl rfl rfl rfl rfl
  · simp only [bind_eq_ok] at hp
    obtain ⟨_, _, hp⟩ := hp
    obtain ⟨_, _, hp⟩ := hp
    obtain ⟨_, _, hp⟩ := hp
    obtain ⟨_, _, hp⟩ := hp
    obtain ⟨_, _, hp⟩ := hp
    obtain ⟨_, _, hp⟩ := hp
    simp only [Out.pure_eq, Out.ok.injEq] at hp
    rw [← hp]
    exact hvalid _ rfl rfl rfl rfl rfl rfl rfl rfl rfl



/-! ### the header parser returns normally -/

theorem readWord_normal (e : Endian) (ob : Nat) (f : Format) (bs : Bytes) :
    (Ints.readWord e ob f bs).Normal := by
  unfold Ints.readWord
  cases f with
  | dwarf32 => exact fixed_total _ _ _
  | dwarf64 =>
    refine normal_bind _ _ (fixed_total _ _ _) fun ⟨v, r⟩ => ?_
    refine normal_bind _ _ ?_ fun _ => trivial
    unfold Ints.offsetFromU64; split <;> trivial

theorem readUint3_normal (e : Endian) (bs : Bytes) : (Ints.readUint e 3 bs).Normal := by
  unfold Ints.readUint
  simp only [show ¬ (3 > 8) by decide, ↓reduceIte]
  exact normal_bind _ _ (take_normal _ _) fun ⟨_, _⟩ => trivial

theorem readAddressSize_normal (bs : Bytes) : (Ints.readAddressSize bs).Normal := by
  unfold Ints.readAddressSize
  split
  · trivial
  · split <;> trivial

theorem u16_normal (bs : Bytes) : (Leb.u16 bs).Normal := u16leb_total bs

theorem normal_ite {α : Type} {c : Prop} [Decidable c] {x y : Out α} (hx : x.Normal) (hy : y.Normal) :
    (if c then x else y).Normal := by
  split <;> assumption

macro "out_normal" : tactic => `(tactic| repeat' (first
  | trivial
  | exact uleb_total _
  | exact sleb_total _
  | exact u16_normal _
  | exact fixed_total _ _ _
  | exact take_normal _ _
  | exact readCStr_normal _
  | exact readWord_normal _ _ _ _
  | exact readUint3_normal _ _
  | exact readAddressSize_normal _
  | exact initial_length_total _ _ _
  | (refine normal_bind _ _ ?_ (fun ⟨_, _⟩ => ?_))
  | (refine normal_ite ?_ ?_)))

theorem parseAttribute_normal (e : Endian) (f : Format) (form : Nat) (bs : Bytes) :
    (parseAttribute e f form bs).Normal := by
  unfold parseAttribute
  out_normal



theorem parseFormatLoop_normal (n : Nat) : ∀ bs, (parseFormatLoop n bs).Normal := by
  induction n with
  | zero => intro bs; trivial
  | succ n ih =>
    intro bs
    rw [parseFormatLoop]
    refine normal_bind _ _ (uleb_total _) fun ⟨_, _⟩ => ?_
    refine normal_bind _ _ (u16_normal _) fun ⟨_, _⟩ => ?_
    exact normal_bind _ _ (ih _) fun ⟨⟨_, _⟩, _⟩ => trivial

theorem parseEntryFormat_normal (bs : Bytes) : (parseEntryFormat bs).Normal := by
  unfold parseEntryFormat
  refine normal_bind _ _ (fixed_total _ _ _) fun ⟨_, _⟩ => ?_
  refine normal_bind _ _ (parseFormatLoop_normal _ _) fun ⟨⟨_, _⟩, _⟩ => ?_
  exact normal_ite trivial trivial

theorem parseDirectoryV5_normal (e : Endian) (f : Format) (fmt : List EntryFormat) :
    ∀ acc bs, (parseDirectoryV5 e f fmt acc bs).Normal := by
  induction fmt with
  | nil => intro acc bs; trivial
  | cons x fs ih =>
    intro acc bs
    obtain ⟨ct, form⟩ := x
    rw [parseDirectoryV5]
    exact normal_bind _ _ (parseAttribute_normal _ _ _ _) fun ⟨_, _⟩ => ih _ _

theorem parseFileV5_normal (e : Endian) (f : Format) (fmt : List EntryFormat) :
    ∀ acc bs, (parseFileV5 e f fmt acc bs).Normal := by
  induction fmt with
  | nil => intro acc bs; trivial
  | cons x fs ih =>
    intro acc bs
    obtain ⟨ct, form⟩ := x
    rw [parseFileV5]
    exact normal_bind _ _ (parseAttribute_normal _ _ _ _) fun ⟨_, _⟩ => ih _ _

/-- a format with a `DW_LNCT_path` column always yields a path -/
def HasPath (fmt : List EntryFormat) : Prop := ∃ x ∈ fmt, x.1 = 1

theorem parseDirectoryV5_some (e : Endian) (f : Format) (fmt : List EntryFormat) :
    ∀ acc bs p rest, parseDirectoryV5 e f fmt acc bs = .ok (p, rest) →
      (acc.isSome ∨ HasPath fmt) → p.isSome := by
  induction fmt with
  | nil =>
    intro acc bs p rest h hor
    simp only [parseDirectoryV5, Out.ok.injEq, Prod.mk.injEq] at h
    rcases hor with h1 | ⟨x, hx, _⟩
    · rw [← h.1]; exact h1
    · simp at hx
  | cons x fs ih =>
    intro acc bs p rest h hor
    obtain ⟨ct, form⟩ := x
    rw [parseDirectoryV5] at h
    simp only [bind_eq_ok] at h
    obtain ⟨⟨v, r⟩, _, h⟩ := h
    refine ih _ _ _ _ h ?_
    by_cases hct : ct = 1
    · left; simp [hct]
    · rcases hor with h1 | ⟨y, hy, hy1⟩
      · left; simp [hct, h1]
      · rcases List.mem_cons.mp hy with rfl | hy
        · exact absurd hy1 hct
        · right; exact ⟨y, hy, hy1⟩

theorem parseFileV5_some (e : Endian) (f : Format) (fmt : List EntryFormat) :
    ∀ (acc : FileAcc) bs a rest, parseFileV5 e f fmt acc bs = .ok (a, rest) →
      (acc.path.isSome ∨ HasPath fmt) → a.path.isSome := by
  induction fmt with
  | nil =>
    intro acc bs a rest h hor
    simp only [parseFileV5, Out.ok.injEq, Prod.mk.injEq] at h
    rcases hor with h1 | ⟨x, hx, _⟩
    · rw [← h.1]; exact h1
    · simp at hx
  | cons x fs ih =>
    intro acc bs a rest h hor
    obtain ⟨ct, form⟩ := x
    rw [parseFileV5] at h
    simp only [bind_eq_ok] at h
    obtain ⟨⟨v, r⟩, _, h⟩ := h
    refine ih _ _ _ _ h ?_
    by_cases hct : ct = 1
    · left; simp [FileAcc.update, hct]
    · rcases hor with h1 | ⟨y, hy, hy1⟩
      · left
        simp only [FileAcc.update, hct, ↓reduceIte]
        repeat' split
        all_goals exact h1
      · rcases List.mem_cons.mp hy with rfl | hy
        · exact absurd hy1 hct
        · right; exact ⟨y, hy, hy1⟩



theorem parseFormatLoop_hasPath (n : Nat) : ∀ bs fs paths rest,
    parseFormatLoop n bs = .ok ((fs, paths), rest) → paths ≠ 0 → HasPath fs := by
  induction n with
  | zero =>
    intro bs fs paths rest h hp
    simp only [parseFormatLoop, Out.ok.injEq, Prod.mk.injEq] at h
    exact absurd h.1.2.symm hp
  | succ n ih =>
    intro bs fs paths rest h hp
    rw [parseFormatLoop] at h
    simp only [bind_eq_ok] at h
    obtain ⟨⟨ct, r1⟩, _, h⟩ := h
    obtain ⟨⟨form, r2⟩, _, h⟩ := h
    obtain ⟨⟨⟨fs', paths'⟩, r3⟩, hrec, h⟩ := h
    simp only [Out.pure_eq, Out.ok.injEq, Prod.mk.injEq] at h
    obtain ⟨⟨hfs, hpaths⟩, _⟩ := h
    subst hfs
    by_cases hct : (if ct > 0xffff then 0xffff else ct) = 1
    · exact ⟨_, List.mem_cons_self, hct⟩
    · have : paths' ≠ 0 := by
        simp only [hct, ↓reduceIte, Nat.zero_add] at hpaths
        omega
      obtain ⟨x, hx, hx1⟩ := ih _ _ _ _ hrec this
      exact ⟨x, List.mem_cons_of_mem _ hx, hx1⟩

theorem parseEntryFormat_hasPath (bs : Bytes) (fs : List EntryFormat) (rest : Bytes)
    (h : parseEntryFormat bs = .ok (fs, rest)) : HasPath fs := by
  unfold parseEntryFormat at h
  simp only [bind_eq_ok] at h
  obtain ⟨⟨count, r1⟩, _, h⟩ := h
  obtain ⟨⟨⟨fs', paths⟩, r2⟩, hloop, h⟩ := h
  simp only at h
  split at h
  · simp at h
  · rename_i hp
    simp only [Out.pure_eq, Out.ok.injEq, Prod.mk.injEq] at h
    rw [← h.1]
    exact parseFormatLoop_hasPath _ _ _ _ _ hloop (by omega)

theorem parseDirsV5_normal (e : Endian) (f : Format) (fmt : List EntryFormat) (hf : HasPath fmt)
    (n : Nat) : ∀ bs, (parseDirsV5 e f fmt n bs).Normal := by
  induction n with
  | zero => intro bs; trivial
  | succ n ih =>
    intro bs
    rw [parseDirsV5]
    have hn := parseDirectoryV5_normal e f fmt none bs
    cases hd : parseDirectoryV5 e f fmt none bs with
    | ok pr =>
      obtain ⟨p, r⟩ := pr
      have hs := parseDirectoryV5_some e f fmt none bs p r hd (Or.inr hf)
      cases p with
      | none => simp at hs
      | some d =>
        simp only [Out.bind_ok]
        exact normal_bind _ _ (ih _) fun ⟨_, _⟩ => trivial
    | err e => trivial
    | panic w => rw [hd] at hn; exact hn
    | diverge => rw [hd] at hn; exact hn

theorem parseFilesV5_normal (e : Endian) (f : Format) (fmt : List EntryFormat) (hf : HasPath fmt)
    (n : Nat) : ∀ bs, (parseFilesV5 e f fmt n bs).Normal := by
  induction n with
  | zero => intro bs; trivial
  | succ n ih =>
    intro bs
    rw [parseFilesV5]
    have hn := parseFileV5_normal e f fmt {} bs
    cases hd : parseFileV5 e f fmt {} bs with
    | ok pr =>
      obtain ⟨a, r⟩ := pr
      have hs := parseFileV5_some e f fmt {} bs a r hd (Or.inr hf)
      simp only [Out.bind_ok]
      cases hpa : a.path with
      | none => rw [hpa] at hs; simp at hs
      | some d => exact normal_bind _ _ (ih _) fun ⟨_, _⟩ => trivial
    | err e => trivial
    | panic w => rw [hd] at hn; exact hn
    | diverge => rw [hd] at hn; exact hn

theorem readCStr_consumes (bs : Bytes) : ∀ s r, readCStr bs = .ok (s, r) → r.length < bs.length := by
  induction bs with
  | nil => intro s r h; simp [readCStr] at h
  | cons b tl ih =>
    intro s r h
    rw [readCStr] at h
    split at h
    · simp only [Out.ok.injEq, Prod.mk.injEq] at h
      rw [← h.2]; simp
    · cases hr : readCStr tl with
      | ok p =>
        obtain ⟨s', r'⟩ := p
        rw [hr] at h
        simp only [Out.ok.injEq, Prod.mk.injEq] at h
        have := ih s' r' hr
        rw [← h.2]; simp; omega
      | err e => rw [hr] at h; simp at h
      | panic w => rw [hr] at h; simp at h
      | diverge => rw [hr] at h; simp at h

theorem parseDirsV4_normal : ∀ (fuel : Nat) (bs : Bytes), bs.length < fuel → (parseDirsV4 fuel bs).Normal := by
  intro fuel
  induction fuel with
  | zero => intro bs h; omega
  | succ fuel ih =>
    intro bs hl
    rw [parseDirsV4]
    have hn := readCStr_normal bs
    cases hc : readCStr bs with
    | ok p =>
      obtain ⟨d, r⟩ := p
      have := readCStr_consumes bs d r hc
      simp only [Out.bind_ok]
      refine normal_ite trivial ?_
      exact normal_bind _ _ (ih r (by omega)) fun ⟨_, _⟩ => trivial
    | err e => trivial
    | panic w => rw [hc] at hn; exact hn
    | diverge => rw [hc] at hn; exact hn

theorem unsigned_le (bs : Bytes) (v : Nat) (r : Bytes) (h : Leb.unsigned bs = .ok (v, r)) :
    r.length ≤ bs.length := by
  obtain ⟨pre, hpre, _⟩ := unsigned_local bs v r h
  rw [hpre]; simp

theorem parseFileEntryV4_le (path bs : Bytes) (f : FileEntry) (r : Bytes)
    (h : parseFileEntryV4 path bs = .ok (f, r)) : r.length ≤ bs.length := by
  unfold parseFileEntryV4 at h
  simp only [bind_eq_ok] at h
  obtain ⟨⟨_, r1⟩, h1, h⟩ := h
  obtain ⟨⟨_, r2⟩, h2, h⟩ := h
  obtain ⟨⟨_, r3⟩, h3, h⟩ := h
  simp only [Out.pure_eq, Out.ok.injEq, Prod.mk.injEq] at h
  have a := unsigned_le _ _ _ h1
  have b := unsigned_le _ _ _ h2
  have c := unsigned_le _ _ _ h3
  rw [← h.2]
  simp only at a b c ⊢
  omega

theorem parseFilesV4_normal : ∀ (fuel : Nat) (bs : Bytes), bs.length < fuel → (parseFilesV4 fuel bs).Normal := by
  intro fuel
  induction fuel with
  | zero => intro bs h; omega
  | succ fuel ih =>
    intro bs hl
    rw [parseFilesV4]
    have hn := readCStr_normal bs
    cases hc : readCStr bs with
    | ok p =>
      obtain ⟨d, r⟩ := p
      have := readCStr_consumes bs d r hc
      simp only [Out.bind_ok]
      refine normal_ite trivial ?_
      have hn2 := parseFileEntryV4_normal d r
      cases hf : parseFileEntryV4 d r with
      | ok q =>
        obtain ⟨fe, r2⟩ := q
        have := parseFileEntryV4_le d r fe r2 hf
        simp only [Out.bind_ok]
        exact normal_bind _ _ (ih r2 (by omega)) fun ⟨_, _⟩ => trivial
      | err e => trivial
      | panic w => rw [hf] at hn2; exact hn2
      | diverge => rw [hf] at hn2; exact hn2
    | err e => trivial
    | panic w => rw [hc] at hn; exact hn
    | diverge => rw [hc] at hn; exact hn



theorem normal_bind' {α β : Type} (x : Out α) (f : α → Out β) (hx : x.Normal)
    (hf : ∀ a, x = .ok a → (f a).Normal) : (x >>= f).Normal := by
  cases x with
  | ok a => exact hf a rfl
  | err e => trivial
  | panic w => exact hx
  | diverge => exact hx

/-- `LineProgramHeader::parse` returns a header or an error on every input: no panic (in
particular the two `path_name.unwrap()` are safe), no non-termination (the version 2–4 table
loops end because every entry consumes at least one byte) -/
theorem parseHeader_normal (e : Endian) (asz : Nat) (cd cn : Option Bytes) (input : Bytes) :
    (parseHeader e asz cd cn input).Normal := by
  unfold parseHeader
  refine normal_bind _ _ (initial_length_total _ _ _) fun ⟨⟨_, _⟩, _⟩ => ?_
  refine normal_bind _ _ (take_normal _ _) fun ⟨_, _⟩ => ?_
  refine normal_bind _ _ (fixed_total _ _ _) fun ⟨version, _⟩ => ?_
  refine normal_ite trivial ?_
  refine normal_bind _ _ ?_ fun ⟨_, _⟩ => ?_
  · refine normal_ite ?_ trivial
    refine normal_bind _ _ (readAddressSize_normal _) fun ⟨_, _⟩ => ?_
    refine normal_bind _ _ (fixed_total _ _ _) fun ⟨_, _⟩ => ?_
    exact normal_ite trivial trivial
  refine normal_bind _ _ (readWord_normal _ _ _ _) fun ⟨_, _⟩ => ?_
  refine normal_bind _ _ (take_normal _ _) fun ⟨_, _⟩ => ?_
  refine normal_bind _ _ (fixed_total _ _ _) fun ⟨_, _⟩ => ?_
  refine normal_ite trivial ?_
  refine normal_bind _ _ (normal_ite (fixed_total _ _ _) trivial) fun ⟨_, _⟩ => ?_
  refine normal_ite trivial ?_
  refine normal_bind _ _ (fixed_total _ _ _) fun ⟨_, _⟩ => ?_
  refine normal_bind _ _ (fixed_total _ _ _) fun ⟨_, _⟩ => ?_
  refine normal_bind _ _ (fixed_total _ _ _) fun ⟨_, _⟩ => ?_
  refine normal_ite trivial ?_
  refine normal_bind _ _ (fixed_total _ _ _) fun ⟨_, _⟩ => ?_
  refine normal_ite trivial ?_
  refine normal_bind _ _ (take_normal _ _) fun ⟨_, rest⟩ => ?_
  refine normal_ite ?_ ?_
  · refine normal_bind _ _ (parseDirsV4_normal _ _ (by omega)) fun ⟨_, rest⟩ => ?_
    exact normal_bind _ _ (parseFilesV4_normal _ _ (by omega)) fun ⟨_, _⟩ => trivial
  · refine normal_bind' _ _ (parseEntryFormat_normal _) fun ⟨dfmt, _⟩ hd => ?_
    refine normal_bind _ _ (uleb_total _) fun ⟨_, _⟩ => ?_
    refine normal_bind _ _ (parseDirsV5_normal _ _ _ (parseEntryFormat_hasPath _ _ _ hd) _ _) fun ⟨_, _⟩ => ?_
    refine normal_bind' _ _ (parseEntryFormat_normal _) fun ⟨ffmt, _⟩ hf => ?_
    refine normal_bind _ _ (uleb_total _) fun ⟨_, _⟩ => ?_
    exact normal_bind _ _ (parseFilesV5_normal _ _ _ (parseEntryFormat_hasPath _ _ _ hf) _ _) fun ⟨_, _⟩ => trivial

theorem program_normal (e : Endian) (sec : Bytes) (off asz : Nat) (cd cn : Option Bytes) :
    (program e sec off asz cd cn).Normal := by
  unfold program
  exact normal_ite (parseHeader_normal _ _ _ _ _) trivial

end Gimli.Line
