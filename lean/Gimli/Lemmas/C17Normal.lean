import Gimli.Props.C01
import Gimli.Lemmas.Aranges
import Gimli.Lemmas.Pub
/-!
# Totality lemmas for the C17 Models (no panic, no fuel exhaustion, on every input)

`Out.Normal r`: `r` is `ok _` or `err _`.  For iterators: `StepOk` (every call normal, every yielded
item or error strictly decreases a measure bounded by the input length) and the generic
`collect_total` / `collectHdr_total` (the call cap of the driven iterator is never reached).
-/
namespace Gimli.C17
open Gimli Gimli.Ints

theorem normal_bind {α β : Type} {x : Out α} {f : α → Out β} (hx : x.Normal)
    (hf : ∀ a, x = .ok a → (f a).Normal) : (x >>= f).Normal := by
  cases x with
  | ok a => exact hf a rfl
  | err e => simp [Out.Normal]
  | panic w => simp [Out.Normal] at hx
  | diverge => simp [Out.Normal] at hx

theorem normal_ok {α : Type} (a : α) : (Out.ok a).Normal := by simp [Out.Normal]
theorem normal_err {α : Type} (e : Err) : (Out.err e : Out α).Normal := by simp [Out.Normal]
theorem normal_pure {α : Type} (a : α) : (pure a : Out α).Normal := by simp [Out.Normal]

theorem take_normal (n : Nat) (bs : Bytes) : (take n bs).Normal := by
  unfold take; split <;> simp [Out.Normal]

theorem readFixed_normal (e : Endian) (n : Nat) (bs : Bytes) : (readFixed e n bs).Normal :=
  Props.C01.fixed_total e n bs
theorem readAddress_normal (e : Endian) (n : Nat) (bs : Bytes) : (readAddress e n bs).Normal :=
  Props.C01.address_total e n bs
theorem readInitialLength_normal (e : Endian) (bs : Bytes) : (readInitialLength e 64 bs).Normal :=
  Props.C01.initial_length_total e 64 bs

theorem readWord_normal (e : Endian) (f : Format) (bs : Bytes) : (readWord e 64 f bs).Normal := by
  cases f with
  | dwarf32 => exact readFixed_normal e 4 bs
  | dwarf64 =>
    simp only [readWord]
    refine normal_bind (readFixed_normal e 8 bs) (fun p _ => ?_)
    obtain ⟨v, r⟩ := p
    simp only [offsetFromU64]
    split <;> simp [Out.Normal]

theorem readAddressSize_normal (bs : Bytes) : (readAddressSize bs).Normal := by
  unfold readAddressSize
  cases bs with
  | nil => simp [Out.Normal]
  | cons b r => simp only; split <;> simp [Out.Normal]

/-! ### `.debug_aranges` -/
open Gimli.Aranges

theorem ar_parseHeader_normal (e : Endian) (input : Bytes) : (Aranges.parseHeader e input).Normal := by
  unfold Aranges.parseHeader
  refine normal_bind (readInitialLength_normal e input) (fun p _ => ?_)
  obtain ⟨⟨len, fmt⟩, in1⟩ := p
  refine normal_bind (take_normal _ _) (fun p _ => ?_)
  obtain ⟨body, in2⟩ := p
  refine normal_bind (readFixed_normal e 2 body) (fun p _ => ?_)
  obtain ⟨ver, r1⟩ := p
  simp only
  split
  · exact normal_err _
  refine normal_bind (readWord_normal e fmt r1) (fun p _ => ?_)
  obtain ⟨dio, r2⟩ := p
  refine normal_bind (readAddressSize_normal r2) (fun p _ => ?_)
  obtain ⟨asz, r3⟩ := p
  refine normal_bind (readFixed_normal e 1 r3) (fun p _ => ?_)
  obtain ⟨seg, r4⟩ := p
  simp only
  split
  · exact normal_err _
  split
  · exact normal_err _
  split
  · exact normal_err _
  refine normal_bind (take_normal _ _) (fun p _ => ?_)
  exact normal_pure _

/-- an accepted set consumes at least its 12-byte header -/
theorem ar_parseHeader_consumes (e : Endian) (input : Bytes) (h : Header) (rest : Bytes)
    (hp : Aranges.parseHeader e input = .ok (h, rest)) : rest.length < input.length := by
  obtain ⟨hdr, pad, hin, hl, _⟩ := parseHeader_layout e input h rest hp
  rw [hin]
  simp only [List.length_append, hl, headerLength, initialLengthSize]
  cases h.format <;> simp [Format.wordSize] <;> omega

/-- the `loop` of `ArangeEntry::parse` (runs of null tuples included) ends: with fuel above the
input length the Model never runs out of fuel, whatever the address size -/
theorem ar_parseEntry_normal (e : Endian) (asz : Nat) (fuel : Nat) (input : Bytes)
    (hf : input.length < fuel) :
    (Aranges.parseEntry e asz fuel input).Normal ∧
      ∀ raw rest, Aranges.parseEntry e asz fuel input = .ok (some raw, rest) → rest.length < input.length := by
  induction fuel generalizing input with
  | zero => omega
  | succ f ih =>
    rw [Aranges.parseEntry]
    split
    · exact ⟨normal_ok _, fun raw rest h => by simp at h⟩
    · rename_i hlen
      cases h1 : readAddress e asz input with
      | ok p1 =>
        obtain ⟨b, r1⟩ := p1
        obtain ⟨hr1, _, _⟩ := readAddress_value e asz input b r1 h1
        have hsz : asz = 1 ∨ asz = 2 ∨ asz = 4 ∨ asz = 8 := ((readAddress_ok_iff e asz input).mp ⟨b, r1, h1⟩).1
        have hl1 : r1.length = input.length - asz := by rw [hr1]; simp
        simp only [Out.bind_ok]
        cases h2 : readAddress e asz r1 with
        | ok p2 =>
          obtain ⟨l, r2⟩ := p2
          obtain ⟨hr2, _, _⟩ := readAddress_value e asz r1 l r2 h2
          have hl2 : r2.length = r1.length - asz := by rw [hr2]; simp
          simp only [Out.bind_ok]
          have hshort : r2.length < input.length := by omega
          split
          · obtain ⟨hn, hc⟩ := ih r2 (by omega)
            exact ⟨hn, fun raw rest h => by have := hc raw rest h; omega⟩
          · refine ⟨normal_pure _, fun raw rest h => ?_⟩
            simp only [Out.pure_eq, Out.ok.injEq, Prod.mk.injEq] at h
            rw [← h.2]; exact hshort
        | err x => exact ⟨by simp [Out.Normal], fun raw rest h => by simp at h⟩
        | panic w => exact absurd (readAddress_normal e asz r1) (by rw [h2]; simp [Out.Normal])
        | diverge => exact absurd (readAddress_normal e asz r1) (by rw [h2]; simp [Out.Normal])
      | err x => exact ⟨by simp [Out.Normal], fun raw rest h => by simp at h⟩
      | panic w => exact absurd (readAddress_normal e asz input) (by rw [h1]; simp [Out.Normal])
      | diverge => exact absurd (readAddress_normal e asz input) (by rw [h1]; simp [Out.Normal])

/-- outcome of one iterator step: normal, never longer input, strictly shorter input whenever an
item or an error is produced -/
def StepOk {α : Type} (r : Out (Option α)) (before after : Nat) : Prop :=
  r.Normal ∧ after ≤ before ∧ (r ≠ .ok none → after < before)

theorem ar_nextRaw_ok (e : Endian) (asz : Nat) (input : Bytes) :
    StepOk (Aranges.nextRaw e asz input).1 input.length (Aranges.nextRaw e asz input).2.length := by
  unfold Aranges.nextRaw
  by_cases hem : input.isEmpty = true
  · rw [if_pos hem]; exact ⟨normal_ok _, Nat.le_refl _, fun h => absurd rfl h⟩
  · rw [if_neg hem]
    have hpos : 0 < input.length := by
      cases input with
      | nil => simp at hem
      | cons a t => simp
    obtain ⟨hn, hc⟩ := ar_parseEntry_normal e asz (input.length + 1) input (by omega)
    cases hp : Aranges.parseEntry e asz (input.length + 1) input with
    | ok p =>
      obtain ⟨o, rest⟩ := p
      cases o with
      | some raw => exact ⟨normal_ok _, Nat.le_of_lt (hc raw rest hp), fun _ => hc raw rest hp⟩
      | none => exact ⟨normal_ok _, by simp, fun h => absurd rfl h⟩
    | err x => exact ⟨normal_err _, by simp, fun _ => by simpa using hpos⟩
    | panic w => rw [hp] at hn; simp [Out.Normal] at hn
    | diverge => rw [hp] at hn; simp [Out.Normal] at hn

theorem convertRaw_normal (asz : Nat) (raw : Nat × Nat) : (Aranges.convertRaw asz raw).Normal := by
  unfold Aranges.convertRaw
  split
  · exact normal_ok _
  · split
    · exact normal_err _
    · split
      · exact normal_err _
      · exact normal_ok _

theorem ar_nextLoop_ok (e : Endian) (asz : Nat) (fuel : Nat) (input : Bytes) (hf : input.length < fuel) :
    StepOk (Aranges.nextLoop e asz fuel input).1 input.length (Aranges.nextLoop e asz fuel input).2.length := by
  induction fuel generalizing input with
  | zero => omega
  | succ f ih =>
    rw [Aranges.nextLoop]
    obtain ⟨hn, hle, hlt⟩ := ar_nextRaw_ok e asz input
    cases hr : Aranges.nextRaw e asz input with
    | mk r rest =>
      rw [hr] at hn hle hlt
      simp only at hn hle hlt
      cases r with
      | ok o =>
        cases o with
        | some raw =>
          have hshort : rest.length < input.length := hlt (by simp)
          simp only
          have hcn := convertRaw_normal asz raw
          cases hc : Aranges.convertRaw asz raw with
          | ok oc =>
            cases oc with
            | some en => exact ⟨normal_ok _, hle, fun _ => hshort⟩
            | none =>
              simp only
              obtain ⟨a, b, c⟩ := ih rest (by omega)
              exact ⟨a, by omega, fun h => by have := c h; omega⟩
          | err x => exact ⟨normal_err _, hle, fun _ => hshort⟩
          | panic w => rw [hc] at hcn; simp [Out.Normal] at hcn
          | diverge => rw [hc] at hcn; simp [Out.Normal] at hcn
        | none => exact ⟨normal_ok _, hle, fun h => absurd rfl h⟩
      | err x => exact ⟨normal_err _, hle, fun _ => hlt (by simp)⟩
      | panic w => simp [Out.Normal] at hn
      | diverge => simp [Out.Normal] at hn

theorem ar_next_ok (e : Endian) (asz : Nat) (input : Bytes) :
    StepOk (Aranges.next e asz input).1 input.length (Aranges.next e asz input).2.length :=
  ar_nextLoop_ok e asz (input.length + 1) input (by omega)

/-- an iterator driven to its first `Ok(None)`, at most `fuel` calls (the shape of
`Aranges.entries`, `Pub.items`) -/
def collect {σ α : Type} (step : σ → Out (Option α) × σ) : Nat → σ → List (Item α)
  | 0, _ => []
  | fuel + 1, s =>
    match step s with
    | (.ok (some a), s') => .item a :: collect step fuel s'
    | (.ok none, _) => []
    | (.err x, s') => .error x :: collect step fuel s'
    | (_, _) => []

/-- **termination of a driven iterator**: if every call is normal and every produced item or error
strictly decreases a measure, then the call cap is never reached once it exceeds the measure
(more fuel changes nothing) and at most `μ s` items/errors are produced -/
theorem collect_total {σ α : Type} (step : σ → Out (Option α) × σ) (μ : σ → Nat)
    (h : ∀ s, StepOk (step s).1 (μ s) (μ (step s).2)) (fuel : Nat) (s : σ) (hf : μ s < fuel) :
    collect step fuel s = collect step (fuel + 1) s ∧ (collect step fuel s).length ≤ μ s := by
  induction fuel generalizing s with
  | zero => omega
  | succ f ih =>
    obtain ⟨hn, hle, hlt⟩ := h s
    rw [collect, collect]
    cases hs : step s with
    | mk r s' =>
      rw [hs] at hn hle hlt
      simp only at hn hle hlt
      cases r with
      | ok o =>
        cases o with
        | some a =>
          have hsh : μ s' < μ s := hlt (by simp)
          obtain ⟨h1, h2⟩ := ih s' (by omega)
          simp only [List.length_cons]
          exact ⟨by rw [h1], by omega⟩
        | none => exact ⟨rfl, by simp⟩
      | err x =>
        have hsh : μ s' < μ s := hlt (by simp)
        obtain ⟨h1, h2⟩ := ih s' (by omega)
        simp only [List.length_cons]
        exact ⟨by rw [h1], by omega⟩
      | panic w => simp [Out.Normal] at hn
      | diverge => simp [Out.Normal] at hn

theorem ar_entries_eq_collect (e : Endian) (asz : Nat) (fuel : Nat) (input : Bytes) :
    Aranges.entries e asz fuel input = collect (Aranges.next e asz) fuel input := by
  induction fuel generalizing input with
  | zero => rfl
  | succ f ih =>
    rw [Aranges.entries, collect]
    cases hs : Aranges.next e asz input with
    | mk r s' =>
      cases r with
      | ok o => cases o <;> simp [ih]
      | err x => simp [ih]
      | panic w => rfl
      | diverge => rfl

/-- a header iterator driven to the end (the shape of `Aranges.headers`, `Names.headers`): an
error empties the input, so it is the last item -/
def collectHdr {α : Type} (parse : Bytes → Out (α × Bytes)) : Nat → Bytes → Nat → List (Item (Nat × α))
  | 0, _, _ => []
  | fuel + 1, input, off =>
    if input.isEmpty then []
    else match parse input with
      | .ok (h, rest) => .item (off, h) :: collectHdr parse fuel rest (off + (input.length - rest.length))
      | .err x => [.error x]
      | _ => []

theorem collectHdr_total {α : Type} (parse : Bytes → Out (α × Bytes))
    (hn : ∀ input, (parse input).Normal)
    (hc : ∀ input h rest, parse input = .ok (h, rest) → rest.length < input.length)
    (fuel : Nat) (input : Bytes) (off : Nat) (hf : input.length < fuel) :
    collectHdr parse fuel input off = collectHdr parse (fuel + 1) input off ∧
      (collectHdr parse fuel input off).length ≤ input.length ∧
      ∀ i x, (collectHdr parse fuel input off)[i]? = some (.error x) →
        i + 1 = (collectHdr parse fuel input off).length := by
  induction fuel generalizing input off with
  | zero => omega
  | succ f ih =>
    rw [collectHdr, collectHdr]
    by_cases hem : input.isEmpty = true
    · simp [hem]
    · simp only [hem, Bool.false_eq_true, if_false]
      have hpos : 0 < input.length := by
        cases input with
        | nil => simp at hem
        | cons a t => simp
      have hnn := hn input
      cases hp : parse input with
      | ok p =>
        obtain ⟨h, rest⟩ := p
        have hsh := hc input h rest hp
        obtain ⟨h1, h2, h3⟩ := ih rest (off + (input.length - rest.length)) (by omega)
        simp only [List.length_cons]
        refine ⟨by rw [h1], by omega, ?_⟩
        intro i x hi
        cases i with
        | zero => simp at hi
        | succ i =>
          simp only [List.getElem?_cons_succ] at hi
          have := h3 i x hi
          omega
      | err x =>
        refine ⟨rfl, by simp; omega, ?_⟩
        intro i y hi
        cases i with
        | zero => simp
        | succ i => simp at hi
      | panic w => rw [hp] at hnn; simp [Out.Normal] at hnn
      | diverge => rw [hp] at hnn; simp [Out.Normal] at hnn

theorem ar_headers_eq (e : Endian) (fuel : Nat) (input : Bytes) (off : Nat) :
    Aranges.headers e fuel input off = collectHdr (Aranges.parseHeader e) fuel input off := by
  induction fuel generalizing input off with
  | zero => rfl
  | succ f ih =>
    rw [Aranges.headers, collectHdr]
    split
    · rfl
    · cases hp : Aranges.parseHeader e input with
      | ok p => obtain ⟨h, rest⟩ := p; simp [ih]
      | err x => rfl
      | panic w => rfl
      | diverge => rfl

/-! ### `.debug_pubnames` / `.debug_pubtypes` -/

theorem pub_parseHeader_normal (e : Endian) (input : Bytes) : (Pub.parseHeader e input).Normal := by
  unfold Pub.parseHeader
  refine normal_bind (readInitialLength_normal e input) (fun p _ => ?_)
  obtain ⟨⟨len, fmt⟩, in1⟩ := p
  refine normal_bind (take_normal _ _) (fun p _ => ?_)
  obtain ⟨body, in2⟩ := p
  refine normal_bind (readFixed_normal e 2 body) (fun p _ => ?_)
  obtain ⟨ver, r1⟩ := p
  simp only
  split
  · exact normal_err _
  refine normal_bind (readWord_normal e fmt r1) (fun p _ => ?_)
  obtain ⟨uo, r2⟩ := p
  refine normal_bind (readWord_normal e fmt r2) (fun p _ => ?_)
  exact normal_pure _

/-- an accepted set header consumes input: what is left of the set plus what follows the set is
shorter than the input -/
theorem pub_parseHeader_consumes (e : Endian) (input body rest : Bytes) (hdr : Pub.Header)
    (hp : Pub.parseHeader e input = .ok ((body, hdr), rest)) : body.length + rest.length < input.length := by
  unfold Pub.parseHeader at hp
  obtain ⟨⟨⟨len, fmt⟩, in1⟩, h1, hp⟩ := bind_eq_ok _ _ _ hp
  obtain ⟨⟨b0, in2⟩, h2, hp⟩ := bind_eq_ok _ _ _ hp
  obtain ⟨⟨ver, r1⟩, h3, hp⟩ := bind_eq_ok _ _ _ hp
  simp only at hp
  split at hp
  · simp at hp
  obtain ⟨⟨uo, r2⟩, h4, hp⟩ := bind_eq_ok _ _ _ hp
  obtain ⟨⟨ul, r3⟩, h5, hp⟩ := bind_eq_ok _ _ _ hp
  simp only [Out.pure_eq, Out.ok.injEq, Prod.mk.injEq] at hp
  obtain ⟨⟨hb, _⟩, hr⟩ := hp
  subst hb hr
  obtain ⟨a1, e1, l1⟩ := readInitialLength_split e input len fmt in1 h1
  obtain ⟨e2, l2⟩ := take_ok_split _ _ _ _ h2
  obtain ⟨a3, e3, l3, _⟩ := readFixed_split e 2 b0 ver r1 h3
  obtain ⟨a4, e4, l4⟩ := readWord_split e fmt r1 uo r2 h4
  obtain ⟨a5, e5, l5⟩ := readWord_split e fmt r2 ul r3 h5
  rw [e1, e2, e3, e4, e5]
  simp only [List.length_append, l1, l3]
  cases fmt <;> simp <;> omega

theorem readCStr_normal (bs : Bytes) : (Pub.readCStr bs).Normal := by
  induction bs with
  | nil => simp [Pub.readCStr, Out.Normal]
  | cons b r ih =>
    rw [Pub.readCStr]
    split
    · exact normal_ok _
    · exact normal_bind ih (fun p _ => normal_pure _)

theorem readCStr_consumes (bs s r : Bytes) (h : Pub.readCStr bs = .ok (s, r)) : r.length < bs.length := by
  induction bs generalizing s r with
  | nil => simp [Pub.readCStr] at h
  | cons b t ih =>
    rw [Pub.readCStr] at h
    split at h
    · simp only [Out.ok.injEq, Prod.mk.injEq] at h; rw [← h.2]; simp
    · obtain ⟨⟨s', r'⟩, h1, h2⟩ := bind_eq_ok _ _ _ h
      simp only [Out.pure_eq, Out.ok.injEq, Prod.mk.injEq] at h2
      have := ih s' r' h1
      rw [← h2.2]; simp only [List.length_cons]; omega

theorem pub_parseEntry_ok (e : Endian) (hdr : Pub.Header) (input : Bytes) :
    (Pub.parseEntry e hdr input).Normal ∧
      (∀ en rest, Pub.parseEntry e hdr input = .ok (some en, rest) → rest.length < input.length) ∧
      (∀ rest, Pub.parseEntry e hdr input = .ok (none, rest) → rest = []) := by
  unfold Pub.parseEntry
  cases h1 : readWord e 64 hdr.format input with
  | ok p =>
    obtain ⟨off, r1⟩ := p
    obtain ⟨a, ea, la⟩ := readWord_split e hdr.format input off r1 h1
    have hr1 : r1.length ≤ input.length := by rw [ea]; simp
    simp only [Out.bind_ok]
    split
    · exact ⟨normal_pure _, fun en rest h => by simp at h, fun rest h => by simp at h; exact h⟩
    · cases h2 : Pub.readCStr r1 with
      | ok q =>
        obtain ⟨nm, r2⟩ := q
        have := readCStr_consumes r1 nm r2 h2
        refine ⟨normal_pure _, fun en rest h => ?_, fun rest h => by simp at h⟩
        simp only [Out.bind_ok, Out.pure_eq, Out.ok.injEq, Prod.mk.injEq] at h
        rw [← h.2]; omega
      | err x => exact ⟨by simp [Out.Normal], fun en rest h => by simp at h, fun rest h => by simp at h⟩
      | panic w => exact absurd (readCStr_normal r1) (by rw [h2]; simp [Out.Normal])
      | diverge => exact absurd (readCStr_normal r1) (by rw [h2]; simp [Out.Normal])
  | err x => exact ⟨by simp [Out.Normal], fun en rest h => by simp at h, fun rest h => by simp at h⟩
  | panic w => exact absurd (readWord_normal e hdr.format input) (by rw [h1]; simp [Out.Normal])
  | diverge => exact absurd (readWord_normal e hdr.format input) (by rw [h1]; simp [Out.Normal])

/-- measure of a `LookupEntryIter`: bytes left in the current set plus bytes of the sets to come -/
def pubMu (st : Pub.State) : Nat :=
  (match st.current with
   | some (b, _) => b.length
   | none => 0) + st.remaining.length

theorem pub_nextLoop_ok (e : Endian) (fuel : Nat) (st : Pub.State) (hf : st.remaining.length < fuel) :
    StepOk (Pub.nextLoop e fuel st).1 (pubMu st) (pubMu (Pub.nextLoop e fuel st).2) := by
  induction fuel generalizing st with
  | zero => omega
  | succ f ih =>
    rw [Pub.nextLoop]
    -- second half of an iteration, from a state whose measure is at most the original one
    have second : ∀ st' : Pub.State, st'.remaining = st.remaining → pubMu st' ≤ pubMu st →
        StepOk (match (if st'.remaining.isEmpty = true then
              ((Out.ok none : Out (Option Pub.Entry)), ({ current := none, remaining := st'.remaining } : Pub.State))
            else match Pub.parseHeader e st'.remaining with
              | .ok (set, rest) => Pub.nextLoop e f { current := some set, remaining := rest }
              | .err x => (.err x, { current := none, remaining := [] })
              | .panic w => (.panic w, st')
              | .diverge => (.diverge, st')) with | (r, _) => r) (pubMu st)
          (pubMu (match (if st'.remaining.isEmpty = true then
              ((Out.ok none : Out (Option Pub.Entry)), ({ current := none, remaining := st'.remaining } : Pub.State))
            else match Pub.parseHeader e st'.remaining with
              | .ok (set, rest) => Pub.nextLoop e f { current := some set, remaining := rest }
              | .err x => (.err x, { current := none, remaining := [] })
              | .panic w => (.panic w, st')
              | .diverge => (.diverge, st')) with | (_, s2) => s2)) := by
      intro st' hrem hmu
      have hrl : st'.remaining.length ≤ pubMu st := by rw [hrem]; simp [pubMu]
      have hrl2 : st'.remaining.length = st.remaining.length := by rw [hrem]
      by_cases hem : st'.remaining.isEmpty = true
      · simp only [hem, if_true]
        exact ⟨normal_ok _, by simp [pubMu]; omega, fun h => absurd rfl h⟩
      · simp only [hem, Bool.false_eq_true, if_false]
        have hpos : 0 < st'.remaining.length := by
          cases hr : st'.remaining with
          | nil => rw [hr] at hem; simp at hem
          | cons a t => simp
        have hn := pub_parseHeader_normal e st'.remaining
        cases hp : Pub.parseHeader e st'.remaining with
        | ok p =>
          obtain ⟨⟨body, hdr⟩, rest⟩ := p
          have hc := pub_parseHeader_consumes e st'.remaining body rest hdr hp
          simp only
          obtain ⟨a, b, c⟩ := ih { current := some (body, hdr), remaining := rest }
            (by simp only; rw [hrem] at hc; omega)
          have hm2 : pubMu { current := some (body, hdr), remaining := rest } = body.length + rest.length := rfl
          exact ⟨a, by omega, fun _ => by omega⟩
        | err x =>
          have h0 : pubMu { current := none, remaining := [] } = 0 := rfl
          exact ⟨normal_err _, by rw [h0]; omega, fun _ => by rw [h0]; omega⟩
        | panic w => rw [hp] at hn; simp [Out.Normal] at hn
        | diverge => rw [hp] at hn; simp [Out.Normal] at hn
    unfold Pub.entryStep
    cases hcur : st.current with
    | none =>
      simp only
      exact second st rfl (Nat.le_refl _)
    | some cur =>
      obtain ⟨input, hdr⟩ := cur
      simp only
      have hmu : pubMu st = input.length + st.remaining.length := by simp [pubMu, hcur]
      by_cases hem : input.isEmpty = true
      · simp only [hem, if_true]
        exact second st rfl (Nat.le_refl _)
      · simp only [hem, Bool.false_eq_true, if_false]
        have hpos : 0 < input.length := by
          cases input with
          | nil => simp at hem
          | cons a t => simp
        obtain ⟨hn, hsome, hnone⟩ := pub_parseEntry_ok e hdr input
        cases hp : Pub.parseEntry e hdr input with
        | ok p =>
          obtain ⟨o, rest⟩ := p
          cases o with
          | some en =>
            have := hsome en rest hp
            simp only
            have hm2 : pubMu { st with current := some (rest, hdr) } = rest.length + st.remaining.length := rfl
            exact ⟨normal_ok _, by rw [hm2, hmu]; omega, fun _ => by rw [hm2, hmu]; omega⟩
          | none =>
            have hr := hnone rest hp
            subst hr
            simp only
            have hm2 : pubMu { st with current := some ([], hdr) } = 0 + st.remaining.length := rfl
            exact second { st with current := some ([], hdr) } rfl (by rw [hm2, hmu]; omega)
        | err x =>
          simp only
          have h0 : pubMu { current := some ([], hdr), remaining := [] } = 0 := rfl
          exact ⟨normal_err _, by rw [h0]; omega, fun _ => by rw [h0, hmu]; omega⟩
        | panic w => rw [hp] at hn; simp [Out.Normal] at hn
        | diverge => rw [hp] at hn; simp [Out.Normal] at hn

theorem pub_next_ok (e : Endian) (st : Pub.State) :
    StepOk (Pub.next e st).1 (pubMu st) (pubMu (Pub.next e st).2) :=
  pub_nextLoop_ok e (st.remaining.length + 2) st (by omega)

theorem pub_items_eq_collect (e : Endian) (fuel : Nat) (st : Pub.State) :
    Pub.items e fuel st = collect (Pub.next e) fuel st := by
  induction fuel generalizing st with
  | zero => rfl
  | succ f ih =>
    rw [Pub.items, collect]
    cases hs : Pub.next e st with
    | mk r s' =>
      cases r with
      | ok o => cases o <;> simp [ih]
      | err x => simp [ih]
      | panic w => rfl
      | diverge => rfl
end Gimli.C17
