import Gimli.Lemmas.OpDecode
import Gimli.Props.C01
/-! # C07: decoding is total (never a panic, no fuel) — via the Spec decode and C01's primitive lemmas -/
open Gimli Gimli.Op Gimli.Spec.OpTable Gimli.Props.C01

theorem take_normal (n : Nat) (bs : Bytes) : (Ints.take n bs).Normal := by
  unfold Ints.take; split <;> trivial

theorem readWord_normal (e : Endian) (f : Format) (bs : Bytes) : (Ints.readWord e 64 f bs).Normal := by
  unfold Ints.readWord
  cases f
  · exact fixed_total e 4 bs
  · refine bind_normal _ _ (fixed_total e 8 bs) (fun ⟨v, r⟩ => ?_)
    refine bind_normal _ _ ?_ (fun _ => trivial)
    unfold Ints.offsetFromU64; split <;> trivial

theorem readUlebU32_normal (bs : Bytes) : (Ints.readUlebU32 bs).Normal := by
  unfold Ints.readUlebU32
  refine bind_normal _ _ (uleb_total bs) (fun ⟨v, r⟩ => ?_)
  show (if v < 2 ^ 32 then _ else _ : Out (Nat × Bytes)).Normal
  split <;> trivial

macro "bn" h:term : tactic => `(tactic| (refine bind_normal _ _ $h ?_; intro p; obtain ⟨_, _⟩ := p; trivial))

theorem readOperand_normal (e : Endian) (enc : Encoding) (o : Operand) (bs : Bytes) :
    (readOperand e enc o bs).Normal := by
  cases o <;> simp only [readOperand]
  case u n => bn (fixed_total e n bs)
  case s n => bn (fixed_total e n bs)
  case uleb => bn (uleb_total bs)
  case sleb => bn (sleb_total bs)
  case addr => bn (address_total e _ bs)
  case off => bn (readWord_normal e _ bs)
  case refAddr =>
    split
    · bn (address_total e _ bs)
    · bn (readWord_normal e _ bs)
  case reg =>
    refine bind_normal _ _ (uleb_total bs) (fun ⟨v, r⟩ => ?_)
    show (if v < 2 ^ 16 then _ else _ : Out (List Arg × Bytes)).Normal
    split <;> trivial
  case blockUleb =>
    refine bind_normal _ _ (uleb_total bs) (fun ⟨v, r⟩ => ?_)
    bn (take_normal _ _)
  case block1 =>
    refine bind_normal _ _ (fixed_total e 1 bs) (fun ⟨v, r⟩ => ?_)
    bn (take_normal _ _)
  case wasm =>
    refine bind_normal _ _ (fixed_total e 1 bs) (fun ⟨k, r⟩ => ?_)
    show (if k = 0 ∨ k = 1 ∨ k = 2 then _ else if k = 3 then _ else _ : Out (List Arg × Bytes)).Normal
    split
    · bn (readUlebU32_normal r)
    · split
      · bn (fixed_total e 4 r)
      · trivial

theorem readOperands_normal (e : Endian) (enc : Encoding) (os : List Operand) :
    ∀ bs, (readOperands e enc os bs).Normal := by
  induction os with
  | nil => intro bs; trivial
  | cons o os ih =>
    intro bs
    unfold readOperands
    refine bind_normal _ _ (readOperand_normal e enc o bs) (fun ⟨a, r⟩ => ?_)
    bn (ih r)

theorem decode_normal (e : Endian) (enc : Encoding) (bs : Bytes) : (decode e enc bs).Normal := by
  cases bs with
  | nil => trivial
  | cons b rest =>
    simp only [decode]
    cases signature b.toNat with
    | none => trivial
    | some sig =>
      refine bind_normal _ _ (readOperands_normal e enc sig rest) (fun ⟨args, r⟩ => ?_)
      exact bind_normal _ _ (meaning_normal enc args b.toNat (UInt8.toNat_lt b)) (fun _ => trivial)

theorem parse_normal (e : Endian) (enc : Encoding) (bs : Bytes) : (parse e enc bs).Normal := by
  rw [parse_eq_decode]; exact decode_normal e enc bs
