import Gimli.Lemmas.WOpEval
import Gimli.Spec.BuiltEval
/-!
# C15: whole evaluation runs, part A — the invariant and the two decoders

`Inv`: the evaluator's current (reader, bytecode) pair and every frame of its expression stack is
either foreign bytecode or stands at the start of an operation as built. Under it the as-built
decoder (`BuiltEval.builtDec`) and the byte decoder agree (`dec_agree`).
-/
set_option linter.unusedSimpArgs false
set_option linter.unusedVariables false
namespace Gimli.WOp
open Gimli.Op (Encoding)
open Gimli.Eval Gimli.BuiltEval

/-- everything that is fixed once an expression has been written successfully -/
structure Written (e : Endian) (enc : Encoding) (uo : UnitOffs) (hasRefs : Bool) (ops : List Operation)
    (pos : Nat) (bs : Bytes) (fx : List Fixup) (offs : List Nat) : Prop where
  ho : exprOffsets enc uo ops pos = .ok offs
  hw : exprWriteOps e enc uo hasRefs offs pos ops = .ok (bs, fx)
  hwf : ∀ op ∈ ops, OpWf op
  hoffs : ∀ f, uo = some f → ∀ en o, f en = some o → o < 2 ^ 64
  hL : bs.length < 2 ^ 64

section
variable {e : Endian} {enc : Encoding} {uo : UnitOffs} {hasRefs : Bool} {ops : List Operation}
  {pos : Nat} {bs : Bytes} {fx : List Fixup} {offs : List Nat}

/-- `pc` is the rest of `bs` from the start of an operation as built (or the end) -/
def AtOp (e : Endian) (enc : Encoding) (uo : UnitOffs) (hasRefs : Bool) (ops : List Operation)
    (pos : Nat) (bs : Bytes) (offs : List Nat) (pc : Bytes) : Prop :=
  ∃ j bj fj, j ≤ ops.length ∧ exprWriteOps e enc uo hasRefs offs pos (ops.take j) = .ok (bj, fj) ∧
    pc = bs.drop bj.length

/-- a (reader, bytecode) pair is fine if it is foreign bytecode or stands on an operation as built -/
def GoodCode (e : Endian) (enc : Encoding) (uo : UnitOffs) (hasRefs : Bool) (ops : List Operation)
    (pos : Nat) (bs : Bytes) (offs : List Nat) (p : Bytes × Bytes) : Prop :=
  p.2 = bs → AtOp e enc uo hasRefs ops pos bs offs p.1

def Inv (e : Endian) (enc : Encoding) (uo : UnitOffs) (hasRefs : Bool) (ops : List Operation)
    (pos : Nat) (bs : Bytes) (offs : List Nat) (m : Mach) : Prop :=
  GoodCode e enc uo hasRefs ops pos bs offs (m.pc, m.bytecode) ∧
    ∀ f ∈ m.exprStack, GoodCode e enc uo hasRefs ops pos bs offs f

theorem inv_of_same {m m' : Mach} (hs : Same m m') (hi : Inv e enc uo hasRefs ops pos bs offs m) :
    Inv e enc uo hasRefs ops pos bs offs m' := by
  obtain ⟨h1, h2, h3⟩ := hs
  unfold Inv at *
  rw [h1, h2, h3]; exact hi

theorem atOp_start :
    AtOp e enc uo hasRefs ops pos bs offs bs :=
  ⟨0, [], [], Nat.zero_le _, by simp [exprWriteOps], by simp⟩

/-- an operation that satisfies `OpWf` emits at least one byte -/
theorem opWrite_nonempty (hoffs : ∀ f, uo = some f → ∀ en o, f en = some o → o < 2 ^ 64)
    (op : Operation) (offsets : List Nat) (p : Nat) (b : Bytes) (f : List Fixup)
    (hl : b.length < 2 ^ 64) (h : opWrite e enc uo hasRefs offsets p op = .ok (b, f)) (hwf : OpWf op) :
    1 ≤ b.length := by
  obtain ⟨img, _, hp⟩ := opWrite_decode e enc uo hasRefs op offsets p b f [] hoffs hl h hwf
  cases b with
  | nil => simp [Op.parse] at hp
  | cons x xs => simp

/-- decoding at the start of an operation as built: split form -/
theorem parse_at (hW : Written e enc uo hasRefs ops pos bs fx offs)
    (pre suf : List Operation) (op : Operation) (hsplit : ops = pre ++ op :: suf) :
    ∃ b1 f1 bo fo img,
      exprWriteOps e enc uo hasRefs offs pos pre = .ok (b1, f1) ∧
      opWrite e enc uo hasRefs offs (pos + b1.length) op = .ok (bo, fo) ∧
      opImage e enc uo hasRefs offs (pos + b1.length) op = some img ∧
      1 ≤ bo.length ∧ b1.length + bo.length ≤ bs.length ∧
      Op.parse e enc (bs.drop b1.length) = .ok (img, bs.drop (b1.length + bo.length)) := by
  subst hsplit
  obtain ⟨b1, f1, b2, f2, h1, h2, hbs, hd1⟩ := tail_of_split e enc uo hasRefs pre (op :: suf) pos bs fx offs hW.ho hW.hw
  simp only [exprWriteOps, bind_eq_ok, Out.pure_eq, Out.ok.injEq, Prod.mk.injEq, Prod.exists] at h2
  obtain ⟨bo, fo, hop, b3, f3, h3, hb2, _⟩ := h2
  have hL := hW.hL
  have hlo : bo.length < 2 ^ 64 := by rw [hbs, ← hb2] at hL; simp at hL; omega
  have hwf : OpWf op := hW.hwf op (by simp)
  obtain ⟨img, himg, hparse⟩ := opWrite_decode e enc uo hasRefs op offs (pos + b1.length) bo fo b3 hW.hoffs hlo hop hwf
  have hne := opWrite_nonempty hW.hoffs op offs _ bo fo hlo hop hwf
  have hd2 : bs.drop (b1.length + bo.length) = b3 := by
    rw [hbs, ← hb2, ← List.append_assoc]; exact List.drop_left' (by simp)
  refine ⟨b1, f1, bo, fo, img, h1, hop, himg, hne, ?_, ?_⟩
  · rw [hbs, ← hb2]; simp
  · rw [hd1, ← hb2, hparse, hd2]

/-- the listing of the expression as built -/
def listingOf (e : Endian) (enc : Encoding) (uo : UnitOffs) (hasRefs : Bool) (ops : List Operation)
    (pos : Nat) (offs : List Nat) : List (Op.Operation × Nat) :=
  expectedDecode e enc uo hasRefs offs pos 0 ops

/-- looking up the start offset of operation `|pre|` in the listing finds that operation -/
theorem lookup_listing (hoffs : ∀ f, uo = some f → ∀ en o, f en = some o → o < 2 ^ 64) :
    ∀ (pre : List Operation) (suf : List Operation) (op : Operation) (p start : Nat) (b1 : Bytes) (f1 : List Fixup)
      (bo : Bytes) (fo : List Fixup),
      (∀ o ∈ pre, OpWf o) → b1.length < 2 ^ 64 →
      exprWriteOps e enc uo hasRefs offs p pre = .ok (b1, f1) →
      opWrite e enc uo hasRefs offs (p + b1.length) op = .ok (bo, fo) →
      listingLookup (expectedDecode e enc uo hasRefs offs p start (pre ++ op :: suf)) start (start + b1.length) =
        some ((opImage e enc uo hasRefs offs (p + b1.length) op).getD .nop, start + b1.length + bo.length)
  | [], suf, op, p, start, b1, f1, bo, fo, _, _, h1, hop => by
    simp only [exprWriteOps, Out.ok.injEq, Prod.mk.injEq] at h1
    obtain ⟨rfl, _⟩ := h1
    have hn : opLen enc uo op = bo.length := by
      simp [opLen, opWrite_length e enc uo hasRefs op offs _ bo fo hop]
    simp only [List.nil_append, expectedDecode, listingLookup, List.length_nil, Nat.add_zero, if_true, hn] at hop ⊢
  | q :: pre, suf, op, p, start, b1, f1, bo, fo, hwf, hl, h1, hop => by
    simp only [exprWriteOps, bind_eq_ok, Out.pure_eq, Out.ok.injEq, Prod.mk.injEq, Prod.exists] at h1
    obtain ⟨bq, fq, hq, b1', f1', h1', rfl, _⟩ := h1
    have hl' : bq.length + b1'.length < 2 ^ 64 := by simpa using hl
    have hlq : bq.length < 2 ^ 64 := by omega
    have hne := opWrite_nonempty hoffs q offs p bq fq hlq hq (hwf q (by simp))
    have hn : opLen enc uo q = bq.length := by
      simp [opLen, opWrite_length e enc uo hasRefs q offs _ bq fq hq]
    have ih := lookup_listing hoffs pre suf op (p + bq.length) (start + bq.length) b1' f1' bo fo
      (fun o ho => hwf o (by simp [ho])) (by omega) h1'
      (by simpa [Nat.add_assoc] using hop)
    simp only [List.cons_append, expectedDecode, listingLookup, hn]
    have hneq : ¬ (start + (bq ++ b1').length = start) := by
      rw [List.length_append]; omega
    rw [if_neg hneq]
    simp only [List.length_append] at ih ⊢
    rw [show start + (bq.length + b1'.length) = start + bq.length + b1'.length by omega,
        show p + (bq.length + b1'.length) = p + bq.length + b1'.length by omega]
    exact ih

/-- **inside the written expression, at the start of an operation as built, the as-built decoder
and the byte decoder agree** -/
theorem dec_agree (hW : Written e enc uo hasRefs ops pos bs fx offs) (c : Config)
    (hce : c.endian = e) (hcenc : c.encoding = enc) (m : Mach)
    (hg : GoodCode e enc uo hasRefs ops pos bs offs (m.pc, m.bytecode)) (hne : m.pc ≠ []) :
    builtDec bs (listingOf e enc uo hasRefs ops pos offs) c m = parseDec c m := by
  unfold builtDec parseDec
  by_cases hb : m.bytecode = bs
  · simp only [hb, if_true]
    obtain ⟨j, bj, fj, hj, hwj, hpc⟩ := hg hb
    have hpc : m.pc = bs.drop bj.length := hpc
    -- `pc` is not empty, so `j` is the index of an operation
    have hjlt : j < ops.length := by
      rcases Nat.lt_or_ge j ops.length with h | h
      · exact h
      · exfalso
        have : ops.take j = ops := List.take_of_length_le h
        rw [this, hW.hw] at hwj
        simp only [Out.ok.injEq, Prod.mk.injEq] at hwj
        rw [← hwj.1] at hpc
        simp at hpc
        exact hne hpc
    have hsplit : ops = ops.take j ++ ops[j] :: ops.drop (j + 1) := by
      rw [List.getElem_cons_drop]; exact (List.take_append_drop j ops).symm
    obtain ⟨b1, f1, bo, fo, img, h1, hop, himg, hbo, hle, hparse⟩ := parse_at hW _ _ _ hsplit
    rw [hwj] at h1
    simp only [Out.ok.injEq, Prod.mk.injEq] at h1
    obtain ⟨rfl, rfl⟩ := h1
    have hoff : bs.length - m.pc.length = bj.length := by
      rw [hpc, List.length_drop]; omega
    have hlook := lookup_listing (hasRefs := hasRefs) (offs := offs) hW.hoffs (ops.take j) (ops.drop (j + 1)) ops[j] pos 0 bj fj bo fo
      (fun o ho => hW.hwf o (List.mem_of_mem_take ho)) (by have := hW.hL; omega) hwj hop
    rw [← hsplit] at hlook
    simp only [Nat.zero_add] at hlook
    rw [hoff]
    unfold listingOf
    rw [hlook, himg, hpc, hce, hcenc, hparse]
    rfl
  · simp [hb]
end
end Gimli.WOp
