import Gimli.Lemmas.WOpRunC
/-!
# C15: whole evaluation runs, part D — the evaluator loop with the two decoders
-/
set_option linter.unusedSimpArgs false
set_option linter.unusedVariables false
namespace Gimli.WOp
open Gimli.Op (Encoding)
open Gimli.Eval Gimli.BuiltEval

section
variable {e : Endian} {enc : Encoding} {uo : UnitOffs} {hasRefs : Bool} {ops : List Operation}
  {pos : Nat} {bs : Bytes} {fx : List Fixup} {offs : List Nat}

local notation "GC" => GoodCode e enc uo hasRefs ops pos bs offs
local notation "INV" => Inv e enc uo hasRefs ops pos bs offs
local notation "D2" => builtDec bs (listingOf e enc uo hasRefs ops pos offs)

/-- after decoding at an operation start the reader stands at the next operation start -/
theorem dec_inv (hW : Written e enc uo hasRefs ops pos bs fx offs) (c : Config)
    (hce : c.endian = e) (hcenc : c.encoding = enc) (m : Mach) (hi : INV m) (hne : m.pc ≠ [])
    (op : Op.Operation) (rest : Bytes) (h : parseDec c m = .ok (op, rest)) :
    INV { m with pc := rest } := by
  refine ⟨?_, hi.2⟩
  intro hb
  have hb : m.bytecode = bs := hb
  obtain ⟨j, bj, fj, hj, hwj, hpc⟩ := hi.1 hb
  have hpc : m.pc = bs.drop bj.length := hpc
  have hjlt : j < ops.length := by
    rcases Nat.lt_or_ge j ops.length with h | h
    · exact h
    · exfalso
      have : ops.take j = ops := List.take_of_length_le h
      rw [this, hW.hw] at hwj
      simp only [Out.ok.injEq, Prod.mk.injEq] at hwj
      rw [← hwj.1] at hpc
      simp at hpc
      exact hne hpc
  have hsplit : ops = ops.take j ++ ops[j] :: ops.drop (j + 1) := by
    rw [List.getElem_cons_drop]; exact (List.take_append_drop j ops).symm
  obtain ⟨b1, f1, bo, fo, img, h1, hop, himg, hbo, hle, hparse⟩ := parse_at hW _ _ _ hsplit
  rw [hwj] at h1
  simp only [Out.ok.injEq, Prod.mk.injEq] at h1
  obtain ⟨rfl, rfl⟩ := h1
  unfold parseDec at h
  rw [hpc, hce, hcenc, hparse] at h
  simp only [Out.ok.injEq, Prod.mk.injEq] at h
  refine ⟨j + 1, bj ++ bo, fj ++ fo, hjlt, ?_, ?_⟩
  · have : ops.take (j + 1) = ops.take j ++ [ops[j]] := by
      rw [List.take_add_one, List.getElem?_eq_getElem hjlt]; rfl
    rw [this, exprWriteOps_append]
    exact ⟨bj, fj, bo, fo, hwj, by simp [exprWriteOps, hop], rfl, rfl⟩
  · show rest = _
    rw [← h.2]; simp

/-- the good states: the configuration decodes like the writer encoded, and the invariant -/
def Good (e : Endian) (enc : Encoding) (uo : UnitOffs) (hasRefs : Bool) (ops : List Operation)
    (pos : Nat) (bs : Bytes) (offs : List Nat) (s : Eval) : Prop :=
  s.cfg.endian = e ∧ s.cfg.encoding = enc ∧ Inv e enc uo hasRefs ops pos bs offs s.m

local notation "GOOD" => Good e enc uo hasRefs ops pos bs offs

/-- two continuations agree on good states, and lead to good states -/
def KAgree (e : Endian) (enc : Encoding) (uo : UnitOffs) (hasRefs : Bool) (ops : List Operation)
    (pos : Nat) (bs : Bytes) (offs : List Nat) (k1 k2 : Eval → Out (Request × Eval)) : Prop :=
  ∀ s, Good e enc uo hasRefs ops pos bs offs s →
    k2 s = k1 s ∧ ∀ r s', k1 s = .ok (r, s') → Good e enc uo hasRefs ops pos bs offs s'

theorem afterComplete_agree (hW : Written e enc uo hasRefs ops pos bs fx offs) (c : Config)
    (hce : c.endian = e) (hcenc : c.encoding = enc) (loc : Location) (m : Mach) (hi : INV m) :
    afterCompleteD D2 c loc m = afterCompleteD parseDec c loc m ∧
      ∀ m' x, afterCompleteD parseDec c loc m = .ok (m', x) → INV m' := by
  obtain ⟨hi2, hne2⟩ := endOfExpression_inv (e := e) (enc := enc) (uo := uo) (hasRefs := hasRefs) (ops := ops) (pos := pos) (bs := bs) (offs := offs) m hi
  unfold afterCompleteD
  cases hE : endOfExpression m with
  | mk b m2 =>
    rw [hE] at hi2 hne2
    simp only at hi2 hne2
    cases b with
    | true =>
      simp only
      refine ⟨trivial, ?_⟩
      intro m' x h
      split at h
      · simp only [bind_eq_ok, Out.pure_eq, Out.ok.injEq, Prod.mk.injEq] at h
        obtain ⟨m3, hpp, rfl, _⟩ := h
        exact inv_of_same ((pushPiece_keeps c _ m2 m2 (same_refl _)).out _ hpp) hi2
      · cases h
    | false =>
      simp only
      have hne := hne2 rfl
      have hag := dec_agree hW c hce hcenc m2 hi2.1 hne
      rw [hag]
      refine ⟨rfl, ?_⟩
      intro m' x h
      simp only [bind_eq_ok, Prod.exists] at h
      obtain ⟨op, rest, hd, h⟩ := h
      have hi3 := dec_inv hW c hce hcenc m2 hi2 hne op rest hd
      split at h
      · simp only [bind_eq_ok, Out.pure_eq, Out.ok.injEq, Prod.mk.injEq] at h
        obtain ⟨m3, hpp, rfl, _⟩ := h
        exact inv_of_same ((pushPiece_keeps c _ _ _ (same_refl _)).out _ hpp) hi3
      · cases h

theorem afterOp_agree (hW : Written e enc uo hasRefs ops pos bs fx offs)
    (k1 k2 : Eval → Out (Request × Eval)) (hk : KAgree e enc uo hasRefs ops pos bs offs k1 k2)
    (s : Eval) (hce : s.cfg.endian = e) (hcenc : s.cfg.encoding = enc) (r : OpResult) (m : Mach) (hi : INV m) :
    afterOpD D2 k2 s r m = afterOpD parseDec k1 s r m ∧
      ∀ q s', afterOpD parseDec k1 s r m = .ok (q, s') → GOOD s' := by
  unfold afterOpD
  cases r with
  | piece => exact hk _ ⟨hce, hcenc, hi⟩
  | incomplete =>
    obtain ⟨hi2, _⟩ := endOfExpression_inv (e := e) (enc := enc) (uo := uo) (hasRefs := hasRefs) (ops := ops) (pos := pos) (bs := bs) (offs := offs) m hi
    simp only
    cases hE : endOfExpression m with
    | mk b m2 =>
      rw [hE] at hi2
      simp only
      split
      · exact ⟨rfl, fun _ _ h => by cases h⟩
      · exact hk _ ⟨hce, hcenc, hi2⟩
  | complete loc =>
    obtain ⟨hag, hpost⟩ := afterComplete_agree hW s.cfg hce hcenc loc m hi
    simp only
    rw [hag]
    cases hA : afterCompleteD parseDec s.cfg loc m with
    | ok p =>
      obtain ⟨m3, x⟩ := p
      simp only [Out.bind_ok]
      exact hk _ ⟨hce, hcenc, hpost m3 x hA⟩
    | err er => exact ⟨rfl, fun _ _ h => by cases h⟩
    | panic w => exact ⟨rfl, fun _ _ h => by cases h⟩
    | diverge => exact ⟨rfl, fun _ _ h => by cases h⟩
  | waiting w rq =>
    refine ⟨rfl, ?_⟩
    intro q s' h
    simp only [Out.pure_eq, Out.ok.injEq, Prod.mk.injEq] at h
    rw [← h.2]
    exact ⟨hce, hcenc, hi⟩

theorem evalOne_agree (hW : Written e enc uo hasRefs ops pos bs fx offs) (c : Config)
    (hce : c.endian = e) (hcenc : c.encoding = enc) (m : Mach) (hi : INV m) (hne : m.pc ≠ []) :
    evaluateOneOperationD D2 c m = evaluateOneOperationD parseDec c m ∧
      ∀ r m', evaluateOneOperationD parseDec c m = .ok (r, m') → INV m' := by
  unfold evaluateOneOperationD
  rw [dec_agree hW c hce hcenc m hi.1 hne]
  exact ⟨rfl, fun r m' h => step_inv hW c hce hcenc m hi hne r m' h⟩

theorem loopBody_agree (hW : Written e enc uo hasRefs ops pos bs fx offs)
    (k1 k2 : Eval → Out (Request × Eval)) (hk : KAgree e enc uo hasRefs ops pos bs offs k1 k2) :
    KAgree e enc uo hasRefs ops pos bs offs (loopBodyD parseDec k1) (loopBodyD D2 k2) := by
  intro s ⟨hce, hcenc, hi⟩
  obtain ⟨hi2, hne2⟩ := endOfExpression_inv (e := e) (enc := enc) (uo := uo) (hasRefs := hasRefs) (ops := ops) (pos := pos) (bs := bs) (offs := offs) s.m hi
  unfold loopBodyD
  cases hE : endOfExpression s.m with
  | mk b m2 =>
    rw [hE] at hi2 hne2
    simp only at hi2 hne2
    cases b with
    | true =>
      simp only
      refine ⟨trivial, ?_⟩
      intro r s' h
      simp only [bind_eq_ok, Out.pure_eq, Out.ok.injEq, Prod.mk.injEq] at h
      obtain ⟨m3, hf, _, rfl⟩ := h
      exact ⟨hce, hcenc, finish_inv s.cfg m2 m3 hi2 hf⟩
    | false =>
      simp only
      have hne := hne2 rfl
      cases overLimit s.cfg.maxIterations s.iteration with
      | true => exact ⟨rfl, fun _ _ h => by cases h⟩
      | false =>
        simp only
        obtain ⟨hag, hpost⟩ := evalOne_agree hW s.cfg hce hcenc m2 hi2 hne
        rw [hag]
        cases hS : evaluateOneOperationD parseDec s.cfg m2 with
        | ok p =>
          obtain ⟨r, m3⟩ := p
          simp only [Out.bind_ok]
          exact afterOp_agree hW k1 k2 hk { s with m := m2, iteration := saturatingInc s.iteration, decodes := s.decodes + 1 } hce hcenc r m3 (hpost r m3 hS)
        | err er => exact ⟨rfl, fun _ _ h => by cases h⟩
        | panic w => exact ⟨rfl, fun _ _ h => by cases h⟩
        | diverge => exact ⟨rfl, fun _ _ h => by cases h⟩

theorem evaluateInternal_agree (hW : Written e enc uo hasRefs ops pos bs fx offs) :
    ∀ fuel, KAgree e enc uo hasRefs ops pos bs offs (evaluateInternalD parseDec fuel) (evaluateInternalD D2 fuel)
  | 0 => fun s _ => ⟨rfl, fun _ _ h => by cases h⟩
  | fuel + 1 => by
    simp only [evaluateInternalD]
    exact loopBody_agree hW _ _ (evaluateInternal_agree hW fuel)
end
end Gimli.WOp
