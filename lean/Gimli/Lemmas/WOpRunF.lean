import Gimli.Lemmas.WOpRunE
/-!
# C15: whole evaluation runs, part F — the as-built evaluator and the byte evaluator run alike
-/
set_option linter.unusedSimpArgs false
set_option linter.unusedVariables false
namespace Gimli.WOp
open Gimli.Op (Encoding)
open Gimli.Eval Gimli.BuiltEval
/-! ## the as-built evaluator and the byte evaluator run alike -/
section
variable {e : Endian} {enc : Encoding} {uo : UnitOffs} {hasRefs : Bool} {ops : List Operation}
  {pos : Nat} {bs : Bytes} {fx : List Fixup} {offs : List Nat}

local notation "GOOD" => Good e enc uo hasRefs ops pos bs offs
local notation "D2" => builtDec bs (listingOf e enc uo hasRefs ops pos offs)

theorem evaluate_agree (hW : Written e enc uo hasRefs ops pos bs fx offs) (fuel : Nat) (s : Eval) (hg : GOOD s) :
    evaluateD D2 fuel s = evaluateD parseDec fuel s ∧
      ∀ r s' x, evaluateD parseDec fuel s = (.ok (r, s'), x) → GOOD s' := by
  obtain ⟨hce, hcenc, hi⟩ := hg
  have hk := evaluateInternal_agree hW fuel
  -- the common tail `start`
  have hstart : ∀ s1 : Eval, GOOD s1 →
      (match evaluateInternalD D2 fuel s1 with
        | .ok (r, s') => ((.ok (r, s') : Out (Request × Eval)), s')
        | .err er => (.err er, { s1 with state := .error er })
        | .panic w => (.panic w, s1)
        | .diverge => (.diverge, s1)) =
      (match evaluateInternalD parseDec fuel s1 with
        | .ok (r, s') => ((.ok (r, s') : Out (Request × Eval)), s')
        | .err er => (.err er, { s1 with state := .error er })
        | .panic w => (.panic w, s1)
        | .diverge => (.diverge, s1)) ∧
      ∀ r s' x, (match evaluateInternalD parseDec fuel s1 with
        | .ok (r, s') => ((.ok (r, s') : Out (Request × Eval)), s')
        | .err er => (.err er, { s1 with state := .error er })
        | .panic w => (.panic w, s1)
        | .diverge => (.diverge, s1)) = (.ok (r, s'), x) → GOOD s' := by
    intro s1 hg1
    obtain ⟨h1, h2⟩ := hk s1 hg1
    rw [h1]
    refine ⟨rfl, ?_⟩
    intro r s' x h
    cases hE : evaluateInternalD parseDec fuel s1 with
    | ok p =>
      rw [hE] at h
      simp only [Prod.mk.injEq, Out.ok.injEq] at h
      obtain ⟨r0, s0⟩ := p
      simp only [Prod.mk.injEq] at h
      obtain ⟨⟨rfl, rfl⟩, _⟩ := h
      exact h2 _ _ hE
    | err er => rw [hE] at h; simp at h
    | panic w => rw [hE] at h; simp at h
    | diverge => rw [hE] at h; simp at h
  unfold evaluateD
  simp only
  cases hst : s.state with
  | start initial =>
    cases initial with
    | none => exact hstart _ ⟨hce, hcenc, hi⟩
    | some v =>
      simp only
      cases hp : push s.cfg (.generic v) s.m with
      | ok m1 =>
        have := (push_keeps s.cfg _ s.m s.m (same_refl _)).out m1 hp
        exact hstart _ ⟨hce, hcenc, inv_of_same this hi⟩
      | err er => exact ⟨rfl, fun _ _ _ h => by simp at h⟩
      | panic w => exact ⟨rfl, fun _ _ _ h => by simp at h⟩
      | diverge => exact ⟨rfl, fun _ _ _ h => by simp at h⟩
  | ready => exact hstart _ ⟨hce, hcenc, hi⟩
  | error er => exact ⟨rfl, fun _ _ _ h => by simp at h⟩
  | complete =>
    refine ⟨rfl, ?_⟩
    intro r s' x h
    simp only [Prod.mk.injEq, Out.ok.injEq] at h
    rw [← h.1.2]; exact ⟨hce, hcenc, hi⟩
  | waiting w => exact ⟨rfl, fun _ _ _ h => by simp at h⟩

theorem resume_agree (hW : Written e enc uo hasRefs ops pos bs fx offs) (fuel : Nat) (a : Answer) (s : Eval) (hg : GOOD s) :
    resumeD D2 fuel a s = resumeD parseDec fuel a s ∧
      ∀ r s', resumeD parseDec fuel a s = .ok (r, s') → GOOD s' := by
  obtain ⟨hce, hcenc, hi⟩ := hg
  have hk := evaluateInternal_agree hW fuel
  unfold resumeD
  cases hst : s.state with
  | waiting w =>
    simp only
    cases hA : applyAnswer s.cfg w a s.m with
    | ok m1 =>
      simp only [Out.bind_ok]
      exact hk _ ⟨hce, hcenc, applyAnswer_inv s.cfg w a s.m m1 hi hA⟩
    | err er => exact ⟨rfl, fun _ _ h => by cases h⟩
    | panic w => exact ⟨rfl, fun _ _ h => by cases h⟩
    | diverge => exact ⟨rfl, fun _ _ h => by cases h⟩
  | start i => exact ⟨rfl, fun _ _ h => by cases h⟩
  | ready => exact ⟨rfl, fun _ _ h => by cases h⟩
  | error er => exact ⟨rfl, fun _ _ h => by cases h⟩
  | complete => exact ⟨rfl, fun _ _ h => by cases h⟩

theorem runFrom_agree (hW : Written e enc uo hasRefs ops pos bs fx offs) (fuel : Nat) :
    ∀ (toks : List Tok) (r : Request) (s : Eval), GOOD s →
      runFromD D2 fuel toks r s = runFromD parseDec fuel toks r s
  | [], r, s, _ => by cases r <;> rfl
  | t :: toks, r, s, hg => by
    obtain ⟨h1, h2⟩ := resume_agree hW fuel (answerFor r t) s hg
    cases r with
    | complete => rfl
    | _ =>
      simp only [runFromD] at h1 h2 ⊢
      rw [h1]
      cases hR : resumeD parseDec fuel (answerFor _ t) s with
      | ok p =>
        obtain ⟨r', s'⟩ := p
        simp only [runFrom_agree hW fuel toks r' s' (h2 r' s' hR)]
      | err _ => rfl
      | panic _ => rfl
      | diverge => rfl

theorem run_agree (hW : Written e enc uo hasRefs ops pos bs fx offs) (fuel : Nat) (toks : List Tok)
    (s : Eval) (hg : GOOD s) : runD D2 fuel toks s = runD parseDec fuel toks s := by
  obtain ⟨h1, h2⟩ := evaluate_agree hW fuel s hg
  simp only [runD, h1]
  cases hE : evaluateD parseDec fuel s with
  | mk o x =>
    cases o with
    | ok p => obtain ⟨r, s'⟩ := p; exact runFrom_agree hW fuel toks r s' (h2 r s' x hE)
    | err _ => rfl
    | panic _ => rfl
    | diverge => rfl
end
end Gimli.WOp
