import Gimli.Model.CfiEntry
import Gimli.Lemmas.Ints
import Gimli.Props.C01
import Gimli.Spec.Frame
/-!
# Helper lemmas for C05 (CFI entries, pointers, lookup)
-/
namespace Gimli.CfiEntry
open Gimli Gimli.Ints Gimli.Spec.Frame

/-- index-level mirror of the `while len > 1` loop of `EhHdrTable::lookup` -/
def bsearch (key : Nat → Nat) (a : Nat) : Nat → Nat → Nat → Option Nat
  | 0, lo, len => if len > 1 then none else some lo
  | fuel + 1, lo, len =>
    if len > 1 then
      if key (lo + len / 2) = a then some (lo + len / 2)
      else if key (lo + len / 2) < a then bsearch key a fuel (lo + len / 2) (len - len / 2)
      else bsearch key a fuel lo (len / 2)
    else some lo

theorem bsearch_correct (key : Nat → Nat) (a n : Nat)
    (hsorted : ∀ i j, i ≤ j → j < n → key i ≤ key j) :
    ∀ fuel lo len, 1 ≤ len → lo + len ≤ n → len ≤ 2 ^ fuel →
      (∀ j, lo + len ≤ j → j < n → a < key j) → (lo = 0 ∨ key lo ≤ a) →
      ∃ idx, bsearch key a fuel lo len = some idx ∧ idx < n ∧
        ((key idx ≤ a ∧ ∀ j, j < n → key j ≤ a → key j ≤ key idx) ∨
         (idx = 0 ∧ ∀ j, j < n → a < key j)) := by
  intro fuel
  induction fuel with
  | zero =>
    intro lo len h1 hn hf hhi hlo
    have : len = 1 := by simp at hf; omega
    subst this
    refine ⟨lo, by simp [bsearch], by omega, ?_⟩
    rcases hlo with h0 | hle
    · by_cases hk : key lo ≤ a
      · left; refine ⟨hk, ?_⟩
        intro j hj hja
        by_cases hjl : j ≤ lo
        · exact hsorted j lo hjl (by omega)
        · have := hhi j (by omega) hj; omega
      · right; refine ⟨h0, ?_⟩
        intro j hj
        have := hsorted lo j (by omega) hj
        omega
    · left; refine ⟨hle, ?_⟩
      intro j hj hja
      by_cases hjl : j ≤ lo
      · exact hsorted j lo hjl (by omega)
      · have := hhi j (by omega) hj; omega
  | succ fuel ih =>
    intro lo len h1 hn hf hhi hlo
    rw [bsearch]
    by_cases hlen : len > 1
    · simp only [hlen, if_true]
      have hp : lo + len / 2 < n := by omega
      by_cases heq : key (lo + len / 2) = a
      · simp only [heq, if_true]
        refine ⟨lo + len / 2, rfl, hp, Or.inl ⟨by omega, ?_⟩⟩
        intro j hj hja; omega
      · simp only [heq, if_false]
        by_cases hlt : key (lo + len / 2) < a
        · simp only [hlt, if_true]
          apply ih (lo + len / 2) (len - len / 2) (by omega) (by omega)
          · rw [Nat.pow_succ] at hf; omega
          · intro j hj1 hj2; exact hhi j (by omega) hj2
          · right; omega
        · simp only [hlt, if_false]
          apply ih lo (len / 2) (by omega) (by omega)
          · rw [Nat.pow_succ] at hf; omega
          · intro j hj1 hj2
            have := hsorted (lo + len / 2) j (by omega) hj2
            omega
          · exact hlo
    · have : len = 1 := by omega
      subst this
      simp only [show ¬ (1 > 1) by omega, if_false]
      refine ⟨lo, rfl, by omega, ?_⟩
      rcases hlo with h0 | hle
      · by_cases hk : key lo ≤ a
        · left; refine ⟨hk, ?_⟩
          intro j hj hja
          by_cases hjl : j ≤ lo
          · exact hsorted j lo hjl (by omega)
          · have := hhi j (by omega) hj; omega
        · right; refine ⟨h0, ?_⟩
          intro j hj
          have := hsorted lo j (by omega) hj
          omega
      · left; refine ⟨hle, ?_⟩
        intro j hj hja
        by_cases hjl : j ≤ lo
        · exact hsorted j lo hjl (by omega)
        · have := hhi j (by omega) hj; omega

/-! ### fixed-size table encodings: decoding is local to the entry's bytes -/

/-- `parse_encoded_value` result for the 2/4/8-byte formats from the raw positional value -/
def fixedVal (enc raw : Nat) : Nat :=
  if peFormat enc = 0x0a then sext 2 raw
  else if peFormat enc = 0x0b then sext 4 raw
  else if peFormat enc = 0x0c then sext 8 raw
  else raw

theorem lift_readFixed (e : Endian) (k off : Nat) (bs : Bytes) (hl : k ≤ bs.length) :
    (⟨off, bs⟩ : Rd).lift (readFixed e k) = .ok (fromBytes e (bs.take k), ⟨off + k, bs.drop k⟩) := by
  simp only [Rd.lift, readFixed_eq, hl, if_true, Out.bind_ok, Out.pure_eq, List.length_drop]
  congr 3
  omega

theorem pev_fixed (e : Endian) (enc asz size off : Nat) (bs : Bytes)
    (henc : tableEntrySize enc = some size) (hl : size ≤ bs.length) :
    parseEncodedValue e enc asz ⟨off, bs⟩ =
      .ok (fixedVal enc (fromBytes e (bs.take size)), ⟨off + size, bs.drop size⟩) := by
  unfold tableEntrySize at henc
  simp only at henc
  unfold parseEncodedValue fixedVal
  split at henc
  · rename_i hf
    have : size = 2 := by simpa using henc.symm
    subst this
    rcases hf with hf | hf <;> simp [hf, lift_readFixed _ _ _ _ hl]
  · split at henc
    · rename_i hf
      have : size = 4 := by simpa using henc.symm
      subst this
      rcases hf with hf | hf <;> simp [hf, lift_readFixed _ _ _ _ hl]
    · split at henc
      · rename_i hf
        have : size = 8 := by simpa using henc.symm
        subst this
        rcases hf with hf | hf <;> simp [hf, lift_readFixed _ _ _ _ hl]
      · simp at henc

/-- the pointer decoded at section offset `off` from the bytes `bs` -/
def ptrAt (m : Mode) (e : Endian) (enc : Nat) (p : PeParams) (off : Nat) (bs : Bytes) : Out Ptr := do
  let (q, _) ← parseEncodedPointer m e enc p ⟨off, bs⟩
  pure q

theorem pep_fixed (m : Mode) (e : Endian) (enc : Nat) (p : PeParams) (size off : Nat) (bs : Bytes)
    (henc : tableEntrySize enc = some size) (hl : size ≤ bs.length) :
    parseEncodedPointer m e enc p ⟨off, bs⟩ =
      (do let q ← ptrAt m e enc p off (bs.take size)
          pure (q, (⟨off + size, bs.drop size⟩ : Rd))) := by
  have hl' : size ≤ (bs.take size).length := by simp [List.length_take]; omega
  unfold ptrAt parseEncodedPointer
  split
  · rfl
  · split
    · rfl
    · simp only [pev_fixed e enc p.asz size off _ henc hl, pev_fixed e enc p.asz size off _ henc hl',
        List.take_take, Nat.min_self]
      cases pointerBase m enc p off with
      | ok b =>
        simp only [Out.bind_ok]
        cases wrappingAddSized m b (fixedVal enc (fromBytes e (List.take size bs))) p.asz <;> rfl
      | err x => rfl
      | panic w => rfl
      | diverge => rfl


/-- the first `cnt` bytes of the view `bs` are the `cnt` bytes of `tbl` from position `k` -/
def Agree (bs tbl : Bytes) (k cnt : Nat) : Prop :=
  cnt ≤ bs.length ∧ bs.take cnt = (tbl.drop k).take cnt

theorem agree_mono {bs tbl : Bytes} {k cnt c : Nat} (h : Agree bs tbl k cnt) (hc : c ≤ cnt) :
    Agree bs tbl k c := by
  refine ⟨by have := h.1; omega, ?_⟩
  have := congrArg (List.take c) h.2
  simpa [List.take_take, Nat.min_eq_left hc] using this

theorem agree_drop {bs tbl : Bytes} {k cnt d : Nat} (h : Agree bs tbl k cnt) (hd : d ≤ cnt) :
    Agree (bs.drop d) tbl (k + d) (cnt - d) := by
  refine ⟨by have := h.1; simp [List.length_drop]; omega, ?_⟩
  rw [List.take_drop, show d + (cnt - d) = cnt by omega, h.2, List.drop_take, List.drop_drop]

theorem agree_take {bs tbl : Bytes} {k cnt d : Nat} (h : Agree bs tbl k cnt) (hd : d ≤ cnt) :
    Agree (bs.take d) tbl k d := by
  have h' := agree_mono h hd
  refine ⟨by have := h'.1; simp [List.length_take]; omega, ?_⟩
  rw [List.take_take, Nat.min_self, h'.2]

theorem tableEntrySize_cases {enc size : Nat} (h : tableEntrySize enc = some size) :
    size = 2 ∨ size = 4 ∨ size = 8 := by
  unfold tableEntrySize at h
  simp only at h
  repeat' split at h
  all_goals simp at h
  all_goals omega

/-- initial-location field of row `i` of a table starting at section offset `T0` -/
def rowKey (m : Mode) (e : Endian) (enc : Nat) (p : PeParams) (T0 : Nat) (tbl : Bytes) (size i : Nat) : Out Ptr :=
  ptrAt m e enc p (T0 + i * (size * 2)) ((tbl.drop (i * (size * 2))).take size)

/-- FDE-address field of row `i` -/
def rowVal (m : Mode) (e : Endian) (enc : Nat) (p : PeParams) (T0 : Nat) (tbl : Bytes) (size i : Nat) : Out Ptr :=
  ptrAt m e enc p (T0 + i * (size * 2) + size) ((tbl.drop (i * (size * 2) + size)).take size)

theorem lookupLoop_refines (m : Mode) (e : Endian) (enc : Nat) (p : PeParams) (size a T0 n : Nat)
    (tbl : Bytes) (key : Nat → Nat)
    (henc : tableEntrySize enc = some size)
    (htbl : n * (size * 2) ≤ tbl.length) (hbig : tbl.length < 2 ^ 64)
    (hkey : ∀ i, i < n → rowKey m e enc p T0 tbl size i = .ok (.direct (key i))) :
    ∀ fuel lo len (r : Rd), 1 ≤ len → lo + len ≤ n → len ≤ 2 ^ fuel →
      r.off = T0 + lo * (size * 2) → Agree r.bs tbl (lo * (size * 2)) (len * (size * 2)) →
      ∃ idx r', bsearch key a fuel lo len = some idx ∧
        lookupLoop m e enc p (size * 2) a fuel len r = .ok r' ∧
        r'.off = T0 + idx * (size * 2) ∧ Agree r'.bs tbl (idx * (size * 2)) (size * 2) := by
  have hsz := tableEntrySize_cases henc
  intro fuel
  induction fuel with
  | zero =>
    intro lo len r h1 hn hf hoff hag
    have : len = 1 := by simp at hf; omega
    subst this
    refine ⟨lo, r, by simp [bsearch], by simp [lookupLoop], hoff, ?_⟩
    simpa using hag
  | succ fuel ih =>
    intro lo len r h1 hn hf hoff hag
    rw [bsearch, lookupLoop]
    by_cases hlen : len > 1
    · simp only [hlen, if_true]
      have hmul : len / 2 * (size * 2) ≤ len * (size * 2) := Nat.mul_le_mul_right _ (Nat.div_le_self _ _)
      have hlen_n : len * (size * 2) ≤ n * (size * 2) := Nat.mul_le_mul_right _ (by omega)
      have hoffs : ¬ (len / 2 * (size * 2) ≥ 2 ^ 64) := by omega
      simp only [hoffs, if_false]
      have hsplit : len / 2 * (size * 2) ≤ r.bs.length := by have := hag.1; omega
      simp only [Rd.split, hsplit, if_true, Out.bind_ok]
      have htail := agree_drop hag hmul
      rw [← Nat.add_mul, ← Nat.sub_mul] at htail
      have hhead := agree_take hag hmul
      have h1' : 1 ≤ len - len / 2 := by omega
      have hge : size * 2 ≤ (len - len / 2) * (size * 2) := by
        calc size * 2 = 1 * (size * 2) := by omega
          _ ≤ (len - len / 2) * (size * 2) := Nat.mul_le_mul_right _ h1'
      have hrow := agree_mono htail (show size ≤ (len - len / 2) * (size * 2) by omega)
      rw [pep_fixed m e enc p size _ _ henc hrow.1, hrow.2]
      have hk := hkey (lo + len / 2) (by omega)
      unfold rowKey at hk
      rw [hoff, Nat.add_assoc, ← Nat.add_mul, hk]
      simp only [Out.bind_ok, Out.pure_eq, Ptr.toDirect]
      by_cases heq : key (lo + len / 2) = a
      · simp only [heq, if_true]
        exact ⟨lo + len / 2, _, rfl, rfl, rfl, agree_mono htail hge⟩
      · simp only [heq, if_false]
        by_cases hlt : key (lo + len / 2) < a
        · simp only [hlt, if_true]
          exact ih (lo + len / 2) (len - len / 2) _ h1' (by omega) (by rw [Nat.pow_succ] at hf; omega) rfl htail
        · simp only [hlt, if_false]
          exact ih lo (len / 2) _ (by omega) (by omega) (by rw [Nat.pow_succ] at hf; omega) rfl hhead
    · have : len = 1 := by omega
      subst this
      simp only [show ¬ (1 > 1) by omega, if_false]
      exact ⟨lo, r, rfl, rfl, hoff, by simpa using hag⟩


theorem bind_pair_fst {α β : Type} (x : Out α) (b : β) :
    (do let (p, _) ← (do let q ← x; pure (q, b) : Out (α × β)); pure p) = x := by
  cases x <;> rfl

theorem lookup_correct (m : Mode) (e : Endian) (h : Hdr) (bases : Bases) (a size : Nat) (key : Nat → Nat)
    (henc : tableEntrySize h.tableEnc = some size)
    (hn : 1 ≤ h.fdeCount)
    (htbl : h.fdeCount * (size * 2) ≤ h.table.bs.length) (hbig : h.table.bs.length < 2 ^ 64)
    (hkey : ∀ i, i < h.fdeCount →
      rowKey m e h.tableEnc (h.params bases) h.table.off h.table.bs size i = .ok (.direct (key i)))
    (hsorted : ∀ i j, i ≤ j → j < h.fdeCount → key i ≤ key j) :
    ∃ idx, idx < h.fdeCount ∧
      lookup m e h bases a = rowVal m e h.tableEnc (h.params bases) h.table.off h.table.bs size idx ∧
      ((key idx ≤ a ∧ ∀ j, j < h.fdeCount → key j ≤ a → key j ≤ key idx) ∨
       (idx = 0 ∧ ∀ j, j < h.fdeCount → a < key j)) := by
  have hsz := tableEntrySize_cases henc
  have hn64 : h.fdeCount ≤ 2 ^ 64 := by
    have : h.fdeCount * 1 ≤ h.fdeCount * (size * 2) := Nat.mul_le_mul_left _ (by omega)
    omega
  obtain ⟨idx, r', hb, hl, hoff, hag⟩ :=
    lookupLoop_refines m e h.tableEnc (h.params bases) size a h.table.off h.fdeCount h.table.bs key henc
      htbl hbig hkey 64 0 h.fdeCount h.table hn (by omega) hn64 (by simp) ⟨by simpa using htbl, by simp⟩
  obtain ⟨idx', hb', hlt, hprop⟩ :=
    bsearch_correct key a h.fdeCount hsorted 64 0 h.fdeCount hn (by omega) hn64
      (by intro j h1 h2; omega) (Or.inl rfl)
  rw [hb] at hb'
  cases hb'
  refine ⟨idx, hlt, ?_, hprop⟩
  unfold lookup
  simp only [henc, hl, Out.bind_ok]
  have hskip : size ≤ r'.bs.length := by have := hag.1; omega
  simp only [Rd.skip, hskip, if_true, Out.bind_ok]
  have hd := agree_drop hag (show size ≤ size * 2 by omega)
  have hd' := agree_mono hd (show size ≤ size * 2 - size by omega)
  rw [pep_fixed m e h.tableEnc (h.params bases) size _ _ henc hd'.1, hd'.2, hoff]
  unfold rowVal
  exact bind_pair_fst _ _


/-! ### totality -/

theorem normal_bind {α β : Type} {x : Out α} {f : α → Out β} (hx : x.Normal)
    (hf : ∀ a, x = .ok a → (f a).Normal) : (x >>= f).Normal := by
  cases x with
  | ok a => exact hf a rfl
  | err e => simp [Out.Normal]
  | panic w => simp [Out.Normal] at hx
  | diverge => simp [Out.Normal] at hx

theorem lift_normal {α : Type} (f : Bytes → Out (α × Bytes)) (r : Rd) (hf : (f r.bs).Normal) :
    (r.lift f).Normal := by
  unfold Rd.lift
  apply normal_bind hf
  intro a _
  simp [Out.Normal]

/-- the address sizes for which `ones_sized` does not overflow, or a build without overflow checks -/
def SizeOk (m : Mode) (size : Nat) : Prop := (1 ≤ size ∧ size ≤ 8) ∨ m = .release

theorem wrappingAddSized_normal (m : Mode) (a len size : Nat) (h : SizeOk m size) :
    (wrappingAddSized m a len size).Normal := by
  unfold wrappingAddSized
  split
  · simp [Out.Normal]
  · rename_i hs
    rcases h with h | h
    · exact absurd h hs
    · subst h; simp [Out.Normal]

theorem validFormat {enc : Nat} (hv : isValidEncoding enc = true) (ho : enc ≠ 0xff) :
    let f := peFormat enc
    (f = 0 ∨ f = 1 ∨ f = 2 ∨ f = 3 ∨ f = 4 ∨ f = 9 ∨ f = 0x0a ∨ f = 0x0b ∨ f = 0x0c) ∧
    (let a := peApplication enc
     a = 0 ∨ a = 0x10 ∨ a = 0x20 ∨ a = 0x30 ∨ a = 0x40 ∨ a = 0x50) := by
  unfold isValidEncoding peAbsent at hv
  simp only [ho, decide_false, Bool.false_eq_true, if_false] at hv
  split at hv
  · simp at hv
  · rename_i hf
    split at hv
    · simp at hv
    · rename_i ha
      exact ⟨Classical.not_not.mp hf, Classical.not_not.mp ha⟩

theorem pev_normal (e : Endian) (enc asz : Nat) (r : Rd)
    (hf : let f := peFormat enc
          f = 0 ∨ f = 1 ∨ f = 2 ∨ f = 3 ∨ f = 4 ∨ f = 9 ∨ f = 0x0a ∨ f = 0x0b ∨ f = 0x0c) :
    (parseEncodedValue e enc asz r).Normal := by
  unfold parseEncodedValue
  simp only at hf ⊢
  have hU := Props.C01.uleb_total r.bs
  have hS := Props.C01.sleb_total r.bs
  have hF := fun n => Props.C01.fixed_total e n r.bs
  have hA := Props.C01.address_total e asz r.bs
  repeat' split
  all_goals first
    | exact lift_normal _ _ (by assumption)
    | exact lift_normal _ _ (hF _)
    | (apply normal_bind (lift_normal _ _ (by first | assumption | exact hF _)); intro a _; simp [Out.Normal])
    | omega

theorem pointerBase_normal (m : Mode) (enc : Nat) (p : PeParams) (off : Nat) (hs : SizeOk m p.asz)
    (ha : let a := peApplication enc
          a = 0 ∨ a = 0x10 ∨ a = 0x20 ∨ a = 0x30 ∨ a = 0x40 ∨ a = 0x50) :
    (pointerBase m enc p off).Normal := by
  unfold pointerBase
  simp only at ha ⊢
  repeat' split
  all_goals first
    | exact wrappingAddSized_normal _ _ _ _ hs
    | omega
    | simp [Out.Normal]

/-- `parse_encoded_pointer` returns a pointer or an error for every encoding byte, base set, offset
and input, provided the address size is one `ones_sized` can handle (1..8) — or overflow checks
are off -/
theorem pep_normal (m : Mode) (e : Endian) (enc : Nat) (p : PeParams) (r : Rd) (hs : SizeOk m p.asz) :
    (parseEncodedPointer m e enc p r).Normal := by
  unfold parseEncodedPointer
  split
  · simp [Out.Normal]
  · rename_i hv
    split
    · simp [Out.Normal]
    · rename_i ho
      have hv' : isValidEncoding enc = true := by simpa using hv
      obtain ⟨hf, ha⟩ := validFormat hv' ho
      apply normal_bind (pointerBase_normal m enc p r.off hs ha)
      intro b _
      apply normal_bind (pev_normal e enc p.asz r hf)
      intro ⟨v, r'⟩ _
      apply normal_bind (wrappingAddSized_normal _ _ _ _ hs)
      intro w _
      simp [Out.Normal]

theorem split_normal (n : Nat) (r : Rd) : (r.split n).Normal := by
  unfold Rd.split; split <;> simp [Out.Normal]

theorem skip_normal (n : Nat) (r : Rd) : (r.skip n).Normal := by
  unfold Rd.skip; split <;> simp [Out.Normal]

theorem toDirect_normal (p : Ptr) : p.toDirect.Normal := by
  cases p <;> simp [Ptr.toDirect, Out.Normal]

/-- the binary search needs at most `k` rounds for a table of `len ≤ 2^k` rows, on any bytes -/
theorem lookupLoop_normal (m : Mode) (e : Endian) (enc : Nat) (p : PeParams) (rowSize a : Nat)
    (hs : SizeOk m p.asz) :
    ∀ fuel len (r : Rd), len ≤ 2 ^ fuel → (lookupLoop m e enc p rowSize a fuel len r).Normal := by
  intro fuel
  induction fuel with
  | zero =>
    intro len r hf
    have : ¬ len > 1 := by simp at hf; omega
    simp [lookupLoop, this, Out.Normal]
  | succ fuel ih =>
    intro len r hf
    rw [lookupLoop]
    split
    · dsimp only
      split
      · simp [Out.Normal]
      · apply normal_bind (split_normal _ _)
        intro ⟨head, tail⟩ _
        apply normal_bind (pep_normal m e enc p tail hs)
        intro ⟨pv, r'⟩ _
        apply normal_bind (toDirect_normal _)
        intro pivot _
        simp only
        split
        · simp [Out.Normal]
        · split
          · exact ih _ _ (by rw [Nat.pow_succ] at hf; omega)
          · exact ih _ _ (by rw [Nat.pow_succ] at hf; omega)
    · simp [Out.Normal]

theorem lookup_normal (m : Mode) (e : Endian) (h : Hdr) (bases : Bases) (a : Nat)
    (hs : SizeOk m h.asz) (hc : h.fdeCount < 2 ^ 64) : (lookup m e h bases a).Normal := by
  unfold lookup
  split
  · simp [Out.Normal]
  · apply normal_bind (lookupLoop_normal m e _ _ _ a hs 64 _ _ (by omega))
    intro r _
    apply normal_bind (skip_normal _ _)
    intro r' _
    apply normal_bind (pep_normal m e _ _ r' hs)
    intro ⟨q, _⟩ _
    simp [Out.Normal]


/-! ### linear search = scan of the iterated entries -/

/-- what `fde_for_address` decides, as a function of what the iterator yields -/
def scan (c : Cfg) (bases : Bases) (sec : Bytes) (a : Nat) : List Entry → Out Unit → Out Fde
  | [], fin =>
    match fin with
    | .ok _ => .err .rNoUnwindInfoForAddress
    | .err er => .err er
    | .panic w => .panic w
    | .diverge => .diverge
  | .cie _ :: l, fin => scan c bases sec a l fin
  | .fde p :: l, fin => do
    let f ← parseRest c bases sec p
    let ct ← f.contains c.m a
    if ct then pure f else scan c bases sec a l fin

theorem fdeForAddressLoop_eq_scan (c : Cfg) (bases : Bases) (sec : Bytes) (a : Nat) :
    ∀ fuel (r : Rd), fdeForAddressLoop c bases sec a fuel r =
      scan c bases sec a (entries c bases fuel r).1 (entries c bases fuel r).2 := by
  intro fuel
  induction fuel with
  | zero => intro r; simp [fdeForAddressLoop, entries, scan]
  | succ fuel ih =>
    intro r
    rw [fdeForAddressLoop, entries]
    cases hnx : next c bases (r.bs.length + 1) r with
    | ok x =>
      obtain ⟨oe, r'⟩ := x
      cases oe with
      | none => simp [scan]
      | some en =>
        cases en with
        | cie ci => simp only [scan]; exact ih r'
        | fde p => simp only [scan]; rw [ih r']
    | err er => simp [scan]
    | panic w => simp [scan]
    | diverge => simp [scan]

/-- every FDE the iterator yields, fully parsed (in section order) -/
def parseAll (c : Cfg) (bases : Bases) (sec : Bytes) : List Entry → Out (List Fde)
  | [] => .ok []
  | .cie _ :: l => parseAll c bases sec l
  | .fde p :: l => do
    let f ← parseRest c bases sec p
    let fs ← parseAll c bases sec l
    pure (f :: fs)

/-- the FDE's range does not run into the top of its address space -/
def NoWrap (f : Fde) : Prop := 1 ≤ f.cie.asz ∧ f.cie.asz ≤ 8 ∧ f.initial + f.range < 2 ^ (8 * f.cie.asz)

theorem contains_eq_covers (m : Mode) (f : Fde) (a : Nat) (h : NoWrap f) :
    f.contains m a = .ok (decide (Spec.Frame.covers f.initial f.range a)) := by
  obtain ⟨h1, h8, hlt⟩ := h
  have hp : 2 ^ (8 * f.cie.asz) ≤ 2 ^ 64 := Nat.pow_le_pow_right (by omega) (by omega)
  have hend : wrappingAddSized m f.initial f.range f.cie.asz = .ok (f.initial + f.range) := by
    unfold wrappingAddSized
    rw [if_pos ⟨h1, h8⟩, Nat.mod_eq_of_lt (a := f.initial + f.range) (b := 2 ^ 64) (by omega), Nat.mod_eq_of_lt hlt]
  unfold Fde.contains Fde.endAddress
  rw [hend]
  by_cases hi : f.initial ≤ a
  · by_cases ha : a < f.initial + f.range <;> simp [hi, ha, Spec.Frame.covers]
  · simp [hi, Spec.Frame.covers]

theorem scan_eq_find (c : Cfg) (bases : Bases) (sec : Bytes) (a : Nat) :
    ∀ (l : List Entry) (fs : List Fde), parseAll c bases sec l = .ok fs → (∀ f, f ∈ fs → NoWrap f) →
      scan c bases sec a l (.ok ()) =
        match fs.find? (fun f => decide (Spec.Frame.covers f.initial f.range a)) with
        | some f => .ok f
        | none => .err .rNoUnwindInfoForAddress := by
  intro l
  induction l with
  | nil => intro fs h _; simp [parseAll] at h; subst h; simp [scan]
  | cons en l ih =>
    intro fs h hw
    cases en with
    | cie ci => simp only [parseAll] at h; simp only [scan]; exact ih fs h hw
    | fde p =>
      simp only [parseAll] at h
      cases hp : parseRest c bases sec p with
      | ok f =>
        rw [hp] at h
        simp only [Out.bind_ok] at h
        cases hr : parseAll c bases sec l with
        | ok fs' =>
          rw [hr] at h
          simp only [Out.bind_ok, Out.pure_eq, Out.ok.injEq] at h
          subst h
          simp only [scan, hp, Out.bind_ok]
          rw [contains_eq_covers c.m f a (hw f (by simp))]
          simp only [Out.bind_ok, List.find?_cons]
          by_cases hc : Spec.Frame.covers f.initial f.range a
          · simp [hc]
          · simp only [hc, decide_false, Bool.false_eq_true, if_false]
            exact ih fs' hr (fun g hg => hw g (by simp [hg]))
        | err x => rw [hr] at h; simp at h
        | panic w => rw [hr] at h; simp at h
        | diverge => rw [hr] at h; simp at h
      | err x => rw [hp] at h; simp at h
      | panic w => rw [hp] at h; simp at h
      | diverge => rw [hp] at h; simp at h


/-! ### `parse_encoded_pointer` = base selection + operand + wrapping add -/

theorem wrappingAddSized_ok (m : Mode) (a len size : Nat) (h1 : 1 ≤ size) (h8 : size ≤ 8) :
    wrappingAddSized m a len size = .ok ((a + len) % 2 ^ 64 % 2 ^ (8 * size)) := by
  unfold wrappingAddSized; rw [if_pos ⟨h1, h8⟩]

theorem pep_semantics (m : Mode) (e : Endian) (enc : Nat) (p : PeParams) (r : Rd)
    (hv : isValidEncoding enc = true) (ho : enc ≠ 0xff) (hal : peApplication enc ≠ 0x50)
    (h1 : 1 ≤ p.asz) (h8 : p.asz ≤ 8) :
    parseEncodedPointer m e enc p r =
      (match neededBase enc p r.off with
      | none => .err (missingBaseErr enc)
      | some b => (parseEncodedValue e enc p.asz r >>= fun xr =>
          pure (Ptr.new enc ((b + xr.1) % 2 ^ 64 % 2 ^ (8 * p.asz)), xr.2))) := by
  obtain ⟨_, ha⟩ := validFormat hv ho
  simp only at ha
  unfold parseEncodedPointer
  rw [if_neg (by simp [hv]), if_neg ho]
  unfold pointerBase neededBase missingBaseErr
  simp only [wrappingAddSized_ok m _ _ _ h1 h8]
  rcases ha with ha | ha | ha | ha | ha | ha
  · simp only [ha]
    simp only [Out.bind_ok, if_true, Nat.zero_add]
  · simp only [ha]
    cases p.bases.sect <;> simp
    all_goals rfl
  · simp only [ha]
    cases p.bases.text <;> simp
    all_goals rfl
  · simp only [ha]
    cases p.bases.data <;> simp
    all_goals rfl
  · simp only [ha]
    cases p.funcBase <;> simp
    all_goals rfl
  · exact absurd ha hal


theorem lift_ok {α : Type} (f : Bytes → Out (α × Bytes)) (off : Nat) (pre rest : Bytes) (v : α)
    (h : f (pre ++ rest) = .ok (v, rest)) :
    (⟨off, pre ++ rest⟩ : Rd).lift f = .ok (v, ⟨off + pre.length, rest⟩) := by
  simp only [Rd.lift, h, Out.bind_ok, Out.pure_eq, List.length_append]
  congr 3
  omega

theorem sext8 (x : Nat) (hx : x < 2 ^ 64) : sext 8 x = x := by
  unfold sext Ints.toSigned Leb.ofI64
  split <;> omega

theorem pev_roundtrip (e : Endian) (enc asz x off : Nat) (bytes rest : Bytes)
    (h : encodeOperand e enc asz x = some bytes) :
    parseEncodedValue e enc asz ⟨off, bytes ++ rest⟩ = .ok (x, ⟨off + bytes.length, rest⟩) := by
  unfold encodeOperand at h
  unfold parseEncodedValue
  simp only at h ⊢
  split at h
  · -- absptr
    rename_i hf
    split at h
    · rename_i hc
      simp only [Option.some.injEq] at h
      subst h
      simp only [hf, if_true]
      apply lift_ok
      unfold readAddress
      rw [if_pos hc.1]
      exact readFixed_toBytes e asz x rest (by rw [pow256]; exact hc.2)
    · simp at h
  · split at h
    · -- uleb128
      rename_i hf0 hf
      split at h
      · rename_i hc
        simp only [Option.some.injEq] at h
        subst h
        simp only [hf, if_true]
        apply lift_ok
        exact Leb.unsigned_roundtrip x hc rest
      · simp at h
    · split at h
      · rename_i hf0 hf1 hf
        split at h
        · rename_i hc
          simp only [Option.some.injEq] at h
          subst h
          simp only [hf, if_true]
          simp only [show ¬ (2 = 0) by omega, show ¬ (2 = 1) by omega, if_false]
          apply lift_ok
          exact readFixed_toBytes e 2 x rest (by rw [pow256]; exact hc)
        · simp at h
      · split at h
        · rename_i hf0 hf1 hf2 hf
          split at h
          · rename_i hc
            simp only [Option.some.injEq] at h
            subst h
            simp only [hf, show ¬ (3 = 0) by omega, show ¬ (3 = 1) by omega, show ¬ (3 = 2) by omega,
              if_true, if_false]
            apply lift_ok
            exact readFixed_toBytes e 4 x rest (by rw [pow256]; exact hc)
          · simp at h
        · split at h
          · rename_i hf0 hf1 hf2 hf3 hf
            split at h
            · rename_i hc
              simp only [Option.some.injEq] at h
              subst h
              simp only [hf, show ¬ (4 = 0) by omega, show ¬ (4 = 1) by omega, show ¬ (4 = 2) by omega,
                show ¬ (4 = 3) by omega, if_true, if_false]
              apply lift_ok
              exact readFixed_toBytes e 8 x rest (by rw [pow256]; exact hc)
            · simp at h
          · split at h
            · rename_i hf0 hf1 hf2 hf3 hf4 hf
              split at h
              · rename_i hc
                simp only [Option.some.injEq] at h
                subst h
                simp only [hf, show ¬ (10 = 0) by omega, show ¬ (10 = 1) by omega, show ¬ (10 = 2) by omega,
                  show ¬ (10 = 3) by omega, show ¬ (10 = 4) by omega, show ¬ (10 = 9) by omega, if_true, if_false]
                rw [lift_ok _ _ _ _ _ (readFixed_toBytes e 2 (x % 2 ^ 16) rest
                  (by rw [pow256]; exact Nat.mod_lt _ (by decide)))]
                simp only [Out.bind_ok, Out.pure_eq, hc]
              · simp at h
            · split at h
              · rename_i hf0 hf1 hf2 hf3 hf4 hf5 hf
                split at h
                · rename_i hc
                  simp only [Option.some.injEq] at h
                  subst h
                  simp only [hf, show ¬ (11 = 0) by omega, show ¬ (11 = 1) by omega, show ¬ (11 = 2) by omega,
                    show ¬ (11 = 3) by omega, show ¬ (11 = 4) by omega, show ¬ (11 = 9) by omega,
                    show ¬ (11 = 10) by omega, if_true, if_false]
                  rw [lift_ok _ _ _ _ _ (readFixed_toBytes e 4 (x % 2 ^ 32) rest
                    (by rw [pow256]; exact Nat.mod_lt _ (by decide)))]
                  simp only [Out.bind_ok, Out.pure_eq, hc]
                · simp at h
              · split at h
                · rename_i hf0 hf1 hf2 hf3 hf4 hf5 hf6 hf
                  split at h
                  · rename_i hc
                    simp only [Option.some.injEq] at h
                    subst h
                    simp only [hf, show ¬ (12 = 0) by omega, show ¬ (12 = 1) by omega, show ¬ (12 = 2) by omega,
                      show ¬ (12 = 3) by omega, show ¬ (12 = 4) by omega, show ¬ (12 = 9) by omega,
                      show ¬ (12 = 10) by omega, show ¬ (12 = 11) by omega, if_true, if_false]
                    rw [lift_ok _ _ _ _ _ (readFixed_toBytes e 8 x rest (by rw [pow256]; exact hc))]
                    simp only [Out.bind_ok, Out.pure_eq, sext8 x hc]
                  · simp at h
                · simp at h


theorem pep_roundtrip (m : Mode) (e : Endian) (enc : Nat) (p : PeParams) (off x b : Nat)
    (bytes rest : Bytes)
    (hv : isValidEncoding enc = true) (ho : enc ≠ 0xff) (hal : peApplication enc ≠ 0x50)
    (h1 : 1 ≤ p.asz) (h8 : p.asz ≤ 8)
    (hb : neededBase enc p off = some b)
    (hx : encodeOperand e enc p.asz x = some bytes) :
    parseEncodedPointer m e enc p ⟨off, bytes ++ rest⟩ =
      .ok (Ptr.new enc ((b + x) % 2 ^ 64 % 2 ^ (8 * p.asz)), ⟨off + bytes.length, rest⟩) := by
  rw [pep_semantics m e enc p _ hv ho hal h1 h8]
  simp only [hb, pev_roundtrip e enc p.asz x off bytes rest hx, Out.bind_ok, Out.pure_eq]

theorem pep_missing_base (m : Mode) (e : Endian) (enc : Nat) (p : PeParams) (r : Rd)
    (hv : isValidEncoding enc = true) (ho : enc ≠ 0xff) (hal : peApplication enc ≠ 0x50)
    (h1 : 1 ≤ p.asz) (h8 : p.asz ≤ 8)
    (hb : neededBase enc p r.off = none) :
    parseEncodedPointer m e enc p r = .err (missingBaseErr enc) := by
  rw [pep_semantics m e enc p _ hv ho hal h1 h8]
  simp only [hb]

theorem operandFor_spec (asz b t : Nat) (h8 : asz ≤ 8) (ht : t < 2 ^ (8 * asz)) :
    (b + operandFor asz b t) % 2 ^ 64 % 2 ^ (8 * asz) = t ∧ operandFor asz b t < 2 ^ (8 * asz) := by
  have hM : 0 < 2 ^ (8 * asz) := Nat.pow_pos (by decide)
  have hdvd : 2 ^ (8 * asz) ∣ 2 ^ 64 := Nat.pow_dvd_pow 2 (by omega)
  unfold operandFor
  refine ⟨?_, Nat.mod_lt _ hM⟩
  rw [Nat.mod_mod_of_dvd _ hdvd, Nat.add_mod, Nat.mod_mod]
  have hbm : b % 2 ^ (8 * asz) < 2 ^ (8 * asz) := Nat.mod_lt _ hM
  generalize b % 2 ^ (8 * asz) = c at hbm
  generalize 2 ^ (8 * asz) = M at *
  rw [Nat.add_mod_mod]
  have : c + (t + M - c) = t + M := by omega
  rw [this, Nat.add_mod_right, Nat.mod_eq_of_lt ht]


/-- the `.eh_frame_hdr` table `h` is an index of the FDEs `fs` of the section `frame`:
fixed-size rows, all present, sorted by initial location; row `i` points (relative to
`eh_frame_ptr`) at an FDE `g i` of the section whose initial location is the row's key; the rows
and `fs` list the same FDEs; FDE ranges are non-empty, do not wrap and are pairwise disjoint -/
structure Indexes (c : Cfg) (bases : Bases) (h : Hdr) (frame : Bytes) (fs : List Fde)
    (size : Nat) (key : Nat → Nat) (g : Nat → Fde) : Prop where
  henc : tableEntrySize h.tableEnc = some size
  hn : 1 ≤ h.fdeCount
  htbl : h.fdeCount * (size * 2) ≤ h.table.bs.length
  hbig : h.table.bs.length < 2 ^ 64
  hkey : ∀ i, i < h.fdeCount →
    rowKey c.m c.e h.tableEnc (h.params bases) h.table.off h.table.bs size i = .ok (.direct (key i))
  hsorted : ∀ i j, i ≤ j → j < h.fdeCount → key i ≤ key j
  hrow : ∀ i, i < h.fdeCount → ∃ P B, h.ehFramePtr = .direct B ∧
    rowVal c.m c.e h.tableEnc (h.params bases) h.table.off h.table.bs size i = .ok (.direct P) ∧
    B ≤ P ∧ fdeFromOffset c bases frame (P - B) = .ok (g i) ∧ (g i).initial = key i ∧
    NoWrap (g i) ∧ 0 < (g i).range
  hall : ∀ f, f ∈ fs → ∃ i, i < h.fdeCount ∧ g i = f
  hmem : ∀ i, i < h.fdeCount → g i ∈ fs
  hdisj : ∀ i j x, i < h.fdeCount → j < h.fdeCount →
    covers (g i).initial (g i).range x → covers (g j).initial (g j).range x → g i = g j

theorem hdrFdeForAddress_eq_find (c : Cfg) (bases : Bases) (h : Hdr) (frame : Bytes) (fs : List Fde)
    (size : Nat) (key : Nat → Nat) (g : Nat → Fde) (a : Nat)
    (hi : Indexes c bases h frame fs size key g) :
    hdrFdeForAddress c bases h frame a =
      match fs.find? (fun f => decide (covers f.initial f.range a)) with
      | some f => .ok f
      | none => .err .rNoUnwindInfoForAddress := by
  obtain ⟨idx, hidx, hlk, hprop⟩ :=
    lookup_correct c.m c.e h bases a size key hi.henc hi.hn hi.htbl hi.hbig hi.hkey hi.hsorted
  obtain ⟨P, B, hB, hP, hBP, hfo, hinit, hnw, hpos⟩ := hi.hrow idx hidx
  unfold hdrFdeForAddress
  rw [hlk, hP]
  simp only [Out.bind_ok, pointerToOffset, Ptr.toDirect, hB, hBP, if_true, Out.pure_eq, hfo,
    contains_eq_covers c.m (g idx) a hnw]
  by_cases hc : covers (g idx).initial (g idx).range a
  · simp only [hc, decide_true, if_true]
    cases hfind : fs.find? (fun f => decide (covers f.initial f.range a)) with
    | none =>
      rw [List.find?_eq_none] at hfind
      have := hfind (g idx) (hi.hmem idx hidx)
      simp [hc] at this
    | some f' =>
      have hm := List.mem_of_find?_eq_some hfind
      have hcov := List.find?_some hfind
      simp only [decide_eq_true_eq] at hcov
      obtain ⟨j, hj, hgj⟩ := hi.hall f' hm
      rw [← hgj] at hcov
      have := hi.hdisj j idx a hj hidx hcov hc
      simp only [← hgj, this]
  · simp only [hc, decide_false, Bool.false_eq_true, if_false]
    cases hfind : fs.find? (fun f => decide (covers f.initial f.range a)) with
    | none => rfl
    | some f' =>
      exfalso
      have hm := List.mem_of_find?_eq_some hfind
      have hcov := List.find?_some hfind
      simp only [decide_eq_true_eq] at hcov
      obtain ⟨j, hj, hgj⟩ := hi.hall f' hm
      rw [← hgj] at hcov
      obtain ⟨P', B', _, _, _, _, hinitj, _, _⟩ := hi.hrow j hj
      have hkj : key j ≤ a := by rw [← hinitj]; exact hcov.1
      rcases hprop with ⟨hle, hgreat⟩ | ⟨_, hall⟩
      · have hjk := hgreat j hj hkj
        have h1 : covers (g j).initial (g j).range (key idx) := by
          unfold covers at hcov ⊢
          rw [hinitj] at hcov ⊢
          omega
        have h2 : covers (g idx).initial (g idx).range (key idx) := by
          unfold covers
          rw [hinit]
          omega
        have := hi.hdisj j idx (key idx) hj hidx h1 h2
        rw [this] at hcov
        exact hc hcov
      · have := hall j hj
        omega


end Gimli.CfiEntry
