import Gimli.Model.CfiEntry
import Gimli.Lemmas.Ints
import Gimli.Props.C01
import Gimli.Spec.Frame
/-!
# Helper lemmas for C05 (CFI entries, pointers, lookup)
-/
namespace Gimli.CfiEntry
open Gimli Gimli.Ints Gimli.Spec.Frame

/-- index-level mirror of the `while len > 1` loop of `EhHdrTable::lookup` -/
def bsearch (key : Nat → Nat) (a : Nat) : Nat → Nat → Nat → Option Nat
  | 0, lo, len => if len > 1 then none else some lo
  | fuel + 1, lo, len =>
    if len > 1 then
      if key (lo + len / 2) = a then some (lo + len / 2)
      else if key (lo + len / 2) < a then bsearch key a fuel (lo + len / 2) (len - len / 2)
      else bsearch key a fuel lo (len / 2)
    else some lo

theorem bsearch_correct (key : Nat → Nat) (a n : Nat)
    (hsorted : ∀ i j, i ≤ j → j < n → key i ≤ key j) :
    ∀ fuel lo len, 1 ≤ len → lo + len ≤ n → len ≤ 2 ^ fuel →
      (∀ j, lo + len ≤ j → j < n → a < key j) → (lo = 0 ∨ key lo ≤ a) →
      ∃ idx, bsearch key a fuel lo len = some idx ∧ idx < n ∧
        ((key idx ≤ a ∧ ∀ j, j < n → key j ≤ a → key j ≤ key idx) ∨
         (idx = 0 ∧ ∀ j, j < n → a < key j)) := by
  intro fuel
  induction fuel with
  | zero =>
    intro lo len h1 hn hf hhi hlo
    have : len = 1 := by simp at hf; omega
    subst this
    refine ⟨lo, by simp [bsearch], by omega, ?_⟩
    rcases hlo with h0 | hle
    · by_cases hk : key lo ≤ a
      · left; refine ⟨hk, ?_⟩
        intro j hj hja
        by_cases hjl : j ≤ lo
        · exact hsorted j lo hjl (by omega)
        · have := hhi j (by omega) hj; omega
      · right; refine ⟨h0, ?_⟩
        intro j hj
        have := hsorted lo j (by omega) hj
        omega
    · left; refine ⟨hle, ?_⟩
      intro j hj hja
      by_cases hjl : j ≤ lo
      · exact hsorted j lo hjl (by omega)
      · have := hhi j (by omega) hj; omega
  | succ fuel ih =>
    intro lo len h1 hn hf hhi hlo
    rw [bsearch]
    by_cases hlen : len > 1
    · simp only [hlen, if_true]
      have hp : lo + len / 2 < n := by omega
      by_cases heq : key (lo + len / 2) = a
      · simp only [heq, if_true]
        refine ⟨lo + len / 2, rfl, hp, Or.inl ⟨by omega, ?_⟩⟩
        intro j hj hja; omega
      · simp only [heq, if_false]
        by_cases hlt : key (lo + len / 2) < a
        · simp only [hlt, if_true]
          apply ih (lo + len / 2) (len - len / 2) (by omega) (by omega)
          · rw [Nat.pow_succ] at hf; omega
          · intro j hj1 hj2; exact hhi j (by omega) hj2
          · right; omega
        · simp only [hlt, if_false]
          apply ih lo (len / 2) (by omega) (by omega)
          · rw [Nat.pow_succ] at hf; omega
          · intro j hj1 hj2
            have := hsorted (lo + len / 2) j (by omega) hj2
            omega
          · exact hlo
    · have : len = 1 := by omega
      subst this
      simp only [show ¬ (1 > 1) by omega, if_false]
      refine ⟨lo, rfl, by omega, ?_⟩
      rcases hlo with h0 | hle
      · by_cases hk : key lo ≤ a
        · left; refine ⟨hk, ?_⟩
          intro j hj hja
          by_cases hjl : j ≤ lo
          · exact hsorted j lo hjl (by omega)
          · have := hhi j (by omega) hj; omega
        · right; refine ⟨h0, ?_⟩
          intro j hj
          have := hsorted lo j (by omega) hj
          omega
      · left; refine ⟨hle, ?_⟩
        intro j hj hja
        by_cases hjl : j ≤ lo
        · exact hsorted j lo hjl (by omega)
        · have := hhi j (by omega) hj; omega

/-! ### fixed-size table encodings: decoding is local to the entry's bytes -/

/-- `parse_encoded_value` result for the 2/4/8-byte formats from the raw positional value -/
def fixedVal (enc raw : Nat) : Nat :=
  if peFormat enc = 0x0a then sext 2 raw
  else if peFormat enc = 0x0b then sext 4 raw
  else if peFormat enc = 0x0c then sext 8 raw
  else raw

theorem lift_readFixed (e : Endian) (k off : Nat) (bs : Bytes) (hl : k ≤ bs.length) :
    (⟨off, bs⟩ : Rd).lift (readFixed e k) = .ok (fromBytes e (bs.take k), ⟨off + k, bs.drop k⟩) := by
  simp only [Rd.lift, readFixed_eq, hl, if_true, Out.bind_ok, Out.pure_eq, List.length_drop]
  congr 3
  omega

theorem pev_fixed (e : Endian) (enc asz size off : Nat) (bs : Bytes)
    (henc : tableEntrySize enc = some size) (hl : size ≤ bs.length) :
    parseEncodedValue e enc asz ⟨off, bs⟩ =
      .ok (fixedVal enc (fromBytes e (bs.take size)), ⟨off + size, bs.drop size⟩) := by
  unfold tableEntrySize at henc
  simp only at henc
  unfold parseEncodedValue fixedVal
  split at henc
  · rename_i hf
    have : size = 2 := by simpa using henc.symm
    subst this
    rcases hf with hf | hf <;> simp [hf, lift_readFixed _ _ _ _ hl]
  · split at henc
    · rename_i hf
      have : size = 4 := by simpa using henc.symm
      subst this
      rcases hf with hf | hf <;> simp [hf, lift_readFixed _ _ _ _ hl]
    · split at henc
      · rename_i hf
        have : size = 8 := by simpa using henc.symm
        subst this
        rcases hf with hf | hf <;> simp [hf, lift_readFixed _ _ _ _ hl]
      · simp at henc

/-- the pointer decoded at section offset `off` from the bytes `bs` -/
def ptrAt (m : Mode) (e : Endian) (enc : Nat) (p : PeParams) (off : Nat) (bs : Bytes) : Out Ptr := do
  let (q, _) ← parseEncodedPointer m e enc p ⟨off, bs⟩
  pure q

theorem pep_fixed (m : Mode) (e : Endian) (enc : Nat) (p : PeParams) (size off : Nat) (bs : Bytes)
    (henc : tableEntrySize enc = some size) (hl : size ≤ bs.length) :
    parseEncodedPointer m e enc p ⟨off, bs⟩ =
      (do let q ← ptrAt m e enc p off (bs.take size)
          pure (q, (⟨off + size, bs.drop size⟩ : Rd))) := by
  have hl' : size ≤ (bs.take size).length := by simp [List.length_take]; omega
  unfold ptrAt parseEncodedPointer
  split
  · rfl
  · split
    · rfl
    · simp only [pev_fixed e enc p.asz size off _ henc hl, pev_fixed e enc p.asz size off _ henc hl',
        List.take_take, Nat.min_self]
      cases pointerBase m enc p off with
      | ok b =>
        simp only [Out.bind_ok]
        cases wrappingAddSized m b (fixedVal enc (fromBytes e (List.take size bs))) p.asz <;> rfl
      | err x => rfl
      | panic w => rfl
      | diverge => rfl


/-- the first `cnt` bytes of the view `bs` are the `cnt` bytes of `tbl` from position `k` -/
def Agree (bs tbl : Bytes) (k cnt : Nat) : Prop :=
  cnt ≤ bs.length ∧ bs.take cnt = (tbl.drop k).take cnt

theorem agree_mono {bs tbl : Bytes} {k cnt c : Nat} (h : Agree bs tbl k cnt) (hc : c ≤ cnt) :
    Agree bs tbl k c := by
  refine ⟨by have := h.1; omega, ?_⟩
  have := congrArg (List.take c) h.2
  simpa [List.take_take, Nat.min_eq_left hc] using this

theorem agree_drop {bs tbl : Bytes} {k cnt d : Nat} (h : Agree bs tbl k cnt) (hd : d ≤ cnt) :
    Agree (bs.drop d) tbl (k + d) (cnt - d) := by
  refine ⟨by have := h.1; simp [List.length_drop]; omega, ?_⟩
  rw [List.take_drop, show d + (cnt - d) = cnt by omega, h.2, List.drop_take, List.drop_drop]

theorem agree_take {bs tbl : Bytes} {k cnt d : Nat} (h : Agree bs tbl k cnt) (hd : d ≤ cnt) :
    Agree (bs.take d) tbl k d := by
  have h' := agree_mono h hd
  refine ⟨by have := h'.1; simp [List.length_take]; omega, ?_⟩
  rw [List.take_take, Nat.min_self, h'.2]

theorem tableEntrySize_cases {enc size : Nat} (h : tableEntrySize enc = some size) :
    size = 2 ∨ size = 4 ∨ size = 8 := by
  unfold tableEntrySize at h
  simp only at h
  repeat' split at h
  all_goals simp at h
  all_goals omega

/-- initial-location field of row `i` of a table starting at section offset `T0` -/
def rowKey (m : Mode) (e : Endian) (enc : Nat) (p : PeParams) (T0 : Nat) (tbl : Bytes) (size i : Nat) : Out Ptr :=
  ptrAt m e enc p (T0 + i * (size * 2)) ((tbl.drop (i * (size * 2))).take size)

/-- FDE-address field of row `i` -/
def rowVal (m : Mode) (e : Endian) (enc : Nat) (p : PeParams) (T0 : Nat) (tbl : Bytes) (size i : Nat) : Out Ptr :=
  ptrAt m e enc p (T0 + i * (size * 2) + size) ((tbl.drop (i * (size * 2) + size)).take size)

theorem lookupLoop_refines (m : Mode) (e : Endian) (enc : Nat) (p : PeParams) (size a T0 n : Nat)
    (tbl : Bytes) (key : Nat → Nat)
    (henc : tableEntrySize enc = some size)
    (htbl : n * (size * 2) ≤ tbl.length) (hbig : tbl.length < 2 ^ 64)
    (hkey : ∀ i, i < n → rowKey m e enc p T0 tbl size i = .ok (.direct (key i))) :
    ∀ fuel lo len (r : Rd), 1 ≤ len → lo + len ≤ n → len ≤ 2 ^ fuel →
      r.off = T0 + lo * (size * 2) → Agree r.bs tbl (lo * (size * 2)) (len * (size * 2)) →
      ∃ idx r', bsearch key a fuel lo len = some idx ∧
        lookupLoop m e enc p (size * 2) a fuel len r = .ok r' ∧
        r'.off = T0 + idx * (size * 2) ∧ Agree r'.bs tbl (idx * (size * 2)) (size * 2) := by
  have hsz := tableEntrySize_cases henc
  intro fuel
  induction fuel with
  | zero =>
    intro lo len r h1 hn hf hoff hag
    have : len = 1 := by simp at hf; omega
    subst this
    refine ⟨lo, r, by simp [bsearch], by simp [lookupLoop], hoff, ?_⟩
    simpa using hag
  | succ fuel ih =>
    intro lo len r h1 hn hf hoff hag
    rw [bsearch, lookupLoop]
    by_cases hlen : len > 1
    · simp only [hlen, if_true]
      have hmul : len / 2 * (size * 2) ≤ len * (size * 2) := Nat.mul_le_mul_right _ (Nat.div_le_self _ _)
      have hlen_n : len * (size * 2) ≤ n * (size * 2) := Nat.mul_le_mul_right _ (by omega)
      have hoffs : ¬ (len / 2 * (size * 2) ≥ 2 ^ 64) := by omega
      simp only [hoffs, if_false]
      have hsplit : len / 2 * (size * 2) ≤ r.bs.length := by have := hag.1; omega
      simp only [Rd.split, hsplit, if_true, Out.bind_ok]
      have htail := agree_drop hag hmul
      rw [← Nat.add_mul, ← Nat.sub_mul] at htail
      have hhead := agree_take hag hmul
      have h1' : 1 ≤ len - len / 2 := by omega
      have hge : size * 2 ≤ (len - len / 2) * (size * 2) := by
        calc size * 2 = 1 * (size * 2) := by omega
          _ ≤ (len - len / 2) * (size * 2) := Nat.mul_le_mul_right _ h1'
      have hrow := agree_mono htail (show size ≤ (len - len / 2) * (size * 2) by omega)
      rw [pep_fixed m e enc p size _ _ henc hrow.1, hrow.2]
      have hk := hkey (lo + len / 2) (by omega)
      unfold rowKey at hk
      rw [hoff, Nat.add_assoc, ← Nat.add_mul, hk]
      simp only [Out.bind_ok, Out.pure_eq, Ptr.toDirect]
      by_cases heq : key (lo + len / 2) = a
      · simp only [heq, if_true]
        exact ⟨lo + len / 2, _, rfl, rfl, rfl, agree_mono htail hge⟩
      · simp only [heq, if_false]
        by_cases hlt : key (lo + len / 2) < a
        · simp only [hlt, if_true]
          exact ih (lo + len / 2) (len - len / 2) _ h1' (by omega) (by rw [Nat.pow_succ] at hf; omega) rfl htail
        · simp only [hlt, if_false]
          exact ih lo (len / 2) _ (by omega) (by omega) (by rw [Nat.pow_succ] at hf; omega) rfl hhead
    · have : len = 1 := by omega
      subst this
      simp only [show ¬ (1 > 1) by omega, if_false]
      exact ⟨lo, r, rfl, rfl, hoff, by simpa using hag⟩


theorem bind_pair_fst {α β : Type} (x : Out α) (b : β) :
    (do let (p, _) ← (do let q ← x; pure (q, b) : Out (α × β)); pure p) = x := by
  cases x <;> rfl

theorem lookup_correct (m : Mode) (e : Endian) (h : Hdr) (bases : Bases) (a size : Nat) (key : Nat → Nat)
    (henc : tableEntrySize h.tableEnc = some size)
    (hn : 1 ≤ h.fdeCount)
    (htbl : h.fdeCount * (size * 2) ≤ h.table.bs.length) (hbig : h.table.bs.length < 2 ^ 64)
    (hkey : ∀ i, i < h.fdeCount →
      rowKey m e h.tableEnc (h.params bases) h.table.off h.table.bs size i = .ok (.direct (key i)))
    (hsorted : ∀ i j, i ≤ j → j < h.fdeCount → key i ≤ key j) :
    ∃ idx, idx < h.fdeCount ∧
      lookup m e h bases a = rowVal m e h.tableEnc (h.params bases) h.table.off h.table.bs size idx ∧
      ((key idx ≤ a ∧ ∀ j, j < h.fdeCount → key j ≤ a → key j ≤ key idx) ∨
       (idx = 0 ∧ ∀ j, j < h.fdeCount → a < key j)) := by
  have hsz := tableEntrySize_cases henc
  have hn64 : h.fdeCount ≤ 2 ^ 64 := by
    have : h.fdeCount * 1 ≤ h.fdeCount * (size * 2) := Nat.mul_le_mul_left _ (by omega)
    omega
  obtain ⟨idx, r', hb, hl, hoff, hag⟩ :=
    lookupLoop_refines m e h.tableEnc (h.params bases) size a h.table.off h.fdeCount h.table.bs key henc
      htbl hbig hkey 64 0 h.fdeCount h.table hn (by omega) hn64 (by simp) ⟨by simpa using htbl, by simp⟩
  obtain ⟨idx', hb', hlt, hprop⟩ :=
    bsearch_correct key a h.fdeCount hsorted 64 0 h.fdeCount hn (by omega) hn64
      (by intro j h1 h2; omega) (Or.inl rfl)
  rw [hb] at hb'
  cases hb'
  refine ⟨idx, hlt, ?_, hprop⟩
  unfold lookup
  simp only [henc, hl, Out.bind_ok]
  have hskip : size ≤ r'.bs.length := by have := hag.1; omega
  simp only [Rd.skip, hskip, if_true, Out.bind_ok]
  have hd := agree_drop hag (show size ≤ size * 2 by omega)
  have hd' := agree_mono hd (show size ≤ size * 2 - size by omega)
  rw [pep_fixed m e h.tableEnc (h.params bases) size _ _ henc hd'.1, hd'.2, hoff]
  unfold rowVal
  exact bind_pair_fst _ _


/-! ### totality -/

theorem normal_bind {α β : Type} {x : Out α} {f : α → Out β} (hx : x.Normal)
    (hf : ∀ a, x = .ok a → (f a).Normal) : (x >>= f).Normal := by
  cases x with
  | ok a => exact hf a rfl
  | err e => simp [Out.Normal]
  | panic w => simp [Out.Normal] at hx
  | diverge => simp [Out.Normal] at hx

theorem lift_normal {α : Type} (f : Bytes → Out (α × Bytes)) (r : Rd) (hf : (f r.bs).Normal) :
    (r.lift f).Normal := by
  unfold Rd.lift
  apply normal_bind hf
  intro a _
  simp [Out.Normal]

/-- the address sizes for which `ones_sized` does not overflow, or a build without overflow checks -/
def SizeOk (m : Mode) (size : Nat) : Prop := (1 ≤ size ∧ size ≤ 8) ∨ m = .release

theorem wrappingAddSized_normal (m : Mode) (a len size : Nat) (h : SizeOk m size) :
    (wrappingAddSized m a len size).Normal := by
  unfold wrappingAddSized
  split
  · simp [Out.Normal]
  · rename_i hs
    rcases h with h | h
    · exact absurd h hs
    · subst h; simp [Out.Normal]

theorem validFormat {enc : Nat} (hv : isValidEncoding enc = true) (ho : enc ≠ 0xff) :
    let f := peFormat enc
    (f = 0 ∨ f = 1 ∨ f = 2 ∨ f = 3 ∨ f = 4 ∨ f = 9 ∨ f = 0x0a ∨ f = 0x0b ∨ f = 0x0c) ∧
    (let a := peApplication enc
     a = 0 ∨ a = 0x10 ∨ a = 0x20 ∨ a = 0x30 ∨ a = 0x40 ∨ a = 0x50) := by
  unfold isValidEncoding peAbsent at hv
  simp only [ho, decide_false, Bool.false_eq_true, if_false] at hv
  split at hv
  · simp at hv
  · rename_i hf
    split at hv
    · simp at hv
    · rename_i ha
      exact ⟨Classical.not_not.mp hf, Classical.not_not.mp ha⟩

theorem pev_normal (e : Endian) (enc asz : Nat) (r : Rd)
    (hf : let f := peFormat enc
          f = 0 ∨ f = 1 ∨ f = 2 ∨ f = 3 ∨ f = 4 ∨ f = 9 ∨ f = 0x0a ∨ f = 0x0b ∨ f = 0x0c) :
    (parseEncodedValue e enc asz r).Normal := by
  unfold parseEncodedValue
  simp only at hf ⊢
  have hU := Props.C01.uleb_total r.bs
  have hS := Props.C01.sleb_total r.bs
  have hF := fun n => Props.C01.fixed_total e n r.bs
  have hA := Props.C01.address_total e asz r.bs
  repeat' split
  all_goals first
    | exact lift_normal _ _ (by assumption)
    | exact lift_normal _ _ (hF _)
    | (apply normal_bind (lift_normal _ _ (by first | assumption | exact hF _)); intro a _; simp [Out.Normal])
    | omega

theorem pointerBase_normal (m : Mode) (enc : Nat) (p : PeParams) (off : Nat) (hs : SizeOk m p.asz)
    (ha : let a := peApplication enc
          a = 0 ∨ a = 0x10 ∨ a = 0x20 ∨ a = 0x30 ∨ a = 0x40 ∨ a = 0x50) :
    (pointerBase m enc p off).Normal := by
  unfold pointerBase
  simp only at ha ⊢
  repeat' split
  all_goals first
    | exact wrappingAddSized_normal _ _ _ _ hs
    | omega
    | simp [Out.Normal]

/-- `parse_encoded_pointer` returns a pointer or an error for every encoding byte, base set, offset
and input, provided the address size is one `ones_sized` can handle (1..8) — or overflow checks
are off -/
theorem pep_normal (m : Mode) (e : Endian) (enc : Nat) (p : PeParams) (r : Rd) (hs : SizeOk m p.asz) :
    (parseEncodedPointer m e enc p r).Normal := by
  unfold parseEncodedPointer
  split
  · simp [Out.Normal]
  · rename_i hv
    split
    · simp [Out.Normal]
    · rename_i ho
      have hv' : isValidEncoding enc = true := by simpa using hv
      obtain ⟨hf, ha⟩ := validFormat hv' ho
      apply normal_bind (pointerBase_normal m enc p r.off hs ha)
      intro b _
      apply normal_bind (pev_normal e enc p.asz r hf)
      intro ⟨v, r'⟩ _
      apply normal_bind (wrappingAddSized_normal _ _ _ _ hs)
      intro w _
      simp [Out.Normal]

theorem split_normal (n : Nat) (r : Rd) : (r.split n).Normal := by
  unfold Rd.split; split <;> simp [Out.Normal]

theorem skip_normal (n : Nat) (r : Rd) : (r.skip n).Normal := by
  unfold Rd.skip; split <;> simp [Out.Normal]

theorem toDirect_normal (p : Ptr) : p.toDirect.Normal := by
  cases p <;> simp [Ptr.toDirect, Out.Normal]

/-- the binary search needs at most `k` rounds for a table of `len ≤ 2^k` rows, on any bytes -/
theorem lookupLoop_normal (m : Mode) (e : Endian) (enc : Nat) (p : PeParams) (rowSize a : Nat)
    (hs : SizeOk m p.asz) :
    ∀ fuel len (r : Rd), len ≤ 2 ^ fuel → (lookupLoop m e enc p rowSize a fuel len r).Normal := by
  intro fuel
  induction fuel with
  | zero =>
    intro len r hf
    have : ¬ len > 1 := by simp at hf; omega
    simp [lookupLoop, this, Out.Normal]
  | succ fuel ih =>
    intro len r hf
    rw [lookupLoop]
    split
    · dsimp only
      split
      · simp [Out.Normal]
      · apply normal_bind (split_normal _ _)
        intro ⟨head, tail⟩ _
        apply normal_bind (pep_normal m e enc p tail hs)
        intro ⟨pv, r'⟩ _
        apply normal_bind (toDirect_normal _)
        intro pivot _
        simp only
        split
        · simp [Out.Normal]
        · split
          · exact ih _ _ (by rw [Nat.pow_succ] at hf; omega)
          · exact ih _ _ (by rw [Nat.pow_succ] at hf; omega)
    · simp [Out.Normal]

theorem lookup_normal (m : Mode) (e : Endian) (h : Hdr) (bases : Bases) (a : Nat)
    (hs : SizeOk m h.asz) (hc : h.fdeCount < 2 ^ 64) : (lookup m e h bases a).Normal := by
  unfold lookup
  split
  · simp [Out.Normal]
  · apply normal_bind (lookupLoop_normal m e _ _ _ a hs 64 _ _ (by omega))
    intro r _
    apply normal_bind (skip_normal _ _)
    intro r' _
    apply normal_bind (pep_normal m e _ _ r' hs)
    intro ⟨q, _⟩ _
    simp [Out.Normal]


/-! ### linear search = scan of the iterated entries -/

/-- what `fde_for_address` decides, as a function of what the iterator yields -/
def scan (c : Cfg) (bases : Bases) (sec : Bytes) (a : Nat) : List Entry → Out Unit → Out Fde
  | [], fin =>
    match fin with
    | .ok _ => .err .rNoUnwindInfoForAddress
    | .err er => .err er
    | .panic w => .panic w
    | .diverge => .diverge
  | .cie _ :: l, fin => scan c bases sec a l fin
  | .fde p :: l, fin => do
    let f ← parseRest c bases sec p
    let ct ← f.contains c.m a
    if ct then pure f else scan c bases sec a l fin

theorem fdeForAddressLoop_eq_scan (c : Cfg) (bases : Bases) (sec : Bytes) (a : Nat) :
    ∀ fuel (r : Rd), fdeForAddressLoop c bases sec a fuel r =
      scan c bases sec a (entries c bases fuel r).1 (entries c bases fuel r).2 := by
  intro fuel
  induction fuel with
  | zero => intro r; simp [fdeForAddressLoop, entries, scan]
  | succ fuel ih =>
    intro r
    rw [fdeForAddressLoop, entries]
    cases hnx : next c bases (r.bs.length + 1) r with
    | ok x =>
      obtain ⟨oe, r'⟩ := x
      cases oe with
      | none => simp [scan]
      | some en =>
        cases en with
        | cie ci => simp only [scan]; exact ih r'
        | fde p => simp only [scan]; rw [ih r']
    | err er => simp [scan]
    | panic w => simp [scan]
    | diverge => simp [scan]

/-- every FDE the iterator yields, fully parsed (in section order) -/
def parseAll (c : Cfg) (bases : Bases) (sec : Bytes) : List Entry → Out (List Fde)
  | [] => .ok []
  | .cie _ :: l => parseAll c bases sec l
  | .fde p :: l => do
    let f ← parseRest c bases sec p
    let fs ← parseAll c bases sec l
    pure (f :: fs)

/-- the FDE's range does not run into the top of its address space -/
def NoWrap (f : Fde) : Prop := 1 ≤ f.cie.asz ∧ f.cie.asz ≤ 8 ∧ f.initial + f.range < 2 ^ (8 * f.cie.asz)

theorem contains_eq_covers (m : Mode) (f : Fde) (a : Nat) (h : NoWrap f) :
    f.contains m a = .ok (decide (Spec.Frame.covers f.initial f.range a)) := by
  obtain ⟨h1, h8, hlt⟩ := h
  have hp : 2 ^ (8 * f.cie.asz) ≤ 2 ^ 64 := Nat.pow_le_pow_right (by omega) (by omega)
  have hend : wrappingAddSized m f.initial f.range f.cie.asz = .ok (f.initial + f.range) := by
    unfold wrappingAddSized
    rw [if_pos ⟨h1, h8⟩, Nat.mod_eq_of_lt (a := f.initial + f.range) (b := 2 ^ 64) (by omega), Nat.mod_eq_of_lt hlt]
  unfold Fde.contains Fde.endAddress
  rw [hend]
  by_cases hi : f.initial ≤ a
  · by_cases ha : a < f.initial + f.range <;> simp [hi, ha, Spec.Frame.covers]
  · simp [hi, Spec.Frame.covers]

theorem scan_eq_find (c : Cfg) (bases : Bases) (sec : Bytes) (a : Nat) :
    ∀ (l : List Entry) (fs : List Fde), parseAll c bases sec l = .ok fs → (∀ f, f ∈ fs → NoWrap f) →
      scan c bases sec a l (.ok ()) =
        match fs.find? (fun f => decide (Spec.Frame.covers f.initial f.range a)) with
        | some f => .ok f
        | none => .err .rNoUnwindInfoForAddress := by
  intro l
  induction l with
  | nil => intro fs h _; simp [parseAll] at h; subst h; simp [scan]
  | cons en l ih =>
    intro fs h hw
    cases en with
    | cie ci => simp only [parseAll] at h; simp only [scan]; exact ih fs h hw
    | fde p =>
      simp only [parseAll] at h
      cases hp : parseRest c bases sec p with
      | ok f =>
        rw [hp] at h
        simp only [Out.bind_ok] at h
        cases hr : parseAll c bases sec l with
        | ok fs' =>
          rw [hr] at h
          simp only [Out.bind_ok, Out.pure_eq, Out.ok.injEq] at h
          subst h
          simp only [scan, hp, Out.bind_ok]
          rw [contains_eq_covers c.m f a (hw f (by simp))]
          simp only [Out.bind_ok, List.find?_cons]
          by_cases hc : Spec.Frame.covers f.initial f.range a
          · simp [hc]
          · simp only [hc, decide_false, Bool.false_eq_true, if_false]
            exact ih fs' hr (fun g hg => hw g (by simp [hg]))
        | err x => rw [hr] at h; simp at h
        | panic w => rw [hr] at h; simp at h
        | diverge => rw [hr] at h; simp at h
      | err x => rw [hp] at h; simp at h
      | panic w => rw [hp] at h; simp at h
      | diverge => rw [hp] at h; simp at h


/-! ### `parse_encoded_pointer` = base selection + operand + wrapping add -/

theorem wrappingAddSized_ok (m : Mode) (a len size : Nat) (h1 : 1 ≤ size) (h8 : size ≤ 8) :
    wrappingAddSized m a len size = .ok ((a + len) % 2 ^ 64 % 2 ^ (8 * size)) := by
  unfold wrappingAddSized; rw [if_pos ⟨h1, h8⟩]

theorem pep_semantics (m : Mode) (e : Endian) (enc : Nat) (p : PeParams) (r : Rd)
    (hv : isValidEncoding enc = true) (ho : enc ≠ 0xff) (hal : peApplication enc ≠ 0x50)
    (h1 : 1 ≤ p.asz) (h8 : p.asz ≤ 8) :
    parseEncodedPointer m e enc p r =
      (match neededBase enc p r.off with
      | none => .err (missingBaseErr enc)
      | some b => (parseEncodedValue e enc p.asz r >>= fun xr =>
          pure (Ptr.new enc ((b + xr.1) % 2 ^ 64 % 2 ^ (8 * p.asz)), xr.2))) := by
  obtain ⟨_, ha⟩ := validFormat hv ho
  simp only at ha
  unfold parseEncodedPointer
  rw [if_neg (by simp [hv]), if_neg ho]
  unfold pointerBase neededBase missingBaseErr
  simp only [wrappingAddSized_ok m _ _ _ h1 h8]
  rcases ha with ha | ha | ha | ha | ha | ha
  · simp only [ha]
    simp only [Out.bind_ok, if_true, Nat.zero_add]
  · simp only [ha]
    cases p.bases.sect <;> simp
    all_goals rfl
  · simp only [ha]
    cases p.bases.text <;> simp
    all_goals rfl
  · simp only [ha]
    cases p.bases.data <;> simp
    all_goals rfl
  · simp only [ha]
    cases p.funcBase <;> simp
    all_goals rfl
  · exact absurd ha hal


theorem lift_ok {α : Type} (f : Bytes → Out (α × Bytes)) (off : Nat) (pre rest : Bytes) (v : α)
    (h : f (pre ++ rest) = .ok (v, rest)) :
    (⟨off, pre ++ rest⟩ : Rd).lift f = .ok (v, ⟨off + pre.length, rest⟩) := by
  simp only [Rd.lift, h, Out.bind_ok, Out.pure_eq, List.length_append]
  congr 3
  omega

theorem sext8 (x : Nat) (hx : x < 2 ^ 64) : sext 8 x = x := by
  unfold sext Ints.toSigned Leb.ofI64
  split <;> omega

theorem ofI64_toI64 (x : Nat) (hx : x < 2 ^ 64) : Leb.ofI64 (Leb.toI64 x) = x := by
  unfold Leb.ofI64 Leb.toI64
  split <;> omega

theorem pev_roundtrip (e : Endian) (enc asz x off : Nat) (bytes rest : Bytes)
    (h : encodeOperand e enc asz x = some bytes) :
    parseEncodedValue e enc asz ⟨off, bytes ++ rest⟩ = .ok (x, ⟨off + bytes.length, rest⟩) := by
  unfold encodeOperand at h
  unfold parseEncodedValue
  simp only at h ⊢
  split at h
  · -- absptr
    rename_i hf
    split at h
    · rename_i hc
      simp only [Option.some.injEq] at h
      subst h
      simp only [hf, if_true]
      apply lift_ok
      unfold readAddress
      rw [if_pos hc.1]
      exact readFixed_toBytes e asz x rest (by rw [pow256]; exact hc.2)
    · simp at h
  · split at h
    · -- uleb128
      rename_i hf0 hf
      split at h
      · rename_i hc
        simp only [Option.some.injEq] at h
        subst h
        simp only [hf, if_true]
        apply lift_ok
        exact Leb.unsigned_roundtrip x hc rest
      · simp at h
    · split at h
      · rename_i hf0 hf1 hf
        split at h
        · rename_i hc
          simp only [Option.some.injEq] at h
          subst h
          simp only [hf, if_true]
          simp only [show ¬ (2 = 0) by omega, show ¬ (2 = 1) by omega, if_false]
          apply lift_ok
          exact readFixed_toBytes e 2 x rest (by rw [pow256]; exact hc)
        · simp at h
      · split at h
        · rename_i hf0 hf1 hf2 hf
          split at h
          · rename_i hc
            simp only [Option.some.injEq] at h
            subst h
            simp only [hf, show ¬ (3 = 0) by omega, show ¬ (3 = 1) by omega, show ¬ (3 = 2) by omega,
              if_true, if_false]
            apply lift_ok
            exact readFixed_toBytes e 4 x rest (by rw [pow256]; exact hc)
          · simp at h
        · split at h
          · rename_i hf0 hf1 hf2 hf3 hf
            split at h
            · rename_i hc
              simp only [Option.some.injEq] at h
              subst h
              simp only [hf, show ¬ (4 = 0) by omega, show ¬ (4 = 1) by omega, show ¬ (4 = 2) by omega,
                show ¬ (4 = 3) by omega, if_true, if_false]
              apply lift_ok
              exact readFixed_toBytes e 8 x rest (by rw [pow256]; exact hc)
            · simp at h
          · split at h
            · rename_i hf0 hf1 hf2 hf3 hf4 hf
              split at h
              · rename_i hc
                simp only [Option.some.injEq] at h
                subst h
                simp only [hf, show ¬ (10 = 0) by omega, show ¬ (10 = 1) by omega, show ¬ (10 = 2) by omega,
                  show ¬ (10 = 3) by omega, show ¬ (10 = 4) by omega, show ¬ (10 = 9) by omega, if_true, if_false]
                rw [lift_ok _ _ _ _ _ (readFixed_toBytes e 2 (x % 2 ^ 16) rest
                  (by rw [pow256]; exact Nat.mod_lt _ (by decide)))]
                simp only [Out.bind_ok, Out.pure_eq, hc]
              · simp at h
            · split at h
              · rename_i hf0 hf1 hf2 hf3 hf4 hf5 hf
                split at h
                · rename_i hc
                  simp only [Option.some.injEq] at h
                  subst h
                  simp only [hf, show ¬ (11 = 0) by omega, show ¬ (11 = 1) by omega, show ¬ (11 = 2) by omega,
                    show ¬ (11 = 3) by omega, show ¬ (11 = 4) by omega, show ¬ (11 = 9) by omega,
                    show ¬ (11 = 10) by omega, if_true, if_false]
                  rw [lift_ok _ _ _ _ _ (readFixed_toBytes e 4 (x % 2 ^ 32) rest
                    (by rw [pow256]; exact Nat.mod_lt _ (by decide)))]
                  simp only [Out.bind_ok, Out.pure_eq, hc]
                · simp at h
              · split at h
                · rename_i hf0 hf1 hf2 hf3 hf4 hf5 hf6 hf
                  split at h
                  · rename_i hc
                    simp only [Option.some.injEq] at h
                    subst h
                    simp only [hf, show ¬ (12 = 0) by omega, show ¬ (12 = 1) by omega, show ¬ (12 = 2) by omega,
                      show ¬ (12 = 3) by omega, show ¬ (12 = 4) by omega, show ¬ (12 = 9) by omega,
                      show ¬ (12 = 10) by omega, show ¬ (12 = 11) by omega, if_true, if_false]
                    rw [lift_ok _ _ _ _ _ (readFixed_toBytes e 8 x rest (by rw [pow256]; exact hc))]
                    simp only [Out.bind_ok, Out.pure_eq, sext8 x hc]
                  · simp at h
                · -- sleb128: the signed reading of the pattern, through C09's `signed_roundtrip`
                  split at h
                  · rename_i hf
                    split at h
                    · rename_i hc
                      simp only [Option.some.injEq] at h
                      subst h
                      simp only [hf, show ¬ (9 = 0) by omega, show ¬ (9 = 1) by omega, show ¬ (9 = 2) by omega,
                        show ¬ (9 = 3) by omega, show ¬ (9 = 4) by omega, if_true, if_false]
                      obtain ⟨hlo, hhi⟩ := Leb.toI64_range x
                      rw [lift_ok _ _ _ _ _ (Leb.signed_roundtrip (Leb.toI64 x) hlo hhi rest)]
                      simp only [Out.bind_ok, Out.pure_eq, ofI64_toI64 x hc]
                    · simp at h
                  · simp at h


theorem pep_roundtrip (m : Mode) (e : Endian) (enc : Nat) (p : PeParams) (off x b : Nat)
    (bytes rest : Bytes)
    (hv : isValidEncoding enc = true) (ho : enc ≠ 0xff) (hal : peApplication enc ≠ 0x50)
    (h1 : 1 ≤ p.asz) (h8 : p.asz ≤ 8)
    (hb : neededBase enc p off = some b)
    (hx : encodeOperand e enc p.asz x = some bytes) :
    parseEncodedPointer m e enc p ⟨off, bytes ++ rest⟩ =
      .ok (Ptr.new enc ((b + x) % 2 ^ 64 % 2 ^ (8 * p.asz)), ⟨off + bytes.length, rest⟩) := by
  rw [pep_semantics m e enc p _ hv ho hal h1 h8]
  simp only [hb, pev_roundtrip e enc p.asz x off bytes rest hx, Out.bind_ok, Out.pure_eq]

theorem pep_missing_base (m : Mode) (e : Endian) (enc : Nat) (p : PeParams) (r : Rd)
    (hv : isValidEncoding enc = true) (ho : enc ≠ 0xff) (hal : peApplication enc ≠ 0x50)
    (h1 : 1 ≤ p.asz) (h8 : p.asz ≤ 8)
    (hb : neededBase enc p r.off = none) :
    parseEncodedPointer m e enc p r = .err (missingBaseErr enc) := by
  rw [pep_semantics m e enc p _ hv ho hal h1 h8]
  simp only [hb]

theorem operandFor_spec (asz b t : Nat) (h8 : asz ≤ 8) (ht : t < 2 ^ (8 * asz)) :
    (b + operandFor asz b t) % 2 ^ 64 % 2 ^ (8 * asz) = t ∧ operandFor asz b t < 2 ^ (8 * asz) := by
  have hM : 0 < 2 ^ (8 * asz) := Nat.pow_pos (by decide)
  have hdvd : 2 ^ (8 * asz) ∣ 2 ^ 64 := Nat.pow_dvd_pow 2 (by omega)
  unfold operandFor
  refine ⟨?_, Nat.mod_lt _ hM⟩
  rw [Nat.mod_mod_of_dvd _ hdvd, Nat.add_mod, Nat.mod_mod]
  have hbm : b % 2 ^ (8 * asz) < 2 ^ (8 * asz) := Nat.mod_lt _ hM
  generalize b % 2 ^ (8 * asz) = c at hbm
  generalize 2 ^ (8 * asz) = M at *
  rw [Nat.add_mod_mod]
  have : c + (t + M - c) = t + M := by omega
  rw [this, Nat.add_mod_right, Nat.mod_eq_of_lt ht]


/-- the `.eh_frame_hdr` table `h` is an index of the FDEs `fs` of the section `frame`:
fixed-size rows, all present, sorted by initial location; row `i` points (relative to
`eh_frame_ptr`) at an FDE `g i` of the section whose initial location is the row's key; the rows
and `fs` list the same FDEs; FDE ranges are non-empty, do not wrap and are pairwise disjoint -/
structure Indexes (c : Cfg) (bases : Bases) (h : Hdr) (frame : Bytes) (fs : List Fde)
    (size : Nat) (key : Nat → Nat) (g : Nat → Fde) : Prop where
  henc : tableEntrySize h.tableEnc = some size
  hn : 1 ≤ h.fdeCount
  htbl : h.fdeCount * (size * 2) ≤ h.table.bs.length
  hbig : h.table.bs.length < 2 ^ 64
  hkey : ∀ i, i < h.fdeCount →
    rowKey c.m c.e h.tableEnc (h.params bases) h.table.off h.table.bs size i = .ok (.direct (key i))
  hsorted : ∀ i j, i ≤ j → j < h.fdeCount → key i ≤ key j
  hrow : ∀ i, i < h.fdeCount → ∃ P B, h.ehFramePtr = .direct B ∧
    rowVal c.m c.e h.tableEnc (h.params bases) h.table.off h.table.bs size i = .ok (.direct P) ∧
    B ≤ P ∧ fdeFromOffset c bases frame (P - B) = .ok (g i) ∧ (g i).initial = key i ∧
    NoWrap (g i) ∧ 0 < (g i).range
  hall : ∀ f, f ∈ fs → ∃ i, i < h.fdeCount ∧ g i = f
  hmem : ∀ i, i < h.fdeCount → g i ∈ fs
  hdisj : ∀ i j x, i < h.fdeCount → j < h.fdeCount →
    covers (g i).initial (g i).range x → covers (g j).initial (g j).range x → g i = g j

theorem hdrFdeForAddress_eq_find (c : Cfg) (bases : Bases) (h : Hdr) (frame : Bytes) (fs : List Fde)
    (size : Nat) (key : Nat → Nat) (g : Nat → Fde) (a : Nat)
    (hi : Indexes c bases h frame fs size key g) :
    hdrFdeForAddress c bases h frame a =
      match fs.find? (fun f => decide (covers f.initial f.range a)) with
      | some f => .ok f
      | none => .err .rNoUnwindInfoForAddress := by
  obtain ⟨idx, hidx, hlk, hprop⟩ :=
    lookup_correct c.m c.e h bases a size key hi.henc hi.hn hi.htbl hi.hbig hi.hkey hi.hsorted
  obtain ⟨P, B, hB, hP, hBP, hfo, hinit, hnw, hpos⟩ := hi.hrow idx hidx
  unfold hdrFdeForAddress
  rw [hlk, hP]
  simp only [Out.bind_ok, pointerToOffset, Ptr.toDirect, hB, hBP, if_true, Out.pure_eq, hfo,
    contains_eq_covers c.m (g idx) a hnw]
  by_cases hc : covers (g idx).initial (g idx).range a
  · simp only [hc, decide_true, if_true]
    cases hfind : fs.find? (fun f => decide (covers f.initial f.range a)) with
    | none =>
      rw [List.find?_eq_none] at hfind
      have := hfind (g idx) (hi.hmem idx hidx)
      simp [hc] at this
    | some f' =>
      have hm := List.mem_of_find?_eq_some hfind
      have hcov := List.find?_some hfind
      simp only [decide_eq_true_eq] at hcov
      obtain ⟨j, hj, hgj⟩ := hi.hall f' hm
      rw [← hgj] at hcov
      have := hi.hdisj j idx a hj hidx hcov hc
      simp only [← hgj, this]
  · simp only [hc, decide_false, Bool.false_eq_true, if_false]
    cases hfind : fs.find? (fun f => decide (covers f.initial f.range a)) with
    | none => rfl
    | some f' =>
      exfalso
      have hm := List.mem_of_find?_eq_some hfind
      have hcov := List.find?_some hfind
      simp only [decide_eq_true_eq] at hcov
      obtain ⟨j, hj, hgj⟩ := hi.hall f' hm
      rw [← hgj] at hcov
      obtain ⟨P', B', _, _, _, _, hinitj, _, _⟩ := hi.hrow j hj
      have hkj : key j ≤ a := by rw [← hinitj]; exact hcov.1
      rcases hprop with ⟨hle, hgreat⟩ | ⟨_, hall⟩
      · have hjk := hgreat j hj hkj
        have h1 : covers (g j).initial (g j).range (key idx) := by
          unfold covers at hcov ⊢
          rw [hinitj] at hcov ⊢
          omega
        have h2 : covers (g idx).initial (g idx).range (key idx) := by
          unfold covers
          rw [hinit]
          omega
        have := hi.hdisj j idx (key idx) hj hidx h1 h2
        rw [this] at hcov
        exact hc hcov
      · have := hall j hj
        omega


/-! ### totality of entry parsing and iteration -/

theorem u8_normal (r : Rd) : r.u8.Normal := by
  unfold Rd.u8; split <;> simp [Out.Normal]

theorem readCstr_normal (r : Rd) : (readCstr r).Normal := by
  unfold readCstr; split <;> simp [Out.Normal]

theorem parsePointerEncoding_normal (r : Rd) : (parsePointerEncoding r).Normal := by
  unfold parsePointerEncoding
  apply normal_bind (u8_normal r)
  intro ⟨b, r'⟩ _
  dsimp only
  split <;> simp [Out.Normal]

theorem augLoop_normal (m : Mode) (e : Endian) (bases : Bases) (asz : Nat) (hs : SizeOk m asz) :
    ∀ (s : Bytes) pf aug data input, (augLoop m e bases asz s pf aug data input).Normal := by
  intro s
  induction s with
  | nil => intro pf aug data input; simp [augLoop, Out.Normal]
  | cons ch s ih =>
    intro pf aug data input
    simp only [augLoop]
    split
    · split
      · simp [Out.Normal]
      · apply normal_bind (lift_normal _ _ (Props.C01.uleb_total _))
        intro ⟨len, input'⟩ _
        apply normal_bind (split_normal _ _)
        intro ⟨d, input''⟩ _
        exact ih _ _ _ _
    · split
      · cases data with
        | none => simp [Out.Normal]
        | some d =>
          dsimp only
          apply normal_bind (parsePointerEncoding_normal d)
          intro ⟨enc, d'⟩ _
          exact ih _ _ _ _
      · split
        · cases data with
          | none => simp [Out.Normal]
          | some d =>
            dsimp only
            apply normal_bind (parsePointerEncoding_normal d)
            intro ⟨enc, d'⟩ _
            apply normal_bind (pep_normal m e enc _ d' hs)
            intro ⟨p, d''⟩ _
            exact ih _ _ _ _
        · split
          · cases data with
            | none => simp [Out.Normal]
            | some d =>
              dsimp only
              apply normal_bind (parsePointerEncoding_normal d)
              intro ⟨enc, d'⟩ _
              exact ih _ _ _ _
          · split
            · exact ih _ _ _ _
            · simp [Out.Normal]

theorem readCieId_normal (c : Cfg) (format : Format) (rest : Rd) : (readCieId c format rest).Normal := by
  unfold readCieId
  split <;> exact lift_normal _ _ (Props.C01.fixed_total _ _ _)

theorem parsePrefix_normal (c : Cfg) (r : Rd) : (parsePrefix c r).Normal := by
  unfold parsePrefix
  apply normal_bind (lift_normal _ _ (Props.C01.initial_length_total _ _ _))
  intro ⟨⟨length, format⟩, r'⟩ _
  dsimp only
  split
  · simp [Out.Normal]
  · apply normal_bind (split_normal _ _)
    intro ⟨rest, r''⟩ _
    apply normal_bind (readCieId_normal _ _ _)
    intro ⟨id, rest'⟩ _
    simp [Out.Normal]

theorem sizeOk_of_addressSize {m : Mode} {bs : Bytes} {v : Nat} {rest : Bytes}
    (h : readAddressSize bs = .ok (v, rest)) : SizeOk m v := by
  obtain ⟨b, _, _, hv⟩ := (readAddressSize_ok_iff bs v rest).mp h
  left; omega

theorem readAddressSize_normal (bs : Bytes) : (readAddressSize bs).Normal := by
  unfold readAddressSize
  split
  · simp [Out.Normal]
  · split <;> simp [Out.Normal]

theorem lift_ok_inv {α : Type} {f : Bytes → Out (α × Bytes)} {r : Rd} {a : α} {r' : Rd}
    (h : r.lift f = .ok (a, r')) : f r.bs = .ok (a, r'.bs) := by
  unfold Rd.lift at h
  cases hf : f r.bs with
  | ok p =>
    obtain ⟨a', rest⟩ := p
    rw [hf] at h
    simp only [Out.bind_ok, Out.pure_eq, Out.ok.injEq, Prod.mk.injEq] at h
    rw [← h.1, ← h.2]
  | err x => rw [hf] at h; simp at h
  | panic w => rw [hf] at h; simp at h
  | diverge => rw [hf] at h; simp at h

theorem cieAddressSize_normal (c : Cfg) (version : Nat) (rest : Rd) :
    (cieAddressSize c version rest).Normal := by
  unfold cieAddressSize
  split
  · apply normal_bind (lift_normal _ _ (readAddressSize_normal _))
    intro ⟨asz, rest'⟩ _
    apply normal_bind (u8_normal _)
    intro ⟨seg, rest''⟩ _
    dsimp only
    split <;> simp [Out.Normal]
  · simp [Out.Normal]

theorem cieAddressSize_sizeOk (c : Cfg) (version : Nat) (rest : Rd) (a : Nat × Rd)
    (hs : SizeOk c.m c.asz) (ha : cieAddressSize c version rest = .ok a) : SizeOk c.m a.1 := by
  unfold cieAddressSize at ha
  split at ha
  · cases hl : rest.lift readAddressSize with
    | ok x =>
      obtain ⟨asz, rest'⟩ := x
      rw [hl] at ha
      simp only [Out.bind_ok] at ha
      have hsz : SizeOk c.m asz := sizeOk_of_addressSize (lift_ok_inv hl)
      cases hu : rest'.u8 with
      | ok y =>
        obtain ⟨seg, rest''⟩ := y
        rw [hu] at ha
        simp only [Out.bind_ok] at ha
        split at ha
        · simp at ha
        · simp only [Out.pure_eq, Out.ok.injEq] at ha
          rw [← ha]; exact hsz
      | err x => rw [hu] at ha; simp at ha
      | panic w => rw [hu] at ha; simp at ha
      | diverge => rw [hu] at ha; simp at ha
    | err x => rw [hl] at ha; simp at ha
    | panic w => rw [hl] at ha; simp at ha
    | diverge => rw [hl] at ha; simp at ha
  · simp only [Out.pure_eq, Out.ok.injEq] at ha
    rw [← ha]; exact hs

theorem cieRar_normal (version : Nat) (rest : Rd) : (cieRar version rest).Normal := by
  unfold cieRar
  split
  · exact u8_normal _
  · apply normal_bind (lift_normal _ _ (Props.C01.uleb_total _))
    intro ⟨v, rest'⟩ _
    dsimp only
    split <;> simp [Out.Normal]

theorem cieAug_normal (c : Cfg) (bases : Bases) (asz : Nat) (augStr : Bytes) (rest : Rd)
    (hs : SizeOk c.m asz) : (cieAug c bases asz augStr rest).Normal := by
  unfold cieAug
  split
  · simp [Out.Normal]
  · apply normal_bind (augLoop_normal c.m c.e bases asz hs _ _ _ _ _)
    intro ⟨a, rest'⟩ _
    simp [Out.Normal]

theorem cieFromPrefix_normal (c : Cfg) (bases : Bases) (p : Prefix) (hs : SizeOk c.m c.asz) :
    (cieFromPrefix c bases p).Normal := by
  unfold cieFromPrefix
  apply normal_bind (u8_normal _)
  intro ⟨version, rest⟩ _
  dsimp only
  split
  · simp [Out.Normal]
  · apply normal_bind (readCstr_normal _)
    intro ⟨augStr, rest⟩ _
    apply normal_bind (cieAddressSize_normal _ _ _)
    intro ⟨asz, rest⟩ hok
    have hsz : SizeOk c.m asz := cieAddressSize_sizeOk c _ _ _ hs hok
    apply normal_bind (lift_normal _ _ (Props.C01.uleb_total _))
    intro ⟨caf, rest⟩ _
    apply normal_bind (lift_normal _ _ (Props.C01.sleb_total _))
    intro ⟨daf, rest⟩ _
    apply normal_bind (cieRar_normal _ _)
    intro ⟨rar, rest⟩ _
    apply normal_bind (cieAug_normal c bases asz augStr rest hsz)
    intro ⟨aug, rest⟩ _
    simp [Out.Normal]

/-- a CIE that parsed has an address size `ones_sized` can handle -/
theorem cieFromPrefix_sizeOk (c : Cfg) (bases : Bases) (p : Prefix) (cie : Cie)
    (hs : SizeOk c.m c.asz) (h : cieFromPrefix c bases p = .ok cie) : SizeOk c.m cie.asz := by
  unfold cieFromPrefix at h
  cases h1 : p.rest.u8 with
  | ok x1 =>
    obtain ⟨version, rest⟩ := x1
    rw [h1] at h; simp only [Out.bind_ok] at h
    split at h
    · simp at h
    · cases h2 : readCstr rest with
      | ok x2 =>
        obtain ⟨augStr, rest⟩ := x2
        rw [h2] at h; simp only [Out.bind_ok] at h
        cases h3 : cieAddressSize c version rest with
        | ok x3 =>
          have hsz := cieAddressSize_sizeOk c _ _ _ hs h3
          obtain ⟨asz, rest⟩ := x3
          rw [h3] at h; simp only [Out.bind_ok] at h
          cases h4 : rest.lift Leb.unsigned with
          | ok x4 =>
            obtain ⟨caf, rest⟩ := x4
            rw [h4] at h; simp only [Out.bind_ok] at h
            cases h5 : rest.lift Leb.signed with
            | ok x5 =>
              obtain ⟨daf, rest⟩ := x5
              rw [h5] at h; simp only [Out.bind_ok] at h
              cases h6 : cieRar version rest with
              | ok x6 =>
                obtain ⟨rar, rest⟩ := x6
                rw [h6] at h; simp only [Out.bind_ok] at h
                cases h7 : cieAug c bases asz augStr rest with
                | ok x7 =>
                  obtain ⟨aug, rest⟩ := x7
                  rw [h7] at h
                  simp only [Out.bind_ok, Out.pure_eq, Out.ok.injEq] at h
                  rw [← h]; exact hsz
                | err x => rw [h7] at h; simp at h
                | panic w => rw [h7] at h; simp at h
                | diverge => rw [h7] at h; simp at h
              | err x => rw [h6] at h; simp at h
              | panic w => rw [h6] at h; simp at h
              | diverge => rw [h6] at h; simp at h
            | err x => rw [h5] at h; simp at h
            | panic w => rw [h5] at h; simp at h
            | diverge => rw [h5] at h; simp at h
          | err x => rw [h4] at h; simp at h
          | panic w => rw [h4] at h; simp at h
          | diverge => rw [h4] at h; simp at h
        | err x => rw [h3] at h; simp at h
        | panic w => rw [h3] at h; simp at h
        | diverge => rw [h3] at h; simp at h
      | err x => rw [h2] at h; simp at h
      | panic w => rw [h2] at h; simp at h
      | diverge => rw [h2] at h; simp at h
  | err x => rw [h1] at h; simp at h
  | panic w => rw [h1] at h; simp at h
  | diverge => rw [h1] at h; simp at h


theorem partialFromPrefix_normal (c : Cfg) (p : Prefix) : (partialFromPrefix c p).Normal := by
  unfold partialFromPrefix; split <;> simp [Out.Normal]

theorem parseCfiEntry_normal (c : Cfg) (bases : Bases) (r : Rd) (hs : SizeOk c.m c.asz) :
    (parseCfiEntry c bases r).Normal := by
  unfold parseCfiEntry
  apply normal_bind (parsePrefix_normal c r)
  intro ⟨op, r'⟩ _
  cases op with
  | none => simp [Out.Normal]
  | some p =>
    dsimp only
    split
    · apply normal_bind (cieFromPrefix_normal c bases p hs)
      intro cie _; simp [Out.Normal]
    · apply normal_bind (partialFromPrefix_normal c p)
      intro f _; simp [Out.Normal]

theorem readInitialLength_consumes (e : Endian) (bs : Bytes) (v : Nat × Format) (rest : Bytes)
    (h : readInitialLength e 64 bs = .ok (v, rest)) : rest.length + 4 ≤ bs.length := by
  rw [readInitialLength_cases] at h
  split at h
  · simp at h
  · rename_i h4
    simp only at h
    split at h
    · simp only [Out.ok.injEq, Prod.mk.injEq] at h
      rw [← h.2, List.length_drop]; omega
    · split at h
      · split at h
        · simp at h
        · split at h
          · simp only [Out.ok.injEq, Prod.mk.injEq] at h
            rw [← h.2, List.length_drop]; omega
          · simp at h
      · simp at h

theorem parsePrefix_consumes (c : Cfg) (r : Rd) (op : Option Prefix) (r' : Rd)
    (h : parsePrefix c r = .ok (op, r')) : r'.bs.length + 4 ≤ r.bs.length := by
  unfold parsePrefix at h
  cases h1 : r.lift (readInitialLength c.e 64) with
  | ok x =>
    obtain ⟨⟨length, format⟩, r1⟩ := x
    have hc := readInitialLength_consumes _ _ _ _ (lift_ok_inv h1)
    rw [h1] at h
    simp only [Out.bind_ok] at h
    split at h
    · simp only [Out.pure_eq, Out.ok.injEq, Prod.mk.injEq] at h
      rw [← h.2]; exact hc
    · cases h2 : r1.split length with
      | ok y =>
        obtain ⟨rest, r2⟩ := y
        rw [h2] at h
        simp only [Out.bind_ok] at h
        have hr2 : r2.bs.length ≤ r1.bs.length := by
          unfold Rd.split at h2
          split at h2
          · simp only [Out.ok.injEq, Prod.mk.injEq] at h2
            rw [← h2.2]; simp [List.length_drop]
          · simp at h2
        cases h3 : readCieId c format rest with
        | ok z =>
          obtain ⟨id, rest'⟩ := z
          rw [h3] at h
          simp only [Out.bind_ok, Out.pure_eq, Out.ok.injEq, Prod.mk.injEq] at h
          rw [← h.2]; omega
        | err x => rw [h3] at h; simp at h
        | panic w => rw [h3] at h; simp at h
        | diverge => rw [h3] at h; simp at h
      | err x => rw [h2] at h; simp at h
      | panic w => rw [h2] at h; simp at h
      | diverge => rw [h2] at h; simp at h
  | err x => rw [h1] at h; simp at h
  | panic w => rw [h1] at h; simp at h
  | diverge => rw [h1] at h; simp at h

theorem parseCfiEntry_consumes (c : Cfg) (bases : Bases) (r : Rd) (oe : Option Entry) (r' : Rd)
    (h : parseCfiEntry c bases r = .ok (oe, r')) : r'.bs.length + 4 ≤ r.bs.length := by
  unfold parseCfiEntry at h
  cases h1 : parsePrefix c r with
  | ok x =>
    obtain ⟨op, r1⟩ := x
    have hc := parsePrefix_consumes c r op r1 h1
    rw [h1] at h
    simp only [Out.bind_ok] at h
    cases op with
    | none =>
      simp only [Out.pure_eq, Out.ok.injEq, Prod.mk.injEq] at h
      rw [← h.2]; exact hc
    | some p =>
      dsimp only at h
      split at h
      · cases h2 : cieFromPrefix c bases p with
        | ok cie =>
          rw [h2] at h
          simp only [Out.bind_ok, Out.pure_eq, Out.ok.injEq, Prod.mk.injEq] at h
          rw [← h.2]; exact hc
        | err x => rw [h2] at h; simp at h
        | panic w => rw [h2] at h; simp at h
        | diverge => rw [h2] at h; simp at h
      · cases h2 : partialFromPrefix c p with
        | ok f =>
          rw [h2] at h
          simp only [Out.bind_ok, Out.pure_eq, Out.ok.injEq, Prod.mk.injEq] at h
          rw [← h.2]; exact hc
        | err x => rw [h2] at h; simp at h
        | panic w => rw [h2] at h; simp at h
        | diverge => rw [h2] at h; simp at h
  | err x => rw [h1] at h; simp at h
  | panic w => rw [h1] at h; simp at h
  | diverge => rw [h1] at h; simp at h

/-- `CfiEntriesIter::next` terminates (fuel = remaining bytes + 1 suffices) and never panics;
every item it yields consumed at least 4 bytes -/
theorem next_normal (c : Cfg) (bases : Bases) (hs : SizeOk c.m c.asz) :
    ∀ fuel (r : Rd), r.bs.length < fuel →
      (next c bases fuel r).Normal ∧
      ∀ en r', next c bases fuel r = .ok (some en, r') → r'.bs.length + 4 ≤ r.bs.length := by
  intro fuel
  induction fuel with
  | zero => intro r h; omega
  | succ fuel ih =>
    intro r hf
    rw [next]
    split
    · exact ⟨by simp [Out.Normal], by intro en r' h; simp at h⟩
    · have hn := parseCfiEntry_normal c bases r hs
      cases hp : parseCfiEntry c bases r with
      | ok x =>
        obtain ⟨oe, r1⟩ := x
        have hc := parseCfiEntry_consumes c bases r oe r1 hp
        cases oe with
        | some en =>
          refine ⟨by simp [Out.Normal], ?_⟩
          intro en' r' h
          simp only [Out.ok.injEq, Prod.mk.injEq] at h
          rw [← h.2]; exact hc
        | none =>
          dsimp only
          split
          · exact ⟨by simp [Out.Normal], by intro en r' h; simp at h⟩
          · obtain ⟨h1, h2⟩ := ih r1 (by omega)
            refine ⟨h1, ?_⟩
            intro en r' h
            have := h2 en r' h
            omega
      | err x => exact ⟨by simp [Out.Normal], by intro en r' h; simp at h⟩
      | panic w => rw [hp] at hn; simp [Out.Normal] at hn
      | diverge => rw [hp] at hn; simp [Out.Normal] at hn

/-- iterating a whole section ends (`Ok(None)` or an error) within `length + 1` items -/
theorem entries_normal (c : Cfg) (bases : Bases) (hs : SizeOk c.m c.asz) :
    ∀ fuel (r : Rd), r.bs.length < fuel → (entries c bases fuel r).2.Normal := by
  intro fuel
  induction fuel with
  | zero => intro r h; omega
  | succ fuel ih =>
    intro r hf
    rw [entries]
    obtain ⟨hn, hc⟩ := next_normal c bases hs (r.bs.length + 1) r (by omega)
    cases hx : next c bases (r.bs.length + 1) r with
    | ok x =>
      obtain ⟨oe, r'⟩ := x
      cases oe with
      | some en =>
        have := hc en r' hx
        exact ih r' (by omega)
      | none => simp [Out.Normal]
    | err x => simp [Out.Normal]
    | panic w => rw [hx] at hn; simp [Out.Normal] at hn
    | diverge => rw [hx] at hn; simp [Out.Normal] at hn


theorem cieFromOffset_normal (c : Cfg) (bases : Bases) (sec : Bytes) (off : Nat) (hs : SizeOk c.m c.asz) :
    (cieFromOffset c bases sec off).Normal := by
  unfold cieFromOffset
  apply normal_bind (skip_normal _ _)
  intro r _
  apply normal_bind (parsePrefix_normal c r)
  intro ⟨op, r'⟩ _
  cases op with
  | none => simp [Out.Normal]
  | some p =>
    dsimp only
    split
    · simp [Out.Normal]
    · exact cieFromPrefix_normal c bases p hs

theorem cieFromOffset_sizeOk (c : Cfg) (bases : Bases) (sec : Bytes) (off : Nat) (cie : Cie)
    (hs : SizeOk c.m c.asz) (h : cieFromOffset c bases sec off = .ok cie) : SizeOk c.m cie.asz := by
  unfold cieFromOffset at h
  cases h1 : (⟨0, sec⟩ : Rd).skip off with
  | ok r =>
    rw [h1] at h; simp only [Out.bind_ok] at h
    cases h2 : parsePrefix c r with
    | ok x =>
      obtain ⟨op, r'⟩ := x
      rw [h2] at h; simp only [Out.bind_ok] at h
      cases op with
      | none => simp at h
      | some p =>
        dsimp only at h
        split at h
        · simp at h
        · exact cieFromPrefix_sizeOk c bases p cie hs h
    | err x => rw [h2] at h; simp at h
    | panic w => rw [h2] at h; simp at h
    | diverge => rw [h2] at h; simp at h
  | err x => rw [h1] at h; simp at h
  | panic w => rw [h1] at h; simp at h
  | diverge => rw [h1] at h; simp at h

theorem parseAddresses_normal (c : Cfg) (cie : Cie) (params : PeParams) (r : Rd)
    (hs : SizeOk c.m params.asz) : (parseAddresses c cie params r).Normal := by
  unfold parseAddresses
  split
  · rename_i enc _
    apply normal_bind (pep_normal c.m c.e enc params r hs)
    intro ⟨p, r'⟩ hok
    -- the encoding went through `parse_encoded_pointer`: it is valid and not `omit`
    have hvalid : isValidEncoding enc = true ∧ enc ≠ 0xff := by
      unfold parseEncodedPointer at hok
      split at hok
      · simp at hok
      · rename_i hv
        split at hok
        · simp at hok
        · rename_i ho; exact ⟨by simpa using hv, ho⟩
    apply normal_bind (pev_normal c.e enc params.asz r' (validFormat hvalid.1 hvalid.2).1)
    intro ⟨range, r''⟩ _
    simp [Out.Normal]
  · apply normal_bind (lift_normal _ _ (Props.C01.address_total _ _ _))
    intro ⟨i, r'⟩ _
    apply normal_bind (lift_normal _ _ (Props.C01.address_total _ _ _))
    intro ⟨range, r''⟩ _
    simp [Out.Normal]

theorem fdeAugData_normal (c : Cfg) (cie : Cie) (params : PeParams) (initial : Nat) (rest : Rd)
    (hs : SizeOk c.m params.asz) : (fdeAugData c cie params initial rest).Normal := by
  unfold fdeAugData
  split
  · apply normal_bind (lift_normal _ _ (Props.C01.uleb_total _))
    intro ⟨len, rest'⟩ _
    apply normal_bind (split_normal _ _)
    intro ⟨d, rest''⟩ _
    dsimp only
    split
    · rename_i enc _
      apply normal_bind (pep_normal c.m c.e enc { bases := params.bases, funcBase := some initial, asz := params.asz } d hs)
      intro ⟨ptr, _⟩ _
      simp [Out.Normal]
    · simp [Out.Normal]
  · simp [Out.Normal]

theorem parseRest_normal (c : Cfg) (bases : Bases) (sec : Bytes) (p : PartialFde)
    (hs : SizeOk c.m c.asz) : (parseRest c bases sec p).Normal := by
  unfold parseRest
  apply normal_bind (cieFromOffset_normal c bases sec _ hs)
  intro cie hcie
  have hsz := cieFromOffset_sizeOk c bases sec _ cie hs hcie
  apply normal_bind (parseAddresses_normal c cie _ _ hsz)
  intro ⟨⟨initial, range⟩, rest⟩ _
  apply normal_bind (fdeAugData_normal c cie _ initial rest hsz)
  intro ⟨lsda, rest'⟩ _
  simp [Out.Normal]

theorem parseRest_sizeOk (c : Cfg) (bases : Bases) (sec : Bytes) (p : PartialFde) (f : Fde)
    (hs : SizeOk c.m c.asz) (h : parseRest c bases sec p = .ok f) : SizeOk c.m f.cie.asz := by
  unfold parseRest at h
  cases h1 : cieFromOffset c bases sec p.cieOffset with
  | ok cie =>
    have hsz := cieFromOffset_sizeOk c bases sec _ cie hs h1
    rw [h1] at h; simp only [Out.bind_ok] at h
    cases h2 : parseAddresses c cie { bases := bases.ehFrame, funcBase := none, asz := cie.asz } p.rest with
    | ok x =>
      obtain ⟨⟨initial, range⟩, rest⟩ := x
      rw [h2] at h; simp only [Out.bind_ok] at h
      cases h3 : fdeAugData c cie { bases := bases.ehFrame, funcBase := none, asz := cie.asz } initial rest with
      | ok y =>
        obtain ⟨lsda, rest'⟩ := y
        rw [h3] at h
        simp only [Out.bind_ok, Out.pure_eq, Out.ok.injEq] at h
        rw [← h]; exact hsz
      | err x => rw [h3] at h; simp at h
      | panic w => rw [h3] at h; simp at h
      | diverge => rw [h3] at h; simp at h
    | err x => rw [h2] at h; simp at h
    | panic w => rw [h2] at h; simp at h
    | diverge => rw [h2] at h; simp at h
  | err x => rw [h1] at h; simp at h
  | panic w => rw [h1] at h; simp at h
  | diverge => rw [h1] at h; simp at h

theorem contains_normal (m : Mode) (f : Fde) (a : Nat) (hs : SizeOk m f.cie.asz) :
    (f.contains m a).Normal := by
  unfold Fde.contains Fde.endAddress
  split
  · apply normal_bind (wrappingAddSized_normal _ _ _ _ hs)
    intro e _; simp [Out.Normal]
  · simp [Out.Normal]

theorem scan_normal (c : Cfg) (bases : Bases) (sec : Bytes) (a : Nat) (hs : SizeOk c.m c.asz) :
    ∀ (l : List Entry) (fin : Out Unit), fin.Normal → (scan c bases sec a l fin).Normal := by
  intro l
  induction l with
  | nil => intro fin hf; cases fin <;> simp_all [scan, Out.Normal]
  | cons en l ih =>
    intro fin hf
    cases en with
    | cie ci => simp only [scan]; exact ih fin hf
    | fde p =>
      simp only [scan]
      apply normal_bind (parseRest_normal c bases sec p hs)
      intro f hfok
      apply normal_bind (contains_normal c.m f a (parseRest_sizeOk c bases sec p f hs hfok))
      intro ct _
      split
      · simp [Out.Normal]
      · exact ih fin hf

theorem fdeForAddress_normal (c : Cfg) (bases : Bases) (sec : Bytes) (a : Nat) (hs : SizeOk c.m c.asz) :
    (fdeForAddress c bases sec a).Normal := by
  unfold fdeForAddress
  rw [fdeForAddressLoop_eq_scan]
  exact scan_normal c bases sec a hs _ _ (entries_normal c bases hs _ _ (by simp))

theorem fdeFromOffset_normal (c : Cfg) (bases : Bases) (sec : Bytes) (off : Nat) (hs : SizeOk c.m c.asz) :
    (fdeFromOffset c bases sec off).Normal := by
  unfold fdeFromOffset
  apply normal_bind (skip_normal _ _)
  intro r _
  apply normal_bind (parsePrefix_normal c r)
  intro ⟨op, r'⟩ _
  cases op with
  | none => simp [Out.Normal]
  | some p =>
    dsimp only
    split
    · simp [Out.Normal]
    · apply normal_bind (partialFromPrefix_normal c p)
      intro pf _
      exact parseRest_normal c bases sec pf hs

theorem fdeFromOffset_sizeOk (c : Cfg) (bases : Bases) (sec : Bytes) (off : Nat) (f : Fde)
    (hs : SizeOk c.m c.asz) (h : fdeFromOffset c bases sec off = .ok f) : SizeOk c.m f.cie.asz := by
  unfold fdeFromOffset at h
  cases h1 : (⟨0, sec⟩ : Rd).skip off with
  | ok r =>
    rw [h1] at h; simp only [Out.bind_ok] at h
    cases h2 : parsePrefix c r with
    | ok x =>
      obtain ⟨op, r'⟩ := x
      rw [h2] at h; simp only [Out.bind_ok] at h
      cases op with
      | none => simp at h
      | some p =>
        dsimp only at h
        split at h
        · simp at h
        · cases h3 : partialFromPrefix c p with
          | ok pf =>
            rw [h3] at h; simp only [Out.bind_ok] at h
            exact parseRest_sizeOk c bases sec pf f hs h
          | err x => rw [h3] at h; simp at h
          | panic w => rw [h3] at h; simp at h
          | diverge => rw [h3] at h; simp at h
    | err x => rw [h2] at h; simp at h
    | panic w => rw [h2] at h; simp at h
    | diverge => rw [h2] at h; simp at h
  | err x => rw [h1] at h; simp at h
  | panic w => rw [h1] at h; simp at h
  | diverge => rw [h1] at h; simp at h

theorem hdrCount_normal (e : Endian) (cntEnc tblEnc asz : Nat) (r : Rd)
    (hv : isValidEncoding cntEnc = true) : (hdrCount e cntEnc tblEnc asz r).Normal := by
  unfold hdrCount
  split
  · simp [Out.Normal]
  · rename_i ho
    split
    · simp [Out.Normal]
    · exact pev_normal e cntEnc asz r (validFormat hv (by omega)).1

theorem parsePointerEncoding_valid (r : Rd) (b : Nat) (r' : Rd)
    (h : parsePointerEncoding r = .ok (b, r')) : isValidEncoding b = true := by
  unfold parsePointerEncoding at h
  cases h1 : r.u8 with
  | ok x =>
    obtain ⟨b', r1⟩ := x
    rw [h1] at h; simp only [Out.bind_ok] at h
    split at h
    · rename_i hv
      simp only [Out.pure_eq, Out.ok.injEq, Prod.mk.injEq] at h
      rw [← h.1]; exact hv
    · simp at h
  | err x => rw [h1] at h; simp at h
  | panic w => rw [h1] at h; simp at h
  | diverge => rw [h1] at h; simp at h

theorem parseHdr_normal (m : Mode) (e : Endian) (bases : Bases) (asz : Nat) (sec : Bytes)
    (hs : SizeOk m asz) : (parseHdr m e bases asz sec).Normal := by
  unfold parseHdr
  apply normal_bind (u8_normal _)
  intro ⟨version, r⟩ _
  dsimp only
  split
  · simp [Out.Normal]
  · apply normal_bind (parsePointerEncoding_normal _)
    intro ⟨ptrEnc, r⟩ _
    apply normal_bind (parsePointerEncoding_normal _)
    intro ⟨cntEnc, r⟩ hc
    apply normal_bind (parsePointerEncoding_normal _)
    intro ⟨tblEnc, r⟩ _
    dsimp only
    split
    · simp [Out.Normal]
    · apply normal_bind (pep_normal m e ptrEnc _ r hs)
      intro ⟨ptr, r⟩ _
      apply normal_bind (hdrCount_normal e cntEnc tblEnc asz r (parsePointerEncoding_valid _ _ _ hc))
      intro ⟨cnt, r⟩ _
      simp [Out.Normal]

theorem pointerToOffset_normal (h : Hdr) (p : Ptr) : (pointerToOffset h p).Normal := by
  unfold pointerToOffset
  apply normal_bind (toDirect_normal _)
  intro a _
  apply normal_bind (toDirect_normal _)
  intro b _
  split <;> simp [Out.Normal]

theorem hdrFdeForAddress_normal (c : Cfg) (bases : Bases) (h : Hdr) (frame : Bytes) (a : Nat)
    (hs : SizeOk c.m c.asz) (hh : SizeOk c.m h.asz) (hc : h.fdeCount < 2 ^ 64) :
    (hdrFdeForAddress c bases h frame a).Normal := by
  unfold hdrFdeForAddress
  apply normal_bind (lookup_normal c.m c.e h bases a hh hc)
  intro ptr _
  apply normal_bind (pointerToOffset_normal h ptr)
  intro off _
  apply normal_bind (fdeFromOffset_normal c bases frame off hs)
  intro f hf
  apply normal_bind (contains_normal c.m f a (fdeFromOffset_sizeOk c bases frame off f hs hf))
  intro ct _
  split <;> simp [Out.Normal]


/-! ### entries round trip: building blocks -/

theorem cstr_append (s t : Bytes) (h : ∀ b, b ∈ s → b ≠ 0) : cstr (s ++ 0 :: t) = some (s, t) := by
  induction s with
  | nil => simp [cstr]
  | cons b s ih =>
    have hb : b ≠ 0 := h b (by simp)
    simp only [List.cons_append, cstr, hb, if_false]
    rw [ih (fun x hx => h x (by simp [hx]))]






theorem lengthField_length (e : Endian) (f : Format) (n : Nat) : (lengthField e f n).length = lsz f := by
  cases f <;> simp [lengthField, lsz, toBytes_length]

theorem readInitialLength_lengthField (e : Endian) (f : Format) (n : Nat) (rest : Bytes) (h : LenOk f n) :
    readInitialLength e 64 (lengthField e f n ++ rest) = .ok ((n, f), rest) := by
  have hw : writeInitialLength e f n = .ok (lengthField e f n) := by
    cases f with
    | dwarf32 =>
      simp only [LenOk] at h
      unfold writeInitialLength lengthField writeUdata
      have h1 : ¬ (0xffff_fff0 ≤ n ∧ n ≤ 0xffff_ffff) := by omega
      have h2 : n % 2 ^ (8 * 4) = n := Nat.mod_eq_of_lt (by omega)
      simp [h1, h2]
    | dwarf64 =>
      unfold writeInitialLength lengthField writeUdata
      simp
  have hn : n < 2 ^ 64 := by cases f <;> simp only [LenOk] at h <;> omega
  exact (writeInitialLength_roundtrip e f n _ rest hn hw).1

/-- the prefix of an encoded entry: length field, then `idsz` bytes of CIE id / pointer -/
theorem parsePrefix_encoded (c : Cfg) (f : Format) (off idsz id : Nat) (body' rest : Bytes)
    (hidsz : idsz = if c.eh ∨ f = .dwarf32 then 4 else 8) (hid : id < 256 ^ idsz)
    (hL : LenOk f (idsz + body'.length)) :
    parsePrefix c ⟨off, lengthField c.e f (idsz + body'.length) ++ (toBytes c.e idsz id ++ body') ++ rest⟩ =
      .ok (some { offset := off, length := idsz + body'.length, format := f, cieOffsetBase := off + lsz f,
                  cieIdOrOffset := id, rest := ⟨off + lsz f + idsz, body'⟩ },
           ⟨off + lsz f + (idsz + body'.length), rest⟩) := by
  have hpos : idsz + body'.length ≠ 0 := by
    rw [hidsz]; split <;> omega
  unfold parsePrefix
  rw [List.append_assoc, lift_ok _ _ _ _ _ (readInitialLength_lengthField c.e f _ _ hL)]
  simp only [Out.bind_ok, hpos, if_false, lengthField_length]
  have hlen : (toBytes c.e idsz id ++ body').length = idsz + body'.length := by
    simp [toBytes_length]
  have hsplit : (⟨off + lsz f, toBytes c.e idsz id ++ body' ++ rest⟩ : Rd).split (idsz + body'.length) =
      .ok (⟨off + lsz f, toBytes c.e idsz id ++ body'⟩, ⟨off + lsz f + (idsz + body'.length), rest⟩) := by
    unfold Rd.split
    simp only [List.length_append, toBytes_length]
    rw [if_pos (by omega), List.take_left' hlen, List.drop_left' hlen]
  rw [hsplit]
  simp only [Out.bind_ok]
  have hcid : readCieId c f ⟨off + lsz f, toBytes c.e idsz id ++ body'⟩ =
      .ok (id, ⟨off + lsz f + idsz, body'⟩) := by
    unfold readCieId
    by_cases hc : c.eh ∨ f = .dwarf32
    · have h4 : idsz = 4 := by rw [hidsz, if_pos hc]
      subst h4
      rw [if_pos hc, lift_ok _ _ _ _ _ (readFixed_toBytes c.e 4 id body' hid)]
      simp [toBytes_length]
    · have h8 : idsz = 8 := by rw [hidsz, if_neg hc]
      subst h8
      rw [if_neg hc, lift_ok _ _ _ _ _ (readFixed_toBytes c.e 8 id body' hid)]
      simp [toBytes_length]
  rw [hcid]
  simp only [Out.bind_ok, Out.pure_eq]


set_option linter.unusedSimpArgs false







theorem parsePointerEncoding_byte (o enc : Nat) (t : Bytes) (h : enc < 256) (hv : isValidEncoding enc = true) :
    parsePointerEncoding ⟨o, UInt8.ofNat enc :: t⟩ = .ok (enc, ⟨o + 1, t⟩) := by
  unfold parsePointerEncoding Rd.u8
  have : (UInt8.ofNat enc).toNat = enc := by simp [UInt8.toNat_ofNat']; omega
  simp [this, hv]

theorem augLoop_args (m : Mode) (e : Endian) (bases : Bases) (asz : Nat) (h1 : 1 ≤ asz) (h8 : asz ≤ 8)
    (s drest : Bytes) (input : Rd) :
    ∀ (args : List AugArg) (a : Aug) (o : Nat) (a' : Aug) (o' : Nat),
      (∀ arg, arg ∈ args → ArgWF e bases.ehFrame asz arg) →
      applyArgs e bases.ehFrame asz args a o = some (a', o') →
      augLoop m e bases asz (args.map AugArg.char ++ s) true a
          (some ⟨o, args.flatMap (AugArg.data e asz) ++ drest⟩) input =
        augLoop m e bases asz s true a' (some ⟨o', drest⟩) input := by
  intro args
  induction args with
  | nil =>
    intro a o a' o' _ h
    simp only [applyArgs, Option.some.injEq, Prod.mk.injEq] at h
    simp [h.1, h.2]
  | cons arg t ih =>
    intro a o a' o' hwf h
    have hw := hwf arg (by simp)
    have hwt : ∀ x, x ∈ t → ArgWF e bases.ehFrame asz x := fun x hx => hwf x (by simp [hx])
    simp only [applyArgs] at h
    cases arg with
    | lsda enc =>
      simp only [applyArg] at h
      obtain ⟨hlt, hv⟩ := hw
      simp only [List.map_cons, List.cons_append, List.flatMap_cons, AugArg.char, AugArg.data, augLoop]
      simp only [show ¬ ((0x4c : UInt8).toNat = 0x7a) by decide, show (0x4c : UInt8).toNat = 0x4c by decide,
        if_false, if_true]
      rw [parsePointerEncoding_byte o enc _ hlt hv]
      simp only [Out.bind_ok]
      exact ih _ _ _ _ hwt h
    | fdeEnc enc =>
      simp only [applyArg] at h
      obtain ⟨hlt, hv⟩ := hw
      simp only [List.map_cons, List.cons_append, List.flatMap_cons, AugArg.char, AugArg.data, augLoop]
      simp only [show ¬ ((0x52 : UInt8).toNat = 0x7a) by decide, show ¬ ((0x52 : UInt8).toNat = 0x4c) by decide,
        show ¬ ((0x52 : UInt8).toNat = 0x50) by decide, show (0x52 : UInt8).toNat = 0x52 by decide,
        if_false, if_true]
      rw [parsePointerEncoding_byte o enc _ hlt hv]
      simp only [Out.bind_ok]
      exact ih _ _ _ _ hwt h
    | signal =>
      simp only [applyArg] at h
      simp only [List.map_cons, List.cons_append, List.flatMap_cons, AugArg.char, AugArg.data, augLoop,
        List.nil_append]
      simp only [show ¬ ((0x53 : UInt8).toNat = 0x7a) by decide, show ¬ ((0x53 : UInt8).toNat = 0x4c) by decide,
        show ¬ ((0x53 : UInt8).toNat = 0x50) by decide, show ¬ ((0x53 : UInt8).toNat = 0x52) by decide,
        show (0x53 : UInt8).toNat = 0x53 by decide, if_false, if_true]
      exact ih _ _ _ _ hwt h
    | pers enc x =>
      simp only [applyArg] at h
      obtain ⟨hlt, hv, ho, hal, hsome⟩ := hw
      cases hb : neededBase enc { bases := bases.ehFrame, funcBase := none, asz := asz } (o + 1) with
      | none => rw [hb] at h; simp at h
      | some b =>
        rw [hb] at h
        simp only at h
        obtain ⟨bytes, hbytes⟩ := Option.isSome_iff_exists.mp hsome
        simp only [List.map_cons, List.cons_append, List.flatMap_cons, AugArg.char, AugArg.data, augLoop]
        simp only [show ¬ ((0x50 : UInt8).toNat = 0x7a) by decide, show ¬ ((0x50 : UInt8).toNat = 0x4c) by decide,
          show (0x50 : UInt8).toNat = 0x50 by decide, if_false, if_true]
        rw [parsePointerEncoding_byte o enc _ hlt hv]
        simp only [Out.bind_ok, hbytes, Option.getD_some, List.append_assoc]
        rw [pep_roundtrip m e enc { bases := bases.ehFrame, funcBase := none, asz := asz } (o + 1) x b bytes _
          hv ho hal h1 h8 hb hbytes]
        simp only [Out.bind_ok]
        rw [hbytes] at h
        exact ih _ _ _ _ hwt h



theorem augChars_nonzero (ci : ACie) : ∀ b, b ∈ ci.augString → b ≠ 0 := by
  intro b hb
  unfold ACie.augString at hb
  split at hb
  · simp at hb
  · simp only [List.mem_cons, List.mem_map] at hb
    rcases hb with h | ⟨a, _, h⟩
    · rw [h]; decide
    · rw [← h]; cases a <;> simp [AugArg.char]

theorem u8_cons (o : Nat) (b : UInt8) (t : Bytes) : (⟨o, b :: t⟩ : Rd).u8 = .ok (b.toNat, ⟨o + 1, t⟩) := rfl

theorem ofNat_toNat (n : Nat) (h : n < 256) : (UInt8.ofNat n).toNat = n := by
  simp [UInt8.toNat_ofNat']; omega

theorem readCstr_aug (ci : ACie) (o : Nat) (t : Bytes) :
    readCstr ⟨o, ci.augString ++ 0 :: t⟩ = .ok (ci.augString, ⟨o + ci.augString.length + 1, t⟩) := by
  unfold readCstr
  simp only [cstr_append _ _ (augChars_nonzero ci)]

theorem cieAddressSize_enc (c : Cfg) (ci : ACie) (o : Nat) (t : Bytes)
    (hasz : ci.asz = 1 ∨ ci.asz = 2 ∨ ci.asz = 4 ∨ ci.asz = 8) :
    cieAddressSize c ci.version ⟨o, ci.aszBytes c.eh ++ t⟩ =
      .ok (cieAsz c ci, ⟨o + (if ¬ c.eh ∧ ci.version = 4 then 2 else 0), t⟩) := by
  unfold cieAddressSize ACie.aszBytes cieAsz
  split
  · have h256 : ci.asz < 256 := by omega
    have hrd : readAddressSize (UInt8.ofNat ci.asz :: 0 :: t) = .ok (ci.asz, 0 :: t) := by
      unfold readAddressSize
      simp only [ofNat_toNat _ h256, hasz, if_true]
    have := lift_ok readAddressSize o [UInt8.ofNat ci.asz] (0 :: t) ci.asz hrd
    simp only [List.cons_append, List.nil_append, List.length_cons, List.length_nil] at this ⊢
    rw [this]
    simp [u8_cons]
  · simp

theorem lift_uleb (o v : Nat) (t : Bytes) (hv : v < 2 ^ 64) :
    (⟨o, Leb.encodeU v ++ t⟩ : Rd).lift Leb.unsigned = .ok (v, ⟨o + (Leb.encodeU v).length, t⟩) :=
  lift_ok _ _ _ _ _ (Leb.unsigned_roundtrip v hv t)

theorem lift_sleb (o : Nat) (v : Int) (t : Bytes) (h1 : -(2 : Int) ^ 63 ≤ v) (h2 : v < 2 ^ 63) :
    (⟨o, Leb.encodeS v ++ t⟩ : Rd).lift Leb.signed = .ok (v, ⟨o + (Leb.encodeS v).length, t⟩) :=
  lift_ok _ _ _ _ _ (Leb.signed_roundtrip v h1 h2 t)

theorem cieRar_enc (ci : ACie) (o : Nat) (t : Bytes)
    (hrar : if ci.version = 1 then ci.rar < 256 else ci.rar < 2 ^ 16) :
    cieRar ci.version ⟨o, ci.rarBytes ++ t⟩ = .ok (ci.rar, ⟨o + ci.rarBytes.length, t⟩) := by
  unfold cieRar ACie.rarBytes
  split
  · rename_i h1
    simp only [h1, if_true] at hrar
    simp [u8_cons, ofNat_toNat _ hrar]
  · rename_i h1
    simp only [h1, if_false] at hrar
    rw [lift_uleb _ _ _ (by omega)]
    simp [hrar]

theorem cieAug_enc (c : Cfg) (bases : Bases) (ci : ACie) (o o0 : Nat) (t : Bytes)
    (hasz : ci.asz = 1 ∨ ci.asz = 2 ∨ ci.asz = 4 ∨ ci.asz = 8)
    (hargs : ∀ arg, arg ∈ ci.args → ArgWF c.e bases.ehFrame ci.asz arg)
    (hdata : (ci.augData c.e).length < 2 ^ 64)
    (hdo : ci.args.isEmpty = false → o + (Leb.encodeU (ci.augData c.e).length).length = ci.dataOff c o0)
    (hbase : (applyArgs c.e bases.ehFrame ci.asz ci.args {} (ci.dataOff c o0)).isSome = true) :
    cieAug c bases ci.asz ci.augString ⟨o, ci.augBlock c.e ++ t⟩ =
      .ok (ci.expectAug c bases o0,
        ⟨if ci.args.isEmpty then o else ci.dataOff c o0 + (ci.augData c.e).length, t⟩) := by
  unfold cieAug ACie.augString ACie.augBlock ACie.expectAug
  by_cases hemp : ci.args.isEmpty = true
  · simp [hemp]
  · have hne : ci.args.isEmpty = false := by simpa using hemp
    simp only [hne, Bool.false_eq_true, if_false, List.isEmpty_cons]
    obtain ⟨⟨a', o'⟩, hap⟩ := Option.isSome_iff_exists.mp hbase
    simp only [augLoop, if_true, Bool.false_eq_true, if_false]
    rw [List.append_assoc, lift_uleb _ _ _ hdata]
    simp only [Out.bind_ok]
    have hsplit : (⟨o + (Leb.encodeU (ci.augData c.e).length).length, ci.augData c.e ++ t⟩ : Rd).split
        (ci.augData c.e).length =
        .ok (⟨o + (Leb.encodeU (ci.augData c.e).length).length, ci.augData c.e⟩,
             ⟨o + (Leb.encodeU (ci.augData c.e).length).length + (ci.augData c.e).length, t⟩) := by
      unfold Rd.split
      rw [if_pos (by simp), List.take_left' rfl, List.drop_left' rfl]
    rw [hsplit]
    simp only [Out.bind_ok]
    have h1 : 1 ≤ ci.asz := by omega
    have h8 : ci.asz ≤ 8 := by omega
    rw [hdo hne]
    have hloop := augLoop_args c.m c.e bases ci.asz h1 h8 [] ci.augPad
      ⟨ci.dataOff c o0 + (ci.augData c.e).length, t⟩
      ci.args {} (ci.dataOff c o0) a' o' hargs hap
    unfold ACie.augData at hloop ⊢
    simp only [List.append_nil] at hloop
    simp only [show (122 : UInt8).toNat = 122 by decide, if_true]
    rw [hloop]
    simp [augLoop, hap]

theorem cieFromPrefix_encoded (c : Cfg) (bases : Bases) (ci : ACie) (p : Prefix) (o : Nat)
    (hp : p.rest = ⟨o, ci.fields c.eh c.e⟩) (hw : ci.WF c bases o) :
    cieFromPrefix c bases p =
      .ok { offset := p.offset, length := p.length, format := p.format, version := ci.version,
            aug := ci.expectAug c bases o, asz := cieAsz c ci, caf := ci.caf, daf := ci.daf, rar := ci.rar,
            instr := ⟨ci.instrOff c o, ci.instr⟩ } := by
  obtain ⟨hver, hasz, hsame, hcaf, hdaf, hrar, hargs, hbase, hdata⟩ := hw
  have hv256 : ci.version < 256 := by omega
  have hca : cieAsz c ci = ci.asz := by
    unfold cieAsz
    split
    · rfl
    · rename_i h; exact (hsame h).symm
  unfold cieFromPrefix
  rw [hp]
  unfold ACie.fields
  rw [u8_cons, ofNat_toNat _ hv256]
  simp only [Out.bind_ok]
  rw [if_neg (by simp [hver])]
  rw [readCstr_aug]
  simp only [Out.bind_ok]
  rw [cieAddressSize_enc c ci _ _ hasz]
  simp only [Out.bind_ok]
  rw [lift_uleb _ _ _ hcaf]
  simp only [Out.bind_ok]
  rw [lift_sleb _ _ _ hdaf.1 hdaf.2]
  simp only [Out.bind_ok]
  rw [cieRar_enc ci _ _ hrar]
  simp only [Out.bind_ok]
  rw [hca]
  have hoff : o + 1 + ci.augString.length + 1 + (if ¬c.eh = true ∧ ci.version = 4 then 2 else 0) +
      (Leb.encodeU ci.caf).length + (Leb.encodeS ci.daf).length + ci.rarBytes.length = ci.afterRar c o := by
    unfold ACie.afterRar; omega
  rw [hoff]
  rw [cieAug_enc c bases ci (ci.afterRar c o) o ci.instr hasz hargs hdata (by intro _; rfl) hbase]
  simp only [Out.bind_ok, Out.pure_eq, ACie.instrOff]


theorem cieIdField_eq (eh : Bool) (e : Endian) (f : Format) :
    cieIdField eh e f = toBytes e (idSize eh f) (cieIdVal eh f) ∧ cieIdVal eh f < 256 ^ idSize eh f ∧
    isCie ⟨eh, e, 0, .debug⟩ f (cieIdVal eh f) = true := by
  unfold cieIdField idSize cieIdVal isCie
  cases eh <;> cases f <;> simp

theorem isCie_cfg (c : Cfg) (f : Format) (id : Nat) : isCie c f id = isCie ⟨c.eh, c.e, 0, .debug⟩ f id := rfl

theorem encodeCie_eq (c : Cfg) (ci : ACie) :
    encodeCie c.eh c.e ci =
      lengthField c.e ci.format (idSize c.eh ci.format + (ci.fields c.eh c.e).length) ++
        (toBytes c.e (idSize c.eh ci.format) (cieIdVal c.eh ci.format) ++ ci.fields c.eh c.e) := by
  unfold encodeCie
  simp only [(cieIdField_eq c.eh c.e ci.format).1, List.length_append, toBytes_length]

/-- **one encoded CIE parses to itself** (entry level, any following bytes) -/
theorem parseCfiEntry_cie (c : Cfg) (bases : Bases) (ci : ACie) (off : Nat) (rest : Bytes)
    (hw : ci.WF c bases (off + lsz ci.format + idSize c.eh ci.format))
    (hL : LenOk ci.format (idSize c.eh ci.format + (ci.fields c.eh c.e).length)) :
    parseCfiEntry c bases ⟨off, encodeCie c.eh c.e ci ++ rest⟩ =
      .ok (some (.cie (ci.expect c bases off)), ⟨off + ci.size c.eh c.e, rest⟩) := by
  obtain ⟨_, hid, hcie⟩ := cieIdField_eq c.eh c.e ci.format
  unfold parseCfiEntry
  rw [encodeCie_eq, parsePrefix_encoded c ci.format off (idSize c.eh ci.format) (cieIdVal c.eh ci.format) (ci.fields c.eh c.e) rest rfl hid hL]
  simp only [Out.bind_ok]
  rw [isCie_cfg, hcie]
  simp only [if_true]
  rw [cieFromPrefix_encoded c bases ci _ _ rfl hw]
  simp only [Out.bind_ok, Out.pure_eq, ACie.expect, ACie.size, Nat.add_assoc]

/-- `cie_from_offset` at the offset of an encoded CIE inside any section -/
theorem cieFromOffset_encoded (c : Cfg) (bases : Bases) (ci : ACie) (pre post : Bytes)
    (hw : ci.WF c bases (pre.length + lsz ci.format + idSize c.eh ci.format))
    (hL : LenOk ci.format (idSize c.eh ci.format + (ci.fields c.eh c.e).length)) :
    cieFromOffset c bases (pre ++ encodeCie c.eh c.e ci ++ post) pre.length =
      .ok (ci.expect c bases pre.length) := by
  obtain ⟨_, hid, hcie⟩ := cieIdField_eq c.eh c.e ci.format
  unfold cieFromOffset
  have hskip : (⟨0, pre ++ encodeCie c.eh c.e ci ++ post⟩ : Rd).skip pre.length =
      .ok ⟨pre.length, encodeCie c.eh c.e ci ++ post⟩ := by
    unfold Rd.skip
    rw [if_pos (by simp), List.append_assoc, List.drop_left' rfl]
    simp
  rw [hskip]
  simp only [Out.bind_ok]
  rw [encodeCie_eq, parsePrefix_encoded c ci.format pre.length (idSize c.eh ci.format) (cieIdVal c.eh ci.format) (ci.fields c.eh c.e) post rfl hid hL]
  simp only [Out.bind_ok]
  rw [isCie_cfg, hcie]
  simp only [Bool.not_true, Bool.false_eq_true, if_false, not_true_eq_false]
  rw [cieFromPrefix_encoded c bases ci _ _ rfl hw]
  rfl


theorem pep_ptrOk (m : Mode) (e : Endian) (enc : Nat) (p : PeParams) (off x : Nat) (t : Bytes)
    (h : PtrOk e enc p off x) :
    parseEncodedPointer m e enc p ⟨off, (encodeOperand e enc p.asz x).getD [] ++ t⟩ =
      .ok (Ptr.new enc (((neededBase enc p off).getD 0 + x) % 2 ^ 64 % 2 ^ (8 * p.asz)),
           ⟨off + ((encodeOperand e enc p.asz x).getD []).length, t⟩) := by
  obtain ⟨hv, ho, hal, h1, h8, hb, hx⟩ := h
  obtain ⟨b, hb⟩ := Option.isSome_iff_exists.mp hb
  obtain ⟨bytes, hx⟩ := Option.isSome_iff_exists.mp hx
  rw [hb, hx]
  simp only [Option.getD_some]
  exact pep_roundtrip m e enc p off x b bytes t hv ho hal h1 h8 hb hx

theorem pev_some (e : Endian) (enc asz x off : Nat) (t : Bytes)
    (h : (encodeOperand e enc asz x).isSome = true) :
    parseEncodedValue e enc asz ⟨off, (encodeOperand e enc asz x).getD [] ++ t⟩ =
      .ok (x, ⟨off + ((encodeOperand e enc asz x).getD []).length, t⟩) := by
  obtain ⟨bytes, hx⟩ := Option.isSome_iff_exists.mp h
  rw [hx]
  simp only [Option.getD_some]
  exact pev_roundtrip e enc asz x off bytes t hx

theorem ptr_new_pointer (enc v : Nat) : (Ptr.new enc v).pointer = v := by
  unfold Ptr.new; split <;> rfl

theorem parseAddresses_encoded (c : Cfg) (bases : Bases) (cie : Cie) (fd : AFde) (fdeOff : Nat) (t : Bytes)
    (hw : fd.WF c bases cie fdeOff) :
    parseAddresses c cie { bases := bases.ehFrame, funcBase := none, asz := cie.asz }
        ⟨fd.addrOff c.eh fdeOff, fd.addrBytes c.e cie ++ t⟩ =
      .ok ((fd.initial c bases cie fdeOff, fd.range),
           ⟨fd.addrOff c.eh fdeOff + (fd.addrBytes c.e cie).length, t⟩) := by
  have ha := hw.haddr
  unfold parseAddresses AFde.addrBytes AFde.initial
  cases henc : cie.aug.bind (·.fdeEnc) with
  | some enc =>
    rw [henc] at ha
    simp only at ha ⊢
    rw [List.append_assoc, pep_ptrOk c.m c.e enc _ _ _ _ ha.1]
    simp only [Out.bind_ok]
    rw [pev_some c.e enc cie.asz fd.range _ t ha.2]
    simp only [Out.bind_ok, Out.pure_eq, ptr_new_pointer, List.length_append, Nat.add_assoc]
  | none =>
    rw [henc] at ha
    simp only at ha ⊢
    obtain ⟨hasz, hi, hr⟩ := ha
    have hrd1 : readAddress c.e cie.asz (toBytes c.e cie.asz fd.initOp ++ (toBytes c.e cie.asz fd.range ++ t)) =
        .ok (fd.initOp, toBytes c.e cie.asz fd.range ++ t) := by
      unfold readAddress
      rw [if_pos hasz]
      exact readFixed_toBytes _ _ _ _ (by rw [pow256]; exact hi)
    have hrd2 : readAddress c.e cie.asz (toBytes c.e cie.asz fd.range ++ t) = .ok (fd.range, t) := by
      unfold readAddress
      rw [if_pos hasz]
      exact readFixed_toBytes _ _ _ _ (by rw [pow256]; exact hr)
    rw [List.append_assoc, lift_ok _ _ _ _ _ hrd1]
    simp only [Out.bind_ok]
    rw [lift_ok _ _ _ _ _ hrd2]
    simp only [Out.bind_ok, Out.pure_eq, List.length_append, toBytes_length, Nat.add_assoc]

theorem fdeAugData_encoded (c : Cfg) (bases : Bases) (cie : Cie) (fd : AFde) (fdeOff : Nat)
    (hw : fd.WF c bases cie fdeOff) :
    fdeAugData c cie { bases := bases.ehFrame, funcBase := none, asz := cie.asz } (fd.initial c bases cie fdeOff)
        ⟨fd.addrOff c.eh fdeOff + (fd.addrBytes c.e cie).length, fd.augBlock c.e cie ++ fd.instr⟩ =
      .ok (fd.lsda c bases cie fdeOff, ⟨fd.instrOff c cie fdeOff, fd.instr⟩) := by
  have hl := hw.hlsda
  have hd := hw.hdata
  unfold fdeAugData AFde.augBlock AFde.lsda AFde.instrOff
  cases haug : cie.aug with
  | none => simp [haug]
  | some a =>
    simp only [haug, Option.bind_some] at hl ⊢
    rw [List.append_assoc, lift_uleb _ _ _ hd]
    simp only [Out.bind_ok]
    have hsplit : (⟨fd.addrOff c.eh fdeOff + (fd.addrBytes c.e cie).length +
          (Leb.encodeU (fd.augData c.e cie).length).length, fd.augData c.e cie ++ fd.instr⟩ : Rd).split
        (fd.augData c.e cie).length =
        .ok (⟨fd.lsdaOff c cie fdeOff, fd.augData c.e cie⟩,
             ⟨fd.lsdaOff c cie fdeOff + (fd.augData c.e cie).length, fd.instr⟩) := by
      unfold Rd.split AFde.lsdaOff
      rw [if_pos (by simp), List.take_left' rfl, List.drop_left' rfl]
    rw [hsplit]
    simp only [Out.bind_ok]
    cases hle : a.lsda with
    | none => simp [hle]
    | some enc =>
      simp only [hle] at hl ⊢
      have hdat : fd.augData c.e cie = (encodeOperand c.e enc cie.asz fd.lsdaOp).getD [] ++ fd.augPad := by
        unfold AFde.augData AFde.lsdaBytes
        simp [haug, hle]
      rw [hdat] at hsplit ⊢
      rw [pep_ptrOk c.m c.e enc ⟨bases.ehFrame, some (fd.initial c bases cie fdeOff), cie.asz⟩ _ _ _ hl]
      simp only [Out.bind_ok, Out.pure_eq]

/-- **an encoded FDE parses to itself, bound to the CIE its pointer designates** -/
theorem parseRest_encoded (c : Cfg) (bases : Bases) (sec : Bytes) (cie : Cie) (fd : AFde) (fdeOff : Nat)
    (hcie : cieFromOffset c bases sec cie.offset = .ok cie)
    (hw : fd.WF c bases cie fdeOff) :
    parseRest c bases sec (fd.expectPartial c cie fdeOff) = .ok (fd.expect c bases cie fdeOff) := by
  unfold parseRest AFde.expectPartial
  simp only [hcie, Out.bind_ok]
  unfold AFde.fields
  rw [parseAddresses_encoded c bases cie fd fdeOff _ hw]
  simp only [Out.bind_ok]
  rw [fdeAugData_encoded c bases cie fd fdeOff hw]
  simp only [Out.bind_ok, Out.pure_eq, AFde.expect, AFde.fields]

theorem parseCfiEntry_fde (c : Cfg) (bases : Bases) (cie : Cie) (fd : AFde) (off : Nat) (rest : Bytes)
    (hw : fd.WF c bases cie off) :
    parseCfiEntry c bases ⟨off, encodeFde c.eh c.e cie off fd ++ rest⟩ =
      .ok (some (.fde (fd.expectPartial c cie off)), ⟨off + fd.size c.eh c.e cie, rest⟩) := by
  unfold parseCfiEntry encodeFde
  simp only [List.length_append, toBytes_length]
  rw [parsePrefix_encoded c fd.format off (idSize c.eh fd.format) (ciePtrVal c.eh fd.format off cie.offset)
    (fd.fields c.e cie) rest rfl hw.hptr hw.hlen]
  simp only [Out.bind_ok, hw.hnotcie, Bool.false_eq_true, if_false]
  have hpf : partialFromPrefix c
      { offset := off, length := idSize c.eh fd.format + (fd.fields c.e cie).length, format := fd.format,
        cieOffsetBase := off + lsz fd.format,
        cieIdOrOffset := ciePtrVal c.eh fd.format off cie.offset,
        rest := ⟨off + lsz fd.format + idSize c.eh fd.format, fd.fields c.e cie⟩ } =
      .ok (fd.expectPartial c cie off) := by
    unfold partialFromPrefix resolveCieOffset ciePtrVal AFde.expectPartial AFde.addrOff
    by_cases heh : c.eh = true
    · have := hw.hback heh
      simp only [heh, if_true]
      rw [if_pos (by omega)]
      simp only
      congr 2
      omega
    · simp [heh]
  rw [hpf]
  simp only [Out.bind_ok, Out.pure_eq, AFde.size, Nat.add_assoc]


theorem encodeCie_length (c : Cfg) (ci : ACie) : (encodeCie c.eh c.e ci).length = ci.size c.eh c.e := by
  rw [encodeCie_eq]
  simp [lengthField_length, toBytes_length, ACie.size]

theorem encodeFde_length (c : Cfg) (cie : Cie) (fd : AFde) (off : Nat) :
    (encodeFde c.eh c.e cie off fd).length = fd.size c.eh c.e cie := by
  unfold encodeFde
  simp [lengthField_length, toBytes_length, AFde.size]

theorem size_pos_cie (c : Cfg) (ci : ACie) : 4 ≤ ci.size c.eh c.e := by
  unfold ACie.size lsz; cases ci.format <;> simp <;> omega

theorem size_pos_fde (c : Cfg) (cie : Cie) (fd : AFde) : 4 ≤ fd.size c.eh c.e cie := by
  unfold AFde.size lsz; cases fd.format <;> simp <;> omega

theorem lsz_pos (f : Format) : 4 ≤ lsz f := by cases f <;> simp [lsz]

/-- a zero length field (either format) parses to "no entry", consuming just the field -/
theorem zero_field (c : Cfg) (bases : Bases) (f : Format) (off : Nat) (rest : Bytes) :
    parseCfiEntry c bases ⟨off, lengthField c.e f 0 ++ rest⟩ = .ok (none, ⟨off + lsz f, rest⟩) := by
  unfold parseCfiEntry parsePrefix
  have hL : LenOk f 0 := by cases f <;> simp [LenOk]
  rw [lift_ok _ _ _ _ _ (readInitialLength_lengthField c.e f 0 rest hL)]
  simp [lengthField_length]

theorem next_some (c : Cfg) (bases : Bases) (k : Nat) (r r' : Rd) (en : Entry)
    (hne : r.bs ≠ []) (h : parseCfiEntry c bases r = .ok (some en, r')) :
    next c bases (k + 1) r = .ok (some en, r') := by
  rw [next]
  have : r.bs.isEmpty = false := by cases hb : r.bs <;> simp_all
  simp [this, h]

/-- what `CfiEntriesIter::next` returns on the encoded entries `es` laid out from `off` -/
def nextSpec (c : Cfg) (bases : Bases) (term : Option Format) : Nat → List AEntry → Option Entry × Rd
  | off, [] => (none, match term with
      | none => ⟨off, []⟩
      | some f => ⟨off + lsz f, []⟩)
  | off, .zero f :: t => nextSpec c bases term (off + lsz f) t
  | off, .cie ci :: t => (some (.cie (ci.expect c bases off)),
      ⟨off + ci.size c.eh c.e, encodeEntries c.eh c.e (off + ci.size c.eh c.e) t ++ terminatorBytes c.e term⟩)
  | off, .fde k fd :: t => (some (.fde (fd.expectPartial c k off)),
      ⟨off + fd.size c.eh c.e k, encodeEntries c.eh c.e (off + fd.size c.eh c.e k) t ++ terminatorBytes c.e term⟩)

theorem lengthField_ne_nil (e : Endian) (f : Format) (n : Nat) (rest : Bytes) : lengthField e f n ++ rest ≠ [] := by
  intro h
  have := congrArg List.length h
  have h4 := lsz_pos f
  simp [lengthField_length] at this
  omega

theorem next_encoded (c : Cfg) (bases : Bases) (term : Option Format) :
    ∀ (es : List AEntry) (off k : Nat), es.length + (if term.isSome then 1 else 0) < k →
      EntriesWF c bases off es →
      next c bases k ⟨off, encodeEntries c.eh c.e off es ++ terminatorBytes c.e term⟩ =
        .ok (nextSpec c bases term off es) := by
  intro es
  induction es with
  | nil =>
    intro off k hk _
    obtain ⟨k, rfl⟩ : ∃ k', k = k' + 1 := ⟨k - 1, by omega⟩
    simp only [encodeEntries, List.nil_append, nextSpec]
    cases term with
    | none => simp [terminatorBytes, next]
    | some f =>
      simp only [Option.isSome_some, if_true, List.length_nil] at hk
      obtain ⟨k, rfl⟩ : ∃ k', k = k' + 1 := ⟨k - 1, by omega⟩
      simp only [terminatorBytes]
      rw [next]
      have hne : (lengthField c.e f 0).isEmpty = false := by
        have := lengthField_ne_nil c.e f 0 []
        cases hb : lengthField c.e f 0 <;> simp_all
      have hz := zero_field c bases f off []
      simp only [List.append_nil] at hz
      simp only [hne, Bool.false_eq_true, if_false, hz]
      by_cases heh : c.eh = true
      · simp [heh]
      · simp [heh, next]
  | cons en t ih =>
    intro off k hk hwf
    obtain ⟨k, rfl⟩ : ∃ k', k = k' + 1 := ⟨k - 1, by omega⟩
    have hkt : t.length + (if term.isSome then 1 else 0) < k := by simp at hk; omega
    cases en with
    | cie ci =>
      obtain ⟨hw, hL, _⟩ := hwf
      simp only [encodeEntries, nextSpec, List.append_assoc]
      apply next_some
      · intro h
        have := congrArg List.length h
        have h4 := size_pos_cie c ci
        simp [encodeCie_length] at this
        omega
      · exact parseCfiEntry_cie c bases ci off _ hw hL
    | fde kc fd =>
      obtain ⟨hw, _⟩ := hwf
      simp only [encodeEntries, nextSpec, List.append_assoc]
      apply next_some
      · intro h
        have := congrArg List.length h
        have h4 := size_pos_fde c kc fd
        simp [encodeFde_length] at this
        omega
      · exact parseCfiEntry_fde c bases kc fd off _ hw
    | zero f =>
      obtain ⟨heh, hrest⟩ := hwf
      simp only [encodeEntries, nextSpec, List.append_assoc]
      rw [next]
      have hne : (lengthField c.e f 0 ++ (encodeEntries c.eh c.e (off + lsz f) t ++ terminatorBytes c.e term)).isEmpty = false := by
        have := lengthField_ne_nil c.e f 0 (encodeEntries c.eh c.e (off + lsz f) t ++ terminatorBytes c.e term)
        cases hb : lengthField c.e f 0 ++ (encodeEntries c.eh c.e (off + lsz f) t ++ terminatorBytes c.e term) <;> simp_all
      simp only [hne, Bool.false_eq_true, if_false, zero_field]
      rw [if_neg (by simp [heh])]
      exact ih _ _ hkt hrest

theorem encodeEntries_length (c : Cfg) : ∀ (es : List AEntry) (off : Nat),
    es.length ≤ (encodeEntries c.eh c.e off es).length := by
  intro es
  induction es with
  | nil => intro off; simp [encodeEntries]
  | cons en t ih =>
    intro off
    cases en with
    | cie ci =>
      have := ih (off + ci.size c.eh c.e)
      have h4 := size_pos_cie c ci
      simp only [encodeEntries, List.length_append, List.length_cons, encodeCie_length]
      omega
    | fde k fd =>
      have := ih (off + fd.size c.eh c.e k)
      have h4 := size_pos_fde c k fd
      simp only [encodeEntries, List.length_append, List.length_cons, encodeFde_length]
      omega
    | zero f =>
      have := ih (off + lsz f)
      have h4 := lsz_pos f
      simp only [encodeEntries, List.length_append, List.length_cons, lengthField_length]
      omega

theorem terminator_fuel (c : Cfg) (term : Option Format) :
    (if term.isSome then 1 else 0) ≤ (terminatorBytes c.e term).length := by
  cases term with
  | none => simp
  | some f => have := lsz_pos f; simp [terminatorBytes, lengthField_length]; omega

/-- iterating the encoded entries yields exactly the expected items, then ends -/
theorem entries_encoded (c : Cfg) (bases : Bases) (term : Option Format) :
    ∀ (es : List AEntry) (off fuel : Nat), es.length < fuel → EntriesWF c bases off es →
      entries c bases fuel ⟨off, encodeEntries c.eh c.e off es ++ terminatorBytes c.e term⟩ =
        (expectEntries c bases off es, .ok ()) := by
  have hnext : ∀ (es : List AEntry) (off : Nat), EntriesWF c bases off es →
      next c bases ((encodeEntries c.eh c.e off es ++ terminatorBytes c.e term).length + 1)
        ⟨off, encodeEntries c.eh c.e off es ++ terminatorBytes c.e term⟩ = .ok (nextSpec c bases term off es) := by
    intro es off hwf
    apply next_encoded c bases term es off _ _ hwf
    have h1 := encodeEntries_length c es off
    have h2 := terminator_fuel c term
    simp only [List.length_append]
    omega
  intro es
  induction es with
  | nil =>
    intro off fuel hf hwf
    obtain ⟨fuel, rfl⟩ : ∃ k, fuel = k + 1 := ⟨fuel - 1, by omega⟩
    rw [entries, hnext [] off hwf]
    simp [nextSpec, expectEntries]
  | cons en t ih =>
    intro off fuel hf hwf
    obtain ⟨fuel, rfl⟩ : ∃ k, fuel = k + 1 := ⟨fuel - 1, by omega⟩
    have hft : t.length < fuel := by simp at hf; omega
    rw [entries, hnext _ off hwf]
    cases en with
    | cie ci =>
      simp only [nextSpec, expectEntries]
      rw [ih _ _ hft hwf.2.2]
    | fde k fd =>
      simp only [nextSpec, expectEntries]
      rw [ih _ _ hft hwf.2]
    | zero f =>
      have hrest := hwf.2
      have := ih (off + lsz f) (fuel + 1) (by omega) hrest
      rw [entries, hnext t (off + lsz f) hrest] at this
      simp only [nextSpec, expectEntries]
      exact this

theorem encodeEntries_split (c : Cfg) (bases : Bases) (ci : ACie) (es2 : List AEntry) :
    ∀ (es1 : List AEntry) (off : Nat),
      (encodeEntries c.eh c.e off (es1 ++ .cie ci :: es2) =
        encodeEntries c.eh c.e off es1 ++ (encodeCie c.eh c.e ci ++
          encodeEntries c.eh c.e (off + totalSize c.eh c.e es1 + ci.size c.eh c.e) es2)) ∧
      (encodeEntries c.eh c.e off es1).length = totalSize c.eh c.e es1 ∧
      (EntriesWF c bases off (es1 ++ .cie ci :: es2) →
        ci.WF c bases (off + totalSize c.eh c.e es1 + lsz ci.format + idSize c.eh ci.format) ∧
        LenOk ci.format (idSize c.eh ci.format + (ci.fields c.eh c.e).length)) := by
  intro es1
  induction es1 with
  | nil =>
    intro off
    simp only [List.nil_append, encodeEntries, totalSize, Nat.add_zero, List.length_nil, EntriesWF]
    exact ⟨trivial, trivial, fun h => ⟨h.1, h.2.1⟩⟩
  | cons en t ih =>
    intro off
    cases en with
    | cie ci' =>
      obtain ⟨h1, h2, h3⟩ := ih (off + ci'.size c.eh c.e)
      simp only [List.cons_append, encodeEntries, totalSize, AEntry.size, List.append_assoc, List.length_append,
        encodeCie_length, EntriesWF]
      refine ⟨?_, by omega, ?_⟩
      · rw [h1]; simp only [Nat.add_assoc]
      · intro hw
        have := h3 hw.2.2
        simpa only [Nat.add_assoc] using this
    | fde k fd =>
      obtain ⟨h1, h2, h3⟩ := ih (off + fd.size c.eh c.e k)
      simp only [List.cons_append, encodeEntries, totalSize, AEntry.size, List.append_assoc, List.length_append,
        encodeFde_length, EntriesWF]
      refine ⟨?_, by omega, ?_⟩
      · rw [h1]; simp only [Nat.add_assoc]
      · intro hw
        have := h3 hw.2
        simpa only [Nat.add_assoc] using this
    | zero f =>
      obtain ⟨h1, h2, h3⟩ := ih (off + lsz f)
      simp only [List.cons_append, encodeEntries, totalSize, AEntry.size, List.append_assoc, List.length_append,
        lengthField_length, EntriesWF]
      refine ⟨?_, by omega, ?_⟩
      · rw [h1]; simp only [Nat.add_assoc]
      · intro hw
        have := h3 hw.2
        simpa only [Nat.add_assoc] using this

/-- the CIE an FDE of the section designates is found by `cie_from_offset` -/
theorem cieFromOffset_section (c : Cfg) (bases : Bases) (es1 es2 : List AEntry) (ci : ACie) (term : Option Format)
    (hwf : EntriesWF c bases 0 (es1 ++ .cie ci :: es2)) :
    cieFromOffset c bases (encodeFrameSection c.eh c.e (es1 ++ .cie ci :: es2) term) (totalSize c.eh c.e es1) =
      .ok (ci.expect c bases (totalSize c.eh c.e es1)) := by
  obtain ⟨h1, h2, h3⟩ := encodeEntries_split c bases ci es2 es1 0
  obtain ⟨hw, hL⟩ := h3 hwf
  unfold encodeFrameSection
  rw [h1, List.append_assoc, List.append_assoc, ← List.append_assoc (encodeEntries c.eh c.e 0 es1)]
  have := cieFromOffset_encoded c bases ci (encodeEntries c.eh c.e 0 es1)
    (encodeEntries c.eh c.e (0 + totalSize c.eh c.e es1 + ci.size c.eh c.e) es2 ++ terminatorBytes c.e term)
    (by rw [h2]; simpa using hw) hL
  rw [h2] at this
  exact this



theorem parseHdr_encoded (m : Mode) (e : Endian) (bases : Bases) (asz : Nat) (h : AHdr)
    (hw : h.WF e bases asz) :
    parseHdr m e bases asz (encodeHdr e asz h) = .ok (h.expect e bases asz) := by
  obtain ⟨hp, ⟨hc1, hc2, hc3, hc4⟩, ⟨ht1, ht2, ht3⟩, hptr, hcnt⟩ := hw
  have hpv := hptr.1
  have hpo := hptr.2.1
  unfold parseHdr encodeHdr
  dsimp only
  rw [u8_cons]
  simp only [Out.bind_ok, show (1 : UInt8).toNat = 1 by decide, ne_eq, not_true_eq_false, if_false]
  rw [parsePointerEncoding_byte _ _ _ hp hpv]
  simp only [Out.bind_ok]
  rw [parsePointerEncoding_byte _ _ _ hc1 hc2]
  simp only [Out.bind_ok]
  rw [parsePointerEncoding_byte _ _ _ ht1 ht2]
  simp only [Out.bind_ok]
  rw [if_neg hpo]
  unfold Spec.Frame.op
  have h4 : (0 : Nat) + 1 + 1 + 1 + 1 = 4 := rfl
  rw [h4, pep_ptrOk m e h.ptrEnc ⟨bases.ehFrameHdr, none, asz⟩ 4 h.ptrOp _ hptr]
  simp only [Out.bind_ok]
  unfold hdrCount
  rw [if_neg (by simp [hc3, ht3]), if_neg (by intro hne; exact hne hc4)]
  rw [pev_some e h.cntEnc asz h.rows.length _ _ hcnt]
  simp only [Out.bind_ok, Out.pure_eq, AHdr.expect, AHdr.tableOff, Spec.Frame.op]


theorem op_length (e : Endian) (enc asz x size : Nat) (hs : tableEntrySize enc = some size)
    (hx : (encodeOperand e enc asz x).isSome = true) : (Spec.Frame.op e enc asz x).length = size := by
  obtain ⟨bytes, hb⟩ := Option.isSome_iff_exists.mp hx
  unfold Spec.Frame.op
  rw [hb]
  simp only [Option.getD_some]
  unfold tableEntrySize at hs
  unfold encodeOperand at hb
  simp only at hs hb
  split at hs
  · rename_i hf
    have : size = 2 := by simpa using hs.symm
    subst this
    rcases hf with hf | hf <;> (simp [hf] at hb; rw [← hb.2]; simp [toBytes_length])
  · split at hs
    · rename_i hf
      have : size = 4 := by simpa using hs.symm
      subst this
      rcases hf with hf | hf <;> (simp [hf] at hb; rw [← hb.2]; simp [toBytes_length])
    · split at hs
      · rename_i hf
        have : size = 8 := by simpa using hs.symm
        subst this
        rcases hf with hf | hf <;> (simp [hf] at hb; rw [← hb.2]; simp [toBytes_length])
      · simp at hs

theorem flatMap_drop {α : Type} (f : α → Bytes) (rs : Nat) :
    ∀ (rows : List α) (i : Nat), (∀ r, r ∈ rows → (f r).length = rs) →
      (rows.flatMap f).drop (i * rs) = (rows.drop i).flatMap f := by
  intro rows
  induction rows with
  | nil => intro i _; simp
  | cons r t ih =>
    intro i h
    cases i with
    | zero => simp
    | succ i =>
      have hr : (f r).length = rs := h r (by simp)
      simp only [List.flatMap_cons, List.drop_succ_cons]
      rw [Nat.succ_mul, Nat.add_comm, ← List.drop_drop, List.drop_left' hr]
      exact ih i (fun x hx => h x (by simp [hx]))

theorem ptrAt_exact (m : Mode) (e : Endian) (enc : Nat) (p : PeParams) (off x : Nat) (h : PtrOk e enc p off x) :
    ptrAt m e enc p off (Spec.Frame.op e enc p.asz x) =
      .ok (Ptr.new enc (((neededBase enc p off).getD 0 + x) % 2 ^ 64 % 2 ^ (8 * p.asz))) := by
  unfold ptrAt Spec.Frame.op
  have := pep_ptrOk m e enc p off x [] h
  simp only [List.append_nil] at this
  rw [this]
  rfl

theorem rows_encoded (m : Mode) (e : Endian) (bases : Bases) (asz : Nat) (h : AHdr) (T0 size : Nat)
    (hs : tableEntrySize h.tblEnc = some size)
    (hok : ∀ i r, h.rows[i]? = some r → h.RowOk e bases asz T0 size i r) :
    ∀ i r, h.rows[i]? = some r →
      rowKey m e h.tblEnc ⟨bases.ehFrameHdr, none, asz⟩ T0 (h.tableBytes e asz) size i =
        .ok (Ptr.new h.tblEnc (h.fieldVal bases asz (T0 + i * (size * 2)) r.1)) ∧
      rowVal m e h.tblEnc ⟨bases.ehFrameHdr, none, asz⟩ T0 (h.tableBytes e asz) size i =
        .ok (Ptr.new h.tblEnc (h.fieldVal bases asz (T0 + i * (size * 2) + size) r.2)) := by
  have hlen : ∀ r, r ∈ h.rows → (h.rowBytes e asz r).length = size * 2 := by
    intro r hr
    obtain ⟨i, hi⟩ := List.mem_iff_getElem?.mp hr
    obtain ⟨h1, h2⟩ := hok i r hi
    unfold AHdr.rowBytes
    rw [List.length_append, op_length e _ asz _ size hs h1.2.2.2.2.2.2, op_length e _ asz _ size hs h2.2.2.2.2.2.2]
    omega
  intro i r hi
  obtain ⟨h1, h2⟩ := hok i r hi
  have hl1 := op_length e _ asz _ size hs h1.2.2.2.2.2.2
  have hl2 := op_length e _ asz _ size hs h2.2.2.2.2.2.2
  have hdrop : (h.tableBytes e asz).drop (i * (size * 2)) =
      Spec.Frame.op e h.tblEnc asz r.1 ++ (Spec.Frame.op e h.tblEnc asz r.2 ++ (h.rows.drop (i + 1)).flatMap (h.rowBytes e asz)) := by
    unfold AHdr.tableBytes
    rw [flatMap_drop _ _ _ _ hlen]
    have hi' : i < h.rows.length := by
      rcases Nat.lt_or_ge i h.rows.length with hlt | hge
      · exact hlt
      · rw [List.getElem?_eq_none hge] at hi; simp at hi
    have hget : h.rows[i] = r := by
      rw [List.getElem?_eq_getElem hi'] at hi
      exact Option.some.inj hi
    rw [List.drop_eq_getElem_cons hi', hget]
    simp [AHdr.rowBytes]
  constructor
  · unfold rowKey
    rw [hdrop, List.take_left' hl1]
    exact ptrAt_exact m e h.tblEnc ⟨bases.ehFrameHdr, none, asz⟩ _ _ h1
  · unfold rowVal
    rw [← List.drop_drop, hdrop, List.drop_left' hl1, List.take_left' hl2]
    exact ptrAt_exact m e h.tblEnc ⟨bases.ehFrameHdr, none, asz⟩ _ _ h2

theorem flatMap_length {α : Type} (f : α → Bytes) (rs : Nat) :
    ∀ (rows : List α), (∀ r, r ∈ rows → (f r).length = rs) → (rows.flatMap f).length = rows.length * rs := by
  intro rows
  induction rows with
  | nil => intro _; simp
  | cons r t ih =>
    intro h
    simp only [List.flatMap_cons, List.length_append, List.length_cons]
    rw [h r (by simp), ih (fun x hx => h x (by simp [hx])), Nat.succ_mul]
    omega





theorem ptr_new_direct (enc v : Nat) (h : peIndirect enc = false) : Ptr.new enc v = .direct v := by
  unfold Ptr.new; simp [h]

theorem hdr_encoded_lookup (m : Mode) (e : Endian) (bases : Bases) (asz : Nat) (h : AHdr) (a size : Nat)
    (hw : h.WF e bases asz) (hs : tableEntrySize h.tblEnc = some size) (hdirect : peIndirect h.tblEnc = false)
    (hne : 1 ≤ h.rows.length) (hbig : (h.tableBytes e asz).length < 2 ^ 64)
    (hok : ∀ i r, h.rows[i]? = some r → h.RowOk e bases asz (h.tableOff e asz) size i r)
    (hsorted : ∀ i j, i ≤ j → j < h.rows.length →
      hdrKey bases asz h (h.tableOff e asz) size i ≤ hdrKey bases asz h (h.tableOff e asz) size j) :
    parseHdr m e bases asz (encodeHdr e asz h) = .ok (h.expect e bases asz) ∧
    ∃ idx, idx < h.rows.length ∧
      lookup m e (h.expect e bases asz) bases a = .ok (.direct (hdrVal bases asz h (h.tableOff e asz) size idx)) ∧
      ((hdrKey bases asz h (h.tableOff e asz) size idx ≤ a ∧
          ∀ j, j < h.rows.length → hdrKey bases asz h (h.tableOff e asz) size j ≤ a →
            hdrKey bases asz h (h.tableOff e asz) size j ≤ hdrKey bases asz h (h.tableOff e asz) size idx) ∨
       (idx = 0 ∧ ∀ j, j < h.rows.length → a < hdrKey bases asz h (h.tableOff e asz) size j)) := by
  refine ⟨parseHdr_encoded m e bases asz h hw, ?_⟩
  have hrows := rows_encoded m e bases asz h (h.tableOff e asz) size hs hok
  have hlen : ∀ r, r ∈ h.rows → (h.rowBytes e asz r).length = size * 2 := by
    intro r hr
    obtain ⟨i, hi⟩ := List.mem_iff_getElem?.mp hr
    obtain ⟨h1, h2⟩ := hok i r hi
    unfold AHdr.rowBytes
    rw [List.length_append, op_length e _ asz _ size hs h1.2.2.2.2.2.2, op_length e _ asz _ size hs h2.2.2.2.2.2.2]
    omega
  have htl : (h.tableBytes e asz).length = h.rows.length * (size * 2) := flatMap_length _ _ _ hlen
  have hget : ∀ i, i < h.rows.length → h.rows[i]? = some (h.rows[i]!) := by
    intro i hi
    simp [List.getElem?_eq_getElem hi, List.getElem!_eq_getElem?_getD]
  obtain ⟨idx, hidx, hlk, hprop⟩ := lookup_correct m e (h.expect e bases asz) bases a size
    (hdrKey bases asz h (h.tableOff e asz) size) hs hne (by simp [AHdr.expect, htl]) hbig
    (by
      intro i hi
      have := (hrows i _ (hget i hi)).1
      simp only [AHdr.expect, Hdr.params] at this ⊢
      rw [this, ptr_new_direct _ _ hdirect]
      unfold hdrKey
      rw [hget i hi])
    hsorted
  refine ⟨idx, hidx, ?_, hprop⟩
  rw [hlk]
  have := (hrows idx _ (hget idx hidx)).2
  simp only [AHdr.expect, Hdr.params] at this ⊢
  rw [this, ptr_new_direct _ _ hdirect]
  unfold hdrVal
  rw [hget idx hidx]

end Gimli.CfiEntry
