import Lean
/-!
`#audit_ns Foo.Bar` lists every theorem declared in namespace `Foo.Bar` (of the current
environment) with the axioms it depends on, one per line:
`AUDIT <theorem> : <axiom> <axiom> …`.  `tools/audit.py` parses this output; `obligations`
and `discharged` in the evidence files are counted from it, never written by hand.
-/
open Lean Elab Command

elab "#audit_ns " ns:ident : command => do
  let env ← getEnv
  let nsName := ns.getId
  let mut names : Array Name := #[]
  for (n, ci) in env.constants.toList do
    if nsName.isPrefixOf n && !n.isInternal then
      match ci with
      | .thmInfo _ => names := names.push n
      | _ => pure ()
  let sorted := names.qsort (fun a b => a.toString < b.toString)
  for n in sorted do
    let axs ← liftCoreM (collectAxioms n)
    let axs := axs.qsort (fun a b => a.toString < b.toString)
    logInfo m!"AUDIT {n} : {" ".intercalate (axs.toList.map toString)}"
