import Gimli.Spec.Expr
import Gimli.Spec.OpTable
import Gimli.Model.Eval
/-!
# Spec: the DWARF expression stack machine (DWARF 5 §2.5 – §2.6) as a resumable machine

State: the current expression `code`, the **offset** `pc` of the next operation in it, a stack of
Spec values (`Spec.Expr.SVal`: mathematical integers; generic values are residues modulo
`2^(8·address_size)`), the stack of return points of `DW_OP_call*`, and the pieces of a composite
location collected so far. No machine words, no capacities, no iteration counter.

One `step` decodes the operation at `pc` with the Spec decode table (`OpTable.decode`) and gives it
the meaning the standard gives it, using the Spec arithmetic (`Spec.Expr.unary/binary`). Operations
that need outside data stop with the request the standard names (register, memory, frame base,
CFA, TLS, base type, address index, entry value, called expression, …) and `resume` continues from
the answer. Branch targets are relative to the following operation and must lie in `[0, len]`.

The request / location / piece / error vocabulary is shared with `Model/Eval.lean` so that results
can be compared by equality (`Eval.Request`, `Err`); values inside results are Spec values.

**Outside the fragment.** `Out.panic "unspecified"` marks what this Spec deliberately does not
define: floating point values (answers and base types). `eval_refines` is stated for runs of
the Spec machine that never reach such a point.
-/
namespace Gimli.Spec.Machine
open Gimli Gimli.Op Gimli.Spec.Expr

/-- location of a piece (`Eval.Location` with Spec values) -/
inductive SLoc where
  | empty
  | register (register : Nat)
  | address (address : Nat)
  | value (value : SVal)
  | bytes (value : Bytes)
  | implicitPointer (value : Nat) (byteOffset : Int)
  deriving DecidableEq, Repr, Inhabited

structure SPiece where
  sizeInBits : Option Nat
  bitOffset : Option Nat
  location : SLoc
  deriving DecidableEq, Repr, Inhabited

structure SCfg where
  endian : Endian
  enc : Encoding
  objectAddress : Option Nat
  deriving Repr, Inhabited

/-- address size in bytes -/
abbrev SCfg.a (c : SCfg) : Nat := c.enc.addressSize

structure SState where
  code : Bytes
  pc : Nat
  stack : List SVal := []
  frames : List (Bytes × Nat) := []     -- (code, offset to return to), innermost first
  pieces : List SPiece := []
  valueResult : Option SVal := none
  deriving DecidableEq, Repr, Inhabited

def unspecified {α} : Out α := .panic "unspecified"

/-- the integer an operation uses when it needs an address / index / condition from a value -/
def toNat64 (v : SVal) : Out Nat :=
  if isFloat v.ty then .err .rIntegralTypeRequired else .ok (v.val % 2 ^ 64).toNat

/-- a generic value from an arbitrary integer -/
def gen (c : SCfg) (i : Int) : SVal := ⟨.generic, umod (8 * c.a) i⟩

def pop (s : SState) : Out (SVal × SState) :=
  match s.stack with
  | [] => .err .rNotEnoughStackItems
  | v :: rest => .ok (v, { s with stack := rest })

def push (v : SVal) (s : SState) : SState := { s with stack := v :: s.stack }

/-- what an operation does to the machine -/
inductive Effect where
  | continue (s : SState)                         -- go on with the next operation
  | location (loc : SLoc) (s : SState)            -- a location description was completed
  | piece (s : SState)                            -- a piece was appended
  | request (w : Eval.Waiting) (r : Eval.Request) (s : SState)
  deriving Repr, Inhabited

/-- relative branch: `target` is relative to the following operation (`s.pc` is already there) -/
def branch (s : SState) (target : Int) : Out SState :=
  let t : Int := (s.pc : Int) + target
  if 0 ≤ t ∧ t ≤ s.code.length then .ok { s with pc := t.toNat } else .err .rBadBranchTarget

def binop (c : SCfg) (op : BinOp) (s : SState) : Out Effect := do
  let (rhs, s) ← pop s
  let (lhs, s) ← pop s
  let r ← binary c.a op lhs rhs
  pure (.continue (push r s))

def unop (c : SCfg) (op : UnOp) (s : SState) : Out Effect := do
  let (v, s) ← pop s
  let r ← unary c.a op v
  pure (.continue (push r s))

/-- the meaning of one decoded operation (the machine's `pc` is already past it) -/
def exec (c : SCfg) (op : Operation) (s : SState) : Out Effect :=
  match op with
  -- literal encodings (§2.5.1.1)
  | .unsignedConstant value => .ok (.continue (push (gen c value) s))
  | .signedConstant value => .ok (.continue (push (gen c value) s))
  -- stack operations (§2.5.1.3)
  | .pick index =>
    match s.stack[index]? with
    | some v => .ok (.continue (push v s))
    | none => .err .rNotEnoughStackItems
  | .drop => do let (_, s) ← pop s; pure (.continue s)
  | .swap => do
    let (top, s) ← pop s
    let (next, s) ← pop s
    pure (.continue (push next (push top s)))
  | .rot => do
    let (one, s) ← pop s
    let (two, s) ← pop s
    let (three, s) ← pop s
    pure (.continue (push two (push three (push one s))))
  | .pushObjectAddress =>
    match c.objectAddress with
    | some v => .ok (.continue (push (gen c v) s))
    | none => .err .rInvalidPushObjectAddress
  -- arithmetic and logical operations (§2.5.1.4)
  | .abs => unop c .abs s
  | .neg => unop c .neg s
  | .not => unop c .not s
  | .and => binop c .and s
  | .div => binop c .div s
  | .minus => binop c .sub s
  | .mod => binop c .rem s
  | .mul => binop c .mul s
  | .or => binop c .or s
  | .plus => binop c .add s
  | .xor => binop c .xor s
  | .plusConstant value => do
    let (lhs, s) ← pop s
    if isFloat lhs.ty then unspecified else do
    let r ← binary c.a .add lhs ⟨lhs.ty, canon c.a lhs.ty value⟩
    pure (.continue (push r s))
  | .shl => binop c .shl s
  | .shr => binop c .shr s
  | .shra => binop c .shra s
  -- control flow (§2.5.1.5)
  | .eq => binop c .eq s
  | .ge => binop c .ge s
  | .gt => binop c .gt s
  | .le => binop c .le s
  | .lt => binop c .lt s
  | .ne => binop c .ne s
  | .skip target => do let s ← branch s target; pure (.continue s)
  | .bra target => do
    let (v, s) ← pop s
    let n ← toNat64 v
    if n ≠ 0 then do let s ← branch s target; pure (.continue s) else pure (.continue s)
  | .nop => .ok (.continue s)
  | .call ref => .ok (.request .atLocation (.requiresAtLocation ref) s)
  -- register and memory (§2.5.1.2, §2.5.1.3)
  | .deref baseType size space =>
    if size > c.a then .err .rInvalidDerefSize else do
    let (v, s) ← pop s
    let addr ← toNat64 v
    if space then do
      let (v, s) ← pop s
      let sp ← toNat64 v
      pure (.request .memory (.requiresMemory addr size (some sp) baseType) s)
    else pure (.request .memory (.requiresMemory addr size none baseType) s)
  | .registerOffset register offset baseType =>
    .ok (.request (.register offset) (.requiresRegister register baseType) s)
  | .frameOffset offset => .ok (.request (.frameBase offset) .requiresFrameBase s)
  | .tls => do
    let (v, s) ← pop s
    let index ← toNat64 v
    pure (.request .tls (.requiresTls index) s)
  | .callFrameCFA => .ok (.request .cfa .requiresCallFrameCfa s)
  | .entryValue expression => .ok (.request .entryValue (.requiresEntryValue expression) s)
  | .parameterRef offset => .ok (.request .parameterRef (.requiresParameterRef offset) s)
  | .address address => .ok (.request .relocatedAddress (.requiresRelocatedAddress address) s)
  | .addressIndex index => .ok (.request .indexedAddress (.requiresIndexedAddress index true) s)
  | .constantIndex index => .ok (.request .indexedAddress (.requiresIndexedAddress index false) s)
  | .wasmLocal index => .ok (.request .wasmValue (.requiresWasmLocal index) s)
  | .wasmGlobal index => .ok (.request .wasmValue (.requiresWasmGlobal index) s)
  | .wasmStack index => .ok (.request .wasmValue (.requiresWasmStack index) s)
  -- location descriptions (§2.6.1.1)
  | .register register => .ok (.location (.register register) s)
  | .implicitValue data => .ok (.location (.bytes data) s)
  | .stackValue => do let (v, s) ← pop s; pure (.location (.value v) s)
  | .implicitPointer value byteOffset => .ok (.location (.implicitPointer value byteOffset) s)
  -- composite locations (§2.6.1.2): a piece whose location is a memory address on the stack, or empty
  | .piece sizeInBits bitOffset =>
    match s.stack with
    | [] => .ok (.piece { s with pieces := s.pieces ++ [⟨some sizeInBits, bitOffset, .empty⟩] })
    | _ => do
      let (v, s) ← pop s
      let addr ← toNat64 v
      pure (.piece { s with pieces := s.pieces ++ [⟨some sizeInBits, bitOffset, .address addr⟩] })
  -- typed values (§2.5.1.6): the base type is asked for first
  | .typedLiteral baseType value => .ok (.request (.typedLiteral value) (.requiresBaseType baseType) s)
  | .convert baseType => .ok (.request .convert (.requiresBaseType baseType) s)
  | .reinterpret baseType => .ok (.request .reinterpret (.requiresBaseType baseType) s)
  | .variableValue _ | .uninitialized => .err .rUnsupportedEvaluation

/-- at the end of the current expression return to the caller(s); `true` = the whole evaluation
is at its end -/
def unwind : Bytes → Nat → List (Bytes × Nat) → Bool × Bytes × Nat × List (Bytes × Nat)
  | code, pc, [] => (!decide (pc < code.length), code, pc, [])
  | code, pc, (code', pc') :: rest =>
    if pc < code.length then (false, code, pc, (code', pc') :: rest) else unwind code' pc' rest

def atEnd (s : SState) : Bool × SState :=
  match unwind s.code s.pc s.frames with
  | (b, code, pc, frames) => (b, { s with code := code, pc := pc, frames := frames })

/-- decode the operation at `pc` and move `pc` past it -/
def fetch (c : SCfg) (s : SState) : Out (Operation × SState) := do
  let (op, rest) ← OpTable.decode c.endian c.enc (s.code.drop s.pc)
  pure (op, { s with pc := s.code.length - rest.length })

/-- the end of the evaluation: the pieces, or — if there are none — the value on top of the stack,
which is also the address of the object -/
def finish (s : SState) : Out SState :=
  match s.pieces with
  | [] => do
    let (v, s) ← pop s
    let addr ← toNat64 v
    pure { s with valueResult := some v, pieces := [⟨none, none, .address addr⟩] }
  | _ => .ok s

/-- after a location description: it is the whole result (end of the expression, no pieces so
far), or it must be followed by the piece operation it belongs to -/
def afterLocation (c : SCfg) (loc : SLoc) (s : SState) : Out SState :=
  match atEnd s with
  | (true, s) =>
    match s.pieces with
    | [] => .ok { s with pieces := [⟨none, none, loc⟩] }
    | _ => .err .rInvalidPiece
  | (false, s) => do
    let (op, s) ← fetch c s
    match op with
    | .piece sizeInBits bitOffset => pure { s with pieces := s.pieces ++ [⟨some sizeInBits, bitOffset, loc⟩] }
    | _ => .err .rInvalidExpressionTerminator

/-- run until the end, a request or an error; one unit of fuel per operation -/
def run (c : SCfg) : Nat → SState → Out (Eval.Request × Option Eval.Waiting × SState)
  | 0, _ => .diverge
  | fuel + 1, s =>
    match atEnd s with
    | (true, s) => do
      let s ← finish s
      pure (.complete, none, s)
    | (false, s) => do
      let (op, s) ← fetch c s
      let eff ← exec c op s
      match eff with
      | .piece s => run c fuel s
      | .continue s =>
        match atEnd s with
        | (eoe, s) =>
          -- operations after the last piece that describe nothing: not a location description
          if eoe ∧ s.pieces ≠ [] then .err .rInvalidPiece else run c fuel s
      | .location loc s => do
        let s ← afterLocation c loc s
        run c fuel s
      | .request w r s => pure (r, some w, s)

/-- the answer to a request, in Spec values (one kind per `resume_with_*`) -/
inductive SAnswer where
  | memory (v : SVal)
  | register (v : SVal)
  | wasmValue (v : SVal)
  | frameBase (n : Nat)
  | tls (n : Nat)
  | callFrameCfa (n : Nat)
  | atLocation (bytes : Bytes)    -- the `DW_AT_location` of the called DIE (empty: nothing to call)
  | entryValue (v : SVal)
  | parameterRef (n : Nat)
  | relocatedAddress (n : Nat)
  | indexedAddress (n : Nat)
  | baseType (t : ValueType)
  deriving DecidableEq, Repr, Inhabited

/-- push an answered value (floating point answers are outside this Spec) -/
def pushValue (v : SVal) (s : SState) : Out SState :=
  if isFloat v.ty then unspecified else .ok (push v s)

/-- continue from an answer; an answer of the wrong kind is outside the protocol -/
def applyAnswer (c : SCfg) (w : Eval.Waiting) (a : SAnswer) (s : SState) : Out SState :=
  match w, a with
  | .memory, .memory v => pushValue v s
  | .entryValue, .entryValue v => pushValue v s
  | .wasmValue, .wasmValue v => pushValue v s
  -- DW_OP_breg<n> / bregx / regval_type: the register's value plus the offset, in the value's type
  | .register offset, .register v =>
    if isFloat v.ty then unspecified else do
    let r ← binary c.a .add v ⟨v.ty, canon c.a v.ty offset⟩
    pure (push r s)
  | .frameBase offset, .frameBase fb => .ok (push (gen c ((fb : Int) + offset)) s)
  | .tls, .tls n => .ok (push (gen c n) s)
  | .cfa, .callFrameCfa n => .ok (push (gen c n) s)
  | .parameterRef, .parameterRef n => .ok (push (gen c n) s)
  | .relocatedAddress, .relocatedAddress n => .ok (push (gen c n) s)
  | .indexedAddress, .indexedAddress n => .ok (push (gen c n) s)
  -- DW_OP_call*: continue in the called expression, return here at its end
  | .atLocation, .atLocation bytes =>
    match bytes with
    | [] => .ok s
    | _ => .ok { s with code := bytes, pc := 0, frames := (s.code, s.pc) :: s.frames }
  -- typed values; floating point base types are outside this Spec
  | .typedLiteral bytes, .baseType t =>
    if isFloat t then unspecified else do
    let v ← literalInt c.endian c.a t bytes
    pure (push v s)
  | .convert, .baseType t => do
    let (v, s) ← pop s
    if isFloat t ∨ isFloat v.ty then unspecified else pure (push (convertInt c.a v t) s)
  | .reinterpret, .baseType t => do
    let (v, s) ← pop s
    if isFloat t ∨ isFloat v.ty then unspecified else do
    let r ← reinterpretInt c.a v t
    pure (push r s)
  | _, _ => unspecified

def resume (c : SCfg) (fuel : Nat) (w : Eval.Waiting) (a : SAnswer) (s : SState) :
    Out (Eval.Request × Option Eval.Waiting × SState) := do
  let s ← applyAnswer c w a s
  run c fuel s


/-! ## whole evaluations: start, then one answer per request -/

/-- how an evaluation ends -/
inductive SFinal where
  | done (pieces : List SPiece) (value : Option SVal)
  | error (e : Err)
  | unspecified
  | diverged
  | scriptEnd
  deriving DecidableEq, Repr, Inhabited

def finalOf {α} : Out α → SFinal
  | .ok _ => .scriptEnd
  | .err e => .error e
  | .panic _ => .unspecified
  | .diverge => .diverged

/-- the machine before the first operation; an initial value (e.g. for
`DW_AT_vtable_elem_location`) is a generic value already on the stack -/
def initial (c : SCfg) (code : Bytes) (init : Option Nat) : SState :=
  { code := code, pc := 0, stack := match init with | some v => [gen c v] | none => [] }

/-- a script answers each request as it comes (the answer may depend on what is asked) -/
abbrev Script := List (Eval.Request → SAnswer)

/-- after a call returned request `r`: answer from the script until completion, an error, or the
end of the script. Returns the requests seen and the end. -/
def runFrom (c : SCfg) (fuel : Nat) : Script → Eval.Request → Option Eval.Waiting → SState → List Eval.Request × SFinal
  | _, .complete, _, s => ([.complete], .done s.pieces s.valueResult)
  | [], r, _, _ => ([r], .scriptEnd)
  | _ :: _, r, none, _ => ([r], .unspecified)
  | f :: fs, r, some w, s =>
    match resume c fuel w (f r) s with
    | .ok (r', w', s') =>
      match runFrom c fuel fs r' w' s' with
      | (tr, fin) => (r :: tr, fin)
    | o => ([r], finalOf o)

/-- a whole evaluation of `code` -/
def runAll (c : SCfg) (fuel : Nat) (script : Script) (code : Bytes) (init : Option Nat) : List Eval.Request × SFinal :=
  match run c fuel (initial c code init) with
  | .ok (r, w, s) => runFrom c fuel script r w s
  | o => ([], finalOf o)

end Gimli.Spec.Machine
