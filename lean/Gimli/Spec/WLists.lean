import Gimli.Spec.Lists
import Gimli.Model.WLists
/-!
# Spec: what a range / location list *as built* through `gimli::write` means

A `write::RangeList` / `write::LocationList` is a sequence of `BaseAddress`, `OffsetPair`,
`StartEnd`, `StartLength` and `DefaultLocation` entries. Its meaning does not depend on the DWARF
version it is serialised for: it is the meaning DWARF 5 §2.17.3 / §2.6.2 gives to the entry kinds of
the same names (`Spec.Lists.resolveList`: base-address carry-over, offsets relative to the current
base address, sums modulo `2^(8·address_size)`, entries that denote nothing dropped), relative to
the unit's base address; no address table is involved (`gimli::write` has no indexed entries).

`enc` is the meaning of a location description as a byte string (the encoding of the expression;
that the encoding decodes to the same operations is property C15's subject).
-/
namespace Gimli.Spec.WLists
open Gimli Gimli.Spec.Lists Gimli.WLists

/-- the address a constant `Address` stands for (a `Symbol` is unknown until link time; no list
containing one is accepted by the default writer, the value chosen here is never used) -/
def addrVal : Addr → Nat
  | .const v => v
  | .symbol _ _ => 0

/-- an entry as built ↦ the DWARF 5 entry kind of the same name -/
def asBuilt (enc : WExpr → Bytes) : WEntry → Entry
  | .baseAddress a => .baseAddress (addrVal a)
  | .offsetPair b e x => .offsetPair b e (enc x)
  | .startEnd b e x => .startEnd (addrVal b) (addrVal e) (enc x)
  | .startLength b len x => .startLength (addrVal b) len (enc x)
  | .defaultLocation x => .defaultLocation (enc x)

/-- no address table -/
def noTable : Table := fun _ => none

/-- The ranges (and location descriptions) a list as built denotes relative to the unit's base
address `base`, for address size `s`. -/
def meaning (s : Nat) (enc : WExpr → Bytes) (base : Nat) (l : WList) : List Denot :=
  resolveList s noTable base (l.map (asBuilt enc))

/-- the unit's base address as the reader sees it (`Unit::low_pc`): the root DIE's
`DW_AT_low_pc`, 0 if there is none -/
def unitBase : Option Addr → Nat
  | some (.const v) => v
  | _ => 0

end Gimli.Spec.WLists
