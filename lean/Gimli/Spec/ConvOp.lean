import Gimli.Model.ConvOp
/-!
# What conversion of one expression operation should preserve (C12, expression component)

`mapOp` is the *specification* side: the reader-side operation that must come out of
convert + write + read for an input operation `r` — **the same operation**, with

* every unit reference replaced by `u` of it (the output unit offset of the same DIE), the base
  type 0 (= generic type) staying 0;
* every `.debug_info` reference replaced by `refv` (what the fix-up pass puts there, C15
  `section_ref_resolves`);
* the sub-expression of `entry_value` replaced by `body` (the bytes its own conversion emitted);
* addresses passed through `convert_address` (`addr`), `addrx`/`constx` resolved through
  `.debug_addr` (`addrx`) — the writer has no `.debug_addr`, so they become `addr` / `constu`;
* and nothing else: in particular every operand of every other operation is unchanged.

Two reader invariants make the table simpler than the code: `DW_OP_regval_type` is decoded with
offset 0 (so dropping the offset of a typed register read loses nothing) and `DW_OP_piece` is
decoded with a bit size that is a multiple of 8 (both part of `RWf`, `Props.C12.decoded_in_range`).
-/
namespace Gimli.ConvOp

def mapBase (u : Nat → Nat) (bt : Nat) : Nat := if bt = 0 then 0 else u bt

def mapOp (u addr addrx : Nat → Nat) (refv : Nat) (body : Bytes) : Op.Operation → Op.Operation
  | .deref bt size space => .deref (mapBase u bt) size space
  | .registerOffset r o bt => .registerOffset r (if bt = 0 then o else 0) (mapBase u bt)
  | .typedLiteral bt v => .typedLiteral (u bt) v
  | .convert bt => .convert (mapBase u bt)
  | .reinterpret bt => .reinterpret (mapBase u bt)
  | .call (.unitRef o) => .call (.unitRef (u o))
  | .call (.debugInfoRef _) => .call (.debugInfoRef refv)
  | .variableValue _ => .variableValue refv
  | .implicitPointer _ bo => .implicitPointer refv bo
  | .parameterRef o => .parameterRef (u o)
  | .entryValue _ => .entryValue body
  | .address a => .address (addr a)
  | .addressIndex i => .address (addr (addrx i))
  | .constantIndex i => .unsignedConstant (addrx i)
  | .piece bits none => .piece (bits / 8 * 8) none
  | r => r

/-- the wrapped target offset `offset_from(..).wrapping_add(target as usize)` -/
def wrapOff (endOff : Nat) (target : Int) : Nat := (endOff + (target % 2 ^ 64).toNat) % 2 ^ 64

/-- `r` is `DW_OP_bra` or `DW_OP_skip` -/
def isBranch : Op.Operation → Bool
  | .bra _ => true
  | .skip _ => true
  | _ => false

/-- what is assumed about the environment: the writer knows an offset for every entry the
reference map returns, namely `u` of the input offset; `convert_address` yields constants `addr`;
`.debug_addr` look-ups yield `addrx` -/
structure EnvSpec (env : Env) (offs : Nat → Option Nat) (u addr addrx : Nat → Nat) : Prop where
  unit : ∀ o id, env.unitRef o = .ok id → offs id = some (u o)
  address : ∀ a x, env.convAddr a = some x → x = .constant (addr a)
  index : ∀ f i v, env.addrIndex = some f → f i = .ok v → v = addrx i

/-- Operand ranges of a *decoded* operation — every operand the decoder yields is in the range of
its Rust type (`u64`, `i64`, `Register(u16)`, `u8`, `u32`; a `deref` size is a `u8` or the
address size of the encoding), `DW_OP_regval_type` carries offset 0, a `DW_OP_piece` size is a
whole number of bytes. Proved of everything `Op.parse` returns: `Props.C12.decoded_in_range`. -/
def RWf (enc : Op.Encoding) : Op.Operation → Prop
  | .deref bt size _ => size < 2 ^ 8 ∨ (bt = 0 ∧ size = enc.addressSize)
  | .pick i => i < 2 ^ 8
  | .plusConstant v => v < 2 ^ 64
  | .unsignedConstant v => v < 2 ^ 64
  | .signedConstant v => -(2 : Int) ^ 63 ≤ v ∧ v < 2 ^ 63
  | .register r => r < 2 ^ 16
  | .registerOffset r o bt => r < 2 ^ 16 ∧ (-(2 : Int) ^ 63 ≤ o ∧ o < 2 ^ 63) ∧ (bt ≠ 0 → o = 0)
  | .frameOffset o => -(2 : Int) ^ 63 ≤ o ∧ o < 2 ^ 63
  | .piece bits none => bits < 2 ^ 64 ∧ bits % 8 = 0
  | .piece bits (some o) => bits < 2 ^ 64 ∧ o < 2 ^ 64
  | .implicitValue d => d.length < 2 ^ 64
  | .implicitPointer _ o => -(2 : Int) ^ 63 ≤ o ∧ o < 2 ^ 63
  | .wasmLocal i => i < 2 ^ 32
  | .wasmGlobal i => i < 2 ^ 32
  | .wasmStack i => i < 2 ^ 32
  | _ => True

/-- the environment hands out `u64` values (`Address::Constant(u64)`, `unit.address` is a `u64`) -/
structure EnvRanges (env : Env) : Prop where
  address : ∀ a v, env.convAddr a = some (.constant v) → v < 2 ^ 64
  index : ∀ f i v, env.addrIndex = some f → f i = .ok v → v < 2 ^ 64

/-- position by position: the lists have the same length and corresponding elements are related -/
def AllPairs {α β} (f : α → β → Prop) : List α → List β → Prop
  | [], [] => True
  | a :: as, b :: bs => f a b ∧ AllPairs f as bs
  | _, _ => False

mutual
/-- nesting depth of `entry_value` in a writer operation / expression (the depth of the native
recursion of `Operation::size` / `write`) -/
def opDepth : WOp.Operation → Nat
  | .entryValue body => exprDepth body + 1
  | _ => 0
def exprDepth : List WOp.Operation → Nat
  | [] => 0
  | op :: rest => max (opDepth op) (exprDepth rest)
end

end Gimli.ConvOp
